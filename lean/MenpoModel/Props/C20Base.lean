/-
C20 — convenience transform constructors follow their documented conventions.  Property theorems over the
executable rational model (the base set; `Props/C20Ext.lean` adds the object-level / factory / table theorems,
`Props/C20Real.lean` the statements over the real numbers; `Props/C20.lean` collects them).
-/
import MenpoModel.Core.C20
import Mathlib.Algebra.Ring.Rat
import Mathlib.Algebra.Order.Field.Rat
import Mathlib.Tactic.Ring
import Mathlib.Tactic.LinearCombination
import Mathlib.Tactic.FieldSimp
import Mathlib.Tactic.Linarith

namespace MenpoModel.C20

/-! ### PROPERTY: counter-clockwise rotation constructors (2-D) -/

/-- `R(θ)` sends `e₀ ↦ (cos θ, sin θ)` and `e₁ ↦ (−sin θ, cos θ)`: counter-clockwise by the signed angle -/
theorem rot2_basis (c s : Rat) :
    (rot2 c s).apply ⟨1, 0⟩ = ⟨c, s⟩ ∧ (rot2 c s).apply ⟨0, 1⟩ = ⟨-s, c⟩ := by
  constructor <;> simp [rot2, Aff2.apply]

/-- angles add: `R(α)·R(β) = R(α+β)` in the algebraic form of the addition formulas -/
theorem rot2_comp (c₁ s₁ c₂ s₂ : Rat) :
    (rot2 c₁ s₁).comp (rot2 c₂ s₂) = rot2 (c₁ * c₂ - s₁ * s₂) (s₁ * c₂ + c₁ * s₂) := by
  ext <;> simp only [rot2, Aff2.comp] <;> ring

theorem rot2_det (c s : Rat) (h : c * c + s * s = 1) : (rot2 c s).det = 1 := by
  simp only [rot2, Aff2.det]; linear_combination h

/-- negative angle = inverse: `R(−θ)·R(θ) = 1` -/
theorem rot2_neg_inverse (c s : Rat) (h : c * c + s * s = 1) :
    (rot2 c (-s)).comp (rot2 c s) = ⟨1, 0, 0, 0, 1, 0⟩ := by
  ext <;> simp only [rot2, Aff2.comp] <;> (first | ring1 | linear_combination h | linear_combination (-1 : Rat) * h)

/-! ### PROPERTY: 3-D constructors rotate about the stated axis in the right-handed sense -/

theorem rot3x_spec (c s : Rat) :
    (rot3x c s).apply ⟨1, 0, 0⟩ = ⟨1, 0, 0⟩ ∧ (rot3x c s).apply ⟨0, 1, 0⟩ = ⟨0, c, s⟩ ∧
    (rot3x c s).apply ⟨0, 0, 1⟩ = ⟨0, -s, c⟩ := by
  refine ⟨?_, ?_, ?_⟩ <;> simp [rot3x, Lin3.apply, V3.dot]
theorem rot3y_spec (c s : Rat) :
    (rot3y c s).apply ⟨0, 1, 0⟩ = ⟨0, 1, 0⟩ ∧ (rot3y c s).apply ⟨0, 0, 1⟩ = ⟨s, 0, c⟩ ∧
    (rot3y c s).apply ⟨1, 0, 0⟩ = ⟨c, 0, -s⟩ := by
  refine ⟨?_, ?_, ?_⟩ <;> simp [rot3y, Lin3.apply, V3.dot]
theorem rot3z_spec (c s : Rat) :
    (rot3z c s).apply ⟨0, 0, 1⟩ = ⟨0, 0, 1⟩ ∧ (rot3z c s).apply ⟨1, 0, 0⟩ = ⟨c, s, 0⟩ ∧
    (rot3z c s).apply ⟨0, 1, 0⟩ = ⟨-s, c, 0⟩ := by
  refine ⟨?_, ?_, ?_⟩ <;> simp [rot3z, Lin3.apply, V3.dot]

/-- each constructor is the Rodrigues rotation about its coordinate axis -/
theorem rot3x_rodrigues (c s : Rat) (v : V3) : (rot3x c s).apply v = rodrigues ⟨1, 0, 0⟩ c s v := by
  ext <;> simp only [rot3x, Lin3.apply, V3.dot, rodrigues, V3.add, V3.smul, V3.cross] <;> ring
theorem rot3y_rodrigues (c s : Rat) (v : V3) : (rot3y c s).apply v = rodrigues ⟨0, 1, 0⟩ c s v := by
  ext <;> simp only [rot3y, Lin3.apply, V3.dot, rodrigues, V3.add, V3.smul, V3.cross] <;> ring
theorem rot3z_rodrigues (c s : Rat) (v : V3) : (rot3z c s).apply v = rodrigues ⟨0, 0, 1⟩ c s v := by
  ext <;> simp only [rot3z, Lin3.apply, V3.dot, rodrigues, V3.add, V3.smul, V3.cross] <;> ring

theorem rot3_orthogonal (c s : Rat) (h : c * c + s * s = 1) :
    (rot3x c s).mul (rot3x c s).transpose = Lin3.one ∧
    (rot3y c s).mul (rot3y c s).transpose = Lin3.one ∧
    (rot3z c s).mul (rot3z c s).transpose = Lin3.one ∧
    (rot3x c s).det = 1 ∧ (rot3y c s).det = 1 ∧ (rot3z c s).det = 1 := by
  refine ⟨?_, ?_, ?_, ?_, ?_, ?_⟩
  · ext <;> simp only [rot3x, Lin3.mul, Lin3.transpose, Lin3.col0, Lin3.col1, Lin3.col2, V3.dot, Lin3.one] <;> (first | ring1 | linear_combination h | linear_combination (-1 : Rat) * h)
  · ext <;> simp only [rot3y, Lin3.mul, Lin3.transpose, Lin3.col0, Lin3.col1, Lin3.col2, V3.dot, Lin3.one] <;> (first | ring1 | linear_combination h | linear_combination (-1 : Rat) * h)
  · ext <;> simp only [rot3z, Lin3.mul, Lin3.transpose, Lin3.col0, Lin3.col1, Lin3.col2, V3.dot, Lin3.one] <;> (first | ring1 | linear_combination h | linear_combination (-1 : Rat) * h)
  · simp only [rot3x, Lin3.det, V3.dot, V3.cross]; (first | ring1 | linear_combination h | linear_combination (-1 : Rat) * h)
  · simp only [rot3y, Lin3.det, V3.dot, V3.cross]; (first | ring1 | linear_combination h | linear_combination (-1 : Rat) * h)
  · simp only [rot3z, Lin3.det, V3.dot, V3.cross]; (first | ring1 | linear_combination h | linear_combination (-1 : Rat) * h)

/-! ### PROPERTY: the reported axis and angle reconstruct the rotation, sign included -/

/-- 3-D: for the rotation about the unit axis `a` by the angle `(c, s)` and *any* unit vector
`p ⊥ a` (the code draws a random one), the recovered cosine is `c` and the recovered signed sine is
`s`; and the axis is fixed by the rotation.  So `(axis, angle)` reconstructs the rotation. -/
theorem axis_angle_reconstructs_3d (a p : V3) (c s : Rat)
    (ha : a.dot a = 1) (hp : p.dot p = 1) (hap : a.dot p = 0) :
    axisAngle3 (rodrigues a c s) a p = (c, s) ∧ rodrigues a c s a = a := by
  obtain ⟨ax, ay, az⟩ := a
  obtain ⟨px, py, pz⟩ := p
  simp only [V3.dot] at ha hp hap
  refine ⟨?_, ?_⟩
  · simp only [axisAngle3, rodrigues, V3.dot, V3.cross, V3.add, V3.smul, Prod.mk.injEq]
    constructor
    · linear_combination c * hp + (1 - c) * (ax * px + ay * py + az * pz) * hap
    · linear_combination s * (px * px + py * py + pz * pz) * ha + s * hp - s * (ax * px + ay * py + az * pz) * hap
  · ext <;> simp only [rodrigues, V3.dot, V3.cross, V3.add, V3.smul]
    · linear_combination (1 - c) * ax * ha
    · linear_combination (1 - c) * ay * ha
    · linear_combination (1 - c) * az * ha

/-- reversing the axis reverses the angle: the eigenvector's arbitrary sign is harmless -/
theorem rodrigues_neg_axis (a v : V3) (c s : Rat) : rodrigues a.neg c (-s) v = rodrigues a c s v := by
  ext <;> simp only [rodrigues, V3.neg, V3.dot, V3.cross, V3.add, V3.smul] <;> ring

/-- 2-D as the property requires it: the signed `(cos, sin)` reconstructs the rotation -/
theorem axis_angle_2d_spec (c s : Rat) :
    rot2 (axisAngle2Spec (rot2 c s)).1 (axisAngle2Spec (rot2 c s)).2 = rot2 c s := by
  simp [axisAngle2Spec, rot2]

/-- 2-D as coded (`arccos` of the first component only): correct exactly for non-negative angles … -/
theorem axis_angle_2d_coded_iff (c s : Rat) :
    rot2 (axisAngle2Coded (rot2 c s)).1 (axisAngle2Coded (rot2 c s)).2 = rot2 c s ↔ 0 ≤ s := by
  have e : axisAngle2Coded (rot2 c s) = (c, if s < 0 then -s else s) := rfl
  rw [e]
  by_cases hs : s < 0
  · simp only [hs, if_true, rot2, Aff2.mk.injEq, true_and, and_true]
    constructor
    · intro h; linarith [h.2]
    · intro h; linarith
  · have h0 : 0 ≤ s := not_lt.mp hs
    simp [hs, h0]

/-- … and refuted for a clockwise quarter turn: the sign is lost (KNOWN FINDING, pinned by
`test_basic_2d_rotation_axis_angle`) -/
theorem axis_angle_2d_coded_refuted :
    rot2 (axisAngle2Coded (rot2 0 (-1))).1 (axisAngle2Coded (rot2 0 (-1))).2 = rot2 0 1 ∧
    rot2 0 1 ≠ rot2 0 (-1) := by
  constructor
  · decide
  · decide

/-! ### PROPERTY: transforms about a centre -/

theorem about_centre2_offsets (ctr v : V2) (t : Aff2) :
    (aboutCentre2 ctr t).apply (ctr.add v) = ctr.add (t.apply v) := by
  ext <;> simp only [aboutCentre2, transl2, Aff2.comp, Aff2.apply, V2.add, V2.neg] <;> ring

/-- a linear transform about the centre keeps the centre fixed -/
theorem about_centre2_fixes (ctr : V2) (t : Aff2) (h0 : t.tx = 0 ∧ t.ty = 0) :
    (aboutCentre2 ctr t).apply ctr = ctr := by
  ext <;> simp only [aboutCentre2, transl2, Aff2.comp, Aff2.apply, V2.neg, h0.1, h0.2] <;> ring

theorem about_centre3_offsets (ctr v : V3) (m : Aff3) :
    (aboutCentre3 ctr m).apply (ctr.add v) = ctr.add (m.apply v) := by
  ext <;> simp only [aboutCentre3, Aff3.apply, Lin3.apply, V3.dot, V3.add, V3.neg] <;> ring

theorem about_centre3_fixes (ctr : V3) (m : Aff3) (h0 : m.t = ⟨0, 0, 0⟩) :
    (aboutCentre3 ctr m).apply ctr = ctr := by
  ext <;> simp only [aboutCentre3, Aff3.apply, Lin3.apply, V3.dot, V3.add, V3.neg, h0] <;> ring

/-- the three factory functions are linear transforms about the centre -/
theorem factories_are_linear (c s k tp ts : Rat) :
    ((rot2 c s).tx = 0 ∧ (rot2 c s).ty = 0) ∧ ((uscale2 k).tx = 0 ∧ (uscale2 k).ty = 0) ∧
    ((shear2 tp ts).tx = 0 ∧ (shear2 tp ts).ty = 0) := by
  simp [rot2, uscale2, shear2]

/-! ### PROPERTY: the `Scale` factory -/

theorem scale_factory_spec (ks : List Rat) :
    (scaleFactory ks = none ↔ (ks = [] ∨ ∃ k ∈ ks, k = 0)) ∧
    (∀ k n, scaleFactory ks = some (.uniform k n) ↔
        (ks ≠ [] ∧ (∀ x ∈ ks, x ≠ 0) ∧ (∀ x ∈ ks, x = k) ∧ n = ks.length)) ∧
    (∀ l, scaleFactory ks = some (.nonUniform l) ↔
        (l = ks ∧ (∀ x ∈ ks, x ≠ 0) ∧ ∃ x ∈ ks, ∃ y ∈ ks, x ≠ y)) := by
  unfold scaleFactory
  by_cases hz : ks.any (· == 0) = true
  · have hz' : ∃ k ∈ ks, k = 0 := by simpa using hz
    obtain ⟨k0, hk0, rfl⟩ := hz'
    simp only [hz, if_true, true_iff, reduceCtorEq, false_iff]
    refine ⟨Or.inr ⟨0, hk0, rfl⟩, ?_, ?_⟩
    · intro k n h; exact h.2.1 0 hk0 rfl
    · intro l h; exact h.2.1 0 hk0 rfl
  · have hnz : ∀ x ∈ ks, x ≠ 0 := by
      intro x hx h0; apply hz; simp only [List.any_eq_true, beq_iff_eq]; exact ⟨x, hx, h0⟩
    simp only [hz]
    cases ks with
    | nil => simp
    | cons k0 t =>
      by_cases hall : (k0 :: t).all (· == k0) = true
      · have hall' : ∀ x ∈ k0 :: t, x = k0 := by simpa using hall
        simp only [Bool.false_eq_true, if_false, hall, if_true, reduceCtorEq, false_iff, Option.some.injEq,
          ScaleKind.uniform.injEq]
        refine ⟨?_, ?_, ?_⟩
        · intro h; rcases h with h | ⟨k, hk, rfl⟩
          · simp at h
          · exact hnz 0 hk rfl
        · intro k n
          constructor
          · rintro ⟨rfl, rfl⟩; exact ⟨by simp, hnz, hall', rfl⟩
          · rintro ⟨_, _, h3, h4⟩
            exact ⟨(h3 k0 (by simp)), h4.symm⟩
        · intro l h
          obtain ⟨_, _, x, hx, y, hy, hxy⟩ := h
          exact hxy ((hall' x hx).trans (hall' y hy).symm)
      · have hne : ∃ x ∈ k0 :: t, x ≠ k0 := by
          simp only [Bool.not_eq_true] at hall
          have := List.all_eq_false.mp hall
          obtain ⟨x, hx, hxk⟩ := this
          exact ⟨x, hx, by simpa using hxk⟩
        simp only [Bool.false_eq_true, if_false, hall, reduceCtorEq, false_iff, Option.some.injEq,
          ScaleKind.nonUniform.injEq]
        refine ⟨?_, ?_, ?_⟩
        · intro h; rcases h with h | ⟨k, hk, rfl⟩
          · simp at h
          · exact hnz 0 hk rfl
        · intro k n h
          obtain ⟨x, hx, hxk⟩ := hne
          have h3 := h.2.2.1
          exact hxk ((h3 x hx).trans (h3 k0 (by simp)).symm)
        · intro l
          constructor
          · rintro rfl
            obtain ⟨x, hx, hxk⟩ := hne
            exact ⟨rfl, hnz, x, hx, k0, by simp, hxk⟩
          · rintro ⟨rfl, _⟩; rfl

/-! ### PROPERTY: texture ↔ image coordinates -/

theorem tcoords_formula (h w : Rat) (p : V2) :
    (tcoordsToImage h w).apply p = ⟨(1 - p.y) * (h - 1), p.x * (w - 1)⟩ := by
  ext <;> simp only [tcoordsToImage, scale2, flipXY, invertUnitY, Aff2.comp, Aff2.apply] <;> ring

/-- unit-square corners ↦ corner pixels, vertical axis flipped -/
theorem tcoords_corners (h w : Rat) :
    (tcoordsToImage h w).apply ⟨0, 0⟩ = ⟨h - 1, 0⟩ ∧ (tcoordsToImage h w).apply ⟨0, 1⟩ = ⟨0, 0⟩ ∧
    (tcoordsToImage h w).apply ⟨1, 1⟩ = ⟨0, w - 1⟩ ∧ (tcoordsToImage h w).apply ⟨1, 0⟩ = ⟨h - 1, w - 1⟩ := by
  refine ⟨?_, ?_, ?_, ?_⟩ <;> rw [tcoords_formula] <;> simp

/-- mutual inverses for every image with at least two rows and two columns
(for a side of length 1 the scale is zero and `Scale` rightly refuses) -/
theorem tcoords_mutual_inverse (h w : Rat) (hh : h ≠ 1) (hw : w ≠ 1) (p : V2) :
    (imageToTcoords h w).apply ((tcoordsToImage h w).apply p) = p ∧
    (tcoordsToImage h w).apply ((imageToTcoords h w).apply p) = p := by
  have h1 : h - 1 ≠ 0 := sub_ne_zero.mpr hh
  have h2 : w - 1 ≠ 0 := sub_ne_zero.mpr hw
  constructor <;> ext <;>
    simp only [imageToTcoords, Aff2.inv, Aff2.det, tcoordsToImage, scale2, flipXY, invertUnitY, Aff2.comp,
      Aff2.apply] <;> field_simp <;> ring

/-! ### PROPERTY: quaternion parameters round-trip -/

/-- the matrix built from any non-zero quaternion is a proper rotation -/
theorem quat_matrix_orthogonal (w x y z : Rat) (hn : w * w + x * x + y * y + z * z ≠ 0) :
    (quatToLin w x y z).mul (quatToLin w x y z).transpose = Lin3.one ∧ (quatToLin w x y z).det = 1 := by
  obtain ⟨n, hdef⟩ : ∃ n, n = w * w + x * x + y * y + z * z := ⟨_, rfl⟩
  have hn' : n ≠ 0 := by rw [hdef]; exact hn
  constructor
  · ext <;> simp only [quatToLin, Lin3.mul, Lin3.transpose, Lin3.col0, Lin3.col1, Lin3.col2, V3.dot, Lin3.one] <;>
      rw [← hdef] <;> field_simp <;> subst hdef <;> ring
  · simp only [quatToLin, Lin3.det, V3.dot, V3.cross]
    rw [← hdef]; field_simp; subst hdef; ring

/-- `as_vector` recovers the quaternion: `(x, y, z, w)` is an eigenvector of `K(R(q))` with
eigenvalue 1 (the largest: the others are −1/3), so under the `eigh` contract the canonical unit
quaternion (`w > 0`) is returned -/
theorem quat_K_eigen (w x y z : Rat) (hn : w * w + x * x + y * y + z * z = 1) :
    quatK (quatToLin w x y z) x y z w = (x, y, z, w) := by
  simp only [quatK, quatToLin, hn, Prod.mk.injEq]
  refine ⟨?_, ?_, ?_, ?_⟩ <;> field_simp
  · linear_combination (4 * x) * hn
  · linear_combination (4 * y) * hn
  · linear_combination (4 * z) * hn
  · ring

/-- `from_vector` then `as_vector` is scale-invariant in the quaternion, as the code normalises -/
theorem quat_scale_invariant (w x y z k : Rat) (hk : k ≠ 0) (hn : w * w + x * x + y * y + z * z ≠ 0) :
    quatToLin (k * w) (k * x) (k * y) (k * z) = quatToLin w x y z := by
  obtain ⟨n, hdef⟩ : ∃ n, n = w * w + x * x + y * y + z * z := ⟨_, rfl⟩
  have hn' : n ≠ 0 := by rw [hdef]; exact hn
  have e : (k * w) * (k * w) + (k * x) * (k * x) + (k * y) * (k * y) + (k * z) * (k * z) = k * k * n := by
    rw [hdef]; ring
  ext <;> simp only [quatToLin] <;> rw [e, ← hdef] <;> field_simp

/-! ### non-vacuity -/
example : (rot2 (3/5) (4/5)).apply ⟨1, 0⟩ = ⟨3/5, 4/5⟩ := by decide +kernel
example : ((3:Rat)/5) * (3/5) + (4/5) * (4/5) = 1 := by decide +kernel
example : (aboutCentre2 ⟨2, 3⟩ (rot2 0 1)).apply ⟨2, 3⟩ = ⟨2, 3⟩ := by decide +kernel
example : scaleFactory [2, 2, 2] = some (.uniform 2 3) := by decide +kernel
example : scaleFactory [2, 3] = some (.nonUniform [2, 3]) := by decide +kernel
example : scaleFactory [2, 0] = none := by decide +kernel
example : (tcoordsToImage 5 7).apply ⟨1, 0⟩ = ⟨4, 6⟩ := by decide +kernel
example : let a : V3 := ⟨3/5, 4/5, 0⟩; let p : V3 := ⟨0, 0, 1⟩
    a.dot a = 1 ∧ p.dot p = 1 ∧ a.dot p = 0 := by decide +kernel
example : quatToLin 1 0 0 0 = Lin3.one := by decide +kernel
example : (1:Rat)/2 * (1/2) + (1/2) * (1/2) + (1/2) * (1/2) + (1/2) * (1/2) = 1 := by decide +kernel

end MenpoModel.C20
