/-
C07 — alignments recover exact maps, fit optimally where promised, and interpolate.

Theorems about the executable model `Core/C07Align.lean` (the same definitions the driver `Drive/C07.lean`
runs).  Model matrices are plain functions `Fin n → Fin m → ℚ`; `toM` views them as Mathlib matrices and one
lemma per operation (`toM_mul`, `toM_tr`, …) transports every statement to Mathlib's matrix algebra.

Clauses of the property and where they are proved
* exact recovery of a family member ........ `translation_recovery`, `scale_recovery`, `affine_recovers_target`,
    `affine_exact_recovery`, `rotation_recovers_target_{mirror,2d,3d}` (+ `linear_unique_of_full_rank`),
    `similarity_recovers_target_{mirror,2d,3d,norot}`
* least-squares optimality .................. `translation_ls_optimal` (with the exact excess `translation_ls_excess`),
    `affine_ls_optimal`, `rotation_ls_optimal_mirror` (all dimensions), `rotation_ls_optimal_2d`, `rotation_ls_optimal_3d`
    (determinant-constrained Kabsch, proved — no partial clause left here)
* never a reflection unless allowed ......... `rotation_no_reflection_2d`, `rotation_no_reflection_3d`, `rotFit_isOrth`
* scale / similarity: centroid, size, LS rotation ... `scale_reproduces_size`, `similarity_reproduces_centroid`,
    `similarity_reproduces_size`, `similarity_uses_ls_rotation_{mirror,2d,3d}`
* TPS / PWA interpolate; PWA affine per triangle, continuous across edges ... `tps_interpolates`,
    `alpha_beta_correct`, `alpha_beta_reconstruct`, `pwa_interpolates`, `triMap_affine`, `pwa_affine_in_triangle`,
    `pwa_edge_continuity`, `pwa_on_edge`
* aligned source / alignment error .......... `aligned_source_def`, `alignment_error_def` (constructor keeps the
    requested target), `alignment_error_resync_zero` + `alignment_error_resync_refuted` (the constructor of the original
    tree for affine/rotation: reported error identically 0 — DESIGN §7 #22)

External numerical routines are contract parameters: `np.linalg.svd` (`SvdOK`), `np.linalg.norm` (`r ≥ 0 ∧ r·r = norm2`),
the RBF kernel values (arbitrary).  `np.linalg.solve` / the TPS pseudo-inverse are *not* assumed: the model's solve is
checked (`solveChecked_spec`).
-/
import MenpoModel.Core.C07Align
import Mathlib.Data.Matrix.Mul
import Mathlib.LinearAlgebra.Matrix.Trace
import Mathlib.Data.Matrix.Diagonal
import Mathlib.Algebra.BigOperators.Fin
import Mathlib.Tactic.Ring
import Mathlib.Tactic.Abel
import Mathlib.Tactic.Linarith
import Mathlib.Tactic.FieldSimp
import Mathlib.Tactic.LinearCombination
import Mathlib.Algebra.Order.Field.Rat
import Mathlib.Algebra.Order.BigOperators.Ring.Finset
import Mathlib.LinearAlgebra.Matrix.Determinant.Basic
import Mathlib.LinearAlgebra.Matrix.Adjugate
import Mathlib.LinearAlgebra.Matrix.Notation

open Matrix
namespace MenpoModel.C07

theorem sumF_eq {n : ℕ} (f : Fin n → ℚ) : sumF f = ∑ i, f i := by
  unfold sumF; exact List.sum_ofFn

/-- view a model matrix as a Mathlib matrix -/
def toM {n m : ℕ} (A : Mat n m) : Matrix (Fin n) (Fin m) ℚ := Matrix.of A

@[simp] theorem toM_apply {n m : ℕ} (A : Mat n m) (i j) : toM A i j = A i j := rfl
theorem toM_inj {n m : ℕ} {A B : Mat n m} (h : toM A = toM B) : A = B := by
  funext i j; exact congrFun (congrFun h i) j
theorem toM_mul {n k m : ℕ} (A : Mat n k) (B : Mat k m) : toM (mul A B) = toM A * toM B := by
  ext i j; simp [mul, sumF_eq, Matrix.mul_apply]
theorem toM_tr {n m : ℕ} (A : Mat n m) : toM (tr A) = (toM A)ᵀ := by
  ext i j; simp [tr]
theorem toM_sub {n m : ℕ} (A B : Mat n m) : toM (msub A B) = toM A - toM B := by
  ext i j; simp [msub]
theorem toM_one {n : ℕ} : toM (one : Mat n n) = 1 := by
  ext i j; simp [one, Matrix.one_apply]
theorem frob2_eq {n m : ℕ} (A : Mat n m) : frob2 A = trace (toM A * (toM A)ᵀ) := by
  simp [frob2, sumF_eq, trace, Matrix.mul_apply]

/-- tabulating a model matrix and reading it back is the identity: the driver's `tab`/`ofArr` steps (evaluate
once, then look up) do not change any value it prints -/
theorem ofArr_toArr {n m : ℕ} (A : Mat n m) : ofArr (toArr A) = A := by
  funext i j
  simp [ofArr, toArr, Array.getD]

theorem frob2_sum {n m : ℕ} (A : Mat n m) : frob2 A = ∑ i, ∑ j, A i j * A i j := by
  simp [frob2, sumF_eq]

theorem frob2_nonneg {n m : ℕ} (A : Mat n m) : 0 ≤ frob2 A := by
  rw [frob2_sum]
  exact Finset.sum_nonneg fun i _ => Finset.sum_nonneg fun j _ => mul_self_nonneg _

theorem frob2_eq_zero {n m : ℕ} {A : Mat n m} (h : frob2 A = 0) : ∀ i j, A i j = 0 := by
  rw [frob2_sum] at h
  intro i j
  have h1 := (Finset.sum_eq_zero_iff_of_nonneg (fun i _ => Finset.sum_nonneg fun j _ => mul_self_nonneg (A i j))).1 h i (Finset.mem_univ _)
  have h2 := (Finset.sum_eq_zero_iff_of_nonneg (fun j _ => mul_self_nonneg (A i j))).1 h1 j (Finset.mem_univ _)
  exact mul_self_eq_zero.1 h2

@[simp] theorem linPart_mkH {d : ℕ} (L : Mat d d) (t : Vec d) : linPart (mkH L t) = L := by
  funext i j; simp [linPart, mkH]
@[simp] theorem transPart_mkH {d : ℕ} (L : Mat d d) (t : Vec d) : transPart (mkH L t) = t := by
  funext i; simp [transPart, mkH]

theorem applyH_mkH {n d : ℕ} (L : Mat d d) (t : Vec d) (P : Mat n d) (i : Fin n) (j : Fin d) :
    applyH (mkH L t) P i j = (∑ l, P i l * L j l) + t j := by
  simp [applyH, sumF_eq]

theorem applyH_translation {n d : ℕ} (u : Vec d) (P : Mat n d) (i : Fin n) (j : Fin d) :
    applyH (translationH u) P i j = P i j + u j := by
  simp [translationH, applyH_mkH, one]

theorem mkH_isAff {d : ℕ} (L : Mat d d) (t : Vec d) : IsAff (mkH L t) := by
  constructor
  · intro j; simp [mkH]
  · simp [mkH]

/-- one coordinate of the translation problem -/
theorem sum_sq_shift {n : ℕ} (hn : n ≠ 0) (f : Fin n → ℚ) (u : ℚ) :
    ∑ i, (f i + u) * (f i + u) =
      ∑ i, (f i + -(∑ k, f k) / n) * (f i + -(∑ k, f k) / n) + n * ((u - -(∑ k, f k) / n) * (u - -(∑ k, f k) / n)) := by
  have hn' : (n : ℚ) ≠ 0 := Nat.cast_ne_zero.2 hn
  have e : ∀ c : ℚ, ∑ i, (f i + c) * (f i + c) = ∑ i, f i * f i + 2 * c * ∑ i, f i + n * (c * c) := by
    intro c
    have : ∀ i, (f i + c) * (f i + c) = f i * f i + 2 * c * f i + c * c := fun i => by ring
    simp only [this, Finset.sum_add_distrib, ← Finset.mul_sum, Finset.sum_const, Finset.card_univ, Fintype.card_fin, nsmul_eq_mul]
    ring
  rw [e u, e]
  field_simp
  ring

theorem centroid_eq {n d : ℕ} (P : Mat n d) (j : Fin d) : centroid P j = (∑ i, P i j) / n := by
  simp [centroid, sumF_eq]

/-- **translation is least-squares optimal**, with the exact excess of every competitor -/
theorem translation_ls_excess {n d : ℕ} (hn : n ≠ 0) (S T : Mat n d) (u : Vec d) :
    err2 (applyH (translationH u) S) T =
      err2 (applyH (fitTranslation S T) S) T + n * ∑ j, (u j - fitTranslationVec S T j) * (u j - fitTranslationVec S T j) := by
  have hn' : (n : ℚ) ≠ 0 := Nat.cast_ne_zero.2 hn
  simp only [err2, frob2_sum, msub, fitTranslation, applyH_translation]
  rw [Finset.sum_comm, Finset.sum_comm (f := fun i j => (S i j + fitTranslationVec S T j - T i j) * _), Finset.mul_sum,
    ← Finset.sum_add_distrib]
  apply Finset.sum_congr rfl
  intro j _
  have key := sum_sq_shift hn (fun i => S i j - T i j) (u j)
  have ht : fitTranslationVec S T j = -(∑ k, (S k j - T k j)) / n := by
    simp only [fitTranslationVec, centroid_eq, Finset.sum_sub_distrib]
    field_simp; ring
  rw [ht]
  have e1 : ∀ c : ℚ, ∑ i, (S i j + c - T i j) * (S i j + c - T i j) = ∑ i, (S i j - T i j + c) * (S i j - T i j + c) :=
    fun c => Finset.sum_congr rfl fun i _ => by ring
  rw [e1, e1]
  exact key

theorem translation_ls_optimal {n d : ℕ} (hn : n ≠ 0) (S T : Mat n d) (u : Vec d) :
    err2 (applyH (fitTranslation S T) S) T ≤ err2 (applyH (translationH u) S) T := by
  rw [translation_ls_excess hn S T u]
  have : 0 ≤ (n : ℚ) * ∑ j, (u j - fitTranslationVec S T j) * (u j - fitTranslationVec S T j) :=
    mul_nonneg (Nat.cast_nonneg _) (Finset.sum_nonneg fun j _ => mul_self_nonneg _)
  linarith

/-- exact recovery of a translation -/
theorem translation_recovery {n d : ℕ} (hn : n ≠ 0) (S : Mat n d) (u : Vec d) :
    fitTranslation S (applyH (translationH u) S) = translationH u := by
  have hn' : (n : ℚ) ≠ 0 := Nat.cast_ne_zero.2 hn
  unfold fitTranslation
  congr 1
  funext j
  simp only [fitTranslationVec, centroid_eq, applyH_translation, Finset.sum_add_distrib, Finset.sum_const,
    Finset.card_univ, Fintype.card_fin, nsmul_eq_mul]
  field_simp; ring

/-! ### affine -/

theorem matEqB_eq {n m : ℕ} {A B : Mat n m} (h : matEqB A B = true) : A = B := by
  funext i j
  simp only [matEqB, List.all_eq_true, List.mem_finRange, true_implies, beq_iff_eq] at h
  exact h i j

theorem solveChecked_spec {k p : ℕ} {G : Mat k k} {Y X : Mat k p} (h : solveChecked G Y = some X) : mul G X = Y := by
  unfold solveChecked at h
  dsimp only at h
  split at h
  · exact absurd h (by simp)
  · split at h
    · rename_i hc
      have := Option.some.inj h
      subst this
      exact matEqB_eq hc
    · exact absurd h (by simp)

/-- what `affineFit` returns satisfies the normal equations `(A Aᵀ) Hᵀ = A Bᵀ` -/
theorem affineFit_normal {n d : ℕ} {S T : Mat n d} {H : HMat d} (h : affineFit S T = some H) :
    mul (mul (hpoints S) (tr (hpoints S))) (tr H) = mul (hpoints S) (tr (hpoints T)) := by
  unfold affineFit at h
  simp only [Option.map_eq_some_iff] at h
  obtain ⟨X, hX, rfl⟩ := h
  have := solveChecked_spec hX
  have e : tr (tr X) = X := rfl
  rw [e]; exact this

def mfrob2 {m n : ℕ} (A : Matrix (Fin m) (Fin n) ℚ) : ℚ := trace (A * Aᵀ)

theorem mfrob2_nonneg {m n : ℕ} (A : Matrix (Fin m) (Fin n) ℚ) : 0 ≤ mfrob2 A := by
  unfold mfrob2
  simp only [trace, diag, mul_apply, transpose_apply]
  exact Finset.sum_nonneg fun i _ => Finset.sum_nonneg fun j _ => mul_self_nonneg _

/-- normal equations ⇒ minimal Frobenius residual among *all* matrices -/
theorem normal_eq_optimal {m n p : ℕ} (A : Matrix (Fin m) (Fin n) ℚ) (B : Matrix (Fin p) (Fin n) ℚ)
    (M M' : Matrix (Fin p) (Fin m) ℚ) (hne : (A * Aᵀ) * Mᵀ = A * Bᵀ) :
    mfrob2 (M * A - B) ≤ mfrob2 (M' * A - B) := by
  have horth : (M * A - B) * Aᵀ = 0 := by
    have h1 : ((A * Aᵀ) * Mᵀ)ᵀ = (A * Bᵀ)ᵀ := by rw [hne]
    simp only [transpose_mul, transpose_transpose] at h1
    rw [Matrix.sub_mul, Matrix.mul_assoc, ← h1]
    simp
  set D := M' - M with hD
  have hsplit : M' * A - B = (M * A - B) + D * A := by
    rw [hD, Matrix.sub_mul]; abel
  have hcross : trace ((M * A - B) * (D * A)ᵀ) = 0 := by
    rw [transpose_mul, ← Matrix.mul_assoc, horth, Matrix.zero_mul, trace_zero]
  have hcross' : trace ((D * A) * (M * A - B)ᵀ) = 0 := by
    rw [← trace_transpose, transpose_mul, transpose_transpose]; exact hcross
  have : mfrob2 (M' * A - B) = mfrob2 (M * A - B) + mfrob2 (D * A) := by
    unfold mfrob2
    rw [hsplit, transpose_add, Matrix.add_mul, Matrix.mul_add, Matrix.mul_add, trace_add, trace_add, trace_add,
      hcross, hcross']; ring
  have := mfrob2_nonneg (D * A)
  linarith

theorem frob2_mfrob2 {n m : ℕ} (A : Mat n m) : frob2 A = mfrob2 (toM A) := frob2_eq A

/-- residual of the homogeneous row (`0` for an affine matrix) -/
def lastRes {n d : ℕ} (H : HMat d) (S : Mat n d) (i : Fin n) : ℚ :=
  (∑ l : Fin d, H (Fin.last d) l.castSucc * S i l) + H (Fin.last d) (Fin.last d) - 1

theorem lastRes_aff {n d : ℕ} {H : HMat d} (hH : IsAff H) (S : Mat n d) (i : Fin n) : lastRes H S i = 0 := by
  simp [lastRes, hH.1, hH.2]

theorem hres_entry {n d : ℕ} (H : HMat d) (S T : Mat n d) (i : Fin n) (j : Fin d) :
    msub (mul H (hpoints S)) (hpoints T) j.castSucc i = applyH H S i j - T i j := by
  simp only [msub, mul, sumF_eq, hpoints, applyH, linPart, transPart, Fin.sum_univ_castSucc]
  simp [mul_comm]

theorem hres_last {n d : ℕ} (H : HMat d) (S T : Mat n d) (i : Fin n) :
    msub (mul H (hpoints S)) (hpoints T) (Fin.last d) i = lastRes H S i := by
  simp only [msub, mul, sumF_eq, hpoints, lastRes, Fin.sum_univ_castSucc]
  simp

theorem frob2_hres {n d : ℕ} (H : HMat d) (S T : Mat n d) :
    frob2 (msub (mul H (hpoints S)) (hpoints T)) = err2 (applyH H S) T + ∑ i, lastRes H S i * lastRes H S i := by
  rw [frob2_sum, Fin.sum_univ_castSucc]
  simp only [hres_entry, hres_last]
  rw [Finset.sum_comm]
  simp [err2, frob2_sum, msub]

/-- **affine alignment is least-squares optimal** among all affine maps -/
theorem affine_ls_optimal {n d : ℕ} {S T : Mat n d} {H : HMat d} (h : affineFit S T = some H)
    (H' : HMat d) (hH' : IsAff H') : err2 (applyH H S) T ≤ err2 (applyH H' S) T := by
  have hne := affineFit_normal h
  have hne' : (toM (hpoints S) * (toM (hpoints S))ᵀ) * (toM H)ᵀ = toM (hpoints S) * (toM (hpoints T))ᵀ := by
    have := congrArg toM hne
    simpa only [toM_mul, toM_tr] using this
  have key := normal_eq_optimal (toM (hpoints S)) (toM (hpoints T)) (toM H) (toM H') hne'
  rw [← toM_mul, ← toM_mul, ← toM_sub, ← toM_sub, ← frob2_mfrob2, ← frob2_mfrob2, frob2_hres, frob2_hres] at key
  have h0 : ∑ i, lastRes H' S i * lastRes H' S i = 0 := by simp [lastRes_aff hH']
  have h1 : 0 ≤ ∑ i, lastRes H S i * lastRes H S i := Finset.sum_nonneg fun i _ => mul_self_nonneg _
  linarith

theorem err2_nonneg {n d : ℕ} (X T : Mat n d) : 0 ≤ err2 X T := frob2_nonneg _
theorem err2_self {n d : ℕ} (X : Mat n d) : err2 X X = 0 := by simp [err2, frob2_sum, msub]
theorem err2_eq_zero {n d : ℕ} {X T : Mat n d} (h : err2 X T = 0) : X = T := by
  funext i j
  have := frob2_eq_zero h i j
  simp only [msub] at this
  linarith

theorem hpoints_applyH {n d : ℕ} {H : HMat d} (hH : IsAff H) (P : Mat n d) :
    hpoints (applyH H P) = mul H (hpoints P) := by
  funext r i
  refine Fin.lastCases ?_ (fun j => ?_) r
  · simp only [mul, sumF_eq, hpoints, Fin.sum_univ_castSucc]
    simp [hH.1, hH.2]
  · simp only [mul, sumF_eq, hpoints, applyH, linPart, transPart, Fin.sum_univ_castSucc]
    simp [mul_comm]

/-- **exact recovery, target form**: if the target is an affine image of the source, the fitted map sends the
source exactly onto it (no rank hypothesis needed) -/
theorem affine_recovers_target {n d : ℕ} {S : Mat n d} {H₀ H : HMat d} (h₀ : IsAff H₀)
    (h : affineFit S (applyH H₀ S) = some H) : applyH H S = applyH H₀ S := by
  have := affine_ls_optimal h H₀ h₀
  rw [err2_self] at this
  exact err2_eq_zero (le_antisymm this (err2_nonneg _ _))

/-- **exact recovery, matrix form**: with `a·aᵀ` invertible the fitted matrix *is* the generating one -/
theorem affine_exact_recovery {n d : ℕ} {S : Mat n d} {H₀ H : HMat d} (h₀ : IsAff H₀)
    (h : affineFit S (applyH H₀ S) = some H)
    (Gi : HMat d) (hGi : mul Gi (mul (hpoints S) (tr (hpoints S))) = one) : H = H₀ := by
  have hne := affineFit_normal h
  rw [hpoints_applyH h₀] at hne
  have e := congrArg toM hne
  have eG := congrArg toM hGi
  simp only [toM_mul, toM_tr, toM_one, transpose_mul] at e eG
  -- G Hᵀ = A Aᵀ H₀ᵀ = G H₀ᵀ
  have e2 : (toM H)ᵀ = (toM H₀)ᵀ := by
    set G := toM (hpoints S) * (toM (hpoints S))ᵀ with hG
    have e' : G * (toM H)ᵀ = G * (toM H₀)ᵀ := by rw [e, hG, Matrix.mul_assoc]
    calc (toM H)ᵀ = (toM Gi * G) * (toM H)ᵀ := by rw [eG, Matrix.one_mul]
      _ = toM Gi * (G * (toM H₀)ᵀ) := by rw [Matrix.mul_assoc, e']
      _ = (toM H₀)ᵀ := by rw [← Matrix.mul_assoc, eG, Matrix.one_mul]
  apply toM_inj
  have := congrArg Matrix.transpose e2
  simpa using this

/-! ### rotation -/

/-- orthogonal matrix (either one-sided identity implies the other for square matrices; both are kept) -/
structure IsOrth {d : ℕ} (Q : Mat d d) : Prop where
  left : mul (tr Q) Q = one
  right : mul Q (tr Q) = one

def diagM {d : ℕ} (D : Vec d) : Mat d d := fun i j => if i = j then D i else 0

/-- the contract of `U, D, Vt = np.linalg.svd(M)` -/
structure SvdOK {d : ℕ} (M U : Mat d d) (D : Vec d) (Vt : Mat d d) : Prop where
  orthU : IsOrth U
  orthV : IsOrth Vt
  fact : mul U (mul (diagM D) Vt) = M
  nonneg : ∀ i, 0 ≤ D i
  sorted : ∀ i j : Fin d, i.val ≤ j.val → D j ≤ D i

theorem svdContractB_sound {d : ℕ} {M U : Mat d d} {D : Vec d} {Vt : Mat d d}
    (h : svdContractB M U D Vt = true) : SvdOK M U D Vt := by
  simp only [svdContractB, Bool.and_eq_true, List.all_eq_true, List.mem_finRange, true_implies,
    decide_eq_true_eq] at h
  obtain ⟨⟨⟨⟨⟨⟨h1, h2⟩, h3⟩, h4⟩, h5⟩, h6⟩, h7⟩ := h
  exact ⟨⟨matEqB_eq h1, matEqB_eq h2⟩, ⟨matEqB_eq h3, matEqB_eq h4⟩, matEqB_eq h5, h6, h7⟩

theorem toM_diagM {d : ℕ} (D : Vec d) : toM (diagM D) = diagonal D := by
  ext i j; simp [diagM, diagonal_apply]

theorem applyH_rotation {n d : ℕ} (R : Mat d d) (P : Mat n d) : applyH (rotationH R) P = mul P (tr R) := by
  funext i j
  simp [rotationH, applyH_mkH, mul, tr, sumF_eq]

theorem orth_diag_le_one {n : ℕ} (W : Matrix (Fin n) (Fin n) ℚ) (h : W * Wᵀ = 1) (i : Fin n) : W i i ≤ 1 := by
  have h1 : (W * Wᵀ) i i = 1 := by rw [h]; simp
  rw [Matrix.mul_apply] at h1
  simp only [Matrix.transpose_apply] at h1
  have h2 : W i i * W i i ≤ ∑ j, W i j * W i j :=
    Finset.single_le_sum (f := fun j => W i j * W i j) (fun j _ => mul_self_nonneg _) (Finset.mem_univ i)
  nlinarith [mul_self_nonneg (W i i - 1), mul_self_nonneg (W i i + 1)]

theorem trace_diag_mul {n : ℕ} (d : Fin n → ℚ) (W : Matrix (Fin n) (Fin n) ℚ) :
    trace (diagonal d * W) = ∑ i, d i * W i i := by
  simp [trace, Matrix.diagonal_mul]

/-- the change of variables behind Kabsch: `tr(Mᵀ X) = tr(D · Uᵀ X V)` -/
theorem kabsch_key {n : ℕ} (M U V : Matrix (Fin n) (Fin n) ℚ) (d : Fin n → ℚ)
    (hM : M = U * diagonal d * Vᵀ) (X : Matrix (Fin n) (Fin n) ℚ) :
    trace (Mᵀ * X) = trace (diagonal d * (Uᵀ * X * V)) := by
  rw [hM]
  simp only [transpose_mul, transpose_transpose, diagonal_transpose]
  rw [Matrix.mul_assoc, Matrix.mul_assoc, trace_mul_comm]
  simp only [Matrix.mul_assoc]

theorem kabsch_W_orth {n : ℕ} (U V Q : Matrix (Fin n) (Fin n) ℚ) (hU : Uᵀ * U = 1) (hV' : V * Vᵀ = 1)
    (hQ : Q * Qᵀ = 1) : (Uᵀ * Q * V) * (Uᵀ * Q * V)ᵀ = 1 := by
  simp only [transpose_mul, transpose_transpose]
  calc Uᵀ * Q * V * (Vᵀ * (Qᵀ * U)) = Uᵀ * (Q * ((V * Vᵀ) * (Qᵀ * U))) := by simp only [Matrix.mul_assoc]
    _ = Uᵀ * ((Q * Qᵀ) * U) := by rw [hV']; simp only [Matrix.one_mul, Matrix.mul_assoc]
    _ = 1 := by rw [hQ, Matrix.one_mul, hU]

/-- Kabsch without the determinant constraint -/
theorem kabsch_mirror {n : ℕ} (M U V Q : Matrix (Fin n) (Fin n) ℚ) (d : Fin n → ℚ)
    (hM : M = U * diagonal d * Vᵀ) (hU : Uᵀ * U = 1) (hV : Vᵀ * V = 1) (hV' : V * Vᵀ = 1)
    (hd : ∀ i, 0 ≤ d i) (hQ : Q * Qᵀ = 1) :
    trace (Mᵀ * Q) ≤ trace (Mᵀ * (U * Vᵀ)) := by
  rw [kabsch_key M U V d hM Q, kabsch_key M U V d hM (U * Vᵀ)]
  have hW := kabsch_W_orth U V Q hU hV' hQ
  have hI : Uᵀ * (U * Vᵀ) * V = 1 := by
    calc Uᵀ * (U * Vᵀ) * V = (Uᵀ * U) * (Vᵀ * V) := by simp only [Matrix.mul_assoc]
      _ = 1 := by rw [hU, hV, Matrix.one_mul]
  rw [trace_diag_mul, trace_diag_mul, hI]
  apply Finset.sum_le_sum
  intro i _
  have := orth_diag_le_one _ hW i
  simp only [Matrix.one_apply_eq]
  nlinarith [hd i]

/-- `‖S Qᵀ − T‖² = ‖S‖² + ‖T‖² − 2 tr((TᵀS)ᵀ Q)` for orthogonal `Q` -/
theorem rot_err_expand {n d : ℕ} (S T : Mat n d) (Q : Mat d d) (hQ : mul (tr Q) Q = one) :
    err2 (mul S (tr Q)) T = frob2 S + frob2 T - 2 * trace ((toM (corr S T))ᵀ * toM Q) := by
  have hQ' : (toM Q)ᵀ * toM Q = 1 := by
    have := congrArg toM hQ; simpa only [toM_mul, toM_tr, toM_one] using this
  simp only [err2, frob2_eq, toM_sub, toM_mul, toM_tr, corr, transpose_transpose, transpose_mul, transpose_sub]
  set s := toM S; set t := toM T; set q := toM Q
  have e1 : trace (s * qᵀ * (q * sᵀ)) = trace (s * sᵀ) := by
    rw [Matrix.mul_assoc, ← Matrix.mul_assoc qᵀ, hQ', Matrix.one_mul]
  have e2 : trace (t * (q * sᵀ)) = trace (sᵀ * t * q) := by
    rw [← Matrix.mul_assoc, trace_mul_comm, ← Matrix.mul_assoc]
  have e3 : trace (s * qᵀ * tᵀ) = trace (sᵀ * t * q) := by
    rw [← trace_transpose]; simp only [transpose_mul, transpose_transpose]
    rw [← Matrix.mul_assoc, trace_mul_comm, ← Matrix.mul_assoc]
  rw [Matrix.sub_mul, Matrix.mul_sub, Matrix.mul_sub, trace_sub, trace_sub, trace_sub, e1, e2, e3]
  ring

theorem rotFit_mirror {d : ℕ} (U Vt : Mat d d) : rotFit true U Vt = mul U Vt := by simp [rotFit]

theorem IsOrth.toM_left {d : ℕ} {Q : Mat d d} (h : IsOrth Q) : (toM Q)ᵀ * toM Q = 1 := by
  have := congrArg toM h.left; simpa only [toM_mul, toM_tr, toM_one] using this
theorem IsOrth.toM_right {d : ℕ} {Q : Mat d d} (h : IsOrth Q) : toM Q * (toM Q)ᵀ = 1 := by
  have := congrArg toM h.right; simpa only [toM_mul, toM_tr, toM_one] using this

theorem SvdOK.toM_fact {d : ℕ} {M U : Mat d d} {D : Vec d} {Vt : Mat d d} (h : SvdOK M U D Vt) :
    toM M = toM U * diagonal D * ((toM Vt)ᵀ)ᵀ := by
  have := congrArg toM h.fact
  simp only [toM_mul, toM_diagM] at this
  rw [← this, transpose_transpose, Matrix.mul_assoc]

/-- **rotation alignment with mirroring allowed is least-squares optimal among all orthogonal maps**
(every dimension), given the SVD contract -/
theorem rotation_ls_optimal_mirror {n d : ℕ} (S T : Mat n d) {U Vt : Mat d d} {D : Vec d}
    (hsvd : SvdOK (corr S T) U D Vt) (Q : Mat d d) (hQ : IsOrth Q) :
    err2 (applyH (rotationH (rotFit true U Vt)) S) T ≤ err2 (applyH (rotationH Q) S) T := by
  have hR : IsOrth (mul U Vt) := by
    constructor
    · apply toM_inj
      simp only [toM_mul, toM_tr, toM_one, transpose_mul]
      rw [Matrix.mul_assoc, ← Matrix.mul_assoc (toM U)ᵀ, hsvd.orthU.toM_left, Matrix.one_mul, hsvd.orthV.toM_left]
    · apply toM_inj
      simp only [toM_mul, toM_tr, toM_one, transpose_mul]
      rw [Matrix.mul_assoc, ← Matrix.mul_assoc (toM Vt), hsvd.orthV.toM_right, Matrix.one_mul, hsvd.orthU.toM_right]
  rw [rotFit_mirror, applyH_rotation, applyH_rotation, rot_err_expand S T _ hR.left, rot_err_expand S T Q hQ.left]
  have hV : ((toM Vt)ᵀ)ᵀ * (toM Vt)ᵀ = 1 := by rw [transpose_transpose]; exact hsvd.orthV.toM_right
  have hV' : (toM Vt)ᵀ * ((toM Vt)ᵀ)ᵀ = 1 := by rw [transpose_transpose]; exact hsvd.orthV.toM_left
  have := kabsch_mirror (toM (corr S T)) (toM U) (toM Vt)ᵀ (toM Q) D hsvd.toM_fact hsvd.orthU.toM_left hV hV'
    hsvd.nonneg hQ.toM_right
  rw [transpose_transpose] at this
  rw [toM_mul]
  linarith

theorem tr_le_two (W : Matrix (Fin 2) (Fin 2) ℚ) (h : W * Wᵀ = 1) (hd : W.det = -1) : trace W ≤ (2 : ℚ) - 2 := by
  have h00 := congrFun (congrFun h 0) 0
  have h11 := congrFun (congrFun h 1) 1
  simp only [Matrix.mul_apply, Fin.sum_univ_two, transpose_apply, one_apply_eq] at h00 h11
  rw [det_fin_two] at hd
  simp only [trace, diag, Fin.sum_univ_two]
  nlinarith [sq_nonneg (W 0 0 + W 1 1), sq_nonneg (W 0 1 - W 1 0)]

theorem tr_le_three (W : Matrix (Fin 3) (Fin 3) ℚ) (h : W * Wᵀ = 1) (h' : Wᵀ * W = 1) (hd : W.det = -1) :
    trace W ≤ (3 : ℚ) - 2 := by
  have hadj : adjugate W = -Wᵀ := by
    calc adjugate W = (Wᵀ * W) * adjugate W := by rw [h', Matrix.one_mul]
      _ = Wᵀ * (W.det • (1 : Matrix (Fin 3) (Fin 3) ℚ)) := by rw [Matrix.mul_assoc, mul_adjugate]
      _ = -Wᵀ := by rw [hd]; simp
  have a00 := congrFun (congrFun hadj 0) 0
  have a11 := congrFun (congrFun hadj 1) 1
  have a22 := congrFun (congrFun hadj 2) 2
  rw [adjugate_fin_three] at a00 a11 a22
  simp at a00 a11 a22
  have h00 := congrFun (congrFun h 0) 0
  have h11 := congrFun (congrFun h 1) 1
  have h22 := congrFun (congrFun h 2) 2
  simp only [Matrix.mul_apply, Fin.sum_univ_three, transpose_apply, one_apply_eq] at h00 h11 h22
  simp only [trace, diag, Fin.sum_univ_three]
  -- (1 - t)(3 + t) = Σ_{i<j} (w_ij - w_ji)²
  have key : (1 - (W 0 0 + W 1 1 + W 2 2)) * (3 + (W 0 0 + W 1 1 + W 2 2)) =
      (W 0 1 - W 1 0) ^ 2 + (W 0 2 - W 2 0) ^ 2 + (W 1 2 - W 2 1) ^ 2 := by
    linear_combination (-1 : ℚ) * h00 - h11 - h22 - 2 * a00 - 2 * a11 - 2 * a22
  by_contra hc
  have hc := not_le.1 hc
  have h1 : 1 - (W 0 0 + W 1 1 + W 2 2) < 0 := by linarith
  have h2 : 0 < 3 + (W 0 0 + W 1 1 + W 2 2) := by linarith
  have h3 := mul_neg_of_neg_of_pos h1 h2
  nlinarith [sq_nonneg (W 0 1 - W 1 0), sq_nonneg (W 0 2 - W 2 0), sq_nonneg (W 1 2 - W 2 1)]

/-- the weighted-trace bound behind the determinant-corrected Kabsch solution -/
theorem weighted_trace_le {n : ℕ} (W : Matrix (Fin n) (Fin n) ℚ) (hW : W * Wᵀ = 1) (d : Fin n → ℚ) (l : Fin n)
    (hmin : ∀ i, d l ≤ d i) (hl : 0 ≤ d l) (htr : trace W ≤ (n : ℚ) - 2) :
    ∑ i, d i * W i i ≤ ∑ i, d i * (if i = l then -1 else 1) := by
  have e1 : ∑ i, d i * W i i = ∑ i, (d i - d l) * W i i + d l * trace W := by
    simp only [trace, diag, Finset.mul_sum, ← Finset.sum_add_distrib]
    exact Finset.sum_congr rfl fun i _ => by ring
  have e2 : ∑ i, d i * (if i = l then (-1 : ℚ) else 1) = ∑ i, (d i - d l) + d l * ((n : ℚ) - 2) := by
    have : ∀ i, d i * (if i = l then (-1 : ℚ) else 1) = (d i - d l) + (d l - (if i = l then 2 * d i else 0)) := by
      intro i; split_ifs <;> ring
    simp only [this, Finset.sum_add_distrib, Finset.sum_sub_distrib, Finset.sum_ite_eq', Finset.mem_univ, if_true,
      Finset.sum_const, Finset.card_univ, Fintype.card_fin, nsmul_eq_mul]
    ring
  rw [e1, e2]
  have h1 : ∑ i, (d i - d l) * W i i ≤ ∑ i, (d i - d l) := by
    apply Finset.sum_le_sum
    intro i _
    have := orth_diag_le_one W hW i
    nlinarith [hmin i]
  have h2 : d l * trace W ≤ d l * ((n : ℚ) - 2) := mul_le_mul_of_nonneg_left htr hl
  linarith


theorem det_two (A : Mat 2 2) : det A = (toM A).det := by
  rw [det_fin_two]; rfl
theorem det_three (A : Mat 3 3) : det A = (toM A).det := by
  rw [det_fin_three]; rfl

def flipVec (d : ℕ) : Fin d → ℚ := fun i => if i.val + 1 = d then -1 else 1

theorem toM_flipLast {d : ℕ} : toM (flipLast : Mat d d) = diagonal (flipVec d) := by
  ext i j; simp [flipLast, flipVec, diagonal_apply]

theorem flipVec_eq {d : ℕ} (l : Fin d) (hl : l.val + 1 = d) (i : Fin d) :
    flipVec d i = if i = l then -1 else 1 := by
  unfold flipVec
  have : (i.val + 1 = d) ↔ i = l := by
    constructor
    · intro h; exact Fin.ext (by omega)
    · intro h; rw [h]; exact hl
  simp only [this]

theorem det_flip {d : ℕ} (hd : 0 < d) : (diagonal (flipVec d)).det = -1 := by
  let l : Fin d := ⟨d - 1, by omega⟩
  have hl : l.val + 1 = d := by simp [l]; omega
  rw [det_diagonal]
  simp only [flipVec_eq l hl]
  rw [Finset.prod_ite_eq']
  simp

theorem flip_mul_flip {d : ℕ} : diagonal (flipVec d) * diagonal (flipVec d) = 1 := by
  rw [diagonal_mul_diagonal, ← diagonal_one]
  congr 1; funext i; unfold flipVec; split_ifs <;> norm_num

theorem IsOrth.det_sq {d : ℕ} {Q : Mat d d} (h : IsOrth Q) : (toM Q).det * (toM Q).det = 1 := by
  have := congrArg Matrix.det h.toM_left
  rwa [det_mul, det_transpose, det_one] at this

theorem IsOrth.mul {d : ℕ} {P Q : Mat d d} (hP : IsOrth P) (hQ : IsOrth Q) : IsOrth (mul P Q) := by
  constructor
  · apply toM_inj
    simp only [toM_mul, toM_tr, toM_one, transpose_mul]
    rw [Matrix.mul_assoc, ← Matrix.mul_assoc (toM P)ᵀ, hP.toM_left, Matrix.one_mul, hQ.toM_left]
  · apply toM_inj
    simp only [toM_mul, toM_tr, toM_one, transpose_mul]
    rw [Matrix.mul_assoc, ← Matrix.mul_assoc (toM Q), hQ.toM_right, Matrix.one_mul, hP.toM_right]

theorem isOrth_flipLast {d : ℕ} : IsOrth (flipLast : Mat d d) := by
  constructor <;>
  · apply toM_inj
    simp only [toM_mul, toM_tr, toM_one, toM_flipLast, diagonal_transpose, flip_mul_flip]

/-- the two branches of `optimal_rotation_matrix(allow_mirror=False)` -/
theorem rotFit_false_cases {d : ℕ} (hdet : ∀ A : Mat d d, det A = (toM A).det) (U Vt : Mat d d) :
    (0 ≤ (toM (mul U Vt)).det ∧ rotFit false U Vt = mul U Vt) ∨
    ((toM (mul U Vt)).det < 0 ∧ rotFit false U Vt = mul U (mul flipLast Vt)) := by
  unfold rotFit
  simp only [Bool.not_false, Bool.true_and, decide_eq_true_eq, hdet]
  by_cases h : (toM (mul U Vt)).det < 0
  · right; simp [h]
  · left; simp [h, not_lt.1 h]

theorem rotFit_isOrth {d : ℕ} (b : Bool) {U Vt : Mat d d} (hU : IsOrth U) (hV : IsOrth Vt) :
    IsOrth (rotFit b U Vt) := by
  unfold rotFit
  dsimp only
  split_ifs
  · exact hU.mul (isOrth_flipLast.mul hV)
  · exact hU.mul hV

/-- **no reflection unless mirroring was allowed** (generic form; instantiated for 2-D and 3-D below) -/
theorem rot_no_reflection_gen {d : ℕ} (hd : 0 < d) (hdet : ∀ A : Mat d d, det A = (toM A).det)
    {U Vt : Mat d d} (hU : IsOrth U) (hV : IsOrth Vt) : (toM (rotFit false U Vt)).det = 1 := by
  have hsq := (hU.mul hV).det_sq
  rcases rotFit_false_cases hdet U Vt with ⟨h0, e⟩ | ⟨h0, e⟩
  · rw [e]; nlinarith
  · rw [e]
    have hm : (toM (mul U Vt)).det = -1 := by nlinarith
    simp only [toM_mul, det_mul, toM_flipLast, det_flip hd] at hm ⊢
    linarith

theorem rotation_no_reflection_2d {U Vt : Mat 2 2} (hU : IsOrth U) (hV : IsOrth Vt) :
    det (rotFit false U Vt) = 1 := by
  rw [det_two]; exact rot_no_reflection_gen (by norm_num) det_two hU hV
theorem rotation_no_reflection_3d {U Vt : Mat 3 3} (hU : IsOrth U) (hV : IsOrth Vt) :
    det (rotFit false U Vt) = 1 := by
  rw [det_three]; exact rot_no_reflection_gen (by norm_num) det_three hU hV

/-- Kabsch with the determinant constraint, generic in the dimension given the trace bound for improper
orthogonal matrices -/
theorem rotation_ls_optimal_proper_gen {n d : ℕ} (hd : 0 < d) (hdet : ∀ A : Mat d d, det A = (toM A).det)
    (htrb : ∀ W : Matrix (Fin d) (Fin d) ℚ, W * Wᵀ = 1 → Wᵀ * W = 1 → W.det = -1 → trace W ≤ (d : ℚ) - 2)
    (S T : Mat n d) {U Vt : Mat d d} {D : Vec d} (hsvd : SvdOK (corr S T) U D Vt)
    (Q : Mat d d) (hQ : IsOrth Q) (hQd : (toM Q).det = 1) :
    err2 (applyH (rotationH (rotFit false U Vt)) S) T ≤ err2 (applyH (rotationH Q) S) T := by
  rcases rotFit_false_cases hdet U Vt with ⟨_, e⟩ | ⟨h0, e⟩
  · rw [e, ← rotFit_mirror]; exact rotation_ls_optimal_mirror S T hsvd Q hQ
  · have hR : IsOrth (mul U (mul flipLast Vt)) := hsvd.orthU.mul (isOrth_flipLast.mul hsvd.orthV)
    rw [e, applyH_rotation, applyH_rotation, rot_err_expand S T _ hR.left, rot_err_expand S T Q hQ.left]
    have hsq := (hsvd.orthU.mul hsvd.orthV).det_sq
    have hm : (toM (mul U Vt)).det = -1 := by nlinarith
    simp only [toM_mul, det_mul] at hm
    set u := toM U; set vt := toM Vt; set q := toM Q
    have hUl : uᵀ * u = 1 := hsvd.orthU.toM_left
    have hUr : u * uᵀ = 1 := hsvd.orthU.toM_right
    have hVl : vtᵀ * vt = 1 := hsvd.orthV.toM_left
    have hVr : vt * vtᵀ = 1 := hsvd.orthV.toM_right
    have hM := hsvd.toM_fact
    have k1 := kabsch_key (toM (corr S T)) u vtᵀ D hM q
    have k2 := kabsch_key (toM (corr S T)) u vtᵀ D hM (u * (diagonal (flipVec d) * vt))
    have hW1 : (uᵀ * q * vtᵀ) * (uᵀ * q * vtᵀ)ᵀ = 1 :=
      kabsch_W_orth u vtᵀ q hUl (by rw [transpose_transpose]; exact hVl) hQ.toM_right
    have hW2 : (uᵀ * q * vtᵀ)ᵀ * (uᵀ * q * vtᵀ) = 1 := mul_eq_one_comm.1 hW1
    have hWd : (uᵀ * q * vtᵀ).det = -1 := by
      rw [det_mul, det_mul, det_transpose, det_transpose, hQd]; linarith
    have hE : uᵀ * (u * (diagonal (flipVec d) * vt)) * vtᵀ = diagonal (flipVec d) := by
      rw [← Matrix.mul_assoc, hUl, Matrix.one_mul, Matrix.mul_assoc, hVr, Matrix.mul_one]
    rw [toM_mul, toM_mul, toM_flipLast, k1, k2, hE, trace_diag_mul, trace_diag_mul]
    let l : Fin d := ⟨d - 1, by omega⟩
    have hl : l.val + 1 = d := by simp [l]; omega
    have hmin : ∀ i, D l ≤ D i := fun i => hsvd.sorted i l (by have := i.isLt; simp [l]; omega)
    have := weighted_trace_le _ hW1 D l hmin (hsvd.nonneg l) (htrb _ hW1 hW2 hWd)
    simp only [diagonal_apply_eq, flipVec_eq l hl]
    linarith

/-- **2-D rotation alignment (no mirroring) is least-squares optimal among proper rotations** -/
theorem rotation_ls_optimal_2d {n : ℕ} (S T : Mat n 2) {U Vt : Mat 2 2} {D : Vec 2} (hsvd : SvdOK (corr S T) U D Vt)
    (Q : Mat 2 2) (hQ : IsOrth Q) (hQd : det Q = 1) :
    err2 (applyH (rotationH (rotFit false U Vt)) S) T ≤ err2 (applyH (rotationH Q) S) T :=
  rotation_ls_optimal_proper_gen (by norm_num) det_two (fun W h _ hd => by exact_mod_cast tr_le_two W h hd) S T hsvd Q hQ
    (by rw [← det_two]; exact hQd)

/-- **3-D rotation alignment (no mirroring) is least-squares optimal among proper rotations** -/
theorem rotation_ls_optimal_3d {n : ℕ} (S T : Mat n 3) {U Vt : Mat 3 3} {D : Vec 3} (hsvd : SvdOK (corr S T) U D Vt)
    (Q : Mat 3 3) (hQ : IsOrth Q) (hQd : det Q = 1) :
    err2 (applyH (rotationH (rotFit false U Vt)) S) T ≤ err2 (applyH (rotationH Q) S) T :=
  rotation_ls_optimal_proper_gen (by norm_num) det_three (fun W h h' hd => by exact_mod_cast tr_le_three W h h' hd) S T hsvd Q hQ
    (by rw [← det_three]; exact hQd)

/-! ### rotation: exact recovery -/

theorem rotation_recovers_target_mirror {n d : ℕ} (S : Mat n d) {U Vt : Mat d d} {D : Vec d} (Q₀ : Mat d d)
    (hQ₀ : IsOrth Q₀) (hsvd : SvdOK (corr S (applyH (rotationH Q₀) S)) U D Vt) :
    applyH (rotationH (rotFit true U Vt)) S = applyH (rotationH Q₀) S := by
  have := rotation_ls_optimal_mirror S _ hsvd Q₀ hQ₀
  rw [err2_self] at this
  exact err2_eq_zero (le_antisymm this (err2_nonneg _ _))

theorem rotation_recovers_target_2d {n : ℕ} (S : Mat n 2) {U Vt : Mat 2 2} {D : Vec 2} (Q₀ : Mat 2 2)
    (hQ₀ : IsOrth Q₀) (hd : det Q₀ = 1) (hsvd : SvdOK (corr S (applyH (rotationH Q₀) S)) U D Vt) :
    applyH (rotationH (rotFit false U Vt)) S = applyH (rotationH Q₀) S := by
  have := rotation_ls_optimal_2d S _ hsvd Q₀ hQ₀ hd
  rw [err2_self] at this
  exact err2_eq_zero (le_antisymm this (err2_nonneg _ _))

theorem rotation_recovers_target_3d {n : ℕ} (S : Mat n 3) {U Vt : Mat 3 3} {D : Vec 3} (Q₀ : Mat 3 3)
    (hQ₀ : IsOrth Q₀) (hd : det Q₀ = 1) (hsvd : SvdOK (corr S (applyH (rotationH Q₀) S)) U D Vt) :
    applyH (rotationH (rotFit false U Vt)) S = applyH (rotationH Q₀) S := by
  have := rotation_ls_optimal_3d S _ hsvd Q₀ hQ₀ hd
  rw [err2_self] at this
  exact err2_eq_zero (le_antisymm this (err2_nonneg _ _))

/-- two linear maps that agree on a full-rank point set are equal -/
theorem linear_unique_of_full_rank {n d : ℕ} (S : Mat n d) (R Q : Mat d d)
    (Gi : Mat d d) (hGi : mul Gi (mul (tr S) S) = one)
    (h : applyH (rotationH R) S = applyH (rotationH Q) S) : R = Q := by
  rw [applyH_rotation, applyH_rotation] at h
  have e := congrArg toM h
  have eG := congrArg toM hGi
  simp only [toM_mul, toM_tr, toM_one] at e eG
  have e2 : (toM R)ᵀ = (toM Q)ᵀ := by
    set G := (toM S)ᵀ * toM S with hG
    have e' : G * (toM R)ᵀ = G * (toM Q)ᵀ := by rw [hG, Matrix.mul_assoc, e, Matrix.mul_assoc]
    calc (toM R)ᵀ = (toM Gi * G) * (toM R)ᵀ := by rw [eG, Matrix.one_mul]
      _ = toM Gi * (G * (toM Q)ᵀ) := by rw [Matrix.mul_assoc, e']
      _ = (toM Q)ᵀ := by rw [← Matrix.mul_assoc, eG, Matrix.one_mul]
  apply toM_inj
  have := congrArg Matrix.transpose e2
  simpa using this

/-! ### uniform scale -/

theorem applyH_scale {n d : ℕ} (s : ℚ) (P : Mat n d) (i : Fin n) (j : Fin d) :
    applyH (scaleH s) P i j = s * P i j := by
  simp [scaleH, applyH_mkH, smul, one, mul_comm]

theorem centroid_smul {n d : ℕ} (s : ℚ) (P X : Mat n d) (hX : ∀ i j, X i j = s * P i j) (j : Fin d) :
    centroid X j = s * centroid P j := by
  simp only [centroid_eq, hX, ← Finset.mul_sum]; ring

theorem norm2_smul {n d : ℕ} (s : ℚ) (P X : Mat n d) (hX : ∀ i j, X i j = s * P i j) :
    norm2 X = s * s * norm2 P := by
  simp only [norm2, frob2_sum, centred, centroid_smul s P X hX, hX, Finset.mul_sum]
  exact Finset.sum_congr rfl fun i _ => Finset.sum_congr rfl fun j _ => by ring

/-- **the scale alignment reproduces the target's overall size** (`norm` contract: `r² = norm2`) -/
theorem scale_reproduces_size {n d : ℕ} (S T : Mat n d) (rT rS : ℚ) (hT : rT * rT = norm2 T)
    (hS : rS * rS = norm2 S) (hS0 : rS ≠ 0) : norm2 (applyH (fitScale rT rS) S) = norm2 T := by
  unfold fitScale
  rw [norm2_smul (rT / rS) S (applyH (scaleH (rT / rS)) S) (fun i j => applyH_scale _ S i j), ← hS, ← hT]
  field_simp

/-- **exact recovery of a (positive) uniform scale** -/
theorem scale_recovery {n d : ℕ} (S : Mat n d) (σ rT rS : ℚ) (hσ : 0 ≤ σ)
    (hT0 : 0 ≤ rT) (hT : rT * rT = norm2 (applyH (scaleH σ) S)) (hS0 : 0 < rS) (hS : rS * rS = norm2 S) :
    (fitScale rT rS : HMat d) = scaleH σ := by
  rw [norm2_smul σ S (applyH (scaleH σ) S) (fun i j => applyH_scale _ S i j), ← hS] at hT
  have : rT = σ * rS := by
    have h1 : (rT - σ * rS) * (rT + σ * rS) = 0 := by linear_combination hT
    rcases mul_eq_zero.1 h1 with h | h
    · linarith
    · have : 0 ≤ σ * rS := mul_nonneg hσ hS0.le
      have h2 : rT = 0 := by linarith
      have h3 : σ * rS = 0 := by linarith
      rw [h2, h3]
  unfold fitScale
  rw [this]; congr 1; field_simp

/-! ### similarity (`procrustes_alignment`) -/

theorem applyH_entry {n d : ℕ} (H : HMat d) (P : Mat n d) (i : Fin n) (j : Fin d) :
    applyH H P i j = (toM H * toM (hpoints P)) j.castSucc i := by
  simp only [Matrix.mul_apply, toM_apply, hpoints, applyH, linPart, transPart, sumF_eq, Fin.sum_univ_castSucc]
  simp [mul_comm]

theorem applyH_mul {n d : ℕ} (A B : HMat d) (hB : IsAff B) (P : Mat n d) :
    applyH (mul A B) P = applyH A (applyH B P) := by
  funext i j
  rw [applyH_entry, applyH_entry, hpoints_applyH hB, toM_mul, toM_mul, Matrix.mul_assoc]

theorem isAff_mul {d : ℕ} {A B : HMat d} (hA : IsAff A) (hB : IsAff B) : IsAff (mul A B) := by
  constructor
  · intro j
    simp only [mul, sumF_eq, Fin.sum_univ_castSucc, hA.1, hA.2, hB.1]; simp
  · simp only [mul, sumF_eq, Fin.sum_univ_castSucc, hA.1, hA.2, hB.2]; simp

theorem isAff_one {d : ℕ} : IsAff (one : HMat d) := by
  constructor
  · intro j; simp [one, Fin.ext_iff]; have := j.isLt; omega
  · simp [one]

theorem applyH_one {n d : ℕ} (P : Mat n d) : applyH (one : HMat d) P = P := by
  funext i j
  simp only [applyH, linPart, transPart, one, sumF_eq]
  have : (j.castSucc = Fin.last d) = False := by
    simp [Fin.ext_iff]; have := j.isLt; omega
  simp [this]

theorem isAff_translationH {d : ℕ} (t : Vec d) : IsAff (translationH t) := mkH_isAff _ _
theorem isAff_scaleH {d : ℕ} (s : ℚ) : IsAff (scaleH s : HMat d) := mkH_isAff _ _
theorem isAff_rotationH {d : ℕ} (R : Mat d d) : IsAff (rotationH R) := mkH_isAff _ _

theorem applyH_simP0 {n d : ℕ} (s : ℚ) (S : Mat n d) (i : Fin n) (j : Fin d) :
    applyH (simP0 s S) S i j = s * (S i j - centroid S j) := by
  unfold simP0
  rw [applyH_mul _ _ (isAff_mul (isAff_translationH _) isAff_one), applyH_mul _ _ isAff_one, applyH_one, applyH_scale,
    applyH_translation]
  simp only [negV]; ring

theorem isAff_simP0 {n d : ℕ} (s : ℚ) (S : Mat n d) : IsAff (simP0 s S) :=
  isAff_mul (isAff_scaleH _) (isAff_mul (isAff_translationH _) isAff_one)

theorem simAlignedTgt_entry {n d : ℕ} (T : Mat n d) (i : Fin n) (j : Fin d) :
    simAlignedTgt T i j = T i j - centroid T j := by
  simp [simAlignedTgt, applyH_translation, negV]; ring

/-- the aligned source of the similarity alignment, entrywise -/
theorem applyH_simFit_rot {n d : ℕ} (rT rS : ℚ) (R : Mat d d) (S T : Mat n d) (i : Fin n) (j : Fin d) :
    applyH (simFit true rT rS R S T) S i j = mul (simAlignedSrc (rT / rS) S) (tr R) i j + centroid T j := by
  unfold simFit
  simp only [if_true]
  rw [applyH_mul _ _ (isAff_mul (isAff_rotationH _) (isAff_simP0 _ _)), applyH_mul _ _ (isAff_simP0 _ _),
    applyH_translation, applyH_rotation]
  rfl

theorem applyH_simFit_norot {n d : ℕ} (rT rS : ℚ) (R : Mat d d) (S T : Mat n d) (i : Fin n) (j : Fin d) :
    applyH (simFit false rT rS R S T) S i j = rT / rS * (S i j - centroid S j) + centroid T j := by
  unfold simFit
  simp only [Bool.false_eq_true, if_false]
  rw [applyH_mul _ _ (isAff_simP0 _ _), applyH_translation, applyH_simP0]

theorem centroid_centred {n d : ℕ} (hn : n ≠ 0) (P : Mat n d) (j : Fin d) : (∑ i, (P i j - centroid P j)) = 0 := by
  have hn' : (n : ℚ) ≠ 0 := Nat.cast_ne_zero.2 hn
  simp only [centroid_eq, Finset.sum_sub_distrib, Finset.sum_const, Finset.card_univ, Fintype.card_fin, nsmul_eq_mul]
  field_simp; ring

/-- a linear image of a centred point set, shifted by `c`, has centroid `c` -/
theorem centroid_lin_shift {n d : ℕ} (hn : n ≠ 0) (X : Mat n d) (hX : ∀ j, ∑ i, X i j = 0) (L : Mat d d) (c : Vec d)
    (j : Fin d) : centroid (fun i j => mul X L i j + c j) j = c j := by
  have hn' : (n : ℚ) ≠ 0 := Nat.cast_ne_zero.2 hn
  simp only [centroid_eq, mul, sumF_eq, Finset.sum_add_distrib, Finset.sum_const, Finset.card_univ, Fintype.card_fin,
    nsmul_eq_mul]
  rw [Finset.sum_comm]
  simp only [← Finset.sum_mul, hX]
  simp; field_simp

theorem simAlignedSrc_sum {n d : ℕ} (hn : n ≠ 0) (s : ℚ) (S : Mat n d) (j : Fin d) :
    ∑ i, simAlignedSrc s S i j = 0 := by
  simp only [simAlignedSrc, applyH_simP0, ← Finset.mul_sum, centroid_centred hn, mul_zero]

/-- **the similarity alignment reproduces the target's centroid** (with or without rotation, any `R`) -/
theorem similarity_reproduces_centroid {n d : ℕ} (hn : n ≠ 0) (rotation : Bool) (rT rS : ℚ) (R : Mat d d)
    (S T : Mat n d) : centroid (applyH (simFit rotation rT rS R S T) S) = centroid T := by
  funext j
  cases rotation
  · have : applyH (simFit false rT rS R S T) S =
        fun i j => mul (simAlignedSrc (rT / rS) S) one i j + centroid T j := by
      funext i j
      rw [applyH_simFit_norot]
      simp [mul, one, sumF_eq, simAlignedSrc, applyH_simP0]
    rw [this]
    exact centroid_lin_shift hn _ (simAlignedSrc_sum hn _ S) _ _ j
  · have : applyH (simFit true rT rS R S T) S =
        fun i j => mul (simAlignedSrc (rT / rS) S) (tr R) i j + centroid T j := by
      funext i j; exact applyH_simFit_rot ..
    rw [this]
    exact centroid_lin_shift hn _ (simAlignedSrc_sum hn _ S) _ _ j

theorem centred_shift {n d : ℕ} (hn : n ≠ 0) (Y : Mat n d) (hY : ∀ j, ∑ i, Y i j = 0) (c : Vec d) :
    centred (fun i j => Y i j + c j) = Y := by
  have hn' : (n : ℚ) ≠ 0 := Nat.cast_ne_zero.2 hn
  funext i j
  simp only [centred, centroid_eq, Finset.sum_add_distrib, hY, Finset.sum_const, Finset.card_univ, Fintype.card_fin,
    nsmul_eq_mul]
  field_simp; ring

theorem mul_sum_zero {n d : ℕ} (X : Mat n d) (hX : ∀ j, ∑ i, X i j = 0) (L : Mat d d) (j : Fin d) :
    ∑ i, mul X L i j = 0 := by
  simp only [mul, sumF_eq]
  rw [Finset.sum_comm]
  simp only [← Finset.sum_mul, hX]; simp

theorem frob2_mul_orth {n d : ℕ} (X : Mat n d) {R : Mat d d} (hR : IsOrth R) : frob2 (mul X (tr R)) = frob2 X := by
  rw [frob2_eq, frob2_eq, toM_mul, toM_tr, transpose_mul, transpose_transpose, Matrix.mul_assoc,
    ← Matrix.mul_assoc (toM R)ᵀ, hR.toM_left, Matrix.one_mul]

theorem frob2_simAlignedSrc {n d : ℕ} (s : ℚ) (S : Mat n d) : frob2 (simAlignedSrc s S) = s * s * norm2 S := by
  simp only [frob2_sum, simAlignedSrc, applyH_simP0, norm2, centred, Finset.mul_sum]
  exact Finset.sum_congr rfl fun i _ => Finset.sum_congr rfl fun j _ => by ring

theorem simFit_rot_fun {n d : ℕ} (rT rS : ℚ) (R : Mat d d) (S T : Mat n d) :
    applyH (simFit true rT rS R S T) S = fun i j => mul (simAlignedSrc (rT / rS) S) (tr R) i j + centroid T j := by
  funext i j; exact applyH_simFit_rot ..

theorem simFit_norot_fun {n d : ℕ} (rT rS : ℚ) (R : Mat d d) (S T : Mat n d) :
    applyH (simFit false rT rS R S T) S = fun i j => simAlignedSrc (rT / rS) S i j + centroid T j := by
  funext i j
  rw [applyH_simFit_norot]; simp [simAlignedSrc, applyH_simP0]

/-- **the similarity alignment reproduces the target's overall size** (`R` orthogonal when rotation is fitted) -/
theorem similarity_reproduces_size {n d : ℕ} (hn : n ≠ 0) (rotation : Bool) (rT rS : ℚ) (R : Mat d d)
    (hR : rotation = true → IsOrth R) (S T : Mat n d) (hT : rT * rT = norm2 T) (hS : rS * rS = norm2 S)
    (hS0 : rS ≠ 0) : norm2 (applyH (simFit rotation rT rS R S T) S) = norm2 T := by
  have hfin : rT / rS * (rT / rS) * norm2 S = norm2 T := by rw [← hS, ← hT]; field_simp
  cases rotation
  · rw [simFit_norot_fun, norm2, centred_shift hn _ (simAlignedSrc_sum hn _ S), frob2_simAlignedSrc, hfin]
  · rw [simFit_rot_fun, norm2, centred_shift hn _ (mul_sum_zero _ (simAlignedSrc_sum hn _ S) _),
      frob2_mul_orth _ (hR rfl), frob2_simAlignedSrc, hfin]

/-- the similarity residual is the residual of the pure rotation problem on the centred, rescaled data -/
theorem simFit_err_eq {n d : ℕ} (rT rS : ℚ) (Q : Mat d d) (S T : Mat n d) :
    err2 (applyH (simFit true rT rS Q S T) S) T =
      err2 (applyH (rotationH Q) (simAlignedSrc (rT / rS) S)) (simAlignedTgt T) := by
  rw [simFit_rot_fun, applyH_rotation]
  simp only [err2, frob2_sum, msub, simAlignedTgt_entry]
  exact Finset.sum_congr rfl fun i _ => Finset.sum_congr rfl fun j _ => by ring

/-- **the similarity alignment uses the least-squares rotation** — mirroring allowed, every dimension -/
theorem similarity_uses_ls_rotation_mirror {n d : ℕ} (rT rS : ℚ) (S T : Mat n d) {U Vt : Mat d d} {D : Vec d}
    (hsvd : SvdOK (corr (simAlignedSrc (rT / rS) S) (simAlignedTgt T)) U D Vt) (Q : Mat d d) (hQ : IsOrth Q) :
    err2 (applyH (simFit true rT rS (rotFit true U Vt) S T) S) T ≤ err2 (applyH (simFit true rT rS Q S T) S) T := by
  rw [simFit_err_eq, simFit_err_eq]; exact rotation_ls_optimal_mirror _ _ hsvd Q hQ

theorem similarity_uses_ls_rotation_2d {n : ℕ} (rT rS : ℚ) (S T : Mat n 2) {U Vt : Mat 2 2} {D : Vec 2}
    (hsvd : SvdOK (corr (simAlignedSrc (rT / rS) S) (simAlignedTgt T)) U D Vt) (Q : Mat 2 2) (hQ : IsOrth Q)
    (hQd : det Q = 1) :
    err2 (applyH (simFit true rT rS (rotFit false U Vt) S T) S) T ≤ err2 (applyH (simFit true rT rS Q S T) S) T := by
  rw [simFit_err_eq, simFit_err_eq]; exact rotation_ls_optimal_2d _ _ hsvd Q hQ hQd

theorem similarity_uses_ls_rotation_3d {n : ℕ} (rT rS : ℚ) (S T : Mat n 3) {U Vt : Mat 3 3} {D : Vec 3}
    (hsvd : SvdOK (corr (simAlignedSrc (rT / rS) S) (simAlignedTgt T)) U D Vt) (Q : Mat 3 3) (hQ : IsOrth Q)
    (hQd : det Q = 1) :
    err2 (applyH (simFit true rT rS (rotFit false U Vt) S T) S) T ≤ err2 (applyH (simFit true rT rS Q S T) S) T := by
  rw [simFit_err_eq, simFit_err_eq]; exact rotation_ls_optimal_3d _ _ hsvd Q hQ hQd

/-! ### similarity: exact recovery -/

/-- a member of the similarity family: scale by `σ`, rotate by `Q₀`, translate by `t` -/
def simMember {d : ℕ} (σ : ℚ) (Q₀ : Mat d d) (t : Vec d) : HMat d :=
  mul (translationH t) (mul (rotationH Q₀) (scaleH σ))

theorem applyH_simMember {n d : ℕ} (σ : ℚ) (Q₀ : Mat d d) (t : Vec d) (S : Mat n d) (i : Fin n) (j : Fin d) :
    applyH (simMember σ Q₀ t) S i j = (∑ l, σ * S i l * Q₀ j l) + t j := by
  unfold simMember
  rw [applyH_mul _ _ (isAff_mul (isAff_rotationH _) (isAff_scaleH _)), applyH_mul _ _ (isAff_scaleH _),
    applyH_translation, applyH_rotation]
  simp [mul, tr, sumF_eq, applyH_scale]

theorem centroid_simMember {n d : ℕ} (hn : n ≠ 0) (σ : ℚ) (Q₀ : Mat d d) (t : Vec d) (S : Mat n d) (j : Fin d) :
    centroid (applyH (simMember σ Q₀ t) S) j = (∑ l, σ * centroid S l * Q₀ j l) + t j := by
  have hn' : (n : ℚ) ≠ 0 := Nat.cast_ne_zero.2 hn
  simp only [centroid_eq, applyH_simMember, Finset.sum_add_distrib, Finset.sum_const, Finset.card_univ,
    Fintype.card_fin, nsmul_eq_mul, div_eq_mul_inv]
  rw [Finset.sum_comm]
  have : ∀ l, σ * ((∑ i, S i l) * (n : ℚ)⁻¹) * Q₀ j l = (∑ i, σ * S i l * Q₀ j l) * (n : ℚ)⁻¹ := by
    intro l
    have : (∑ i, σ * S i l * Q₀ j l) = σ * (∑ i, S i l) * Q₀ j l := by
      simp only [← Finset.mul_sum, ← Finset.sum_mul]
    rw [this]; ring
  simp only [this, ← Finset.sum_mul]
  field_simp

theorem simAlignedTgt_simMember {n d : ℕ} (hn : n ≠ 0) (σ : ℚ) (Q₀ : Mat d d) (t : Vec d) (S : Mat n d) :
    simAlignedTgt (applyH (simMember σ Q₀ t) S) = applyH (rotationH Q₀) (simAlignedSrc σ S) := by
  funext i j
  rw [simAlignedTgt_entry, centroid_simMember hn, applyH_simMember, applyH_rotation]
  simp only [mul, tr, sumF_eq, simAlignedSrc, applyH_simP0]
  rw [add_sub_add_right_eq_sub, ← Finset.sum_sub_distrib]
  exact Finset.sum_congr rfl fun l _ => by ring

theorem norm2_simMember {n d : ℕ} (hn : n ≠ 0) (σ : ℚ) {Q₀ : Mat d d} (hQ : IsOrth Q₀) (t : Vec d) (S : Mat n d) :
    norm2 (applyH (simMember σ Q₀ t) S) = σ * σ * norm2 S := by
  have e : centred (applyH (simMember σ Q₀ t) S) = simAlignedTgt (applyH (simMember σ Q₀ t) S) := by
    funext i j; rw [simAlignedTgt_entry]; rfl
  rw [norm2, e, simAlignedTgt_simMember hn, applyH_rotation, frob2_mul_orth _ hQ, frob2_simAlignedSrc]

/-- the norm-ratio scale recovers `σ` -/
theorem sim_scale_recovered {n d : ℕ} (hn : n ≠ 0) (σ : ℚ) (hσ : 0 ≤ σ) {Q₀ : Mat d d} (hQ : IsOrth Q₀) (t : Vec d)
    (S : Mat n d) (rT rS : ℚ) (hT0 : 0 ≤ rT) (hT : rT * rT = norm2 (applyH (simMember σ Q₀ t) S)) (hS0 : 0 < rS)
    (hS : rS * rS = norm2 S) : rT / rS = σ := by
  rw [norm2_simMember hn σ hQ, ← hS] at hT
  have : rT = σ * rS := by
    have h1 : (rT - σ * rS) * (rT + σ * rS) = 0 := by linear_combination hT
    rcases mul_eq_zero.1 h1 with h | h
    · linarith
    · have : 0 ≤ σ * rS := mul_nonneg hσ hS0.le
      have h2 : rT = 0 := by linarith
      have h3 : σ * rS = 0 := by linarith
      rw [h2, h3]
  rw [this]; field_simp

/-- core of the recovery argument: once the fitted rotation acts on the centred, rescaled source like `Q₀`,
the similarity alignment sends the source exactly onto the target -/
theorem sim_recovery_core {n d : ℕ} (hn : n ≠ 0) (σ : ℚ) (Q₀ : Mat d d) (t : Vec d) (S : Mat n d) (rT rS : ℚ)
    (hs : rT / rS = σ) (R : Mat d d)
    (hR : applyH (rotationH R) (simAlignedSrc σ S) = applyH (rotationH Q₀) (simAlignedSrc σ S)) :
    applyH (simFit true rT rS R S (applyH (simMember σ Q₀ t) S)) S = applyH (simMember σ Q₀ t) S := by
  funext i j
  rw [applyH_simFit_rot, hs, ← applyH_rotation, hR, ← simAlignedTgt_simMember hn σ Q₀ t, simAlignedTgt_entry]
  ring

/-- **exact recovery of a similarity (mirroring allowed)**: target = member(source) ⇒ aligned source = target -/
theorem similarity_recovers_target_mirror {n d : ℕ} (hn : n ≠ 0) (σ : ℚ) (hσ : 0 ≤ σ) {Q₀ : Mat d d} (hQ : IsOrth Q₀)
    (t : Vec d) (S : Mat n d) (rT rS : ℚ) (hT0 : 0 ≤ rT) (hT : rT * rT = norm2 (applyH (simMember σ Q₀ t) S))
    (hS0 : 0 < rS) (hS : rS * rS = norm2 S) {U Vt : Mat d d} {D : Vec d}
    (hsvd : SvdOK (corr (simAlignedSrc (rT / rS) S) (simAlignedTgt (applyH (simMember σ Q₀ t) S))) U D Vt) :
    applyH (simFit true rT rS (rotFit true U Vt) S (applyH (simMember σ Q₀ t) S)) S = applyH (simMember σ Q₀ t) S := by
  have hs := sim_scale_recovered hn σ hσ hQ t S rT rS hT0 hT hS0 hS
  rw [hs, simAlignedTgt_simMember hn] at hsvd
  exact sim_recovery_core hn σ Q₀ t S rT rS hs _ (rotation_recovers_target_mirror _ Q₀ hQ hsvd)

theorem similarity_recovers_target_2d {n : ℕ} (hn : n ≠ 0) (σ : ℚ) (hσ : 0 ≤ σ) {Q₀ : Mat 2 2} (hQ : IsOrth Q₀)
    (hQd : det Q₀ = 1)
    (t : Vec 2) (S : Mat n 2) (rT rS : ℚ) (hT0 : 0 ≤ rT) (hT : rT * rT = norm2 (applyH (simMember σ Q₀ t) S))
    (hS0 : 0 < rS) (hS : rS * rS = norm2 S) {U Vt : Mat 2 2} {D : Vec 2}
    (hsvd : SvdOK (corr (simAlignedSrc (rT / rS) S) (simAlignedTgt (applyH (simMember σ Q₀ t) S))) U D Vt) :
    applyH (simFit true rT rS (rotFit false U Vt) S (applyH (simMember σ Q₀ t) S)) S = applyH (simMember σ Q₀ t) S := by
  have hs := sim_scale_recovered hn σ hσ hQ t S rT rS hT0 hT hS0 hS
  rw [hs, simAlignedTgt_simMember hn] at hsvd
  exact sim_recovery_core hn σ Q₀ t S rT rS hs _ (rotation_recovers_target_2d _ Q₀ hQ hQd hsvd)

theorem similarity_recovers_target_3d {n : ℕ} (hn : n ≠ 0) (σ : ℚ) (hσ : 0 ≤ σ) {Q₀ : Mat 3 3} (hQ : IsOrth Q₀)
    (hQd : det Q₀ = 1)
    (t : Vec 3) (S : Mat n 3) (rT rS : ℚ) (hT0 : 0 ≤ rT) (hT : rT * rT = norm2 (applyH (simMember σ Q₀ t) S))
    (hS0 : 0 < rS) (hS : rS * rS = norm2 S) {U Vt : Mat 3 3} {D : Vec 3}
    (hsvd : SvdOK (corr (simAlignedSrc (rT / rS) S) (simAlignedTgt (applyH (simMember σ Q₀ t) S))) U D Vt) :
    applyH (simFit true rT rS (rotFit false U Vt) S (applyH (simMember σ Q₀ t) S)) S = applyH (simMember σ Q₀ t) S := by
  have hs := sim_scale_recovered hn σ hσ hQ t S rT rS hT0 hT hS0 hS
  rw [hs, simAlignedTgt_simMember hn] at hsvd
  exact sim_recovery_core hn σ Q₀ t S rT rS hs _ (rotation_recovers_target_3d _ Q₀ hQ hQd hsvd)

/-- recovery without the rotation stage: target = translate ∘ scale (source) -/
theorem similarity_recovers_target_norot {n d : ℕ} (hn : n ≠ 0) (σ : ℚ) (hσ : 0 ≤ σ) (t : Vec d) (S : Mat n d)
    (rT rS : ℚ) (hT0 : 0 ≤ rT) (hT : rT * rT = norm2 (applyH (simMember σ one t) S)) (hS0 : 0 < rS)
    (hS : rS * rS = norm2 S) (R : Mat d d) :
    applyH (simFit false rT rS R S (applyH (simMember σ one t) S)) S = applyH (simMember σ one t) S := by
  have hI : IsOrth (one : Mat d d) := by
    constructor <;> (apply toM_inj; simp [toM_mul, toM_tr, toM_one])
  have hs := sim_scale_recovered hn σ hσ hI t S rT rS hT0 hT hS0 hS
  funext i j
  rw [applyH_simFit_norot, hs, centroid_simMember hn, applyH_simMember]
  simp only [one, mul_ite, mul_one, mul_zero, Finset.sum_ite_eq, Finset.mem_univ, if_true]
  ring

/-! ### aligned source and alignment error -/

/-- **the reported aligned source is the transform applied to the source** (every construction variant) -/
theorem aligned_source_def {n d : ℕ} (resync : Bool) (S T : Mat n d) (h : HMat d) :
    (construct resync S T h).alignedSource = applyH h S := rfl

theorem err2_symm {n d : ℕ} (X T : Mat n d) : err2 X T = err2 T X := by
  simp only [err2, frob2_sum, msub]
  exact Finset.sum_congr rfl fun i _ => Finset.sum_congr rfl fun j _ => by ring

/-- **the alignment error is the distance between the requested target and the aligned source** — for a
constructor that keeps the requested target (`resync = false`: translation, scale, similarity on every tree;
affine and rotation after the repair) -/
theorem alignment_error_def {n d : ℕ} (S T : Mat n d) (h : HMat d) :
    (construct false S T h).alignmentError2 = err2 T (applyH h S) := rfl

/-- the coded behaviour of `AlignmentAffine.__init__` / `AlignmentRotation.__init__` on the original tree
(`resync = true`): the reported error is identically zero, whatever the target -/
theorem alignment_error_resync_zero {n d : ℕ} (S T : Mat n d) (h : HMat d) :
    (construct true S T h).alignmentError2 = 0 := by
  simp [construct, AlignObj.alignmentError2, AlignObj.alignedSource, err2_self]

/-- witness: unit square corners, target = source plus a twist that no affine map can produce -/
def witS : Mat 4 2 := fun i j =>
  if j = 0 then (if i.val = 0 ∨ i.val = 1 then -1 else 1) else (if i.val = 0 ∨ i.val = 2 then -1 else 1)
def witT : Mat 4 2 := fun i j => witS i j + (if j = 0 then witS i 0 * witS i 1 else 0)

/-- **refutation of the error clause for the coded (`resync`) constructor**: on the witness the identity matrix
satisfies the normal equations (so it is the affine fit), the true residual is `4`, the reported error is `0` -/
theorem alignment_error_resync_refuted :
    mul (mul (hpoints witS) (tr (hpoints witS))) (tr (one : HMat 2)) = mul (hpoints witS) (tr (hpoints witT)) ∧
    err2 witT (applyH (one : HMat 2) witS) = 4 ∧
    (construct true witS witT (one : HMat 2)).alignmentError2 ≠ err2 witT (applyH (one : HMat 2) witS) := by
  have h2 : err2 witT (applyH (one : HMat 2) witS) = 4 := by
    rw [applyH_one]
    simp [err2, frob2_sum, msub, witT, witS, Fin.sum_univ_succ]
    norm_num
  refine ⟨?_, h2, ?_⟩
  · funext i j
    fin_cases i <;> fin_cases j <;>
      simp [mul, tr, one, hpoints, witS, witT, sumF_eq, Fin.sum_univ_succ] <;> norm_num
  · rw [alignment_error_resync_zero, h2]; norm_num

/-! ### thin-plate splines -/

/-- **TPS sends every source landmark exactly onto its target landmark**: with coefficients solving
`L·c = Y` (checked by `tpsFit`), evaluating the spline at source point `i` — whose kernel row is row `i` of `K` —
gives target point `i`.  No property of the kernel values is needed. -/
theorem tps_interpolates {n : ℕ} (K : Mat n n) (S T : Mat n 2) (coef : Mat (n + 3) 2)
    (h : tpsFit K S T = some coef) (i : Fin n) : tpsApply coef (K i) (S i 0) (S i 1) = T i := by
  have hL := solveChecked_spec h
  funext c
  have := congrFun (congrFun hL (Fin.castAdd 3 i)) c
  simp only [mul, sumF_eq, Fin.sum_univ_add, Fin.sum_univ_three, tpsL, tpsY] at this
  simp only [tpsApply, sumF_eq]
  simp [pcol] at this
  linarith

/-! ### piecewise affine -/

namespace V2
@[ext] theorem ext' {a b : V2} (hx : a.x = b.x) (hy : a.y = b.y) : a = b := by
  cases a; cases b; simp_all
end V2

/-- a (source) triangle is non-degenerate -/
def NonDeg (ij ik : V2) : Prop := V2.dot ij ij * V2.dot ik ik - V2.dot ij ik * V2.dot ij ik ≠ 0

/-- **`alpha_beta` returns the barycentric coordinates**: for a non-degenerate triangle and
`p = i + a·ij + b·ik` the formulas return `(a, b)` -/
theorem alpha_beta_correct (i ij ik : V2) (a b : ℚ) (h : NonDeg ij ik) :
    alphaBeta i ij ik (V2.add i (V2.add (V2.smul a ij) (V2.smul b ik))) = (a, b) := by
  unfold NonDeg at h
  simp only [alphaBeta, V2.sub, V2.add, V2.smul, V2.dot] at *
  refine Prod.ext ?_ ?_ <;> simp only <;> rw [mul_one_div, div_eq_iff h] <;> ring

/-- in 2-D every point *is* `i + α·ij + β·ik` for the returned `(α, β)` -/
theorem alpha_beta_reconstruct (i ij ik p : V2) (h : NonDeg ij ik) :
    V2.add i (V2.add (V2.smul (alphaBeta i ij ik p).1 ij) (V2.smul (alphaBeta i ij ik p).2 ik)) = p := by
  unfold NonDeg at h
  simp only [alphaBeta, V2.sub, V2.add, V2.smul, V2.dot] at *
  generalize hD : (ij.x * ij.x + ij.y * ij.y) * (ik.x * ik.x + ik.y * ik.y) -
      (ij.x * ik.x + ij.y * ik.y) * (ij.x * ik.x + ij.y * ik.y) = D at h ⊢
  ext <;> simp only [mul_one_div] <;> field_simp <;> rw [← hD] <;> ring

def TriNonDeg (src : ℕ → V2) (t : Tri) : Prop :=
  NonDeg (V2.sub (src t.2.1) (src t.1)) (V2.sub (src t.2.2) (src t.1))

def IsVertex (t : Tri) (u : ℕ) : Prop := u = t.1 ∨ u = t.2.1 ∨ u = t.2.2

/-- convex/affine combination of two points -/
def lerp (c : ℚ) (p q : V2) : V2 := V2.add (V2.smul (1 - c) p) (V2.smul c q)

/-- **the piecewise-affine map is affine inside each source triangle**: the map of one triangle commutes with
affine combinations (no hypothesis on the triangle) -/
theorem triMap_affine (src tgt : ℕ → V2) (t : Tri) (c : ℚ) (p q : V2) :
    triMap src tgt t (lerp c p q) = lerp c (triMap src tgt t p) (triMap src tgt t q) := by
  simp only [triMap, triAB, alphaBeta, lerp, V2.sub, V2.add, V2.smul, V2.dot]
  ext <;> simp only <;> ring

theorem triAB_vertex (src : ℕ → V2) (t : Tri) (h : TriNonDeg src t) :
    triAB src t (src t.1) = (0, 0) ∧ triAB src t (src t.2.1) = (1, 0) ∧ triAB src t (src t.2.2) = (0, 1) := by
  unfold triAB
  refine ⟨?_, ?_, ?_⟩
  · have := alpha_beta_correct (src t.1) (V2.sub (src t.2.1) (src t.1)) (V2.sub (src t.2.2) (src t.1)) 0 0 h
    convert this using 2
    ext <;> simp [V2.add, V2.smul, V2.sub]
  · have := alpha_beta_correct (src t.1) (V2.sub (src t.2.1) (src t.1)) (V2.sub (src t.2.2) (src t.1)) 1 0 h
    convert this using 2
    ext <;> simp [V2.add, V2.smul, V2.sub]
  · have := alpha_beta_correct (src t.1) (V2.sub (src t.2.1) (src t.1)) (V2.sub (src t.2.2) (src t.1)) 0 1 h
    convert this using 2
    ext <;> simp [V2.add, V2.smul, V2.sub]

/-- the map of a non-degenerate triangle sends each of its source vertices to the target vertex -/
theorem triMap_vertex (src tgt : ℕ → V2) (t : Tri) (h : TriNonDeg src t) (u : ℕ) (hu : IsVertex t u) :
    triMap src tgt t (src u) = tgt u := by
  obtain ⟨h1, h2, h3⟩ := triAB_vertex src t h
  rcases hu with rfl | rfl | rfl
  · simp only [triMap, h1]; ext <;> simp [V2.add, V2.smul, V2.sub]
  · simp only [triMap, h2]; ext <;> simp [V2.add, V2.smul, V2.sub]
  · simp only [triMap, h3]; ext <;> simp [V2.add, V2.smul, V2.sub]

theorem contains_vertex (src : ℕ → V2) (t : Tri) (h : TriNonDeg src t) (u : ℕ) (hu : IsVertex t u) :
    containsAB (triAB src t (src u)) = true := by
  obtain ⟨h1, h2, h3⟩ := triAB_vertex src t h
  rcases hu with rfl | rfl | rfl
  · rw [h1]; simp [containsAB]
  · rw [h2]; simp [containsAB]
  · rw [h3]; simp [containsAB]

/-- on an edge `(u, v)` of a triangle the map is the linear interpolation of the two target vertices -/
theorem triMap_edge (src tgt : ℕ → V2) (t : Tri) (h : TriNonDeg src t) (u v : ℕ) (hu : IsVertex t u)
    (hv : IsVertex t v) (c : ℚ) :
    triMap src tgt t (lerp c (src u) (src v)) = lerp c (tgt u) (tgt v) := by
  rw [triMap_affine, triMap_vertex src tgt t h u hu, triMap_vertex src tgt t h v hv]

/-- **continuity across edges**: two triangles sharing the edge `(u, v)` map every point of that edge to the
same place -/
theorem pwa_edge_continuity (src tgt : ℕ → V2) (t t' : Tri) (h : TriNonDeg src t) (h' : TriNonDeg src t')
    (u v : ℕ) (hu : IsVertex t u) (hv : IsVertex t v) (hu' : IsVertex t' u) (hv' : IsVertex t' v) (c : ℚ) :
    triMap src tgt t (lerp c (src u) (src v)) = triMap src tgt t' (lerp c (src u) (src v)) := by
  rw [triMap_edge src tgt t h u v hu hv, triMap_edge src tgt t' h' u v hu' hv']

/-- what `_apply` returns is the map of *some* triangle that contains the point -/
theorem pwaApply_some {src tgt : ℕ → V2} {tris : List Tri} {p q : V2} (h : pwaApply src tgt tris p = some q) :
    ∃ t ∈ tris, containsAB (triAB src t p) = true ∧ q = triMap src tgt t p := by
  simp only [pwaApply, pwaTri, Option.map_eq_some_iff] at h
  obtain ⟨t, ht, rfl⟩ := h
  have := List.mem_of_getLast? ht
  rw [List.mem_filter] at this
  exact ⟨t, this.1, this.2, rfl⟩

/-- if some triangle contains `p` and all containing triangles agree on the image `q`, `_apply` returns `q`
(no `TriangleContainmentError`) -/
theorem pwaApply_eq_of_agree (src tgt : ℕ → V2) (tris : List Tri) (p q : V2)
    (hex : ∃ t ∈ tris, containsAB (triAB src t p) = true)
    (hag : ∀ t ∈ tris, containsAB (triAB src t p) = true → triMap src tgt t p = q) :
    pwaApply src tgt tris p = some q := by
  obtain ⟨t0, ht0, hc0⟩ := hex
  have hne : (tris.filter fun t => containsAB (triAB src t p)) ≠ [] := by
    intro h
    have : t0 ∈ tris.filter fun t => containsAB (triAB src t p) := List.mem_filter.2 ⟨ht0, hc0⟩
    rw [h] at this; exact absurd this (by simp)
  simp only [pwaApply, pwaTri]
  rw [List.getLast?_eq_some_getLast hne]
  simp only [Option.map_some, Option.some.injEq]
  have hm := List.getLast_mem hne
  rw [List.mem_filter] at hm
  exact hag _ hm.1 hm.2

/-- **piecewise affine sends every source landmark exactly onto its target landmark** (conforming mesh:
a triangle whose closure contains vertex `v` has `v` as a vertex; `v` belongs to some triangle) -/
theorem pwa_interpolates (src tgt : ℕ → V2) (tris : List Tri) (hnd : ∀ t ∈ tris, TriNonDeg src t) (v : ℕ)
    (hconf : ∀ t ∈ tris, containsAB (triAB src t (src v)) = true → IsVertex t v)
    (hv : ∃ t ∈ tris, IsVertex t v) : pwaApply src tgt tris (src v) = some (tgt v) := by
  apply pwaApply_eq_of_agree
  · obtain ⟨t, ht, hvt⟩ := hv
    exact ⟨t, ht, contains_vertex src t (hnd t ht) v hvt⟩
  · intro t ht hc
    exact triMap_vertex src tgt t (hnd t ht) v (hconf t ht hc)

/-- inside a triangle (only that triangle contains the point) `_apply` is that triangle's affine map -/
theorem pwa_affine_in_triangle (src tgt : ℕ → V2) (tris : List Tri) (t : Tri) (ht : t ∈ tris) (p : V2)
    (hc : containsAB (triAB src t p) = true)
    (huniq : ∀ t' ∈ tris, containsAB (triAB src t' p) = true → t' = t) :
    pwaApply src tgt tris p = some (triMap src tgt t p) :=
  pwaApply_eq_of_agree src tgt tris p _ ⟨t, ht, hc⟩ (fun t' ht' hc' => by rw [huniq t' ht' hc'])

/-- on a shared edge of a conforming mesh (every triangle containing the edge point has both end points as
vertices) `_apply` returns the interpolation of the two target landmarks, whichever triangle it picks -/
theorem pwa_on_edge (src tgt : ℕ → V2) (tris : List Tri) (hnd : ∀ t ∈ tris, TriNonDeg src t) (u v : ℕ) (c : ℚ)
    (hex : ∃ t ∈ tris, containsAB (triAB src t (lerp c (src u) (src v))) = true)
    (hconf : ∀ t ∈ tris, containsAB (triAB src t (lerp c (src u) (src v))) = true → IsVertex t u ∧ IsVertex t v) :
    pwaApply src tgt tris (lerp c (src u) (src v)) = some (lerp c (tgt u) (tgt v)) :=
  pwaApply_eq_of_agree src tgt tris _ _ hex
    (fun t ht hc => triMap_edge src tgt t (hnd t ht) u v (hconf t ht hc).1 (hconf t ht hc).2 c)

/-! ### non-vacuity: every hypothesis above is satisfiable on concrete, non-trivial data -/

section Examples

def exS : Mat 4 2 := fun i j => ((#[#[(0:Rat),1],#[1,1],#[-1,-5],#[3,-5]] : Array (Array Rat)).getD i.val #[]).getD j.val 0
def exT : Mat 4 2 := fun i j => ((#[#[(2:Rat),1],#[1,3],#[-1,-4],#[5,-5]] : Array (Array Rat)).getD i.val #[]).getD j.val 0

/-- the affine fit exists on a generic 4-point example (so `affineFit S T = some H` is satisfiable) -/
example : (affineFit exS exT).isSome = true := by decide +kernel
example : ∃ H, affineFit exS exT = some H ∧ ∀ H', IsAff H' → err2 (applyH H exS) exT ≤ err2 (applyH H' exS) exT := by
  have h : (affineFit exS exT).isSome = true := by decide +kernel
  obtain ⟨H, hH⟩ := Option.isSome_iff_exists.1 h
  exact ⟨H, hH, fun H' hH' => affine_ls_optimal hH H' hH'⟩
example : IsAff (translationH (fun _ => (3 : ℚ)) : HMat 2) := isAff_translationH _

/-- an exact rational SVD: `U` a proper rotation, `Vt` a reflection (so `det (U·Vt) = -1`: the corrected branch) -/
def exU : Mat 2 2 := fun i j => ((#[#[(3:Rat)/5,-4/5],#[4/5,3/5]] : Array (Array Rat)).getD i.val #[]).getD j.val 0
def exVt : Mat 2 2 := fun i j => ((#[#[(5:Rat)/13,12/13],#[12/13,-5/13]] : Array (Array Rat)).getD i.val #[]).getD j.val 0
def exD : Vec 2 := fun i => (#[(2:Rat),1] : Array Rat).getD i.val 0
def exS2 : Mat 2 2 := one
def exT2 : Mat 2 2 := tr (mul exU (mul (fun i j => if i = j then exD i else 0) exVt))

example : SvdOK (corr exS2 exT2) exU exD exVt := svdContractB_sound (by decide +kernel)
example : det (mul exU exVt) = -1 := by decide +kernel
example : IsOrth exU ∧ det exU = 1 :=
  ⟨⟨matEqB_eq (by decide +kernel), matEqB_eq (by decide +kernel)⟩, by decide +kernel⟩
/-- the constrained theorem applies to this data, against the concrete competitor `exU` -/
example : err2 (applyH (rotationH (rotFit false exU exVt)) exS2) exT2 ≤ err2 (applyH (rotationH exU) exS2) exT2 :=
  rotation_ls_optimal_2d exS2 exT2 (D := exD) (svdContractB_sound (by decide +kernel)) exU
    ⟨matEqB_eq (by decide +kernel), matEqB_eq (by decide +kernel)⟩ (by decide +kernel)

/-- norm contracts with rational square roots: `norm2 = 4` and `16` -/
def exS3 : Mat 4 2 := fun i j => ((#[#[(1:Rat),0],#[-1,0],#[0,1],#[0,-1]] : Array (Array Rat)).getD i.val #[]).getD j.val 0
def exT3 : Mat 4 2 := fun i j => ((#[#[(5:Rat),3],#[5,-1],#[3,1],#[7,1]] : Array (Array Rat)).getD i.val #[]).getD j.val 0
example : (2 : ℚ) * 2 = norm2 exS3 ∧ (4 : ℚ) * 4 = norm2 exT3 ∧ (0 : ℚ) < 2 := by
  refine ⟨by decide +kernel, by decide +kernel, by norm_num⟩
example : norm2 (applyH (fitScale 4 2) exS3) = norm2 exT3 :=
  scale_reproduces_size exS3 exT3 4 2 (by decide +kernel) (by decide +kernel) (by norm_num)

/-- piecewise affine: unit square split along the diagonal -/
def exSrc : ℕ → V2 := fun i => #[(⟨0,0⟩ : V2), ⟨1,0⟩, ⟨0,1⟩, ⟨1,1⟩].getD i ⟨0,0⟩
def exTgt : ℕ → V2 := fun i => #[(⟨2,1⟩ : V2), ⟨5,1⟩, ⟨1,4⟩, ⟨6,7⟩].getD i ⟨0,0⟩
def exTris : List Tri := [(0, 1, 2), (1, 3, 2)]

example : ∀ t ∈ exTris, TriNonDeg exSrc t := by
  intro t ht
  simp only [exTris, List.mem_cons, List.not_mem_nil, or_false] at ht
  rcases ht with rfl | rfl <;> (unfold TriNonDeg NonDeg; decide +kernel)
example : pwaApply exSrc exTgt exTris (exSrc 3) = some (exTgt 3) := by decide +kernel
/-- the diagonal edge (1,2) is shared: both triangles contain its midpoint and agree there -/
example : containsAB (triAB exSrc (0, 1, 2) (lerp (1/2) (exSrc 1) (exSrc 2))) = true ∧
    containsAB (triAB exSrc (1, 3, 2) (lerp (1/2) (exSrc 1) (exSrc 2))) = true := by
  constructor <;> decide +kernel
example : pwaApply exSrc exTgt exTris (lerp (1/2) (exSrc 1) (exSrc 2)) = some (lerp (1/2) (exTgt 1) (exTgt 2)) := by
  decide +kernel

/-- thin-plate spline: a 4-point system with an arbitrary symmetric zero-diagonal kernel matrix is solvable -/
def exK : Mat 4 4 := fun i j => ((#[#[(0:Rat),1,2,3],#[1,0,5,7],#[2,5,0,11],#[3,7,11,0]] : Array (Array Rat)).getD i.val #[]).getD j.val 0
def exS4 : Mat 4 2 := fun i j => ((#[#[(0:Rat),0],#[1,0],#[0,1],#[2,3]] : Array (Array Rat)).getD i.val #[]).getD j.val 0
example : (tpsFit exK exS4 exT).isSome = true := by decide +kernel

/-- the witness of the `resync` refutation is a genuine least-squares situation: the affine fit of the witness
exists, and is the identity -/
example : (affineFit witS witT).map (fun H => matEqB H one) = some true := by decide +kernel

end Examples

end MenpoModel.C07
