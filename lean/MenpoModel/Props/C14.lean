/-
C14 — graphs, trees and their queries agree with the edges they were built from.

Property theorems over the executable model `Core/C14Graph.lean` (namespace `MenpoModel.C14`).
Helper lemmas: `Lemmas/C14Basic.lean` (edge sets, queries, masking, tree relations),
`Lemmas/C14Paths.lean` (path enumeration, route reconstruction, cost), `Lemmas/C14Dist.lean`
(Bellman–Ford reference is sound and optimal), `Lemmas/C14Small.lean` + 24 chunk files
(kernel-decided tables over the property's two exhaustive domains).  For graphs of EVERY size:
`Lemmas/C14Dfs.lean` (fuel-free semantics of the recursive detector, the fuel never runs out),
`Lemmas/C14DfsDir.lean` / `Lemmas/C14DfsUnd.lean` (detector = closed walk / = self-loop or simple cycle),
`Lemmas/C14Forest.lean` + `Lemmas/C14TreeU.lean` (edge count of connected graphs, `is_tree`),
`Lemmas/C14Cyclomatic.lean` (cyclomatic number > 0 ⇔ self-loop or simple cycle), `Lemmas/C14Polytree.lean`
(`is_tree` of a digraph ⇔ its underlying graph is a tree),
`Lemmas/C14Reach.lean` (the reference closures compute reachability / components),
`Lemmas/C14TreeCtor.lean` (the `Tree` constructor accepts exactly the arborescences; depth, parent,
leaves of accepted trees), `Lemmas/C14Levels.lean` (`maximum_depth`, `vertices_at_depth`; model in `Core/C14Ext.lean`),
`Lemmas/C14Prune.lean` (`PointTree.from_mask` keeps the root's component), `Lemmas/C14MaskSeq.lean`
(a sequence of masks is one mask),
`Core/C14Kruskal.lean` + `Lemmas/C14Kruskal.lean` + `Lemmas/C14KruskalComp.lean` (the Kruskal reference
returns a minimum spanning forest).  Core Lean only.

What is a *contract parameter* (scipy, not menpo code): the predecessor / distance arrays of
`csgraph.shortest_path`, `breadth_first_order`, `depth_first_order`, the listing order of
`breadth_first_tree(...).nonzero()`, `connected_components`, `minimum_spanning_tree`.  The functions
of the model that consume them take them as arguments; the contract used by a theorem is a hypothesis
(`PredContract`) that the harness checks numerically on every generated case.

Findings carried by the model (DESIGN §7 #12 and two more found by this check):
* `find_shortest_path` reports `Σ_{k<len-1} d(start, path[k])`, not `d(start, end)`, and `([], inf)`
  for `(v, v)` — pinned by `test_find_shortest_path`, recorded as known findings.  Refuted here by
  witness (`shortest_path_cost_refuted`, `shortest_path_self_refuted`), the repaired statement is
  `route_weight_eq_dist`.
* `find_path(v, v)` is `[]` (pinned by `test_find_path`), same shape (`find_path_self_refuted`).
* `DirectedGraph.is_tree` accepted disconnected graphs with an undirected cycle — fixed in /repo by
  88f3f30; the model follows the repaired code (`isTree_spec_small_directed`), the refutation of the
  old behaviour stays (`isTree_directed_coded_refuted`, about `isTreeCoded`).
* `Tree.__init__` compared two index *listings* whose order scipy does not specify — fixed in /repo by
  f13d9a9; the model follows the repaired code (`treeCtor_spec_small`), the refutations of the old
  comparison stay (`treeCompareCoded_order_sensitive`, `treeCompareCoded_empty_broadcast`).
-/
import MenpoModel.Lemmas.C14Basic
import MenpoModel.Lemmas.C14Paths
import MenpoModel.Lemmas.C14Dist
import MenpoModel.Lemmas.C14Small
import MenpoModel.Lemmas.C14Cycle
import MenpoModel.Lemmas.C14TreeU
import MenpoModel.Lemmas.C14TreeCtor
import MenpoModel.Lemmas.C14Prune
import MenpoModel.Lemmas.C14Kruskal
import MenpoModel.Lemmas.C14KruskalComp
import MenpoModel.Lemmas.C14KruskalUnique
import MenpoModel.Core.C14Signed
import MenpoModel.Lemmas.C14Levels
import MenpoModel.Lemmas.C14MaskSeq
import MenpoModel.Lemmas.C14Cyclomatic
import MenpoModel.Lemmas.C14Polytree
import MenpoModel.Lemmas.C14U0
import MenpoModel.Lemmas.C14U1
import MenpoModel.Lemmas.C14U2
import MenpoModel.Lemmas.C14U3
import MenpoModel.Lemmas.C14U4
import MenpoModel.Lemmas.C14U5
import MenpoModel.Lemmas.C14U6
import MenpoModel.Lemmas.C14U7
import MenpoModel.Lemmas.C14D00
import MenpoModel.Lemmas.C14D01
import MenpoModel.Lemmas.C14D02
import MenpoModel.Lemmas.C14D03
import MenpoModel.Lemmas.C14D04
import MenpoModel.Lemmas.C14D05
import MenpoModel.Lemmas.C14D06
import MenpoModel.Lemmas.C14D07
import MenpoModel.Lemmas.C14D08
import MenpoModel.Lemmas.C14D09
import MenpoModel.Lemmas.C14D10
import MenpoModel.Lemmas.C14D11
import MenpoModel.Lemmas.C14D12
import MenpoModel.Lemmas.C14D13
import MenpoModel.Lemmas.C14D14
import MenpoModel.Lemmas.C14D15

namespace MenpoModel.C14
open Graph

/-! ## 1. A graph built from an edge list reports exactly that edge set -/

/-- PROPERTY (directed).  `DirectedGraph.init_from_edges(es, n).edges` lists exactly the given pairs,
each once, whatever duplicates the input had. -/
theorem directed_edges_exact (n : Nat) (es : List (Nat × Nat)) (hr : edgesInRange n es = true) :
    (fromEdges n es).edgesD.Nodup ∧ ∀ u v, (u, v) ∈ (fromEdges n es).edgesD ↔ (u, v) ∈ es := by
  refine ⟨edgesD_nodup _, fun u v => ?_⟩
  rw [mem_edgesD, fromEdges_isEdge]
  constructor
  · exact fun h => h.2.2
  · intro h
    have := (edgesInRange_iff n es).1 hr _ h
    exact ⟨this.1, this.2, h⟩

/-- PROPERTY (undirected).  The adjacency is symmetric, and `edges` lists every undirected edge of the
input exactly once (as the pair with `u ≤ v`), in whichever orientation(s) and however often it was given. -/
theorem undirected_edges_once_symmetric (n : Nat) (es : List (Nat × Nat)) (hr : edgesInRange n es = true) :
    (fromEdgesSym n es).Symmetric ∧ (fromEdgesSym n es).edgesU.Nodup ∧
    (∀ u v, (u, v) ∈ (fromEdgesSym n es).edgesU ↔ u ≤ v ∧ ((u, v) ∈ es ∨ (v, u) ∈ es)) ∧
    (∀ u v, u ≠ v → (u, v) ∈ (fromEdgesSym n es).edgesU → (v, u) ∉ (fromEdgesSym n es).edgesU) := by
  have hmem : ∀ u v, (u, v) ∈ (fromEdgesSym n es).edgesU ↔ u ≤ v ∧ ((u, v) ∈ es ∨ (v, u) ∈ es) := by
    intro u v
    rw [mem_edgesU_raw, fromEdgesSym_isEdge]
    constructor
    · exact fun h => ⟨h.2.2.2, h.2.2.1⟩
    · rintro ⟨huv, h⟩
      have hin := (edgesInRange_iff n es).1 hr
      rcases h with h | h
      · exact ⟨(hin _ h).1, (hin _ h).2, Or.inl h, huv⟩
      · exact ⟨(hin _ h).2, (hin _ h).1, Or.inr h, huv⟩
  refine ⟨fromEdgesSym_symmetric n es, edgesU_nodup _, hmem, ?_⟩
  intro u v huv h1 h2
  exact huv (Nat.le_antisymm ((hmem u v).1 h1).1 ((hmem v u).1 h2).1)

example : (fromEdgesSym 4 [(2, 0), (0, 2), (1, 3), (3, 3), (2, 0)]).edgesU = [(0, 2), (1, 3), (3, 3)] := by decide
example : (fromEdges 3 [(2, 0), (0, 2), (2, 0)]).edgesD = [(0, 2), (2, 0)] := by decide

/-! ## 2. neighbours, children, parents, isolated vertices, adjacency lists and edge tests are
consistent with the edge set -/

/-- PROPERTY.  `v ∈ neighbours(u)` (children for directed graphs) iff `is_edge(u, v)`. -/
theorem neighbours_iff_isEdge (g : Graph) (u v : Nat) :
    (v ∈ g.neighbours u ↔ v < g.n ∧ g.isEdge u v = true) ∧
    (v ∈ g.children u ↔ v < g.n ∧ g.isEdge u v = true) :=
  ⟨mem_row g u v, mem_row g u v⟩

/-- PROPERTY.  `v ∈ children(u) ↔ u ∈ parents(v)`. -/
theorem children_iff_parents (g : Graph) (u v : Nat) (hu : u < g.n) (hv : v < g.n) :
    v ∈ g.children u ↔ u ∈ g.parents v := by
  simp [Graph.children, Graph.parents, mem_row, mem_col, hu, hv]

/-- PROPERTY.  In a symmetric (undirected) graph being a neighbour is symmetric. -/
theorem neighbours_symmetric (g : Graph) (hs : g.Symmetric) (u v : Nat) (hu : u < g.n) (hv : v < g.n) :
    v ∈ g.neighbours u ↔ u ∈ g.neighbours v := by
  simp [Graph.neighbours, mem_row, hu, hv, Graph.isEdge, hs u v hu hv]

/-- PROPERTY.  A vertex is reported isolated iff no edge enters or leaves it. -/
theorem isolated_iff_no_incident_edge (g : Graph) (v : Nat) :
    v ∈ g.isolated ↔ v < g.n ∧ ∀ u, u < g.n → g.isEdge v u = false ∧ g.isEdge u v = false :=
  mem_isolated g v

/-- PROPERTY.  The adjacency list has one row per vertex, and row `u` is `children(u)` / `neighbours(u)`. -/
theorem adjacencyList_rows (g : Graph) :
    g.adjacencyList.length = g.n ∧ ∀ u, u < g.n → g.adjacencyList[u]? = some (g.children u) :=
  ⟨adjacencyList_length g, adjacencyList_get g⟩

/-- PROPERTY.  The edge test agrees with the reported edge arrays (directed: the pair itself;
undirected: the pair ordered). -/
theorem edge_test_iff_in_edges (g : Graph) (u v : Nat) (hu : u < g.n) (hv : v < g.n) :
    ((u, v) ∈ g.edgesD ↔ g.isEdge u v = true) ∧
    (g.Symmetric → ((min u v, max u v) ∈ g.edgesU ↔ g.isEdge u v = true)) := by
  refine ⟨by simp [mem_edgesD, hu, hv], fun hs => ?_⟩
  rw [mem_edgesU_raw]
  rcases Nat.le_total u v with h | h
  · simp [Nat.min_eq_left h, Nat.max_eq_right h, hu, hv, h]
  · have hsym : g.isEdge v u = g.isEdge u v := by simp [Graph.isEdge, hs v u hv hu]
    simp [Nat.min_eq_right h, Nat.max_eq_left h, hu, hv, h, hsym]

example : (fromEdges 4 [(0, 1), (0, 2), (2, 1)]).children 0 = [1, 2] ∧
    (fromEdges 4 [(0, 1), (0, 2), (2, 1)]).parents 1 = [0, 2] ∧
    (fromEdges 4 [(0, 1), (0, 2), (2, 1)]).isolated = [3] := by decide

/-! ## 3. Masking keeps exactly the induced subgraph on the surviving vertices, renumbered in order,
together with their points -/

/-- PROPERTY.  With `rank` the new index of a surviving vertex: the masked graph has one vertex per
`True`, the stored entry (hence the edge test) between two survivors is unchanged, every pair of new
indices comes from a pair of survivors, and the renumbering keeps the order. -/
theorem mask_induced (g : Graph) (m : List Bool) (hlen : m.length = g.n) :
    (g.mask m).n = m.count true ∧
    (∀ u v, m[u]? = some true → m[v]? = some true →
      rank m u < (g.mask m).n ∧ (g.mask m).w (rank m u) (rank m v) = g.w u v ∧
      (g.mask m).isEdge (rank m u) (rank m v) = g.isEdge u v) ∧
    (∀ i j, i < (g.mask m).n → j < (g.mask m).n →
      ∃ u v, m[u]? = some true ∧ m[v]? = some true ∧ rank m u = i ∧ rank m v = j ∧
        (g.mask m).w i j = g.w u v) ∧
    (∀ u v, u < v → m[u]? = some true → rank m u < rank m v) := by
  refine ⟨mask_n g m hlen, ?_, ?_, fun u v h hu => rank_strictMono m u v h hu⟩
  · intro u v hu hv
    have hw := mask_weight g m hlen u v hu hv
    refine ⟨by rw [mask_n g m hlen]; exact rank_lt_count m u hu, hw, by simp [Graph.isEdge, hw]⟩
  · intro i j hi hj
    obtain ⟨u, hu, rfl⟩ := mask_surj g m hlen i hi
    obtain ⟨v, hv, rfl⟩ := mask_surj g m hlen j hj
    exact ⟨u, v, hu, hv, rfl, rfl, mask_weight g m hlen u v hu hv⟩

/-- PROPERTY.  The points follow: the point of survivor `v` is found at its new index. -/
theorem mask_points_follow {α} (pts : List α) (m : List Bool) (v : Nat)
    (hlen : pts.length = m.length) (hv : m[v]? = some true) :
    (maskFilter pts m)[rank m v]? = pts[v]? :=
  maskFilter_rank pts m v hlen hv

/-- PROPERTY.  `from_mask` as coded: the all-`True` shortcut returns the graph itself, which is what
the general path would compute; an all-`False` mask is refused; otherwise the result is `mask`
together with the list of surviving original indices. -/
theorem fromMask_spec (g : Graph) (m : List Bool) (hlen : m.length = g.n) :
    (m.all id = true → g.fromMask m = .ok (g, List.range g.n) ∧
        (g.mask m).n = g.n ∧ ∀ i j, i < g.n → j < g.n → (g.mask m).w i j = g.w i j) ∧
    (m.all id = false → m.count true = 0 → g.fromMask m = .error .empty) ∧
    (m.all id = false → m.count true ≠ 0 → g.fromMask m = .ok (g.mask m, keepIdx g.n m)) := by
  refine ⟨?_, ?_, ?_⟩
  · intro hall
    refine ⟨by simp [Graph.fromMask, hlen, hall], ?_, ?_⟩
    · rw [mask_n g m hlen, all_true_count m hall, hlen]
    · intro i j hi hj
      have := mask_weight g m hlen i j (all_true_get m hall i (hlen ▸ hi)) (all_true_get m hall j (hlen ▸ hj))
      rwa [all_true_rank m hall i (by omega), all_true_rank m hall j (by omega)] at this
  · intro hall hc
    have : (keepIdx g.n m).isEmpty = true := by
      rw [List.isEmpty_iff_length_eq_zero, ← hlen, keepIdx_length, hc]
    simp [Graph.fromMask, hlen, hall, this]
  · intro hall hc
    have : (keepIdx g.n m).isEmpty = false := by
      rw [Bool.eq_false_iff, Ne, List.isEmpty_iff_length_eq_zero, ← hlen, keepIdx_length]
      exact hc
    simp [Graph.fromMask, hlen, hall, this, Graph.mask]

example : ((fromEdgesSym 5 [(0, 1), (1, 2), (2, 4), (3, 4)]).mask [true, false, true, true, true]).edgesU
    = [(1, 3), (2, 3)] := by decide
example : maskFilter ["a", "b", "c", "d", "e"] [true, false, true, true, true] = ["a", "c", "d", "e"] := by decide

/-! ## 4. A tree's parent, depth, leaf and children relations are mutually consistent -/

/-- PROPERTY.  `parent(v) = p` implies `v ∈ children(p)`; conversely (every vertex having at most one
parent, which the constructor's tree test guarantees) `v ∈ children(p)` implies `parent(v) = p`;
the predecessors list is `parent` tabulated. -/
theorem tree_parent_children_inverse (g : Graph) (v p : Nat) (hv : v < g.n) (hp : p < g.n) :
    (g.parent v = some p → v ∈ g.children p) ∧
    ((g.parents v).length ≤ 1 → v ∈ g.children p → g.parent v = some p) ∧
    g.predList[v]? = some (g.parent v) :=
  ⟨fun h => (parent_mem_children g v p hv h).2, fun hu h => children_parent_unique g v p hp hu h,
    predList_get g v hv⟩

/-- PROPERTY.  The root has depth 0 and only the root; whenever `depth_of_vertex(v)` terminates for a
non-root `v`, `v` has a parent whose depth is one less. -/
theorem tree_depth_parent (g : Graph) (root v d : Nat) (h : g.depth root v = some d) :
    g.depth root root = some 0 ∧ (d = 0 ↔ v = root) ∧
    (v ≠ root → ∃ p d', g.parent v = some p ∧ g.depth root p = some d' ∧ d = d' + 1) := by
  refine ⟨depthF_root g root g.n, ⟨?_, ?_⟩, fun hv => depth_consistent g root _ v d h hv⟩
  · intro hd; subst hd; exact depth_zero_iff g root _ v h
  · intro hv; subst hv
    have := depthF_root g v g.n
    simp only [Graph.depth] at h
    rw [this] at h
    simpa using h.symm

/-- PROPERTY.  `leaves` are exactly the vertices without children; with unique parents a vertex is a
leaf iff it is nobody's parent. -/
theorem tree_leaf_iff_no_children (g : Graph) (v : Nat) (hv : v < g.n) :
    (v ∈ g.leaves ↔ ∀ c, c ∉ g.children v) ∧
    ((∀ c, c < g.n → (g.parents c).length ≤ 1) → (g.isLeaf v = true ↔ ∀ c, c < g.n → g.parent c ≠ some v)) := by
  refine ⟨by simp [mem_leaves, hv], fun hu => ?_⟩
  simp only [Graph.isLeaf, List.isEmpty_iff, List.eq_nil_iff_forall_not_mem]
  constructor
  · intro h c hc hpc
    exact h c (parent_mem_children g c v hc hpc).2
  · intro h c hc
    have hcn : c < g.n := ((mem_row g v c).1 hc).1
    exact h c hcn (children_parent_unique g c v hv (hu c hcn) hc)

/-- the tree of the docstring of `Tree.init_from_edges` -/
def exTree : Graph := fromEdges 9 [(0, 1), (0, 2), (1, 3), (1, 4), (2, 5), (3, 6), (4, 7), (5, 8)]
example : errOf (exTree.treeCtor 0) = none ∧ exTree.predList = [none, some 0, some 0, some 1, some 1, some 2, some 3, some 4, some 5]
    ∧ exTree.depth 0 7 = some 3 ∧ exTree.leaves = [6, 7, 8] ∧ (∀ c, c < 9 → (exTree.parents c).length ≤ 1) := by decide

/-! ## 5. Cycle and tree tests agree with reference algorithms on the property's exhaustive domains -/

theorem smallU_5 : ∀ c : Fin 1024, smallOkU 5 c.val = true := by
  refine chunk_cover (fun c => smallOkU 5 c = true) 128 8 ?_
  intro j hj
  match j, hj with
  | 0, _ => exact smallU_5_0
  | 1, _ => exact smallU_5_1
  | 2, _ => exact smallU_5_2
  | 3, _ => exact smallU_5_3
  | 4, _ => exact smallU_5_4
  | 5, _ => exact smallU_5_5
  | 6, _ => exact smallU_5_6
  | 7, _ => exact smallU_5_7
  | j + 8, h => omega

theorem smallD_4 : ∀ c : Fin 4096, smallOkD 4 c.val = true := by
  refine chunk_cover (fun c => smallOkD 4 c = true) 256 16 ?_
  intro j hj
  match j, hj with
  | 0, _ => exact smallD_4_0
  | 1, _ => exact smallD_4_1
  | 2, _ => exact smallD_4_2
  | 3, _ => exact smallD_4_3
  | 4, _ => exact smallD_4_4
  | 5, _ => exact smallD_4_5
  | 6, _ => exact smallD_4_6
  | 7, _ => exact smallD_4_7
  | 8, _ => exact smallD_4_8
  | 9, _ => exact smallD_4_9
  | 10, _ => exact smallD_4_10
  | 11, _ => exact smallD_4_11
  | 12, _ => exact smallD_4_12
  | 13, _ => exact smallD_4_13
  | 14, _ => exact smallD_4_14
  | 15, _ => exact smallD_4_15
  | j + 16, h => omega

/-- all undirected graphs on `n ≤ 5` labelled vertices: `2^(n(n-1)/2)` codes -/
theorem smallU_all (n : Nat) (hn : 1 ≤ n ∧ n ≤ 5) (c : Nat) (hc : c < 2 ^ (n * (n - 1) / 2)) :
    smallOkU n c = true := by
  obtain ⟨h1, h5⟩ := hn
  match n, h1, h5 with
  | 1, _, _ => exact smallU_1 ⟨c, hc⟩
  | 2, _, _ => exact smallU_2 ⟨c, hc⟩
  | 3, _, _ => exact smallU_3 ⟨c, hc⟩
  | 4, _, _ => exact smallU_4 ⟨c, hc⟩
  | 5, _, _ => exact smallU_5 ⟨c, hc⟩
  | n + 6, _, h => omega

/-- all loop-free directed graphs on `n ≤ 4` labelled vertices: `2^(n(n-1))` codes -/
theorem smallD_all (n : Nat) (hn : 1 ≤ n ∧ n ≤ 4) (c : Nat) (hc : c < 2 ^ (n * (n - 1))) :
    smallOkD n c = true := by
  obtain ⟨h1, h4⟩ := hn
  match n, h1, h4 with
  | 1, _, _ => exact smallD_1 ⟨c, hc⟩
  | 2, _, _ => exact smallD_2 ⟨c, hc⟩
  | 3, _, _ => exact smallD_3 ⟨c, hc⟩
  | 4, _, _ => exact smallD_4 ⟨c, hc⟩
  | n + 5, _, h => omega

/-- PROPERTY (finite clause, the property's own quantifier).  For **every** undirected graph on at most
5 vertices the recursive DFS detector `_has_cycles` answers what the cyclomatic-number reference
answers, and `is_tree` is "connected and acyclic". -/
theorem hasCycles_correct_small_undirected (n : Nat) (hn : 1 ≤ n ∧ n ≤ 5) (c : Nat)
    (hc : c < 2 ^ (n * (n - 1) / 2)) :
    (gU n c).hasCycles false = (gU n c).refCycleU ∧ (gU n c).isTree false = (gU n c).refTreeU := by
  have := smallU_all n hn c hc
  simpa [smallOkU] using this

/-- PROPERTY (finite clause).  For **every** loop-free directed graph on at most 4 vertices the DFS
detector answers what the closed-walk reference answers. -/
theorem hasCycles_correct_small_directed (n : Nat) (hn : 1 ≤ n ∧ n ≤ 4) (c : Nat)
    (hc : c < 2 ^ (n * (n - 1))) :
    (gD n c).hasCycles true = (gD n c).refCycleD := by
  have := smallD_all n hn c hc
  simp only [smallOkD, Bool.and_eq_true, beq_iff_eq] at this
  exact this.1.1

/-- REFUTATION (behaviour before `fix: 88f3f30`).  `DirectedGraph.is_tree` answered `True` for the acyclic triangle
`0→1, 0→2, 1→2` next to the isolated vertex 3: three edges on four vertices, no directed cycle, yet
disconnected and with an undirected cycle — not a tree under any textbook reading. -/
theorem isTree_directed_coded_refuted :
    (fromEdges 4 [(0, 1), (0, 2), (1, 2)]).isTreeCoded true = true ∧
    (fromEdges 4 [(0, 1), (0, 2), (1, 2)]).isTree true = false ∧
    (fromEdges 4 [(0, 1), (0, 2), (1, 2)]).refPolytree = false ∧
    (fromEdges 4 [(0, 1), (0, 2), (1, 2)]).nComponents = 2 := by decide

/-- PROPERTY (finite clause).  `is_tree` of a directed graph holds exactly when the underlying undirected graph is a tree, on every loop-free directed graph
on at most 4 vertices. -/
theorem isTree_spec_small_directed (n : Nat) (hn : 1 ≤ n ∧ n ≤ 4) (c : Nat)
    (hc : c < 2 ^ (n * (n - 1))) :
    (gD n c).isTree true = (gD n c).refPolytree := by
  have := smallD_all n hn c hc
  simp only [smallOkD, Bool.and_eq_true, beq_iff_eq] at this
  exact this.1.2

/-- PROPERTY (finite clause, `Tree` constructor).  On every loop-free
directed graph on 2…4 vertices and every root, the constructor accepts exactly the arborescences
rooted there (a single vertex is refused by design: "a tree cannot have isolated vertices"). -/
theorem treeCtor_spec_small (n : Nat) (hn : 1 ≤ n ∧ n ≤ 4) (c : Nat) (hc : c < 2 ^ (n * (n - 1)))
    (r : Nat) (hr : r < n) :
    (gD n c).treeCtorOk r = (decide (2 ≤ n) && (gD n c).refArborescence r) := by
  have := smallD_all n hn c hc
  simp only [smallOkD, Bool.and_eq_true, beq_iff_eq, List.all_eq_true, List.mem_range] at this
  exact this.2 r hr

/-- REFUTATION (behaviour before `fix: f13d9a9`).  The constructor's comparison
`np.allclose(bfs.nonzero(), adjacency.nonzero())` depended on the order in which scipy lists the breadth-first tree: the tree
`2→0, 2→1, 0→3` rooted at 2 is refused when the listing is `(0,3),(2,1),(2,0)` (what scipy 1.18 /
numpy 2.5 return) although the edge sets coincide. -/
theorem treeCompareCoded_order_sensitive :
    treeCompareCoded [(0, 3), (2, 1), (2, 0)] (fromEdges 4 [(0, 3), (2, 0), (2, 1)]).edgesD = false ∧
    sameEdgeSet [(0, 3), (2, 1), (2, 0)] (fromEdges 4 [(0, 3), (2, 0), (2, 1)]).edgesD = true ∧
    errOf ((fromEdges 4 [(0, 3), (2, 0), (2, 1)]).treeCtor 2) = none ∧
    errOf ((fromEdges 4 [(0, 3), (2, 0), (2, 1)]).treeCtorCoded 2 [(0, 3), (2, 1), (2, 0)]) = some .bfsDiffers := by
  decide

/-- REFUTATION (behaviour before `fix: f13d9a9`).  An empty breadth-first tree broadcast against a single edge to an
empty comparison, which `allclose` calls equal: the graph `1→0` is accepted as a tree rooted at 0. -/
theorem treeCompareCoded_empty_broadcast :
    errOf ((fromEdges 2 [(1, 0)]).treeCtorCoded 0 ((fromEdges 2 [(1, 0)]).bfsTree 0)) = none ∧
    errOf ((fromEdges 2 [(1, 0)]).treeCtor 0) = some .bfsDiffers ∧
    (fromEdges 2 [(1, 0)]).refArborescence 0 = false ∧
    (fromEdges 2 [(1, 0)]).depth 0 1 = none := by decide

example : (gU 5 0b10011).edgesU = [(0, 1), (0, 2), (1, 2)] ∧ (gU 5 0b10011).hasCycles false = true ∧
    (fromEdgesSym 5 [(0, 1), (1, 2), (2, 3), (3, 4)]).isTree false = true ∧
    (fromEdgesSym 5 [(0, 1), (1, 2), (3, 4)]).isTree false = false := by decide
example : (fromEdges 4 [(0, 1), (1, 2), (0, 2)]).hasCycles true = false ∧
    (fromEdges 4 [(0, 1), (1, 2), (2, 0)]).hasCycles true = true ∧
    (gD 4 0b100000010001).edgesD = [(0, 1), (1, 2), (3, 2)] := by decide

/-! ## 6. Paths -/

/-- PROPERTY.  `find_all_paths(s, t)` returns exactly the simple paths: every returned list is a route
from `s` to `t` along stored edges without repeated vertex, and every such route is returned. -/
theorem allPaths_exactly_simple_routes (g : Graph) (s t : Nat) (p : List Nat) (hp : ∀ x ∈ p, x < g.n) :
    p ∈ g.allPaths s t ↔
      (p.head? = some s ∧ p.getLast? = some t ∧ g.isRoute p = true ∧ p.Nodup) := by
  constructor
  · intro h
    obtain ⟨q, rfl, h1, h2, h3, h4⟩ := allPathsF_sound g _ s t [] p (by simp) h
    exact ⟨by simpa using h1, by simpa using h2, by simpa using h3, h4⟩
  · rintro ⟨h1, h2, h3, h4⟩
    have hlen : p.length ≤ g.n := by
      have hsub : p ⊆ List.range g.n := fun x hx => List.mem_range.2 (hp x hx)
      have := List.Nodup.length_le_of_subset h4 hsub
      simpa using this
    have := allPathsF_complete g p (g.n + 2) s t [] h1 h2 h3 (by simpa using h4) hp (by omega)
    simpa [Graph.allPaths] using this

example : (fromEdgesSym 6 [(0, 1), (0, 2), (1, 2), (1, 3), (2, 4), (3, 4), (3, 5)]).allPaths 0 5 =
    [[0, 1, 2, 4, 3, 5], [0, 1, 3, 5], [0, 2, 1, 3, 5], [0, 2, 4, 3, 5]] := by decide

/-! ## 7. Shortest paths: route and cost -/

/-- CODED COST (what the model and the code compute).  The number `find_shortest_path` returns is the
sum of the distances from `start` to all vertices of the path but the last. -/
theorem shortest_path_cost_coded (d : List (Option Nat)) (path : List Nat)
    (hd : ∀ v ∈ path.dropLast, (d.getD v none).isSome = true) :
    codedCost d path = some ((path.dropLast.map fun v => (d.getD v none).getD 0).sum) :=
  codedCost_eq_sum d path hd

/-- the path graph 0 — 1 — 2 — 3 — 4 with unit weights -/
def exPath : Graph := fromEdgesSym 5 [(0, 1), (1, 2), (2, 3), (3, 4)]

/-- REFUTATION (coded behaviour, pinned by `test_find_shortest_path`).  On the path graph the
reference distances from 0 are `0,1,2,3,4`; with scipy's predecessors the coded function returns the
right route `[0,1,2,3,4]` but the cost `0+1+2+3 = 6` instead of `4`, and for the single edge `0 — 1`
the cost `0` instead of `1`. -/
theorem shortest_path_cost_refuted :
    exPath.dist 0 = [some 0, some 1, some 2, some 3, some 4] ∧
    shortestPathCoded (exPath.dist 0) [none, some 0, some 1, some 2, some 3] 0 4
      = some ([0, 1, 2, 3, 4], some 6) ∧
    exPath.routeWeight [0, 1, 2, 3, 4] = some 4 ∧
    shortestPathCoded (exPath.dist 0) [none, some 0, some 1, some 2, some 3] 0 1 = some ([0, 1], some 0) := by
  decide

/-- REFUTATION (coded behaviour, pinned).  `find_shortest_path(v, v)` is `([], inf)` and
`find_path(v, v)` is `[]` — the answers for "no path" — because scipy marks the source itself with
-9999 in the predecessor array; the reference distance of a vertex to itself is 0 by the route `[v]`. -/
theorem shortest_path_self_refuted (g : Graph) (d pred : List (Option Nat)) (s : Nat) (hs : s < g.n)
    (h : pred.getD s none = none) :
    shortestPathCoded d pred s s = some ([], none) ∧ pathFromPred pred s s = some [] ∧
    (g.dist s).getD s none = some 0 ∧ g.routeWeight [s] = some 0 :=
  ⟨shortestPathCoded_self d pred s h, pathFromPred_self pred s h, dist_self g s hs, rfl⟩

/-- PROPERTY (repaired cost; route).  Under scipy's predecessor contract the route reconstructed by
`find_shortest_path` / `find_path` leads from `start` to `end` along stored edges and its weight is
`distances[start, end]`. -/
theorem shortest_route_weight_is_distance (g : Graph) (d pred : List (Option Nat)) (start t : Nat)
    (hc : PredContract g d pred start) (hts : t ≠ start) (dt : Nat) (hdt : d.getD t none = some dt)
    (f : Nat) (path : List Nat) (h : walkBack pred start f [t] = some path) :
    g.routeWeight path = some dt ∧ path.head? = some start ∧ path.getLast? = some t :=
  route_weight_eq_dist g d pred start t hc hts dt hdt f path h

example : PredContract exPath (exPath.dist 0) [none, some 0, some 1, some 2, some 3] 0 := by
  refine ⟨by decide, ?_⟩
  intro v p hv hp
  have hv5 : v < 5 := by
    rcases Nat.lt_or_ge v 5 with h | h
    · exact h
    · rw [List.getD_eq_getElem?_getD, List.getElem?_eq_none (by simpa using h)] at hp; cases hp
  match v, hv5 with
  | 0, _ => exact absurd rfl hv
  | 1, _ => cases hp; decide
  | 2, _ => cases hp; decide
  | 3, _ => cases hp; decide
  | 4, _ => cases hp; decide

/-- PROPERTY (reference distances are what the textbook says).  The Bellman–Ford reference `dist`
used to judge routes and costs is *sound* (every finite value is the weight of a route from the
source along stored edges) and *optimal* (no route from the source within the graph is lighter). -/
theorem reference_distance_correct (g : Graph) (s : Nat) (hs : s < g.n) :
    (∀ v x, (g.dist s).getD v none = some x →
      ∃ route, route.head? = some s ∧ route.getLast? = some v ∧ g.routeWeight route = some x) ∧
    (∀ route v x, route.head? = some s → route.getLast? = some v → (∀ y ∈ route, y < g.n) →
      route.Nodup → g.routeWeight route = some x →
      ∃ y, (g.dist s).getD v none = some y ∧ y ≤ x) :=
  ⟨fun v x h => dist_sound g s hs v x h, fun route v x h1 h2 h3 h4 h5 => dist_optimal g s route v x h1 h2 h3 h4 h5⟩

/-! ## 8. The cycle detector `_has_cycles` on graphs of EVERY size -/

/-- PROPERTY (unbounded, the function as coded).  For any adjacency list whose entries are vertex
numbers, `_has_cycles(adjacency_list, directed=True)` — the recursive DFS with its shared
`entered / exited / tree_edges / back_edges` state and the fuel `hasCyclesL` gives it — answers `True`
exactly when some edge `v → c` lies on a closed walk (`c ⇝ v`). -/
theorem hasCyclesL_correct_directed (adjL : List (List Nat))
    (hwf : ∀ u, ∀ y ∈ Dfs.adjOf adjL u, y < adjL.length) :
    hasCyclesL adjL true = true ↔ ∃ v c, c ∈ Dfs.adjOf adjL v ∧ Dfs.Walk (Dfs.adjOf adjL) c v :=
  Dfs.hasCyclesL_directed adjL hwf

/-- PROPERTY (unbounded, the function as coded).  For any symmetric adjacency list without repeated
entries, `_has_cycles(adjacency_list, directed=False)` answers `True` exactly when the graph has a
self-loop or a simple cycle: `k ≥ 3` distinct vertices, each adjacent to the cyclically next. -/
theorem hasCyclesL_correct_undirected (adjL : List (List Nat))
    (hwf : ∀ u, ∀ y ∈ Dfs.adjOf adjL u, y < adjL.length)
    (hsym : ∀ u v, v ∈ Dfs.adjOf adjL u → u ∈ Dfs.adjOf adjL v) (hnd : ∀ u, (Dfs.adjOf adjL u).Nodup) :
    hasCyclesL adjL false = true ↔
      (∃ u, u ∈ Dfs.adjOf adjL u) ∨
      ∃ C : List Nat, 3 ≤ C.length ∧ C.Nodup ∧
        ∀ i, i < C.length → C.getD ((i + 1) % C.length) 0 ∈ Dfs.adjOf adjL (C.getD i 0) :=
  Dfs.hasCyclesL_undirected adjL hwf hsym hnd

/-- the hypotheses are satisfiable and the answer non-trivial: the 5-cycle with a pendant vertex -/
def exAdj : List (List Nat) := [[1, 4], [0, 2], [1, 3], [2, 4, 5], [0, 3], [3]]
example : (∀ u, ∀ y ∈ Dfs.adjOf exAdj u, y < exAdj.length) ∧ (∀ u, (Dfs.adjOf exAdj u).Nodup) ∧
    hasCyclesL exAdj false = true ∧ hasCyclesL [[1], [0, 2], [1]] false = false ∧
    hasCyclesL [[1], [2], [0], [0]] true = true ∧ hasCyclesL [[1, 2], [2], [], [0]] true = false := by
  refine ⟨?_, ?_, by decide, by decide, by decide, by decide⟩
  · intro u y hy
    rcases Nat.lt_or_ge u 6 with h | h
    · match u, h with
      | 0, _ | 1, _ | 2, _ | 3, _ | 4, _ | 5, _ => revert y; decide
    · have := Dfs.adjOf_lt_of_mem hy
      simp only [exAdj, List.length_cons, List.length_nil] at this
      omega
  · intro u
    rcases Nat.lt_or_ge u 6 with h | h
    · match u, h with
      | 0, _ | 1, _ | 2, _ | 3, _ | 4, _ | 5, _ => decide
    · have : Dfs.adjOf exAdj u = [] := by
        unfold Dfs.adjOf
        rw [List.getD_eq_getElem?_getD, List.getElem?_eq_none (by simpa [exAdj] using h)]; rfl
      rw [this]; exact List.nodup_nil

/-- PROPERTY (unbounded).  `DirectedGraph.has_cycles()` equals the closed-walk reference on EVERY graph
(the table `hasCycles_correct_small_directed` for all sizes), and the reference means what it says. -/
theorem hasCycles_correct_directed (g : Graph) :
    g.hasCycles true = g.refCycleD ∧
    (g.hasCycles true = true ↔ ∃ v c, v < g.n ∧ c ∈ g.children v ∧ Reach g.children c v) :=
  ⟨hasCycles_eq_refCycleD g, hasCycles_directed_iff g⟩

/-- PROPERTY (unbounded).  `UndirectedGraph.has_cycles()` is `True` exactly when the (symmetric) graph
has a self-loop or a simple cycle, and it equals the cyclomatic-number reference `m + c > n` on EVERY
symmetric graph (the table `hasCycles_correct_small_undirected`, first half, for all sizes). -/
theorem hasCycles_correct_undirected (g : Graph) (hs : g.Symmetric) :
    (g.hasCycles false = true ↔
      (∃ u, u < g.n ∧ g.isEdge u u = true) ∨
      ∃ C : List Nat, 3 ≤ C.length ∧ C.Nodup ∧ (∀ v ∈ C, v < g.n) ∧
        ∀ i, i < C.length → g.isEdge (C.getD i 0) (C.getD ((i + 1) % C.length) 0) = true) ∧
    g.hasCycles false = g.refCycleU ∧ (g.refCycleU = true ↔ g.HasUndCycle) :=
  ⟨hasCycles_undirected_iff g hs, hasCycles_eq_refCycleU g hs, refCycleU_iff g hs⟩

example : (fromEdgesSym 6 [(0, 1), (1, 2), (2, 3), (3, 4), (4, 0), (3, 5)]).SimpleCycle [0, 1, 2, 3, 4] := by
  refine ⟨by decide, by decide, by decide, ?_⟩
  intro i hi
  match i, hi with
  | 0, _ | 1, _ | 2, _ | 3, _ | 4, _ => decide

/-! ## 9. `is_tree` and the `Tree` constructor on graphs of EVERY size -/

/-- PROPERTY (unbounded).  `UndirectedGraph.is_tree()` holds exactly for the non-empty connected graphs
without cycle (the `n - 1` edges the code counts are implied), it equals the reference `refTreeU` on
every symmetric graph (the table `hasCycles_correct_small_undirected`, second half, for all sizes), and
a connected graph has at least `n - 1` edges, exactly `n - 1` iff the detector finds no cycle. -/
theorem isTree_undirected_spec (g : Graph) (hs : g.Symmetric) :
    (g.isTree false = true ↔ 0 < g.n ∧ g.Connected ∧ ¬ g.HasUndCycle) ∧
    g.isTree false = g.refTreeU ∧
    (0 < g.n → g.Connected →
      g.n ≤ g.edgesU.length + 1 ∧ (g.hasCycles false = false ↔ g.edgesU.length + 1 = g.n)) :=
  ⟨isTree_undirected_iff_connected_acyclic g hs, isTree_eq_refTreeU g hs,
    fun hn hc => connected_edge_count g hs hc hn⟩

/-- PROPERTY (unbounded).  `DirectedGraph.is_tree()` (since `fix: 88f3f30`) equals the reference "the
underlying undirected graph is a tree" on EVERY graph (the table `isTree_spec_small_directed` for all
sizes); it holds exactly for the weakly connected graphs with `n - 1` edges (the acyclicity test of the
code is implied), equivalently those with `n - 1` edges none of which lies on a closed walk; such a
graph has neither loops nor antiparallel pairs. -/
theorem isTree_directed_spec (g : Graph) :
    g.isTree true = g.refPolytree ∧
    (g.isTree true = true ↔ g.nComponents = 1 ∧ g.edgesD.length + 1 = g.n) ∧
    (g.isTree true = true ↔
      g.edgesD.length + 1 = g.n ∧ (¬ ∃ v c, v < g.n ∧ c ∈ g.row v ∧ Reach g.row c v) ∧ g.Connected) ∧
    (g.isTree true = true → ∀ i j, i < g.n → j < g.n → g.w i j ≠ 0 → g.w j i = 0) := by
  refine ⟨isTree_eq_refPolytree g, isTree_directed_iff_polytree g, isTree_directed_iff g, ?_⟩
  intro h i j hi hj h1
  apply Classical.byContradiction
  intro h2
  exact isTree_directed_no_antiparallel g h i j hi hj h1 h2

example : (fromEdges 6 [(0, 1), (2, 1), (1, 3), (3, 4), (5, 4)]).isTree true = true ∧
    (List.range 6).all (fun r => !(fromEdges 6 [(0, 1), (2, 1), (1, 3), (3, 4), (5, 4)]).treeCtorOk r) = true := by
  decide

/-- PROPERTY (unbounded; the table `treeCtor_spec_small` for all sizes and all roots).  The `Tree`
constructor with checks accepts exactly the arborescences rooted at `root_vertex` on at least two
vertices: the root has no parent, every other vertex exactly one, every vertex is reached from the root. -/
theorem treeCtor_spec (g : Graph) (r : Nat) :
    g.treeCtorOk r = (decide (2 ≤ g.n) && g.refArborescence r) ∧
    (g.treeCtor r = .ok () ↔ 2 ≤ g.n ∧ r < g.n ∧ g.parents r = [] ∧
      (∀ v, v < g.n → v ≠ r → ∃ p, g.parents v = [p]) ∧ (∀ v, v < g.n → Reach g.children r v)) := by
  refine ⟨treeCtorOk_eq g r, ?_⟩
  rw [treeCtor_iff, refArborescence_iff]
  constructor
  · rintro ⟨h2, A⟩; exact ⟨h2, A.root_lt, A.root_col, A.col_single, A.reach⟩
  · rintro ⟨h2, h3, h4, h5, h6⟩; exact ⟨h2, ⟨h3, h4, h5, h6⟩⟩

/-- PROPERTY (unbounded).  In every accepted tree the relations are total and mutually consistent: the
root has no parent and every other vertex a parent in range whose child it is; every vertex has a depth
`< n`, namely the number of steps of any route from the root to it; a non-root vertex has depth `d + 1`
iff its parent has depth `d`; the leaves are exactly the vertices that are nobody's parent. -/
theorem tree_relations_total (g : Graph) (r : Nat) (h : g.treeCtor r = .ok ()) :
    (g.parent r = none ∧ ∀ v, v < g.n → v ≠ r → ∃ p, g.parent v = some p ∧ p < g.n ∧ v ∈ g.children p) ∧
    (∀ v, v < g.n → ∃ d, g.depth r v = some d ∧ d < g.n) ∧
    (∀ l : List Nat, g.isRoute (r :: l) = true → (∀ x, x ∈ l → x < g.n) →
      g.depth r ((r :: l).getLast (by simp)) = some l.length) ∧
    (∀ v d, v ≠ r → (g.depth r v = some (d + 1) ↔ ∃ p, g.parent v = some p ∧ g.depth r p = some d)) ∧
    (∀ v, v ∈ g.leaves ↔ v < g.n ∧ ∀ c, c < g.n → g.parent c ≠ some v) ∧
    g.edgesD.length + 1 = g.n :=
  ⟨treeCtor_parent g r h, treeCtor_depth_total g r h, treeCtor_route_length g r h,
    fun v d hv => depth_succ_iff g r v d hv, treeCtor_leaves g r h, treeCtor_edge_count g r h⟩

example : exTree.treeCtor 0 = .ok () := by
  have : errOf (exTree.treeCtor 0) = none := by decide
  cases h : exTree.treeCtor 0 with
  | ok u => cases u; rfl
  | error e => rw [h] at this; cases this

/-- PROPERTY (the reference closures mean what they say).  `nComponents = 1` iff any two vertices are
joined in the underlying undirected graph; the component of `r` is what is reachable from `r`. -/
theorem reference_components_correct (g : Graph) :
    (0 < g.n → (g.nComponents = 1 ↔ g.Connected)) ∧
    (∀ r v, r < g.n → (v ∈ g.component r ↔ Reach g.und r v)) ∧
    (g.refCycleD = true ↔ ∃ v c, v < g.n ∧ c ∈ g.row v ∧ Reach g.row c v) :=
  ⟨fun hn => nComponents_eq_one_iff g hn, fun r v hr => mem_component g r v hr, refCycleD_iff g⟩

/-! ## 10. `PointTree.from_mask` keeps exactly what stays connected to the root -/

/-- PROPERTY (unbounded).  `PointTree.from_mask` as coded (mask, then iterated pruning to the root's
component with root re-indexing, then the constructor): a mask of the wrong length and a mask that
removes the root are refused, the all-`True` shortcut returns the tree itself, and whenever a result is
returned for another mask it is exactly the subgraph induced by the masked-in vertices joined to the
root through masked-in vertices (`Kept`), renumbered in increasing order, with the root at its new
index, connected, and it passed the `Tree` constructor. -/
theorem treeFromMask_root_component (g : Graph) (r : Nat) (m : List Bool) :
    (m.length ≠ g.n → g.treeFromMask r m = .error .maskLength) ∧
    (m.length = g.n → m.all id = true → g.treeFromMask r m = .ok (g, r, List.range g.n)) ∧
    (m.length = g.n → m.all id = false → m.getD r false = false → g.treeFromMask r m = .error .rootRemoved) ∧
    (∀ g' r' keep', m.all id = false → g.treeFromMask r m = .ok (g', r', keep') →
      keep'.Pairwise (· < ·) ∧ (∀ v, v ∈ keep' ↔ Kept g m r v) ∧
      keep' = (List.range g.n).filter (keptB g m r) ∧
      g'.n = keep'.length ∧
      (∀ i j, i < g'.n → j < g'.n → g'.w i j = g.w (keep'.getD i 0) (keep'.getD j 0)) ∧
      r' < g'.n ∧ keep'.getD r' 0 = r ∧ r' = (keep'.filter fun x => decide (x < r)).length ∧
      g'.nComponents = 1 ∧ g'.treeCtor r' = .ok ()) := by
  refine ⟨treeFromMask_maskLength g r m, treeFromMask_allTrue g r m, treeFromMask_rootRemoved g r m, ?_⟩
  intro g' r' keep' hall hok
  have S := treeFromMask_spec g r m g' r' keep' hall hok
  have hlen := treeFromMask_ok_length g r m _ hok
  exact ⟨S.sorted, S.mem, S.keep_eq hlen, S.n_eq, S.w_eq, S.root_lt, S.root_eq, S.root_index, S.conn,
    treeFromMask_ctor g r m g' r' keep' hall hok⟩

/-- the pruning loop itself, for any graph: fuel `n + 1` suffices (one round does) -/
theorem pruneLoop_root_component (g : Graph) (r : Nat) (m : List Bool) (hlen : m.length = g.n)
    (hr : m[r]? = some true) :
    PruneSpec g m r
      (pruneLoop (g.n + 1) (g.select (keepIdx g.n m)) (rank m r) (keepIdx g.n m)).1
      (pruneLoop (g.n + 1) (g.select (keepIdx g.n m)) (rank m r) (keepIdx g.n m)).2.1
      (pruneLoop (g.n + 1) (g.select (keepIdx g.n m)) (rank m r) (keepIdx g.n m)).2.2 :=
  pruneLoop_spec g r m hlen hr

/-! ## 11. The Kruskal reference returns a minimum spanning forest -/

/-- PROPERTY (reference for `minimum_spanning_tree`).  The numbers the driver reports are the weight
and the size of the edge list `kruskalEdges`; these edges are edges of the graph with their stored
weight, listed by increasing weight without repetition; no chosen edge closes a path of the edges
chosen before it, nor of all the other chosen edges (forest); they connect exactly what the graph
connects (spanning); there are `n - #components` of them; and no set of graph edges connecting the
same vertices weighs less (minimum). -/
theorem kruskal_minimum_spanning_forest (g : Graph) :
    g.kruskal = ((g.kruskalEdges.map (·.1)).sum, g.kruskalEdges.length) ∧
    (∀ w i j, (w, i, j) ∈ g.kruskalEdges → i < j ∧ j < g.n ∧ (g.w i j ≠ 0 ∨ g.w j i ≠ 0) ∧ w = g.uw i j) ∧
    g.kruskalEdges.Pairwise (fun a b => a.1 ≤ b.1) ∧ g.kruskalEdges.Nodup ∧
    ForestOrd g.kruskalEdges ∧
    (∀ e ∈ g.kruskalEdges, ¬ Conn (g.kruskalEdges.filter fun x => x != e) e.2.1 e.2.2) ∧
    (∀ u v, Conn g.wEdges u v ↔ Conn g.kruskalEdges u v) ∧
    (∀ u v, u < g.n → (Conn g.wEdges u v ↔ Reach g.und u v)) ∧
    g.kruskalEdges.length + g.nComponents = g.n ∧
    (∀ F : List WEdge, (∀ e ∈ F, e ∈ g.wEdges) →
      (∀ u v, u < g.n → v < g.n → Conn g.wEdges u v → Conn F u v) →
      (g.kruskalEdges.map (·.1)).sum ≤ (F.map (·.1)).sum) :=
  ⟨kruskal_eq_edges g, kruskalEdges_mem g, kruskalEdges_sorted g, kruskalEdges_nodup g, kruskal_forest g,
    kruskal_bridges g, kruskal_spanning g, fun u v hu => conn_wEdges_iff_reach g u v hu,
    kruskal_count_components g, kruskal_minimal g⟩

example : exG.kruskalEdges = [(1, 3, 4), (2, 0, 1), (2, 0, 2), (4, 2, 4)] ∧ exG.kruskal = (9, 4) ∧
    exG.nComponents = 2 := by decide

/-- PROPERTY (the minimum spanning forest is unique for pairwise different weights — the fact the comparison of
`minimum_spanning_tree` with the reference rests on).  When no two candidate edges of the graph weigh the same, EVERY
cycle-free list `F` of graph edges that connects what the graph connects and weighs no more than Kruskal's choice
consists of exactly the edges Kruskal chooses: an implementation that returns a minimum spanning tree returns this one. -/
theorem minimum_spanning_forest_unique (g : Graph)
    (hdist : ∀ e ∈ g.wEdges, ∀ e' ∈ g.wEdges, e.1 = e'.1 → e = e')
    (F : List WEdge) (hsub : ∀ e ∈ F, e ∈ g.wEdges) (hF : ForestOrd F)
    (hspan : ∀ u v, u < g.n → v < g.n → Conn g.wEdges u v → Conn F u v)
    (hmin : (F.map (·.1)).sum ≤ (g.kruskalEdges.map (·.1)).sum) :
    ∀ e, e ∈ F ↔ e ∈ g.kruskalEdges := by
  have h := kruskal_unique_forestR g hdist F.reverse (fun e he => hsub e (List.mem_reverse.1 he))
    ((forestOrd_iff_reverse F).1 hF)
    (fun u v hu hv hc => (conn_reverse F u v).2 (hspan u v hu hv hc))
    (by
      have h1 : (g.kruskalEdges.map (·.1)).sum = (g.kruskalState.2.map (·.1)).sum := by
        simp [Graph.kruskalEdges]
      rw [List.map_reverse, List.sum_reverse_nat]
      omega)
  intro e
  rw [← h e, List.mem_reverse]

/-- the triangle with weights 1, 2, 3 and a pendant edge of weight 4: pairwise different weights -/
def exDistinct : Graph := Graph.ofRows [[0, 1, 3, 0], [1, 0, 2, 0], [3, 2, 0, 4], [0, 0, 4, 0]]
example : (∀ e ∈ exDistinct.wEdges, ∀ e' ∈ exDistinct.wEdges, e.1 = e'.1 → e = e') ∧
    exDistinct.kruskalEdges = [(1, 0, 1), (2, 1, 2), (4, 2, 3)] ∧
    exDistinct.wEdges = [(1, 0, 1), (3, 0, 2), (2, 1, 2), (4, 2, 3)] := by decide

/-! ## 12. Integer (negative) weights: the structural operations read the zero pattern, masking carries the sign -/

/-- PROPERTY (weights of any sign).  On a graph whose stored entries are integers, the edge test, the rows and columns
behind neighbours / children / parents (hence every query, cycle and tree test, path enumeration, the Tree constructor
and the tree relations, which are built from them) are those of the graph of absolute values; selecting / masking
commutes with taking absolute values; and the selected graph carries the ORIGINAL signed entries. -/
theorem signed_structural_ops (g : SGraph) :
    (∀ u v, g.isEdge u v = g.abs.isEdge u v) ∧ (∀ u, g.row u = g.abs.row u) ∧ (∀ v, g.col v = g.abs.col v) ∧
    (∀ keep, (g.select keep).abs = g.abs.select keep) ∧ (∀ m, (g.mask m).abs = g.abs.mask m) ∧
    (∀ keep i j, (g.select keep).w i j = g.w (keep.getD i 0) (keep.getD j 0)) ∧
    (g.symmetricB = true → g.abs.symmetricB = true) := by
  have hne : ∀ x : Int, (x != 0) = (x.natAbs != 0) := by
    intro x; rw [Bool.eq_iff_iff]; simp [Int.natAbs_eq_zero]
  refine ⟨fun u v => hne _, fun u => ?_, fun v => ?_, fun keep => rfl, fun m => rfl, fun keep i j => rfl, ?_⟩
  · simp only [SGraph.row, Graph.row, SGraph.abs, hne]
  · simp only [SGraph.col, Graph.col, SGraph.abs, hne]
  · intro h
    simp only [SGraph.symmetricB, Graph.symmetricB, SGraph.abs, List.all_eq_true, List.mem_range, beq_iff_eq] at h ⊢
    intro i hi j hj
    rw [h i hi j hj]

/-- PROPERTY (masking a signed graph).  The entry between two survivors — sign included — is found between their new
indices, the masked graph has one vertex per `True`, and its zero pattern is that of `Graph.mask` on the absolute
values (to which `mask_induced`, `mask_mask`, `fromMask_spec` apply). -/
theorem signed_mask_induced (g : SGraph) (m : List Bool) (hlen : m.length = g.n) :
    (g.mask m).n = m.count true ∧
    (∀ u v, m[u]? = some true → m[v]? = some true → (g.mask m).w (rank m u) (rank m v) = g.w u v) ∧
    (g.mask m).abs = g.abs.mask m := by
  refine ⟨?_, ?_, rfl⟩
  · exact mask_n g.abs m hlen
  · intro u v hu hv
    simp only [SGraph.mask, SGraph.select, ← hlen]
    rw [List.getD_eq_getElem?_getD, List.getD_eq_getElem?_getD, keepIdx_rank m u hu, keepIdx_rank m v hv]
    rfl

/-- weights of both signs on a path with a chord; masking out vertex 1 keeps the negative chord -/
def exSigned : SGraph := ⟨4, fun i j =>
  if (i, j) = (0, 1) ∨ (i, j) = (1, 0) then 2 else if (i, j) = (1, 2) ∨ (i, j) = (2, 1) then -3
  else if (i, j) = (0, 2) ∨ (i, j) = (2, 0) then -5 else if (i, j) = (2, 3) ∨ (i, j) = (3, 2) then 7 else 0⟩
example : exSigned.symmetricB = true ∧ exSigned.abs.edgesU = [(0, 1), (0, 2), (1, 2), (2, 3)] ∧
    (exSigned.mask [true, false, true, true]).rows = [[0, -5, 0], [-5, 0, 7], [0, 7, 0]] ∧
    exSigned.abs.hasCycles false = true ∧ (exSigned.mask [true, false, true, true]).abs.isTree false = true := by decide

end MenpoModel.C14
