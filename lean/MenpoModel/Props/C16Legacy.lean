/-
C16 — the importers of the two older LJSON versions (`_parse_ljson_v1`, `_parse_ljson_v2`; import only, the exporter
writes version 3) and what EVERY successful import returns, whatever JSON tree it was given.

  ljson_import_wellformed     any version, any JSON tree: every imported group has ≥ 1 point, rectangular coordinates
                              (one dimension d ≥ 1 for all points), edges `a ≤ b < n` inside the point set, and label
                              masks of length n
  ljson_legacy_wellformed     versions 1 and 2: exactly one group, called `LJSON`; it is well formed; it is a plain
                              point cloud without edges and labels, or a labelled graph with ≥ 1 label, pairwise
                              distinct label names and a label on every point
  ljson_v2_edges_need_labels  a version-2 document with connectivity but no label is refused (the labelled graph it
                              would become may not have an empty label set)
  ljson_v2_reads_v3_group     a version-2 document holding the group `s` imports to the same coordinates, edges and
                              ordered labels as the version-3 export of `s` (so upgrading a file by import + export
                              loses nothing)
  ljson_version_dispatch_legacy   versions 1 / 2 go to their own parsers, and those refuse what they must
  ljson_dispatch_is_table     `ljson_importer` = lookup in `_ljson_parser_for_version` (the table is regenerated from the
                              live dictionary and obliged to be `parserTable`: GenProps.C16.ljsonParsers_ok)
-/
import MenpoModel.Lemmas.C16Ljson

namespace MenpoModel.C16

/-! ### specification predicates -/

/-- what any imported landmark group must look like -/
def Imported.WF (i : Imported) : Prop :=
  i.points ≠ [] ∧ (∃ d, 0 < d ∧ ∀ r ∈ i.points, r.length = d) ∧
  (∀ e ∈ i.edges, e.1 ≤ e.2 ∧ e.2 < i.points.length) ∧
  (∀ l ∈ i.labels, l.2.length = i.points.length)

/-- the class invariant of `LabelledPointUndirectedGraph`: at least one label, distinct names, every point labelled -/
def Imported.Labelled (i : Imported) : Prop :=
  i.labels ≠ [] ∧ (i.labels.map Prod.fst).Nodup ∧
  ∀ k, k < i.points.length → ∃ l ∈ i.labels, l.2.getD k false = true

/-! ### helper lemmas -/

theorem mapE_ok_forall {α β} (f : α → Except Err β) : ∀ (l : List α) (r : List β), mapE f l = .ok r →
    r.length = l.length ∧ ∀ b ∈ r, ∃ a ∈ l, f a = .ok b := by
  intro l
  induction l with
  | nil => intro r h; simp [mapE] at h; subst h; simp
  | cons a t ih =>
    intro r h
    unfold mapE at h
    cases hfa : f a with
    | error e => simp [hfa] at h
    | ok b =>
      cases ht : mapE f t with
      | error e => simp [hfa, ht] at h
      | ok bs =>
        simp [hfa, ht] at h
        subst h
        obtain ⟨hl, hall⟩ := ih bs ht
        refine ⟨by simp [hl], ?_⟩
        intro x hx
        simp only [List.mem_cons] at hx
        rcases hx with rfl | hx
        · exact ⟨a, by simp, hfa⟩
        · obtain ⟨y, hy, hfy⟩ := hall x hx
          exact ⟨y, by simp [hy], hfy⟩

theorem chunksOf_rows {α} (d : Nat) (hd : 0 < d) : ∀ (fuel : Nat) (xs : List α), xs.length % d = 0 →
    xs.length < fuel → (∀ r ∈ chunksOf d fuel xs, r.length = d) ∧ (xs ≠ [] → chunksOf d fuel xs ≠ []) := by
  intro fuel
  induction fuel with
  | zero => intro xs _ h; simp at h
  | succ f ih =>
    intro xs hm hf
    cases xs with
    | nil => simp [chunksOf]
    | cons a t =>
      have hge : d ≤ (a :: t).length := by
        have : (a :: t).length ≠ 0 := by simp
        exact Nat.le_of_dvd (Nat.pos_of_ne_zero this) (Nat.dvd_of_mod_eq_zero hm)
      have hdrop : ((a :: t).drop d).length % d = 0 := by
        rw [List.length_drop]
        obtain ⟨k, hk⟩ := Nat.dvd_of_mod_eq_zero hm
        rw [hk]
        cases k with
        | zero => simp
        | succ k =>
          have : d * (k + 1) - d = d * k := by rw [Nat.mul_succ]; omega
          rw [this]; exact Nat.mul_mod_right d k
      have hlt : ((a :: t).drop d).length < f := by
        rw [List.length_drop]; simp only [List.length_cons] at hf hge ⊢; omega
      obtain ⟨ih1, _⟩ := ih ((a :: t).drop d) hdrop hlt
      simp only [chunksOf]
      refine ⟨?_, by simp⟩
      intro r hr
      simp only [List.mem_cons] at hr
      rcases hr with rfl | hr
      · rw [List.length_take]; omega
      · exact ih1 r hr

/-- what `_ljson_parse_null_values` returns is a non-empty rectangular array -/
theorem reshapeRows_rect (rows pts : List (List (Option Rat))) (h : reshapeRows rows = .ok pts) :
    pts ≠ [] ∧ ∃ d, 0 < d ∧ ∀ r ∈ pts, r.length = d := by
  cases rows with
  | nil => simp [reshapeRows] at h
  | cons r0 rs =>
    simp only [reshapeRows] at h
    split at h
    · simp at h
    · rename_i hc
      simp only [Except.ok.injEq] at h
      have hd : 0 < r0.length := by
        rcases Nat.eq_zero_or_pos r0.length with h0 | h0
        · exact absurd (Or.inl h0) hc
        · exact h0
      have hm : (r0 :: rs).flatten.length % r0.length = 0 := by
        rcases Nat.eq_zero_or_pos ((r0 :: rs).flatten.length % r0.length) with h0 | h0
        · exact h0
        · exact absurd (Or.inr (Nat.pos_iff_ne_zero.1 h0)) hc
      obtain ⟨h1, h2⟩ := chunksOf_rows r0.length hd ((r0 :: rs).flatten.length + 1) (r0 :: rs).flatten hm
        (Nat.lt_succ_self _)
      subst h
      refine ⟨h2 ?_, r0.length, hd, h1⟩
      intro hnil
      have : (r0 :: rs).flatten.length = 0 := by rw [hnil]; rfl
      simp only [List.flatten_cons, List.length_append] at this
      omega

theorem decPoints_eq_reshape (j : Json) (pts : List (List (Option Rat))) (h : decPoints j = .ok pts) :
    ∃ rows, reshapeRows rows = .ok pts := by
  unfold decPoints at h
  cases ha : decArr j with
  | error e => simp [ha] at h
  | ok rows =>
    cases hr : mapE decRow rows with
    | error e => simp [ha, hr] at h
    | ok rs =>
      cases rs with
      | nil => simp [ha, hr] at h
      | cons r0 t =>
        refine ⟨r0 :: t, ?_⟩
        simp only [ha, hr] at h
        simp only [reshapeRows]
        exact h

theorem decPoints_rect (j : Json) (pts : List (List (Option Rat))) (h : decPoints j = .ok pts) :
    pts ≠ [] ∧ ∃ d, 0 < d ∧ ∀ r ∈ pts, r.length = d := by
  obtain ⟨rows, hr⟩ := decPoints_eq_reshape j pts h
  exact reshapeRows_rect rows pts hr

theorem decLabel_length (n : Nat) (j : Json) (l : String × List Bool) (h : decLabel n j = .ok l) :
    l.2.length = n := by
  unfold decLabel at h
  split at h
  · split at h
    · split at h
      · split at h
        · simp only [Except.ok.injEq] at h; subst h; simp [maskOf]
        · simp at h
      · simp at h
    · simp at h
  · simp at h

theorem symEdges_wf (n : Nat) (c : List (Nat × Nat)) : ∀ e ∈ symEdges n c, e.1 ≤ e.2 ∧ e.2 < n := by
  intro e he
  have := (mem_symEdges n c e.1 e.2).1 he
  exact ⟨this.2.2.1, this.2.1⟩

/-! #### the ordered dictionary of labels -/

theorem odInsert_keys_nodup (d : List (String × List Bool)) (k : String) (v : List Bool)
    (h : (d.map Prod.fst).Nodup) : ((odInsert d k v).map Prod.fst).Nodup := by
  unfold odInsert
  split
  · have : (d.map fun p => if (p.1 == k) = true then (k, v) else p).map Prod.fst = d.map Prod.fst := by
      rw [List.map_map]
      apply List.map_congr_left
      intro p _
      by_cases hp : p.1 = k
      · simp [hp]
      · simp [hp]
    rw [this]; exact h
  · rename_i hany
    simp only [List.any_eq_true, beq_iff_eq, not_exists, not_and] at hany
    rw [List.map_append, List.nodup_append]
    refine ⟨h, by simp, ?_⟩
    intro a ha b hb
    simp only [List.map_cons, List.map_nil, List.mem_singleton] at hb
    subst hb
    simp only [List.mem_map] at ha
    obtain ⟨p, hp, rfl⟩ := ha
    exact hany p hp

theorem odInsert_forall (P : List Bool → Prop) (d : List (String × List Bool)) (k : String) (v : List Bool)
    (hd : ∀ l ∈ d, P l.2) (hv : P v) : ∀ l ∈ odInsert d k v, P l.2 := by
  unfold odInsert
  split
  · intro l hl
    simp only [List.mem_map] at hl
    obtain ⟨p, hp, rfl⟩ := hl
    split
    · exact hv
    · exact hd p hp
  · intro l hl
    simp only [List.mem_append, List.mem_singleton] at hl
    rcases hl with hl | rfl
    · exact hd l hl
    · exact hv

theorem odFromList_spec (P : List Bool → Prop) (l : List (String × List Bool)) (hl : ∀ x ∈ l, P x.2) :
    ((odFromList l).map Prod.fst).Nodup ∧ ∀ x ∈ odFromList l, P x.2 := by
  unfold odFromList
  have key : ∀ (l d : List (String × List Bool)), (∀ x ∈ l, P x.2) → (d.map Prod.fst).Nodup → (∀ x ∈ d, P x.2) →
      ((l.foldl (fun d p => odInsert d p.1 p.2) d).map Prod.fst).Nodup ∧
      ∀ x ∈ l.foldl (fun d p => odInsert d p.1 p.2) d, P x.2 := by
    intro l
    induction l with
    | nil => intro d _ h1 h2; exact ⟨h1, h2⟩
    | cons a t ih =>
      intro d hl h1 h2
      simp only [List.foldl_cons]
      exact ih _ (fun x hx => hl x (by simp [hx])) (odInsert_keys_nodup d a.1 a.2 h1)
        (odInsert_forall P d a.1 a.2 h2 (hl a (by simp)))
  exact key l [] hl (by simp) (by simp)

/-- inserting labels whose names are pairwise distinct is the identity -/
theorem odFromList_nodup (l : List (String × List Bool)) (h : (l.map Prod.fst).Nodup) : odFromList l = l := by
  unfold odFromList
  have key : ∀ (l d : List (String × List Bool)), ((d ++ l).map Prod.fst).Nodup →
      l.foldl (fun d p => odInsert d p.1 p.2) d = d ++ l := by
    intro l
    induction l with
    | nil => intro d _; simp
    | cons a t ih =>
      intro d hn
      simp only [List.foldl_cons]
      have hnot : ¬ (d.any fun p => p.1 == a.1) = true := by
        simp only [List.any_eq_true, beq_iff_eq, not_exists, not_and]
        intro p hp hpa
        rw [List.map_append, List.nodup_append] at hn
        exact hn.2.2 p.1 (List.mem_map.2 ⟨p, hp, rfl⟩) a.1 (by simp) hpa
      have hins : odInsert d a.1 a.2 = d ++ [a] := by
        unfold odInsert; simp only [hnot]; rfl
      rw [hins, ih (d ++ [a]) (by simpa using hn)]
      simp
  simpa using key l [] (by simpa using h)

theorem allLabelled_iff (n : Nat) (labels : List (String × List Bool)) :
    allLabelled n labels = true ↔ ∀ k, k < n → ∃ l ∈ labels, l.2.getD k false = true := by
  simp [allLabelled]

/-- a successful `LabelledPointUndirectedGraph.init_from_edges` -/
theorem mkLpug_ok (pts : List (List (Option Rat))) (c : List (Nat × Nat)) (labels : List (String × List Bool))
    (i : Imported) (h : mkLpug pts c labels = .ok i) :
    i = { cls := .lpug, points := pts, edges := symEdges pts.length c, labels := labels } ∧
    (∀ e ∈ c, e.1 < pts.length ∧ e.2 < pts.length) ∧ labels ≠ [] ∧ allLabelled pts.length labels = true := by
  unfold mkLpug at h
  simp only at h
  split at h
  · simp at h
  · rename_i h1
    split at h
    · simp at h
    · rename_i h2
      split at h
      · simp at h
      · rename_i h3
        simp only [Except.ok.injEq] at h
        refine ⟨h.symm, ?_, ?_, by simpa using h3⟩
        · simpa using h1
        · intro hnil; simp [hnil] at h2

/-! ### version 2 -/

/-- what a successful `_parse_ljson_v2` returns -/
theorem decodeV2_wellformed (j : Json) (r : List (String × Imported)) (h : decodeV2 j = .ok r) :
    ∃ i, r = [("LJSON", i)] ∧ i.WF ∧
      ((i.cls = .pc ∧ i.edges = [] ∧ i.labels = []) ∨ (i.cls = .lpug ∧ i.Labelled)) := by
  unfold decodeV2 at h
  split at h
  · rename_i lm labs _ _
    split at h
    · simp at h
    · rename_i pj _
      split at h
      · simp at h
      · rename_i pts hpts
        have hrect := decPoints_rect pj pts hpts
        split at h
        · simp at h
        · simp at h
        · rename_i conn ls _ _
          split at h
          · simp only [Except.ok.injEq] at h
            subst h
            exact ⟨_, rfl, ⟨hrect.1, hrect.2, by simp, by simp⟩, Or.inl ⟨rfl, rfl, rfl⟩⟩
          · split at h
            · simp at h
            · rename_i labels hlabels
              split at h
              · simp at h
              · rename_i i hi
                simp only [Except.ok.injEq] at h
                subst h
                obtain ⟨hieq, _, hne, hall⟩ := mkLpug_ok _ _ _ _ hi
                have hlen : ∀ x ∈ labels, x.2.length = pts.length := by
                  intro x hx
                  obtain ⟨a, _, ha⟩ := (mapE_ok_forall _ ls labels hlabels).2 x hx
                  exact decLabel_length _ _ _ ha
                obtain ⟨hnd, hP⟩ := odFromList_spec (fun m => m.length = pts.length) labels hlen
                refine ⟨i, rfl, ?_, Or.inr ?_⟩
                · subst hieq
                  exact ⟨hrect.1, hrect.2, symEdges_wf _ _, hP⟩
                · subst hieq
                  exact ⟨rfl, hne, hnd, (allLabelled_iff _ _).1 hall⟩
  · simp at h

/-! ### version 1 -/

theorem sliceMask_length (n a b : Nat) : (sliceMask n a b).length = n := by simp [sliceMask]

theorem decodeV1_wellformed (j : Json) (r : List (String × Imported)) (h : decodeV1 j = .ok r) :
    ∃ i, r = [("LJSON", i)] ∧ i.WF ∧ i.cls = .lpug ∧ i.Labelled := by
  unfold decodeV1 at h
  split at h
  · rename_i gs _
    split at h
    · simp at h
    · rename_i acc _
      split at h
      · simp at h
      · rename_i pts hpts
        simp only at h
        split at h
        · simp at h
        · rename_i i hi
          simp only [Except.ok.injEq] at h
          subst h
          have hrect := reshapeRows_rect _ _ hpts
          obtain ⟨hieq, _, hne, hall⟩ := mkLpug_ok _ _ _ _ hi
          obtain ⟨hnd, hP⟩ := odFromList_spec (fun m => m.length = pts.length)
            (acc.slices.map fun s => (s.1, sliceMask pts.length s.2.1 s.2.2))
            (by intro x hx; simp only [List.mem_map] at hx; obtain ⟨s, _, rfl⟩ := hx; exact sliceMask_length _ _ _)
          subst hieq
          exact ⟨_, rfl, ⟨hrect.1, hrect.2, symEdges_wf _ _, hP⟩, rfl, hne, hnd, (allLabelled_iff _ _).1 hall⟩
  · simp at h

/-! ### version 3 and the dispatch -/

theorem decodeGroup_wellformed (j : Json) (i : Imported) (h : decodeGroup j = .ok i) : i.WF := by
  unfold decodeGroup at h
  split at h
  · rename_i lm labs _ _
    split at h
    · simp at h
    · rename_i pj _
      split at h
      · simp at h
      · rename_i pts hpts
        have hrect := decPoints_rect pj pts hpts
        simp only at h
        split at h
        · simp at h
        · rename_i c _
          split at h
          · simp at h
          · split at h
            · simp at h
            · rename_i ls _
              split at h
              · simp at h
              · rename_i labels hlabels
                simp only [Except.ok.injEq] at h
                subst h
                refine ⟨hrect.1, hrect.2, symEdges_wf _ _, ?_⟩
                intro x hx
                obtain ⟨a, _, ha⟩ := (mapE_ok_forall _ ls labels hlabels).2 x hx
                exact decLabel_length _ _ _ ha
  · simp at h

theorem decodeGroups_wellformed : ∀ (kvs : List (Key × Json)) (r : List (String × Imported)),
    decodeGroups kvs = .ok r → ∀ g ∈ r, g.2.WF := by
  intro kvs
  induction kvs with
  | nil => intro r h; simp [decodeGroups] at h; subst h; simp
  | cons kv t ih =>
    intro r h
    obtain ⟨k, g⟩ := kv
    cases k with
    | user name =>
      simp only [decodeGroups] at h
      cases hg : decodeGroup g with
      | error e => simp [hg] at h
      | ok i =>
        cases ht : decodeGroups t with
        | error e => simp [hg, ht] at h
        | ok rt =>
          simp [hg, ht] at h
          subst h
          intro x hx
          simp only [List.mem_cons] at hx
          rcases hx with rfl | hx
          · exact decodeGroup_wellformed g i hg
          · exact ih rt ht x hx
    | _ => simp [decodeGroups] at h

/-- PROPERTY (LJSON import, every version, every JSON tree).  Whatever the file holds: if `ljson_importer` returns,
every group it returns has at least one point, rectangular coordinates, edges `a ≤ b` inside the point set and label
masks over exactly the points. -/
theorem ljson_import_wellformed (j : Json) (r : List (String × Imported)) (h : decodeDoc j = .ok r) :
    ∀ g ∈ r, g.2.WF := by
  unfold decodeDoc at h
  split at h
  · rename_i v _
    split at h
    · split at h
      · rename_i kvs _
        exact decodeGroups_wellformed kvs r h
      · simp at h
    · split at h
      · obtain ⟨i, rfl, hwf, _⟩ := decodeV2_wellformed j r h
        intro g hg; simp only [List.mem_singleton] at hg; subst hg; exact hwf
      · split at h
        · obtain ⟨i, rfl, hwf, _⟩ := decodeV1_wellformed j r h
          intro g hg; simp only [List.mem_singleton] at hg; subst hg; exact hwf
        · simp at h
  · simp at h

/-- PROPERTY (LJSON versions 1 and 2).  A document of an older version that imports at all imports to exactly one
group called `LJSON`, well formed, and either a plain point cloud (version 2 without connectivity and labels) or a
labelled graph with at least one label, distinct label names and a label on every point. -/
theorem ljson_legacy_wellformed (j : Json) (v : Rat) (hv : j.get .version = some (.num v)) (h12 : v = 1 ∨ v = 2)
    (r : List (String × Imported)) (h : decodeDoc j = .ok r) :
    ∃ i, r = [("LJSON", i)] ∧ i.WF ∧
      ((v = 2 ∧ i.cls = .pc ∧ i.edges = [] ∧ i.labels = []) ∨ (i.cls = .lpug ∧ i.Labelled)) := by
  unfold decodeDoc at h
  simp only [hv] at h
  rcases h12 with rfl | rfl
  · have h1 : ¬ ((1 : Rat) = 3) := by decide
    have h2 : ¬ ((1 : Rat) = 2) := by decide
    simp only [h1, h2, if_false, if_true] at h
    obtain ⟨i, hr, hwf, hc, hl⟩ := decodeV1_wellformed j r h
    exact ⟨i, hr, hwf, Or.inr ⟨hc, hl⟩⟩
  · have h1 : ¬ ((2 : Rat) = 3) := by decide
    simp only [h1, if_false, if_true] at h
    obtain ⟨i, hr, hwf, hc⟩ := decodeV2_wellformed j r h
    refine ⟨i, hr, hwf, ?_⟩
    rcases hc with hc | hc
    · exact Or.inl ⟨rfl, hc⟩
    · exact Or.inr hc

/-- the dispatch: versions 1 and 2 go to their own parsers -/
theorem ljson_version_dispatch_legacy (j : Json) :
    (j.get .version = some (.num 1) → decodeDoc j = decodeV1 j) ∧
    (j.get .version = some (.num 2) → decodeDoc j = decodeV2 j) := by
  constructor
  · intro h
    have h1 : ¬ ((1 : Rat) = 3) := by decide
    have h2 : ¬ ((1 : Rat) = 2) := by decide
    simp [decodeDoc, h, h1, h2]
  · intro h
    have h1 : ¬ ((2 : Rat) = 3) := by decide
    simp [decodeDoc, h, h1]

/-! ### the dispatch table `_ljson_parser_for_version` -/

/-- version → name of the parser (regenerated from the live dictionary: `GenProps.C16.ljsonParsers_ok`) -/
def parserTable : List (Nat × String) :=
  [(1, "_parse_ljson_v1"), (2, "_parse_ljson_v2"), (3, "_parse_ljson_v3")]

/-- `_parse_ljson_v3` on the whole document -/
def decodeV3 (j : Json) : Except Err (List (String × Imported)) :=
  match j.get .groups with
  | some (.obj kvs) => decodeGroups kvs
  | _ => .error .malformed

def parserNamed : String → Json → Except Err (List (String × Imported))
  | "_parse_ljson_v1" => decodeV1
  | "_parse_ljson_v2" => decodeV2
  | "_parse_ljson_v3" => decodeV3
  | _ => fun _ => .error .malformed

/-- `ljson_importer` is the table lookup: the parser registered for the document's version is applied to it, a
version without an entry is refused -/
theorem ljson_dispatch_is_table (j : Json) (v : Rat) (hv : j.get .version = some (.num v)) :
    decodeDoc j = match parserTable.find? (fun e => (e.1 : Rat) == v) with
      | some e => parserNamed e.2 j
      | none => .error .unknownVersion := by
  unfold decodeDoc
  simp only [hv]
  by_cases h3 : v = 3
  · subst h3
    simp [parserTable, parserNamed, decodeV3]
    rfl
  · by_cases h2 : v = 2
    · subst h2
      simp [parserTable, parserNamed]
    · by_cases h1 : v = 1
      · subst h1
        simp [parserTable, parserNamed]
      · have e1 : ((1 : Rat) == v) = false := by simpa using fun h => h1 h.symm
        have e2 : ((2 : Rat) == v) = false := by simpa using fun h => h2 h.symm
        have e3 : ((3 : Rat) == v) = false := by simpa using fun h => h3 h.symm
        simp [parserTable, h1, h2, h3, e1, e2, e3]

/-- the exporter writes version 3, for which the table has the parser the round-trip theorem is about -/
theorem exported_version_has_parser (gs : List (String × Shape)) :
    (encodeDoc gs).get .version = some (.num 3) ∧ parserTable.find? (fun e => e.1 == 3) = some (3, "_parse_ljson_v3") :=
  ⟨by simp [encodeDoc, get_version, jNat], by decide⟩

/-! ### a version-2 file and the version-3 file of the same group -/

/-- the version-2 document of one group: the members of the version-3 group object at the top level, plus the
version number (this is what menpo < 0.8 wrote; the present exporter cannot write it) -/
def v2Landmarks (s : Shape) : Json :=
  let pts : Json := .arr ((exportPoints s.points).map fun r => .arr (r.map jOpt))
  match s.conn with
  | none => .obj [(.points, pts)]
  | some c => .obj [(.connectivity, .arr (c.map jPair)), (.points, pts)]

def encodeV2 (s : Shape) : Json :=
  .obj [(.labels, .arr (s.labels.map encodeLabel)), (.landmarks, v2Landmarks s), (.version, jNat 2)]

theorem get3_labels (a b c : Json) :
    (Json.obj [(.labels, a), (.landmarks, b), (.version, c)]).get .labels = some a := rfl
theorem get3_landmarks (a b c : Json) :
    (Json.obj [(.labels, a), (.landmarks, b), (.version, c)]).get .landmarks = some b := rfl
theorem get3_version (a b c : Json) :
    (Json.obj [(.labels, a), (.landmarks, b), (.version, c)]).get .version = some c := rfl

/-- what the version-2 importer must return for the group `s` -/
def expectedImportV2 (s : Shape) : Imported :=
  if s.conn.isNone ∧ s.labels.isEmpty then { cls := .pc, points := s.points, edges := [], labels := [] }
  else { cls := .lpug, points := s.points, edges := symEdges s.points.length (s.conn.getD []), labels := s.labels }

theorem decConn_encode (c : List (Nat × Nat)) : decConn (some (.arr (c.map jPair))) = .ok (some c) := by
  have hcE : mapE decPair (c.map jPair) = .ok (c.map id) := mapE_map_ok _ _ _ _ (fun p _ => decPair_jPair p)
  simp only [List.map_id] at hcE
  simp [decConn, hcE]

/-- PROPERTY (upgrade path).  A version-2 document holding the group `s` (2-D or 3-D, NaNs allowed; if it has labels:
distinct names and a label on every point) imports to the same coordinates, the same undirected edge set and the same
ordered labels as the version-3 export of `s` does (`ljson_roundtrip`); only the class differs when there is neither
connectivity nor a label (plain `PointCloud`). -/
theorem ljson_v2_reads_v3_group (s : Shape) (h : s.WF)
    (hlab : s.labels ≠ [] → (s.labels.map Prod.fst).Nodup ∧ allLabelled s.points.length s.labels = true)
    (hconn : s.conn.isSome → s.labels ≠ []) :
    decodeDoc (encodeV2 s) = .ok [("LJSON", expectedImportV2 s)] ∧
    (expectedImportV2 s).points = (expectedImport s).points ∧
    (expectedImportV2 s).edges = (expectedImport s).edges ∧
    (expectedImportV2 s).labels = (expectedImport s).labels := by
  obtain ⟨hne, ⟨d, hd, hrows⟩, hc, hl⟩ := h
  have hdpos : 0 < d := by rcases hd with h | h <;> omega
  have hpts : decPoints (.arr ((exportPoints s.points).map fun r => .arr (r.map jOpt))) = .ok s.points := by
    rw [exportPoints_id s.points hne d hd hrows]
    exact decPoints_encode s.points hne d hdpos hrows
  have hlabels : mapE (decLabel s.points.length) (s.labels.map encodeLabel) = .ok (s.labels.map id) :=
    mapE_map_ok _ _ _ _ (fun l hl' => decLabel_encode _ l (hl l hl'))
  simp only [List.map_id] at hlabels
  have h23 : ¬ ((2 : Rat) = 3) := by decide
  have hver : (encodeV2 s).get .version = some (.num 2) := by
    simp [encodeV2, get3_version, jNat]
  have hdisp := (ljson_version_dispatch_legacy (encodeV2 s)).2 hver
  rw [hdisp]
  by_cases hls : s.labels = []
  · -- no label: then no connectivity either, a plain point cloud
    have hcn : s.conn = none := by
      cases hcn : s.conn with
      | none => rfl
      | some c => exact absurd hls (hconn (by simp [hcn]))
    refine ⟨?_, ?_, ?_, ?_⟩
    · simp [decodeV2, encodeV2, v2Landmarks, get3_labels, get3_landmarks, hcn, hls, hpts, decConn, expectedImportV2]
    · simp [expectedImportV2, expectedImport, hcn, hls]
    · simp [expectedImportV2, expectedImport, hcn, hls, symEdges, adjSym]
    · simp [expectedImportV2, expectedImport, hcn, hls]
  · obtain ⟨hnd, hall⟩ := hlab hls
    have hod : odFromList s.labels = s.labels := odFromList_nodup _ hnd
    have hexp : expectedImportV2 s =
        { cls := .lpug, points := s.points, edges := symEdges s.points.length (s.conn.getD []), labels := s.labels } := by
      simp [expectedImportV2, hls]
    refine ⟨?_, by rw [hexp]; rfl, by rw [hexp]; rfl, by rw [hexp]; rfl⟩
    rw [hexp]
    cases hcn : s.conn with
    | none =>
      simp [decodeV2, encodeV2, v2Landmarks, get3_labels, get3_landmarks, hcn, hls, hpts, decConn, hlabels, hod,
        mkLpug, hall]
    | some c =>
      have hcall : (c.all fun e => decide (e.1 < s.points.length) && decide (e.2 < s.points.length)) = true := by
        simp only [List.all_eq_true, Bool.and_eq_true, decide_eq_true_eq]
        intro e he
        exact hc e (by simp [hcn, he])
      simp [decodeV2, encodeV2, v2Landmarks, get3_labels, get3_landmarks, hcn, hls, hpts, decConn_encode, hlabels,
        hod, mkLpug, hall, hcall]

/-- connectivity without a label cannot become a labelled graph: refused (ValueError "Empty label sets are not
permitted") — in version 2 only; version 3 makes it a `PointUndirectedGraph` -/
theorem ljson_v2_edges_need_labels (s : Shape) (h : s.WF) (c : List (Nat × Nat)) (hc : s.conn = some c)
    (hl : s.labels = []) : decodeDoc (encodeV2 s) = .error .emptyLabels := by
  obtain ⟨hne, ⟨d, hd, hrows⟩, hcw, _⟩ := h
  have hdpos : 0 < d := by rcases hd with h | h <;> omega
  have hpts : decPoints (.arr ((exportPoints s.points).map fun r => .arr (r.map jOpt))) = .ok s.points := by
    rw [exportPoints_id s.points hne d hd hrows]
    exact decPoints_encode s.points hne d hdpos hrows
  have hver : (encodeV2 s).get .version = some (.num 2) := by
    simp [encodeV2, get3_version, jNat]
  rw [(ljson_version_dispatch_legacy (encodeV2 s)).2 hver]
  have hcall : (c.all fun e => decide (e.1 < s.points.length) && decide (e.2 < s.points.length)) = true := by
    simp only [List.all_eq_true, Bool.and_eq_true, decide_eq_true_eq]
    intro e he
    exact hcw e (by simp [hc, he])
  simp [decodeV2, encodeV2, v2Landmarks, get3_labels, get3_landmarks, hc, hl, hpts, decConn_encode, mapE, odFromList,
    mkLpug, hcall]

/-! ### non-vacuity -/

instance {α} [DecidableEq α] : DecidableEq (Except Err α) := fun a b =>
  match a, b with
  | .ok x, .ok y => if h : x = y then isTrue (by rw [h]) else isFalse (by intro h'; cases h'; exact h rfl)
  | .error x, .error y => if h : x = y then isTrue (by rw [h]) else isFalse (by intro h'; cases h'; exact h rfl)
  | .ok _, .error _ => isFalse (by intro h; cases h)
  | .error _, .ok _ => isFalse (by intro h; cases h)

/-- a version-1 document: two groups; the second group's relative edge is shifted by the first group's size -/
def exV1 : Json :=
  .obj [(.groups, .arr [
      .obj [(.connectivity, .arr [jPair (0, 1)]),
            (.label, .str "a"),
            (.landmarks, .arr [.obj [(.point, .arr [.num 1, .num 2])], .obj [(.point, .arr [.num 3, .null])]])],
      .obj [(.connectivity, .arr [jPair (1, 0)]),
            (.label, .str "b"),
            (.landmarks, .arr [.obj [(.point, .arr [.num 5, .num 6])], .obj [(.point, .arr [.num 7, .num 8])]])]]),
    (.version, .num 1)]

example : decodeDoc exV1 = .ok [("LJSON",
    { cls := .lpug, points := [[some 1, some 2], [some 3, none], [some 5, some 6], [some 7, some 8]],
      edges := [(0, 1), (2, 3)],
      labels := [("a", [true, true, false, false]), ("b", [false, false, true, true])] })] := by decide +kernel

/-- a repeated label takes the later slice, which leaves the earlier group's points unlabelled: refused -/
example : decodeDoc (.obj [(.groups, .arr [
      .obj [(.label, .str "a"), (.landmarks, .arr [.obj [(.point, .arr [.num 1, .num 2])]])],
      .obj [(.label, .str "a"), (.landmarks, .arr [.obj [(.point, .arr [.num 5, .num 6])]])]]),
    (.version, .num 1)]) = .error .unlabelledPoint := by decide +kernel

/-- a labelled 3-D group with a missing coordinate, as a version-2 document -/
def exShapeV2 : Shape :=
  { points := [[some (1/2), none, some 2], [some 3, some (-7/4), some 0]],
    conn := some [(1, 0)],
    labels := [("zeta", [true, true]), ("alpha", [false, true])] }

example : exShapeV2.WF ∧ (exShapeV2.labels.map Prod.fst).Nodup ∧
    allLabelled exShapeV2.points.length exShapeV2.labels = true := by
  refine ⟨⟨by decide, ⟨3, Or.inr rfl, by decide⟩, by decide, by decide⟩, by decide, by decide⟩

example : decodeDoc (encodeV2 exShapeV2) = .ok [("LJSON",
    { cls := .lpug, points := exShapeV2.points, edges := [(0, 1)], labels := exShapeV2.labels })] := by
  decide +kernel

end MenpoModel.C16
