/-
C02 — `apply(x, batch_size=k)`, `TransformChain`, `WithDims` on shapes.  Value level, Core Lean only.

  `chunks_spec`              the batches `_apply_batched` cuts: non-empty, at most `k` rows, concatenating to `x`
  `batched_rowwise`          for a transform that treats every point on its own, batching changes nothing
  `apply_batched_expected`   `t.apply(shape, batch_size=b)` is `mapShape (x ↦ _apply_batched(x, b))`: the points
                             of the shape and of every landmark group at every depth go through the SAME batching
  `apply_batch_invariant`    … hence equals `t.apply(shape)` for row-wise transforms (shape or bare array)
  `apply_chain`              a `TransformChain` applied to a shape = its members applied to the shape one after the
                             other (landmarks at every depth included); `chain_rowwise`: chains batch like members
  `withDims_*`, `apply_withDims_width`   `WithDims` slices the points of the shape and of every group alike
  `affine_eq_hom`            `Affine._apply` (linear part and translation) = `Homogeneous._apply` (homogeneous
                             coordinates, division by the last one) on affine matrices
-/
import MenpoModel.Core.C02Batch
import MenpoModel.Props.C02Base

namespace MenpoModel.C02

/-! ### batching -/

theorem chunksF_flatten (k : Nat) (hk : 0 < k) : ∀ (fuel : Nat) (x : Arr), x.length ≤ fuel →
    (chunksF fuel k x).flatten = x
  | 0, x, hx => by
    have : x = [] := List.eq_nil_of_length_eq_zero (Nat.le_zero.mp hx)
    subst this; rfl
  | fuel + 1, x, hx => by
    simp only [chunksF]
    by_cases he : x.isEmpty = true
    · simp only [he, if_true, List.flatten_nil]
      exact (List.isEmpty_iff.mp he).symm
    · simp only [he, Bool.false_eq_true, if_false, List.flatten_cons]
      rw [chunksF_flatten k hk fuel (x.drop k) (by rw [List.length_drop]; omega), List.take_append_drop]

theorem chunksF_mem (k : Nat) (hk : 0 < k) : ∀ (fuel : Nat) (x : Arr) (c : Arr), c ∈ chunksF fuel k x →
    c ≠ [] ∧ c.length ≤ k
  | 0, _, _, hc => by simp [chunksF] at hc
  | fuel + 1, x, c, hc => by
    simp only [chunksF] at hc
    by_cases he : x.isEmpty = true
    · simp [he] at hc
    · simp only [he, Bool.false_eq_true, if_false, List.mem_cons] at hc
      rcases hc with rfl | hc
      · refine ⟨fun h0 => ?_, by rw [List.length_take]; omega⟩
        have hne : x ≠ [] := fun h1 => he (by rw [h1]; rfl)
        have hl : 0 < x.length := List.length_pos_iff.mpr hne
        have := congrArg List.length h0
        rw [List.length_take] at this
        simp only [List.length_nil] at this
        omega
      · exact chunksF_mem k hk fuel _ c hc

/-- the batches: never empty, at most `k` points each, and together exactly `x` in order -/
theorem chunks_spec (k : Nat) (hk : 0 < k) (x : Arr) :
    (chunks k x).flatten = x ∧ ∀ c, c ∈ chunks k x → c ≠ [] ∧ c.length ≤ k :=
  ⟨chunksF_flatten k hk _ x (Nat.le_refl _), chunksF_mem k hk _ x⟩

theorem RowWise.nil {f : Arr → Arr} (hf : RowWise f) : f [] = [] := by
  have h := hf [] []
  simp only [List.append_nil] at h
  have hl := congrArg List.length h
  simp only [List.length_append] at hl
  exact List.eq_nil_of_length_eq_zero (by omega)

theorem RowWise.flatten {f : Arr → Arr} (hf : RowWise f) : ∀ (cs : List Arr), f cs.flatten = (cs.map f).flatten
  | [] => by simpa using hf.nil
  | c :: cs => by rw [List.flatten_cons, List.map_cons, List.flatten_cons, hf, hf.flatten cs]

/-- for a transform whose `_apply` treats every point on its own, `_apply_batched` is `_apply` -/
theorem batched_rowwise {f : Arr → Arr} (hf : RowWise f) (k : Nat) (hk : 0 < k) (x : Arr) :
    applyBatched f (some k) x = f x := by
  simp only [applyBatched]
  split
  · rfl
  · rw [← hf.flatten, (chunks_spec k hk x).1]

theorem rowMap_rowwise (g : List Rat → List Rat) : RowWise (fun x => x.map g) :=
  fun _ _ => List.map_append

theorem homApply_rowwise (H : Arr) : RowWise (homApply H) := fun _ _ => List.map_append
theorem withDims_rowwise (dims : List Nat) : RowWise (withDims dims) := fun _ _ => List.map_append

theorem chainFn_cons (g : Arr → Arr) (fs : List (Arr → Arr)) (x : Arr) : chainFn (g :: fs) x = chainFn fs (g x) := rfl

/-- a chain of row-wise members is row-wise: `TransformChain._apply_batched` agrees with `_apply` -/
theorem chain_rowwise : ∀ (fs : List (Arr → Arr)), (∀ f, f ∈ fs → RowWise f) → RowWise (chainFn fs)
  | [], _ => fun x y => rfl
  | g :: fs, hh => fun x y => by
    rw [chainFn_cons, chainFn_cons, chainFn_cons, hh g (List.mem_cons_self ..)]
    exact chain_rowwise fs (fun f hf => hh f (List.mem_cons_of_mem _ hf)) _ _

/-- PROPERTY with `batch_size` (`None` or positive: the documented domain; `applyT` / `applyBatched` are the TOTAL
model, which for `batch_size = 0` would cut no batch at all where the code raises — that branch is
`apply_nonpos_batch` over the error-aware `applyBatchedE`): the result is the same tree with
`x ↦ _apply_batched(x, batch_size)` applied to the points of the shape and of every landmark group at every depth -/
theorem apply_batched_expected (f : Arr → Arr) (b : Option Nat) (_hb : ∀ k, b = some k → 0 < k) (s : Shape) :
    applyT expectedDispatch f b (.shape s) = .ok (.shape (mapShape (applyBatched f b) s)) := by
  simp only [applyT, applyAny, applyV_expected, Except.map]

/-- (e) with `batch_size`: the points of `t.apply(shape, batch_size=b)` are `t.apply(shape.points, batch_size=b)` -/
theorem apply_batched_array_agrees (f : Arr → Arr) (b : Option Nat) (_hb : ∀ k, b = some k → 0 < k) (s s' : Shape)
    (a' : Arr)
    (h : applyT expectedDispatch f b (.shape s) = .ok (.shape s'))
    (ha : applyT expectedDispatch f b (.array s.points) = .ok (.array a')) : s'.points = a' :=
  apply_array_agrees (applyBatched f b) s s' a' h ha

/-- batching is invisible for row-wise transforms, on shapes (with all their landmarks) and on arrays -/
theorem apply_batch_invariant {f : Arr → Arr} (hf : RowWise f) (k : Nat) (hk : 0 < k) (a : Arg) :
    applyT expectedDispatch f (some k) a = applyT expectedDispatch f none a := by
  have : applyBatched f (some k) = applyBatched f none := funext fun x => batched_rowwise hf k hk x
  simp only [applyT, this]

/-! ### the two `_apply` of the homogeneous family -/

theorem rat_inv_one : (1 : Rat)⁻¹ = 1 := by decide +kernel
theorem rat_div_one (y : Rat) : y / 1 = y := by rw [Rat.div_def, rat_inv_one, Rat.mul_one]

theorem foldl_add_acc : ∀ (l : List Rat) (a : Rat), l.foldl (· + ·) a = a + l.foldl (· + ·) 0
  | [], a => by simp [Rat.add_zero]
  | y :: t, a => by
    simp only [List.foldl_cons]
    rw [foldl_add_acc t (a + y), foldl_add_acc t (0 + y), Rat.zero_add, Rat.add_assoc]

theorem dotRow_snoc (u x : List Rat) (c e : Rat) (hl : u.length = x.length) :
    dotRow (u ++ [c]) (x ++ [e]) = dotRow u x + c * e := by
  unfold dotRow
  rw [List.zipWith_append hl, List.foldl_append]
  simp only [List.zipWith_cons_cons, List.zipWith_nil_right, List.foldl_cons, List.foldl_nil]

theorem dotRow_zeros : ∀ (d : Nat) (x : List Rat), dotRow (List.replicate d 0) x = 0
  | 0, x => by simp [dotRow]
  | d + 1, [] => by simp [dotRow]
  | d + 1, y :: t => by
    have ih := dotRow_zeros d t
    unfold dotRow at ih ⊢
    simp only [List.replicate_succ, List.zipWith_cons_cons, List.foldl_cons, Rat.zero_mul, Rat.add_zero]
    exact ih

/-- `Affine._apply` and `Homogeneous._apply` are the same function on affine matrices: the subclasses of Affine
(Similarity, Rotation, Translation, the scales, the alignment classes) move points exactly as their `h_matrix` says -/
theorem affine_eq_hom (d : Nat) (H : Arr) (hH : AffineWF d H) (a : Arr) (ha : ∀ x, x ∈ a → x.length = d) :
    affineApply H a = homApply H a := by
  obtain ⟨rows, rfl, hr⟩ := hH
  unfold affineApply homApply
  apply List.map_congr_left
  intro x hx
  have hxl := ha x hx
  have hw : dotRow (List.replicate d 0 ++ [1]) (x ++ [1]) = 1 := by
    rw [dotRow_snoc _ _ _ _ (by simp [hxl]), dotRow_zeros, Rat.zero_add, Rat.mul_one]
  simp only [List.map_append, List.map_cons, List.map_nil, List.getLastD_concat, List.dropLast_concat, hw,
    List.map_map]
  apply List.map_congr_left
  intro r hrm
  have hrl := hr r hrm
  have hne : r ≠ [] := by intro h0; rw [h0] at hrl; simp at hrl
  have hsplit : r.dropLast ++ [r.getLast hne] = r := List.dropLast_concat_getLast hne
  have hul : r.dropLast.length = x.length := by rw [List.length_dropLast, hrl, hxl]; rfl
  simp only [Function.comp]
  rw [rat_div_one]
  conv => rhs; rw [← hsplit, dotRow_snoc _ _ _ _ hul, Rat.mul_one]
  congr 1
  conv => lhs; rw [← hsplit, List.getLastD_concat]

example : affineApply [[2, 0, 1], [0, 2, 3], [0, 0, 1]] [[1, 1], [0, 2]] = [[3, 5], [1, 7]] := by decide +kernel
theorem affineApply_rowwise (H : Arr) : RowWise (affineApply H) := fun _ _ => List.map_append

/-! ### chains -/

/-- the members of a chain applied to the shape one after the other -/
def applyEach (d : Dispatch) : List (Arr → Arr) → Shape → Except Err Shape
  | [], s => .ok s
  | f :: fs, s =>
    match applyV d f s with
    | .ok s' => applyEach d fs s'
    | .error e => .error e

/-- `TransformChain([t₁ … tₙ]).apply(shape)` is `tₙ.apply(… t₁.apply(shape))`: points, every landmark group at
every depth, class and all other attributes -/
theorem apply_chain : ∀ (fs : List (Arr → Arr)) (s : Shape),
    applyV expectedDispatch (chainFn fs) s = applyEach expectedDispatch fs s
  | [], s => by
    rw [applyV_expected]; simp only [applyEach]
    exact congrArg Except.ok (mapShape_id s)
  | g :: fs, s => by
    simp only [applyEach, applyV_expected]
    rw [← apply_chain fs (mapShape g s), applyV_expected, mapShape_comp]
    rfl

/-! ### WithDims -/

/- `withDims` is the TOTAL model of `WithDims._apply` (a missing column reads as 0): the three statements below are about
in-range, non-negative indices, where it is what the code computes (`withDimsE_list_ok`, Props/C02Src.lean); out of
range the code raises IndexError (`withDimsE_index_error`) -/
theorem withDims_width (dims : List Nat) (x : Arr) : ∀ row, row ∈ withDims dims x → row.length = dims.length := by
  intro row hr
  simp only [withDims, List.mem_map] at hr
  obtain ⟨r0, _, rfl⟩ := hr
  simp

theorem withDims_rows (dims : List Nat) (x : Arr) : (withDims dims x).length = x.length := by
  simp [withDims]

/-- selecting every dimension in order is the identity -/
theorem withDims_range (d : Nat) (x : Arr) (hx : ∀ row, row ∈ x → row.length = d) :
    withDims (List.range d) x = x := by
  simp only [withDims]
  conv => rhs; rw [← List.map_id x]
  apply List.map_congr_left
  intro row hr
  have hl := hx row hr
  apply List.ext_getElem
  · simp [hl]
  · intro i h1 h2
    have h3 : i < row.length := h2
    simp [List.getElem?_eq_getElem h3]

/-- `WithDims(dims).apply(shape)`: the points of the shape and of EVERY landmark group at every depth end up with
`len(dims)` columns (a group cannot be left behind in the old dimensionality) -/
theorem apply_withDims_width (dims : List Nat) (s s' : Shape)
    (h : applyV expectedDispatch (withDims dims) s = .ok s') (path : List String) (g' : Shape)
    (hg : s'.at path = some g') : ∀ row, row ∈ g'.points → row.length = dims.length := by
  rw [applyV_expected] at h; injection h with h; subst h
  rw [mapShape_at] at hg
  cases hs : s.at path with
  | none => rw [hs] at hg; cases hg
  | some g =>
    rw [hs] at hg
    simp only [Option.map_some, Option.some.injEq] at hg
    subst hg
    rw [mapShape_points]
    exact withDims_width dims _

/-! ### examples -/

example : chunks 2 [[1], [2], [3], [4], [5]] = [[[1], [2]], [[3], [4]], [[5]]] := by decide
-- a transform that is NOT row-wise (it reverses the batch it is given): batching is visible, on the shape and on
-- its landmark groups alike
example : (applyT expectedDispatch List.reverse (some 2) (.shape (.mk .PointCloud [[1], [2], [3]]
      (.cons "g" (.mk .PointCloud [[7], [8], [9]] .nil []) .nil) []))).toOption.map
    (fun a => match a with | .shape s => (s.points, (s.at ["g"]).map Shape.points) | .array _ => ([], none)) =
    some ([[2], [1], [3]], some [[8], [7], [9]]) := by decide
example : withDims [1, 0] [[1, 2, 3], [4, 5, 6]] = [[2, 1], [5, 4]] := by decide
example : homApply [[2, 0, 1], [0, 2, 3], [0, 0, 1]] [[1, 1], [0, 2]] = [[3, 5], [1, 7]] := by decide +kernel

end MenpoModel.C02
