/-
C02 — transforming a shape moves points and landmarks as one and mutates nothing.  Property theorems.

  Props/C02Base.lean    value level (`applyV_expected`, class / points / landmarks at every depth / extras /
                        array agreement / identity / composition) and the heap level over `Rep`
                        (`apply_refines`, `apply_no_write`, `apply_input_intact`, `apply_result`, witnesses)
  Props/C02Deep.lean    heap level over `RepD`: EVERY attribute of every object of the tree by deep digest
                        (dicts, the tcoords PointCloud, the texture Image with its own landmarks …):
                        `apply_refines_deep`, `apply_deep`, `apply_at_deep`, `apply_extras_deep`,
                        `copy_keeps_digest`, `apply_manager_deep` (`transform.apply(landmark_manager)`)
  Props/C02Seq.lean     the invariant over arbitrary sequences of calls on shared objects and earlier results
                        (`run_refines`, `run_mutates_nothing`, `runV_expected`)
  Props/C02Batch.lean   `apply(x, batch_size=k)`, `TransformChain`, `WithDims`, `Homogeneous._apply` on shapes
                        (`chunks_spec`, `batched_rowwise`, `apply_batched_expected`, `apply_batch_invariant`,
                        `apply_chain`, `chain_rowwise`, `withDims_*`, `apply_withDims_width`)
  Props/C02Total.lean   total correctness on the heap: `inplace_total`, `copy_total`, `apply_succeeds`
  Props/C02Writes.lean  the attributes the in-place pass rebinds, as a table read off the method-resolution table
                        (`inplace_writes_in_table`; `GenProps/C02.lean` compares it with the writes measured on
                        live objects on every run)
All are stated over `expectedDispatch`; `GenProps/C02.lean` proves that the method-resolution table read from the
live classes *is* `expectedDispatch`.
-/
import MenpoModel.Props.C02Base
import MenpoModel.Props.C02Deep
import MenpoModel.Props.C02Seq
import MenpoModel.Props.C02Batch
import MenpoModel.Props.C02Writes
import MenpoModel.Props.C02Total
import MenpoModel.Props.C02Src
import MenpoModel.Props.C02SrcH
import MenpoModel.Props.C02SrcE
