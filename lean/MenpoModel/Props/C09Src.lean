/-
C09 — the definitions of `Core/C09Src.lean` (which mirror the source text statement by statement and are proved equal
to the translation of the current working tree by `GenProps/C09Src.lean` on every run) are the Core model the
property theorems were stated about; the property theorems restated for them.  Core Lean only.

  batching        pyRange_slices, applyBatchedSrc_eq, batched_eq_unbatched_src(_hom), applyBatchedSrc_error_one_batch
  failure mask    pwaApplyBatchedSrc_eq_fold, pwa_mask_exact_src, pwaApplyBatchedSrc_eq_core, pwa_src_end_to_end
  point location  alphaBetaSrc_eq, containmentSrc_eq, pythonIabSrc_eq, pwaApplySrc_eq
  chains          chainApplySrc_eq, chain_batched_src, chain_pwa_batched_src
  memo            cachedIabSrc_hit_iff, step2_eq_cachedIabSrc, cachedPwa_history_pure_src
  wrappers        withDimsSrc_eq, withDims_batched_src, applySrc_arr, applySrc_shape, pointInPointcloudSrc_eq
-/
import MenpoModel.Core.C09Src
import MenpoModel.Props.C09Base
import MenpoModel.Props.C09Pwa
import MenpoModel.Props.C09Chain
import MenpoModel.Props.C09Memo

namespace MenpoModel.C09

/-! ### `range(0, n, k)` and `x[lo:lo+k]` are the batches -/

theorem pyRangeAux_slices {α} (k : Nat) (xs : List α) :
    ∀ (fuel lo : Nat), (pyRangeAux k fuel lo xs.length).map (fun l => pySlice xs l (l + k)) = chunks k fuel (xs.drop lo) := by
  intro fuel
  induction fuel with
  | zero => intro lo; simp [pyRangeAux, chunks]
  | succ f ih =>
    intro lo
    by_cases h : lo < xs.length
    · have hne : xs.drop lo ≠ [] := by
        intro hnil
        have := congrArg List.length hnil
        simp only [List.length_drop, List.length_nil] at this
        omega
      cases hd : xs.drop lo with
      | nil => exact absurd hd hne
      | cons y ys =>
        simp only [pyRangeAux, h, if_true, List.map_cons, ih (lo + k), chunks]
        rw [← hd]
        simp [pySlice, List.drop_drop]
    · have hnil : xs.drop lo = [] := List.drop_eq_nil_of_le (by omega)
      simp [pyRangeAux, h, hnil, chunks]

/-- the loop `for lo in range(0, n, k): … x[lo:lo+k] …` visits exactly the batches of the model, for every `k` -/
theorem pyRange_slices {α} (k : Nat) (xs : List α) :
    (pyRange xs.length k).map (fun lo => pySlice xs lo (lo + k)) = batches k xs := by
  unfold pyRange batches
  rw [pyRangeAux_slices k xs (xs.length + 1) 0, List.drop_zero]

/-! ### `Transform._apply_batched` -/

theorem batchStep_stopped {α β ε} (ap : List α → Except ε (List β)) (x : List α) (k : Nat) (v : Except ε (List β))
    (outs : List (List β)) (los : List Nat) : los.foldl (batchStep ap x k) (some v, outs) = (some v, outs) := by
  induction los with
  | nil => rfl
  | cons lo los ih => simp only [List.foldl_cons, batchStep, Option.isSome_some, if_true]; exact ih

def batchFinish {β ε : Type} (r : Option (Except ε (List β)) × List (List β)) : Except ε (List β) :=
  Py.onExit r.1 (fun v => v) (.ok r.2.flatten)

theorem batchStep_fold {α β ε} (ap : List α → Except ε (List β)) (x : List α) (k : Nat) (los : List Nat) :
    ∀ outs : List (List β), batchFinish (los.foldl (batchStep ap x k) (none, outs)) =
      match mapBatchesE ap (los.map fun lo => pySlice x lo (lo + k)) with
      | .error e => .error e
      | .ok rs => .ok (outs.flatten ++ rs) := by
  induction los with
  | nil => intro outs; simp [batchFinish, mapBatchesE]
  | cons lo los ih =>
    intro outs
    simp only [List.foldl_cons, List.map_cons, mapBatchesE]
    cases hap : ap (pySlice x lo (lo + k)) with
    | error e => simp [batchStep, hap, batchStep_stopped, batchFinish]
    | ok v =>
      have hstep : batchStep ap x k (none, outs) lo = (none, outs ++ [v]) := by simp [batchStep, hap]
      rw [hstep, ih (outs ++ [v])]
      cases mapBatchesE ap (los.map fun lo => pySlice x lo (lo + k)) <;> simp

/-- the translated loop of `Transform._apply_batched` is the model's generic batching (first failing batch raises,
otherwise the results stacked), for every `_apply`; the statement also covers the batch size 0, where Python raises
and the model loops `n + 1` times over empty slices: a fact about the model only (the property theorems carry `ValidBatch`) -/
theorem applyBatchedSrc_eq {α β ε} (ap : List α → Except ε (List β)) (bs : Option Nat) (x : List α) :
    applyBatchedSrc ap bs x =
      match bs with
      | none => ap x
      | some k => if x.length = 0 then ap x else applyBatchedE ap k x := by
  cases bs with
  | none => simp [applyBatchedSrc]
  | some k =>
    by_cases hx : x.length = 0
    · simp [applyBatchedSrc, hx]
    · have h := batchStep_fold ap x k (pyRange x.length k) []
      rw [pyRange_slices] at h
      simp only [applyBatchedSrc, Option.isNone_some, Bool.false_eq_true, if_false, hx, beq_iff_eq,
        Py.forLoop_eq_foldl, Option.getD_some, applyBatchedE]
      simp only [batchFinish, List.flatten_nil, List.nil_append] at h
      simp only [vstackL_eq]
      refine h.trans ?_
      cases mapBatchesE ap (batches k x) <;> rfl

theorem mapBatchesE_liftOk {α β ε} (f : List α → List β) (cs : List (List α)) :
    mapBatchesE (fun c => (Except.ok (f c) : Except ε (List β))) cs = .ok (cs.flatMap f) := by
  induction cs with
  | nil => rfl
  | cons c cs ih => simp [mapBatchesE, ih]

/-- a batch size as `apply` documents it: `None` or a positive integer -/
def ValidBatch (bs : Option Nat) : Prop := ∀ k, bs = some k → 0 < k

/-- PROPERTY (batching, on the translated loop): for every `_apply` that commutes with concatenation and every batch
size — `None`, dividing `n` or not, larger than `n` — the batched application is the unbatched one -/
theorem batched_eq_unbatched_src_hom {α β ε} (f : List α → List β) (hnil : f [] = [])
    (hf : ∀ a b, f (a ++ b) = f a ++ f b) (bs : Option Nat) (hbs : ValidBatch bs) (xs : List α) :
    applyBatchedSrc (fun c => (Except.ok (f c) : Except ε (List β))) bs xs = .ok (f xs) := by
  rw [applyBatchedSrc_eq]
  cases bs with
  | none => rfl
  | some k =>
    by_cases hx : xs.length = 0
    · simp [hx]
    · simp only [hx, if_false, applyBatchedE, mapBatchesE_liftOk]
      have := batched_eq_unbatched_hom f hnil hf k (hbs k rfl) xs
      unfold applyBatched at this
      rw [this]

/-- PROPERTY (batching, on the translated loop): point-wise transforms -/
theorem batched_eq_unbatched_src {α β ε} (g : α → β) (bs : Option Nat) (hbs : ValidBatch bs) (xs : List α) :
    applyBatchedSrc (fun c => (Except.ok (c.map g) : Except ε (List β))) bs xs = .ok (xs.map g) :=
  batched_eq_unbatched_src_hom (List.map g) rfl (fun _ _ => List.map_append) bs hbs xs

/-- the translated generic loop over a raising piecewise `_apply` reports one batch only (what chains inherited before
the repair) -/
theorem applyBatchedSrc_error_one_batch {α β} (d : Pwa α β) (k : Nat) (xs : List α) (hx : xs ≠ []) (m : List Bool)
    (h : applyBatchedSrc d.apply (some k) xs = .error m) : ∃ c ∈ batches k xs, m = c.map fun x => !d.inDom x := by
  have hlen : xs.length ≠ 0 := by simpa using hx
  have h2 : applyBatchedSrc d.apply (some k) xs = applyBatchedE d.apply k xs := by
    rw [applyBatchedSrc_eq]; exact if_neg hlen
  rw [h2] at h
  exact applyBatchedE_error_one_batch d k xs m h

/-! ### `AbstractPWA._apply_batched` -/

/-- the loop of the override as a recursion over the batches, for an arbitrary raising `_apply` -/
def foldBatchesG {α β} (ap : List α → Except (List Bool) (List β)) : List (List α) → List β × List Bool × Bool
  | [] => ([], [], false)
  | c :: cs =>
    match ap c with
    | .ok r => (r ++ (foldBatchesG ap cs).1, List.replicate c.length false ++ (foldBatchesG ap cs).2.1, (foldBatchesG ap cs).2.2)
    | .error e => ((foldBatchesG ap cs).1, e ++ (foldBatchesG ap cs).2.1, true)

theorem foldBatchesG_pwa {α β} (d : Pwa α β) (cs : List (List α)) : foldBatchesG d.apply cs = foldBatches d List.length cs := by
  induction cs with
  | nil => rfl
  | cons c cs ih =>
    simp only [foldBatchesG, foldBatches, ih]
    cases d.apply c <;> rfl

theorem foldBatchesG_pt (ap : List Pt → Except (List Bool) (List Pt)) (cs : List (List Pt)) :
    foldBatchesG ap cs = pwaApplyBatched.foldBatchesE ap cs := by
  induction cs with
  | nil => rfl
  | cons c cs ih =>
    simp only [foldBatchesG, pwaApplyBatched.foldBatchesE, ih]
    cases ap c <;> rfl

theorem pwaBatchStep_fold {α β} (ap : List α → Except (List Bool) (List β)) (x : List α) (k : Nat) (los : List Nat) :
    ∀ acc : List (List β) × Bool × List (List Bool),
      let r := los.foldl (pwaBatchStep ap x k) acc
      let fb := foldBatchesG ap (los.map fun lo => pySlice x lo (lo + k))
      r.1.flatten = acc.1.flatten ++ fb.1 ∧ r.2.1 = (acc.2.1 || fb.2.2) ∧ r.2.2.flatten = acc.2.2.flatten ++ fb.2.1 := by
  induction los with
  | nil => intro acc; simp [foldBatchesG]
  | cons lo los ih =>
    intro acc
    simp only [List.foldl_cons, List.map_cons]
    cases hap : ap (pySlice x lo (lo + k)) with
    | error e =>
      have hs : pwaBatchStep ap x k acc lo = (acc.1, true, acc.2.2 ++ [e]) := by simp only [pwaBatchStep, hap, Py.tryCatch_error]
      obtain ⟨h1, h2, h3⟩ := ih (acc.1, true, acc.2.2 ++ [e])
      simp only [foldBatchesG, hap, hs]
      refine ⟨h1, ?_, ?_⟩
      · rw [h2]; simp
      · rw [h3]; simp
    | ok v =>
      have hs : pwaBatchStep ap x k acc lo =
          (acc.1 ++ [v], acc.2.1, acc.2.2 ++ [List.replicate (pySlice x lo (lo + k)).length false]) := by
        simp only [pwaBatchStep, hap, Py.tryCatch_ok]
      obtain ⟨h1, h2, h3⟩ := ih (acc.1 ++ [v], acc.2.1, acc.2.2 ++ [List.replicate (pySlice x lo (lo + k)).length false])
      simp only [foldBatchesG, hap, hs]
      refine ⟨?_, h2, ?_⟩
      · rw [h1]; simp
      · rw [h3]; simp

/-- the translated loop of `AbstractPWA._apply_batched`, for every `_apply` and every batch size (also 0) -/
theorem pwaApplyBatchedSrc_eq_fold {α β} (ap : List α → Except (List Bool) (List β)) (bs : Option Nat) (x : List α) :
    pwaApplyBatchedSrc ap bs x =
      match bs with
      | none => ap x
      | some k => if x.length = 0 then ap x else finishBatches (foldBatchesG ap (batches k x)) := by
  cases bs with
  | none => simp [pwaApplyBatchedSrc]
  | some k =>
    by_cases hx : x.length = 0
    · simp [pwaApplyBatchedSrc, hx]
    · obtain ⟨h1, h2, h3⟩ := pwaBatchStep_fold ap x k (pyRange x.length k) ([], false, [])
      rw [pyRange_slices] at h1 h2 h3
      simp only [List.flatten_nil, List.nil_append, Bool.false_or] at h1 h2 h3
      simp only [pwaApplyBatchedSrc, Option.isNone_some, Bool.false_eq_true, if_false, hx, beq_iff_eq,
        Py.forLoop_eq_foldl, Option.getD_some, vstackL_eq, hstackL_eq, h1, h2, h3]
      generalize foldBatchesG ap (batches k x) = fb
      obtain ⟨o, m, t⟩ := fb
      cases t <;> simp [finishBatches]

/-- PROPERTY (failure mask, on the translated loop): for every piecewise transform, every valid batch size and every mix
of in- and out-of-domain points the batched application is the unbatched one — the same points on success, and on
failure the same mask: one entry per input point, `true` exactly at the points outside the domain -/
theorem pwa_mask_exact_src {α β} (d : Pwa α β) (bs : Option Nat) (hbs : ValidBatch bs) (xs : List α) :
    pwaApplyBatchedSrc d.apply bs xs =
      if xs.all d.inDom then .ok (xs.map d.f) else .error (xs.map fun x => !d.inDom x) := by
  rw [pwaApplyBatchedSrc_eq_fold]
  cases bs with
  | none => rfl
  | some k =>
    by_cases hx : xs.length = 0
    · dsimp only
      rw [if_pos hx]; rfl
    · simp only [hx, if_false, foldBatchesG_pwa]
      exact pwa_batched_fixed_eq d k (hbs k rfl) xs

/-- the translated loop over the piecewise-affine `_apply` is the model's batched apply, for every batch size -/
theorem pwaApplyBatchedSrc_eq_core (src tgt : List Tri) (k : Option Nat) (ps : List Pt) :
    pwaApplyBatchedSrc (pwaApply src tgt) k ps = pwaApplyBatched src tgt k ps := by
  rw [pwaApplyBatchedSrc_eq_fold]
  cases k with
  | none => rfl
  | some k => simp only [pwaApplyBatched, foldBatchesG_pt]

/-! ### the point location, array by array -/

theorem zipWith_map_map_same {α β γ δ} (f : β → γ → δ) (g : α → β) (h : α → γ) (l : List α) :
    List.zipWith f (l.map g) (l.map h) = l.map fun a => f (g a) (h a) := by
  induction l with
  | nil => rfl
  | cons a l ih => simp [ih]

/-- `alpha_beta` on the stored per-triangle arrays is, entry by entry, the model's `alphaBeta` -/
theorem alphaBetaSrc_eq (ts : List Tri) (ps : List Pt) :
    alphaBetaSrc (ts.map Tri.i) (ts.map Tri.ij) (ts.map Tri.ik) ps =
      (ps.map fun p => ts.map fun t => (alphaBeta t p).1, ps.map fun p => ts.map fun t => (alphaBeta t p).2) := by
  simp only [alphaBetaSrc, ipArr, dotT, dotVT, recipT, bmul, bsub, List.map_map, zipWith_map_map_same,
    Function.comp_def, alphaBeta]

theorem inTri_rows (r s : List Rat) :
    List.zipWith (fun x y => x && y)
      (List.zipWith (fun x y => x && y) (r.map fun v => decide (0 ≤ v)) (s.map fun v => decide (0 ≤ v)))
      (List.zipWith (fun x y => decide (x + y ≤ 1)) r s) = List.zipWith (fun x y => inTriangle (x, y)) r s := by
  induction r generalizing s with
  | nil => simp
  | cons a r ih =>
    cases s with
    | nil => simp
    | cons b s => simp only [List.map_cons, List.zipWith_cons_cons, ih, inTriangle]

theorem inTri_arrays (a b : Arr2) :
    arrAnd (arrAnd (arrGe0 a) (arrGe0 b)) (arrSumLe1 a b) = List.zipWith (List.zipWith fun x y => inTriangle (x, y)) a b := by
  unfold arrAnd arrGe0 arrSumLe1
  induction a generalizing b with
  | nil => simp
  | cons r a ih =>
    cases b with
    | nil => simp
    | cons s b =>
      simp only [List.map_cons, List.zipWith_cons_cons, inTri_rows, List.cons.injEq, true_and]
      exact ih b

theorem zip_fst_snd {α β} (l : List (α × β)) : (l.map Prod.fst).zip (l.map Prod.snd) = l := by
  induction l with
  | nil => rfl
  | cons a l ih => simp [ih]

/-- `containment_from_alpha_beta` is the model's, on the containment array it builds itself -/
theorem containmentSrc_eq (alpha beta : Arr2) (hlen : alpha.length = beta.length) :
    containmentSrc alpha beta =
      containmentFromAlphaBeta (List.zipWith (List.zipWith fun x y => inTriangle (x, y)) alpha beta) := by
  have hl : (List.zipWith (List.zipWith fun x y => inTriangle (x, y)) alpha beta).length = alpha.length := by
    simp [hlen]
  simp only [containmentSrc, inTri_arrays, containmentFromAlphaBeta, anyAxis1, vecNot, nonzero2, scatter, zip_fst_snd,
    List.any_map, hl, Function.comp_def, id]

def unzip3 {α β γ} (l : List (α × β × γ)) : List α × List β × List γ :=
  (l.map fun t => t.1, l.map fun t => t.2.1, l.map fun t => t.2.2)

theorem assign_length (pairs : List (Nat × Nat)) : ∀ idx : List Nat, (assign idx pairs).length = idx.length := by
  induction pairs with
  | nil => intro idx; rfl
  | cons p pairs ih => intro idx; simp only [assign, List.foldl_cons]; exact (ih _).trans (by simp)

theorem containment_length (rows : List (List Bool)) (index : List Nat) (h : containmentFromAlphaBeta rows = .ok index) :
    index.length = rows.length := by
  unfold containmentFromAlphaBeta at h
  simp only at h
  split at h
  · cases h
  · simp only [Except.ok.injEq] at h
    rw [← h, assign_length]; simp

theorem zipWith_range_getD {α β γ} (G : α → β → γ) (l : List α) (d : α) (cs : List β) :
    List.zipWith (fun r c => G (l.getD r d) c) (List.range l.length) cs = List.zipWith G l cs := by
  apply List.ext_getElem
  · simp
  · intro i h1 h2
    simp only [List.length_zipWith, List.length_range] at h1
    have hi : i < l.length := by omega
    simp [List.getD_eq_getElem?_getD, hi]

theorem getD_map_of {α β} (f : α → β) (l : List α) (j : Nat) (d : α) (d' : β) (h : f d = d') :
    (l.map f).getD j d' = f (l.getD j d) := by
  simp only [List.getD_eq_getElem?_getD, List.getElem?_map]
  cases l[j]? <;> simp [h]

theorem map_zip_eq_zipWith {α β γ} (f : α → β → γ) (l₁ : List α) (l₂ : List β) :
    (l₁.zip l₂).map (fun p => f p.1 p.2) = List.zipWith f l₁ l₂ := by
  induction l₁ generalizing l₂ with
  | nil => rfl
  | cons a l₁ ih => cases l₂ with
    | nil => rfl
    | cons b l₂ => simp [ih]

/-- an array of (alpha, beta) rows and an index vector of the same length: the triples the model returns, unzipped,
are the index vector and the two fancy-indexed arrays the code returns -/
theorem unzip3_iab (AB : List (List (Rat × Rat))) (index : List Nat) (hlen : index.length = AB.length) :
    unzip3 ((AB.zip index).map fun ri => (ri.2, (ri.1.getD ri.2 (0, 0)).1, (ri.1.getD ri.2 (0, 0)).2)) =
      (index, gather2 (AB.map (List.map Prod.fst)) (List.range AB.length) index,
        gather2 (AB.map (List.map Prod.snd)) (List.range AB.length) index) := by
  have h1 : (AB.map (List.map Prod.fst)).length = AB.length := by simp
  have h2 : (AB.map (List.map Prod.snd)).length = AB.length := by simp
  unfold unzip3 gather2
  refine Prod.ext ?_ (Prod.ext ?_ ?_)
  · simp only [List.map_map, Function.comp_def]
    exact List.map_snd_zip (by omega)
  · simp only [List.map_map, Function.comp_def]
    rw [map_zip_eq_zipWith (fun (row : List (Rat × Rat)) c => (row.getD c (0, 0)).1)]
    rw [← h1, zipWith_range_getD (fun (row : List Rat) c => row.getD c 0), List.zipWith_map_left]
    congr 1; funext row c
    exact (getD_map_of Prod.fst row c (0, 0) 0 rfl).symm
  · simp only [List.map_map, Function.comp_def]
    rw [map_zip_eq_zipWith (fun (row : List (Rat × Rat)) c => (row.getD c (0, 0)).2)]
    rw [← h2, zipWith_range_getD (fun (row : List Rat) c => row.getD c 0), List.zipWith_map_left]
    congr 1; funext row c
    exact (getD_map_of Prod.snd row c (0, 0) 0 rfl).symm

/-- `PythonPWA.index_alpha_beta` is the model's `indexAlphaBeta`, as three arrays instead of an array of triples -/
theorem pythonIabSrc_eq (src : List Tri) (ps : List Pt) :
    pythonIabSrc src ps = (indexAlphaBeta src ps).map unzip3 := by
  unfold pythonIabSrc indexAlphaBetaSrc indexAlphaBeta
  simp only [alphaBetaSrc_eq]
  rw [containmentSrc_eq _ _ (by simp)]
  have hA : (ps.map fun p => src.map fun t => (alphaBeta t p).1) =
      (ps.map fun p => src.map fun t => alphaBeta t p).map (List.map Prod.fst) := by simp [Function.comp_def]
  have hB : (ps.map fun p => src.map fun t => (alphaBeta t p).2) =
      (ps.map fun p => src.map fun t => alphaBeta t p).map (List.map Prod.snd) := by simp [Function.comp_def]
  have hrows : (List.zipWith (List.zipWith fun x y => inTriangle (x, y))
      (ps.map fun p => src.map fun t => (alphaBeta t p).1) (ps.map fun p => src.map fun t => (alphaBeta t p).2)) =
      ((ps.map fun p => src.map fun t => alphaBeta t p).map fun row => row.map inTriangle) := by
    simp [Function.comp_def]
  rw [hrows]
  cases hc : containmentFromAlphaBeta ((ps.map fun p => src.map fun t => alphaBeta t p).map fun row => row.map inTriangle) with
  | error m => rfl
  | ok index =>
    have hlen : index.length = (ps.map fun p => src.map fun t => alphaBeta t p).length := by
      have := containment_length _ _ hc
      simpa using this
    have hn : ps.length = (ps.map fun p => src.map fun t => alphaBeta t p).length := by simp
    simp only [Except.map, Py.tryCatch_ok]
    rw [unzip3_iab _ index hlen, hA, hB, hn]

def triVecs (ts : List Tri) : List Pt × List Pt × List Pt := (ts.map Tri.i, ts.map Tri.ij, ts.map Tri.ik)

/-- `AbstractPWA._apply` over `PythonPWA.index_alpha_beta` and the target vectors is the model's `pwaApply` -/
theorem pwaApplySrc_eq (src tgt : List Tri) (ps : List Pt) :
    pwaApplySrc (pythonIabSrc src) (tgt.map Tri.i) (tgt.map Tri.ij) (tgt.map Tri.ik) ps = pwaApply src tgt ps := by
  unfold pwaApplySrc pwaApply
  rw [pythonIabSrc_eq]
  cases indexAlphaBeta src ps with
  | error m => rfl
  | ok iab =>
    simp only [Except.map, Py.tryCatch_ok, unzip3, gatherPts, colMul, ptsAdd, List.map_map, zipWith_map_map_same,
      Function.comp_def]
    congr 1
    apply List.map_congr_left
    intro tab _
    rw [getD_map_of Tri.i tgt tab.1 default (0, 0) rfl, getD_map_of Tri.ij tgt tab.1 default (0, 0) rfl,
      getD_map_of Tri.ik tgt tab.1 default (0, 0) rfl]
    rfl

/-- PROPERTY (the piecewise-affine transform, on the translated functions end to end): `_apply_batched` over `_apply`
over `index_alpha_beta` over `alpha_beta` / `containment_from_alpha_beta`, for every valid batch size and every mix of
points: the stateless piecewise-affine result of the MODEL (`toPwa`: `contains` = `inTriangle ∘ alphaBeta`, rational
division) — the images, or the mask with one entry per input point, `true` exactly at the points no source triangle
`contains`.  `contains` is the closed triangle for triangles of non-zero area only (`contains_iff_closed_triangle`,
hypothesis `gram ≠ 0`); on a zero-area triangle the model (1/0 = 0) and numpy (inf / nan) differ: INFO, assumptions -/
theorem pwa_src_end_to_end (src tgt : List Tri) (bs : Option Nat) (hbs : ValidBatch bs) (ps : List Pt) :
    pwaApplyBatchedSrc (pwaApplySrc (pythonIabSrc src) (tgt.map Tri.i) (tgt.map Tri.ij) (tgt.map Tri.ik)) bs ps =
      (toPwa src tgt).apply ps := by
  have hap : pwaApplySrc (pythonIabSrc src) (tgt.map Tri.i) (tgt.map Tri.ij) (tgt.map Tri.ik) = (toPwa src tgt).apply := by
    funext c; rw [pwaApplySrc_eq, pwaApply_eq_toPwa]
  rw [hap, pwa_mask_exact_src _ bs hbs]
  rfl

/-! ### chains -/

theorem foldlM_eq_foldl {ε α} (fs : List (List α → Except ε (List α))) :
    ∀ r : Except ε (List α), (r >>= fun x => fs.foldlM (fun xi tr => tr xi) x) =
      fs.foldl (fun (xi : Except ε (List α)) f => match xi with | .ok v => f v | .error e => .error e) r := by
  induction fs with
  | nil => intro r; cases r <;> rfl
  | cons f fs ih =>
    intro r
    simp only [List.foldlM_cons, List.foldl_cons]
    rw [← ih]
    cases r <;> rfl

theorem chainApplySrc_eq {ε α} (fs : List (List α → Except ε (List α))) (x : List α) :
    chainApplySrc fs x = chainApplyE fs x := by
  unfold chainApplySrc chainApplyE
  exact foldlM_eq_foldl fs (.ok x)

/-- PROPERTY (chains of point-wise members, on the translated functions): every valid batch size gives the unbatched
result of the chain, which is the composed point function mapped over the points -/
theorem chain_batched_src {α} (gs : List (α → α)) (bs : Option Nat) (hbs : ValidBatch bs) (xs : List α) :
    chainApplyBatchedSrc (chainApplySrc (gs.map fun g => liftOk (List.map g))) bs xs =
      .ok (xs.map fun x => gs.foldl (fun xi g => g xi) x) := by
  let d : Pwa α α := { inDom := fun _ => true, f := fun x => gs.foldl (fun xi g => g xi) x }
  have hap : chainApplySrc (gs.map fun g => (liftOk (List.map g) : List α → Except (List Bool) (List α))) = d.apply := by
    funext c
    rw [chainApplySrc_eq]
    have : ∀ (gs : List (α → α)) (c : List α),
        chainApplyE (gs.map fun g => (liftOk (List.map g) : List α → Except (List Bool) (List α))) c =
          .ok (c.map fun x => gs.foldl (fun xi g => g xi) x) := by
      intro gs
      induction gs with
      | nil => intro c; simp [chainApplyE]
      | cons g gs ih =>
        intro c
        have := ih (c.map g)
        simp only [chainApplyE, List.map_cons, List.foldl_cons, liftOk] at this ⊢
        rw [this]; simp [List.map_map, Function.comp_def]
    rw [this]
    simp [Pwa.apply, d]
  unfold chainApplyBatchedSrc
  rw [hap, pwa_mask_exact_src d bs hbs]
  simp [d]

/-- PROPERTY (a chain with a piecewise-affine member, on the translated functions): for every valid batch size the result
and the failure mask are those of the unbatched application — one entry per INPUT point, `true` exactly where the
image under the members before the piecewise-affine one leaves its domain -/
theorem chain_pwa_batched_src {α} (g h : α → α) (d : Pwa α α) (bs : Option Nat) (hbs : ValidBatch bs) (xs : List α) :
    chainApplyBatchedSrc (chainApplySrc [liftOk (List.map g), d.apply, liftOk (List.map h)]) bs xs =
      (d.wrap g h).apply xs := by
  have hap : chainApplySrc [liftOk (List.map g), d.apply, liftOk (List.map h)] = (d.wrap g h).apply := by
    funext c; rw [chainApplySrc_eq, chainE_wrap]
  unfold chainApplyBatchedSrc
  rw [hap, pwa_mask_exact_src _ bs hbs]
  rfl

/-! ### the memo -/

/-- the hit test of `CachedPWA.index_alpha_beta` (not None, same shape, `array_equal`) is equality with the stored copy -/
theorem cachedIabSrc_hit_iff {Val} [DecidableEq Val] (shape : Val → Nat) (key : Option (Owned Val)) (points : Val) :
    (key.isNone || !(shapeEqO shape points key) || !(arrEqO points key)) = false ↔ key = some ⟨points⟩ := by
  cases key with
  | none => simp
  | some w =>
    obtain ⟨w⟩ := w
    by_cases hw : w = points
    · subst hw; simp [shapeEqO, arrEqO]
    · have : ¬ ((some ⟨w⟩ : Option (Owned Val)) = some ⟨points⟩) := by
        intro h; injection h with h; injection h with h; exact hw h
      simp [arrEqO, this]

/-- the memo of the state machine `step2` (a key that is a VALUE) as the attributes of the translated step (a key that
is an owned copy) -/
def memoOf {Val Res} (s : St2 Val Res) : MemoSt Val Res := ⟨s.key.map Owned.copy, s.iab⟩

theorem map_val_map_copy {Val} (k : Option Val) : (k.map Owned.copy).map Owned.val = k := by
  cases k <;> rfl
theorem map_copy_map_val {Val} (k : Option (Owned Val)) : (k.map Owned.val).map Owned.copy = k := by
  cases k <;> rfl

/-- the state machine the history theorems are about takes exactly the translated step -/
theorem step2_eq_cachedIabSrc {Val Res Err} [DecidableEq Val] (shape : Val → Nat) (compute : Val → Except Err Res)
    (s : St2 Val Res) (a : Nat) :
    step2 false compute s (.apply a) =
      ({ heap := s.heap, key := (cachedIabSrc shape compute (memoOf s) (s.heap a)).1.key.map Owned.val,
         iab := (cachedIabSrc shape compute (memoOf s) (s.heap a)).1.iab },
       some (cachedIabSrc shape compute (memoOf s) (s.heap a)).2) := by
  by_cases hk : s.key = some (s.heap a)
  · have hk' : (memoOf s).key = some ⟨s.heap a⟩ := by simp [memoOf, hk, Owned.copy]
    have hc := (cachedIabSrc_hit_iff shape (memoOf s).key (s.heap a)).mpr hk'
    have : cachedIabSrc shape compute (memoOf s) (s.heap a) = (memoOf s, .ok s.iab) := by
      unfold cachedIabSrc; rw [hc]; rfl
    rw [this]
    simp only [step2]
    rw [if_pos hk]
    simp only [memoOf, map_val_map_copy]
  · have hk' : ¬ (memoOf s).key = some ⟨s.heap a⟩ := by
      intro h
      apply hk
      cases hs : s.key with
      | none => simp [memoOf, hs] at h
      | some w =>
        simp only [memoOf, hs, Option.map_some, Owned.copy, Option.some.injEq, Owned.mk.injEq] at h
        rw [h]
    have hne : ((memoOf s).key.isNone || !(shapeEqO shape (s.heap a) (memoOf s).key) || !(arrEqO (s.heap a) (memoOf s).key)) = true := by
      cases hb : ((memoOf s).key.isNone || !(shapeEqO shape (s.heap a) (memoOf s).key) || !(arrEqO (s.heap a) (memoOf s).key)) with
      | true => rfl
      | false => exact absurd ((cachedIabSrc_hit_iff shape (memoOf s).key (s.heap a)).mp hb) hk'
    have : cachedIabSrc shape compute (memoOf s) (s.heap a) =
        match compute (s.heap a) with
        | .error e => (memoOf s, .error e)
        | .ok v => (⟨some ⟨s.heap a⟩, some v⟩, .ok (some v)) := by
      unfold cachedIabSrc; rw [hne]
      simp only [if_true]
      cases compute (s.heap a) <;> rfl
    rw [this]
    simp only [step2]
    rw [if_neg hk]
    simp only [Bool.false_eq_true, if_false]
    cases compute (s.heap a) with
    | error e =>
      obtain ⟨heap, key, iab⟩ := s
      simp only [memoOf, map_val_map_copy]
    | ok v => simp

/-- a history run with an arbitrary `index_alpha_beta` step: what every `apply` returned, with the array's values at that
moment.  An in-place edit of a caller's array (`write`) changes the heap only: the step's state holds OWNED copies
(`MemoSt.key : Option (Owned Val)`), which is what the translated source must type-check against -/
def runMemo {Val Res Err} (step : MemoSt Val Res → Val → MemoSt Val Res × Except Err (Option Res)) :
    (Nat → Val) → MemoSt Val Res → List (Op Val) → List (Val × Except Err (Option Res))
  | _, _, [] => []
  | heap, m, .write a v :: ops => runMemo step (update heap a v) m ops
  | heap, m, .apply a :: ops => (heap a, (step m (heap a)).2) :: runMemo step heap (step m (heap a)).1 ops

/-- … with the step that mirrors `CachedPWA.index_alpha_beta` -/
def runSrc {Val Res Err} [DecidableEq Val] (shape : Val → Nat) (compute : Val → Except Err Res) :
    (Nat → Val) → MemoSt Val Res → List (Op Val) → List (Val × Except Err (Option Res)) :=
  runMemo (cachedIabSrc shape compute)

theorem runSrc_eq_run2 {Val Res Err} [DecidableEq Val] (shape : Val → Nat) (compute : Val → Except Err Res)
    (ops : List (Op Val)) : ∀ (s : St2 Val Res),
    runSrc shape compute s.heap (memoOf s) ops = run2 false compute s ops := by
  unfold runSrc
  induction ops with
  | nil => intro s; rfl
  | cons op ops ih =>
    intro s
    cases op with
    | write a v =>
      simp only [runMemo, run2, step2]
      exact ih { s with heap := update s.heap a v }
    | apply a =>
      simp only [runMemo, run2]
      rw [step2_eq_cachedIabSrc shape]
      simp only
      congr 1
      have h := ih { heap := s.heap, key := (cachedIabSrc shape compute (memoOf s) (s.heap a)).1.key.map Owned.val,
                     iab := (cachedIabSrc shape compute (memoOf s) (s.heap a)).1.iab }
      simp only [memoOf, map_copy_map_val] at h
      exact h

/-- PROPERTY (no history or aliasing effects, on the translated `CachedPWA.index_alpha_beta`): a fresh caching transform
driven through any finite interleaving of applies and in-place edits of the caller's arrays (re-use, values that differ
arbitrarily little, failed applications in between) returns at every call the stateless result for the current values -/
theorem cachedPwa_history_pure_src {Val Res Err} [DecidableEq Val] (shape : Val → Nat) (compute : Val → Except Err Res)
    (ops : List (Op Val)) (heap : Nat → Val) :
    ∀ p ∈ runSrc shape compute heap ⟨none, none⟩ ops, p.2 = liftRes (compute p.1) := by
  have h := runSrc_eq_run2 shape compute ops { heap := heap, key := none, iab := none }
  simp only [memoOf, Option.map_none] at h
  rw [h]
  exact apply_pure_two_attributes compute ops _ (fresh_memo2Ok _ heap)

/-! ### `WithDims`, `apply`, `pwa_point_in_pointcloud` -/

def Dims.toList : Dims → List Nat
  | .one j => [j]
  | .many js => js

/-- `WithDims._apply` always returns the 2-D array of the selected columns (a single column number included) -/
theorem withDimsSrc_eq (dims : Dims) (x : List PtN) : withDimsSrc dims x = .d2 (x.map (withDims dims.toList)) := by
  cases dims with
  | one j => simp [withDimsSrc, selectCols, ArrND.ndim, ArrND.addAxis, withDims, Dims.toList, List.map_map, Function.comp_def]
  | many js => simp [withDimsSrc, selectCols, ArrND.ndim, withDims, Dims.toList]

/-- PROPERTY (`WithDims`, translated `_apply` under the translated batching loop) -/
theorem withDims_batched_src (dims : Dims) (bs : Option Nat) (hbs : ValidBatch bs) (xs : List PtN) :
    applyBatchedSrc (ε := Unit) (fun c => match withDimsSrc dims c with | .d2 r => .ok r | .d1 _ => .ok []) bs xs =
      .ok (xs.map (withDims dims.toList)) := by
  have : (fun c => match withDimsSrc dims c with | .d2 r => (Except.ok r : Except Unit _) | .d1 _ => .ok []) =
      fun c => .ok (c.map (withDims dims.toList)) := by
    funext c; rw [withDimsSrc_eq]
  rw [this]
  exact batched_eq_unbatched_src _ bs hbs xs

/-- `Transform.apply` on an array is the class's `_apply_batched` on it -/
theorem applySrc_arr {α ε} (ab : Option Nat → List α → Except ε (List α)) (bs : Option Nat) (a : List α) :
    applySrc ab bs (.arr a) = match ab bs a with
      | .ok r => .ok (.arr r)
      | .error e => .error (.other e) := by
  rfl

/-- PROPERTY (shapes): `Transform.apply` on a shape returns a shape holding exactly what applying to its points gives,
with the same batch size, and fails exactly when that fails, with the same exception -/
theorem applySrc_shape {α ε} (ab : Option Nat → List α → Except ε (List α)) (bs : Option Nat) (a : List α) :
    applySrc ab bs (.shape a) = match ab bs a with
      | .ok r => .ok (.shape r)
      | .error e => .error (.other e) := by
  simp only [applySrc, PyVal.transform, liftAb]
  cases ab bs a <;> simp [Exc.isAttr]

/-- `pwa_point_in_pointcloud` over the piecewise-affine `apply` of the model is the model's `pointInPointcloud` -/
theorem pointInPointcloudSrc_eq (ts : List Tri) (k : Option Nat) (ps : List Pt) :
    pointInPointcloudSrc (fun a b => (a, b)) (fun t bs x => pwaApplyBatched t.1 t.2 bs x) ts ps k =
      pointInPointcloud ts k ps := by
  unfold pointInPointcloudSrc pointInPointcloud
  dsimp only
  cases pwaApplyBatched ts ts k ps <;> simp [vecNot]

/-! ### non-vacuity -/

local instance exceptDecEqSrc {ε α} [DecidableEq ε] [DecidableEq α] : DecidableEq (Except ε α)
  | .ok a, .ok b => if h : a = b then isTrue (by rw [h]) else isFalse (by intro h'; cases h'; exact h rfl)
  | .error a, .error b => if h : a = b then isTrue (by rw [h]) else isFalse (by intro h'; cases h'; exact h rfl)
  | .ok _, .error _ => isFalse (by intro h; cases h)
  | .error _, .ok _ => isFalse (by intro h; cases h)

example : pyRange 7 2 = [0, 2, 4, 6] ∧ pyRange 4 2 = [0, 2] ∧ pyRange 3 7 = [0] ∧ pyRange 0 3 = [] := by decide
example : pySlice [1, 2, 3, 4, 5] 2 4 = [3, 4] ∧ pySlice [1, 2, 3, 4, 5] 4 6 = [5] := by decide
example : ValidBatch none ∧ ValidBatch (some 3) := by simp [ValidBatch]
example : applyBatchedSrc (ε := Unit) (fun c => .ok (c.map (· + 1))) (some 2) [1, 2, 3, 4, 5] = .ok [2, 3, 4, 5, 6] := by decide +kernel
example : pwaApplyBatchedSrc dEven.apply (some 2) [1, 0, 2, 3, 4] = .error [false, true, false, false, false] := by decide +kernel
example : pwaApplyBatchedSrc dEven.apply (some 2) [1, 2, 3] = .ok [1, 2, 3] := by decide +kernel
example : applyBatchedSrc dEven.apply (some 2) [1, 2, 0, 3, 4] = .error [true, false] := by rfl
example : pythonIabSrc exSrc [(2, 2), (1, 1)] = .ok ([1, 0], [0, 1/4], [1/2, 1/4]) := by decide +kernel
example : pwaApplySrc (pythonIabSrc exSrc) (exTgt.map Tri.i) (exTgt.map Tri.ij) (exTgt.map Tri.ik) [(2, 2), (1, 1), (3, 3)] =
    .ok [(5, 6), (3, 3), (7, 9)] := by decide +kernel
example : (cachedIabSrc (Val := Nat) (Res := Nat) (Err := Unit) (fun _ => 1) (fun v => .ok (v + 100)) ⟨some ⟨5⟩, some 105⟩ 5).2 = .ok (some 105) ∧
    (cachedIabSrc (Val := Nat) (Res := Nat) (Err := Unit) (fun _ => 1) (fun v => .ok (v + 100)) ⟨some ⟨5⟩, some 105⟩ 6).2 = .ok (some 106) := by
  constructor <;> rfl
example : withDimsSrc (.one 1) [[1, 2, 3], [4, 5, 6]] = .d2 [[2], [5]] ∧
    withDimsSrc (.many [2, 0]) [[1, 2, 3], [4, 5, 6]] = .d2 [[3, 1], [6, 4]] := by decide +kernel
example : applySrc (ε := Unit) (fun _ a => .ok (a.map (· + 1))) (some 2) (.shape [1, 2, 3]) = .ok (.shape [2, 3, 4]) := by rfl
example : pointInPointcloudSrc (fun a b => (a, b)) (fun t bs x => pwaApplyBatched t.1 t.2 bs x) exSrc [(2, 2), (5, 1), (3, 3)] (some 2) =
    [true, false, true] := by decide +kernel

end MenpoModel.C09
