/-
C19 — lazy lists are faithful and truly lazy under every combination of operations.
Entry point: the property theorems live in
  Props/C19Base.lean      refinement to ordinary lists, laziness, slices, heap frame
  Props/C19Reads.lean     value AND evaluation log of every element of every program (provenance reference);
                          sequences of reads (no memo), iteration, generator prefixes, `in`/`index`/`count`/
                          `reversed`, reads through a mapped non-callable, histories with reads in between
  Props/C19Import.lean    the lists menpo builds itself: init_from_iterable and the glob importers
  Props/C19Slice.lean     CPython slice arithmetic = the language reference's definition, for every start/stop/step
  Props/C19Py.lean        the Core definitions the TRANSLATED LazyList methods are proved equal to (GenProps/C19Src.lean):
                          CPython primitives ([x]*n, zip(*), chain(*)), links to the program / read / dispatch models
  Props/C19PyIO.lean      the same for the translated importer functions (loop shapes, l[:m])
  Props/C19Dispatch.lean  argument dispatch of __getitem__ / map / __add__ (tables regenerated from the live code,
                          obligations in GenProps/C19.lean)
-/
import MenpoModel.Props.C19Base
import MenpoModel.Props.C19Reads
import MenpoModel.Props.C19Import
import MenpoModel.Props.C19Dispatch
import MenpoModel.Props.C19Slice
import MenpoModel.Props.C19Py
import MenpoModel.Props.C19PyIO
