/-
C19 — CPython's slice arithmetic (`Core/PyData.lean`, the `PySlice_AdjustIndices` transcription every C19 theorem
rests on) agrees with a REFERENCE written from the Python language reference ("Common Sequence Operations", notes
3–5: indices `i + n*k` with `0 ≤ n < (j - i)/k`, bounds relative to the end when negative, reduced to `len` /
`len - 1` when greater, "end" values for `None`), for every start / stop / step and every length.  Core Lean only.
-/
import MenpoModel.Props.C19Base
namespace MenpoModel.PyData

/-! ### reference: the Python language reference, "Common Sequence Operations", notes (3)–(5) -/

/-- a bound of `s[i:j:k]` as the language reference describes it: a negative value is relative to the end
(`len(s) + i` is substituted); for positive `k` bounds are reduced to `len(s)` if they are greater, for negative `k`
to `len(s) - 1`; an omitted / `None` bound becomes the "end" value that the sign of `k` asks for; what is still
before the beginning is the beginning (`0`, resp. the position before it, `-1`, for a negative step) -/
def refBound (len : Nat) (k : Int) (v : Option Int) (isStop : Bool) : Int :=
  match v with
  | none => if 0 < k then (if isStop then (len : Int) else 0) else (if isStop then -1 else (len : Int) - 1)
  | some v =>
    let w := if v < 0 then v + len else v
    if 0 < k then min (max w 0) len else min (max w (-1)) ((len : Int) - 1)

/-- "the items with index `x = i + n*k` such that `0 ≤ n < (j - i) / k`" (the quotient is the rational one) -/
def refSelected (i j k : Int) (n : Nat) : Bool := (decide (0 < k) && decide (i + n * k < j)) || (decide (k < 0) && decide (j < i + n * k))

/-- the indices of `s[i:j:k]` on a sequence of length `len`, in order; `none` = `k` is zero (ValueError).
At most `len` items can be selected, so `n` ranges over `0 … len`. -/
def refSlice (a b c : Option Int) (len : Nat) : Option (List Nat) :=
  let k := c.getD 1
  if k = 0 then none else
  let i := refBound len k a false
  let j := refBound len k b true
  some (((List.range (len + 1)).filter (refSelected i j k)).map fun (n : Nat) => (i + (n : Int) * k).toNat)

theorem sliceStart_eq_ref (a : Option Int) (len : Nat) (k : Int) (hk : k ≠ 0) :
    sliceStart a len (decide (k < 0)) = refBound len k a false := by
  unfold sliceStart refBound adjBound
  cases a with
  | none => by_cases h : k < 0 <;> simp [h] <;> omega
  | some v =>
    by_cases h : k < 0
    · have h' : ¬ (0 < k) := by omega
      simp only [h, decide_true, if_true, h', if_false]
      split <;> (try split) <;> (try split) <;> omega
    · have h' : 0 < k := by omega
      simp only [h, decide_false, h', if_true, Bool.false_eq_true, if_false]
      split <;> (try split) <;> (try split) <;> omega

theorem sliceStop_eq_ref (b : Option Int) (len : Nat) (k : Int) (hk : k ≠ 0) :
    sliceStop b len (decide (k < 0)) = refBound len k b true := by
  unfold sliceStop refBound adjBound
  cases b with
  | none => by_cases h : k < 0 <;> simp [h] <;> omega
  | some v =>
    by_cases h : k < 0
    · have h' : ¬ (0 < k) := by omega
      simp only [h, decide_true, if_true, h', if_false]
      split <;> (try split) <;> (try split) <;> omega
    · have h' : 0 < k := by omega
      simp only [h, decide_false, h', if_true, Bool.false_eq_true, if_false]
      split <;> (try split) <;> (try split) <;> omega

/-- the floor-division count of `PySlice_AdjustIndices` is the reference's `0 ≤ n < (j - i) / k` -/
theorem sliceCount_spec (i j k : Int) (hk : k ≠ 0) (n : Nat) :
    n < sliceCount i j k ↔ refSelected i j k n = true := by
  unfold sliceCount refSelected
  by_cases hneg : k < 0
  · have hpos : ¬ (0 < k) := by omega
    simp only [hneg, if_true, hpos, decide_false, Bool.false_and, Bool.false_or, decide_true, Bool.true_and,
      decide_eq_true_eq]
    by_cases hlt : j < i
    · simp only [hlt, if_true]
      have hq0 : 0 ≤ (i - j - 1) / (-k) := Int.ediv_nonneg (by omega) (by omega)
      have key : (n : Int) ≤ (i - j - 1) / (-k) ↔ (n : Int) * (-k) ≤ i - j - 1 := Int.le_ediv_iff_mul_le (by omega)
      have e : (n : Int) * (-k) = -((n : Int) * k) := by rw [Int.mul_neg]
      constructor
      · intro h
        have : (n : Int) ≤ (i - j - 1) / (-k) := by omega
        have := key.mp this
        omega
      · intro h
        have : (n : Int) * (-k) ≤ i - j - 1 := by omega
        have := key.mpr this
        omega
    · simp only [hlt, if_false]
      constructor
      · intro h; omega
      · intro h
        have : (n : Int) * k ≤ 0 := Int.mul_nonpos_of_nonneg_of_nonpos (by omega) (by omega)
        omega
  · have hpos : 0 < k := by omega
    simp only [hneg, if_false, hpos, decide_true, Bool.true_and, decide_false, Bool.false_and, Bool.or_false,
      decide_eq_true_eq]
    by_cases hlt : i < j
    · simp only [hlt, if_true]
      have hq0 : 0 ≤ (j - i - 1) / k := Int.ediv_nonneg (by omega) (by omega)
      have key : (n : Int) ≤ (j - i - 1) / k ↔ (n : Int) * k ≤ j - i - 1 := Int.le_ediv_iff_mul_le hpos
      constructor
      · intro h
        have : (n : Int) ≤ (j - i - 1) / k := by omega
        have := key.mp this
        omega
      · intro h
        have : (n : Int) * k ≤ j - i - 1 := by omega
        have := key.mpr this
        omega
    · simp only [hlt, if_false]
      constructor
      · intro h; omega
      · intro h
        have : 0 ≤ (n : Int) * k := Int.mul_nonneg (by omega) (by omega)
        omega

theorem arith_eq_map_range (s k : Int) (n : Nat) : arith s k n = (List.range n).map fun (m : Nat) => s + (m : Int) * k := by
  induction n generalizing s with
  | zero => rfl
  | succ m ih =>
    rw [arith, ih, List.range_succ_eq_map, List.map_cons, List.map_map]
    congr 1
    · simp
    · apply List.map_congr_left
      intro a _
      simp only [Function.comp, Nat.succ_eq_add_one]
      push_cast
      rw [Int.add_mul]; omega

theorem filter_range_of_lt (P : Nat → Bool) (c m : Nat) (hP : ∀ n, P n = true ↔ n < c) (hc : c ≤ m) :
    (List.range m).filter P = List.range c := by
  induction m with
  | zero => have : c = 0 := by omega
            subst this; rfl
  | succ m ih =>
    rw [List.range_succ, List.filter_append]
    by_cases hcm : c ≤ m
    · rw [ih hcm]
      have : P m = false := by
        cases h : P m with
        | false => rfl
        | true => have := (hP m).mp h; omega
      simp [this]
    · have hceq : c = m + 1 := by omega
      subst hceq
      have hall : (List.range m).filter P = List.range m := by
        apply List.filter_eq_self.mpr
        intro a ha
        exact (hP a).mpr (by have := List.mem_range.mp ha; omega)
      have : P m = true := (hP m).mpr (by omega)
      simp [hall, this, List.range_succ]

/-- at most `len` items are selected -/
theorem sliceCount_le (a b : Option Int) (k : Int) (hk : k ≠ 0) (len : Nat) :
    sliceCount (refBound len k a false) (refBound len k b true) k ≤ len := by
  apply Nat.le_of_not_lt
  intro h
  have hs := (sliceCount_spec _ _ k hk len).mp h
  have hi := MenpoModel.LazyList.sliceStart_range a len (decide (k < 0))
  have hj := MenpoModel.LazyList.sliceStop_range b len (decide (k < 0))
  rw [sliceStart_eq_ref a len k hk] at hi
  rw [sliceStop_eq_ref b len k hk] at hj
  unfold refSelected at hs
  by_cases hneg : k < 0
  · have hpos : ¬ (0 < k) := by omega
    simp only [hpos, decide_false, Bool.false_and, Bool.false_or, hneg, decide_true, Bool.true_and,
      decide_eq_true_eq] at hs
    simp only [hneg, decide_true, if_true] at hi hj
    have : (len : Int) * k ≤ (len : Int) * (-1) := Int.mul_le_mul_of_nonneg_left (by omega) (by omega)
    omega
  · have hpos : 0 < k := by omega
    simp only [hpos, decide_true, Bool.true_and, hneg, decide_false, Bool.false_and, Bool.or_false,
      decide_eq_true_eq] at hs
    simp only [hneg, decide_false, Bool.false_eq_true, if_false] at hi hj
    have : (len : Int) * 1 ≤ (len : Int) * k := Int.mul_le_mul_of_nonneg_left (by omega) (by omega)
    omega

/-- PROPERTY (slice arithmetic): the slice model every C19 theorem rests on (`PySlice_AdjustIndices` as transcribed in
Core/PyData.lean) selects, for EVERY start / stop / step — negative, out of range, `None` — and every length, exactly
the indices the Python language reference defines, in the same order, and fails exactly for step 0 -/
theorem sliceIndices_eq_ref (a b c : Option Int) (len : Nat) : sliceIndices a b c len = refSlice a b c len := by
  unfold sliceIndices refSlice
  simp only []
  by_cases hk : c.getD 1 = 0
  · simp [hk]
  · simp only [hk, if_false, Option.some.injEq]
    rw [sliceStart_eq_ref a len _ hk, sliceStop_eq_ref b len _ hk, arith_eq_map_range, List.map_map]
    rw [filter_range_of_lt (refSelected _ _ _) (sliceCount _ _ _) (len + 1)
      (fun n => (sliceCount_spec _ _ _ hk n).symm) (by have := sliceCount_le a b _ hk len; omega)]
    rfl

example : refSlice (some 9) (some 0) (some (-2)) 5 = some [4, 2] := by decide
example : refSlice (some (-100)) none (some 3) 7 = some [0, 3, 6] := by decide
example : refSlice none (some (-100)) (some (-3)) 7 = some [6, 3, 0] := by decide
example : refSlice (some 2) (some 2) none 5 = some [] := by decide
example : refSlice none none (some 0) 5 = none := by decide

end MenpoModel.PyData

namespace MenpoModel.LazyList
open MenpoModel.PyData

/-- PROPERTY: slicing a lazy list picks exactly the callables at the indices the language reference defines -/
theorem slice_resolve_ref (a b c : Option Int) (len : Nat) :
    (Sel.slice a b c).resolve len = match refSlice a b c len with
      | some r => .ok r
      | none => .error .value := by
  simp only [Sel.resolve, sliceIndices_eq_ref]
  cases refSlice a b c len <;> rfl

end MenpoModel.LazyList
