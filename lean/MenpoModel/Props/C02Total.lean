/-
C02 — total correctness on the heap.  The heap theorems of `Props/C02Base.lean` and `Props/C02Deep.lean` take the
success of the call as a hypothesis.  Here it is a conclusion:

  `inplace_total`   the in-place pass cannot fail on a laid-out tree, given fuel for its depth
  `copy_total`      on a finite object graph whose objects are of classes the method-resolution table lists, `copy`
                    (with fuel for the nesting depth) returns or raises AttributeError, never anything else
  `apply_succeeds`  hence `transform.apply(shape)` succeeds: `copy_specD` excludes the AttributeError on shapes
Core Lean only.
-/
import MenpoModel.Props.C02Deep
import MenpoModel.Core.C02Src

namespace MenpoModel.C02

/-! ### the in-place pass cannot fail on a laid-out tree (given fuel for its depth; `Shape.depth`: Core/C02Src.lean) -/

theorem inplaceGroups_total (f : Arr → Arr) (k : Nat) (base : Nat)
    (ih : ∀ (s : Shape) (h : Heap) (lo hi : Nat) (v : Val), base ≤ lo → RepInD base h s lo hi v → s.depth ≤ k →
      ∃ h', inplace expectedDispatch f k h v = .ok h') :
    ∀ (gs : Groups) (gvs : Slots) (lo hi : Nat) (h : Heap), base ≤ lo → RepGInD base h gs lo hi gvs → gs.depth ≤ k →
      ∃ h', inplaceGroups (inplace expectedDispatch f k) h gvs = .ok h'
  | .nil, gvs, lo, hi, h, _, r, _ => by
    unfold RepGInD at r
    obtain ⟨rfl, _⟩ := r
    exact ⟨h, by simp [inplaceGroups]⟩
  | .cons n g rest, gvs, lo, hi, h, hb, r, hd => by
    unfold RepGInD at r
    obtain ⟨v, t, m, rfl, h2, h3⟩ := r
    simp only [Groups.depth] at hd
    obtain ⟨h1, hr⟩ := ih g h lo m v hb h2 (by omega)
    obtain ⟨f1, _⟩ := inplace_specD f k base g h lo m v h1 hb h2 hr
    have hlo : lo < m := RepInD.le g lo m v h2
    have h3' : RepGInD base h1 rest m hi t := RepGInD.frame f1 hb rest m hi t (.inl (Nat.le_refl _)) h3
    obtain ⟨h', hrest⟩ := inplaceGroups_total f k base ih rest t m hi h1 (by omega) h3' (by omega)
    exact ⟨h', by simp only [inplaceGroups, hr]; exact hrest⟩

theorem inplace_total (f : Arr → Arr) (base : Nat) : ∀ (k : Nat) (s : Shape) (h : Heap) (lo hi : Nat) (v : Val),
    base ≤ lo → RepInD base h s lo hi v → s.depth ≤ k → ∃ h', inplace expectedDispatch f k h v = .ok h' := by
  intro k
  induction k with
  | zero =>
    intro s h lo hi v _ _ hd
    cases s with
    | mk c x gs ex => simp [Shape.depth] at hd
  | succ k ih =>
    intro s h lo hi v hb r hd
    cases s with
    | mk c x gs ex =>
      have r0 := r
      rw [repInD_iff] at r
      obtain ⟨a, fs, p, m0, m, rfl, q1, q2, q3, q4, ha, hp, hpx, hx, hlab, hl⟩ := r
      simp only [Shape.depth] at hd
      -- the landmark pass
      have hlmP : ∃ h1, landmarksInplace expectedDispatch (inplace expectedDispatch f k) h fs = .ok h1 := by
        unfold landmarksInplace
        rcases hl with ⟨hl, rfl⟩ | ⟨l, ls, g, gvs, e1, e2, e3, e4, e5⟩
        · exact ⟨h, by simp only [hasLandmarks, hl]⟩
        · simp only [hasLandmarks, e1, e2, e3, e4]
          cases gvs with
          | nil => exact ⟨h, by simp⟩
          | cons gv gt =>
            simp only [List.isEmpty_cons, Bool.false_eq_true, if_false, supInplace_lm]
            exact inplaceGroups_total f k base ih gs (gv :: gt) m0 m h (by omega) e5 (by omega)
      obtain ⟨h1, hlm⟩ := hlmP
      obtain ⟨f1, _⟩ := landmarksInplace_specD f _ (inplace_specD f k) (by omega) hl hlm
      have ha1 : h1[a]? = some (.obj (.shape c) fs) := f1.keep_out ha (.inr q3)
      have hpx1 : h1[p]? = some (.arr x) := f1.keep hpx (fun _ _ hh => by cases hh)
      obtain ⟨h2, e2, _⟩ := selfInplace_spec f ha1 hp hpx1
      exact ⟨h2, by simp only [inplace, ha, supInplace_shape, hlm, selfStage, ha1, supSelf_shape]; exact e2⟩


/-! ### `copy` cannot fail except by AttributeError (given fuel for the depth of the value, classes of the table) -/

/-- every object in the digest is of a class the method-resolution table lists -/
def KnownToks (t : List Tok) : Prop := ∀ c, Tok.objO c ∈ t → c ≠ Cls.other

theorem digestSlots_sub {rec : Val → Option (List Tok)} : ∀ {fs : Slots} {ts : List Tok},
    digestSlots rec fs = some ts → ∀ p tp, p ∈ fs → rec p.2 = some tp → ∀ tok, tok ∈ tp → tok ∈ ts
  | [], _, _, p, _, hp, _, _, _ => by cases hp
  | (x, v) :: t, ts, e, p, tp, hp, hr, tok, ht => by
    obtain ⟨a, b, h1, h2, rfl⟩ := digestSlots_cons_some e
    rcases List.mem_cons.mp hp with rfl | hp
    · simp only at hr
      rw [h1] at hr; injection hr with hr; subst hr
      exact List.mem_cons_of_mem _ (List.mem_append.mpr (.inl ht))
    · exact List.mem_cons_of_mem _ (List.mem_append.mpr (.inr (digestSlots_sub h2 p tp hp hr tok ht)))

theorem copySlots_total (rec : CopyFn) (hx : RecExt rec) : ∀ (fs : Slots) (h : Heap),
    (∀ p, p ∈ fs → ∀ h', Ext h h' → (∃ r, rec h' p.2 = .ok r) ∨ rec h' p.2 = .error .attr) →
    ∃ r, copySlots rec h fs = .ok r
  | [], h, _ => ⟨(h, []), rfl⟩
  | (x, v) :: t, h, hh => by
    simp only [copySlots]
    rcases hh (x, v) (List.mem_cons_self ..) h (Ext.refl _) with ⟨⟨h1, v1⟩, hr⟩ | hr
    · simp only at hr
      rw [hr]; simp only
      have e1 : Ext h h1 := hx _ _ _ _ hr
      obtain ⟨⟨h2, t2⟩, hc⟩ := copySlots_total rec hx t h1
        (fun p hp h' e' => hh p (List.mem_cons_of_mem _ hp) h' (e1.trans e'))
      rw [hc]; exact ⟨_, rfl⟩
    · simp only at hr
      rw [hr]; simp only
      obtain ⟨⟨h2, t2⟩, hc⟩ := copySlots_total rec hx t h
        (fun p hp h' e' => hh p (List.mem_cons_of_mem _ hp) h' e')
      rw [hc]; exact ⟨_, rfl⟩

theorem copyValues_total (rec : CopyFn) (hx : RecExt rec) : ∀ (fs : Slots) (h : Heap),
    (∀ p, p ∈ fs → ∀ h', Ext h h' → (∃ r, rec h' p.2 = .ok r) ∨ rec h' p.2 = .error .attr) →
    (∃ r, copyValues rec h fs = .ok r) ∨ copyValues rec h fs = .error .attr
  | [], h, _ => .inl ⟨(h, []), rfl⟩
  | (x, v) :: t, h, hh => by
    simp only [copyValues]
    rcases hh (x, v) (List.mem_cons_self ..) h (Ext.refl _) with ⟨⟨h1, v1⟩, hr⟩ | hr
    · simp only at hr
      rw [hr]; simp only
      have e1 : Ext h h1 := hx _ _ _ _ hr
      rcases copyValues_total rec hx t h1
        (fun p hp h' e' => hh p (List.mem_cons_of_mem _ hp) h' (e1.trans e')) with ⟨⟨h2, t2⟩, hc⟩ | hc
      · rw [hc]; exact .inl ⟨_, rfl⟩
      · rw [hc]; exact .inr rfl
    · simp only at hr
      rw [hr]; exact .inr rfl

theorem supCopy_image : supCopy expectedDispatch .Image = some .Copyable := rfl

/-- with fuel for the depth of the value and classes the table lists, `copy` returns or raises AttributeError
(no `copy` attribute somewhere) — never anything else -/
theorem copy_total : ∀ (n j : Nat) (h : Heap) (v : Val) (t : List Tok), digest j h v = some t → j ≤ n →
    KnownToks t → (∃ r, copy expectedDispatch n h v = .ok r) ∨ copy expectedDispatch n h v = .error .attr := by
  intro n
  induction n with
  | zero =>
    intro j h v t hd hj _
    have : j = 0 := by omega
    subst this; cases hd
  | succ n ih =>
    intro j h v t hd hj hk
    have ihx : RecExt (copy expectedDispatch n) := copy_ext _ n
    cases v with
    | imm _ => right; simp [copy]
    | ref a =>
      cases j with
      | zero => cases hd
      | succ j =>
        simp only [digest] at hd
        simp only [copy]
        cases hc : h[a]? with
        | none => rw [hc] at hd; cases hd
        | some cell =>
          rw [hc] at hd
          cases cell with
          | arr x => exact .inl ⟨_, rfl⟩
          | dict fs => exact .inl ⟨_, rfl⟩
          | frozen fs => exact .inr rfl
          | obj c fs =>
            obtain ⟨ts, hts, rfl⟩ := wrapTok_some hd
            simp only
            have hsub : ∀ tok, tok ∈ ts → tok ∈ Tok.objO c :: (ts ++ [Tok.close]) := fun tok ht =>
              List.mem_cons_of_mem _ (List.mem_append.mpr (.inl ht))
            -- every attribute: copy returns or raises AttributeError, on every later heap
            have hslots : ∀ p, p ∈ fs → ∀ h', Ext h h' →
                (∃ r, copy expectedDispatch n h' p.2 = .ok r) ∨ copy expectedDispatch n h' p.2 = .error .attr := by
              intro p hp h' e'
              obtain ⟨tp, htp⟩ := digestSlots_some_mem hts p hp
              exact ih j h' p.2 tp (digest_ext e' htp).1 (by omega)
                (fun c' hc' => hk c' (hsub _ (digestSlots_sub hts p tp hp htp _ hc')))
            obtain ⟨⟨h1, fs1⟩, hcs⟩ := copySlots_total _ ihx fs h hslots
            have hcls : c ≠ .other := hk c (List.mem_cons_self ..)
            have hdeepen : ∀ x, (∃ r, deepen (copy expectedDispatch n) c x h1 fs1 = .ok r) ∨
                deepen (copy expectedDispatch n) c x h1 fs1 = .error .attr := by
              intro x
              unfold deepen
              cases hl : fs1.lookup x with
              | none => exact .inr rfl
              | some w =>
                cases w with
                | imm _ => exact .inr rfl
                | ref dd =>
                  simp only
                  cases hdd : h1[dd]? with
                  | none => exact .inr rfl
                  | some cell =>
                    cases cell with
                    | arr _ => exact .inr rfl
                    | frozen _ => exact .inr rfl
                    | obj _ _ => exact .inr rfl
                    | dict gs =>
                      simp only
                      obtain ⟨cs1, _⟩ := copySlots_deep_all _ ihx (copy_deep _ n) hcs hts
                      obtain ⟨td, htd⟩ := digestSlots_some_mem cs1 (x, .ref dd) (mem_of_lookup hl)
                      simp only at htd
                      have hvals : ∀ q, q ∈ gs → ∀ h', Ext h1 h' →
                          (∃ r, copy expectedDispatch n h' q.2 = .ok r) ∨
                            copy expectedDispatch n h' q.2 = .error .attr := by
                        intro q hq h' e'
                        cases j with
                        | zero => cases htd
                        | succ j' =>
                          have htd' := htd
                          simp only [digest, hdd] at htd'
                          obtain ⟨tds, htds, rfl⟩ := wrapTok_some htd'
                          obtain ⟨tq, htq⟩ := digestSlots_some_mem htds q hq
                          refine ih j' h' q.2 tq (digest_ext e' htq).1 (by omega) (fun c' hc' => hk c' (hsub _ ?_))
                          refine digestSlots_sub cs1 (x, .ref dd) _ (mem_of_lookup hl) htd _ ?_
                          exact List.mem_cons_of_mem _ (List.mem_append.mpr
                            (.inl (digestSlots_sub htds q tq hq htq _ hc')))
                      rcases copyValues_total _ ihx gs h1 hvals with ⟨⟨h2, gs2⟩, hcv⟩ | hcv
                      · rw [hcv]; exact .inl ⟨_, rfl⟩
                      · rw [hcv]; exact .inr rfl
            cases c with
            | other => exact absurd rfl hcls
            | Image => simp only [supCopy_image, hcs]; exact .inl ⟨_, rfl⟩
            | LandmarkManager => simp only [supCopy_lm, hcs]; exact hdeepen _
            | shape sc =>
              by_cases hl : sc = .LabelledPointUndirectedGraph
              · subst hl; simp only [supCopy_lab, hcs]; exact hdeepen _
              · simp only [supCopy_nonlab hl, hcs]; exact .inl ⟨_, rfl⟩


def knownToksB (t : List Tok) : Bool := t.all fun tok => tok != Tok.objO Cls.other

theorem knownToksB_sound {t : List Tok} (e : knownToksB t = true) : KnownToks t := by
  intro c hc hco
  subst hco
  have := List.all_eq_true.mp e _ hc
  simp at this

/-- TOTAL CORRECTNESS on the heap.  If `v` holds a shape `s` (deep), everything reachable from `v` is a finite
object graph of nesting depth ≤ `J` whose objects are of classes the method-resolution table lists (the digest
exists and is `KnownToks`), then for every fuel `k ≥ J, depth s` the call `transform.apply` SUCCEEDS — the only
way `copy` could fail on a shape is an AttributeError, which `copy_specD` excludes, and the in-place pass cannot fail
on the copy.  (All other heap theorems take the success as a hypothesis; here it is a conclusion.) -/
theorem apply_succeeds (f : Arr → Arr) (k J : Nat) (s : Shape) (h : Heap) (v : Val) (t : List Tok)
    (r : RepD h.length h s v) (hd : digest J h v = some t) (hk : KnownToks t) (hJ : J ≤ k) (hs : s.depth ≤ k) :
    ∃ h' v', applyH expectedDispatch f k h v = .ok (h', v') := by
  cases s with
  | mk c x gs ex =>
    have r0 := r
    unfold RepD at r0
    obtain ⟨a, fs, p, rfl, ha, _⟩ := r0
    simp only [applyH, ha, supTransform_shape]
    have hc := copy_specD k h.length _ h (.ref a) (Nat.le_refl _) r
    rcases copy_total k J h (.ref a) t hd hJ hk with ⟨⟨h1, v1⟩, hcp⟩ | hcp
    · rw [hcp] at hc ⊢
      simp only at hc ⊢
      obtain ⟨e1, r1⟩ := hc
      obtain ⟨h2, hin⟩ := inplace_total f h.length k _ h1 _ _ v1 (Nat.le_refl _) r1
        hs
      rw [hin]; exact ⟨h2, v1, rfl⟩
    · rw [hcp] at hc; exact absurd rfl hc

-- the hypotheses hold of the textured example: its whole object graph has a digest of known classes, depth 2
example : ((digest 12 exTexHeap exTexVal).map knownToksB) = some true := by decide +kernel
example : exTex.depth = 2 := by decide

end MenpoModel.C02
