/-
C16 — the overwrite guard and the exporter/importer agreement, as theorems about the SPECIFICATIONS that the translated
export plumbing is proved equal to (`Core/C16SrcIO.lean`; `GenProps/C16SrcIO.lean` proves `gen… = …Spec`, and
`GenProps/C16SrcGuard.lean` restates the theorems of this file for the translated functions themselves).

  validateAndGet_reads_only        the validation never changes the file system
  export_refused / export_refused_iff   an export to an existing path without overwrite raises OverwriteError and leaves
                                   EVERY file as it was — and OverwriteError is raised in no other situation
  export_frame                     whatever happens, only the file at the normalised target can change
  export_written                   a successful export leaves, at the target, what the callable chosen for the parsed
                                   extension wrote (complete, through a plain handle)
  export_failed_untouched          an export that fails BEFORE the open (guard, extension) changes nothing at all
  pathsOnly_* / pickle_* / landmark_* / video_*   the same for `_export_paths_only`, `export_pickle`,
                                   `export_landmark_file`, `export_video`
  pickle_written_agrees            what `export_pickle` writes is gzipped iff the parsed extension ends in `.gz`, and the
                                   importer dictionary chooses the gzip importer for that file name iff it was gzipped
  history_never_clobbers           over ANY sequence of exports of any kind, a file that exists and is never targeted
                                   with overwrite=True keeps its content, and every export aimed at it got OverwriteError
-/
import MenpoModel.Lemmas.C16SrcIO
import MenpoModel.Props.C16Ext

namespace MenpoModel.C16
open PyX

/-- the file an export to `fp` (a str or a Path) is about: `_norm_path(Path(fp))`, as the operating system resolves it -/
def targetKey (env : Env) (cwd : Path) (fp : Fp) : Path := (normPathSpec env cwd fp.toPath).key cwd

/-! ### `_validate_and_get_export_func` -/

theorem validateAndGet_reads_only (env : Env) (cwd : Path) (fp : Fp) (m : List (String × String)) (ext : OStr) (ow : Bool)
    (fs : FSb) : (validateAndGetSpec env cwd fp m ext ow fs).2 = fs := by
  unfold validateAndGetSpec
  simp only
  split
  · rfl
  · split
    · rfl
    · split <;> rfl

theorem validateAndGet_refused (env : Env) (cwd : Path) (fp : Fp) (m : List (String × String)) (ext : OStr) (fs : FSb)
    (h : (fs (targetKey env cwd fp)).isSome = true) :
    validateAndGetSpec env cwd fp m ext false fs = (.error .overwriteError, fs) := by
  unfold validateAndGetSpec targetKey at *
  simp [h]

theorem validateAndGet_overwriteError_iff (env : Env) (cwd : Path) (fp : Fp) (m : List (String × String)) (ext : OStr)
    (ow : Bool) (fs : FSb) :
    (validateAndGetSpec env cwd fp m ext ow fs).1 = .error .overwriteError ↔
      ((fs (targetKey env cwd fp)).isSome = true ∧ ow = false) := by
  unfold validateAndGetSpec targetKey
  simp only
  split
  · rename_i h; simp [h]
  · rename_i h
    split
    · rename_i e hp
      have := parseAndValidateSpec_ne_over _ _ _ _ hp
      simp [h, this]
    · split
      · rename_i x hc
        have : x ≠ .overwriteError := by
          unfold extToFuncSpec at hc
          split at hc <;> simp at hc
          subst hc; decide
        simp [h, this]
      · simp [h]

/-! ### `_export` for a str / Path -/

theorem callExporter_frame (c : Option String) (obj : ExObj) (t : Path) (n : Option (List Char)) (g : Bool) (e : OStr)
    (kw : Kw) (fs : FSb) (q : Path) (hq : q ≠ t) :
    (callExporter c obj (.handle ⟨some t, n, g⟩) e kw fs).2 q = fs q := by
  unfold callExporter
  cases c <;> simp [FSb.write, hq]

theorem callExporter_ne_over (c : Option String) (obj : ExObj) (h : Fp) (e : OStr) (kw : Kw) (fs : FSb) :
    (callExporter c obj h e kw fs).1 ≠ .error .overwriteError := by
  unfold callExporter
  split
  · simp only; split <;> simp
  · simp

/-- PROPERTY (guard, one export through `_export`).  Exporting to a str / Path whose normalised target exists, without
`overwrite`, raises OverwriteError and the WHOLE file system is as before — whatever the object, the exporter
dictionary, the explicit extension, the keyword arguments. -/
theorem export_refused (env : Env) (cwd : Path) (obj : ExObj) (fp : Fp) (m : List (String × String)) (ext : OStr)
    (kw : Option Kw) (fs : FSb) (hp : fp.isStrOrPath = true) (h : (fs (targetKey env cwd fp)).isSome = true) :
    exportSpec env cwd obj fp m ext false kw fs = (.error .overwriteError, fs) := by
  unfold exportSpec
  simp [hp, validateAndGet_refused env cwd fp m ext fs h]

/-- … and OverwriteError means exactly that -/
theorem export_refused_iff (env : Env) (cwd : Path) (obj : ExObj) (fp : Fp) (m : List (String × String)) (ext : OStr)
    (ow : Bool) (kw : Option Kw) (fs : FSb) (hp : fp.isStrOrPath = true) :
    (exportSpec env cwd obj fp m ext ow kw fs).1 = .error .overwriteError ↔
      ((fs (targetKey env cwd fp)).isSome = true ∧ ow = false) := by
  rw [← validateAndGet_overwriteError_iff env cwd fp m ext ow fs]
  unfold exportSpec
  simp only [hp, ↓reduceIte]
  have hro := validateAndGet_reads_only env cwd fp m ext ow fs
  rcases hv : validateAndGetSpec env cwd fp m ext ow fs with ⟨x | r, fs'⟩
  · simp
  · simp only [fpOpenWb]
    constructor
    · intro h; exact absurd h (callExporter_ne_over _ _ _ _ _ _)
    · intro h; simp at h

/-- PROPERTY (frame).  Whatever an export through `_export` to a str / Path does, no file other than its normalised
target changes. -/
theorem export_frame (env : Env) (cwd : Path) (obj : ExObj) (fp : Fp) (m : List (String × String)) (ext : OStr)
    (ow : Bool) (kw : Option Kw) (fs : FSb) (hp : fp.isStrOrPath = true) (q : Path) (hq : q ≠ targetKey env cwd fp) :
    (exportSpec env cwd obj fp m ext ow kw fs).2 q = fs q := by
  unfold exportSpec
  simp only [hp, ↓reduceIte]
  have hro := validateAndGet_reads_only env cwd fp m ext ow fs
  rcases hv : validateAndGetSpec env cwd fp m ext ow fs with ⟨x | r, fs'⟩
  · rw [hv] at hro; simp only at hro ⊢; rw [hro]
  · rw [hv] at hro
    simp only at hro
    subst hro
    simp only [fpOpenWb]
    unfold targetKey at hq
    rw [callExporter_frame _ _ _ _ _ _ _ _ _ hq]
    simp [FSb.write, hq]

/-- an export that does not get as far as opening the file (refused, unknown or mismatching extension) changes nothing -/
theorem export_failed_untouched (env : Env) (cwd : Path) (obj : ExObj) (fp : Fp) (m : List (String × String)) (ext : OStr)
    (ow : Bool) (kw : Option Kw) (fs : FSb) (hp : fp.isStrOrPath = true) (x : Exc)
    (hv : (validateAndGetSpec env cwd fp m ext ow fs).1 = .error x) :
    exportSpec env cwd obj fp m ext ow kw fs = (.error x, fs) := by
  unfold exportSpec
  simp only [hp, ↓reduceIte]
  have hro := validateAndGet_reads_only env cwd fp m ext ow fs
  rcases hv' : validateAndGetSpec env cwd fp m ext ow fs with ⟨y | r, fs'⟩
  · rw [hv'] at hv hro
    simp only [Except.error.injEq] at hv hro ⊢
    rw [hv, hro]
  · rw [hv'] at hv; simp at hv

/-- PROPERTY (what is written).  An accepted export leaves at the normalised target what the callable that the
dictionary holds for the PARSED extension wrote: this object, that extension, not gzipped, complete iff the callable
finished. -/
theorem export_written (env : Env) (cwd : Path) (obj : ExObj) (fp : Fp) (m : List (String × String)) (ext : OStr)
    (ow : Bool) (kw : Option Kw) (fs : FSb) (hp : fp.isStrOrPath = true) (c : String) (e : OStr)
    (hv : (validateAndGetSpec env cwd fp m ext ow fs).1 = .ok (some c, e)) :
    (exportSpec env cwd obj fp m ext ow kw fs).2 (targetKey env cwd fp) =
        some ⟨obj.content, e, c, false, kw.getD [], obj.exportable⟩ ∧
    (exportSpec env cwd obj fp m ext ow kw fs).1 = if obj.exportable then .ok () else .error .exporterError := by
  unfold exportSpec
  simp only [hp, ↓reduceIte]
  have hro := validateAndGet_reads_only env cwd fp m ext ow fs
  rcases hv' : validateAndGetSpec env cwd fp m ext ow fs with ⟨y | r, fs'⟩
  · rw [hv'] at hv; simp at hv
  · rw [hv'] at hv hro
    simp only [Except.ok.injEq] at hv hro
    subst hv
    simp [fpOpenWb, callExporter, FSb.write, targetKey]

/-! ### `_export_paths_only` (video) -/

theorem pathsOnly_refused (env : Env) (cwd : Path) (obj : ExObj) (fp : Fp) (m : List (String × String)) (ext : OStr)
    (kw : Option Kw) (fs : FSb) (h : (fs (targetKey env cwd fp)).isSome = true) :
    exportPathsOnlySpec env cwd obj fp m ext false kw fs = (.error .overwriteError, fs) := by
  unfold exportPathsOnlySpec
  simp [validateAndGet_refused env cwd fp m ext fs h]

/-- the video exporter is handed exactly the path that was checked: nothing else can change -/
theorem pathsOnly_frame (env : Env) (cwd : Path) (obj : ExObj) (fp : Fp) (m : List (String × String)) (ext : OStr)
    (ow : Bool) (kw : Option Kw) (fs : FSb) (q : Path) (hq : q ≠ targetKey env cwd fp) :
    (exportPathsOnlySpec env cwd obj fp m ext ow kw fs).2 q = fs q := by
  unfold exportPathsOnlySpec
  have hro := validateAndGet_reads_only env cwd fp m ext ow fs
  rcases hv : validateAndGetSpec env cwd fp m ext ow fs with ⟨x | r, fs'⟩
  · rw [hv] at hro; simp only at hro ⊢; rw [hro]
  · rw [hv] at hro
    simp only at hro
    subst hro
    unfold targetKey at hq
    unfold callExporterAt
    obtain ⟨c, e⟩ := r
    cases c <;> simp [FSb.write, hq]

/-! ### `export_pickle` -/

theorem pickle_refused (env : Env) (cwd : Path) (m : List (String × String)) (obj : ExObj) (fp : Fp) (protocol : Nat)
    (fs : FSb) (hp : fp.isStrOrPath = true) (h : (fs (targetKey env cwd fp)).isSome = true) :
    exportPickleSpec env cwd m obj fp false protocol fs = (.error .overwriteError, fs) := by
  unfold exportPickleSpec validateFilepathSpec
  unfold targetKey at h
  simp [hp, h]

theorem extToFuncSpec_error (e : OStr) (m : List (String × String)) (x : Exc) (h : extToFuncSpec e m = .error x) :
    x = .valueError := by
  unfold extToFuncSpec at h
  split at h <;> simp at h
  exact h.symm

theorem getName_error (fp : Fp) (x : Exc) (h : Fp.getName fp = .error x) : x = .attributeError := by
  cases fp with
  | str s => simp [Fp.getName] at h; exact h.symm
  | path s => simp [Fp.getName] at h
  | handle hd =>
    simp only [Fp.getName] at h
    split at h <;> simp at h
    exact h.symm

theorem exportHandle_ne_over (env : Env) (cwd : Path) (obj : ExObj) (fp : Fp) (m : List (String × String)) (ext : OStr)
    (kw : Kw) (fs : FSb) : (exportHandleSpec env cwd obj fp m ext true kw fs).1 ≠ .error .overwriteError := by
  unfold exportHandleSpec
  cases ext with
  | none => simp
  | some u =>
    simp only
    cases hn : normalizeExt (some u) with
    | error x => simpa using normalizeExt_ne_over _ _ hn
    | ok e =>
      simp only
      cases hname : Fp.getName fp with
      | ok n =>
        simp only
        have h1 := validateAndGet_overwriteError_iff env cwd n.toPath m e true fs
        rcases hv : validateAndGetSpec env cwd n.toPath m e true fs with ⟨x | r, fs'⟩
        · simp only
          intro h
          rw [hv] at h1
          simp only at h1
          have hx : x = Exc.overwriteError := by simpa using h
          subst hx
          simpa using h1.1 rfl
        · exact callExporter_ne_over _ _ _ _ _ _
      | error x =>
        simp only
        have := getName_error _ _ hname
        subst this
        simp only [↓reduceIte]
        cases hc : extToFuncSpec e m with
        | ok c => exact callExporter_ne_over _ _ _ _ _ _
        | error y => have := extToFuncSpec_error _ _ _ hc; subst this; simp

/-- writing through a file object changes at most the file behind it -/
theorem exportHandle_frame (env : Env) (cwd : Path) (obj : ExObj) (t : Path) (n : Option (List Char)) (g : Bool)
    (m : List (String × String)) (ext : OStr) (ow : Bool) (kw : Kw) (fs : FSb) (q : Path) (hq : q ≠ t) :
    (exportHandleSpec env cwd obj (.handle ⟨some t, n, g⟩) m ext ow kw fs).2 q = fs q := by
  unfold exportHandleSpec
  cases ext with
  | none => rfl
  | some u =>
    simp only
    cases hn : normalizeExt (some u) with
    | error x => rfl
    | ok e =>
      simp only
      cases hname : Fp.getName (.handle ⟨some t, n, g⟩) with
      | ok nm =>
        simp only
        have hro := validateAndGet_reads_only env cwd nm.toPath m e ow fs
        rcases hv : validateAndGetSpec env cwd nm.toPath m e ow fs with ⟨x | r, fs'⟩
        · rw [hv] at hro; simp only at hro ⊢; rw [hro]
        · rw [hv] at hro
          simp only at hro ⊢
          subst hro
          exact callExporter_frame _ _ _ _ _ _ _ _ _ hq
      | error x =>
        simp only
        split
        · cases hc : extToFuncSpec e m with
          | ok c => exact callExporter_frame _ _ _ _ _ _ _ _ _ hq
          | error y => rfl
        · rfl

/-- PROPERTY (guard, `export_pickle`).  `export_pickle` to a str / Path raises OverwriteError exactly when the
normalised target exists and `overwrite` is off — it checks the guard before it even looks at the extension. -/
theorem pickle_refused_iff (env : Env) (cwd : Path) (m : List (String × String)) (obj : ExObj) (fp : Fp) (ow : Bool)
    (protocol : Nat) (fs : FSb) (hp : fp.isStrOrPath = true) :
    (exportPickleSpec env cwd m obj fp ow protocol fs).1 = .error .overwriteError ↔
      ((fs (targetKey env cwd fp)).isSome = true ∧ ow = false) := by
  unfold exportPickleSpec validateFilepathSpec targetKey
  simp only [hp, Bool.true_eq_false, ↓reduceIte]
  by_cases hg : (fs ((normPathSpec env cwd fp.toPath).key cwd)).isSome = true ∧ ow = false
  · simp [hg]
  · simp only [hg, ↓reduceIte, iff_false]
    split
    · rename_i x hx
      have := parseAndValidateSpec_ne_over _ _ _ _ hx
      simpa using this
    · simp only [openWith]
      unfold exportSpec
      simp only [Fp.isStrOrPath, Fp.isStr, Fp.isPath, Bool.or_self, Bool.false_eq_true, ↓reduceIte]
      exact exportHandle_ne_over _ _ _ _ _ _ _ _

/-- PROPERTY (frame, `export_pickle`): only the normalised target can change -/
theorem pickle_frame (env : Env) (cwd : Path) (m : List (String × String)) (obj : ExObj) (fp : Fp) (ow : Bool)
    (protocol : Nat) (fs : FSb) (hp : fp.isStrOrPath = true) (q : Path) (hq : q ≠ targetKey env cwd fp) :
    (exportPickleSpec env cwd m obj fp ow protocol fs).2 q = fs q := by
  unfold exportPickleSpec validateFilepathSpec
  simp only [hp, Bool.true_eq_false, ↓reduceIte]
  by_cases hg : (fs ((normPathSpec env cwd fp.toPath).key cwd)).isSome = true ∧ ow = false
  · simp [hg]
  · simp only [hg, ↓reduceIte]
    split
    · rfl
    · simp only [openWith]
      unfold exportSpec
      simp only [Fp.isStrOrPath, Fp.isStr, Fp.isPath, Bool.or_self, Bool.false_eq_true, ↓reduceIte]
      unfold targetKey at hq
      rw [exportHandle_frame _ _ _ _ _ _ _ _ _ _ _ _ hq]
      simp [FSb.write, hq]

/-! ### `export_landmark_file`, `export_image`, `export_video` -/

/-- the front check of `export_landmark_file` happens before anything touches the file system, and a dictionary /
LandmarkManager only ever reaches `_export` when the explicit extension (if any) is `.ljson` and the path's own
suffix is `.ljson` -/
theorem landmark_multi_reaches_export (env : Env) (cwd : Path) (m : List (String × String)) (obj : ExObj) (fp : Fp)
    (ext : OStr) (ow : Bool) (fs : FSb) (hm : obj.hasNPoints = false) (hp : fp.isStrOrPath = true) :
    (∃ x, exportLandmarkFileSpecCoded env cwd m obj fp ext ow fs = (.error x, fs)) ∨
    (∃ e, normalizeExt ext = .ok e ∧ (e = none ∨ e = ostr ".ljson") ∧ fp.toPath.suffix = ostr ".ljson" ∧
      exportLandmarkFileSpecCoded env cwd m obj fp ext ow fs = exportSpec env cwd obj fp m e ow none fs) := by
  unfold exportLandmarkFileSpecCoded
  cases hn : normalizeExt ext with
  | error x => exact Or.inl ⟨x, rfl⟩
  | ok e =>
    simp only [hm, hp, true_and]
    split
    · exact Or.inl ⟨.valueError, rfl⟩
    · rename_i hc
      right
      simp only [not_or, not_and, ne_eq, Decidable.not_not] at hc
      refine ⟨e, rfl, ?_, hc.2, rfl⟩
      cases e with
      | none => exact Or.inl rfl
      | some u => exact Or.inr (hc.1 rfl)

theorem landmark_refused (env : Env) (cwd : Path) (m : List (String × String)) (obj : ExObj) (fp : Fp) (ext : OStr)
    (fs : FSb) (hp : fp.isStrOrPath = true) :
    (exportLandmarkFileSpecCoded env cwd m obj fp ext false fs).2 (targetKey env cwd fp) = fs (targetKey env cwd fp) ∨
      (fs (targetKey env cwd fp)).isSome = false := by
  by_cases h : (fs (targetKey env cwd fp)).isSome = true
  · left
    unfold exportLandmarkFileSpecCoded
    split
    · rfl
    · split
      · rfl
      · rw [export_refused env cwd obj fp m _ none fs hp h]
  · right; simpa using h

/-- PROPERTY (guard, `export_landmark_file`): an existing target without `overwrite` is never changed, and nothing else is -/
theorem landmark_guard (env : Env) (cwd : Path) (m : List (String × String)) (obj : ExObj) (fp : Fp) (ext : OStr)
    (fs : FSb) (hp : fp.isStrOrPath = true) (h : (fs (targetKey env cwd fp)).isSome = true) :
    (exportLandmarkFileSpecCoded env cwd m obj fp ext false fs).2 = fs ∧
      ∃ x, (exportLandmarkFileSpecCoded env cwd m obj fp ext false fs).1 = .error x := by
  unfold exportLandmarkFileSpecCoded
  split
  · exact ⟨rfl, _, rfl⟩
  · split
    · exact ⟨rfl, _, rfl⟩
    · rw [export_refused env cwd obj fp m _ none fs hp h]
      exact ⟨rfl, _, rfl⟩

/-- PROPERTY (guard, `export_video`): refusal leaves everything as it was; in any case only the target can change -/
theorem video_refused (env : Env) (cwd : Path) (m : List (String × String)) (obj : ExObj) (fp : Fp) (fps : Nat)
    (kwargs : Kw) (fs : FSb) (hp : fp.isStrOrPath = true) (h : (fs (targetKey env cwd fp)).isSome = true) :
    exportVideoSpec env cwd m obj fp false fps kwargs fs = (.error .overwriteError, fs) := by
  unfold exportVideoSpec
  have : enforcePathsSpec fp = .ok fp := by
    cases fp <;> simp_all [enforcePathsSpec, Fp.isStrOrPath, Fp.isStr, Fp.isPath]
  simp only [this]
  exact pathsOnly_refused env cwd obj fp m none _ fs h

theorem video_frame (env : Env) (cwd : Path) (m : List (String × String)) (obj : ExObj) (fp : Fp) (ow : Bool) (fps : Nat)
    (kwargs : Kw) (fs : FSb) (hp : fp.isStrOrPath = true) (q : Path) (hq : q ≠ targetKey env cwd fp) :
    (exportVideoSpec env cwd m obj fp ow fps kwargs fs).2 q = fs q := by
  unfold exportVideoSpec
  have : enforcePathsSpec fp = .ok fp := by
    cases fp <;> simp_all [enforcePathsSpec, Fp.isStrOrPath, Fp.isStr, Fp.isPath]
  simp only [this]
  exact pathsOnly_frame env cwd obj fp m none ow _ fs q hq

/-! ### what `export_pickle` writes and who reads it -/

/-- every key of the dictionary is what `_normalize_extension` returns for it (lower case, leading period) -/
def KeysNormal (m : List (String × String)) : Prop := ∀ x ∈ m, normalizeExt (some x.1.toList) = .ok (some x.1.toList)

def keysNormalB (m : List (String × String)) : Bool :=
  m.all fun x => match normalizeExt (some x.1.toList) with
    | .ok (some t) => t == x.1.toList
    | _ => false

theorem keysNormal_of_B (m : List (String × String)) (h : keysNormalB m = true) : KeysNormal m := by
  intro x hx
  unfold keysNormalB at h
  rw [List.all_eq_true] at h
  have := h x hx
  split at this
  · rename_i t ht; rw [ht]; simp at this; rw [this]
  · simp at this

theorem keysNormal_tables : ∀ k : Kind, KeysNormal (exporterTable k) := by
  intro k; apply keysNormal_of_B; cases k <;> decide +kernel

theorem parseAndValidate_none_ok (x : Fp) (m : List (String × String)) (e : OStr)
    (h : parseAndValidateSpec x none m = .ok e) : ∃ u, e = some u ∧ parseExt (mapKeys m) x.fileName = some u := by
  unfold parseAndValidateSpec at h
  split at h
  · simp at h
  · rename_i u hu
    simp only [Except.ok.injEq] at h
    exact ⟨u, h.symm, hu⟩

theorem mapGet_of_mem_keys (m : List (String × String)) (u : List Char) (h : u ∈ mapKeys m) :
    ∃ c, mapGet m (some u) = some c := by
  have := mapGet_some_isSome m u
  rw [List.contains_iff_mem.2 h] at this
  exact Option.isSome_iff_exists.1 this

/-- PROPERTY (pickle: what is written).  When `export_pickle` to a str / Path is accepted (guard passes, the name is
a pickle name) and normalising the normalised path again does not change the file name, the file at the target holds
this object, written by the callable of the parsed extension `e`, THROUGH GZIP IFF `e` ENDS IN `.gz`. -/
theorem pickle_written (env : Env) (cwd : Path) (m : List (String × String)) (obj : ExObj) (fp : Fp) (ow : Bool)
    (protocol : Nat) (fs : FSb) (hp : fp.isStrOrPath = true) (hm : KeysNormal m)
    (hg : ¬((fs (targetKey env cwd fp)).isSome = true ∧ ow = false)) (e : OStr)
    (he : parseAndValidateSpec (normPathSpec env cwd fp.toPath) none m = .ok e)
    (hstable : (normPathSpec env cwd (Fp.path (normPathSpec env cwd fp.toPath).toStr)).fileName =
      (normPathSpec env cwd fp.toPath).fileName) :
    ∃ c, mapGet m e = some c ∧
      (exportPickleSpec env cwd m obj fp ow protocol fs).2 (targetKey env cwd fp) =
        some ⟨obj.content, e, c, strEndsGz e, [("protocol", protocol)], obj.exportable⟩ := by
  obtain ⟨u, rfl, hu⟩ := parseAndValidate_none_ok _ _ _ he
  have hmem : u ∈ mapKeys m := by
    have := parseExt_mem _ _ _ hu
    exact this
  obtain ⟨c, hc⟩ := mapGet_of_mem_keys m u hmem
  have hnorm : normalizeExt (some u) = .ok (some u) := by
    unfold mapKeys at hmem
    simp only [List.mem_map] at hmem
    obtain ⟨x, hx, rfl⟩ := hmem
    exact hm x hx
  refine ⟨c, hc, ?_⟩
  unfold exportPickleSpec validateFilepathSpec
  unfold targetKey at hg ⊢
  simp only [hp, Bool.true_eq_false, ↓reduceIte, hg, he, openWith]
  unfold exportSpec
  simp only [Fp.isStrOrPath, Fp.isStr, Fp.isPath, Bool.or_self, Bool.false_eq_true, ↓reduceIte]
  unfold exportHandleSpec
  simp only [hnorm, Fp.getName_handle, Fp.toPath_str]
  unfold validateAndGetSpec
  simp only [Fp.toPath_path, Bool.true_eq_false, and_false, ↓reduceIte]
  have hp2 : parseAndValidateSpec (normPathSpec env cwd (Fp.path (normPathSpec env cwd fp.toPath).toStr)) (some u) m =
      .ok (some u) := by
    unfold parseAndValidateSpec
    rw [hstable, hu]
    simp [hnorm]
  simp only [hp2, extToFuncSpec, hc, callExporter, Option.getD_some, FSb.write, ↓reduceIte]
  cases strEndsGz (some u) <;> rfl

/-- PROPERTY (pickle: exporter and importer agree, for the translated pair).  Whatever extension
`_parse_and_validate_extension` parses from the normalised path for the exporter dictionary, `importer_for_filepath`
finds, for the SAME path and an importer dictionary that passes `TablesOK`, an importer that gunzips iff that
extension ends in `.gz` — i.e. iff `export_pickle` gzipped (`pickle_written`). -/
theorem pickle_reader_agrees (ex im : List (String × String)) (hok : TablesOK ex im true = true) (p : Fp) (e : OStr)
    (he : parseAndValidateSpec p none ex = .ok e) :
    ∃ r, importerForSpec p im = .ok (some r) ∧ (r == "pickle_gzip_importer") = strEndsGz e := by
  obtain ⟨u, rfl, hu⟩ := parseAndValidate_none_ok _ _ _ he
  have hd : exportDecisionT ex true p.fileName = some (u, endsGz u) := by
    unfold exportDecisionT
    unfold mapKeys at hu
    simp [hu]
  obtain ⟨h1, x, hx, i, hi, hxe, hix, hfor, hrd⟩ := decisions_agree_of_tables ex im true hok p.fileName _ hd
  refine ⟨i.2, ?_, ?_⟩
  · unfold importerForSpec
    rw [hfor]
  · unfold importDecisionT at h1
    rw [hfor] at h1
    simpa [strEndsGz] using h1

/-- the same for any exporter kind: the importer parses the extension the exporter parsed -/
theorem export_reader_agrees (ex im : List (String × String)) (b : Bool) (hok : TablesOK ex im b = true) (p : Fp)
    (e : OStr) (he : parseAndValidateSpec p none ex = .ok e) :
    ∃ x ∈ ex, ∃ r, e = some x.1.toList ∧ importerForSpec p im = .ok (some r) ∧ (readerOf x.2).contains r = true := by
  obtain ⟨u, rfl, hu⟩ := parseAndValidate_none_ok _ _ _ he
  have hd : exportDecisionT ex b p.fileName = some (u, b && endsGz u) := by
    unfold exportDecisionT
    unfold mapKeys at hu
    simp [hu]
  obtain ⟨h1, x, hx, i, hi, hxe, hix, hfor, hrd⟩ := decisions_agree_of_tables ex im b hok p.fileName _ hd
  refine ⟨x, hx, i.2, by rw [hxe], ?_, hrd⟩
  unfold importerForSpec
  rw [hfor]

theorem landmark_frame (env : Env) (cwd : Path) (m : List (String × String)) (obj : ExObj) (fp : Fp) (ext : OStr)
    (ow : Bool) (fs : FSb) (hp : fp.isStrOrPath = true) (q : Path) (hq : q ≠ targetKey env cwd fp) :
    (exportLandmarkFileSpecCoded env cwd m obj fp ext ow fs).2 q = fs q := by
  unfold exportLandmarkFileSpecCoded
  split
  · rfl
  · split
    · rfl
    · exact export_frame env cwd obj fp m _ ow none fs hp q hq

/-! ### `export_landmark_file` with the guard first (the repair) and as coded -/

/-- PROPERTY (guard, repaired `export_landmark_file`).  With the guard first, an existing target without `overwrite`
is answered with OverwriteError — whatever the object (a shape, a dictionary, a LandmarkManager), the explicit extension
and the file name — and the whole file system is as before. -/
theorem landmark_guard_first (env : Env) (cwd : Path) (m : List (String × String)) (obj : ExObj) (fp : Fp) (ext : OStr)
    (fs : FSb) (hp : fp.isStrOrPath = true) (h : (fs (targetKey env cwd fp)).isSome = true) :
    exportLandmarkFileSpec env cwd m obj fp ext false fs = (.error .overwriteError, fs) := by
  unfold exportLandmarkFileSpec validateFilepathSpec
  unfold targetKey at h
  simp [hp, h]

/-- … whereas the code as it stood refuses a dictionary aimed at an existing `x.pts` with a plain ValueError (the
dictionary check ran before the guard): refutation by witness, for every file system -/
theorem landmark_coded_value_error (env : Env) (cwd : Path) (m : List (String × String)) (c : Nat) (fs : FSb) :
    exportLandmarkFileSpecCoded env cwd m ⟨c, false, true⟩ (.str "x.pts".toList) none false fs = (.error .valueError, fs) := by
  unfold exportLandmarkFileSpecCoded
  have hs : (Fp.str "x.pts".toList).toPath.suffix ≠ ostr ".ljson" := by decide
  simp only [normalizeExt, Fp.isStrOrPath, Fp.isStr, Bool.true_or, true_and]
  rw [if_pos (Or.inr hs)]

theorem landmarkV_guard (gf : Bool) (env : Env) (cwd : Path) (m : List (String × String)) (obj : ExObj) (fp : Fp)
    (ext : OStr) (fs : FSb) (hp : fp.isStrOrPath = true) (h : (fs (targetKey env cwd fp)).isSome = true) :
    (exportLandmarkFileSpecV gf env cwd m obj fp ext false fs).2 = fs ∧
      ∃ x, (exportLandmarkFileSpecV gf env cwd m obj fp ext false fs).1 = .error x := by
  cases gf with
  | false => exact landmark_guard env cwd m obj fp ext fs hp h
  | true =>
    simp only [exportLandmarkFileSpecV, ↓reduceIte]
    rw [landmark_guard_first env cwd m obj fp ext fs hp h]
    exact ⟨rfl, _, rfl⟩

theorem landmarkV_frame (gf : Bool) (env : Env) (cwd : Path) (m : List (String × String)) (obj : ExObj) (fp : Fp)
    (ext : OStr) (ow : Bool) (fs : FSb) (hp : fp.isStrOrPath = true) (q : Path) (hq : q ≠ targetKey env cwd fp) :
    (exportLandmarkFileSpecV gf env cwd m obj fp ext ow fs).2 q = fs q := by
  cases gf with
  | false => exact landmark_frame env cwd m obj fp ext ow fs hp q hq
  | true =>
    simp only [exportLandmarkFileSpecV, ↓reduceIte]
    unfold exportLandmarkFileSpec validateFilepathSpec
    simp only [hp, ↓reduceIte]
    split
    · rename_i x fs' hv
      split at hv <;> simp_all
    · rename_i p fs' hv
      have : fs' = fs := by split at hv <;> simp_all
      subst this
      exact landmark_frame env cwd m obj fp ext ow fs' hp q hq

/-! ### any history of exports through the public entry points -/

/-- one call of a public exporter with a str / Path -/
inductive XOp where
  | image (m : List (String × String)) (obj : ExObj) (fp : Fp) (ext : OStr) (ow : Bool)
  | landmark (m : List (String × String)) (obj : ExObj) (fp : Fp) (ext : OStr) (ow : Bool)
  | pickle (m : List (String × String)) (obj : ExObj) (fp : Fp) (ow : Bool) (protocol : Nat)
  | video (m : List (String × String)) (obj : ExObj) (fp : Fp) (ow : Bool) (fps : Nat) (kwargs : Kw)

def XOp.fp : XOp → Fp
  | .image _ _ fp _ _ => fp
  | .landmark _ _ fp _ _ => fp
  | .pickle _ _ fp _ _ => fp
  | .video _ _ fp _ _ _ => fp

def XOp.ow : XOp → Bool
  | .image _ _ _ _ ow => ow
  | .landmark _ _ _ _ ow => ow
  | .pickle _ _ _ ow _ => ow
  | .video _ _ _ ow _ _ => ow

def XOp.isLandmark : XOp → Bool
  | .landmark .. => true
  | _ => false

def XOp.run (gf : Bool) (env : Env) (cwd : Path) : XOp → IOx Unit
  | .image m obj fp ext ow => exportImageSpec env cwd m obj fp ext ow
  | .landmark m obj fp ext ow => exportLandmarkFileSpecV gf env cwd m obj fp ext ow
  | .pickle m obj fp ow protocol => exportPickleSpec env cwd m obj fp ow protocol
  | .video m obj fp ow fps kwargs => exportVideoSpec env cwd m obj fp ow fps kwargs

def runX (gf : Bool) (env : Env) (cwd : Path) : FSb → List XOp → List (Except Exc Unit) × FSb
  | fs, [] => ([], fs)
  | fs, op :: ops =>
    let r := op.run gf env cwd fs
    let rest := runX gf env cwd r.2 ops
    (r.1 :: rest.1, rest.2)

/-- one export aimed elsewhere, or aimed here without `overwrite`, keeps an existing file; in the second case it
answers with an error — OverwriteError, except that `export_landmark_file` may reject the call even earlier -/
theorem xop_keeps (gf : Bool) (env : Env) (cwd : Path) (op : XOp) (fs : FSb) (p : Path) (v : Blob) (hv : fs p = some v)
    (hp : op.fp.isStrOrPath = true) (hno : targetKey env cwd op.fp = p → op.ow = false) :
    (op.run gf env cwd fs).2 p = some v ∧
    (targetKey env cwd op.fp = p →
      (op.run gf env cwd fs).1 = .error .overwriteError ∨ (op.isLandmark = true ∧ ∃ e, (op.run gf env cwd fs).1 = .error e)) := by
  by_cases ht : targetKey env cwd op.fp = p
  · have how := hno ht
    have hex : (fs (targetKey env cwd op.fp)).isSome = true := by rw [ht, hv]; rfl
    cases op with
    | image m obj fp ext ow =>
      simp only [XOp.fp, XOp.ow] at hp how hex ht
      subst how
      simp only [XOp.run, exportImageSpec, export_refused env cwd obj fp m ext none fs hp hex]
      exact ⟨hv, fun _ => Or.inl trivial⟩
    | landmark m obj fp ext ow =>
      simp only [XOp.fp, XOp.ow] at hp how hex ht
      subst how
      obtain ⟨h1, e, h2⟩ := landmarkV_guard gf env cwd m obj fp ext fs hp hex
      simp only [XOp.run, h1]
      exact ⟨hv, fun _ => Or.inr ⟨rfl, e, h2⟩⟩
    | pickle m obj fp ow protocol =>
      simp only [XOp.fp, XOp.ow] at hp how hex ht
      subst how
      simp only [XOp.run, pickle_refused env cwd m obj fp protocol fs hp hex]
      exact ⟨hv, fun _ => Or.inl trivial⟩
    | video m obj fp ow fps kwargs =>
      simp only [XOp.fp, XOp.ow] at hp how hex ht
      subst how
      simp only [XOp.run, video_refused env cwd m obj fp fps kwargs fs hp hex]
      exact ⟨hv, fun _ => Or.inl trivial⟩
  · refine ⟨?_, fun h => absurd h ht⟩
    have hq : p ≠ targetKey env cwd op.fp := fun h => ht h.symm
    cases op with
    | image m obj fp ext ow =>
      simp only [XOp.fp] at hp hq
      simp only [XOp.run, exportImageSpec]
      rw [export_frame env cwd obj fp m ext ow none fs hp p hq]; exact hv
    | landmark m obj fp ext ow =>
      simp only [XOp.fp] at hp hq
      simp only [XOp.run]
      rw [landmarkV_frame gf env cwd m obj fp ext ow fs hp p hq]; exact hv
    | pickle m obj fp ow protocol =>
      simp only [XOp.fp] at hp hq
      simp only [XOp.run]
      rw [pickle_frame env cwd m obj fp ow protocol fs hp p hq]; exact hv
    | video m obj fp ow fps kwargs =>
      simp only [XOp.fp] at hp hq
      simp only [XOp.run]
      rw [video_frame env cwd m obj fp ow fps kwargs fs hp p hq]; exact hv

/-- PROPERTY (guard, every history, for the translated entry points).  Take ANY sequence of calls of export_image,
export_landmark_file, export_pickle, export_video with str / Path arguments of any spelling, any dictionaries, any
extensions, any objects.  A file that exists and is never targeted with `overwrite=True` holds the very same content at
the end, and every call that targeted it was answered with OverwriteError (export_landmark_file possibly with the
ValueError of its own check, which comes first). -/
theorem history_never_clobbers (gf : Bool) (env : Env) (cwd : Path) (p : Path) (v : Blob) :
    ∀ (ops : List XOp) (fs : FSb), fs p = some v →
      (∀ op ∈ ops, op.fp.isStrOrPath = true ∧ (targetKey env cwd op.fp = p → op.ow = false)) →
      (runX gf env cwd fs ops).2 p = some v ∧
      ∀ x ∈ ops.zip (runX gf env cwd fs ops).1, targetKey env cwd x.1.fp = p →
        x.2 = .error .overwriteError ∨ (x.1.isLandmark = true ∧ ∃ e, x.2 = .error e) := by
  intro ops
  induction ops with
  | nil => intro fs hv _; exact ⟨hv, by simp [runX]⟩
  | cons op t ih =>
    intro fs hv hall
    obtain ⟨hp, hno⟩ := hall op (by simp)
    obtain ⟨hk, hout⟩ := xop_keeps gf env cwd op fs p v hv hp hno
    obtain ⟨ih1, ih2⟩ := ih (op.run gf env cwd fs).2 hk (fun o ho => hall o (by simp [ho]))
    refine ⟨ih1, ?_⟩
    intro x hx ht
    simp only [runX, List.zip_cons_cons, List.mem_cons] at hx
    rcases hx with hx | hx
    · subst hx; exact hout ht
    · exact ih2 x hx ht

/-- a path that no call of the history targets is not touched -/
theorem history_frame (gf : Bool) (env : Env) (cwd : Path) (q : Path) :
    ∀ (ops : List XOp) (fs : FSb), (∀ op ∈ ops, op.fp.isStrOrPath = true ∧ targetKey env cwd op.fp ≠ q) →
      (runX gf env cwd fs ops).2 q = fs q := by
  intro ops
  induction ops with
  | nil => intro fs _; rfl
  | cons op t ih =>
    intro fs hall
    obtain ⟨hp, hne⟩ := hall op (by simp)
    have h1 : (op.run gf env cwd fs).2 q = fs q := by
      have hq : q ≠ targetKey env cwd op.fp := fun h => hne h.symm
      cases op with
      | image m obj fp ext ow => exact export_frame env cwd obj fp m ext ow none fs hp q hq
      | landmark m obj fp ext ow => exact landmarkV_frame gf env cwd m obj fp ext ow fs hp q hq
      | pickle m obj fp ow protocol => exact pickle_frame env cwd m obj fp ow protocol fs hp q hq
      | video m obj fp ow fps kwargs => exact video_frame env cwd m obj fp ow fps kwargs fs hp q hq
    simp only [runX]
    rw [ih _ (fun o ho => hall o (by simp [ho])), h1]

end MenpoModel.C16
