/-
C10 — PCA models satisfy the defining identities, also after trimming.

PROPERTY (properties.jsonl, C10): a PCA model built from any data set has orthonormal components,
positive eigenvalues in descending order that equal the sample variance of the data along each
component, and the sample mean as its mean; with all components kept every training sample is
reconstructed exactly, projecting an instance built from weights returns those weights,
reconstruction is an idempotent orthogonal projection, and the projected-out residual is orthogonal
to the model.  Changing the number of active components or trimming never changes the total
original variance, keeps kept-plus-discarded variance equal to it, keeps component and eigenvalue
counts consistent, and gives the same model as building with that many components in the first place.

Two halves.
(a) Linear algebra, every dimension, over `Matrix (Fin _) (Fin _) ℚ`: the code's own arithmetic
    (`Core/C10Linear.lean`) is definitions; LAPACK's `eigh` and `sqrt` enter as the contract
    `EigContract` / `w i ^ 2 * ((n - 1) * l i) = 1`.  The driver evaluates the *same* definitions on the
    factors the real code returns (certificate checking against the exact covariance).
(b) Bookkeeping (`Core/C10Book.lean`): invariants by induction over every operation list.

Helper lemmas: `Lemmas/C10Book.lean`, `Lemmas/C10Linear.lean`.  Theorems marked PROPERTY are the
obligations listed in `harness/c10.py`.
-/
import MenpoModel.Lemmas.C10Book
import MenpoModel.Lemmas.C10Linear
import MenpoModel.Lemmas.C10Float
import MenpoModel.Lemmas.C10Access
import MenpoModel.Lemmas.C10Object
import MenpoModel.Lemmas.C10Src
import Mathlib.Analysis.Real.Sqrt
import Mathlib.Tactic.FinCases
import Mathlib.Tactic.NormNum

namespace MenpoModel.C10
open Matrix St

variable {n d k k' : ℕ}

/-! ## (a) the defining identities

Stated for EVERY linearly ordered field `K` (audit finding F1): over `ℚ` alone the eigen contract would be satisfiable
only for data with a rational eigen-decomposition; the ideal output of `eigh` lives in `ℝ`, which is an instance
(`eig_contract_real_witness` below exhibits a data set whose contract has a real but no rational solution).  The
driver evaluates the same definitions at `K = ℚ` on the float factors the code returned (residuals of the contract). -/

section AnyField
variable {K : Type} [Field K] [LinearOrder K] [IsStrictOrderedRing K]


/-- PROPERTY (mean): the mean of a centred model is the sample mean (`n · m = Σ rows`), the centred
data sums to zero, and an uncentred model has mean zero. -/
theorem mean_clause (X : Matrix (Fin n) (Fin d) K) (hn : n ≠ 0) :
    (∀ j, (n : K) * pcaMean true X j = ∑ i, X i j) ∧
    (∀ j, ∑ i, centred X (pcaMean true X) i j = 0) ∧
    pcaMean false X = 0 :=
  ⟨mean_is_sample_mean X hn, centred_sum_zero X hn, rfl⟩

/-- PROPERTY (covariance path, `d < n`): `eigh` is applied to the symmetrised covariance; the
symmetrisation changes nothing, so under the eigen contract the rows are orthonormal, they are
eigen-rows of the sample covariance, and every eigenvalue *is* the sample variance
`(n-1)⁻¹ Σ ((x - m)·u)²` of the data along its component (hence non-negative). -/
theorem cov_path_identities {Xc : Matrix (Fin n) (Fin d) K} {U : Matrix (Fin k) (Fin d) K} {l : Fin k → K}
    (hn : 2 ≤ n) (h : EigContract (symmetrize (cov Xc)) U l) :
    U * Uᵀ = 1 ∧ U * cov Xc = diagonal l * U ∧ (∀ i, l i = sampleVariance Xc U i) ∧ (∀ i, 0 ≤ l i) := by
  rw [symmetrize_cov] at h
  refine ⟨h.orth, h.eig, variance_identity h, fun i => ?_⟩
  rw [variance_identity h i]
  exact sampleVariance_nonneg hn Xc U i

/-- PROPERTY (Gram path, `d ≥ n`): `eigh` is applied to the symmetrised `n × n` Gram matrix and the
components are `diag w · V · X` with `w = sqrt(1 / ((n-1) l))`; under the eigen contract on the Gram
matrix and the square-root contract the rescaled rows are orthonormal eigen-rows of the sample
covariance, and the eigenvalues are the sample variances along them. -/
theorem gram_path_identities {Xc : Matrix (Fin n) (Fin d) K} {V : Matrix (Fin k) (Fin n) K}
    {l w : Fin k → K} (hn : 2 ≤ n) (hV : V * Vᵀ = 1)
    (hG : V * symmetrize (gram Xc) = diagonal l * V)
    (hw : ∀ i, w i ^ 2 * (((n : K) - 1) * l i) = 1) :
    EigContract (cov Xc) (gramComponents w V Xc) l ∧
    (∀ i, l i = sampleVariance Xc (gramComponents w V Xc) i) := by
  rw [symmetrize_gram] at hG
  have h := gram_path_contract hn hV hG hw
  exact ⟨h, variance_identity h⟩

/-- PROPERTY (spectrum): what `eigenvalue_decomposition` keeps of any eigen-witness is in descending
order, strictly positive and above `eps · max|λ|`, is a sub-multiset of the witness, and drops nothing
that passes both tests. -/
theorem spectrum_desc_pos {α} (eps : Rat) (ev : List (Rat × α)) :
    (postprocess eps false ev).Pairwise (fun a b => b.1 ≤ a.1) ∧
    (∀ p ∈ postprocess eps false ev, 0 < p.1 ∧ maxAbs ((sortDesc ev).map Prod.fst) * eps < p.1) ∧
    (∃ l', l'.Perm ev ∧ (postprocess eps false ev).Sublist l') ∧
    (∀ p ∈ ev, 0 < p.1 → maxAbs ((sortDesc ev).map Prod.fst) * eps < p.1 →
      p ∈ postprocess eps false ev) := by
  obtain ⟨h1, h2, h3, h4⟩ := postprocess_spec eps ev
  exact ⟨h2, h3, ⟨_, sortDesc_perm ev, h1⟩, h4⟩

/-- PROPERTY (precision-matrix option of `eigenvalue_decomposition`): still descending and positive. -/
theorem spectrum_desc_pos_inverse {α} (eps : Rat) (ev : List (Rat × α)) :
    (postprocess eps true ev).Pairwise (fun a b => b.1 ≤ a.1) ∧
    (∀ p ∈ postprocess eps true ev, 0 < p.1) :=
  ⟨(postprocess_inverse_spec eps ev).1, (postprocess_inverse_spec eps ev).2.1⟩

/-- PROPERTY: projecting an instance built from weights returns those weights. -/
theorem project_instance_clause {U : Matrix (Fin k) (Fin d) K} (hU : U * Uᵀ = 1) (m : Fin d → K)
    (w : Fin k → K) : project U m (inst U m w) = w :=
  project_instance hU m w

/-- PROPERTY: reconstruction is idempotent. -/
theorem reconstruct_idempotent_clause {U : Matrix (Fin k) (Fin d) K} (hU : U * Uᵀ = 1) (m x : Fin d → K) :
    reconstruct U m (reconstruct U m x) = reconstruct U m x :=
  reconstruct_idempotent hU m x

/-- PROPERTY: reconstruction is an orthogonal projection about the mean: it is `x ↦ P (x - m) + m`
with `P` idempotent and symmetric, and `x = reconstruct x + project_out x`. -/
theorem reconstruct_is_orthogonal_projection {U : Matrix (Fin k) (Fin d) K} (hU : U * Uᵀ = 1)
    (m x : Fin d → K) :
    reconstruct U m x = projector U *ᵥ (x - m) + m ∧
    projector U * projector U = projector U ∧ (projector U)ᵀ = projector U ∧
    reconstruct U m x + projectOut U m x = x :=
  ⟨reconstruct_eq_projector U m x, projector_idempotent hU, projector_symm U,
    reconstruct_add_projectOut U m x⟩

/-- PROPERTY: the projected-out residual is orthogonal to every component. -/
theorem residual_orthogonal_clause {U : Matrix (Fin k) (Fin d) K} (hU : U * Uᵀ = 1) (m x : Fin d → K) :
    U *ᵥ projectOut U m x = 0 :=
  residual_orthogonal hU m x

/-- PROPERTY: with all components kept (no variance discarded: `tr C = Σ l`) every training sample
is reconstructed exactly. -/
theorem full_model_reconstructs_training_clause {Xc : Matrix (Fin n) (Fin d) K}
    {U : Matrix (Fin k) (Fin d) K} {l : Fin k → K} (hn : 2 ≤ n) (h : EigContract (cov Xc) U l)
    (htr : trace (cov Xc) = ∑ i, l i) (m : Fin d → K) (s : Fin n) :
    reconstruct U m (fun j => Xc s j + m j) = fun j => Xc s j + m j :=
  full_model_reconstructs_training hn h htr m s

/-- PROPERTY ("also after trimming"): the active / trimmed prefix of the components with the prefix
of the eigenvalues satisfies the same contract, so every identity above holds for it too. -/
theorem identities_after_trimming {Xc : Matrix (Fin n) (Fin d) K} {U : Matrix (Fin k) (Fin d) K}
    {l : Fin k → K} (h : EigContract (cov Xc) U l) (hk : k' ≤ k) (m x : Fin d → K) (w : Fin k' → K) :
    let U' := prefixRows U hk
    U' * U'ᵀ = 1 ∧ (∀ i, (l ∘ Fin.castLE hk) i = sampleVariance Xc U' i) ∧
    project U' m (inst U' m w) = w ∧
    reconstruct U' m (reconstruct U' m x) = reconstruct U' m x ∧
    U' *ᵥ projectOut U' m x = 0 := by
  have h' := contract_prefix h hk
  exact ⟨h'.orth, variance_identity h', project_instance h'.orth m w,
    reconstruct_idempotent h'.orth m x, residual_orthogonal h'.orth m x⟩

/-- satisfiability beyond `ℚ`: the data `[[1, 1], [-1, -1]]` has covariance `[[2, 2], [2, 2]]`; in any ordered field
with a square root `s` of 2 the unit row `(s/2, s/2)` with eigenvalue 4 satisfies the contract (and then every
conclusion above) — over `ℚ` no unit eigen-row for the eigenvalue 4 exists. -/
def wX : Matrix (Fin 2) (Fin 2) K := Matrix.of fun i _ => if i = 0 then 1 else -1

theorem eig_contract_sqrt_two_witness (s : K) (hs : s * s = 2) :
    EigContract (cov (wX : Matrix (Fin 2) (Fin 2) K)) (Matrix.of fun (_ : Fin 1) (_ : Fin 2) => s / 2) (fun _ => 4) := by
  have h4 : s / 2 * (s / 2) = 1 / 2 := by
    have : s / 2 * (s / 2) = (s * s) / 4 := by ring
    rw [this, hs]; norm_num
  constructor
  · ext i j
    fin_cases i; fin_cases j
    simp [Matrix.mul_apply, Fin.sum_univ_two, h4]
  · ext i j
    fin_cases i
    fin_cases j <;>
      simp [cov, wX, Matrix.mul_apply, Fin.sum_univ_two, Matrix.diagonal] <;> ring

end AnyField

/-- the real numbers are an instance: `Real.sqrt 2` -/
theorem eig_contract_real_witness :
    ∃ (U : Matrix (Fin 1) (Fin 2) ℝ) (l : Fin 1 → ℝ), EigContract (cov (wX : Matrix (Fin 2) (Fin 2) ℝ)) U l ∧
      U * Uᵀ = 1 ∧ ∀ i, l i = sampleVariance (wX : Matrix (Fin 2) (Fin 2) ℝ) U i :=
  have h := eig_contract_sqrt_two_witness (Real.sqrt 2) (Real.mul_self_sqrt (by norm_num))
  ⟨_, _, h, h.orth, variance_identity h⟩

/-- the forms the driver evaluates (intermediate results forced into arrays) are the definitions above -/
theorem driver_forms (U : Matrix (Fin k) (Fin d) ℚ) (m x : Fin d → ℚ) :
    inst U m (vofArr k (vtoArr (project U m x))) = reconstruct U m x ∧
    (x - m) - (vofArr k (vtoArr (project U m x))) ᵥ* U = projectOut U m x := by
  rw [vmaterialize_eq]; exact ⟨rfl, rfl⟩


/-! ## (c) object-backed models (`PCAModel`): the object-level operations are the vector-level ones -/

/-- (restatement of the object model `ObjModel`, kept for the driver's sake: one conjunct is `rfl`, the others unfold
the definitions through the round-trip law; the tie of `ObjModel` to the code is the regenerated call table
`GenProps.delegates_ok`.)  For every Vectorizable class satisfying the round-trip law, each
object-level operation of `PCAModel`, read back through `as_vector`, *is* the vector-level operation on
`as_vector` of the argument; results built by `template.from_vector` carry the template's non-vector
state, results built by the argument's `from_vector` carry the argument's. -/
theorem object_level_eq_vector_level {α ρ : Type} (M : ObjModel α d k) {rest : α → ρ}
    (h : Lawful M.ops rest) (o : α) (w : Fin k → ℚ) (sd : Fin k → ℚ) (i : Fin k) (b : Bool) (scale : ℚ) :
    M.ops.asVec M.mean = M.m ∧
    M.project o = project M.U M.m (M.ops.asVec o) ∧
    M.ops.asVec (M.inst w) = inst M.U M.m w ∧
    M.ops.asVec (M.reconstruct o) = reconstruct M.U M.m (M.ops.asVec o) ∧
    M.ops.asVec (M.projectOut o) = projectOut M.U M.m (M.ops.asVec o) ∧
    M.ops.asVec (M.component sd i b scale) = component M.U M.m sd i b scale ∧
    rest M.mean = rest M.template ∧ rest (M.inst w) = rest M.template ∧
    rest (M.component sd i b scale) = rest M.template ∧
    rest (M.reconstruct o) = rest o ∧ rest (M.projectOut o) = rest o :=
  ⟨M.asVec_mean h, rfl, M.asVec_inst h w, M.asVec_reconstruct h o, M.asVec_projectOut h o,
    M.asVec_component h sd i b scale, h.rest_from _ _, h.rest_from _ _, h.rest_from _ _, h.rest_from _ _,
    h.rest_from _ _⟩

/-- PROPERTY (object-backed models satisfy the identities): projecting an instance returns the weights,
reconstruction is idempotent *as an object*, equals `instance(project(·))` on the vector part, the residual
object is orthogonal to every component and `reconstruct + project_out` gives the argument back. -/
theorem object_level_identities {α ρ : Type} (M : ObjModel α d k) {rest : α → ρ} (h : Lawful M.ops rest)
    (hU : M.U * M.Uᵀ = 1) (o : α) (w : Fin k → ℚ) :
    M.project (M.inst w) = w ∧
    M.reconstruct (M.reconstruct o) = M.reconstruct o ∧
    M.ops.asVec (M.reconstruct o) = M.ops.asVec (M.inst (M.project o)) ∧
    M.U *ᵥ M.ops.asVec (M.projectOut o) = 0 ∧
    M.ops.asVec (M.reconstruct o) + M.ops.asVec (M.projectOut o) = M.ops.asVec o := by
  refine ⟨M.project_inst h hU w, M.reconstruct_idem h hU o, M.reconstruct_eq_inst_project h o, ?_, ?_⟩
  · rw [M.asVec_projectOut h]; exact residual_orthogonal hU _ _
  · rw [M.asVec_projectOut h, M.asVec_reconstruct h]; exact reconstruct_add_projectOut _ _ _

/-- PROPERTY (object-backed, all components kept): every training *object* is reconstructed exactly —
the same object, non-vector state included. -/
theorem object_training_reconstructed {α ρ : Type} (M : ObjModel α d k) {rest : α → ρ}
    (h : Lawful M.ops rest) {Xc : Matrix (Fin n) (Fin d) ℚ} {l : Fin k → ℚ} (hn : 2 ≤ n)
    (hc : EigContract (cov Xc) M.U l) (htr : trace (cov Xc) = ∑ i, l i) (s : Fin n) (o : α)
    (ho : M.ops.asVec o = fun j => Xc s j + M.m j) : M.reconstruct o = o := by
  unfold ObjModel.reconstruct
  rw [ho, full_model_reconstructs_training hn hc htr M.m s, ← ho, h.from_as]

/-- PROPERTY: the modelled classes — plain vectors, `PointCloud` (`ravel` / `reshape(-1, n_dims)`), `Image`
(`ravel` / `reshape((n_channels,) + shape)`) — satisfy the round-trip law, so the three theorems above
apply to them. -/
theorem concrete_templates_lawful (p dims c hh ww : ℕ) :
    Lawful (vecOps d) (fun _ => ()) ∧ Lawful (pcOps p dims) PC.tag ∧ Lawful (imgOps c hh ww) Img.tag :=
  ⟨vecOps_lawful d, pcOps_lawful p dims, imgOps_lawful c hh ww⟩

/-! ## (d) the other entry points of `LinearVectorModel` / `MeanLinearVectorModel` / `PCAVectorModel` -/

/-- PROPERTY: `LinearVectorModel` is the mean-free case, so its project / instance / reconstruct /
project_out satisfy the same identities. -/
theorem linear_model_clause {U : Matrix (Fin k) (Fin d) ℚ} (hU : U * Uᵀ = 1) (x : Fin d → ℚ) (w : Fin k → ℚ) :
    linProject U x = project U 0 x ∧ linInstance U w = inst U 0 w ∧
    linReconstruct U x = reconstruct U 0 x ∧ linProjectOut U x = projectOut U 0 x ∧
    linProject U (linInstance U w) = w ∧ linReconstruct U (linReconstruct U x) = linReconstruct U x ∧
    U *ᵥ linProjectOut U x = 0 := by
  refine ⟨linProject_eq U x, linInstance_eq U w, linReconstruct_eq U x, linProjectOut_eq U x, ?_, ?_, ?_⟩
  · rw [linProject_eq, linInstance_eq]; exact project_instance hU 0 w
  · rw [linReconstruct_eq, linReconstruct_eq]; exact reconstruct_idempotent hU 0 x
  · rw [linProjectOut_eq]; exact residual_orthogonal hU 0 x

/-- PROPERTY (weight lists): `PCAVectorModel.instance` accepts at most `n_active` weights and pads with
zeros (`LinearVectorModel.instance` needs exactly `n_components`); projecting the instance returns the
padded list.  With `normalized_weights=True` (square-root contract `sd i ^ 2 = l i` not even needed) the
weights come back multiplied by `sd`. -/
theorem instance_weights_clause {U : Matrix (Fin k) (Fin d) ℚ} (hU : U * Uᵀ = 1) (m : Fin d → ℚ) (w : List ℚ) :
    ((instPadded U m w).isSome ↔ w.length ≤ k) ∧
    (∀ v, instPadded U m w = some v → ∀ i : Fin k, project U m v i = w.getD i.val 0) ∧
    (∀ f, exactWeights k w = some f → instPadded U m w = some (inst U m f)) ∧
    (∀ sd wv : Fin k → ℚ, project U m (instNormalized U m sd wv) = fun i => wv i * sd i) := by
  refine ⟨?_, ?_, ?_, fun sd wv => project_instance hU m _⟩
  · rw [instPadded, Option.isSome_map]; exact padWeights_isSome
  · intro v hv i
    simp only [instPadded, Option.map_eq_some_iff] at hv
    obtain ⟨f, hf, rfl⟩ := hv
    rw [project_instance hU, (padWeights_spec hf).2 i]
  · intro f hf
    simp only [instPadded, exactWeights_eq_pad hf, Option.map_some]

/-- PROPERTY (`component`, `whitened_components`, `project_whitened`): a component blended with the mean at
`scale` standard deviations projects to `scale · sd_i` on its own axis and to zero elsewhere; the whitened
rows are mutually orthogonal with squared length `1 / (l_i · n_samples + noise)`; `project_whitened` divides
the (mean-*un*subtracted) coordinates by `σ_i`. -/
theorem component_and_whitening_clause {U : Matrix (Fin k) (Fin d) ℚ} (hU : U * Uᵀ = 1) (m x : Fin d → ℚ)
    (sd σ l : Fin k → ℚ) (nS noise : ℚ) (hσ : ∀ i, σ i ^ 2 = l i * nS + noise) (i : Fin k) (scale : ℚ) :
    project U m (component U m sd i true scale) = (fun j => if j = i then scale * sd i else 0) ∧
    component U m sd i false scale = U i ∧
    whitened U σ * (whitened U σ)ᵀ = diagonal (fun i => (l i * nS + noise)⁻¹) ∧
    (∀ j, projectWhitened U σ x j = (U *ᵥ x) j / σ j) := by
  refine ⟨project_component hU m sd i scale, rfl, ?_, projectWhitened_apply U σ x⟩
  rw [whitened_gram hU]
  congr 1
  funext j
  rw [hσ j]

/-- PROPERTY (`orthonormalize_against_inplace`, QR contract): both models end with orthonormal components
that are mutually orthogonal, so the projection identities keep holding for each of them. -/
theorem ortho_against_clause {k1 k2 : ℕ} {Q : Matrix (Fin (k1 + k2)) (Fin d) ℚ} (hQ : Q * Qᵀ = 1)
    (m x : Fin d → ℚ) (w : Fin k2 → ℚ) :
    qTop Q * (qTop Q)ᵀ = 1 ∧ qBot Q * (qBot Q)ᵀ = 1 ∧ qBot Q * (qTop Q)ᵀ = 0 ∧
    project (qBot Q) m (inst (qBot Q) m w) = w ∧ qBot Q *ᵥ projectOut (qBot Q) m x = 0 := by
  obtain ⟨h1, h2, h3⟩ := ortho_against_rows hQ
  exact ⟨h1, h2, h3, project_instance h2 m w, residual_orthogonal h2 m x⟩

/-- the forms the driver evaluates for the object layer are the definitions above: objects are frozen into
arrays (`freezePC`, an identity) and a short weight list is padded by `padWeights` inside `instPadded` -/
theorem driver_object_forms {p dims : ℕ} (o : PC p dims) {α : Type} (M : ObjModel α d k) (w : List ℚ) :
    freezePC o = o ∧
    M.instPadded w = (padWeights k w).map M.inst := by
  refine ⟨freezePC_eq o, ?_⟩
  simp only [ObjModel.instPadded, instPadded, Option.map_map]
  rfl

/-! ## (b) bookkeeping: every finite history of setter calls (int, float, numpy-int form) and trims -/

/-- PROPERTY: no history changes the total original variance (no hypothesis on the state at all). -/
theorem original_variance_constant (s : St) (ops : List Op) :
    (s.run ops).originalVariance = s.originalVariance :=
  run_originalVariance s ops

/-- PROPERTY: after every history of a model built on the spectrum `eig0`: kept + discarded variance
is the original variance, the discarded variance is `noise_variance × #discarded`, and
`#discarded = #original − n_active`. -/
theorem variance_accounting {eig0 : List Rat} (h0 : eig0 ≠ []) (ops : List Op) :
    let s := (init eig0.length eig0).run ops
    s.variance + s.discarded.sum = eig0.sum ∧
    s.noiseVariance * (s.discarded.length : Rat) = s.discarded.sum ∧
    s.discarded.length = eig0.length - s.nActive := by
  intro s
  have hr : Reach eig0 s := reach_run (reach_init h0) ops
  refine ⟨?_, noiseVariance_mul_length hr, discarded_length hr⟩
  rw [variance_add_discarded, original_variance_constant]
  simp [St.originalVariance, init]

/-- PROPERTY: after every history the component and eigenvalue counts agree and
`1 ≤ n_active ≤ n_components`; the `eigenvalues` / `components` views have `n_active` entries; the
eigenvalues are the first `n_components` of the original spectrum and the trimmed pool holds exactly
the others. -/
theorem counts_consistent {eig0 : List Rat} (h0 : eig0 ≠ []) (ops : List Op) :
    let s := (init eig0.length eig0).run ops
    s.eig.length = s.rows ∧ 1 ≤ s.nActive ∧ s.nActive ≤ s.rows ∧
    s.eigenvalues.length = s.nActive ∧ s.activeRows = s.nActive ∧
    s.eig = eig0.take s.rows ∧ s.trimmed.Perm (eig0.drop s.rows) := by
  intro s
  have hr : Reach eig0 s := reach_run (reach_init h0) ops
  refine ⟨hr.eig_length, hr.act_pos, hr.act_le, ?_, ?_, hr.eig_eq, hr.trimmed_perm⟩
  · simp only [St.eigenvalues, List.length_take, hr.eig_length]; exact Nat.min_eq_left hr.act_le
  · exact Nat.min_eq_left hr.act_le

/-- PROPERTY: a descending positive spectrum stays descending and positive (all stored, active and
trimmed eigenvalues) through every history. -/
theorem spectrum_stays_sorted_positive {eig0 : List Rat} (h0 : eig0 ≠ [])
    (hs : eig0.Pairwise (· ≥ ·)) (hp : ∀ x ∈ eig0, 0 < x) (ops : List Op) :
    let s := (init eig0.length eig0).run ops
    s.eig.Pairwise (· ≥ ·) ∧ (∀ x ∈ s.eig, 0 < x) ∧ (∀ x ∈ s.trimmed, 0 < x) ∧
    s.eigenvalues.Pairwise (· ≥ ·) ∧ (∀ x ∈ s.eigenvalues, 0 < x) :=
  reach_sorted_pos (reach_run (reach_init h0) ops) hs hp

/-- PROPERTY: trimming to `k` components after *any* history gives the model built with
`max_n_components = k` in the first place: same number of component rows, same eigenvalues, same
active count, and the same trimmed eigenvalues (as a multiset: the pool keeps the order in which the
trims happened). -/
theorem trim_eq_build_with_max {eig0 : List Rat} (h0 : eig0 ≠ []) (ops : List Op) {k : Nat}
    (hk1 : 1 ≤ k) (hk2 : k ≤ ((init eig0.length eig0).run ops).rows) :
    ∃ s' b, ((init eig0.length eig0).run ops).trim (some (.int k)) = .ok s' ∧
      build eig0.length eig0 (some (.int k)) = .ok b ∧
      s'.rows = b.rows ∧ s'.eig = b.eig ∧ s'.nActive = b.nActive ∧ s'.trimmed.Perm b.trimmed := by
  have hr : Reach eig0 ((init eig0.length eig0).run ops) := reach_run (reach_init h0) ops
  obtain ⟨s', h1, h2, h3, h4, h5, _⟩ := trim_int_of_reach hr hk1 hk2
  exact ⟨s', _, h1, build_int hk1 (le_trans hk2 hr.rows_le), h2, h4, h3, h5⟩

/-- PROPERTY: if the history consists of active-component changes only (any form), the trimmed model
*is* the model built with `max_n_components = k`, field for field. -/
theorem trim_eq_build_after_setters {eig0 : List Rat} (h0 : eig0 ≠ []) (ops : List Op)
    (hset : ∀ o ∈ ops, o.isSet = true) {k : Nat} (hk1 : 1 ≤ k) (hk2 : k ≤ eig0.length) :
    ((init eig0.length eig0).run ops).trim (some (.int k)) = build eig0.length eig0 (some (.int k)) := by
  have hr : Reach eig0 ((init eig0.length eig0).run ops) := reach_run (reach_init h0) ops
  obtain ⟨e1, e2, e3⟩ := run_sets (rows := eig0.length) (eig0 := eig0) ops hset (init eig0.length eig0)
    ⟨rfl, rfl, rfl⟩
  obtain ⟨s', h1, h2, h3, h4, _, h6⟩ := trim_int_of_reach hr hk1 (by rw [e1]; exact hk2)
  rw [h1, build_int hk1 hk2]
  congr 1
  cases s' with
  | mk r e t a =>
    simp only at h2 h3 h4 h6
    subst h2 h3 h4
    rw [e1, e2, e3] at h6
    simp only [St.mk.injEq, true_and]
    rw [h6]
    split
    · simp
    · rename_i hlt
      have : a = eig0.length := by omega
      subst this
      simp

/-- PROPERTY (variance-fraction form): with a positive spectrum, setting the active components to the
fraction `r` (`0 < r ≤` kept ratio) never raises and selects the *smallest* count whose kept-variance
ratio reaches `r`. -/
theorem float_setter_selects_minimal {eig0 : List Rat} (h0 : eig0 ≠ []) (hp : ∀ x ∈ eig0, 0 < x)
    (ops : List Op) {r : Rat} (hr0 : 0 < r)
    (hr1 : r ≤ ((init eig0.length eig0).run ops).totalVarianceRatio) :
    ∃ s', ((init eig0.length eig0).run ops).setActive (.float r) = .ok s' ∧
      r ≤ s'.varianceRatio ∧
      (s'.eig.take (s'.nActive - 1)).sum / s'.originalVariance < r :=
  setActive_float_spec (reach_run (reach_init h0) ops) hp hr0 hr1

/-- PROPERTY (variance-fraction form of trim = build): trimming to the fraction `r` after any
history gives the model built with `max_n_components = r`. -/
theorem trim_float_eq_build {eig0 : List Rat} (h0 : eig0 ≠ []) (hp : ∀ x ∈ eig0, 0 < x)
    (ops : List Op) {r : Rat} (hr0 : 0 < r)
    (hr1 : r ≤ ((init eig0.length eig0).run ops).totalVarianceRatio) :
    ∃ s' b, ((init eig0.length eig0).run ops).trim (some (.float r)) = .ok s' ∧
      build eig0.length eig0 (some (.float r)) = .ok b ∧
      s'.rows = b.rows ∧ s'.eig = b.eig ∧ s'.nActive = b.nActive ∧ s'.trimmed.Perm b.trimmed :=
  trim_float_of_reach h0 hp (reach_run (reach_init h0) ops) hr0 hr1


/-! ### the trimmed pool as coded, and what of it is observable -/

/-- PROPERTY (order of the trimmed pool, as coded): after any history the pool is the concatenation, in the
order in which components were actually removed, of the slices `eig0[new_count : old_count]`
(`cutsRun` lists the counts reached by the operations that removed components; they strictly decrease and
end at the current `n_components`).  In particular after a single effective trim it is `eig0[count:]`. -/
theorem trimmed_pool_order {eig0 : List Rat} (h0 : eig0 ≠ []) (ops : List Op) :
    let s0 := init eig0.length eig0
    (s0.run ops).trimmed = poolOf eig0 eig0.length (cutsRun s0 ops) ∧
    Desc eig0.length (cutsRun s0 ops) ∧ lastCut eig0.length (cutsRun s0 ops) = (s0.run ops).rows := by
  intro s0
  have h := run_pool (reach_init h0) ops
  have e1 : (init eig0.length eig0).trimmed = [] := rfl
  have e2 : (init eig0.length eig0).rows = eig0.length := rfl
  rw [e1, e2, List.nil_append] at h
  exact h

/-- PROPERTY (the order of the pool is not observable): two models that agree except for the order of the
pool agree on every accessor, and every further setter call treats them alike. -/
theorem pool_order_unobservable {s t : St} (h : Same s t) (v : Val) :
    (s.originalVariance = t.originalVariance ∧ s.variance = t.variance ∧
     s.varianceRatio = t.varianceRatio ∧ s.noiseVariance = t.noiseVariance ∧
     s.noiseVarianceRatio = t.noiseVarianceRatio ∧ s.eigenvalues = t.eigenvalues ∧
     s.eigenvaluesRatio = t.eigenvaluesRatio ∧ s.eigenvaluesCumulativeRatio = t.eigenvaluesCumulativeRatio ∧
     s.activeRows = t.activeRows ∧ s.totalVarianceRatio = t.totalVarianceRatio ∧
     s.totalCumRatio = t.totalCumRatio ∧ s.inverseNoiseVariance = t.inverseNoiseVariance) ∧
    ((∃ e, s.setActive v = .error e ∧ t.setActive v = .error e) ∨
     (∃ s' t', s.setActive v = .ok s' ∧ t.setActive v = .ok t' ∧ Same s' t')) :=
  ⟨h.accessors, h.setActive v⟩

/-- PROPERTY ("the same model as building with that many components", observably): trimming to `k` after any
history and building with `max_n_components = k` differ at most in the order of the pool. -/
theorem trim_eq_build_observably {eig0 : List Rat} (h0 : eig0 ≠ []) (ops : List Op) {k : Nat}
    (hk1 : 1 ≤ k) (hk2 : k ≤ ((init eig0.length eig0).run ops).rows) :
    ∃ s' b, ((init eig0.length eig0).run ops).trim (some (.int k)) = .ok s' ∧
      build eig0.length eig0 (some (.int k)) = .ok b ∧ Same s' b := by
  obtain ⟨s', b, h1, h2, h3, h4, h5, h6⟩ := trim_eq_build_with_max h0 ops hk1 hk2
  exact ⟨s', b, h1, h2, ⟨h3, h4, h5, h6⟩⟩

/-! ### the variance-fraction form as the float code evaluates it -/

/-- PROPERTY (rounding cannot touch the bookkeeping clause): whatever the float evaluation of the kept ratio
and of the cumulative ratios returned (`tvr`, `cum` arbitrary), after any history the float form of the setter
either raises `ValueError` or changes `n_active_components` only, to a value in `1 .. n_components`; the
reachable-state invariant — hence original variance, variance accounting, count consistency — survives.
(All theorems of this section quantify over histories that may contain `floatObs` calls.) -/
theorem float_rounding_keeps_bookkeeping {eig0 : List Rat} (h0 : eig0 ≠ []) (ops : List Op) (r tvr : Rat)
    (cum : List Rat) :
    let s := (init eig0.length eig0).run ops
    s.setActive (.floatObs r tvr cum) = .error .value ∨
    ∃ s', s.setActive (.floatObs r tvr cum) = .ok s' ∧ Reach eig0 s' ∧ s'.rows = s.rows ∧
      s'.eig = s.eig ∧ s'.trimmed = s.trimmed :=
  floatObs_keeps_reach (reach_run (reach_init h0) ops) r tvr cum

/-- PROPERTY (rounding is irrelevant away from ties): if the float values are within `ε` of the exact ratios
and the requested fraction is more than `ε` away from every exact cumulative ratio (and from the exact kept
ratio), the code selects exactly the count of exact arithmetic — the exact model (`Val.float`) *is* the
code's behaviour on the generated (tie-free) inputs. -/
theorem float_rounding_irrelevant_away_from_ties (s : St) {r tvr ε : Rat} {cum : List Rat}
    (ht : |tvr - s.totalVarianceRatio| ≤ ε) (ht' : ε < |s.totalVarianceRatio - r|)
    (hc : List.Forall₂ (fun c c' => |c - c'| ≤ ε) cum s.totalCumRatio)
    (hc' : ∀ c' ∈ s.totalCumRatio, ε < |c' - r|) :
    s.setActive (.floatObs r tvr cum) = s.setActive (.float r) :=
  floatObs_agrees_away_from_ties s ht ht' hc hc'

/-- PROPERTY (exact ties, exact arithmetic): a fraction equal to the kept ratio of `j` components selects
exactly `j`; the fraction equal to the whole kept ratio — `1.0` on an untrimmed model — keeps every
component and does not raise. -/
theorem float_setter_exact_tie {eig0 : List Rat} (h0 : eig0 ≠ []) (hp : ∀ x ∈ eig0, 0 < x) (ops : List Op)
    {j : Nat} (h1 : 1 ≤ j) (h2 : j ≤ ((init eig0.length eig0).run ops).rows) :
    let s := (init eig0.length eig0).run ops
    s.setActive (.float ((s.eig.take j).sum / eig0.sum)) = .ok { s with nActive := j } ∧
    s.setActive (.float s.totalVarianceRatio) = .ok { s with nActive := s.rows } ∧
    (s.trimmed = [] → s.setActive (.float 1) = .ok { s with nActive := s.rows }) := by
  intro s
  have hr : Reach eig0 s := reach_run (reach_init h0) ops
  refine ⟨setActive_float_tie hr hp h1 h2, setActive_float_top hr hp, fun ht => ?_⟩
  have := setActive_float_top hr hp
  rwa [totalVarianceRatio_untrimmed hr hp ht] at this

/-- PROPERTY (what the float code selects): the float `cumsum` is non-decreasing; on any non-decreasing
observed list an accepted call selects the smallest count whose *observed* cumulative ratio reaches the
fraction. -/
theorem float_setter_observed_selection {s s' : St} {r tvr : Rat} {cum : List Rat} (hs : cum.Pairwise (· ≤ ·))
    (h : s.setActive (.floatObs r tvr cum) = .ok s') :
    0 < r ∧ r ≤ tvr ∧ 1 ≤ s'.nActive ∧ s'.nActive ≤ s.rows ∧
    (∀ c ∈ cum.take (s'.nActive - 1), c < r) ∧ (∀ c ∈ cum.drop (s'.nActive - 1), r ≤ c) :=
  floatObs_selects hs h

/-- the coded behaviour at fraction `1.0`, by witness: the spectrum `[4, 2, 1]` untrimmed, kept ratio exactly
`1`, but the last float cumulative ratio one unit in the last place short of `1`: the count becomes
`n_components + 1`, the call raises and (`St.step`) the model is left as it was. -/
theorem fraction_one_rounding_witness :
    (init 3 [4, 2, 1]).setActive (.floatObs 1 1 [4/7, 6/7, 1 - 1/2^53]) = .error .value ∧
    (init 3 [4, 2, 1]).step (.set (.floatObs 1 1 [4/7, 6/7, 1 - 1/2^53])) = init 3 [4, 2, 1] ∧
    (init 3 [4, 2, 1]).setActive (.float 1) = .ok (init 3 [4, 2, 1]) := by
  decide +kernel

/-- the repaired behaviour (count clamped to `n_components`): never raises for a fraction in the accepted
range, whatever the rounding, and agrees with the code wherever the code does not raise. -/
theorem repaired_float_never_raises {eig0 : List Rat} (h0 : eig0 ≠ []) (ops : List Op) {r tvr : Rat}
    (cum : List Rat) (hr0 : 0 < r) (hr1 : r ≤ tvr) :
    let s := (init eig0.length eig0).run ops
    (∃ s', s.setActiveFloatRepaired r tvr cum = .ok s' ∧ Reach eig0 s') ∧
    (∀ s', s.setActive (.floatObs r tvr cum) = .ok s' → s.setActiveFloatRepaired r tvr cum = .ok s') :=
  repaired_float_spec (reach_run (reach_init h0) ops) cum hr0 hr1

/-! ### ratio accessors, `orthonormalize_against_inplace` -/

/-- PROPERTY (ratio accessors): after any history of a positive spectrum the eigenvalue ratios sum to the
kept ratio, the cumulative ratios are the first `n_active` of the list the float setter compares with, are
strictly increasing, positive, end at the kept ratio `≤ 1`, and kept ratio + noise ratio × #discarded = 1. -/
theorem ratio_accessors_consistent {eig0 : List Rat} (h0 : eig0 ≠ []) (hp : ∀ x ∈ eig0, 0 < x) (ops : List Op) :
    let s := (init eig0.length eig0).run ops
    s.eigenvaluesRatio.sum = s.varianceRatio ∧
    s.eigenvaluesCumulativeRatio = s.totalCumRatio.take s.nActive ∧
    s.eigenvaluesCumulativeRatio.length = s.nActive ∧
    s.eigenvaluesCumulativeRatio.Pairwise (· < ·) ∧
    (∀ c ∈ s.eigenvaluesCumulativeRatio, 0 < c ∧ c ≤ s.varianceRatio) ∧
    s.eigenvaluesCumulativeRatio.getLast? = some s.varianceRatio ∧ s.varianceRatio ≤ 1 ∧
    s.varianceRatio + s.noiseVarianceRatio * (s.discarded.length : Rat) = 1 := by
  intro s
  have hr : Reach eig0 s := reach_run (reach_init h0) ops
  obtain ⟨c1, c2, c3, c4, c5⟩ := cumulativeRatio_spec hr hp
  exact ⟨eigenvaluesRatio_sum s, eigenvaluesCumulativeRatio_eq_take s, c1, c2, c3, c4, c5, ratio_accounting hr hp⟩

/-- PROPERTY (`orthonormalize_against_inplace`, bookkeeping): with room for both models nothing changes;
with `k1 < d < k1 + n_components` the model is trimmed to the `d - k1` components that survive, the pool
receives the lost eigenvalues and the active count is the old one capped at `d - k1`; with `d ≤ k1` the call
raises and the bookkeeping is untouched.  (As an `Op` it is covered by every history theorem above.) -/
theorem ortho_against_bookkeeping {eig0 : List Rat} (h0 : eig0 ≠ []) (ops : List Op) (d k1 : Nat) :
    let s := (init eig0.length eig0).run ops
    (k1 + s.rows ≤ d → s.orthoAgainst d k1 = .ok s) ∧
    (d < k1 + s.rows → k1 < d → ∃ s', s.orthoAgainst d k1 = .ok s' ∧ s'.rows = d - k1 ∧
      s'.nActive = min s.nActive (d - k1) ∧ s'.eig = eig0.take (d - k1) ∧
      s'.trimmed = s.trimmed ++ s.eig.drop (d - k1)) ∧
    (d ≤ k1 → s.orthoAgainst d k1 = .error .value ∧ s.step (.ortho d k1) = s) := by
  intro s
  have hr : Reach eig0 s := reach_run (reach_init h0) ops
  refine ⟨ortho_roomy, fun h1 h2 => ?_, fun h => ?_⟩
  · obtain ⟨s', a1, _, a3, a4, a5, a6⟩ := ortho_tight hr h1 h2
    exact ⟨s', a1, a3, a4, a5, a6⟩
  · have := ortho_degenerate (d := d) (k1 := k1) hr.rows_pos h
    exact ⟨this, by simp [St.step, St.apply, this]⟩

/-! ### the source as translated (`Core/C10Src.lean`, `Generated/C10Src.lean`, `GenProps/C10Src*.lean`) -/

/-- PROPERTY (the code's float form in exact arithmetic): the code clamps the count of the variance-fraction form to
`n_components` (`min(np.sum([...]) + 1, self.n_components)`); after every history that clamp is a no-op on the exact
ratios, i.e. the coded form IS `Val.float`, the form the theorems above are about. -/
theorem clamp_is_noop_in_exact_arithmetic {eig0 : List Rat} (h0 : eig0 ≠ []) (ops : List Op) (r : Rat) :
    let s := (init eig0.length eig0).run ops
    s.setActive (.floatObsClamped r s.totalVarianceRatio s.totalCumRatio) = s.setActive (.float r) :=
  clamp_noop_exact (reach_run (reach_init h0) ops) r

/-- PROPERTY (constructors: "building with that many components in the first place"): whatever the library calls
return (`np : Src.NP A`, symbolic arrays), the bookkeeping state built by `PCAVectorModel(…)`, `PCAModel(…)` and the
`init_from_covariance_matrix` / `init_from_components` constructors of both classes is `build` on the number of
eigenvector rows, the eigenvalues and the `max_n_components` argument — so, WHEN the number of eigenvector rows equals
the number of eigenvalues (a contract of `pca` / `pcacov` / the caller of `init_from_components`, not checked by the
code: hypothesis `hlen` of `src_trim_eq_build_with_max`), `trim_eq_build_with_max` and its relatives, stated for
`init eig0.length eig0`, speak about what every constructor builds; `PCAModel` records the number of rows of its data matrix as `n_samples` and
`as_matrix`' template as its template.  (`GenProps/C10Src.lean` proves the translated constructors equal to these.) -/
theorem constructors_build {A : Type} (np : Src.NP A) (fl : Src.Fl) (self : Src.Plumb A) (X C comps ev mean : A)
    (centre inv ip : Bool) (ns mx : Src.PyVal) :
    (let out := np.pca (Src.dataToMatrix np X ns).1 centre ip Src.pcaEps
     (Src.vecInit np fl self X centre ns mx ip).map (·.toSt) =
        build (np.shape0 out.1) (np.values out.2.1) (mx.toOptVal fl (init (np.shape0 out.1) (np.values out.2.1)))) ∧
    (let dt := np.asMatrix X ns true
     let out := np.pca (Src.dataToMatrix np dt.1 (Src.PyVal.int (np.shape0 dt.1))).1 centre ip Src.pcaEps
     (Src.objInit np fl self X centre ns mx ip).map (·.toSt) =
        build (np.shape0 out.1) (np.values out.2.1) (mx.toOptVal fl (init (np.shape0 out.1) (np.values out.2.1))) ∧
     ∀ p, Src.objInit np fl self X centre ns mx ip = .ok p →
       p.nSamples = Src.PyVal.int (np.shape0 dt.1) ∧ p.template = some dt.2 ∧ p.comps = some out.1) ∧
    (let out := np.pcacov C inv Src.pcacovEps
     (Src.vecFromCov np fl C mean ns centre inv mx).map (·.toSt) =
        build (np.shape0 out.1) (np.values out.2) (mx.toOptVal fl (init (np.shape0 out.1) (np.values out.2))) ∧
     (Src.objFromCov np fl C mean ns centre inv mx).map (·.toSt) =
        build (np.shape0 out.1) (np.values out.2) (mx.toOptVal fl (init (np.shape0 out.1) (np.values out.2)))) ∧
    (Src.vecFromComponents np fl comps ev mean ns centre mx).map (·.toSt) =
        build (np.shape0 comps) (np.values ev) (mx.toOptVal fl (init (np.shape0 comps) (np.values ev))) ∧
    (Src.objFromComponents np fl comps ev mean ns centre mx).map (·.toSt) =
        build (np.shape0 comps) (np.values ev) (mx.toOptVal fl (init (np.shape0 comps) (np.values ev))) := by
  refine ⟨(vecInit_spec np fl self X centre ns mx ip).1, ⟨(objInit_spec np fl self X centre ns mx ip).1, fun p hp => ?_⟩,
    ⟨(fromCov_spec np fl C mean ns centre inv mx).1, (fromCov_spec np fl C mean ns centre inv mx).2.1⟩,
    (fromComponents_spec np fl comps ev mean ns centre mx).1, (fromComponents_spec np fl comps ev mean ns centre mx).2.1⟩
  obtain ⟨a1, _, _, a4, a5⟩ := (objInit_spec np fl self X centre ns mx ip).2 p hp
  exact ⟨a4, a5, a1⟩

/-! ## non-vacuity: the hypotheses are satisfiable on concrete non-trivial values -/

section Examples

/-- four samples in the plane, already centred; components are a rational rotation -/
def exX : Matrix (Fin 4) (Fin 2) ℚ :=
  Matrix.of fun i j => (#[#[6/5, 8/5], #[-6/5, -8/5], #[-4/5, 3/5], #[4/5, -3/5]][i.val]!)[j.val]!
def exU : Matrix (Fin 2) (Fin 2) ℚ := Matrix.of fun i j => (#[#[3/5, 4/5], #[-4/5, 3/5]][i.val]!)[j.val]!
def exL : Fin 2 → ℚ := fun i => #[8/3, 2/3][i.val]!

example : mean exX = 0 := by decide +kernel
example : exU * exUᵀ = 1 := by decide +kernel
example : exU * cov exX = diagonal exL * exU := by decide +kernel
theorem ex_contract : EigContract (cov exX) exU exL := ⟨by decide +kernel, by decide +kernel⟩
example : EigContract (symmetrize (cov exX)) exU exL := by rw [symmetrize_cov]; exact ex_contract
example : trace (cov exX) = ∑ i, exL i := by decide +kernel
example : exL 0 = sampleVariance exX exU 0 := variance_identity ex_contract 0
/-- the trimmed prefix keeps one component and is *not* the whole space -/
example : reconstruct (prefixRows exU (by decide : 1 ≤ 2)) 0 ![1, 0] ≠ ![1, 0] := by decide +kernel

/-- Gram-path witness (`d ≥ n`): two uncentred samples in three dimensions -/
def gX : Matrix (Fin 2) (Fin 3) ℚ := Matrix.of fun i j => (#[#[6/5, -4/5, 0], #[8/5, 3/5, 0]][i.val]!)[j.val]!
def gV : Matrix (Fin 2) (Fin 2) ℚ := Matrix.of fun i j => (#[#[3/5, 4/5], #[-4/5, 3/5]][i.val]!)[j.val]!
def gL : Fin 2 → ℚ := fun i => #[4, 1][i.val]!
def gW : Fin 2 → ℚ := fun i => #[1/2, 1][i.val]!
example : gV * gVᵀ = 1 := by decide +kernel
example : gV * symmetrize (gram gX) = diagonal gL * gV := by decide +kernel
example : ∀ i, gW i ^ 2 * (((2 : ℕ) : ℚ) - 1) * gL i = 1 := by decide +kernel
example : gramComponents gW gV gX = Matrix.of fun i j => (#[#[(1 : ℚ), 0, 0], #[0, 1, 0]][i.val]!)[j.val]! := by
  decide +kernel

example : EigContract (cov gX) (gramComponents gW gV gX) gL :=
  (gram_path_identities (by decide) (by decide +kernel) (by decide +kernel) (by decide +kernel)).1
example (s : Fin 4) : reconstruct exU 0 (fun j => exX s j + (0 : Fin 2 → ℚ) j) = fun j => exX s j + (0 : Fin 2 → ℚ) j :=
  full_model_reconstructs_training_clause (by decide) ex_contract (by decide +kernel) 0 s
example : project exU ![1, 2] (inst exU ![1, 2] ![3, -7]) = ![3, -7] :=
  project_instance_clause ex_contract.orth _ _

/-- a bookkeeping history mixing every form -/
def exOps : List Op :=
  [.set (.float (3/4)), .trim none, .set (.int 7), .set (.npint 1), .trim (some (.float (1/2))), .set (.int 0)]
example : ((init 4 [8, 4, 2, 2]).run exOps) = { rows := 1, eig := [8], trimmed := [2, 2, 4], nActive := 1 } := by
  decide +kernel
example : ((init 4 [8, 4, 2, 2]).run exOps).originalVariance = 16 := by decide +kernel
example : ((init 4 [8, 4, 2, 2]).run exOps).noiseVariance = 8 / 3 := by decide +kernel
example : ([8, 4, 2, 2] : List Rat) ≠ [] ∧ (∀ x ∈ ([8, 4, 2, 2] : List Rat), 0 < x) ∧
    ([8, 4, 2, 2] : List Rat).Pairwise (· ≥ ·) ∧ (1 / 2 : Rat) ≤ ((init 4 [8, 4, 2, 2]).run exOps).totalVarianceRatio := by
  decide +kernel
example : (init 4 [8, 4, 2, 2]).setActive (.int 0) = .error .value := by decide +kernel
example : (init 4 [8, 4, 2, 2]).setActive (.float (9/8)) = .error .value := by decide +kernel
example : (init 4 [8, 4, 2, 2]).setActive (.npint 5) = .error .value := by decide +kernel
example : (init 4 [8, 4, 2, 2]).setActive (.int 5) = .ok (init 4 [8, 4, 2, 2]) := by decide +kernel
example : postprocess (1/10^10) false [((2:Rat), 0), (-1/10^17, 1), (5, 2), (1/10^12, 3)] = [(5, 2), (2, 0)] := by
  decide +kernel

/-! object-backed: two points on a line (`PointCloud`, `d = 2 · 1`), one component, template tagged 7 -/
def exPC : ObjModel (PC 2 1) (2 * 1) 1 :=
  { ops := pcOps 2 1, template := ⟨Matrix.of ![![0], ![0]], 7⟩, U := prefixRows exU (by decide : 1 ≤ 2),
    m := ![1, 2] }
def exObj : PC 2 1 := ⟨Matrix.of ![![6], ![2]], 3⟩
example : exPC.U * exPC.Uᵀ = 1 := by decide +kernel
example : (exPC.reconstruct exObj).points = Matrix.of ![![14/5], ![22/5]] := by decide +kernel
example : (exPC.reconstruct exObj).tag = 3 ∧ (exPC.inst ![5]).tag = 7 ∧ exPC.mean.tag = 7 := by decide
example : (exPC.inst ![5]).points = Matrix.of ![![4], ![6]] := by decide +kernel
example : exPC.reconstruct (exPC.reconstruct exObj) = exPC.reconstruct exObj :=
  (object_level_identities exPC (pcOps_lawful 2 1) (by decide +kernel) exObj ![0]).2.1
/-- an image with 1 channel of 1 × 2 pixels: `as_vector` is row major -/
example : (imgOps 1 1 2).asVec ⟨fun _ _ x => if x = 0 then 5 else 9, 0⟩ = ![5, 9] := by decide +kernel
example : (pcOps 2 2).asVec ⟨Matrix.of ![![1, 2], ![3, 4]], 0⟩ = ![1, 2, 3, 4] := by decide +kernel
/-- whitening contract: `σ² = l · n_samples + noise` with `l = [8/3, 2/3]`, 6 samples, no noise -/
example : ∀ i, (![4, 2] : Fin 2 → ℚ) i ^ 2 = exL i * 6 + 0 := by decide +kernel
example : whitened exU ![4, 2] * (whitened exU ![4, 2])ᵀ = diagonal ![1/16, 1/4] := by decide +kernel
example : padWeights 2 [3] = some ![3, 0] ∧ padWeights 2 [1, 2, 3] = none ∧ exactWeights 2 [3] = none := by
  decide +kernel
/-- QR contract witness: the rotation `exU` split into one row for the other model and one for this -/
example : qTop (k1 := 1) (k2 := 1) exU * (qTop (k1 := 1) (k2 := 1) exU)ᵀ = 1 ∧
    qBot (k1 := 1) (k2 := 1) exU * (qTop (k1 := 1) (k2 := 1) exU)ᵀ = 0 := by decide +kernel

/-! bookkeeping: pool order, observed float values, ortho -/
example : cutsRun (init 4 [8, 4, 2, 2]) exOps = [2, 1] ∧ poolOf [8, 4, 2, 2] 4 [2, 1] = [2, 2, 4] := by
  decide +kernel
/-- the pool of the one-step build is in a different order, and nothing observable differs -/
example : build 4 [8, 4, 2, 2] (some (.int 1)) = .ok { rows := 1, eig := [8], trimmed := [4, 2, 2], nActive := 1 } := by
  decide +kernel
example : Same ((init 4 [8, 4, 2, 2]).run exOps) { rows := 1, eig := [8], trimmed := [4, 2, 2], nActive := 1 } :=
  ⟨by decide +kernel, by decide +kernel, by decide +kernel, by decide +kernel⟩
/-- observed ratios a rounding error away from the exact ones, fraction 0.6 far from every tie: hypotheses of
`float_rounding_irrelevant_away_from_ties` hold with `ε = 10⁻⁹` -/
example : (init 4 [8, 4, 2, 2]).setActive (.floatObs (3/5) (1 - 1/2^53) [1/2, 3/4 - 1/2^54, 7/8, 1 - 1/2^53])
    = (init 4 [8, 4, 2, 2]).setActive (.float (3/5)) :=
  float_rounding_irrelevant_away_from_ties (ε := 1/10^9) _ (by decide +kernel) (by decide +kernel)
    (by
      have e : (init 4 [8, 4, 2, 2]).totalCumRatio = [1/2, 3/4, 7/8, 1] := by decide +kernel
      rw [e]
      exact .cons (by decide +kernel) (.cons (by decide +kernel) (.cons (by decide +kernel)
        (.cons (by decide +kernel) .nil))))
    (by decide +kernel)
example : (init 4 [8, 4, 2, 2]).setActive (.float (3/5)) = .ok { init 4 [8, 4, 2, 2] with nActive := 2 } := by
  decide +kernel
/-- exact tie at 3/4 (two components): exact arithmetic selects 2, an observed value just below selects 3 -/
example : (init 4 [8, 4, 2, 2]).setActive (.float (3/4)) = .ok { init 4 [8, 4, 2, 2] with nActive := 2 } ∧
    (init 4 [8, 4, 2, 2]).setActive (.floatObs (3/4) 1 [1/2, 3/4 - 1/2^54, 7/8, 1])
      = .ok { init 4 [8, 4, 2, 2] with nActive := 3 } := by decide +kernel
example : (init 3 [4, 2, 1]).setActiveFloatRepaired 1 1 [4/7, 6/7, 1 - 1/2^53] = .ok (init 3 [4, 2, 1]) := by
  decide +kernel
example : (init 4 [8, 4, 2, 2]).orthoAgainst 5 2 = .ok { rows := 3, eig := [8, 4, 2], trimmed := [2], nActive := 3 } ∧
    ({ init 4 [8, 4, 2, 2] with nActive := 2 } : St).orthoAgainst 5 2
      = .ok { rows := 3, eig := [8, 4, 2], trimmed := [2], nActive := 2 } ∧
    (init 4 [8, 4, 2, 2]).orthoAgainst 6 2 = .ok (init 4 [8, 4, 2, 2]) ∧
    (init 4 [8, 4, 2, 2]).orthoAgainst 2 2 = .error .value := by decide +kernel
example : ((init 4 [8, 4, 2, 2]).run exOps).inverseNoiseVariance = .ok (3 / 8) ∧
    (init 4 [8, 4, 2, 2]).inverseNoiseVariance = .error .value := by decide +kernel

/-- the clamp at work only under rounding: exact ratios of `[4, 2, 1]`, fraction 1 -/
example : (init 3 [4, 2, 1]).setActive (.floatObsClamped 1 (init 3 [4, 2, 1]).totalVarianceRatio
    (init 3 [4, 2, 1]).totalCumRatio) = (init 3 [4, 2, 1]).setActive (.float 1) := by decide +kernel

end Examples

end MenpoModel.C10
