/-
C10 — PCA models satisfy the defining identities, also after trimming.

PROPERTY (properties.jsonl, C10): a PCA model built from any data set has orthonormal components,
positive eigenvalues in descending order that equal the sample variance of the data along each
component, and the sample mean as its mean; with all components kept every training sample is
reconstructed exactly, projecting an instance built from weights returns those weights,
reconstruction is an idempotent orthogonal projection, and the projected-out residual is orthogonal
to the model.  Changing the number of active components or trimming never changes the total
original variance, keeps kept-plus-discarded variance equal to it, keeps component and eigenvalue
counts consistent, and gives the same model as building with that many components in the first place.

Two halves.
(a) Linear algebra, every dimension, over `Matrix (Fin _) (Fin _) ℚ`: the code's own arithmetic
    (`Core/C10Linear.lean`) is definitions; LAPACK's `eigh` and `sqrt` enter as the contract
    `EigContract` / `w i ^ 2 * ((n - 1) * l i) = 1`.  The driver evaluates the *same* definitions on the
    factors the real code returns (certificate checking against the exact covariance).
(b) Bookkeeping (`Core/C10Book.lean`): invariants by induction over every operation list.

Helper lemmas: `Lemmas/C10Book.lean`, `Lemmas/C10Linear.lean`.  Theorems marked PROPERTY are the
obligations listed in `harness/c10.py`.
-/
import MenpoModel.Lemmas.C10Book
import MenpoModel.Lemmas.C10Linear
import MenpoModel.Lemmas.C10Float

namespace MenpoModel.C10
open Matrix St

variable {n d k k' : ℕ}

/-! ## (a) the defining identities -/

/-- PROPERTY (mean): the mean of a centred model is the sample mean (`n · m = Σ rows`), the centred
data sums to zero, and an uncentred model has mean zero. -/
theorem mean_clause (X : Matrix (Fin n) (Fin d) ℚ) (hn : n ≠ 0) :
    (∀ j, (n : ℚ) * pcaMean true X j = ∑ i, X i j) ∧
    (∀ j, ∑ i, centred X (pcaMean true X) i j = 0) ∧
    pcaMean false X = 0 :=
  ⟨mean_is_sample_mean X hn, centred_sum_zero X hn, rfl⟩

/-- PROPERTY (covariance path, `d < n`): `eigh` is applied to the symmetrised covariance; the
symmetrisation changes nothing, so under the eigen contract the rows are orthonormal, they are
eigen-rows of the sample covariance, and every eigenvalue *is* the sample variance
`(n-1)⁻¹ Σ ((x - m)·u)²` of the data along its component (hence non-negative). -/
theorem cov_path_identities {Xc : Matrix (Fin n) (Fin d) ℚ} {U : Matrix (Fin k) (Fin d) ℚ} {l : Fin k → ℚ}
    (hn : 2 ≤ n) (h : EigContract (symmetrize (cov Xc)) U l) :
    U * Uᵀ = 1 ∧ U * cov Xc = diagonal l * U ∧ (∀ i, l i = sampleVariance Xc U i) ∧ (∀ i, 0 ≤ l i) := by
  rw [symmetrize_cov] at h
  refine ⟨h.orth, h.eig, variance_identity h, fun i => ?_⟩
  rw [variance_identity h i]
  exact sampleVariance_nonneg hn Xc U i

/-- PROPERTY (Gram path, `d ≥ n`): `eigh` is applied to the symmetrised `n × n` Gram matrix and the
components are `diag w · V · X` with `w = sqrt(1 / ((n-1) l))`; under the eigen contract on the Gram
matrix and the square-root contract the rescaled rows are orthonormal eigen-rows of the sample
covariance, and the eigenvalues are the sample variances along them. -/
theorem gram_path_identities {Xc : Matrix (Fin n) (Fin d) ℚ} {V : Matrix (Fin k) (Fin n) ℚ}
    {l w : Fin k → ℚ} (hn : 2 ≤ n) (hV : V * Vᵀ = 1)
    (hG : V * symmetrize (gram Xc) = diagonal l * V)
    (hw : ∀ i, w i ^ 2 * (((n : ℚ) - 1) * l i) = 1) :
    EigContract (cov Xc) (gramComponents w V Xc) l ∧
    (∀ i, l i = sampleVariance Xc (gramComponents w V Xc) i) := by
  rw [symmetrize_gram] at hG
  have h := gram_path_contract hn hV hG hw
  exact ⟨h, variance_identity h⟩

/-- PROPERTY (spectrum): what `eigenvalue_decomposition` keeps of any eigen-witness is in descending
order, strictly positive and above `eps · max|λ|`, is a sub-multiset of the witness, and drops nothing
that passes both tests. -/
theorem spectrum_desc_pos {α} (eps : Rat) (ev : List (Rat × α)) :
    (postprocess eps false ev).Pairwise (fun a b => b.1 ≤ a.1) ∧
    (∀ p ∈ postprocess eps false ev, 0 < p.1 ∧ maxAbs ((sortDesc ev).map Prod.fst) * eps < p.1) ∧
    (∃ l', l'.Perm ev ∧ (postprocess eps false ev).Sublist l') ∧
    (∀ p ∈ ev, 0 < p.1 → maxAbs ((sortDesc ev).map Prod.fst) * eps < p.1 →
      p ∈ postprocess eps false ev) := by
  obtain ⟨h1, h2, h3, h4⟩ := postprocess_spec eps ev
  exact ⟨h2, h3, ⟨_, sortDesc_perm ev, h1⟩, h4⟩

/-- PROPERTY (precision-matrix option of `eigenvalue_decomposition`): still descending and positive. -/
theorem spectrum_desc_pos_inverse {α} (eps : Rat) (ev : List (Rat × α)) :
    (postprocess eps true ev).Pairwise (fun a b => b.1 ≤ a.1) ∧
    (∀ p ∈ postprocess eps true ev, 0 < p.1) :=
  ⟨(postprocess_inverse_spec eps ev).1, (postprocess_inverse_spec eps ev).2.1⟩

/-- PROPERTY: projecting an instance built from weights returns those weights. -/
theorem project_instance_clause {U : Matrix (Fin k) (Fin d) ℚ} (hU : U * Uᵀ = 1) (m : Fin d → ℚ)
    (w : Fin k → ℚ) : project U m (inst U m w) = w :=
  project_instance hU m w

/-- PROPERTY: reconstruction is idempotent. -/
theorem reconstruct_idempotent_clause {U : Matrix (Fin k) (Fin d) ℚ} (hU : U * Uᵀ = 1) (m x : Fin d → ℚ) :
    reconstruct U m (reconstruct U m x) = reconstruct U m x :=
  reconstruct_idempotent hU m x

/-- PROPERTY: reconstruction is an orthogonal projection about the mean: it is `x ↦ P (x - m) + m`
with `P` idempotent and symmetric, and `x = reconstruct x + project_out x`. -/
theorem reconstruct_is_orthogonal_projection {U : Matrix (Fin k) (Fin d) ℚ} (hU : U * Uᵀ = 1)
    (m x : Fin d → ℚ) :
    reconstruct U m x = projector U *ᵥ (x - m) + m ∧
    projector U * projector U = projector U ∧ (projector U)ᵀ = projector U ∧
    reconstruct U m x + projectOut U m x = x :=
  ⟨reconstruct_eq_projector U m x, projector_idempotent hU, projector_symm U,
    reconstruct_add_projectOut U m x⟩

/-- PROPERTY: the projected-out residual is orthogonal to every component. -/
theorem residual_orthogonal_clause {U : Matrix (Fin k) (Fin d) ℚ} (hU : U * Uᵀ = 1) (m x : Fin d → ℚ) :
    U *ᵥ projectOut U m x = 0 :=
  residual_orthogonal hU m x

/-- PROPERTY: with all components kept (no variance discarded: `tr C = Σ l`) every training sample
is reconstructed exactly. -/
theorem full_model_reconstructs_training_clause {Xc : Matrix (Fin n) (Fin d) ℚ}
    {U : Matrix (Fin k) (Fin d) ℚ} {l : Fin k → ℚ} (hn : 2 ≤ n) (h : EigContract (cov Xc) U l)
    (htr : trace (cov Xc) = ∑ i, l i) (m : Fin d → ℚ) (s : Fin n) :
    reconstruct U m (fun j => Xc s j + m j) = fun j => Xc s j + m j :=
  full_model_reconstructs_training hn h htr m s

/-- PROPERTY ("also after trimming"): the active / trimmed prefix of the components with the prefix
of the eigenvalues satisfies the same contract, so every identity above holds for it too. -/
theorem identities_after_trimming {Xc : Matrix (Fin n) (Fin d) ℚ} {U : Matrix (Fin k) (Fin d) ℚ}
    {l : Fin k → ℚ} (h : EigContract (cov Xc) U l) (hk : k' ≤ k) (m x : Fin d → ℚ) (w : Fin k' → ℚ) :
    let U' := prefixRows U hk
    U' * U'ᵀ = 1 ∧ (∀ i, (l ∘ Fin.castLE hk) i = sampleVariance Xc U' i) ∧
    project U' m (inst U' m w) = w ∧
    reconstruct U' m (reconstruct U' m x) = reconstruct U' m x ∧
    U' *ᵥ projectOut U' m x = 0 := by
  have h' := contract_prefix h hk
  exact ⟨h'.orth, variance_identity h', project_instance h'.orth m w,
    reconstruct_idempotent h'.orth m x, residual_orthogonal h'.orth m x⟩

/-- the forms the driver evaluates (intermediate results forced into arrays) are the definitions above -/
theorem driver_forms (U : Matrix (Fin k) (Fin d) ℚ) (m x : Fin d → ℚ) :
    inst U m (vofArr k (vtoArr (project U m x))) = reconstruct U m x ∧
    (x - m) - (vofArr k (vtoArr (project U m x))) ᵥ* U = projectOut U m x := by
  rw [vmaterialize_eq]; exact ⟨rfl, rfl⟩

/-! ## (b) bookkeeping: every finite history of setter calls (int, float, numpy-int form) and trims -/

/-- PROPERTY: no history changes the total original variance (no hypothesis on the state at all). -/
theorem original_variance_constant (s : St) (ops : List Op) :
    (s.run ops).originalVariance = s.originalVariance :=
  run_originalVariance s ops

/-- PROPERTY: after every history of a model built on the spectrum `eig0`: kept + discarded variance
is the original variance, the discarded variance is `noise_variance × #discarded`, and
`#discarded = #original − n_active`. -/
theorem variance_accounting {eig0 : List Rat} (h0 : eig0 ≠ []) (ops : List Op) :
    let s := (init eig0.length eig0).run ops
    s.variance + s.discarded.sum = eig0.sum ∧
    s.noiseVariance * (s.discarded.length : Rat) = s.discarded.sum ∧
    s.discarded.length = eig0.length - s.nActive := by
  intro s
  have hr : Reach eig0 s := reach_run (reach_init h0) ops
  refine ⟨?_, noiseVariance_mul_length hr, discarded_length hr⟩
  rw [variance_add_discarded, original_variance_constant]
  simp [St.originalVariance, init]

/-- PROPERTY: after every history the component and eigenvalue counts agree and
`1 ≤ n_active ≤ n_components`; the `eigenvalues` / `components` views have `n_active` entries; the
eigenvalues are the first `n_components` of the original spectrum and the trimmed pool holds exactly
the others. -/
theorem counts_consistent {eig0 : List Rat} (h0 : eig0 ≠ []) (ops : List Op) :
    let s := (init eig0.length eig0).run ops
    s.eig.length = s.rows ∧ 1 ≤ s.nActive ∧ s.nActive ≤ s.rows ∧
    s.eigenvalues.length = s.nActive ∧ s.activeRows = s.nActive ∧
    s.eig = eig0.take s.rows ∧ s.trimmed.Perm (eig0.drop s.rows) := by
  intro s
  have hr : Reach eig0 s := reach_run (reach_init h0) ops
  refine ⟨hr.eig_length, hr.act_pos, hr.act_le, ?_, ?_, hr.eig_eq, hr.trimmed_perm⟩
  · simp only [St.eigenvalues, List.length_take, hr.eig_length]; exact Nat.min_eq_left hr.act_le
  · exact Nat.min_eq_left hr.act_le

/-- PROPERTY: a descending positive spectrum stays descending and positive (all stored, active and
trimmed eigenvalues) through every history. -/
theorem spectrum_stays_sorted_positive {eig0 : List Rat} (h0 : eig0 ≠ [])
    (hs : eig0.Pairwise (· ≥ ·)) (hp : ∀ x ∈ eig0, 0 < x) (ops : List Op) :
    let s := (init eig0.length eig0).run ops
    s.eig.Pairwise (· ≥ ·) ∧ (∀ x ∈ s.eig, 0 < x) ∧ (∀ x ∈ s.trimmed, 0 < x) ∧
    s.eigenvalues.Pairwise (· ≥ ·) ∧ (∀ x ∈ s.eigenvalues, 0 < x) :=
  reach_sorted_pos (reach_run (reach_init h0) ops) hs hp

/-- PROPERTY: trimming to `k` components after *any* history gives the model built with
`max_n_components = k` in the first place: same number of component rows, same eigenvalues, same
active count, and the same trimmed eigenvalues (as a multiset: the pool keeps the order in which the
trims happened). -/
theorem trim_eq_build_with_max {eig0 : List Rat} (h0 : eig0 ≠ []) (ops : List Op) {k : Nat}
    (hk1 : 1 ≤ k) (hk2 : k ≤ ((init eig0.length eig0).run ops).rows) :
    ∃ s' b, ((init eig0.length eig0).run ops).trim (some (.int k)) = .ok s' ∧
      build eig0.length eig0 (some (.int k)) = .ok b ∧
      s'.rows = b.rows ∧ s'.eig = b.eig ∧ s'.nActive = b.nActive ∧ s'.trimmed.Perm b.trimmed := by
  have hr : Reach eig0 ((init eig0.length eig0).run ops) := reach_run (reach_init h0) ops
  obtain ⟨s', h1, h2, h3, h4, h5, _⟩ := trim_int_of_reach hr hk1 hk2
  exact ⟨s', _, h1, build_int hk1 (le_trans hk2 hr.rows_le), h2, h4, h3, h5⟩

/-- PROPERTY: if the history consists of active-component changes only (any form), the trimmed model
*is* the model built with `max_n_components = k`, field for field. -/
theorem trim_eq_build_after_setters {eig0 : List Rat} (h0 : eig0 ≠ []) (ops : List Op)
    (hset : ∀ o ∈ ops, o.isSet = true) {k : Nat} (hk1 : 1 ≤ k) (hk2 : k ≤ eig0.length) :
    ((init eig0.length eig0).run ops).trim (some (.int k)) = build eig0.length eig0 (some (.int k)) := by
  have hr : Reach eig0 ((init eig0.length eig0).run ops) := reach_run (reach_init h0) ops
  obtain ⟨e1, e2, e3⟩ := run_sets (rows := eig0.length) (eig0 := eig0) ops hset (init eig0.length eig0)
    ⟨rfl, rfl, rfl⟩
  obtain ⟨s', h1, h2, h3, h4, _, h6⟩ := trim_int_of_reach hr hk1 (by rw [e1]; exact hk2)
  rw [h1, build_int hk1 hk2]
  congr 1
  cases s' with
  | mk r e t a =>
    simp only at h2 h3 h4 h6
    subst h2 h3 h4
    rw [e1, e2, e3] at h6
    simp only [St.mk.injEq, true_and]
    rw [h6]
    split
    · simp
    · rename_i hlt
      have : a = eig0.length := by omega
      subst this
      simp

/-- PROPERTY (variance-fraction form): with a positive spectrum, setting the active components to the
fraction `r` (`0 < r ≤` kept ratio) never raises and selects the *smallest* count whose kept-variance
ratio reaches `r`. -/
theorem float_setter_selects_minimal {eig0 : List Rat} (h0 : eig0 ≠ []) (hp : ∀ x ∈ eig0, 0 < x)
    (ops : List Op) {r : Rat} (hr0 : 0 < r)
    (hr1 : r ≤ ((init eig0.length eig0).run ops).totalVarianceRatio) :
    ∃ s', ((init eig0.length eig0).run ops).setActive (.float r) = .ok s' ∧
      r ≤ s'.varianceRatio ∧
      (s'.eig.take (s'.nActive - 1)).sum / s'.originalVariance < r :=
  setActive_float_spec (reach_run (reach_init h0) ops) hp hr0 hr1

/-- PROPERTY (variance-fraction form of trim = build): trimming to the fraction `r` after any
history gives the model built with `max_n_components = r`. -/
theorem trim_float_eq_build {eig0 : List Rat} (h0 : eig0 ≠ []) (hp : ∀ x ∈ eig0, 0 < x)
    (ops : List Op) {r : Rat} (hr0 : 0 < r)
    (hr1 : r ≤ ((init eig0.length eig0).run ops).totalVarianceRatio) :
    ∃ s' b, ((init eig0.length eig0).run ops).trim (some (.float r)) = .ok s' ∧
      build eig0.length eig0 (some (.float r)) = .ok b ∧
      s'.rows = b.rows ∧ s'.eig = b.eig ∧ s'.nActive = b.nActive ∧ s'.trimmed.Perm b.trimmed :=
  trim_float_of_reach h0 hp (reach_run (reach_init h0) ops) hr0 hr1

/-! ## non-vacuity: the hypotheses are satisfiable on concrete non-trivial values -/

section Examples

/-- four samples in the plane, already centred; components are a rational rotation -/
def exX : Matrix (Fin 4) (Fin 2) ℚ :=
  Matrix.of fun i j => (#[#[6/5, 8/5], #[-6/5, -8/5], #[-4/5, 3/5], #[4/5, -3/5]][i.val]!)[j.val]!
def exU : Matrix (Fin 2) (Fin 2) ℚ := Matrix.of fun i j => (#[#[3/5, 4/5], #[-4/5, 3/5]][i.val]!)[j.val]!
def exL : Fin 2 → ℚ := fun i => #[8/3, 2/3][i.val]!

example : mean exX = 0 := by decide +kernel
example : exU * exUᵀ = 1 := by decide +kernel
example : exU * cov exX = diagonal exL * exU := by decide +kernel
theorem ex_contract : EigContract (cov exX) exU exL := ⟨by decide +kernel, by decide +kernel⟩
example : EigContract (symmetrize (cov exX)) exU exL := by rw [symmetrize_cov]; exact ex_contract
example : trace (cov exX) = ∑ i, exL i := by decide +kernel
example : exL 0 = sampleVariance exX exU 0 := variance_identity ex_contract 0
/-- the trimmed prefix keeps one component and is *not* the whole space -/
example : reconstruct (prefixRows exU (by decide : 1 ≤ 2)) 0 ![1, 0] ≠ ![1, 0] := by decide +kernel

/-- Gram-path witness (`d ≥ n`): two uncentred samples in three dimensions -/
def gX : Matrix (Fin 2) (Fin 3) ℚ := Matrix.of fun i j => (#[#[6/5, -4/5, 0], #[8/5, 3/5, 0]][i.val]!)[j.val]!
def gV : Matrix (Fin 2) (Fin 2) ℚ := Matrix.of fun i j => (#[#[3/5, 4/5], #[-4/5, 3/5]][i.val]!)[j.val]!
def gL : Fin 2 → ℚ := fun i => #[4, 1][i.val]!
def gW : Fin 2 → ℚ := fun i => #[1/2, 1][i.val]!
example : gV * gVᵀ = 1 := by decide +kernel
example : gV * symmetrize (gram gX) = diagonal gL * gV := by decide +kernel
example : ∀ i, gW i ^ 2 * (((2 : ℕ) : ℚ) - 1) * gL i = 1 := by decide +kernel
example : gramComponents gW gV gX = Matrix.of fun i j => (#[#[(1 : ℚ), 0, 0], #[0, 1, 0]][i.val]!)[j.val]! := by
  decide +kernel

example : EigContract (cov gX) (gramComponents gW gV gX) gL :=
  (gram_path_identities (by decide) (by decide +kernel) (by decide +kernel) (by decide +kernel)).1
example (s : Fin 4) : reconstruct exU 0 (fun j => exX s j + (0 : Fin 2 → ℚ) j) = fun j => exX s j + (0 : Fin 2 → ℚ) j :=
  full_model_reconstructs_training_clause (by decide) ex_contract (by decide +kernel) 0 s
example : project exU ![1, 2] (inst exU ![1, 2] ![3, -7]) = ![3, -7] :=
  project_instance_clause ex_contract.orth _ _

/-- a bookkeeping history mixing every form -/
def exOps : List Op :=
  [.set (.float (3/4)), .trim none, .set (.int 7), .set (.npint 1), .trim (some (.float (1/2))), .set (.int 0)]
example : ((init 4 [8, 4, 2, 2]).run exOps) = { rows := 1, eig := [8], trimmed := [2, 2, 4], nActive := 1 } := by
  decide +kernel
example : ((init 4 [8, 4, 2, 2]).run exOps).originalVariance = 16 := by decide +kernel
example : ((init 4 [8, 4, 2, 2]).run exOps).noiseVariance = 8 / 3 := by decide +kernel
example : ([8, 4, 2, 2] : List Rat) ≠ [] ∧ (∀ x ∈ ([8, 4, 2, 2] : List Rat), 0 < x) ∧
    ([8, 4, 2, 2] : List Rat).Pairwise (· ≥ ·) ∧ (1 / 2 : Rat) ≤ ((init 4 [8, 4, 2, 2]).run exOps).totalVarianceRatio := by
  decide +kernel
example : (init 4 [8, 4, 2, 2]).setActive (.int 0) = .error .value := by decide +kernel
example : (init 4 [8, 4, 2, 2]).setActive (.float (9/8)) = .error .value := by decide +kernel
example : (init 4 [8, 4, 2, 2]).setActive (.npint 5) = .error .value := by decide +kernel
example : (init 4 [8, 4, 2, 2]).setActive (.int 5) = .ok (init 4 [8, 4, 2, 2]) := by decide +kernel
example : postprocess (1/10^10) false [((2:Rat), 0), (-1/10^17, 1), (5, 2), (1/10^12, 3)] = [(5, 2), (2, 0)] := by
  decide +kernel

end Examples

end MenpoModel.C10
