/-
C02 — the heap-level methods as the SOURCE states them (Core/C02SrcH.lean: `coreHMethods`, resolved through the
method-resolution table by `hTransform`) ARE the model the heap theorems are about.  Core Lean only.

  `hInplace_eq`     `x._transform_inplace(t)` of the source, on EVERY heap and value (well-formed or not), ends in the
                    heap the model's `inplace` computes, and raises exactly when it does
  `hTransform_eq`   `x._transform(t)` (copy, in-place pass on the copy, the copy is returned) is `applyH`
  `h_apply_*`       hence the heap theorems — nothing that existed is written, the result is a new object holding the
                    mapped shape with every attribute of every object deep-equal, at every depth — hold of the methods
                    as the source states them; GenProps/C02SrcH.lean restates them over the TRANSLATED methods and the
                    regenerated method-resolution table.
-/
import MenpoModel.Core.C02SrcH
import MenpoModel.Props.C02Deep
import MenpoModel.Props.C02Total
import MenpoModel.Props.C02Seq

namespace MenpoModel.C02

/-! the fields of `coreHMethods`, one by one -/
theorem chm_shapeInplace : coreHMethods.shapeInplace = coreShapeInplaceH := rfl
theorem chm_shapeSelf : coreHMethods.shapeSelf = fun _ _ => HM.ok (.imm 0) := rfl
theorem chm_pcSelf : coreHMethods.pcSelf = corePcSelfH := rfl
theorem chm_lmInplace : coreHMethods.lmInplace = coreLmInplaceH := rfl
theorem chm_tInplace : coreHMethods.tInplace = fun _ _ => HM.err .notImpl := rfl
theorem chm_transform : coreHMethods.transform = fun callCopy callI self t =>
    HM.bind (callCopy self) fun c => HM.bind (callI c t) fun _ => HM.ok c := rfl

/-! ### the loop over the groups -/

theorem hLoop_eq (rec : Val → Fn → HM Val) (t : Fn) : ∀ (gs : Slots) (h : Heap),
    exceptHeap (HM.forLoop () (gs.map Prod.snd) (fun _ it => HM.bind (rec it t) fun _ => HM.ok ()) h) =
      inplaceGroups (fun h v => exceptHeap (rec v t h)) h gs
  | [], h => rfl
  | (x, v) :: gs, h => by
    have ih := hLoop_eq rec t gs
    simp only [List.map_cons, HM.forLoop, HM.bind, inplaceGroups]
    rcases hr : rec v t h with ⟨h1, r⟩
    cases r with
    | error e => simp [exceptHeap]
    | ok u => simp only [exceptHeap, HM.ok]; exact ih h1

/-! ### the stages of `Shape._transform_inplace` on an object `a` whose cell is known -/

theorem hSelf_eq (f : Arr → Arr) (d : Dispatch) (h1 : Heap) (a : Nat) :
    exceptHeap (hSelf coreHMethods d (.ref a) (okFn f) h1) = selfStage d f h1 a := by
  simp only [hSelf, HM.bind, clsOf, selfStage]
  cases ha : h1[a]? with
  | none => rfl
  | some cell =>
    cases cell with
    | arr x => rfl
    | dict fs => rfl
    | frozen fs => rfl
    | obj c fs =>
      simp only
      cases hs : supSelf d c with
      | none => rfl
      | some sup =>
        cases sup with
        | Shape => rfl
        | PointCloud =>
          have hal : a < h1.length := get_lt ha
          simp only [chm_pcSelf, corePcSelfH, HM.bind, getAttr, ha, selfInplace]
          cases hp : fs.lookup "points" with
          | none => rfl
          | some w =>
            cases w with
            | imm t => rfl
            | ref p =>
              simp only [callFn]
              cases hx : h1[p]? with
              | none => rfl
              | some cell2 =>
                cases cell2 with
                | arr x =>
                  have hget : (h1 ++ [Cell.arr (f x)])[a]? = some (.obj c fs) := by
                    rw [List.getElem?_append_left hal]; exact ha
                  simp only [okFn, setAttr, hget, HM.ok, exceptHeap]
                | dict _ => rfl
                | frozen _ => rfl
                | obj _ _ => rfl
        | LandmarkManager => rfl
        | Transformable => rfl
        | Copyable => rfl
        | LabelledPointUndirectedGraph => rfl
        | absent => rfl
        | unknown => rfl

/-- what `self.has_landmarks` answers, in terms of the model's `hasLandmarks` -/
def hasAnswer : Except Err (Option (Cls × Slots)) → Except Err Bool
  | .ok none => .ok false
  | .ok (some _) => .ok true
  | .error e => .error e

theorem coreLandmarks_some {h : Heap} {a : Nat} {c : Cls} {fs : Slots} {w : Val}
    (ha : h[a]? = some (.obj c fs)) (hl : fs.lookup "_landmarks" = some w) (hw : w.isNone = false) :
    coreLandmarks (.ref a) h = (h, .ok w) := by
  simp only [coreLandmarks, HM.bind, getAttr, ha, hl, hw, Bool.false_eq_true, if_false]

theorem coreHasLandmarksH_eq {h : Heap} {a : Nat} {c : Cls} {fs : Slots} (ha : h[a]? = some (.obj c fs)) :
    coreHasLandmarksH (.ref a) h = (h, hasAnswer (hasLandmarks h fs)) := by
  simp only [coreHasLandmarksH, HM.bind, getAttr, ha, hasLandmarks]
  cases hl : fs.lookup "_landmarks" with
  | none => rfl
  | some w =>
    cases w with
    | imm t =>
      by_cases ht : t = 0
      · subst ht; rfl
      · have hw : (Val.imm t).isNone = false := by
          cases t with
          | ofNat n => cases n with
            | zero => exact absurd rfl ht
            | succ n => rfl
          | negSucc n => rfl
        simp only [hw, Bool.false_eq_true, if_false, coreLandmarks_some ha hl hw, propOn, HM.bind, clsOf, hasAnswer]
        cases t with
        | ofNat n => cases n with
          | zero => exact absurd rfl ht
          | succ n => rfl
        | negSucc n => rfl
    | ref l =>
      have hw : (Val.ref l).isNone = false := rfl
      simp only [hw, Bool.false_eq_true, if_false, coreLandmarks_some ha hl hw, propOn, HM.bind, clsOf]
      cases hc : h[l]? with
      | none => rfl
      | some cell =>
        cases cell with
        | arr _ => rfl
        | dict _ => rfl
        | frozen _ => rfl
        | obj c' ls =>
          simp only
          cases c' with
          | shape _ => rfl
          | Image => rfl
          | other => rfl
          | LandmarkManager =>
            simp only [beq_self_eq_true, if_true, coreNGroups, HM.bind, getAttr, hc]
            cases hg : ls.lookup "_landmark_groups" with
            | none => rfl
            | some wg =>
              cases wg with
              | imm _ => rfl
              | ref g =>
                simp only [dictLen]
                cases hd : h[g]? with
                | none => rfl
                | some cell2 =>
                  cases cell2 with
                  | arr _ => rfl
                  | frozen _ => rfl
                  | obj _ _ => rfl
                  | dict gs =>
                    cases gs with
                    | nil => rfl
                    | cons g0 gt =>
                      simp only [HM.ok, hasAnswer, List.isEmpty_cons, Bool.false_eq_true, if_false, List.length_cons]
                      have : ((↑(gt.length + 1) : Int) != 0) = true := by
                        simp only [bne_iff_ne, ne_eq]; omega
                      rw [this]

/-- when `has_landmarks` is true, `self.landmarks` is the manager the model found, and its groups are the dict's -/
theorem hasLandmarks_some {h : Heap} {fs : Slots} {cl : Cls} {gs : Slots}
    (hh : hasLandmarks h fs = .ok (some (cl, gs))) :
    cl = .LandmarkManager ∧ ∃ l ls g, fs.lookup "_landmarks" = some (.ref l) ∧
      h[l]? = some (.obj .LandmarkManager ls) ∧ ls.lookup "_landmark_groups" = some (.ref g) ∧ h[g]? = some (.dict gs) := by
  unfold hasLandmarks at hh
  split at hh
  · cases hh
  · rename_i l hl
    split at hh
    · rename_i ls hc
      split at hh
      · rename_i g hg
        split at hh
        · rename_i gs' hd
          split at hh
          · cases hh
          · simp only [Except.ok.injEq, Option.some.injEq, Prod.mk.injEq] at hh
            obtain ⟨rfl, rfl⟩ := hh
            exact ⟨rfl, l, ls, g, hl, hc, hg, hd⟩
        · cases hh
      · cases hh
    · cases hh
  · cases hh

/-! ### the in-place pass -/

/-- `x._transform_inplace(t)` as the source states it — `Shape._transform_inplace` (has_landmarks, the `landmarks`
getter, the manager's `_transform_inplace`, `_transform_self_inplace`), `LandmarkManager._transform_inplace` (the loop
over `_landmark_groups.values()`), `PointCloud._transform_self_inplace` (`self.points = transform(self.points)`), every
call resolved on the class of the receiver's cell — ends, on EVERY heap, in the heap the model's `inplace` computes -/
theorem hInplace_eq (f : Arr → Arr) (d : Dispatch) : ∀ (n : Nat) (v : Val) (h : Heap),
    exceptHeap (hInplace coreHMethods d n v (okFn f) h) = inplace d f n h v
  | 0, v, h => by cases v <;> rfl
  | n + 1, .imm t, h => rfl
  | n + 1, .ref a, h => by
    have ih : (fun h v => exceptHeap (hInplace coreHMethods d n v (okFn f) h)) = inplace d f n :=
      funext fun h => funext fun v => hInplace_eq f d n v h
    simp only [hInplace, HM.bind, clsOf, inplace]
    cases ha : h[a]? with
    | none => rfl
    | some cell =>
      cases cell with
      | arr _ => rfl
      | dict _ => rfl
      | frozen _ => rfl
      | obj c fs =>
        simp only
        cases hs : supInplace d c with
        | none => rfl
        | some sup =>
          cases sup with
          | PointCloud => rfl
          | Copyable => rfl
          | LabelledPointUndirectedGraph => rfl
          | absent => rfl
          | unknown => rfl
          | Transformable => rfl
          | LandmarkManager =>
            simp only [chm_lmInplace, coreLmInplaceH, HM.bind, getAttr, ha]
            cases hg : fs.lookup "_landmark_groups" with
            | none => rfl
            | some wg =>
              cases wg with
              | imm _ => rfl
              | ref g =>
                simp only [dictValues]
                cases hd : h[g]? with
                | none => rfl
                | some cell2 =>
                  cases cell2 with
                  | arr _ => rfl
                  | frozen _ => rfl
                  | obj _ _ => rfl
                  | dict gs =>
                    simp only
                    have hl := hLoop_eq (hInplace coreHMethods d n) (okFn f) gs h
                    rw [ih] at hl
                    rw [← hl]
                    rcases HM.forLoop () (gs.map Prod.snd)
                      (fun _ it => HM.bind (hInplace coreHMethods d n it (okFn f)) fun _ => HM.ok ()) h with ⟨h1, r⟩
                    cases r <;> rfl
          | Shape =>
            simp only [chm_shapeInplace, coreShapeInplaceH, HM.bind, coreHasLandmarksH_eq ha, landmarksInplace]
            cases hh : hasLandmarks h fs with
            | error e => rfl
            | ok o =>
              cases o with
              | none =>
                simp only [hasAnswer, Bool.false_eq_true, if_false]
                exact hSelf_eq f d h a
              | some pr =>
                obtain ⟨cl, gs⟩ := pr
                obtain ⟨rfl, l, ls, g, hl, hc, hg, hd⟩ := hasLandmarks_some hh
                simp only [hasAnswer, if_true, coreLandmarks_some ha hl rfl, hInplaceM, HM.bind, clsOf, hc]
                cases hsm : supInplace d .LandmarkManager with
                | none => rfl
                | some sup2 =>
                  cases sup2 with
                  | Shape => rfl
                  | PointCloud => rfl
                  | Copyable => rfl
                  | LabelledPointUndirectedGraph => rfl
                  | absent => rfl
                  | unknown => rfl
                  | Transformable => rfl
                  | LandmarkManager =>
                    simp only [chm_lmInplace, coreLmInplaceH, HM.bind, getAttr, hc, hg, dictValues, hd]
                    have hlp := hLoop_eq (hInplace coreHMethods d n) (okFn f) gs h
                    rw [ih] at hlp
                    rw [← hlp]
                    rcases HM.forLoop () (gs.map Prod.snd)
                      (fun _ it => HM.bind (hInplace coreHMethods d n it (okFn f)) fun _ => HM.ok ()) h with ⟨h1, r⟩
                    cases r with
                    | error e => rfl
                    | ok u =>
                      simp only [exceptHeap, HM.ok]
                      exact hSelf_eq f d h1 a

/-- `x._transform(t)` of the source — `copy_of_self = self.copy(); copy_of_self._transform_inplace(t); return
copy_of_self` — is the model's `applyH`, on every heap -/
theorem hTransform_eq (f : Arr → Arr) (d : Dispatch) (k : Nat) (v : Val) (h : Heap) :
    exceptBoth (hTransform coreHMethods d k v (okFn f) h) = applyH d f k h v := by
  cases v with
  | imm t => rfl
  | ref a =>
    simp only [hTransform, HM.bind, clsOf, applyH]
    cases ha : h[a]? with
    | none => rfl
    | some cell =>
      cases cell with
      | arr _ => rfl
      | dict _ => rfl
      | frozen _ => rfl
      | obj c fs =>
        simp only
        cases hs : supTransform d c with
        | none => rfl
        | some sup =>
          cases sup with
          | Shape => rfl
          | PointCloud => rfl
          | LandmarkManager => rfl
          | Copyable => rfl
          | LabelledPointUndirectedGraph => rfl
          | absent => rfl
          | unknown => rfl
          | Transformable =>
            simp only [chm_transform, HM.bind, hCopy]
            cases hc : copy d k h (.ref a) with
            | error e => rfl
            | ok pr =>
              obtain ⟨h1, v1⟩ := pr
              simp only
              have hi := hInplace_eq f d k v1 h1
              generalize hInplace coreHMethods d k v1 (okFn f) h1 = q at hi ⊢
              obtain ⟨h2, r⟩ := q
              cases r with
              | error e => simp only [exceptHeap] at hi; rw [← hi]; rfl
              | ok u => simp only [exceptHeap] at hi; rw [← hi]; rfl

/-! ### the heap theorems, about the methods as the source states them -/

theorem hTransform_ok {f : Arr → Arr} {d : Dispatch} {k : Nat} {v v' : Val} {h h' : Heap}
    (hrun : hTransform coreHMethods d k v (okFn f) h = (h', .ok v')) : applyH d f k h v = .ok (h', v') := by
  rw [← hTransform_eq, hrun]; rfl

theorem hTransform_of_ok {f : Arr → Arr} {d : Dispatch} {k : Nat} {v v' : Val} {h h' : Heap}
    (hr : applyH d f k h v = .ok (h', v')) : hTransform coreHMethods d k v (okFn f) h = (h', .ok v') := by
  rw [← hTransform_eq] at hr
  generalize hTransform coreHMethods d k v (okFn f) h = q at hr ⊢
  obtain ⟨h2, r⟩ := q
  cases r with
  | error e => simp [exceptBoth] at hr
  | ok u =>
    simp only [exceptBoth, Except.ok.injEq, Prod.mk.injEq] at hr
    obtain ⟨rfl, rfl⟩ := hr
    rfl

/-- PROPERTY (a, b, c, d on the heap, every attribute, every depth) of `x._transform(t)` AS THE SOURCE STATES IT: on
every heap on which `v` holds a shape `s` (any of the 8 classes, groups nested to any depth, any sharing), the call
writes NO cell that existed, leaves the input holding `s`, and returns a NEW object holding `mapShape f s` with all
other attributes of every object of the tree deep-equal -/
theorem h_apply_deep (f : Arr → Arr) (k : Nat) (s : Shape) (h h' : Heap) (v v' : Val)
    (r : RepD h.length h s v) (hrun : hTransform coreHMethods expectedDispatch k v (okFn f) h = (h', .ok v')) :
    (h.length ≤ h'.length ∧ ∀ a, a < h.length → h'[a]? = h[a]?) ∧
    RepD h'.length h' s v ∧
    (∃ a', v' = .ref a' ∧ h.length ≤ a') ∧
    RepD h'.length h' (mapShape f s) v' :=
  apply_deep f k s h h' v v' r (hTransform_ok hrun)

/-- (d) "mutates nothing" for the source's `_transform` -/
theorem h_apply_no_write (f : Arr → Arr) (k : Nat) (s : Shape) (h h' : Heap) (v v' : Val)
    (r : Rep h s v) (hrun : hTransform coreHMethods expectedDispatch k v (okFn f) h = (h', .ok v')) :
    h.length ≤ h'.length ∧ ∀ a, a < h.length → h'[a]? = h[a]? :=
  apply_no_write f k s h h' v v' r (hTransform_ok hrun)

/-- (a, b, c) for the source's `_transform`, over `Rep` -/
theorem h_apply_result (f : Arr → Arr) (k : Nat) (s : Shape) (h h' : Heap) (v v' : Val)
    (r : Rep h s v) (hrun : hTransform coreHMethods expectedDispatch k v (okFn f) h = (h', .ok v')) :
    (∃ a', v' = .ref a' ∧ h.length ≤ a') ∧ Rep h' (mapShape f s) v' :=
  apply_result f k s h h' v v' r (hTransform_ok hrun)

/-- (b) every landmark group at every depth, on the heap: the group object reached by a path of names from the input is
untouched, the one reached from the result is new and holds the mapped group -/
theorem h_apply_at_deep (f : Arr → Arr) (k : Nat) (s : Shape) (h h' : Heap) (v v' : Val)
    (r : RepD h.length h s v) (hrun : hTransform coreHMethods expectedDispatch k v (okFn f) h = (h', .ok v'))
    (path : List String) (g : Shape) (hg : s.at path = some g) :
    ∃ w w', atH h v path = some w ∧ atH h' v path = some w ∧ atH h' v' path = some w' ∧
      RepD h'.length h' g w ∧ RepD h'.length h' (mapShape f g) w' ∧ ∃ b, w' = .ref b ∧ h.length ≤ b :=
  apply_at_deep f k s h h' v v' r (hTransform_ok hrun) path g hg

/-- `transform.apply(shape.landmarks)`: the source's `_transform` on a LandmarkManager -/
theorem h_apply_manager_deep (f : Arr → Arr) (k : Nat) (gs : Groups) (h h' : Heap) (v v' : Val)
    (r : RepMD h.length h gs v) (hrun : hTransform coreHMethods expectedDispatch k v (okFn f) h = (h', .ok v')) :
    Ext h h' ∧ RepMD h'.length h' gs v ∧ RepMD h'.length h' (mapGroups f gs) v' ∧
      ∃ l', v' = .ref l' ∧ h.length ≤ l' :=
  apply_manager_deep f k gs h h' v v' r (hTransform_ok hrun)

/-- total correctness of the source's `_transform`: on a finite object graph of classes the table lists, with fuel for
its depth, the call RETURNS -/
theorem h_apply_succeeds (f : Arr → Arr) (k J : Nat) (s : Shape) (h : Heap) (v : Val) (t : List Tok)
    (r : RepD h.length h s v) (hd : digest J h v = some t) (hk : KnownToks t) (hJ : J ≤ k) (hs : s.depth ≤ k) :
    ∃ h' v', hTransform coreHMethods expectedDispatch k v (okFn f) h = (h', .ok v') := by
  obtain ⟨h', v', hr⟩ := apply_succeeds f k J s h v t r hd hk hJ hs
  exact ⟨h', v', hTransform_of_ok hr⟩

/-! ### histories -/

/-- a history of calls through the source's methods is the model's history, on every heap -/
theorem hRun_eq (d : Dispatch) : ∀ (calls : List Call) (vs : List Val) (h : Heap),
    exceptBoth (hRun coreHMethods d calls vs h) = runH d calls h vs
  | [], vs, h => rfl
  | c :: cs, vs, h => by
    simp only [hRun, runH]
    cases hv : vs[c.src]? with
    | none => rfl
    | some v =>
      simp only [HM.bind]
      have ht := hTransform_eq c.f d c.fuel v h
      generalize hTransform coreHMethods d c.fuel v (okFn c.f) h = q at ht ⊢
      obtain ⟨h1, r⟩ := q
      cases r with
      | error e => simp only [exceptBoth] at ht; rw [← ht]; rfl
      | ok v' =>
        simp only [exceptBoth] at ht
        rw [← ht]
        exact hRun_eq d cs (vs ++ [v']) h1

/-- HISTORY / ALIASING invariant for the methods as the source states them: whatever the initial objects share, after
any sequence of calls on them and on earlier results no cell that existed at the start has been written and every
initial object still holds its shape; the results hold the value-level results and are new objects -/
theorem h_run_refines (calls : List Call) (h : Heap) (vs : List Val) (ss : List Shape) (h' : Heap) (vs' : List Val)
    (r : AllRep h ss vs) (hrun : hRun coreHMethods expectedDispatch calls vs h = (h', .ok vs')) :
    ∃ ss', runV expectedDispatch calls ss = .ok ss' ∧ Ext h h' ∧ AllRep h' ss' vs' ∧
      (∃ ts, ss' = ss ++ ts) ∧ ∃ tv, vs' = vs ++ tv ∧ ∀ w, w ∈ tv → ∃ a, w = .ref a ∧ h.length ≤ a := by
  have hr : runH expectedDispatch calls h vs = .ok (h', vs') := by rw [← hRun_eq, hrun]; rfl
  exact run_refines calls h vs ss h' vs' r hr

theorem h_run_mutates_nothing (calls : List Call) (h : Heap) (vs : List Val) (ss : List Shape) (h' : Heap)
    (vs' : List Val) (r : AllRep h ss vs) (hrun : hRun coreHMethods expectedDispatch calls vs h = (h', .ok vs')) :
    (h.length ≤ h'.length ∧ ∀ a, a < h.length → h'[a]? = h[a]?) ∧ AllRep h' ss vs := by
  have hr : runH expectedDispatch calls h vs = .ok (h', vs') := by rw [← hRun_eq, hrun]; rfl
  exact run_mutates_nothing calls h vs ss h' vs' r hr

-- the hypotheses are satisfiable and the run is the model's run on a concrete 19-cell heap
example : exceptBoth (hTransform coreHMethods expectedDispatch 8 exVal (okFn exF) exHeap) =
    applyH expectedDispatch exF 8 exHeap exVal := hTransform_eq exF expectedDispatch 8 exVal exHeap
example : ∃ h' v', hTransform coreHMethods expectedDispatch 8 exVal (okFn exF) exHeap = (h', .ok v') := by
  have h : (applyH expectedDispatch exF 8 exHeap exVal).toOption.isSome = true := by decide
  cases hr : applyH expectedDispatch exF 8 exHeap exVal with
  | error e => rw [hr] at h; cases h
  | ok pr => exact ⟨pr.1, pr.2, hTransform_of_ok hr⟩

end MenpoModel.C02
