/-
C15 — labelled groups select exactly what labels say, in deterministic order; the predefined index-based
labellers only re-index.  Property theorems, assembled:

* `Props/C15Base.lean`    selection / `get_label` / `add_label` / `remove_label`, the coverage invariant over
                          operation sequences, the refutations of the behaviour coded before the repairs, labellers
                          as `gather` (size, commutation, distinct input points, every output point labelled);
* `Props/C15Sel.lean`     selection exactly under the code's guards (`select_iff`, `select_error_iff`), permuted and
                          duplicated requests, `without_labels` of every label, unknown names, the constructors
                          (`construct_iff`, `initFromIndices_spec`), the `str` form;
* `Props/C15Rename.lean`  the determinism clause: every operation sequence commutes with every injective renaming
                          of the labels (no dependence on hashes or on how names compare);
* `Props/C15Lab.lean`     the labelled result reproduces the labeller's table on every input (masks, points under
                          each label — also in gather form —, connectivity through the index list), selection
                          after labelling;
* `Props/C15Entry.lean`   `labeller_func`'s wrapper per input kind / `return_mapping`, and `labeller()` on a landmark
                          manager (source and all other groups untouched, exactly the new group written);
* `Props/C15Src.lean`     the code-shaped definitions of Core/C15Src.lean (the vocabulary of the source-text translation)
                          are the definitions above on every well-formed group.
-/
import MenpoModel.Props.C15Base
import MenpoModel.Props.C15Sel
import MenpoModel.Props.C15Rename
import MenpoModel.Props.C15Lab
import MenpoModel.Props.C15Entry
import MenpoModel.Props.C15Src
import MenpoModel.Props.C15SrcLab
