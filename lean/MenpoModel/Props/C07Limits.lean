/-
C07 — what the contract-parameter theorems do NOT cover, stated as theorems (audit finding F1 / F7).

The model is over ℚ and `np.linalg.norm` / `np.linalg.svd` are modelled as rational answers with an EXACT contract
(`r·r = norm2`, `U·diag D·Vt = M`, …).  For a generic rational point set the square root and the singular vectors are
irrational, so no rational witness exists: the scale / rotation / similarity / TPS-as-coded / GPA theorems that take such a
contract as hypothesis speak only about inputs whose norm / SVD happen to be rational (the `rotx` generator, Pythagorean
data).  `contract_unsatisfiable` exhibits an ordinary 2-point target for which the size contract has no rational solution.
`simFitE_reproduces_centroid` is the centroid clause with the zero-size source excluded explicitly (the plain
`similarity_reproduces_centroid` also "holds" for a zero-size source, where the model's scale is `rT / 0 = 0` while the code
produces NaN / raises).
-/
import MenpoModel.Props.C07Base
import Mathlib.NumberTheory.Real.Irrational

namespace MenpoModel.C07

/-- a 2-point target whose squared size is 2 -/
def limitT : Mat 2 2 := fun i j => if j.val = 0 then (if i.val = 0 then 0 else 2) else 0

theorem limitT_norm2 : norm2 limitT = 2 := by decide +kernel

theorem no_rat_sqrt_two : ¬ ∃ r : ℚ, r * r = 2 := by
  rintro ⟨r, h⟩
  have hirr : Irrational (Real.sqrt 2) := irrational_sqrt_two
  apply hirr
  refine ⟨|r|, ?_⟩
  have h2 : ((|r| : ℚ) : ℝ) ^ 2 = 2 := by
    have : (|r| : ℚ) ^ 2 = 2 := by rw [sq_abs, sq]; exact h
    exact_mod_cast this
  have hnn : (0:ℝ) ≤ ((|r| : ℚ) : ℝ) := by exact_mod_cast abs_nonneg r
  rw [← h2, Real.sqrt_sq hnn]

/-- **the size hypothesis of `scale_reproduces_size` / `similarity_reproduces_size` (`rT·rT = norm2 T`) cannot be met by
any rational answer of `np.linalg.norm` for this ordinary target**: those theorems are silent about it -/
theorem contract_unsatisfiable : ¬ ∃ rT : ℚ, rT * rT = norm2 limitT := by
  rw [limitT_norm2]; exact no_rat_sqrt_two

/-- the centroid clause with the degenerate (zero-size source) branch of the code excluded explicitly -/
theorem simFitE_reproduces_centroid {n d : ℕ} (hn : n ≠ 0) (rotation : Bool) (rT rS : ℚ) (R : Mat d d) (S T : Mat n d)
    (H : HMat d) (h : simFitE rotation rT rS R S T = some H) :
    rS ≠ 0 ∧ centroid (applyH H S) = centroid T := by
  unfold simFitE normRatio at h
  by_cases h0 : rS = 0
  · simp [h0] at h
  · simp only [h0, if_false, Option.map_some, Option.some.injEq] at h
    subst h
    exact ⟨h0, similarity_reproduces_centroid hn rotation rT rS R S T⟩

end MenpoModel.C07
