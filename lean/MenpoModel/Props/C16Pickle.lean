/-
C16 — the pickle clause, as far as it is menpo's own code: "any menpo object written as a plain or gzipped pickle comes
back with equal state (apart from the recorded file path)".  Python's serialiser itself is a contract parameter (the
tree written is the tree read); which opener writes and which importer reads is `export_import_agree`
(Props/C16Ext.lean).  Here: what `pickle_paths_as_pure` and `_import` do to the tree.

  pickle_roundtrip_object     a menpo object (an instance with attributes) comes back as the same class with the same
                              attributes in the same order, every value equal up to Path ↦ PurePath, NOTHING attached
                              below the top level, and exactly one change at the top: a `path` attribute holding the
                              file's path is added if the object had none
  pickle_state_equal          hence: equal state apart from the recorded file path (`stripPath`), up to Path ↦ PurePath
  purify_idem / purify_noop   pickling paths as pure is idempotent, and the identity on trees without a concrete path
  pickle_roundtrip_dict       a dictionary of objects: same keys in the same order, each value as above
  pickle_roundtrip_list       a list of n ≠ 1 objects: a list of n objects, each as above
  pickle_singleton_list_unwrapped   OUTSIDE the quantifier (a list is not a menpo object), modelled as it is: a pickled
                              ONE-element list comes back as its element (`_import` unwraps it)
  hook_restored               `Path.__reduce__` is the default again after any sequence of exports, failing ones included
-/
import MenpoModel.Core.C16Pickle

namespace MenpoModel.C16

/-! ### paths pickled as pure -/

mutual
theorem purify_idem : ∀ v : PVal, purify (purify v) = purify v
  | .atom _ => by simp [purify]
  | .path _ _ => by simp [purify]
  | .list xs => by simp [purify, purifyL_idem xs]
  | .tuple xs => by simp [purify, purifyL_idem xs]
  | .dict kvs => by simp [purify, purifyKV_idem kvs]
  | .obj _ fs => by simp [purify, purifyKV_idem fs]
theorem purifyL_idem : ∀ xs : List PVal, purifyL (purifyL xs) = purifyL xs
  | [] => by simp [purifyL]
  | x :: t => by simp [purifyL, purify_idem x, purifyL_idem t]
theorem purifyKV_idem : ∀ kvs : List (String × PVal), purifyKV (purifyKV kvs) = purifyKV kvs
  | [] => by simp [purifyKV]
  | (k, v) :: t => by simp [purifyKV, purify_idem v, purifyKV_idem t]
end

mutual
/-- no concrete `pathlib.Path` anywhere in the tree -/
def pathFree : PVal → Bool
  | .atom _ => true
  | .path c _ => !c
  | .list xs => pathFreeL xs
  | .tuple xs => pathFreeL xs
  | .dict kvs => pathFreeKV kvs
  | .obj _ fs => pathFreeKV fs
def pathFreeL : List PVal → Bool
  | [] => true
  | x :: t => pathFree x && pathFreeL t
def pathFreeKV : List (String × PVal) → Bool
  | [] => true
  | (_, v) :: t => pathFree v && pathFreeKV t
end

mutual
theorem purify_noop : ∀ v : PVal, pathFree v = true → purify v = v
  | .atom _, _ => by simp [purify]
  | .path c ps, h => by
    simp only [pathFree, Bool.not_eq_true'] at h
    simp [purify, h]
  | .list xs, h => by simp only [pathFree] at h; simp [purify, purifyL_noop xs h]
  | .tuple xs, h => by simp only [pathFree] at h; simp [purify, purifyL_noop xs h]
  | .dict kvs, h => by simp only [pathFree] at h; simp [purify, purifyKV_noop kvs h]
  | .obj _ fs, h => by simp only [pathFree] at h; simp [purify, purifyKV_noop fs h]
theorem purifyL_noop : ∀ xs : List PVal, pathFreeL xs = true → purifyL xs = xs
  | [], _ => by simp [purifyL]
  | x :: t, h => by
    simp only [pathFreeL, Bool.and_eq_true] at h
    simp [purifyL, purify_noop x h.1, purifyL_noop t h.2]
theorem purifyKV_noop : ∀ kvs : List (String × PVal), pathFreeKV kvs = true → purifyKV kvs = kvs
  | [], _ => by simp [purifyKV]
  | (k, v) :: t, h => by
    simp only [pathFreeKV, Bool.and_eq_true] at h
    simp [purifyKV, purify_noop v h.1, purifyKV_noop t h.2]
end

mutual
theorem purify_pathFree : ∀ v : PVal, pathFree (purify v) = true
  | .atom _ => by simp [purify, pathFree]
  | .path _ _ => by simp [purify, pathFree]
  | .list xs => by simp [purify, pathFree, purifyL_pathFree xs]
  | .tuple xs => by simp [purify, pathFree, purifyL_pathFree xs]
  | .dict kvs => by simp [purify, pathFree, purifyKV_pathFree kvs]
  | .obj _ fs => by simp [purify, pathFree, purifyKV_pathFree fs]
theorem purifyL_pathFree : ∀ xs : List PVal, pathFreeL (purifyL xs) = true
  | [] => by simp [purifyL, pathFreeL]
  | x :: t => by simp [purifyL, pathFreeL, purify_pathFree x, purifyL_pathFree t]
theorem purifyKV_pathFree : ∀ kvs : List (String × PVal), pathFreeKV (purifyKV kvs) = true
  | [] => by simp [purifyKV, pathFreeKV]
  | (k, v) :: t => by simp [purifyKV, pathFreeKV, purify_pathFree v, purifyKV_pathFree t]
end

theorem hasField_purifyKV (k : String) : ∀ fs : List (String × PVal), hasField k (purifyKV fs) = hasField k fs
  | [] => by simp [purifyKV, hasField]
  | (k', v) :: t => by simp [purifyKV, hasField, hasField_purifyKV k t]

theorem purifyKV_keys : ∀ fs : List (String × PVal), (purifyKV fs).map Prod.fst = fs.map Prod.fst
  | [] => by simp [purifyKV]
  | (k, v) :: t => by simp [purifyKV, purifyKV_keys t]

/-! ### the round trip of one menpo object -/

/-- the state of an object apart from the recorded file path -/
def stripPath : PVal → PVal
  | .obj c fs => .obj c (fs.filter fun f => f.1 != "path")
  | v => v

/-- PROPERTY (pickle, one menpo object).  An instance with attributes `fs` comes back as an instance of the same class
whose attributes are `fs` in the same order with every concrete path made pure — nothing else changes anywhere in the
tree — plus, if it had no `path` attribute, a `path` attribute holding the file's path. -/
theorem pickle_roundtrip_object (file : PVal) (c : String) (fs : List (String × PVal)) :
    pickleRoundTrip file (.obj c fs) =
      .obj c (purifyKV fs ++ if hasField "path" fs then [] else [("path", file)]) := by
  simp only [pickleRoundTrip, purify, importWrap, List.map_cons, List.map_nil, attachBuilt, attachPath,
    hasField_purifyKV]
  split <;> simp

theorem filter_path_append (fs : List (String × PVal)) (file : PVal) :
    (fs ++ [("path", file)]).filter (fun f => f.1 != "path") = fs.filter fun f => f.1 != "path" := by
  simp [List.filter_append]

/-- PROPERTY (pickle): equal state apart from the recorded file path (and up to Path ↦ PurePath). -/
theorem pickle_state_equal (file : PVal) (c : String) (fs : List (String × PVal)) :
    stripPath (pickleRoundTrip file (.obj c fs)) = stripPath (purify (.obj c fs)) ∧
    (pathFree (.obj c fs) = true → stripPath (pickleRoundTrip file (.obj c fs)) = stripPath (.obj c fs)) := by
  have h1 : stripPath (pickleRoundTrip file (.obj c fs)) = stripPath (purify (.obj c fs)) := by
    rw [pickle_roundtrip_object]
    simp only [purify, stripPath]
    split
    · simp
    · rw [filter_path_append]
  refine ⟨h1, ?_⟩
  intro hp
  rw [h1, purify_noop _ hp]

/-! ### containers -/

theorem attachKV_keys (file : PVal) : ∀ kvs : List (String × PVal), (attachKV file kvs).map Prod.fst = kvs.map Prod.fst
  | [] => by simp [attachKV]
  | (k, v) :: t => by simp [attachKV, attachKV_keys file t]

/-- a dictionary comes back as a dictionary with the same keys in the same order; each value is the pickled value with
a `path` attached if it is an object without one -/
theorem pickle_roundtrip_dict (file : PVal) (kvs : List (String × PVal)) :
    pickleRoundTrip file (.dict kvs) = .dict (attachKV file (purifyKV kvs)) ∧
    (attachKV file (purifyKV kvs)).map Prod.fst = kvs.map Prod.fst := by
  refine ⟨by simp [pickleRoundTrip, purify, importWrap, attachBuilt], ?_⟩
  rw [attachKV_keys, purifyKV_keys]

theorem length_purifyL : ∀ xs : List PVal, (purifyL xs).length = xs.length
  | [] => by simp [purifyL]
  | x :: t => by simp [purifyL, length_purifyL t]

/-- a list of `n ≠ 1` values comes back as a list of `n` values, each of them treated as a result of its own -/
theorem pickle_roundtrip_list (file : PVal) (xs : List PVal) (h : xs.length ≠ 1) :
    pickleRoundTrip file (.list xs) = .list ((purifyL xs).map (attachBuilt file)) ∧
    ((purifyL xs).map (attachBuilt file)).length = xs.length := by
  refine ⟨?_, by simp [length_purifyL]⟩
  simp only [pickleRoundTrip, purify, importWrap]
  have hl : ((purifyL xs).map (attachBuilt file)).length ≠ 1 := by simpa [length_purifyL] using h
  split
  · rename_i x heq
    rw [heq] at hl
    simp at hl
  · rfl

/-- OUTSIDE the quantifier (a `list` is not a menpo object), modelled as the code is: a pickled one-element list comes
back as its element, not as a list -/
theorem pickle_singleton_list_unwrapped (file : PVal) (x : PVal) :
    pickleRoundTrip file (.list [x]) = attachBuilt file (purify x) := by
  simp [pickleRoundTrip, purify, purifyL, importWrap]

/-! ### the patched `Path.__reduce__` -/

/-- after any sequence of pickle exports — whether `pickle.dump` succeeded or raised — `Path.__reduce__` is what it was -/
theorem hook_restored (h : Hook) : ∀ oks : List Bool, hookAfter h oks = h
  | [] => rfl
  | ok :: t => by simp only [hookAfter, withPurePaths]; exact hook_restored h t

/-! ### non-vacuity -/

/-- an image-like object with a concrete `path`, a nested object (which must not get a path), and a list of paths -/
def exObj : PVal :=
  .obj "Image" [("pixels", .atom 1), ("path", .path true ["/", "a", "b.png"]),
    ("landmarks", .obj "LandmarkManager" [("g", .obj "PointCloud" [("points", .atom 2)])]),
    ("extra", .list [.path true ["x"], .path false ["y"]])]

example : pickleRoundTrip (.path true ["/", "t", "o.pkl"]) exObj =
    .obj "Image" [("pixels", .atom 1), ("path", .path false ["/", "a", "b.png"]),
      ("landmarks", .obj "LandmarkManager" [("g", .obj "PointCloud" [("points", .atom 2)])]),
      ("extra", .list [.path false ["x"], .path false ["y"]])] := by rfl

example : pickleRoundTrip (.path true ["o.pkl"]) (.list [.obj "A" [], .atom 3, .obj "B" [("path", .atom 0)]]) =
    .list [.obj "A" [("path", .path true ["o.pkl"])], .atom 3, .obj "B" [("path", .atom 0)]] := by rfl

example : pickleRoundTrip (.path true ["o.pkl"]) (.list [.list [.obj "A" []]]) =
    .list [.obj "A" [("path", .path true ["o.pkl"])]] := by rfl

end MenpoModel.C16
