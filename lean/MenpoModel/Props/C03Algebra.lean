/-
C03 — the class algebra of composition.

`resultCls a b` is the class `Homogeneous._compose_before/_after` report for operands of class
`a` and `b` (`ladder_spec`).  Here it is shown to be the *join* of the two classes in the subclass
order of the seven non-alignment classes (after stripping the alignment nature): the least upper
bound, commutative, associative, idempotent.  Consequently the class of the object an arbitrarily
nested expression of `compose_before` / `compose_after` calls returns depends only on the classes
of the operands that occur in it — not on their order, the directions or the nesting — and is a
`TransformChain` exactly when an operand that is not a family member (a chain, `WithDims`, a
thin-plate spline, a piecewise affine transform) occurs.
-/
import MenpoModel.Props.C03Base

namespace MenpoModel.C03

variable {d : Nat}

/-! ## the join on classes (finite: decided over all 12², 12³ tuples) -/

private theorem join_assoc_all : ∀ a ∈ HCls.all, ∀ b ∈ HCls.all, ∀ c ∈ HCls.all,
    resultCls (resultCls a b) c = resultCls a (resultCls b c) := by decide +kernel

private theorem join_lub_all : ∀ a ∈ HCls.all, ∀ b ∈ HCls.all, ∀ c ∈ HCls.all,
    baseLe (baseOf a) (baseOf c) = true → baseLe (baseOf b) (baseOf c) = true →
    baseLe (resultCls a b) (baseOf c) = true := by decide +kernel

private theorem join_facts_all : ∀ a ∈ HCls.all, ∀ b ∈ HCls.all,
    resultCls a a = baseOf a ∧ resultCls a b = resultCls (baseOf a) (baseOf b) ∧
    (baseLe (baseOf b) (baseOf a) = true → resultCls a b = baseOf a) ∧
    (accepts E (inplaceWith E a) b = true →
      resultCls a b = baseOf a ∨ (baseOf a = .NonUniformScale ∧ baseOf b = .UniformScale)) := by
  decide +kernel

/-- PROPERTY (class algebra, all 12³ triples): the class reported by native composition is
commutative and associative — re-bracketing or re-ordering a sequence of compositions never changes
the reported class. -/
theorem join_comm_assoc (a b c : HCls) :
    resultCls a b = resultCls b a ∧
    resultCls (resultCls a b) c = resultCls a (resultCls b c) :=
  ⟨(resultCls_sound a b).2.2.2.2,
   join_assoc_all a (HCls.mem_all a) b (HCls.mem_all b) c (HCls.mem_all c)⟩

/-- PROPERTY (the reported class is the *first common ancestor*): it is an upper bound of both
(de-aligned) operand classes (`resultCls_sound`) and lies below every other non-alignment class
that is one — the least upper bound in the subclass order. -/
theorem join_least (a b c : HCls)
    (ha : baseLe (baseOf a) (baseOf c) = true) (hb : baseLe (baseOf b) (baseOf c) = true) :
    baseLe (resultCls a b) (baseOf c) = true :=
  join_lub_all a (HCls.mem_all a) b (HCls.mem_all b) c (HCls.mem_all c) ha hb

/-- PROPERTY (idempotence, alignment stripping, absorption; all 12² pairs): composing two objects
of one class stays in that class without its alignment nature; the alignment nature of an operand
never influences the result class; an operand whose class lies below the other's is absorbed; and
the in-place gate only admits operands the receiver's class absorbs (or a `UniformScale` into a
`NonUniformScale`). -/
theorem join_idem_strip (a b : HCls) :
    resultCls a a = baseOf a ∧ resultCls a b = resultCls (baseOf a) (baseOf b) ∧
    (baseLe (baseOf b) (baseOf a) = true → resultCls a b = baseOf a) ∧
    (accepts E (inplaceWith E a) b = true →
      resultCls a b = baseOf a ∨ (baseOf a = .NonUniformScale ∧ baseOf b = .UniformScale)) :=
  join_facts_all a (HCls.mem_all a) b (HCls.mem_all b)

/-! ## kinds: a family class, or "not a family member" -/

/-- what composition looks at: the class of a family object; `none` for a chain, a `WithDims`, a
thin-plate spline, a piecewise affine transform -/
def kindOf : Cell → Option HCls
  | .fam _ t => some t.cls
  | _ => none

/-- the kind of `x.compose_before(y)` / `x.compose_after(y)`: the join of two family classes, and
a `TransformChain` (`none`) as soon as one operand is not a family member -/
def kjoin : Option HCls → Option HCls → Option HCls
  | some a, some b => some (resultCls a b)
  | _, _ => none

theorem kjoin_comm (x y : Option HCls) : kjoin x y = kjoin y x := by
  cases x <;> cases y <;> simp [kjoin, (join_comm_assoc _ _ .Affine).1]

theorem kjoin_assoc (x y z : Option HCls) : kjoin (kjoin x y) z = kjoin x (kjoin y z) := by
  cases x <;> cases y <;> cases z <;> simp [kjoin, (join_comm_assoc _ _ _).2]

/-- the join of a non-empty list of kinds -/
def joinAll : List (Option HCls) → Option HCls
  | [] => none
  | [k] => k
  | k :: k' :: ks => kjoin k (joinAll (k' :: ks))

theorem joinAll_cons (k : Option HCls) {ks : List (Option HCls)} (h : ks ≠ []) :
    joinAll (k :: ks) = kjoin k (joinAll ks) := by
  cases ks with
  | nil => exact absurd rfl h
  | cons k' ks => rfl

theorem joinAll_append {l1 l2 : List (Option HCls)} (h1 : l1 ≠ []) (h2 : l2 ≠ []) :
    joinAll (l1 ++ l2) = kjoin (joinAll l1) (joinAll l2) := by
  induction l1 with
  | nil => exact absurd rfl h1
  | cons k ks ih =>
    cases ks with
    | nil => rw [List.singleton_append, joinAll_cons k h2]; rfl
    | cons k' ks =>
      have hne : (k' :: ks) ++ l2 ≠ [] := by simp
      rw [List.cons_append, joinAll_cons k hne, ih (by simp), joinAll_cons k (by simp), kjoin_assoc]

/-- the join of a list of kinds does not depend on the order -/
theorem joinAll_perm {l1 l2 : List (Option HCls)} (h : l1.Perm l2) : joinAll l1 = joinAll l2 := by
  induction h with
  | nil => rfl
  | @cons x l1 l2 hp ih =>
    cases l1 with
    | nil => rw [List.Perm.eq_nil (List.Perm.symm hp)]
    | cons y ys =>
      have h2 : l2 ≠ [] := fun e => by rw [e] at hp; exact absurd (List.Perm.eq_nil hp) (by simp)
      rw [joinAll_cons x (by simp), joinAll_cons x h2, ih]
  | swap x y l =>
    cases l with
    | nil => simp [joinAll, kjoin_comm]
    | cons z zs =>
      rw [joinAll_cons y (by simp), joinAll_cons x (by simp), joinAll_cons x (by simp),
        joinAll_cons y (by simp), ← kjoin_assoc, ← kjoin_assoc, kjoin_comm y x]
  | trans _ _ ih1 ih2 => rw [ih1, ih2]

/-! ## expression trees of compose calls -/

/-- an arbitrarily nested expression of non-in-place compose calls over objects of the store -/
inductive CExpr
  | atom (i : Nat)
  | comp (dir : Dir) (l r : CExpr)

def CExpr.atoms : CExpr → List Nat
  | .atom i => [i]
  | .comp _ l r => l.atoms ++ r.atoms

theorem CExpr.atoms_ne_nil (e : CExpr) : e.atoms ≠ [] := by
  induction e with
  | atom i => simp [CExpr.atoms]
  | comp dir l r ihl _ => simp [CExpr.atoms, ihl]

/-- evaluate the expression the way Python does — receiver first, then the argument, then the
call — every call being one `step` of the model (the intermediate results are cells of the store) -/
def evalE (tbl : ClassTable) : Store → CExpr → Except Err (Store × Nat)
  | st, .atom i => if i < st.length then .ok (st, i) else .error .badRef
  | st, .comp dir l r =>
    match evalE tbl st l with
    | .error e => .error e
    | .ok (st1, a) =>
      match evalE tbl st1 r with
      | .error e => .error e
      | .ok (st2, b) =>
        match step tbl st2 (.compose dir a b) with
        | .ok (st3, some c) => .ok (st3, c)
        | .ok (_, none) => .error .badRef
        | .error e => .error e

/-- the predicted kind of the value of an expression -/
def CExpr.kind (st : Store) : CExpr → Option HCls
  | .atom i => (st[i]?).bind kindOf
  | .comp _ l r => kjoin (l.kind st) (r.kind st)

theorem CExpr.kind_congr {st st' : Store} (e : CExpr) (h : ∀ i ∈ e.atoms, st'[i]? = st[i]?) :
    e.kind st' = e.kind st := by
  induction e with
  | atom i => simp [CExpr.kind, h i (by simp [CExpr.atoms])]
  | comp dir l r ihl ihr =>
    simp only [CExpr.kind]
    rw [ihl (fun i hi => h i (by simp [CExpr.atoms, hi])), ihr (fun i hi => h i (by simp [CExpr.atoms, hi]))]

/-- PROPERTY (the class of an expression is the join of the classes of its operands): the predicted
kind depends only on the kinds of the atoms, as a multiset. -/
theorem kind_eq_joinAll (st : Store) (e : CExpr) :
    e.kind st = joinAll (e.atoms.map fun i => (st[i]?).bind kindOf) := by
  induction e with
  | atom i => rfl
  | comp dir l r ihl ihr =>
    simp only [CExpr.kind, CExpr.atoms, List.map_append]
    rw [joinAll_append (by simpa using l.atoms_ne_nil) (by simpa using r.atoms_ne_nil), ihl, ihr]

/-- the operands an expression may mention: existing objects, the family members among them all of
dimension `d` -/
def AtomsOK (d : Nat) (st : Store) (e : CExpr) : Prop :=
  ∀ i ∈ e.atoms, i < st.length ∧ ∀ d' (t : HT d'), st[i]? = some (.fam d' t) → d' = d

theorem composeCell_kind {st : Store} (hg : Good st) {dir : Dir} {a b : Nat} {ca cb : Cell}
    (ha : st[a]? = some ca) (hb : st[b]? = some cb)
    (hda : ∀ d' (t : HT d'), ca = .fam d' t → d' = d) (hdb : ∀ d' (t : HT d'), cb = .fam d' t → d' = d) :
    ∃ c, composeCell E st dir a b = .ok c ∧ kindOf c = kjoin (kindOf ca) (kindOf cb) ∧
      (∀ p, c ≠ .leaf p) ∧ ∀ d' (t : HT d'), c = .fam d' t → d' = d := by
  cases ca with
  | fam d1 s =>
    cases cb with
    | fam d2 t =>
      have e1 := hda d1 s rfl; subst e1
      have e2 := hdb d2 t rfl; subst e2
      obtain ⟨r, hc, hl⟩ := compose_family_single st hg dir a b s t ha hb
      obtain ⟨r', hr', _, hcls⟩ := ladder_spec dir s t (hg.2 _ s (List.mem_of_getElem? ha))
        (hg.2 _ t (List.mem_of_getElem? hb))
      rw [hl] at hr'; cases hr'
      exact ⟨_, hc, by simp [kindOf, kjoin, hcls], (fun p h => nomatch h),
        fun d' t' h => (by cases h; rfl)⟩
    | chain ns =>
      exact ⟨.chain (orderPair dir a b), by simp [composeCell, ha, hb], rfl, (fun p h => nomatch h),
        (fun d' t' h => nomatch h)⟩
    | leaf p =>
      exact ⟨.chain (orderPair dir a b), by simp [composeCell, ha, hb], rfl, (fun p h => nomatch h),
        (fun d' t' h => nomatch h)⟩
  | chain ms =>
    refine ⟨.chain (chainAdd dir ms b), by simp [composeCell, ha, hb], ?_, (fun p h => nomatch h),
      (fun d' t' h => nomatch h)⟩
    cases cb <;> rfl
  | leaf p =>
    refine ⟨.chain (orderPair dir a b), by simp [composeCell, ha, hb], ?_, (fun p h => nomatch h),
      (fun d' t' h => nomatch h)⟩
    cases cb <;> rfl

/-- PROPERTY (class of the final object of a compose expression of unbounded size, all sixteen kinds
of operand): in a store of honest objects, evaluating *any* nested expression of `compose_before` /
`compose_after` calls whose family operands have one dimension succeeds; every object that existed
before is the same cell afterwards; and the object it returns is of the predicted kind — a single
family member whose class is the join of the classes of all operands when all of them are family
members, a `TransformChain` as soon as one operand is not — whatever the directions, the order and
the nesting (`kind_eq_joinAll`, `joinAll_perm`). -/
theorem expr_class_join (e : CExpr) : ∀ (st : Store), Good st → AtomsOK d st e →
    ∃ st' r, evalE E st e = .ok (st', r) ∧ Good st' ∧ st.length ≤ st'.length ∧
      (∀ i, i < st.length → st'[i]? = st[i]?) ∧
      ∃ c, st'[r]? = some c ∧ kindOf c = e.kind st ∧
        (∀ d' (t : HT d'), c = .fam d' t → d' = d) ∧
        (∀ dir l r', e = .comp dir l r' → ∀ p, c ≠ .leaf p) := by
  induction e with
  | atom i =>
    intro st hg hok
    obtain ⟨hi, hdim⟩ := hok i (by simp [CExpr.atoms])
    refine ⟨st, i, by simp [evalE, hi], hg, Nat.le_refl _, fun _ _ => rfl, st[i], by simp [hi], ?_, ?_, ?_⟩
    · simp [CExpr.kind, hi]
    · intro d' t h; exact hdim d' t (by simp [hi, h])
    · intro dir l r' h; cases h
  | comp dir l r ihl ihr =>
    intro st hg hok
    have hokl : AtomsOK d st l := fun i hi => hok i (by simp [CExpr.atoms, hi])
    have hokr : AtomsOK d st r := fun i hi => hok i (by simp [CExpr.atoms, hi])
    obtain ⟨st1, a, he1, hg1, hlen1, hfr1, ca, hca, hka, hda, _⟩ := ihl st hg hokl
    have hokr1 : AtomsOK d st1 r := fun i hi => by
      obtain ⟨h1, h2⟩ := hokr i hi
      exact ⟨Nat.lt_of_lt_of_le h1 hlen1, fun d' t h => h2 d' t (by rw [← hfr1 i h1]; exact h)⟩
    obtain ⟨st2, b, he2, hg2, hlen2, hfr2, cb, hcb, hkb, hdb, _⟩ := ihr st1 hg1 hokr1
    have ha_lt : a < st1.length := lt_of_getElem?_some hca
    have hca2 : st2[a]? = some ca := by rw [hfr2 a ha_lt]; exact hca
    obtain ⟨c, hc, hkc, hleaf, hdc⟩ := composeCell_kind hg2 (dir := dir) hca2 hcb hda hdb
    have hstep : step E st2 (.compose dir a b) = .ok (st2 ++ [c], some st2.length) := by
      simp [step, hc, Except.map]
    have hg3 : Good (st2 ++ [c]) := step_good st2 _ hg2 (.compose dir a b) trivial _ hstep
    have hkr : r.kind st1 = r.kind st := CExpr.kind_congr r (fun i hi => hfr1 i (hokr i hi).1)
    refine ⟨st2 ++ [c], st2.length, by simp [evalE, he1, he2, hstep], hg3, by simp; omega, ?_,
      c, by simp, ?_, hdc, fun _ _ _ _ => hleaf⟩
    · intro i hi
      rw [List.getElem?_append_left (by omega), hfr2 i (by omega), hfr1 i hi]
    · rw [hkc, hka, hkb, hkr]; rfl

/-! ## an object composed with itself; the pieces of a decomposition composed back -/

/-- PROPERTY (both operands are the same object): `a.compose_before(a)` and `a.compose_after(a)`
return the same thing — one new family member of `a`'s class without its alignment nature holding
`a.h · a.h`, honest and invertible if `a` is — and `a.compose_*_inplace(a)` is always admitted (an
object is an instance of its own `composes_inplace_with`) and leaves `a` holding `a.h · a.h`. -/
theorem compose_with_itself (st : Store) (hg : Good st) (dir : Dir) (a : Nat) (s : HT d)
    (ha : st[a]? = some (.fam d s)) :
    let r : HT d := ⟨baseOf s.cls, Mat.mul s.M s.M⟩
    composeCell E st dir a a = .ok (.fam d r) ∧ Inv r.cls r.M ∧ (det s.M ≠ 0 → det r.M ≠ 0) ∧
    step E st (.inplace dir a a) = .ok (st.set a (.fam d ⟨s.cls, Mat.mul s.M s.M⟩), none) := by
  intro r
  have hs := hg.2 d s (List.mem_of_getElem? ha)
  obtain ⟨r', hc, hl⟩ := compose_family_single st hg dir a a s s ha ha
  obtain ⟨r'', hr'', hM, hcls⟩ := ladder_spec dir s s hs hs
  rw [hl] at hr''; cases hr''
  obtain ⟨r3, hr3, _, hinv, hdet⟩ := compose_closed_sound dir s s hs hs
  rw [hl] at hr3; cases hr3
  have hr : r' = r := by
    obtain ⟨c', M'⟩ := r'
    simp only at hM hcls
    have : rawCompose dir s.M s.M = Mat.mul s.M s.M := by cases dir <;> rfl
    rw [hM, hcls, (join_idem_strip s.cls s.cls).1, this]
  subst hr
  refine ⟨hc, hinv, fun h => hdet h h, ?_⟩
  have hacc := own_class_accepted s.cls
  have := ((inplace_gate st dir a a s ha).1 s ha).1 hacc
  have e : rawCompose dir s.M s.M = Mat.mul s.M s.M := by cases dir <;> rfl
  rw [e] at this; exact this

open Matrix in
/-- fold `compose_before` over a list of family objects, left to right:
`reduce(lambda x, y: x.compose_before(y), pieces)` -/
def foldBefore (tbl : ClassTable) : HT d → List (HT d) → Option (HT d)
  | acc, [] => some acc
  | acc, t :: ts => (ladder tbl ladderFuel .before acc t).bind fun r => foldBefore tbl r ts

open Matrix in
/-- PROPERTY (the decomposition composed back, with menpo's own composition): under the SVD
contract the pieces `[Rotation V, Scale s, Rotation U, Translation t]` folded with `compose_before`
give *one* family object that holds exactly the matrix of the affine transform, whose class is the
join of the classes of the pieces — `Similarity` when the factory chose a `UniformScale`, `Affine`
otherwise — and which is honestly of that class. -/
theorem decompose_fold_class (M : Mat (d + 1)) (hM : IsAffine M) (U V : Mat d) (s : Vec d)
    (uniform : Bool) (hsvd : lin M = Mat.mul U (Mat.mul (diagMat s) V))
    (hu : uniform = true → ∀ i, s i = s.head)
    (hU : (toM U)ᵀ * toM U = 1) (hV : (toM V)ᵀ * toM V = 1) (hs : ∀ i, 0 < s i) :
    ∃ r, foldBefore E (⟨.Rotation, mkAffine V (zeroVec d)⟩ : HT d)
        [scaleFactory s uniform, ⟨.Rotation, mkAffine U (zeroVec d)⟩, ⟨.Translation, mkAffine (Mat.one d) (trans M)⟩]
        = some r ∧
      r.M = M ∧ r.cls = (if uniform then .Similarity else .Affine) ∧ Inv r.cls r.M := by
  have hpieces := decompose_pieces_honest U V s uniform (trans M) hU hV hs
  have h1 : Inv HCls.Rotation (mkAffine V (zeroVec d)) := inv_mkAffine_orth hV
  have h3 : Inv HCls.Rotation (mkAffine U (zeroVec d)) := inv_mkAffine_orth hU
  have h2 : Inv (scaleFactory s uniform).cls (scaleFactory s uniform).M := by
    obtain ⟨t', ht', hi, _⟩ := hpieces (.fam d (scaleFactory s uniform)) (by simp [decomposeLeaves])
    cases ht'; exact hi
  have h4 : Inv HCls.Translation (mkAffine (Mat.one d) (trans M)) := by
    obtain ⟨t', ht', hi, _⟩ := hpieces (.fam d ⟨.Translation, mkAffine (Mat.one d) (trans M)⟩)
      (by simp [decomposeLeaves])
    cases ht'; exact hi
  obtain ⟨r1, e1, m1, c1⟩ := ladder_spec .before (⟨.Rotation, mkAffine V (zeroVec d)⟩ : HT d)
    (scaleFactory s uniform) h1 h2
  obtain ⟨_, e1', _, i1, _⟩ := compose_closed_sound .before (⟨.Rotation, mkAffine V (zeroVec d)⟩ : HT d)
    (scaleFactory s uniform) h1 h2
  rw [e1] at e1'; cases e1'
  obtain ⟨r2, e2, m2, c2⟩ := ladder_spec .before r1 (⟨.Rotation, mkAffine U (zeroVec d)⟩ : HT d) i1 h3
  obtain ⟨_, e2', _, i2, _⟩ := compose_closed_sound .before r1 (⟨.Rotation, mkAffine U (zeroVec d)⟩ : HT d) i1 h3
  rw [e2] at e2'; cases e2'
  obtain ⟨r3, e3, m3, c3⟩ := ladder_spec .before r2 (⟨.Translation, mkAffine (Mat.one d) (trans M)⟩ : HT d) i2 h4
  obtain ⟨_, e3', _, i3, _⟩ := compose_closed_sound .before r2
    (⟨.Translation, mkAffine (Mat.one d) (trans M)⟩ : HT d) i2 h4
  rw [e3] at e3'; cases e3'
  refine ⟨r3, by simp [foldBefore, e1, e2, e3], ?_, ?_, i3⟩
  · rw [m3, m2, m1]
    simp only [rawCompose]
    exact (decompose_recomposes M hM U V s uniform hsvd hu).2
  · rw [c3, c2, c1]
    cases uniform
    · rw [scaleFactory_false]; simp only; decide
    · rw [scaleFactory_true]; simp only; decide

/-! ### non-vacuity -/

/-- `(rot.compose_before(trans)).compose_after(rot)`: three calls on honest 2-D objects; the result
is a `Similarity` — the join of `AlignmentRotation`, `Translation`, `AlignmentRotation` — and with
the opaque leaf as an operand it is a chain -/
example :
    (evalE E exStore (.comp .after (.comp .before (.atom 0) (.atom 1)) (.atom 0))).toOption.bind
      (fun p => (p.1[p.2]?).bind kindOf) = some .Similarity ∧
    CExpr.kind exStore (.comp .after (.comp .before (.atom 0) (.atom 1)) (.atom 0)) = some .Similarity ∧
    CExpr.kind exStore (.comp .after (.comp .before (.atom 0) (.atom 2)) (.atom 1)) = none ∧
    AtomsOK 2 exStore (.comp .after (.comp .before (.atom 0) (.atom 2)) (.atom 1)) := by
  refine ⟨by decide +kernel, by decide +kernel, by decide +kernel, ?_⟩
  intro i hi
  simp only [CExpr.atoms, List.cons_append, List.nil_append, List.mem_cons, List.not_mem_nil, or_false] at hi
  rcases hi with rfl | rfl | rfl <;> refine ⟨by decide, fun d' t h => ?_⟩ <;>
    simp [exStore] at h <;> exact h.1.symm

end MenpoModel.C03
