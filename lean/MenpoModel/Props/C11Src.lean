/-
C11 — property theorems about the definitions `Src.*` (Core/C11Src.lean) that the translated sources are proved equal to
(GenProps/C11Src.lean): chains of increments through the translated public entry points.
-/
import MenpoModel.Props.C11
import MenpoModel.Lemmas.C11SrcGmrf

set_option linter.unusedSimpArgs false

namespace MenpoModel.C11
open NP

/-! ### chains of increments through the public entry points -/

theorem src_increment_arr (inv : M → Option Nat → M) (graph : NP.Graph) (sparse : Bool) (mode : String) (nf k : Nat)
    (nc : Option Nat) (bias : Nat) (st : NP.GState) (X : M) :
    Src.increment inv graph sparse mode nf k nc bias st true (.arr X) none
      = Src.incrementInner inv graph sparse mode nf k nc bias st X := by
  simp [Src.increment, Src.dataToMatrix, isArray, arrayOf]

/-- `GMRFVectorModel.increment` called once per data matrix, on an incremental model -/
def srcRun (inv : M → Option Nat → M) (g : GSpec) (sparse : Bool) (nf : Nat) (nc : Option Nat) (b : Bool)
    (s0 : NP.GState) (Xs : List M) : Option NP.GState :=
  Xs.foldlM (fun s X => Src.increment inv (graphOf g) sparse (modeStr g.mode) nf g.k nc (biasN b) s true (.arr X) none) s0

theorem src_incrementInner_stats (inv : M → Option Nat → M) (g : GSpec) (sparse b : Bool) (nf : Nat) (nc : Option Nat)
    (s : NP.GState) (t : GState) {X : M} {B : Data} (hX : DataRepr X B) (hs : StateRel g s t) :
    ∃ s', Src.incrementInner inv (graphOf g) sparse (modeStr g.mode) nf g.k nc (biasN b) s X = some s' ∧
      StateRel g s' (gmrfInc b (srcFeat g) t B) := by
  cases sparse
  · obtain ⟨s', h1, h2, _⟩ := src_incrementInner_dense inv g b nf nc s t hX hs
    exact ⟨s', h1, h2⟩
  · exact src_incrementInner_sparse inv g b nf nc s t hX hs

/-- PROPERTY (any list of increments through the translated `increment` → `_increment` → builders → update formulas):
a translated incremental GMRF that starts from a state holding the statistics of the initial batch `X0` never raises and
ends in the state holding the statistics of the batch model on the concatenated data — count, mean vector and every block
covariance — for every graph, both modes, both bias conventions and both storages -/
theorem src_gmrf_refines_batch (inv : M → Option Nat → M) (g : GSpec) (sparse b : Bool) (nf : Nat) (nc : Option Nat)
    (chunks : List Data) : ∀ (Xs : List M), List.Forall₂ DataRepr Xs chunks → ∀ (X0 : Data) (s0 : NP.GState),
    EnoughSamples b X0 → StateRel g s0 (gmrfInit b (srcFeat g) X0) →
    ∃ s', srcRun inv g sparse nf nc b s0 Xs = some s' ∧
      StateRel g s' (gmrfInit b (srcFeat g) (X0 ++ chunks.flatten)) := by
  induction chunks with
  | nil =>
    intro Xs hXs X0 s0 _ hs
    cases hXs
    exact ⟨s0, rfl, by simpa using hs⟩
  | cons B cs ih =>
    intro Xs hXs X0 s0 hX0 hs
    cases hXs with
    | cons hX hrest =>
      rename_i X Xs'
      obtain ⟨s1, h1, hs1⟩ := src_incrementInner_stats inv g sparse b nf nc s0 _ hX hs
      rw [gmrf_step b (srcFeat g) (srcFeat_mean g) X0 B hX0] at hs1
      obtain ⟨s', h2, hs'⟩ := ih Xs' hrest (X0 ++ B) s1 (enough_append B hX0) hs1
      refine ⟨s', ?_, by simpa [List.append_assoc] using hs'⟩
      simp only [srcRun, List.foldlM_cons, src_increment_arr, h1, Option.bind_eq_bind, Option.bind_some]
      exact h2

/-- PROPERTY (dense storage, after at least one increment): the array the translated code stores is the model's
`precision` of the batch covariances of all the data, for any block-inverse routine -/
theorem src_gmrf_precision_eq_batch (inv : M → Option Nat → M) (g : GSpec) (b : Bool) (nf : Nat) (nc : Option Nat)
    (chunks : List Data) : ∀ (Xs : List M), List.Forall₂ DataRepr Xs chunks → ∀ (X0 : Data) (s0 : NP.GState),
    EnoughSamples b X0 → StateRel g s0 (gmrfInit b (srcFeat g) X0) → chunks ≠ [] →
    ∃ s', srcRun inv g false nf nc b s0 Xs = some s' ∧
      s'.precision.f = precision g (invF inv nc g.blockDim) (gmrfInit b (srcFeat g) (X0 ++ chunks.flatten)).cov := by
  induction chunks with
  | nil => intro _ _ _ _ _ _ hne; exact absurd rfl hne
  | cons B cs ih =>
    intro Xs hXs X0 s0 hX0 hs _
    cases hXs with
    | cons hX hrest =>
      rename_i X Xs'
      obtain ⟨s1, h1, hs1, hp1⟩ := src_incrementInner_dense inv g b nf nc s0 _ hX hs
      rw [gmrf_step b (srcFeat g) (srcFeat_mean g) X0 B hX0] at hs1 hp1
      by_cases hcs : cs = []
      · subst hcs
        cases hrest
        refine ⟨s1, ?_, by simpa using hp1⟩
        simp [srcRun, src_increment_arr, h1]
      · obtain ⟨s', h2, hp'⟩ := ih Xs' hrest (X0 ++ B) s1 (enough_append B hX0) hs1 hcs
        refine ⟨s', ?_, by simpa [List.append_assoc] using hp'⟩
        simp only [srcRun, List.foldlM_cons, src_increment_arr, h1, Option.bind_eq_bind, Option.bind_some]
        exact h2

/-- PROPERTY (chunking independence of the translated code): two translated incremental models fed the same samples cut
differently end with the same count, the same mean vector, the same block covariances and — dense storage — the same
stored precision -/
theorem src_gmrf_chunking_independent (inv : M → Option Nat → M) (g : GSpec) (b : Bool) (nf : Nat) (nc : Option Nat)
    (cs ds : List Data) (Xs Ys : List M) (hXs : List.Forall₂ DataRepr Xs cs) (hYs : List.Forall₂ DataRepr Ys ds)
    (hcs : cs ≠ []) (hds : ds ≠ []) (X0 Y0 : Data) (s0 r0 : NP.GState) (hX0 : EnoughSamples b X0) (hY0 : EnoughSamples b Y0)
    (hs : StateRel g s0 (gmrfInit b (srcFeat g) X0)) (hr : StateRel g r0 (gmrfInit b (srcFeat g) Y0))
    (hsame : X0 ++ cs.flatten = Y0 ++ ds.flatten) :
    ∃ s' r', srcRun inv g false nf nc b s0 Xs = some s' ∧ srcRun inv g false nf nc b r0 Ys = some r' ∧
      s'.n = r'.n ∧ s'.mean.f = r'.mean.f ∧ (∀ e, e < g.nBlocks → s'.covs e = r'.covs e) ∧
      s'.precision.f = r'.precision.f := by
  obtain ⟨s', h1, hs'⟩ := src_gmrf_refines_batch inv g false b nf nc cs Xs hXs X0 s0 hX0 hs
  obtain ⟨r', h2, hr'⟩ := src_gmrf_refines_batch inv g false b nf nc ds Ys hYs Y0 r0 hY0 hr
  obtain ⟨s'', h1', hp⟩ := src_gmrf_precision_eq_batch inv g b nf nc cs Xs hXs X0 s0 hX0 hs hcs
  obtain ⟨r'', h2', hq⟩ := src_gmrf_precision_eq_batch inv g b nf nc ds Ys hYs Y0 r0 hY0 hr hds
  rw [h1] at h1'; rw [h2] at h2'
  cases h1'; cases h2'
  rw [hsame] at hs' hp
  refine ⟨s', r', h1, h2, by rw [hs'.n, hr'.n], by rw [hs'.mean, hr'.mean], ?_, by rw [hp, hq]⟩
  intro e he
  rw [hs'.cov e he, hr'.cov e he]


/-! ### object level: `GMRFModel.increment` on the `as_vector()`s of the samples -/

theorem dataRepr_asMatrix (samples : List V) : DataRepr (NP.asMatrix samples none) (samples.map (·.f)) := by
  refine ⟨by simp [NP.asMatrix, stackRows], ?_⟩
  intro i hi j
  simp only [List.length_map] at hi
  simp [NP.asMatrix, stackRows, List.getD_eq_getElem?_getD, List.getElem?_eq_getElem hi]

theorem src_incrementObj_eq (inv : M → Option Nat → M) (graph : NP.Graph) (sparse : Bool) (mode : String) (nf k : Nat)
    (nc : Option Nat) (bias : Nat) (st : NP.GState) (samples : List V) :
    Src.incrementObj inv graph sparse mode nf k nc bias st true samples none
      = Src.increment inv graph sparse mode nf k nc bias st true (.arr (NP.asMatrix samples none)) none := by
  simp [Src.incrementObj, Src.increment, Src.dataToMatrix, isArray, arrayOf]

/-- `GMRFModel.increment` called once per list of samples -/
def srcRunObj (inv : M → Option Nat → M) (g : GSpec) (sparse : Bool) (nf : Nat) (nc : Option Nat) (b : Bool)
    (s0 : NP.GState) (chunks : List (List V)) : Option NP.GState :=
  chunks.foldlM (fun s c => Src.incrementObj inv (graphOf g) sparse (modeStr g.mode) nf g.k nc (biasN b) s true c none) s0

/-- PROPERTY: the object-level translated model fed lists of samples is the vector-level one fed the stacked
`as_vector()`s, hence refines the batch model as well -/
theorem srcRunObj_eq (inv : M → Option Nat → M) (g : GSpec) (sparse : Bool) (nf : Nat) (nc : Option Nat) (b : Bool)
    (chunks : List (List V)) : ∀ s0, srcRunObj inv g sparse nf nc b s0 chunks
      = srcRun inv g sparse nf nc b s0 (chunks.map fun c => NP.asMatrix c none) := by
  induction chunks with
  | nil => intro s0; rfl
  | cons c cs ih =>
    intro s0
    simp only [srcRunObj, srcRun, List.foldlM_cons, List.map_cons, src_incrementObj_eq]
    cases Src.increment inv (graphOf g) sparse (modeStr g.mode) nf g.k nc (biasN b) s0 true (.arr (NP.asMatrix c none)) none with
    | none => rfl
    | some s1 => exact ih s1

theorem src_gmrfObj_refines_batch (inv : M → Option Nat → M) (g : GSpec) (sparse b : Bool) (nf : Nat) (nc : Option Nat)
    (chunks : List (List V)) (X0 : Data) (s0 : NP.GState) (hX0 : EnoughSamples b X0)
    (hs : StateRel g s0 (gmrfInit b (srcFeat g) X0)) :
    ∃ s', srcRunObj inv g sparse nf nc b s0 chunks = some s' ∧
      StateRel g s' (gmrfInit b (srcFeat g) (X0 ++ (chunks.map fun c => c.map (·.f)).flatten)) := by
  rw [srcRunObj_eq]
  apply src_gmrf_refines_batch inv g sparse b nf nc _ _ _ X0 s0 hX0 hs
  induction chunks with
  | nil => exact List.Forall₂.nil
  | cons c cs ih => exact List.Forall₂.cons (dataRepr_asMatrix c) ih

/-! ### non-vacuity: a state that holds given statistics, data matrices that hold given samples -/

/-- the translated state holding the statistics `t` (what `__init__(…, incremental=True)` leaves behind) -/
def stateOfModel (g : GSpec) (d : Nat) (t : GState) : NP.GState :=
  ⟨zeros d d, fun e => ⟨g.blockDim, g.blockDim, t.cov e⟩, ⟨d, t.mean⟩, t.n⟩

theorem stateRel_ofModel (g : GSpec) (d : Nat) (t : GState) : StateRel g (stateOfModel g d t) t :=
  ⟨rfl, rfl, fun _ _ => rfl⟩

example : ∃ s', srcRun (fun C _ => C) exG false 2 none false (stateOfModel exG 2 (gmrfInit false (srcFeat exG) exX0))
      (exC.map (ofData 2)) = some s' ∧
    StateRel exG s' (gmrfInit false (srcFeat exG) (exX0 ++ exC.flatten)) :=
  src_gmrf_refines_batch _ exG false false 2 none exC _
    (by unfold exC; exact List.Forall₂.cons (dataRepr_ofData 2 _) (List.Forall₂.cons (dataRepr_ofData 2 _) List.Forall₂.nil))
    exX0 _ (by decide) (stateRel_ofModel _ _ _)


/-! ### `menpo.math.as_matrix`: storage dtypes of the samples -/

theorem enumFrom1_append {α : Type} (l : List α) (x : α) : enumFrom1 (l ++ [x]) = enumFrom1 l ++ [(l.length + 1, x)] := by
  simp only [enumFrom1, List.length_append, List.length_singleton, List.range_succ]
  rw [List.zipWith_append (by simp)]
  simp

theorem castTo_float (src : DT) (x : Rat) : castTo DT.float src x = x := by simp [castTo]
theorem castTo_same (d : DT) (x : Rat) : castTo d d x = x := by cases d <;> simp [castTo]
theorem castTo_of_int (dst : DT) (x : Rat) : castTo dst DT.int x = x := by cases dst <;> simp [castTo]

instance : Inhabited Sample := ⟨⟨DT.int, default⟩⟩

/-- the dtype a matrix holding all these samples needs -/
def joinDT (vs : List Sample) : DT := if vs.any (fun s => s.dt == DT.float) then DT.float else DT.int

/-- one fill step never loses a value: the matrix is widened before a float row is written into integer storage -/
theorem asMatrixStep_spec (st : Nat × TM) (j : Nat) (s : Sample) :
    (Src.asMatrixStep st (j, s)).1 = j ∧ (Src.asMatrixStep st (j, s)).2.m.r = st.2.m.r ∧
    (Src.asMatrixStep st (j, s)).2.dt = promote st.2.dt s.dt ∧
    (∀ c, (Src.asMatrixStep st (j, s)).2.m.f j c = s.v.f c) ∧
    (∀ i, i ≠ j → ∀ c, (Src.asMatrixStep st (j, s)).2.m.f i c = st.2.m.f i c) := by
  rcases st with ⟨i0, ⟨ddt, dm⟩⟩
  cases ddt <;> cases hs : s.dt <;>
    simp [Src.asMatrixStep, canCastSameKind, promote, TM.setRow, TM.astype, Sample.asVector, hs, castTo]
  all_goals (intro i hi c; simp [hi])


theorem promote_join (vs : List Sample) (s : Sample) : promote (joinDT vs) s.dt = joinDT (vs ++ [s]) := by
  unfold joinDT promote
  cases h : vs.any (fun s => s.dt == DT.float) <;> cases hs : s.dt <;> simp [h, hs, List.any_append]

/-- the fill loop of `as_matrix` over the samples `rest` after the template `t`: loop counter, shape, dtype and rows -/
theorem asMatrix_fill (n : Nat) (t : Sample) (rest : List Sample) :
    let r := (enumFrom1 rest).foldl Src.asMatrixStep (0, (tzeros n t.nParameters t.dt).setRow 0 t.asVector)
    r.1 = rest.length ∧ r.2.m.r = n ∧ r.2.dt = joinDT (t :: rest) ∧
      (∀ i, i ≤ rest.length → ∀ c, r.2.m.f i c = ((t :: rest).getD i default).v.f c) := by
  induction rest using List.reverseRecOn with
  | nil =>
    refine ⟨rfl, rfl, ?_, ?_⟩
    · cases h : t.dt <;> simp [joinDT, enumFrom1, TM.setRow, tzeros, h]
    · intro i hi c
      have : i = 0 := by simpa using hi
      subst this
      simp [enumFrom1, TM.setRow, Sample.asVector, tzeros, castTo_same]
  | append_singleton rest s ih =>
    obtain ⟨h1, h2, h3, h4⟩ := ih
    simp only [enumFrom1_append, List.foldl_append, List.foldl_cons, List.foldl_nil]
    obtain ⟨g1, g2, g3, g4, g5⟩ := asMatrixStep_spec
      ((enumFrom1 rest).foldl Src.asMatrixStep (0, (tzeros n t.nParameters t.dt).setRow 0 t.asVector)) (rest.length + 1) s
    refine ⟨by rw [g1]; simp, by rw [g2, h2], ?_, ?_⟩
    · rw [g3, h3, promote_join]; rfl
    · intro i hi c
      by_cases hlast : i = rest.length + 1
      · subst hlast
        rw [g4]
        simp [List.getD_eq_getElem?_getD]
      · rw [g5 i hlast, h4 i (by simp at hi; omega)]
        have hi' : i < (t :: rest).length := by simp at hi ⊢; omega
        simp only [List.getD_eq_getElem?_getD]
        rw [← List.cons_append, List.getElem?_append_left hi']

/-- PROPERTY (`menpo.math.as_matrix` as translated, a list of samples): whatever the storage dtypes of the samples and
their order — an integer-typed template followed by float samples included — no value is truncated: row `i` of the
returned matrix is `as_vector()` of sample `i` exactly, there are as many rows as samples, and the matrix has a floating
dtype iff some sample has -/
theorem src_asMatrix_exact (vs : List Sample) (h : vs ≠ []) :
    ∃ D, Src.asMatrixT vs none = some D ∧ D.m.r = vs.length ∧ D.dt = joinDT vs ∧
      ∀ i, i < vs.length → ∀ c, D.m.f i c = (vs.getD i default).v.f c := by
  cases vs with
  | nil => exact absurd rfl h
  | cons t rest =>
    have hfill := asMatrix_fill (t :: rest).length t rest
    obtain ⟨f1, f2, f3, f4⟩ := hfill
    refine ⟨_, ?_, f2, f3, fun i hi c => f4 i (by simp at hi; omega) c⟩
    simp only [Src.asMatrixT, Src.asMatrixFrom, List.length_cons, Nat.add_sub_cancel, List.take_length]
    simp only [List.length_cons] at f1
    simp [f1]

/-- an iterator that ends before the announced length raises -/
theorem src_asMatrix_short (t : Sample) (rest : List Sample) (n : Nat) (hn : rest.length + 1 < n) :
    Src.asMatrixT (t :: rest) (some n) = none := by
  have hfill := asMatrix_fill n t (rest.take (n - 1))
  obtain ⟨f1, _, _, _⟩ := hfill
  simp only [Src.asMatrixT, Src.asMatrixFrom]
  rw [f1]
  have : (rest.take (n - 1)).length = rest.length := by simp; omega
  simp [this]; omega


/-- hence the data matrix the object-level models are built from and incremented with holds the samples (the hypothesis
`DataRepr` of the chain theorems), whatever their storage dtypes -/
theorem src_asMatrix_repr (vs : List Sample) (h : vs ≠ []) :
    ∃ D, Src.asMatrixT vs none = some D ∧ DataRepr D.m (vs.map fun s => s.v.f) := by
  obtain ⟨D, h1, h2, _, h4⟩ := src_asMatrix_exact vs h
  refine ⟨D, h1, by simpa using h2, ?_⟩
  intro i hi c
  simp only [List.length_map] at hi
  rw [h4 i hi c]
  simp [List.getD_eq_getElem?_getD, List.getElem?_map, List.getElem?_eq_getElem hi]

/-- non-vacuity, the case of the repaired defect (/repo 8a6024e): an integer-typed template followed by a float
sample; both rows arrive untruncated in a float matrix -/
example : (Src.asMatrixT [⟨DT.int, ⟨2, fun _ => 1⟩⟩, ⟨DT.float, ⟨2, fun i => if i = 0 then 1/2 else 5/4⟩⟩] none).map
    (fun D => (D.dt, D.m.r, D.m.f 0 0, D.m.f 1 0, D.m.f 1 1)) = some (DT.float, 2, 1, 1/2, 5/4) := by decide +kernel
/-- … whereas plain assignment into the integer matrix (no widening) would have stored `0` and `1` -/
example : castTo DT.int DT.float (1/2) = 0 ∧ castTo DT.int DT.float (5/4) = 1 ∧ castTo DT.int DT.float (-5/4) = -1 := by
  decide +kernel

end MenpoModel.C11
