/-
C18, Part H — the parts of the feature code that entered the model with the source translation: the option plumbing
of `menpo.feature.daisy` (which `rings` / `radius` / `sigmas` / `ring_radii` reach the descriptor computation, what is
refused before it) and `menpo.feature.sum_channels`.  `GenProps/C18Src.lean` proves the translated source equal to the
definitions these theorems are about (`daisyRaw`, `daisyPlumb`, `sumChannels2`).
-/
import MenpoModel.Core.C18Src
import Mathlib.Tactic.Ring
import Mathlib.Tactic.Linarith
import Mathlib.Tactic.FieldSimp
import Mathlib.Algebra.Order.Field.Rat
import Mathlib.Tactic.Positivity

set_option linter.unusedSimpArgs false
set_option linter.unusedTactic false
set_option linter.unreachableTactic false

namespace MenpoModel.C18

/-! ## DAISY option plumbing -/

theorem pyRangeQ_length (n : Int) : (pyRangeQ n).length = n.toNat := by simp [pyRangeQ]

/-- the default layouts have one entry per ring (none for a non-positive ring count) -/
theorem daisyLayout_length (radius : Rat) (rings k : Int) : (daisyLayout radius rings k).length = rings.toNat := by
  simp [daisyLayout, pyRangeQ_length]

/-- entry `i` of the default layout: `radius·(i+1)/(k·rings)` — `k = 2` for the sigmas, `k = 1` for the ring radii -/
theorem daisyLayout_get (radius : Rat) (rings k : Int) (i : Nat) (hi : i < rings.toNat) :
    (daisyLayout radius rings k)[i]? = some (radius * ((i : Rat) + 1) / ((k * rings : Int) : Rat)) := by
  simp [daisyLayout, pyRangeQ, hi]

/-- PROPERTY (DAISY with any step / radius / rings, default layout): nothing is overridden — `_daisy` gets the caller's
step, radius, rings, histograms and orientations, `normalization=None` becomes "off", and the two layouts have
`rings` entries each; the outermost ring radius is the radius itself -/
theorem daisyPlumb_defaults (step : Nat) (radius : Rat) (rings : Int) (hi ori : Nat) (nz : Option DaisyNorm)
    (hn : nz ≠ some .other) :
    daisyPlumb step radius rings hi ori nz none none =
      .ok ⟨step, radius, rings, hi, ori, some (nz.getD .off), some (daisyLayout radius rings 2),
            some (daisyLayout radius rings 1)⟩ := by
  rcases nz with _ | (_ | _ | _ | _ | _) <;> simp_all [daisyPlumb]

theorem daisyLayout_last (radius : Rat) (rings : Nat) (hr : 0 < rings) :
    (daisyLayout radius (rings : Int) 1).getLast? = some radius := by
  obtain ⟨k, rfl⟩ : ∃ k, rings = k + 1 := ⟨rings - 1, by omega⟩
  have h2 : (k : Rat) + 1 ≠ 0 := by
    have : (0 : Rat) ≤ (k : Rat) := Nat.cast_nonneg k
    intro h; linarith
  simp only [daisyLayout, pyRangeQ, Int.toNat_natCast, List.map_map, List.range_succ, List.map_append, List.map_cons,
    List.map_nil, List.getLast?_append, List.getLast?_singleton, Option.some_or, Function.comp]
  congr 1
  push_cast
  field_simp

/-- PROPERTY (`ring_radii` overrides `rings` and `radius`): `rings = len(ring_radii)`, `radius = ring_radii[-1]`, the
given radii are handed over untouched, and the default sigmas are laid out for the overriding values -/
theorem daisyPlumb_ring_radii (step : Nat) (radius : Rat) (rings : Int) (hi ori : Nat) (nz : Option DaisyNorm)
    (r : List Rat) (last : Rat) (hl : r.getLast? = some last) (hn : nz ≠ some .other) :
    daisyPlumb step radius rings hi ori nz none (some r) =
      .ok ⟨step, last, (r.length : Int), hi, ori, some (nz.getD .off), some (daisyLayout last (r.length : Int) 2),
            some r⟩ := by
  rcases nz with _ | (_ | _ | _ | _ | _) <;> simp_all [daisyPlumb, optLastE, Except.bind]

/-- PROPERTY (`sigmas` overrides `rings`): `rings = len(sigmas) - 1` -/
theorem daisyPlumb_sigmas (step : Nat) (radius : Rat) (rings : Int) (hi ori : Nat) (nz : Option DaisyNorm)
    (s : List Rat) (hn : nz ≠ some .other) :
    daisyPlumb step radius rings hi ori nz (some s) none =
      .ok ⟨step, radius, (s.length : Int) - 1, hi, ori, some (nz.getD .off), some s,
            some (daisyLayout radius ((s.length : Int) - 1) 1)⟩ := by
  rcases nz with _ | (_ | _ | _ | _ | _) <;> simp_all [daisyPlumb]

/-- PROPERTY (both given): accepted exactly when `len(sigmas) - 1 = len(ring_radii)`, then both are handed over -/
theorem daisyPlumb_both (step : Nat) (radius : Rat) (rings : Int) (hi ori : Nat) (nz : Option DaisyNorm)
    (s r : List Rat) (last : Rat) (hl : r.getLast? = some last) (hn : nz ≠ some .other) :
    daisyPlumb step radius rings hi ori nz (some s) (some r) =
      if (s.length : Int) - 1 = (r.length : Int) then
        .ok ⟨step, last, (s.length : Int) - 1, hi, ori, some (nz.getD .off), some s, some r⟩
      else .error (.feature codeValueError) := by
  rcases nz with _ | (_ | _ | _ | _ | _) <;> simp_all [daisyPlumb, optLastE, Except.bind] <;> split <;> simp_all

/-- the refusals: inconsistent lengths, an empty `ring_radii`, an unknown normalisation — each before `_daisy` runs -/
theorem daisyPlumb_refusals (step : Nat) (radius : Rat) (rings : Int) (hi ori : Nat) (nz : Option DaisyNorm)
    (s r : List Rat) :
    ((s.length : Int) - 1 ≠ (r.length : Int) →
        daisyPlumb step radius rings hi ori nz (some s) (some r) = .error (.feature codeValueError)) ∧
    daisyPlumb step radius rings hi ori nz none (some []) = .error (.feature codeIndexError) ∧
    (∀ sg rr c, daisyPlumb step radius rings hi ori (some .other) sg rr ≠ .ok c) := by
  refine ⟨?_, ?_, ?_⟩
  · intro h; simp [daisyPlumb, h]
  · simp [daisyPlumb, optLastE, Except.bind]
  · intro sg rr c
    rcases sg with _ | s' <;> rcases rr with _ | r' <;> simp [daisyPlumb, optLastE, Except.bind] <;>
      (try split) <;> (try cases r'.getLast?) <;> simp

/-- whatever is accepted reaches `_daisy` with a named normalisation and both layouts present; `daisyRaw` is then the
library call on exactly that record (so the image call and the array call hand `_daisy` the same arguments: the
decorator does not look at them) -/
theorem daisyPlumb_ok_complete (step : Nat) (radius : Rat) (rings : Int) (hi ori : Nat) (nz : Option DaisyNorm)
    (sg rr : Option (List Rat)) (c : DaisyCall) (h : daisyPlumb step radius rings hi ori nz sg rr = .ok c) :
    c.step = step ∧ c.histograms = hi ∧ c.orientations = ori ∧ c.normalization = some (nz.getD .off) ∧
    nz ≠ some .other ∧ c.sigmas.isSome ∧ c.ringRadii.isSome ∧
    (∀ s, sg = some s → c.sigmas = some s ∧ c.rings = (s.length : Int) - 1) ∧
    (∀ r, rr = some r → c.ringRadii = some r ∧ r.getLast? = some c.radius) ∧
    (rr = none → c.radius = radius) ∧ (sg = none → rr = none → c.rings = rings) := by
  rcases nz with _ | (_ | _ | _ | _ | _) <;> rcases sg with _ | s <;> rcases rr with _ | r <;>
    simp only [daisyPlumb, optLastE, Except.bind] at h <;>
    (try (cases hl : r.getLast? <;> simp only [hl] at h)) <;>
    (try split at h) <;>
    (try (simp at h; done)) <;>
    (try (simp at h; subst h; simp_all))

example : daisyPlumb 2 6 3 2 4 none none (some [2, 4, 5]) =
    .ok ⟨2, 5, 3, 2, 4, some .off, some [5 / 6, 5 / 3, 5 / 2], some [2, 4, 5]⟩ := by decide +kernel
example : daisyPlumb 1 15 2 2 8 (some .l1) none none =
    .ok ⟨1, 15, 2, 2, 8, some .l1, some [15 / 4, 15 / 2], some [15 / 2, 15]⟩ := by decide +kernel
example : daisyPlumb 1 15 2 2 8 (some .l1) (some [1, 2]) (some [3, 4]) = .error (.feature codeValueError) := by
  decide +kernel

/-! ## sum_channels -/

theorem sumAxis0_singleton (M : Chan2) : sumAxis0 [M] = M := rfl

theorem sumAxis0_cons_cons (M N : Chan2) (t : Px) : sumAxis0 (M :: N :: t) = sumAxis0 (addChan M N :: t) := rfl

/-- one output channel, whatever is selected -/
theorem sumChannels2_one_channel (ch : Option (List Nat)) (p q : Px) (h : sumChannels2 ch p = .ok q) : q.length = 1 := by
  cases ch <;> simp [sumChannels2] at h <;> subst h <;> rfl

/-- `channels=None` and the list of all channels select the same thing -/
theorem selectChans_all (p : Px) : selectChans p (List.range p.length) = p := by
  apply List.ext_getElem?
  intro i
  by_cases hi : i < p.length
  · simp [selectChans, hi]
  · simp [selectChans, hi]

theorem sumChannels2_all (p : Px) : sumChannels2 (some (List.range p.length)) p = sumChannels2 none p := by
  simp [sumChannels2, selectChans_all]

/-- a pixel of the sum of two channels of the same shape is the sum of the pixels -/
theorem elem_addChan (A B : Chan2) (i j : Nat) (hA : i < A.length) (hB : i < B.length)
    (hjA : j < (A.getD i []).length) (hjB : j < (B.getD i []).length) :
    elem (addChan A B) i j = elem A i j + elem B i j := by
  simp only [elem, addChan, List.getD_eq_getElem?_getD, List.getElem?_zipWith] at *
  simp only [List.getElem?_eq_getElem hA, List.getElem?_eq_getElem hB, Option.getD_some, Option.map_some,
    Option.bind_some] at *
  simp [List.getElem?_zipWith, List.getElem?_eq_getElem hjA, List.getElem?_eq_getElem hjB]

example : sumChannels2 none [[[1, 2], [3, 4]], [[10, 20], [30, 40]], [[100, 200], [300, 400]]]
    = .ok [[[111, 222], [333, 444]]] := by decide +kernel
example : sumChannels2 (some [2, 0]) [[[1, 2], [3, 4]], [[10, 20], [30, 40]], [[100, 200], [300, 400]]]
    = .ok [[[101, 202], [303, 404]]] := by decide +kernel

end MenpoModel.C18
