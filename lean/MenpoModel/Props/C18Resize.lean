/-
C18 — Part F: the size-changing branch of `rebuild_feature_image` in the code's own arithmetic (binary64).

For EVERY pair of extents (old `o`, new `n`, both at least 2 and below 2²⁰; the template extent even for all `o ≥ 1`,
`n < 2⁴⁰`):
  * `np.round(n/o·o) = n`: the warped mask has exactly the shape of the feature pixels, so `MaskedImage(f_pixels,
    mask)` accepts it (`tmplExt_round_exact`); with `ceil` instead (what `mask.rescale(sf)` would do) it does not
    (`rescale_variant_refuted`);
  * the sampled source index is a valid index within half a pixel (+2⁻²⁸) of the exact position `i·(o−1)/(n−1)`
    (`srcF_near`), it IS the nearest index of exact arithmetic wherever that is unique (`srcF_eq_spec`), and one of the
    two nearest at exact half-way positions (`srcF_tie`);
  * a 2-D mask: each pixel of the resized mask is the old mask at the pair of those indices (`resizeMask_2d`);
  * landmarks: `points · (new/old)` computed in binary64 is the exact rescaling up to `3·2⁻⁵³` relative
    (`landmark_scale_binary64`).
The standard model of binary64 rounding used by all of this is itself a theorem about the executable rounding function
(`rne_rel_err`), not an assumption.
-/
import MenpoModel.Props.C18Base
import MenpoModel.Lemmas.C18Src

namespace MenpoModel.C18

/-- REFUTATION of the variant `image.mask.rescale(new/old)` (round-up of the scaled shape): for old extent 7 and new
extent 29, binary64 `29/7·7` lands above 29, the ceiling is 30, and the mask no longer fits the feature pixels -/
theorem rescale_variant_refuted :
    tmplExt .ceil 7 29 = 30 ∧ tmplExt .round 7 29 = 29 ∧
    resizeMaskR .ceil ⟨[7, 2], List.replicate 14 true⟩ [29, 2] = .error .maskShape ∧
    (∃ m', resizeMaskR .round ⟨[7, 2], List.replicate 14 true⟩ [29, 2] = .ok m' ∧ m'.shape = [29, 2]) := by
  refine ⟨by decide +kernel, by decide +kernel, by decide +kernel, ?_⟩
  have h : ∃ m', resizeMaskR .round ⟨[7, 2], List.replicate 14 true⟩ [29, 2] = .ok m' ∧ m'.shape = [29, 2] := by
    unfold resizeMaskR
    have e : List.zipWith (tmplExt .round) [7, 2] [29, 2] = [29, 2].map Int.ofNat := by decide +kernel
    simp [e]
  exact h

theorem unravel_2d (h w i j : Nat) (hj : j < w) : unravel [h, w] (i * w + j) = [i, j] := by
  simp only [unravel, List.foldl_cons, List.foldl_nil, Nat.one_mul, Nat.div_one]
  have hw : 0 < w := by omega
  have h1 : (i * w + j) / w = i := by
    rw [Nat.add_comm, Nat.add_mul_div_right _ _ hw, Nat.div_eq_of_lt hj]; simp
  have h2 : (i * w + j) % w = j := by
    rw [Nat.add_comm, Nat.add_mul_mod_self_right, Nat.mod_eq_of_lt hj]
  simp [h1, h2]

theorem ravel_2d (H W a b : Nat) : ravel [H, W] [a, b] = a * W + b := by
  simp [ravel]

/-- PROPERTY (mask resized to the new size, 2-D, binary64): pixel `(i, j)` of the mask of the feature image is the
input mask at `(srcF H h i, srcF W w j)` — by `srcF_eq_spec` the nearest old pixel to `(i·(H−1)/(h−1), j·(W−1)/(w−1))` -/
theorem resizeMask_2d (H W h w : Nat) (bits : List Bool) (m' : Mask)
    (hH : 2 ≤ H) (hW : 2 ≤ W) (hh : 2 ≤ h) (hw : 2 ≤ w)
    (hr : resizeMask ⟨[H, W], bits⟩ [h, w] = .ok m') (i j : Nat) (hi : i < h) (hj : j < w) :
    m'.shape = [h, w] ∧ m'.bits[i * w + j]? = some (bits.getD (srcF H h i * W + srcF W w j) false) := by
  unfold resizeMask resizeMaskR at hr
  split at hr
  · cases hr
  · split at hr
    · cases hr
    · split at hr
      · cases hr
      · injection hr with hr
        subst hr
        refine ⟨rfl, ?_⟩
        have hlt : i * w + j < prod [h, w] := by
          simp only [prod, List.foldl_cons, List.foldl_nil, Nat.one_mul]
          calc i * w + j < i * w + w := by omega
            _ = (i + 1) * w := by rw [Nat.add_mul, Nat.one_mul]
            _ ≤ h * w := Nat.mul_le_mul_right _ hi
        rw [List.getElem?_map, List.getElem?_range hlt]
        simp only [Option.map_some]
        have hdeg : degenerateAxes [H, W] [h, w] = false := by
          simp [degenerateAxes]; omega
        simp only [hdeg, Bool.false_eq_true, if_false, resizeBitWith, unravel_2d h w i j hj, axisTables,
          List.zipWith_cons_cons, List.zipWith_nil_right]
        have t0 : ((List.range h).map (srcF H h)).getD i 0 = srcF H h i := by simp [List.getD, hi]
        have t1 : ((List.range w).map (srcF W w)).getD j 0 = srcF W w j := by simp [List.getD, hj]
        rw [t0, t1, ravel_2d]

/-- PROPERTY (mask resized to the new size = nearest neighbour of exact arithmetic): wherever neither coordinate of a
pixel of the feature image is sampled exactly half-way, its mask value is the input mask at the nearest old pixel
`(a, b)` of the exact-arithmetic specification — for all extents from 2 up to 2²⁰ -/
theorem resizeMask_2d_nearest (H W h w : Nat) (bits : List Bool) (m' : Mask)
    (hH : 2 ≤ H) (hW : 2 ≤ W) (hh : 2 ≤ h) (hw : 2 ≤ w)
    (bH : H < 2 ^ 20) (bW : W < 2 ^ 20) (bh : h < 2 ^ 20) (bw : w < 2 ^ 20)
    (hr : resizeMask ⟨[H, W], bits⟩ [h, w] = .ok m') (i j a b : Nat) (hi : i < h) (hj : j < w)
    (ha : srcAxis H h i = .at a) (hb : srcAxis W w j = .at b) :
    m'.bits[i * w + j]? = some (bits.getD (a * W + b) false) := by
  rw [(resizeMask_2d H W h w bits m' hH hW hh hw hr i j hi hj).2,
    srcF_eq_spec H h i a hH hh bH bh hi ha, srcF_eq_spec W w j b hW hw bW bw hj hb]

/-- PROPERTY (landmarks rescaled by the shape ratio, binary64): the coordinate `p·fl(n/o)` the code computes is the
exact `p·n/o` up to a relative error of `3·2⁻⁵³` -/
theorem landmark_scale_binary64 (p : ℚ) (o n : Nat) (ho : 0 < o) :
    |fmul p (fdiv n o) - p * ((n : ℚ) / (o : ℚ))| ≤ 3 * ulp2 * |p * ((n : ℚ) / (o : ℚ))| := by
  unfold fmul fdiv
  have hu := ulp2_pos
  have hu1 := ulp2_lt
  have hoq : (0 : ℚ) < (o : ℚ) := by exact_mod_cast ho
  have hq : (0 : ℚ) ≤ (n : ℚ) / (o : ℚ) := by positivity
  set q := (n : ℚ) / (o : ℚ) with hqdef
  set s := rne q with hs
  have h1 : |s - q| ≤ q * ulp2 := by
    have := rne_rel_err q
    rwa [abs_of_nonneg hq] at this
  have h2 : |p * s - p * q| ≤ |p * q| * ulp2 := by
    have e : p * s - p * q = p * (s - q) := by ring
    rw [e, abs_mul, abs_mul, abs_of_nonneg hq]
    calc |p| * |s - q| ≤ |p| * (q * ulp2) := mul_le_mul_of_nonneg_left h1 (abs_nonneg p)
      _ = |p| * q * ulp2 := by ring
  have h3 : |rne (p * s) - p * s| ≤ |p * s| * ulp2 := rne_rel_err _
  have h4 : |p * s| ≤ |p * q| * (1 + ulp2) := by
    have := abs_sub_abs_le_abs_sub (p * s) (p * q)
    linarith
  have h5 : |rne (p * s) - p * q| ≤ |rne (p * s) - p * s| + |p * s - p * q| := by
    have := abs_add_le (rne (p * s) - p * s) (p * s - p * q)
    simpa using this
  have hA : 0 ≤ |p * q| := abs_nonneg _
  have h6 : |p * s| * ulp2 ≤ |p * q| * (1 + ulp2) * ulp2 := mul_le_mul_of_nonneg_right h4 hu.le
  have hu2 : (0 : ℚ) ≤ 1 - ulp2 := by
    have : (1 : ℚ) / 2 ^ 52 < 1 := by norm_num
    linarith
  have := mul_nonneg (mul_nonneg hA hu.le) hu2
  nlinarith

/-- non-vacuity: a mask that is not constant, through 4 → 3 (position 1·3/2 is exactly half-way: binary64 decides) -/
example : resizeMask ⟨[4, 2], [true, true, false, false, true, false, false, true]⟩ [3, 2]
    = .ok ⟨[3, 2], [true, true, true, false, false, true]⟩ := by decide +kernel

end MenpoModel.C18
