/-
C19 — evaluation COUNT theorems: what a read, a sequence of reads, an iteration, a consumed generator
prefix and the `Sequence` mix-ins evaluate, for every program.  Core Lean only.
-/
import MenpoModel.Core.C19Reads
import MenpoModel.Props.C19Base

namespace MenpoModel.LazyList
open MenpoModel.PyData

/-! ### helper lemmas -/

theorem evalLog_app (e : Env) (f : Nat) (t : LThunk) :
    (LThunk.app f t).evalLog e = stepLog e f (t.evalLog e) := by
  simp [LThunk.evalLog, stepLog]

theorem zipWith_app_evalLog (e : Env) (fs : List Nat) (ts : List LThunk) :
    (List.zipWith LThunk.app fs ts).map (LThunk.evalLog e)
      = List.zipWith (stepLog e) fs (ts.map (LThunk.evalLog e)) := by
  induction fs generalizing ts with
  | nil => simp
  | cons f fs ih => cases ts with
    | nil => simp
    | cons t ts => simp [evalLog_app, ih]

/-! ### PROPERTY (value and evaluation log of EVERY element of EVERY program): evaluating the lazy result
element by element gives exactly the value and exactly the provenance — the element's own base access,
then each mapped function once, innermost first — that the same operations give on an ordinary list
whose entries carry their provenance.  Errors included. -/

theorem lazy_refines_listLog (e : Env) (p : Prog) :
    mapE (List.map (LThunk.evalLog e)) p.lazy = p.refLog e := by
  induction p with
  | base b n => simp [Prog.lazy, Prog.refLog, mapE, LThunk.evalLog, Function.comp_def]
  | map f p ih =>
    simp only [Prog.lazy, Prog.refLog, ← ih]
    cases p.lazy <;> simp [mapE, evalLog_app, Function.comp_def]
  | mapEach fs p ih =>
    simp only [Prog.lazy, Prog.refLog, ← ih]
    cases p.lazy with
    | error x => simp [mapE, bindE]
    | ok ts =>
      simp only [mapE, bindE, List.length_map]
      by_cases h : fs.length = ts.length
      · simp only [h, if_true]; rw [zipWith_app_evalLog]
      · simp [h]
  | select s p ih =>
    simp only [Prog.lazy, Prog.refLog, ← ih]
    cases p.lazy with
    | error x => simp [mapE, bindE]
    | ok ts =>
      simp only [mapE, bindE, List.length_map]
      cases s.resolve ts.length <;> simp [gather_map]
  | rep n p ih =>
    simp only [Prog.lazy, Prog.refLog, ← ih]
    cases p.lazy <;> simp [mapE, List.map_flatMap, List.flatMap_map]
  | add p q ihp ihq =>
    simp only [Prog.lazy, Prog.refLog, ← ihp, ← ihq]
    cases p.lazy <;> cases q.lazy <;> simp [mapE, bindE]
  | addPlain p vs ih =>
    simp only [Prog.lazy, Prog.refLog, ← ih]
    cases p.lazy <;> simp [mapE, LThunk.evalLog, Function.comp_def]
  | copy p ih => simpa [Prog.lazy, Prog.refLog] using ih
  | iter f vs =>
    cases f <;> simp [Prog.lazy, Prog.refLog, mapE, iterThunk, LThunk.evalLog, stepLog, Function.comp_def]
  | glob r known files max =>
    simp only [Prog.lazy, Prog.refLog]
    cases optE (globPaths known files max) with
    | error x => simp [mapE]
    | ok fp => cases r <;> simp [mapE, importThunk, LThunk.evalLog, stepLog, Function.comp_def]

/-- the provenance reference carries the ordinary-list values -/
theorem refLog_values (e : Env) (p : Prog) :
    mapE (List.map Prod.fst) (p.refLog e) = p.ref e := by
  rw [← lazy_refines_listLog, ← lazy_refines_list]
  cases p.lazy <;> simp [mapE, evalLog_fst, Function.comp_def]

/-- PROPERTY (one read, program level): `p[i]` returns the value AND evaluates exactly the provenance of
element `i` of the ordinary list; out of range (either side) is IndexError. -/
theorem getInt_refLog (e : Env) (p : Prog) (i : Int) :
    p.getInt e i =
      bindE (p.refLog e) fun vs => match normIndex vs.length i with
        | none => .error .index
        | some j => match vs[j]? with
          | some x => .ok x
          | none => .error .index := by
  rw [← lazy_refines_listLog e p]
  unfold Prog.getInt
  cases p.lazy with
  | error x => simp [mapE, bindE]
  | ok ts =>
    simp only [mapE, bindE, List.length_map]
    cases normIndex ts.length i with
    | none => simp
    | some j =>
      simp only [List.getElem?_map]
      cases ts[j]? <;> simp

/-! ### sequences of reads: no hidden memo -/

theorem readAt_some (e : Env) (ts : List LThunk) (i : Int) (j : Nat) (t : LThunk)
    (hn : normIndex ts.length i = some j) (hj : ts[j]? = some t) :
    readAt e ts i = (.ok (t.evalLog e).1, (t.evalLog e).2) := by
  simp [readAt, hn, hj]

theorem readAt_none (e : Env) (ts : List LThunk) (i : Int)
    (hn : normIndex ts.length i = none ∨ ∃ j, normIndex ts.length i = some j ∧ ts[j]? = none) :
    readAt e ts i = (.error .index, []) := by
  rcases hn with hn | ⟨j, hn, hj⟩
  · simp [readAt, hn]
  · simp [readAt, hn, hj]

theorem readAt_cases (e : Env) (ts : List LThunk) (i : Int) :
    (∃ j t, normIndex ts.length i = some j ∧ ts[j]? = some t ∧
        readAt e ts i = (.ok (t.evalLog e).1, (t.evalLog e).2)) ∨
    readAt e ts i = (.error .index, []) := by
  cases hn : normIndex ts.length i with
  | none => exact .inr (readAt_none e ts i (.inl hn))
  | some j =>
    cases hj : ts[j]? with
    | none => exact .inr (readAt_none e ts i (.inr ⟨j, hn, hj⟩))
    | some t => exact .inl ⟨j, t, rfl, hj, readAt_some e ts i j t hn hj⟩

theorem readAt_getInt (e : Env) (p : Prog) (ts : List LThunk) (h : p.lazy = .ok ts) (i : Int) :
    p.getInt e i = match readAt e ts i with
      | (.ok v, l) => .ok (v, l)
      | (.error x, _) => .error x := by
  unfold Prog.getInt
  rw [h]
  simp only [bindE]
  cases hn : normIndex ts.length i with
  | none => rw [readAt_none e ts i (.inl hn)]
  | some j =>
    cases hj : ts[j]? with
    | none => rw [readAt_none e ts i (.inr ⟨j, hn, hj⟩)]; simp [hj]
    | some t => rw [readAt_some e ts i j t hn hj]; simp [hj]

/-- PROPERTY: a refused read (IndexError) evaluates nothing -/
theorem readAt_error_silent (e : Env) (ts : List LThunk) (i : Int) (x : Err)
    (h : (readAt e ts i).1 = .error x) : (readAt e ts i).2 = [] := by
  rcases readAt_cases e ts i with ⟨j, t, _, _, hr⟩ | hr
  · rw [hr] at h; simp at h
  · rw [hr]

/-- PROPERTY: a successful read evaluates ONE element of the list, namely the one at the normalised index,
and nothing else: result and log are that element's `evalLog` -/
theorem readAt_ok (e : Env) (ts : List LThunk) (i : Int) (v : Int)
    (h : (readAt e ts i).1 = .ok v) :
    ∃ j t, normIndex ts.length i = some j ∧ ts[j]? = some t ∧ readAt e ts i = (.ok (t.evalLog e).1, (t.evalLog e).2) := by
  rcases readAt_cases e ts i with hr | hr
  · exact hr
  · rw [hr] at h; simp at h

theorem readsAt_values (e : Env) (ts : List LThunk) (is : List Int) :
    (readsAt e ts is).1 = is.map fun i => (readAt e ts i).1 := by
  induction is with
  | nil => rfl
  | cons i is ih => simp [readsAt, ih]

/-- PROPERTY: the log of a sequence of reads is the concatenation of the logs of the single reads, in order —
every read evaluates its own chain again, whatever was read before -/
theorem readsAt_log (e : Env) (ts : List LThunk) (is : List Int) :
    (readsAt e ts is).2 = is.flatMap fun i => (readAt e ts i).2 := by
  induction is with
  | nil => rfl
  | cons i is ih => simp [readsAt, ih]

theorem readsAt_append (e : Env) (ts : List LThunk) (is js : List Int) :
    readsAt e ts (is ++ js) = ((readsAt e ts is).1 ++ (readsAt e ts js).1, (readsAt e ts is).2 ++ (readsAt e ts js).2) := by
  induction is with
  | nil => simp [readsAt]
  | cons i is ih => simp [readsAt, ih]

/-- PROPERTY (no hidden memo): reading the same element twice returns the same value twice and evaluates
its whole dependency chain twice -/
theorem read_twice_reevaluates (e : Env) (ts : List LThunk) (i : Int) :
    readsAt e ts [i, i] = ([(readAt e ts i).1, (readAt e ts i).1], (readAt e ts i).2 ++ (readAt e ts i).2) := by
  simp [readsAt]

/-! ### iteration -/

theorem normIndex_nat (n i : Nat) : normIndex n (i : Int) = if i < n then some i else none := by
  unfold normIndex
  have h1 : ¬ ((i : Int) < 0) := by omega
  simp only [h1, if_false]
  by_cases h : i < n
  · have h2 : (0 : Int) ≤ (i : Int) ∧ (i : Int) < (n : Int) := by omega
    simp [h2, h]
  · have h2 : ¬ ((0 : Int) ≤ (i : Int) ∧ (i : Int) < (n : Int)) := by omega
    simp [h]

theorem readAt_nat (e : Env) (ts : List LThunk) (i : Nat) :
    readAt e ts (i : Int) = match ts[i]? with
      | some t => (.ok (t.evalLog e).1, (t.evalLog e).2)
      | none => (.error .index, []) := by
  by_cases h : i < ts.length
  · have hn : normIndex ts.length (i : Int) = some i := by rw [normIndex_nat]; simp [h]
    rw [readAt_some e ts i i ts[i] hn (List.getElem?_eq_getElem h), List.getElem?_eq_getElem h]
  · have hn : normIndex ts.length (i : Int) = none := by rw [normIndex_nat]; simp [h]
    rw [readAt_none e ts i (.inl hn), List.getElem?_eq_none (by omega)]

theorem evalLog_accs (e : Env) (t : LThunk) : (t.evalLog e).2.filterMap evAcc = t.baseOf.toList := by
  induction t with
  | base b i => simp [LThunk.evalLog, LThunk.baseOf, evAcc]
  | const v => simp [LThunk.evalLog, LThunk.baseOf]
  | app f t ih => simp [LThunk.evalLog, LThunk.baseOf, List.filterMap_append, ih, evAcc]

theorem logsOf_cons (e : Env) (t : LThunk) (ts : List LThunk) :
    logsOf e (t :: ts) = (t.evalLog e).2 ++ logsOf e ts := by simp [logsOf]

theorem logsOf_nil (e : Env) : logsOf e [] = [] := rfl

theorem logsOf_append (e : Env) (a b : List LThunk) : logsOf e (a ++ b) = logsOf e a ++ logsOf e b := by
  simp [logsOf]

/-- the iterator, run for `fuel` steps from position `i`, evaluates the elements `i, i+1, …` — each exactly
once, in order — and nothing else; running past the end costs one IndexError, which evaluates nothing -/
theorem iterFrom_spec (e : Env) (ts : List LThunk) (fuel i : Nat) :
    iterFrom e ts i fuel
      = (((ts.drop i).take fuel).map (LThunk.eval e), logsOf e ((ts.drop i).take fuel)) := by
  induction fuel generalizing i with
  | zero => simp [iterFrom, logsOf]
  | succ n ih =>
    unfold iterFrom
    rw [readAt_nat]
    by_cases h : i < ts.length
    · rw [List.getElem?_eq_getElem h]
      simp only [ih]
      rw [List.drop_eq_getElem_cons h, List.take_succ_cons, List.map_cons, logsOf_cons, evalLog_fst]
    · have h3 : ts[i]? = none := List.getElem?_eq_none (by omega)
      have h4 : ts.drop i = [] := List.drop_eq_nil_of_le (by omega)
      simp [h3, h4, logsOf]

/-- PROPERTY (iteration): `for x in ll` / `list(ll)` yields the values of the ordinary list and evaluates
every element exactly once, in order -/
theorem iterAll_spec (e : Env) (ts : List LThunk) :
    iterAll e ts = (ts.map (LThunk.eval e), logsOf e ts) := by
  unfold iterAll
  rw [iterFrom_spec, List.drop_zero, List.take_of_length_le (by omega)]

theorem iter_refines (e : Env) (p : Prog) :
    mapE (fun ts => (iterAll e ts).1) p.lazy = p.ref e := by
  rw [← lazy_refines_list]
  cases p.lazy <;> simp [mapE, iterAll_spec]

/-- PROPERTY (generators of the importers, `as_generator=True`): consuming `k` items evaluates the first `k`
elements exactly once each, in order, and none of the others -/
theorem iter_prefix (e : Env) (ts : List LThunk) (k : Nat) :
    iterFrom e ts 0 k = ((ts.take k).map (LThunk.eval e), logsOf e (ts.take k)) := by
  rw [iterFrom_spec, List.drop_zero]

/-- every element's base access occurs in the iteration log exactly as often as the element occurs:
the base accesses of a full pass are the base accesses of the elements, in order -/
theorem iterAll_accesses (e : Env) (ts : List LThunk) :
    (iterAll e ts).2.filterMap evAcc = ts.flatMap fun t => t.baseOf.toList := by
  rw [iterAll_spec]
  induction ts with
  | nil => rfl
  | cons t ts ih =>
    rw [logsOf_cons, List.filterMap_append, ih, evalLog_accs]
    simp

theorem iterAll_calls (e : Env) (ts : List LThunk) :
    (iterAll e ts).2.filterMap evFn = ts.flatMap LThunk.fns := by
  rw [iterAll_spec]
  induction ts with
  | nil => rfl
  | cons t ts ih =>
    rw [logsOf_cons, List.filterMap_append, ih, (evalLog_chain e t).2]
    simp

/-! ### the other `Sequence` mix-ins -/

theorem upToFirst_prefix (e : Env) (v : Int) (ts : List LThunk) : upToFirst e v ts <+: ts := by
  induction ts with
  | nil => simp [upToFirst]
  | cons t ts ih =>
    unfold upToFirst
    split
    · exact ⟨ts, rfl⟩
    · exact (List.prefix_cons_inj t).mpr ih

theorem upToFirst_of_not_mem (e : Env) (v : Int) (ts : List LThunk)
    (h : v ∉ ts.map (LThunk.eval e)) : upToFirst e v ts = ts := by
  induction ts with
  | nil => rfl
  | cons t ts ih =>
    simp only [List.map_cons, List.mem_cons, not_or] at h
    unfold upToFirst
    rw [if_neg (fun hh => h.1 hh.symm), ih h.2]

/-- PROPERTY (`v in ll`): the answer is membership in the ordinary list; what is evaluated is the prefix up to
and including the first equal element (everything when there is none), each element once -/
theorem containsTs_spec (e : Env) (v : Int) (ts : List LThunk) :
    containsTs e v ts = (decide (v ∈ ts.map (LThunk.eval e)), logsOf e (upToFirst e v ts)) := by
  induction ts with
  | nil => simp [containsTs, upToFirst, logsOf]
  | cons t ts ih =>
    unfold containsTs upToFirst
    rw [evalLog_fst]
    by_cases h : t.eval e = v
    · simp [h, logsOf]
    · have h' : ¬ v = t.eval e := fun hh => h hh.symm
      simp [h, h', ih, logsOf_cons]

/-- PROPERTY (`ll.index(v)`): first position in the ordinary list or ValueError; same evaluation footprint -/
theorem indexTs_spec (e : Env) (v : Int) (ts : List LThunk) :
    indexTs e v ts = ((if v ∈ ts.map (LThunk.eval e) then some ((ts.map (LThunk.eval e)).idxOf v) else none),
                      logsOf e (upToFirst e v ts)) := by
  induction ts with
  | nil => simp [indexTs, upToFirst, logsOf]
  | cons t ts ih =>
    unfold indexTs upToFirst
    rw [evalLog_fst]
    by_cases h : t.eval e = v
    · simp [h, logsOf]
    · have h' : ¬ v = t.eval e := fun hh => h hh.symm
      simp only [h, if_false, ih, logsOf_cons, List.map_cons, List.mem_cons, h', false_or, List.idxOf_cons]
      have hb : (t.eval e == v) = false := by simp [h]
      rw [hb]
      split <;> simp

/-- PROPERTY (`ll.count(v)`): the count in the ordinary list; a full pass, each element once -/
theorem countTs_spec (e : Env) (v : Int) (ts : List LThunk) :
    countTs e v ts = ((ts.map (LThunk.eval e)).count v, logsOf e ts) := by
  unfold countTs
  rw [iterAll_spec, List.count_eq_length_filter]
  simp only [Prod.mk.injEq, and_true]
  congr 1

theorem readsAt_range_map (e : Env) (ts : List LThunk) (is : List Nat) (h : ∀ i ∈ is, i < ts.length) :
    readsAt e ts (is.map fun (i : Nat) => (i : Int))
      = ((is.filterMap (ts[·]?)).map (fun t => Except.ok (t.eval e)),
         logsOf e (is.filterMap (ts[·]?))) := by
  induction is with
  | nil => simp [readsAt, logsOf]
  | cons i is ih =>
    have hi : i < ts.length := h i (by simp)
    have ih' := ih (fun j hj => h j (by simp [hj]))
    simp only [List.map_cons, readsAt, ih', readAt_nat, List.filterMap_cons, List.getElem?_eq_getElem hi]
    simp [logsOf_cons, evalLog_fst]

theorem filterMap_getElem?_range_reverse {α} (l : List α) (n : Nat) (hn : n ≤ l.length) :
    (List.range n).reverse.filterMap (l[·]?) = (l.take n).reverse := by
  induction n with
  | zero => simp
  | succ n ih =>
    have hlt : n < l.length := by omega
    rw [List.range_succ, List.reverse_append, List.take_add_one, List.reverse_append,
      List.getElem?_eq_getElem hlt]
    simp [ih (by omega), List.getElem?_eq_getElem hlt]

/-- PROPERTY (`reversed(ll)`): the values of the reversed ordinary list; every element evaluated exactly once,
last first -/
theorem reversedTs_spec (e : Env) (ts : List LThunk) :
    reversedTs e ts = (ts.reverse.map (fun t => Except.ok (t.eval e)), logsOf e ts.reverse) := by
  unfold reversedTs
  rw [readsAt_range_map e ts _ (by intro i hi; simpa using hi)]
  rw [filterMap_getElem?_range_reverse ts ts.length (Nat.le_refl _), List.take_length]

theorem takeWhile_all {α} (p : α → Bool) (l : List α) (h : ∀ x ∈ l, p x = true) : l.takeWhile p = l := by
  induction l with
  | nil => rfl
  | cons a l ih =>
    rw [List.takeWhile_cons, if_pos (h a (by simp)), ih (fun x hx => h x (by simp [hx]))]

theorem takeWhile_append_all {α} (p : α → Bool) (l r : List α) (h : ∀ x ∈ l, p x = true) :
    (l ++ r).takeWhile p = l ++ r.takeWhile p := by
  induction l with
  | nil => rfl
  | cons a l ih =>
    rw [List.cons_append, List.takeWhile_cons, if_pos (h a (by simp)), ih (fun x hx => h x (by simp [hx])),
      List.cons_append]

theorem takeWhile_append_exists {α} (p : α → Bool) (l r : List α) (h : ∃ x ∈ l, p x = false) :
    (l ++ r).takeWhile p = l.takeWhile p := by
  induction l with
  | nil => simp at h
  | cons a l ih =>
    rw [List.cons_append, List.takeWhile_cons, List.takeWhile_cons]
    by_cases ha : p a = true
    · rw [if_pos ha, if_pos ha]
      obtain ⟨x, hx, hpx⟩ := h
      rcases List.mem_cons.mp hx with rfl | hx'
      · rw [ha] at hpx; cases hpx
      · rw [ih ⟨x, hx', hpx⟩]
    · rw [if_neg ha, if_neg ha]

/-! ### mapping something that is not callable -/

/-- PROPERTY: when every mapped object is callable the guarded evaluation IS the evaluation -/
theorem evalLogX_callable (e : Env) (bad : Nat → Bool) (t : LThunk) (h : ∀ f ∈ t.fns, bad f = false) :
    t.evalLogX e bad = (.ok (t.evalLog e).1, (t.evalLog e).2) := by
  induction t with
  | base b i => rfl
  | const v => rfl
  | app f t ih =>
    have h1 : ∀ g ∈ t.fns, bad g = false := fun g hg => h g (by simp [LThunk.fns, hg])
    have h2 : bad f = false := h f (by simp [LThunk.fns])
    simp [LThunk.evalLogX, ih h1, h2, LThunk.evalLog]

/-- PROPERTY: the read through a non-callable raises TypeError, *after* having evaluated the element's base
access and exactly the callable functions below the first non-callable one (nothing above it) -/
theorem evalLogX_footprint (e : Env) (bad : Nat → Bool) (t : LThunk) :
    ((t.evalLogX e bad).1 = if t.fns.all (fun f => !bad f) then .ok (t.eval e) else .error .type) ∧
    ((t.evalLogX e bad).2.filterMap evFn = goodPrefix bad t.fns) ∧
    ((t.evalLogX e bad).2.filterMap evAcc = t.baseOf.toList) := by
  induction t with
  | base b i => simp [LThunk.evalLogX, LThunk.fns, LThunk.eval, LThunk.baseOf, goodPrefix, evFn, evAcc]
  | const v => simp [LThunk.evalLogX, LThunk.fns, LThunk.eval, LThunk.baseOf, goodPrefix]
  | app f t ih =>
    obtain ⟨h1, h2, h3⟩ := ih
    unfold LThunk.evalLogX
    cases hx : t.evalLogX e bad with
    | mk r l =>
      rw [hx] at h1 h2 h3
      simp only at h1 h2 h3
      simp only [goodPrefix] at h2
      cases r with
      | error x =>
        have hall : t.fns.all (fun f => !bad f) = false := by
          cases hh : t.fns.all (fun f => !bad f) with
          | false => rfl
          | true => rw [hh] at h1; simp at h1
        have hx' : x = .type := by
          rw [hall] at h1; simpa using h1
        subst hx'
        obtain ⟨g, hg, hbg⟩ : ∃ g ∈ t.fns, (!bad g) = false := by
          obtain ⟨g, hg, hbg⟩ := List.all_eq_false.mp hall
          exact ⟨g, hg, by simpa using hbg⟩
        refine ⟨?_, ?_, ?_⟩
        · simp [LThunk.fns, List.all_append, hall]
        · simp only [LThunk.fns, goodPrefix]
          rw [h2, takeWhile_append_exists _ _ _ ⟨g, hg, hbg⟩]
        · simpa [LThunk.baseOf] using h3
      | ok v =>
        have hall : t.fns.all (fun f => !bad f) = true := by
          cases hh : t.fns.all (fun f => !bad f) with
          | true => rfl
          | false => rw [hh] at h1; simp at h1
        have hv : v = t.eval e := by
          rw [hall] at h1; simpa using h1
        subst hv
        have hallp : ∀ x ∈ t.fns, (!bad x) = true := List.all_eq_true.mp hall
        have hpre : List.takeWhile (fun f => !bad f) t.fns = t.fns := takeWhile_all _ _ hallp
        rw [hpre] at h2
        by_cases hb : bad f = true
        · refine ⟨?_, ?_, ?_⟩
          · simp [hb, LThunk.fns, List.all_append]
          · simp only [hb, if_true, LThunk.fns, goodPrefix]
            rw [h2, takeWhile_append_all _ _ _ hallp]
            simp [hb]
          · simpa [hb, LThunk.baseOf] using h3
        · have hb' : bad f = false := by simpa using hb
          refine ⟨?_, ?_, ?_⟩
          · simp [hb', LThunk.fns, List.all_append, hall, LThunk.eval]
          · simp only [hb', LThunk.fns, goodPrefix]
            rw [takeWhile_append_all _ _ _ hallp]
            simp [hb', evFn, List.filterMap_append, h2]
          · simp [hb', LThunk.baseOf, List.filterMap_append, h3, evAcc]

/-! ### histories: operations are silent, reads never change a list, a list reads the same whenever it is read -/

/-- PROPERTY (errors leave everything unchanged): a refused operation (wrong-length function list, index out of
range in an index list, slice step 0, bad `max_assets`, empty glob) allocates nothing and writes nothing -/
theorem hstep_refused (h : Heap) (op : HOp) (x : Err) (hv : opValue h op = .error x) : hstep h op = h := by
  unfold hstep; rw [hv]

/-- reads are not heap operations: the heap after a history is the heap after its operations alone -/
theorem hplay_heap (e : Env) (evs : List HEv) (h : Heap) :
    (hplay e h evs).1 = hrun h (evs.filterMap HEv.opOf) := by
  induction evs generalizing h with
  | nil => rfl
  | cons ev evs ih =>
    cases ev with
    | op o => simp [hplay, HEv.opOf, ih, hrun]
    | read a i =>
      have : HEv.opOf (.read a i) = none := rfl
      simp [hplay, ih, this]
    | iterate a =>
      have : HEv.opOf (.iterate a) = none := rfl
      simp [hplay, ih, this]

/-- PROPERTY (none of these operations evaluates anything, over whole histories): a history made of operations
only — any number, any aliasing of operands, refused ones included — invokes no callable -/
theorem hplay_ops_silent (e : Env) (evs : List HEv) (h : Heap) (hops : ∀ ev ∈ evs, ∃ o, ev = .op o) :
    (hplay e h evs).2 = [] := by
  induction evs generalizing h with
  | nil => rfl
  | cons ev evs ih =>
    obtain ⟨o, rfl⟩ := hops ev (by simp)
    simp only [hplay]
    exact ih _ (fun ev' hev => hops ev' (by simp [hev]))

theorem hplay_append (e : Env) (xs ys : List HEv) (h : Heap) :
    hplay e h (xs ++ ys) = ((hplay e (hplay e h xs).1 ys).1, (hplay e h xs).2 ++ (hplay e (hplay e h xs).1 ys).2) := by
  induction xs generalizing h with
  | nil => simp [hplay]
  | cons ev xs ih =>
    cases ev with
    | op o => simp [hplay, ih]
    | read a i => simp [hplay, ih]
    | iterate a => simp [hplay, ih]

/-- PROPERTY (the lists an operation was applied to behave afterwards exactly as before, with reads counted):
reading element `i` of an existing list object after ANY history of operations and reads returns the value and
evaluates exactly the log it would have returned and evaluated before that history -/
theorem hplay_read_late (e : Env) (evs : List HEv) (h : Heap) (a : Nat) (ha : a < h.length) (i : Int) :
    (hplay e h (evs ++ [.read a i])).2 = (hplay e h evs).2 ++ (readAt e (h[a]?.getD []) i).2 := by
  rw [hplay_append]
  simp only [hplay, List.append_nil]
  rw [hplay_heap, hrun_frame _ h a ha]

theorem hplay_iterate_late (e : Env) (evs : List HEv) (h : Heap) (a : Nat) (ha : a < h.length) :
    (hplay e h (evs ++ [.iterate a])).2 = (hplay e h evs).2 ++ (iterAll e (h[a]?.getD [])).2 := by
  rw [hplay_append]
  simp only [hplay, List.append_nil]
  rw [hplay_heap, hrun_frame _ h a ha]

/-! ### non-vacuity -/

example : hplay env0 [] [.op (.base 0 2), .op (.map 1 0), .read 1 (-1), .op (.mapEach [1] 0), .op (.add 1 1),
      .read 1 (-1), .iterate 2, .read 0 5] =
    ([[.base 0 0, .base 0 1], [.app 1 (.base 0 0), .app 1 (.base 0 1)],
      [.app 1 (.base 0 0), .app 1 (.base 0 1), .app 1 (.base 0 0), .app 1 (.base 0 1)]],
     [.acc 0 1, .call 1 1, .acc 0 1, .call 1 1, .acc 0 0, .call 1 0, .acc 0 1, .call 1 1, .acc 0 0, .call 1 0,
      .acc 0 1, .call 1 1]) := by rfl


def tsX : List LThunk := [.app 1 (.base 0 0), .app 2 (.app 1 (.base 0 1)), .const 5, .app 1 (.base 0 0)]

example : readsAt env0 tsX [1, 1, -1, 7] =
    ([.ok 17, .ok 17, .ok 1, .error .index],
     [.acc 0 1, .call 1 1, .call 2 4, .acc 0 1, .call 1 1, .call 2 4, .acc 0 0, .call 1 0]) := by rfl
example : iterAll env0 tsX = ([1, 17, 5, 1],
    [.acc 0 0, .call 1 0, .acc 0 1, .call 1 1, .call 2 4, .acc 0 0, .call 1 0]) := by rfl
example : iterFrom env0 tsX 0 2 = ([1, 17], [.acc 0 0, .call 1 0, .acc 0 1, .call 1 1, .call 2 4]) := by rfl
example : containsTs env0 17 tsX = (true, [.acc 0 0, .call 1 0, .acc 0 1, .call 1 1, .call 2 4]) := by rfl
example : (indexTs env0 5 tsX).1 = some 2 := by rfl
example : (indexTs env0 77 tsX).1 = none := by rfl
example : (countTs env0 1 tsX).1 = 2 := by rfl
example : (reversedTs env0 tsX).1 = [.ok 1, .ok 5, .ok 17, .ok 1] := by rfl
example : (LThunk.app 3 (.app 2 (.app 1 (.base 0 1)))).evalLogX env0 (· == 2)
    = (.error .type, [.acc 0 1, .call 1 1]) := by rfl
example : (Prog.map 1 (.glob (some 2) [7, 8] [⟨0, [9, 7]⟩, ⟨1, [3]⟩, ⟨2, [8]⟩] (some 5))).refLog env0
    = .ok [(3 * (4 * 700 + 1) + 1, [.acc 7 0, .call 2 700, .call 1 2801]),
           (3 * (4 * 802 + 1) + 1, [.acc 8 2, .call 2 802, .call 1 3209])] := by rfl

end MenpoModel.LazyList
