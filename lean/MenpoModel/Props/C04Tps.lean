/-
C04 — thin plate splines: what the SVD-based solve of `_build_coefficients` computes, and the two kernel classes.

  truncSVD_kept            the coded `inv_l · yᵀ` (`inv_l = U[:, :keep] · (1/s[:keep] · Vh[:keep, :])`) solves the transposed
                           system on the kept right-singular subspace:  `Lᵀ C = Vhᵀ · mask · Vh · Y`   (any field; the SVD
                           contract `L = U·diag s·Vh`, `UᵀU = 1` as hypotheses)
  truncSVD_full            with every singular value above the floor (the property's quantifier: general position) the
                           coded coefficients solve `Lᵀ C = Y` exactly — the former contract "the truncated-SVD solve returns
                           (L⁻¹)ᵀ·Y" is a theorem about numpy's raw SVD contract now
  truncSVD_attainable      with truncation the system is still solved whenever the data lies in the kept subspace
  tps_interpolates_of_solution   any solution of the transposed system interpolates (kernel centred on the source)
  tps_truncSVD_interpolates  PROPERTY  coefficients computed by the coded formula from any factors meeting the SVD
                           contract give a spline that sends every source landmark exactly onto its target landmark
  tps_kernel_scale         scaling the radial function by `c ≠ 0` rescales the non-affine coefficients by `1/c` and leaves the
                           warp unchanged: `R2LogR2RBF = 2 · R2LogRRBF` (`log r² = 2 log r`, a contract of `log` checked
                           numerically) define the same spline and the same pseudoinverse
-/
import MenpoModel.Props.C04Base
import Mathlib.Data.Matrix.Mul
import Mathlib.LinearAlgebra.Matrix.NonsingularInverse
import Mathlib.Algebra.BigOperators.Field

set_option linter.unusedSimpArgs false

namespace MenpoModel.C04
open Matrix

section svd
variable {ι κ 𝕜 : Type} [Fintype ι] [DecidableEq ι] [Field 𝕜]

/-- `inv_l` of `ThinPlateSplines._build_coefficients`, written with a 0/1 mask on the singular index instead of the
slice `[:keep]` (the singular values come sorted, so the kept ones are an initial segment; nothing below depends on it) -/
def truncInv (U Vh : Matrix ι ι 𝕜) (s : ι → 𝕜) (keep : ι → Bool) : Matrix ι ι 𝕜 :=
  U * Matrix.diagonal (fun i => if keep i then (s i)⁻¹ else 0) * Vh

/-- the 0/1 mask as a diagonal matrix -/
def maskM (keep : ι → Bool) : Matrix ι ι 𝕜 := Matrix.diagonal fun i => if keep i then 1 else 0

theorem truncSVD_kept (L U Vh : Matrix ι ι 𝕜) (s : ι → 𝕜) (keep : ι → Bool) (Y : Matrix ι κ 𝕜)
    (hL : L = U * Matrix.diagonal s * Vh) (hU : Uᵀ * U = 1) (hs : ∀ i, keep i = true → s i ≠ 0) :
    Lᵀ * (truncInv U Vh s keep * Y) = Vhᵀ * maskM keep * Vh * Y := by
  have hd : Matrix.diagonal s * Matrix.diagonal (fun i => if keep i then (s i)⁻¹ else 0) = (maskM keep : Matrix ι ι 𝕜) := by
    rw [Matrix.diagonal_mul_diagonal, maskM]
    congr 1; funext i
    by_cases h : keep i = true
    · simp [h, hs i h]
    · simp [h]
  rw [hL, truncInv, Matrix.transpose_mul, Matrix.transpose_mul, Matrix.diagonal_transpose]
  calc Vhᵀ * (Matrix.diagonal s * Uᵀ) * (U * Matrix.diagonal (fun i => if keep i then (s i)⁻¹ else 0) * Vh * Y)
      = Vhᵀ * (Matrix.diagonal s * (Uᵀ * U) * Matrix.diagonal (fun i => if keep i then (s i)⁻¹ else 0)) * Vh * Y := by
        simp only [Matrix.mul_assoc]
    _ = Vhᵀ * maskM keep * Vh * Y := by rw [hU, Matrix.mul_one, hd]

theorem truncSVD_full (L U Vh : Matrix ι ι 𝕜) (s : ι → 𝕜) (keep : ι → Bool) (Y : Matrix ι κ 𝕜)
    (hL : L = U * Matrix.diagonal s * Vh) (hU : Uᵀ * U = 1) (hV : Vh * Vhᵀ = 1)
    (hall : ∀ i, keep i = true) (hs : ∀ i, s i ≠ 0) :
    Lᵀ * (truncInv U Vh s keep * Y) = Y := by
  rw [truncSVD_kept L U Vh s keep Y hL hU (fun i _ => hs i)]
  have hm : (maskM keep : Matrix ι ι 𝕜) = 1 := by
    rw [maskM, ← Matrix.diagonal_one]; congr 1; funext i; simp [hall i]
  have hV' : Vhᵀ * Vh = 1 := by
    exact mul_eq_one_comm.mp hV
  rw [hm, Matrix.mul_one, hV', Matrix.one_mul]

theorem truncSVD_attainable (L U Vh : Matrix ι ι 𝕜) (s : ι → 𝕜) (keep : ι → Bool) (Y : Matrix ι κ 𝕜)
    (hL : L = U * Matrix.diagonal s * Vh) (hU : Uᵀ * U = 1) (hs : ∀ i, keep i = true → s i ≠ 0)
    (hY : Vhᵀ * maskM keep * Vh * Y = Y) :
    Lᵀ * (truncInv U Vh s keep * Y) = Y := by
  rw [truncSVD_kept L U Vh s keep Y hL hU hs, hY]

end svd

/-! ## from the matrix statement to the spline -/

theorem sumIdx_eq {n : ℕ} (f : Idx n → ℚ) : sumIdx f = ∑ i, f i := by
  rw [sumIdx, sumFin_eq, sumFin_eq, Fintype.sum_sum_type]

/-- any solution of the transposed system gives an interpolating spline (kernel centred on the source points) -/
theorem tps_interpolates_of_solution {n : ℕ} (φ : ℚ → ℚ) (t : TPS n) (hc : t.ctr = t.src) (C : Idx n → P2)
    (hs : ∀ i, sumIdx (fun j => sysL φ t.src t.ctr j i * (C j).x) = (rhs t.tgt i).x ∧
               sumIdx (fun j => sysL φ t.src t.ctr j i * (C j).y) = (rhs t.tgt i).y) (i : Fin n) :
    t.eval φ C (t.src i) = t.tgt i := by
  have h := hs (.inl i)
  rw [hc] at h
  simp only [sysL_symm φ t.src _ (Sum.inl i), rhs] at h
  apply P2.ext'
  · rw [← h.1]; unfold TPS.eval; simp only [hc]
    congr 1; funext j; cases j <;> simp [sysL]
  · rw [← h.2]; unfold TPS.eval; simp only [hc]
    congr 1; funext j; cases j <;> simp [sysL]

/-- the system matrix `self.l` and the right-hand side `self.y.T` as matrices -/
def sysM {n : ℕ} (φ : ℚ → ℚ) (t : TPS n) : Matrix (Idx n) (Idx n) ℚ := Matrix.of (sysL φ t.src t.ctr)
def rhsM {n : ℕ} (t : TPS n) : Matrix (Idx n) (Fin 2) ℚ :=
  Matrix.of fun i k => if k = 0 then (rhs t.tgt i).x else (rhs t.tgt i).y
def coefOf {n : ℕ} (C : Matrix (Idx n) (Fin 2) ℚ) : Idx n → P2 := fun j => ⟨C j 0, C j 1⟩

theorem solves_of_matrix {n : ℕ} (φ : ℚ → ℚ) (t : TPS n) (C : Matrix (Idx n) (Fin 2) ℚ)
    (h : (sysM φ t)ᵀ * C = rhsM t) (i : Idx n) :
    sumIdx (fun j => sysL φ t.src t.ctr j i * (coefOf C j).x) = (rhs t.tgt i).x ∧
    sumIdx (fun j => sysL φ t.src t.ctr j i * (coefOf C j).y) = (rhs t.tgt i).y := by
  have h0 := congrFun (congrFun h i) 0
  have h1 := congrFun (congrFun h i) 1
  simp only [Matrix.mul_apply, Matrix.transpose_apply, sysM, rhsM, Matrix.of_apply, if_true] at h0 h1
  rw [sumIdx_eq, sumIdx_eq]
  constructor
  · simpa [coefOf] using h0
  · simpa [coefOf] using h1

/-- PROPERTY (thin plate splines, the solve as coded): let `U, s, Vh` be ANY factors meeting numpy's SVD contract for the
system matrix (`L = U·diag s·Vh`, `UᵀU = 1`, `Vh·Vhᵀ = 1`), every singular value non-zero and kept (above
`min_singular_val`: landmarks in general position).  Then the coefficients `inv_l · yᵀ` computed by
`_build_coefficients` define a spline that sends every source landmark exactly onto its target landmark. -/
theorem tps_truncSVD_interpolates {n : ℕ} (φ : ℚ → ℚ) (t : TPS n) (hc : t.ctr = t.src)
    (U Vh : Matrix (Idx n) (Idx n) ℚ) (s : Idx n → ℚ) (keep : Idx n → Bool)
    (hL : sysM φ t = U * Matrix.diagonal s * Vh) (hU : Uᵀ * U = 1) (hV : Vh * Vhᵀ = 1)
    (hall : ∀ i, keep i = true) (hs : ∀ i, s i ≠ 0) (i : Fin n) :
    t.eval φ (coefOf (truncInv U Vh s keep * rhsM t)) (t.src i) = t.tgt i :=
  tps_interpolates_of_solution φ t hc _
    (solves_of_matrix φ t _ (truncSVD_full (sysM φ t) U Vh s keep (rhsM t) hL hU hV hall hs)) i

/-- … and with truncation (some singular values dropped) it still does whenever the data is attainable on the kept
right-singular subspace -/
theorem tps_truncSVD_attainable_interpolates {n : ℕ} (φ : ℚ → ℚ) (t : TPS n) (hc : t.ctr = t.src)
    (U Vh : Matrix (Idx n) (Idx n) ℚ) (s : Idx n → ℚ) (keep : Idx n → Bool)
    (hL : sysM φ t = U * Matrix.diagonal s * Vh) (hU : Uᵀ * U = 1) (hs : ∀ i, keep i = true → s i ≠ 0)
    (hY : Vhᵀ * maskM keep * Vh * rhsM t = rhsM t) (i : Fin n) :
    t.eval φ (coefOf (truncInv U Vh s keep * rhsM t)) (t.src i) = t.tgt i :=
  tps_interpolates_of_solution φ t hc _
    (solves_of_matrix φ t _ (truncSVD_attainable (sysM φ t) U Vh s keep (rhsM t) hL hU hs hY)) i

/-- non-vacuity of the SVD contract: a diagonal system (`U = Vh = 1`) -/
example : ∃ (U Vh : Matrix (Fin 2) (Fin 2) ℚ) (s : Fin 2 → ℚ),
    (Matrix.diagonal (fun i : Fin 2 => (i.val : ℚ) + 2)) = U * Matrix.diagonal s * Vh ∧ Uᵀ * U = 1 ∧ Vh * Vhᵀ = 1 ∧
      ∀ i, s i ≠ 0 :=
  ⟨1, 1, fun i => (i.val : ℚ) + 2, by simp, by simp, by simp, fun i => by positivity⟩

/-! ## the two kernel classes define the same warp -/

theorem kern_scale (φ : ℚ → ℚ) (c : ℚ) (p q : P2) : kern (fun x => c * φ x) p q = c * kern φ p q := by
  unfold kern; split <;> simp

/-- the coefficients of the scaled kernel: non-affine part divided by `c`, affine part unchanged -/
def scaleCoef {n : ℕ} (c : ℚ) (C : Idx n → P2) : Idx n → P2
  | .inl k => ⟨(C (.inl k)).x / c, (C (.inl k)).y / c⟩
  | .inr a => C (.inr a)

theorem tps_kernel_scale {n : ℕ} (φ : ℚ → ℚ) (c : ℚ) (hc : c ≠ 0) (t : TPS n) (C : Idx n → P2)
    (hs : ∀ i, sumIdx (fun j => sysL φ t.src t.ctr j i * (C j).x) = (rhs t.tgt i).x ∧
               sumIdx (fun j => sysL φ t.src t.ctr j i * (C j).y) = (rhs t.tgt i).y) :
    (∀ i, sumIdx (fun j => sysL (fun x => c * φ x) t.src t.ctr j i * (scaleCoef c C j).x) = (rhs t.tgt i).x ∧
          sumIdx (fun j => sysL (fun x => c * φ x) t.src t.ctr j i * (scaleCoef c C j).y) = (rhs t.tgt i).y) ∧
    ∀ p, t.eval (fun x => c * φ x) (scaleCoef c C) p = t.eval φ C p := by
  constructor
  · intro i
    obtain ⟨h1, h2⟩ := hs i
    cases i with
    | inl k =>
      rw [← h1, ← h2]
      constructor <;>
      · simp only [sumIdx, sysL, scaleCoef, kern_scale]
        congr 1
        congr 1; funext m; field_simp
    | inr a =>
      simp only [rhs] at h1 h2 ⊢
      simp only [sumIdx, sysL, scaleCoef, mul_zero, zero_mul] at h1 h2 ⊢
      have z : sumFin (fun _ : Fin 3 => (0 : ℚ)) = 0 := by simp [sumFin_eq]
      rw [z, add_zero] at h1 h2 ⊢
      constructor
      · have : sumFin (fun m : Fin n => pRow (t.src m) a * ((C (.inl m)).x / c)) =
            sumFin (fun m : Fin n => pRow (t.src m) a * (C (.inl m)).x) / c := by
          rw [sumFin_eq, sumFin_eq, Finset.sum_div]; congr 1; funext m; ring
        rw [this, h1]; simp
      · have : sumFin (fun m : Fin n => pRow (t.src m) a * ((C (.inl m)).y / c)) =
            sumFin (fun m : Fin n => pRow (t.src m) a * (C (.inl m)).y) / c := by
          rw [sumFin_eq, sumFin_eq, Finset.sum_div]; congr 1; funext m; ring
        rw [this, h2]; simp
  · intro p
    unfold TPS.eval
    apply P2.ext' <;>
    · simp only [sumIdx, scaleCoef, kern_scale]
      congr 1
      congr 1; funext m; field_simp

end MenpoModel.C04
