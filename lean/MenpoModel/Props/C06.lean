/-
C06 — copies are equal and fully independent; attached landmarks are owned copies.

Part 1 (this file, first half): `Copyable.copy` and its overrides on the heap model
(`Core/C06Heap.lean`).  Part 3 (middle): the public mutators as operations on that heap, interleaved
with copies (`Core/C06Ops.lean`, lemmas in `Lemmas/C06Ops.lean`, `Lemmas/C06Typed.lean`).  Part 2 (last):
the landmark manager as a state machine refining an ordered map (`Core/C06Landmarks.lean`, lemmas in
`Lemmas/C06Landmarks.lean`).

PROPERTY theorems are marked.  Core Lean only.
-/
import MenpoModel.Lemmas.C06Fresh
import MenpoModel.Lemmas.C06Total
import MenpoModel.Lemmas.C06Landmarks
import MenpoModel.Lemmas.C06Ops
import MenpoModel.Lemmas.C06Typed
import MenpoModel.Lemmas.C06Reach

namespace MenpoModel.C06

/-! ## Part 1 — copy on the heap -/

theorem lookup_mem_gen {β : Type} {l : List (String × β)} {x : String} {v : β} (e : l.lookup x = some v) :
    (x, v) ∈ l := by
  induction l with
  | nil => simp [List.lookup] at e
  | cons p t ih =>
    obtain ⟨y, w⟩ := p
    simp only [List.lookup] at e
    split at e
    · rename_i hxy
      have : x = y := by simpa using hxy
      cases e
      subst this
      exact List.mem_cons_self
    · exact List.mem_cons_of_mem _ (ih e)

/-- a heap that conforms to tables satisfying `copyWF` is deep-copyable: the bridge from the
regenerated obligation (`GenProps/C06.lean`) to the hypothesis of the heap theorems -/
theorem deepHeap_of_tables {tbl : AttrTable} {sup : SupplierTable} (hwf : copyWF tbl sup = true)
    {h : Heap} (hwt : wtHeap tbl sup h = true) : DeepHeap (resOf sup) h := by
  intro a C fs hcell
  have hmem : Cell.node (.obj C) fs ∈ h := List.mem_of_getElem? hcell
  have hcw := List.all_eq_true.mp hwt _ hmem
  simp only [wtCell, Bool.and_eq_true, decide_eq_true_eq] at hcw
  obtain ⟨⟨hnd, hsp⟩, hrows⟩ := hcw
  refine ⟨hnd, ?_, ?_⟩
  · intro x hx
    rw [hx] at hsp
    exact hsp
  · intro x v m
    cases hl : tbl.lookup C with
    | none => simp [hl] at hrows
    | some attrs =>
      simp only [hl] at hrows
      have hp := List.all_eq_true.mp hrows (x, v) m
      simp only at hp
      cases hla : attrs.lookup x with
      | none => simp [hla] at hp
      | some ks =>
        simp only [hla] at hp
        have hk : kindOf h v ∈ ks := List.contains_iff_mem.mp hp
        have hrow := List.all_eq_true.mp hwf (C, attrs) (lookup_mem_gen hl)
        have hatt := List.all_eq_true.mp hrow (x, ks) (lookup_mem_gen hla)
        exact List.all_eq_true.mp hatt _ hk

/-- PROPERTY (copies are equal): for every closed heap and every value, a successful `copy()`
(a) returns a new cell that unfolds — to every depth, through every attribute, array, dict and
nested object — to exactly the same tree as the original, (b) only allocates: every existing
cell, hence the original and everything else that existed, is unchanged. -/
theorem copy_equal (res : String → CopyImpl) (h : Heap) (hc : Closed h) (v : Val) (hv : Valid h v)
    (n : Nat) (h' : Heap) (v' : Val) (e : copyCall res n h v = .ok (h', v')) :
    (∀ m, absF m h' v' = absF m h v) ∧ Ext h h' ∧ (∀ m w, Valid h w → absF m h' w = absF m h w) ∧
      (∃ a', v' = .ref a' ∧ h.length ≤ a') := by
  have b := copy_basic res h n h v h' v' (Ctx.refl hc) hv e
  obtain ⟨a', ha', hge, _⟩ := b.root
  exact ⟨b.same, b.ext, fun m w hw => absF_ext hc b.ext m w hw, a', ha', hge⟩

/-- PROPERTY (copies are independent, address form): let the tables satisfy `copyWF` and the heap
conform to them.  After `c = o.copy()`, every cell `c` owns — everything reachable from `c`
except through `_source`/`_target` of a `HomogFamilyAlignment` and the member transforms of a
`TransformChain`, the sharing the property itself excludes — did not exist before the call, while
everything reachable from `o` did.  So the two sets are disjoint. -/
theorem copy_independent (tbl : AttrTable) (sup : SupplierTable) (hwf : copyWF tbl sup = true)
    (h : Heap) (hc : Closed h) (hwt : wtHeap tbl sup h = true)
    (a : Nat) (C : String) (fs : Slots) (hobj : h[a]? = some (.node (.obj C) fs))
    (n : Nat) (h' : Heap) (v' : Val) (e : copyCall (resOf sup) n h (.ref a) = .ok (h', v')) :
    (∀ b, Own (resOf sup) h' .full v' b → h.length ≤ b) ∧ (∀ b, Reach h' (.ref a) b → b < h.length) := by
  have hv : Valid h (.ref a) := by intro b eb; cases eb; exact get_lt hobj
  have dh := deepHeap_of_tables hwf hwt
  have b := copy_basic (resOf sup) h n h (.ref a) h' v' (Ctx.refl hc) hv e
  refine ⟨?_, fun b' r => reach_old hc b.ext r hv⟩
  apply copy_fresh (resOf sup) h dh n h (.ref a) h' v' (Ctx.refl hc) hv ?_ e
  simp [kindOf, hobj, standaloneK]

/-- PROPERTY (independence, behavioural form 1): whatever is later done *through the original* —
writes into any cell that existed when the copy was taken (all of the original's arrays, dicts,
lists, nested objects, even the by-design shared ones) and any allocation — the copy's own state
is unchanged.  `h2` is any later heap that still agrees with `h'` on the cells created by the copy. -/
theorem writes_through_original_invisible_in_copy (tbl : AttrTable) (sup : SupplierTable)
    (hwf : copyWF tbl sup = true) (h : Heap) (hc : Closed h) (hwt : wtHeap tbl sup h = true)
    (a : Nat) (C : String) (fs : Slots) (hobj : h[a]? = some (.node (.obj C) fs))
    (n : Nat) (h' : Heap) (v' : Val) (e : copyCall (resOf sup) n h (.ref a) = .ok (h', v'))
    (h2 : Heap) (hagree : ∀ b, h.length ≤ b → b < h'.length → h2[b]? = h'[b]?) :
    ∀ m, absO (resOf sup) m .full h2 v' = absO (resOf sup) m .full h' v' := by
  intro m
  apply absO_frame
  intro b o
  have hge := (copy_independent tbl sup hwf h hc hwt a C fs hobj n h' v' e).1 b o
  have hv : Valid h (.ref a) := by intro b eb; cases eb; exact get_lt hobj
  have bs := copy_basic (resOf sup) h n h (.ref a) h' v' (Ctx.refl hc) hv e
  exact hagree b hge (reach_old bs.closed (Ext.refl h') (own_reach _ o) bs.valid)

/-- PROPERTY (independence, behavioural form 2): whatever is later done *through the copy's own
cells* or by allocation, the original's full state (every array, dict, nested object, to every
depth) is unchanged.  `h2` is any later heap that differs from `h'` only on cells the copy owns
(or beyond the end of `h'`). -/
theorem writes_through_copy_invisible_in_original (tbl : AttrTable) (sup : SupplierTable)
    (hwf : copyWF tbl sup = true) (h : Heap) (hc : Closed h) (hwt : wtHeap tbl sup h = true)
    (a : Nat) (C : String) (fs : Slots) (hobj : h[a]? = some (.node (.obj C) fs))
    (n : Nat) (h' : Heap) (v' : Val) (e : copyCall (resOf sup) n h (.ref a) = .ok (h', v'))
    (h2 : Heap) (hagree : ∀ b, b < h'.length → ¬ Own (resOf sup) h' .full v' b → h2[b]? = h'[b]?) :
    ∀ m, absF m h2 (.ref a) = absF m h (.ref a) := by
  intro m
  have hv : Valid h (.ref a) := by intro b eb; cases eb; exact get_lt hobj
  have bs := copy_basic (resOf sup) h n h (.ref a) h' v' (Ctx.refl hc) hv e
  have hind := copy_independent tbl sup hwf h hc hwt a C fs hobj n h' v' e
  rw [← absF_ext hc bs.ext m (.ref a) hv]
  apply absF_frame
  intro b r
  have hlt := hind.2 b r
  exact hagree b (Nat.lt_of_lt_of_le hlt bs.ext.len) (fun o => absurd (hind.1 b o) (Nat.not_le.mpr hlt))

theorem closed_of_closedB {h : Heap} (hb : closedB h = true) : Closed h := by
  intro a k fs hcell x b m
  have := List.all_eq_true.mp hb _ (List.mem_of_getElem? hcell)
  simp only at this
  have := List.all_eq_true.mp this (x, .ref b) m
  simpa using this

theorem ordered_of_orderedB {h : Heap} (hb : orderedB h = true) : Ordered h := by
  intro a k fs hcell x b m
  have ha : a < h.length := get_lt hcell
  have := List.all_eq_true.mp hb a (List.mem_range.mpr ha)
  simp only [hcell] at this
  have := List.all_eq_true.mp this (x, .ref b) m
  simpa using this

/-- PROPERTY (totality): `o.copy()` returns an object.  For every closed, ordered (acyclic) heap
conforming to tables that satisfy `copyWF` and whose classes all resolve to a modelled `copy`
(the two regenerated obligations), the copy of the object at address `a` succeeds with fuel
`a + 2`; so `copy_equal` and `copy_independent` apply to every such object. -/
theorem copy_total (tbl : AttrTable) (sup : SupplierTable) (hwf : copyWF tbl sup = true)
    (hknown : tbl.all (fun row => resOf sup row.1 != .unknown) = true)
    (h : Heap) (hc : Closed h) (ho : Ordered h) (hwt : wtHeap tbl sup h = true)
    (a : Nat) (C : String) (fs : Slots) (hobj : h[a]? = some (.node (.obj C) fs)) (n : Nat) (hn : a + 2 ≤ n) :
    ∃ h' v', copyCall (resOf sup) n h (.ref a) = .ok (h', v') := by
  apply copy_succeeds (resOf sup) h hc ho (deepHeap_of_tables hwf hwt) ?_ a C fs hobj n hn
  intro a' C' fs' hcell
  have hmem : Cell.node (.obj C') fs' ∈ h := List.mem_of_getElem? hcell
  have hcw := List.all_eq_true.mp hwt _ hmem
  simp only [wtCell, Bool.and_eq_true] at hcw
  cases hl : tbl.lookup C' with
  | none => simp [hl] at hcw
  | some attrs =>
    have := List.all_eq_true.mp hknown (C', attrs) (lookup_mem_gen hl)
    simpa using this

/-- PROPERTY (a copy refers to nothing foreign): on every closed heap, whatever the result of `copy()` reaches
— through every attribute, the documented shared ones included — is a cell allocated by that call or a cell
the original reached.  A copy never acquires a reference to an object that the original did not already
reach (no table hypothesis). -/
theorem copy_reach (res : String → CopyImpl) (h : Heap) (hc : Closed h) (v : Val) (hv : Valid h v)
    (n : Nat) (h' : Heap) (v' : Val) (e : copyCall res n h v = .ok (h', v')) :
    ∀ b, Reach h' v' b → h.length ≤ b ∨ Reach h v b := by
  intro b r
  have bs := copy_basic res h n h v h' v' (Ctx.refl hc) hv e
  obtain ⟨a', ha', hge, _⟩ := bs.root
  exact copy_reach_aux hc bs.ext (copy_newslots res h n h v h' v' (Ctx.refl hc) hv e) r ⟨a', ha', hge⟩

/-- PROPERTY (conformance is inherited by copies): a closed heap that conforms to the attribute-kind
table still conforms after `copy()` — every object cell the copy allocates has the class, the
attribute names and, attribute by attribute, the runtime kinds of the object cell it was copied from.
The hypothesis `wtHeap` of the theorems above therefore holds for copies, copies of copies, … without
being re-established. -/
theorem copy_preserves_conformance (tbl : AttrTable) (sup : SupplierTable) (h : Heap) (hc : Closed h)
    (hwt : wtHeap tbl sup h = true) (v : Val) (hv : Valid h v) (n : Nat) (h' : Heap) (v' : Val)
    (e : copyCall (resOf sup) n h v = .ok (h', v')) : wtHeap tbl sup h' = true ∧ Closed h' :=
  ⟨copy_preserves_wt tbl sup hc hwt hv e, (copy_basic (resOf sup) h n h v h' v' (Ctx.refl hc) hv e).closed⟩

/-- PROPERTY (a copy of a copy): `c1 = o.copy(); c2 = c1.copy()` on a conforming heap.  The three
objects are pairwise independent — what `c2` owns was allocated by the second call, what `c1` owns
by the first, what `o` reaches existed before — and `c2` unfolds to the same tree as `o`.  No
hypothesis about the intermediate heap is needed. -/
theorem copy_of_copy_independent (tbl : AttrTable) (sup : SupplierTable) (hwf : copyWF tbl sup = true)
    (h : Heap) (hc : Closed h) (hwt : wtHeap tbl sup h = true)
    (a : Nat) (C : String) (fs : Slots) (hobj : h[a]? = some (.node (.obj C) fs))
    (n1 : Nat) (h1 : Heap) (v1 : Val) (e1 : copyCall (resOf sup) n1 h (.ref a) = .ok (h1, v1))
    (n2 : Nat) (h2 : Heap) (v2 : Val) (e2 : copyCall (resOf sup) n2 h1 v1 = .ok (h2, v2)) :
    (∀ b, Own (resOf sup) h2 .full v2 b → h1.length ≤ b) ∧
    (∀ b, Own (resOf sup) h2 .full v1 b → h.length ≤ b ∧ b < h1.length) ∧
    (∀ b, Reach h2 (.ref a) b → b < h.length) ∧
    (∀ m, absF m h2 v2 = absF m h (.ref a)) := by
  have hv : Valid h (.ref a) := by intro b eb; cases eb; exact get_lt hobj
  have b1 := copy_basic (resOf sup) h n1 h (.ref a) h1 v1 (Ctx.refl hc) hv e1
  have i1 := copy_independent tbl sup hwf h hc hwt a C fs hobj n1 h1 v1 e1
  have hwt1 := copy_preserves_wt tbl sup hc hwt hv e1
  obtain ⟨c1, rfl, hge1, hlt1⟩ := b1.root
  -- the first copy is an object of the same class
  have hobj1 : ∃ fs1, h1[c1]? = some (.node (.obj C) fs1) := by
    have hs := b1.same 1
    simp only [absF, hobj] at hs
    cases hcell : h1[c1]? with
    | none => simp [hcell] at hs
    | some cell =>
      cases cell with
      | buf d => simp [hcell] at hs
      | node k fs1 =>
        simp only [hcell, Tree.node.injEq] at hs
        obtain ⟨rfl, _⟩ := hs
        exact ⟨fs1, rfl⟩
  obtain ⟨fs1, hobj1⟩ := hobj1
  have b2 := copy_basic (resOf sup) h1 n2 h1 (.ref c1) h2 v2 (Ctx.refl b1.closed) b1.valid e2
  have i2 := copy_independent tbl sup hwf h1 b1.closed hwt1 c1 C fs1 hobj1 n2 h2 v2 e2
  refine ⟨i2.1, ?_, ?_, ?_⟩
  · intro b o
    exact ⟨i1.1 b (own_restrict _ b1.closed b2.ext o b1.valid), i2.2 b (own_reach _ o)⟩
  · intro b r
    exact reach_old hc (b1.ext.trans b2.ext) r hv
  · intro m
    rw [b2.same m, b1.same m]

/-! ### non-vacuity and teeth of part 1 -/

/-- a 2-D point cloud with one landmark group, held by an alignment, inside a chain -/
def exTbl : AttrTable :=
  [("PointCloud", [("points", [.elem .buf]), ("_landmarks", [.elem .imm, .elem .obj])]),
   ("LandmarkManager", [("_landmark_groups", [.dictOf .none, .dictOf .obj])]),
   ("AlignmentAffine", [("_h_matrix", [.elem .buf]), ("_source", [.elem .obj]), ("_target", [.elem .obj])]),
   (chainClass, [("transforms", [.listOf .obj])])]
def exSup : SupplierTable :=
  [("PointCloud", "menpo.base.Copyable"), ("LandmarkManager", "menpo.landmark.base.LandmarkManager"),
   ("AlignmentAffine", "menpo.transform.homogeneous.base.HomogFamilyAlignment"),
   (chainClass, "menpo.base.Copyable")]
def exHeap : Heap :=
  [.buf [1, 2],                                                            -- 0 group points
   .node (.obj "PointCloud") [("points", .ref 0), ("_landmarks", .imm 0)],  -- 1 group
   .node .dict [("g", .ref 1)],                                            -- 2
   .node (.obj "LandmarkManager") [("_landmark_groups", .ref 2)],          -- 3
   .buf [5, 6, 7, 8],                                                      -- 4
   .node (.obj "PointCloud") [("points", .ref 4), ("_landmarks", .ref 3)], -- 5 the landmarked cloud
   .buf [1, 0, 0, 1],                                                      -- 6 h_matrix
   .node (.obj "AlignmentAffine") [("_h_matrix", .ref 6), ("_source", .ref 5), ("_target", .ref 1)], -- 7
   .node .list [("0", .ref 7)],                                            -- 8
   .node (.obj chainClass) [("transforms", .ref 8)]]                       -- 9

example : copyWF exTbl exSup = true := by decide
example : wtHeap exTbl exSup exHeap = true := by decide
example : closedB exHeap = true := by decide
example : orderedB exHeap = true := by decide
/-- the landmarked cloud: six new cells, nothing shared -/
example : (copyCall (resOf exSup) 5 exHeap (.ref 5)).toOption.map (fun r => (r.1.length, r.2)) = some (17, .ref 16) := by
  decide
/-- the alignment: only the matrix and the object are new; `_source`/`_target` still point at 5 and 1 -/
example : (copyCall (resOf exSup) 5 exHeap (.ref 7)).toOption.map (fun r => r.1.drop 10) =
    some [.buf [1, 0, 0, 1],
          .node (.obj "AlignmentAffine") [("_h_matrix", .ref 10), ("_source", .ref 5), ("_target", .ref 1)]] := by
  decide

/-- teeth: the same heap under a resolution table in which `LandmarkManager` falls back to
`Copyable.copy` (a shallow dict copy) violates `copyWF`, and the model then really shares the
landmark group: cell 1 (old) is owned by the copy. -/
def badSup : SupplierTable :=
  [("PointCloud", "menpo.base.Copyable"), ("LandmarkManager", "menpo.base.Copyable")]
example : copyWF exTbl badSup = false := by decide
def badCopy : Heap := exHeap ++
  [.buf [5, 6, 7, 8],                                                        -- 10
   .node .dict [("g", .ref 1)],                                              -- 11 shallow: still the old group
   .node (.obj "LandmarkManager") [("_landmark_groups", .ref 11)],           -- 12
   .node (.obj "PointCloud") [("points", .ref 10), ("_landmarks", .ref 12)]] -- 13
example : (copyCall (resOf badSup) 5 exHeap (.ref 5)).toOption = some (badCopy, .ref 13) := by decide
example : Own (resOf badSup) badCopy .full (.ref 13) 1 := by
  -- new cloud (13) → new manager (12) → new dict (11) → old group (1)
  refine .step (k := .obj "PointCloud") (fs := [("points", .ref 10), ("_landmarks", .ref 12)])
    (x := "_landmarks") (w := .ref 12) (by decide) (by decide) ?_
  refine .step (k := .obj "LandmarkManager") (fs := [("_landmark_groups", .ref 11)])
    (x := "_landmark_groups") (w := .ref 11) (by decide) (by decide) ?_
  refine .step (k := .dict) (fs := [("g", .ref 1)]) (x := "g") (w := .ref 1) (by decide) (by decide) ?_
  exact .hereFull

/-! ## Part 3 — histories: copies stay independent under every interleaving of mutators and copies

The operations of `Core/C06Ops.lean` (`copy`, in-place array write, attribute / item rebinding to a
fresh object graph, `x[k] = y.copy()` — landmark-group assignment and the `landmarks` setter —,
`del x[k]`) performed through any of the objects the caller holds, in any order. -/

/-- PROPERTY (invariant over all histories): along every accepted history the objects the caller
holds own pairwise disjoint sets of cells (`Sep`), every object held stays held, and an object's own
state is changed only by operations performed *through that object*: if no operation of the history
acts through root `j`, its own state — every array, dict, nested object it owns, to every depth —
is the same before and after, whatever was done through the original, the other copies, copies of
copies, and however many further copies were taken (of `j` itself too). -/
theorem history_frame {tbl : AttrTable} {sup : SupplierTable} (hwf : copyWF tbl sup = true) :
    ∀ (ops : List HOp) (w w' : HW), Sep (resOf sup) w → runH tbl sup w ops = .ok w' →
      Sep (resOf sup) w' ∧
      ∀ (j rj : Nat), w.roots[j]? = some rj → w'.roots[j]? = some rj ∧
        ((∀ op, op ∈ ops → op.actor ≠ some j) → ∀ m,
          absO (resOf sup) m .full w'.heap (.ref rj) = absO (resOf sup) m .full w.heap (.ref rj)) := by
  intro ops
  induction ops with
  | nil =>
    intro w w' S e
    simp only [runH, Except.ok.injEq] at e
    subst e
    exact ⟨S, fun j rj hj => ⟨hj, fun _ _ => rfl⟩⟩
  | cons op t ih =>
    intro w w' S e
    simp only [runH] at e
    split at e
    · rename_i w1 hstep
      obtain ⟨S1, keep, fr⟩ := step_sep hwf S op hstep
      obtain ⟨S', rest⟩ := ih w1 w' S1 e
      refine ⟨S', ?_⟩
      intro j rj hj
      obtain ⟨k2, f2⟩ := rest j rj (keep j rj hj)
      refine ⟨k2, ?_⟩
      intro hno m
      rw [f2 (fun op' m' => hno op' (List.mem_cons_of_mem _ m')) m]
      exact fr j rj (hno op List.mem_cons_self) hj m
    · cases e

/-- PROPERTY (`copy()` then anything): take a copy of the `i`-th object in a separated world
(for instance: of the only object) and let any accepted history follow — writes into arrays,
rebinding of attributes, landmark assignment, deletion, further copies, through any object.  Then
(a) at the moment of the copy, the copy unfolds to the same tree as the original, to every depth;
(b) if nothing is done through the copy, the copy's own state at the end is what it was;
(c) if nothing is done through the original, the original's own state at the end is what it was
    before the copy was taken;
(d) the objects held at the end are still separated (so the same holds for every later copy). -/
theorem copy_then_history {tbl : AttrTable} {sup : SupplierTable} (hwf : copyWF tbl sup = true)
    (w : HW) (S : Sep (resOf sup) w) (i ri : Nat) (hi : w.roots[i]? = some ri)
    (w1 : HW) (hcopy : stepH tbl sup w (.copy i) = .ok w1) (ops : List HOp) (w2 : HW)
    (hrun : runH tbl sup w1 ops = .ok w2) :
    ∃ c, w1.roots = w.roots ++ [c] ∧ w.heap.length ≤ c ∧
      (∀ m, absF m w1.heap (.ref c) = absF m w.heap (.ref ri)) ∧
      ((∀ op, op ∈ ops → op.actor ≠ some w.roots.length) → ∀ m,
        absO (resOf sup) m .full w2.heap (.ref c) = absO (resOf sup) m .full w1.heap (.ref c)) ∧
      ((∀ op, op ∈ ops → op.actor ≠ some i) → ∀ m,
        absO (resOf sup) m .full w2.heap (.ref ri) = absO (resOf sup) m .full w.heap (.ref ri)) ∧
      Sep (resOf sup) w2 := by
  have hstep := hcopy
  simp only [stepH, hi] at hcopy
  split at hcopy
  · rename_i h1 c hcp
    cases hcopy
    have F := copyAt_facts hwf S.closed (S.valid i ri hi) hcp
    obtain ⟨S1, keep, fr⟩ := step_sep hwf S (.copy i) hstep
    obtain ⟨S2, rest⟩ := history_frame hwf ops _ w2 S1 hrun
    refine ⟨c, rfl, F.new, F.same, ?_, ?_, S2⟩
    · intro hno m
      have hc : (w.roots ++ [c])[w.roots.length]? = some c := by simp
      exact (rest w.roots.length c hc).2 hno m
    · intro hno m
      rw [(rest i ri (keep i ri hi)).2 hno m]
      exact fr i ri (by simp [HOp.actor]) hi m
  · cases hcopy

/-- PROPERTY (copies and array writes never leave the table): along every accepted history of
`copy()` and in-place array writes — through the original, the copies, copies of copies — the heap
keeps conforming to the attribute-kind table, so the conformance check that guards each `copy` step
never refuses once the initial object graph conforms. -/
theorem copy_write_history_conforms {tbl : AttrTable} {sup : SupplierTable} (hwf : copyWF tbl sup = true) :
    ∀ (ops : List HOp) (w w' : HW), (∀ op, op ∈ ops → op.copyOrWrite = true) → Sep (resOf sup) w →
      wtHeap tbl sup w.heap = true → runH tbl sup w ops = .ok w' → wtHeap tbl sup w'.heap = true := by
  intro ops
  induction ops with
  | nil =>
    intro w w' _ _ hwt e
    simp only [runH, Except.ok.injEq] at e
    subst e
    exact hwt
  | cons op t ih =>
    intro w w' hall S hwt e
    simp only [runH] at e
    split at e
    · rename_i w1 hstep
      exact ih w1 w' (fun op' m => hall op' (List.mem_cons_of_mem _ m)) (step_sep hwf S op hstep).1
        (step_preserves_wt S hwt op (hall op List.mem_cons_self) hstep) e
    · cases e

/-- PROPERTY (one object, any history): the hypothesis `Sep` of the two theorems above holds for
every closed heap with a single object held. -/
theorem single_root_separated (res : String → CopyImpl) {h : Heap} (hc : Closed h) {r : Nat} (hr : r < h.length) :
    Sep res ⟨h, [r]⟩ := sep_single res hc hr

/-- PROPERTY (assignment stores a copy, heap level): an accepted `o_i<p>[x] = o_j<q>.copy()` —
`shape.landmarks['k'] = group`, `image.landmarks = other.landmarks` — puts into slot `x` a reference
to a cell that did not exist before, whose unfolding at that moment equals the source's, and
everything that cell owns is new as well; the source and every other object held are untouched
(`history_frame`). -/
theorem putCopy_stores_copy {tbl : AttrTable} {sup : SupplierTable} (hwf : copyWF tbl sup = true) {w w' : HW}
    (S : Sep (resOf sup) w) (i : Nat) (p : Path) (x : String) (j : Nat) (q : Path)
    (e : stepH tbl sup w (.putCopy i p x j q) = .ok w') :
    ∃ a k fs s h1 c, nodeAt (resOf sup) w i p = .ok (a, k, fs) ∧ copyAt tbl sup w.heap s = .ok (h1, c) ∧
      w'.heap[a]? = some (.node k (putSlot fs x (.ref c))) ∧ w.heap.length ≤ c ∧
      (∀ m, absF m h1 (.ref c) = absF m w.heap (.ref s)) ∧
      (∀ m, absO (resOf sup) m .full w'.heap (.ref c) = absO (resOf sup) m .full h1 (.ref c)) ∧
      (∀ b, Own (resOf sup) w'.heap .full (.ref c) b → w.heap.length ≤ b) := by
  simp only [stepH] at e
  split at e
  · cases e
  · rename_i a k fs hn
    obtain ⟨ri, hi, ho, hcell⟩ := nodeAt_ok hn
    split at e
    · split at e
      · cases e
      · rename_i rj hj
        split at e
        · cases e
        · rename_i s l hr
          split at e
          · rename_i h1 c hcp
            cases e
            have hs : s < w.heap.length := S.own_lt hj (resolve_own _ w.heap q .full rj _ _ hr).1
            have F := copyAt_facts hwf S.closed hs hcp
            have halt : a < h1.length := Nat.lt_of_lt_of_le (get_lt hcell) F.ext.len
            have agree : ∀ b, Own (resOf sup) h1 .full (.ref c) b →
                (h1.set a (.node k (putSlot fs x (.ref c))))[b]? = h1[b]? := by
              intro b o
              have := F.fresh .full b o
              have := get_lt hcell
              exact List.getElem?_set_ne (by omega)
            refine ⟨a, k, fs, s, h1, c, hn, hcp, List.getElem?_set_self halt, F.new, F.same, ?_, ?_⟩
            · intro m
              exact absO_frame _ _ _ m .full (.ref c) agree
            · intro b o
              exact F.fresh .full b (own_frame o agree)
          · cases e
    · cases e

/-! ### non-vacuity of part 3: a history on the example heap of part 1 -/

/-- the landmarked cloud (cell 5) is held; copy it, copy the copy, write into the original's points
and into the first copy's landmark group, give the second copy a new group copied from the
original's, rebind the first copy's points, delete the original's group -/
def exHist : List HOp :=
  [.copy 0, .copy 1,
   .write 0 ["points"] [0, 0, 0, 0],
   .write 1 ["_landmarks", "_landmark_groups", "g", "points"] [7, 7],
   .putCopy 2 ["_landmarks", "_landmark_groups"] "h" 0 ["_landmarks", "_landmark_groups", "g"],
   .putFresh 1 [] "points" [.buf [3, 3]],
   .del 0 ["_landmarks", "_landmark_groups"] "g",
   .copy 2]

example : (runH exTbl exSup ⟨exHeap, [5]⟩ exHist).toOption.map (fun w => (w.heap.length, w.roots)) =
    some (36, [5, 16, 23, 35]) := by decide
/-- refusals: a path through the documented sharing, a missing key, a fragment that is not fresh -/
def errOf : Except HErr HW → Option HErr
  | .error e => some e
  | .ok _ => none
example : errOf (stepH exTbl exSup ⟨exHeap, [7]⟩ (.write 0 ["_source", "points"] [1])) = some .badPath := by decide
example : errOf (stepH exTbl exSup ⟨exHeap, [5]⟩ (.del 0 ["_landmarks", "_landmark_groups"] "zz")) = some .missing := by
  decide
example : errOf (stepH exTbl exSup ⟨exHeap, [5]⟩ (.putFresh 0 [] "points" [.node .list [("0", .ref 4)]])) =
    some .badFrag := by decide
/-- the side conditions of `attr_update_conforms` / `dict_update_conforms` on the example: `points` may hold an
array, the manager's `_landmark_groups` may hold a dict of objects; a dict of arrays there is not listed -/
example : kindListed exTbl "PointCloud" "points" (.elem .buf) = true := by decide
/-- the hypotheses of `putFresh_conforms` on the example: the root of the held cloud is an object with a
`points` attribute, the fragment (one array) is well-typed, an array is listed for `points` -/
example : (nodeAt (resOf exSup) ⟨exHeap, [5]⟩ 0 []).toOption.map (fun r => (r.1, r.2.1)) =
    some (5, .obj "PointCloud") := by decide
example : [Cell.buf [3, 3]].all (wtCell exTbl exSup (exHeap ++ [.buf [3, 3]])) = true := by decide
example : kindListed exTbl "PointCloud" "points"
    (kindOf (exHeap ++ [.buf [3, 3]]) (.ref (exHeap.length + 1 - 1))) = true := by decide
example : refsListed exTbl exHeap 2 (.dictOf .obj) = true := by decide
example : refsListed exTbl exHeap 2 (.dictOf .buf) = false := by decide
example : (runH exTbl exSup ⟨exHeap, [5]⟩ exHist).toOption.map (fun w => wtHeap exTbl exSup w.heap) = some true := by
  decide

/-- teeth: under the resolution table in which `LandmarkManager` falls back to `Copyable.copy`
(`copyWF exTbl badSup = false`, so the theorems do not apply) the same machine shows the leak: a write
through the copy's landmark group lands in the original's group (cell 0) -/
example : (runH exTbl badSup ⟨exHeap, [5]⟩
    [.copy 0, .write 1 ["_landmarks", "_landmark_groups", "g", "points"] [7, 7]]).toOption.map
      (fun w => w.heap[0]?) = some (some (.buf [7, 7])) := by decide
example : (runH exTbl exSup ⟨exHeap, [5]⟩
    [.copy 0, .write 1 ["_landmarks", "_landmark_groups", "g", "points"] [7, 7]]).toOption.map
      (fun w => w.heap[0]?) = some (some (.buf [1, 2])) := by decide

end MenpoModel.C06

/-! ## Part 2 — the landmark manager refines an ordered map and owns what it stores -/

namespace MenpoModel.C06.LM

/-- PROPERTY (all histories): every world reachable by any finite sequence of operations (set,
get, delete, iterate, copy, assign-to-owner, copy/transform owner, edits by the caller and through
managers, refused operations included) is well-formed: keys distinct, one dimensionality per
manager, every stored shape referred to from exactly one place. -/
theorem run_inv (ops : List Op) : ∀ w, WInv w → WInv (run w ops) := by
  induction ops with
  | nil => intro w h; exact h
  | cons op t ih => intro w h; exact ih _ (step_inv h op)

theorem reachable_inv (ops : List Op) : WInv (run World.empty ops) := run_inv ops _ inv_empty

def mgrKeys (w : World) (mi : Nat) : List Nat := ((w.mgrs[mi]?).getD []).keys

/-! ### refinement lemmas -/

theorem absMgr_any (st : List Shape) (m : Mgr) (k : Nat) :
    (absMgr st m).any (·.1 == k) = m.any (·.1 == k) := by
  simp [absMgr, List.any_map, Function.comp_def]

theorem absMgr_setKey {st : List Shape} {m : Mgr} (hlt : ∀ k' a', (k', a') ∈ m → a' < st.length) (k : Nat) (s : Shape) :
    absMgr (st ++ [s]) (m.setKey k st.length) = OMap.set (absMgr st m) k s := by
  have hold : ∀ p, p ∈ m → (st ++ [s])[p.2]? = st[p.2]? :=
    fun p hp => List.getElem?_append_left (hlt p.1 p.2 hp)
  simp only [Mgr.setKey, OMap.set, absMgr_any]
  split
  · simp only [absMgr, List.map_map]
    apply List.map_congr_left
    intro p hp
    simp only [Function.comp]
    split
    · simp
    · rw [hold p hp]
  · simp only [absMgr, List.map_append, List.map_cons, List.map_nil]
    congr 1
    · apply List.map_congr_left
      intro p hp
      rw [hold p hp]
    · simp

theorem absMgr_delKey (st : List Shape) (m : Mgr) (k : Nat) :
    absMgr st (m.delKey k) = OMap.del (absMgr st m) k := by
  simp only [Mgr.delKey, OMap.del, absMgr]
  induction m with
  | nil => rfl
  | cons p t ih =>
    simp only [List.filter_cons, List.map_cons]
    split <;> simp [ih]

theorem absMgr_lookup (st : List Shape) (m : Mgr) (k : Nat) :
    (absMgr st m).lookup k = (m.lookup k).map fun a => (st[a]?).getD default := by
  simp only [absMgr]
  induction m with
  | nil => rfl
  | cons p t ih =>
    obtain ⟨k0, a0⟩ := p
    simp only [List.map_cons, List.lookup]
    split <;> simp_all

theorem absM_set_self (w : World) (mi : Nat) (m' : Mgr) (st' : List Shape) (h : mi < w.mgrs.length) :
    absM { w with store := st', mgrs := w.mgrs.set mi m' } mi = absMgr st' m' := by
  simp [absM, List.getElem?_set_self h]

theorem mgr_lt {w : World} {mi : Nat} {m : Mgr} (h : w.mgrs[mi]? = some m) : mi < w.mgrs.length := by
  rcases Nat.lt_or_ge mi w.mgrs.length with hlt | hge
  · exact hlt
  · rw [List.getElem?_eq_none hge] at h; cases h

/-- PROPERTY (refinement): on well-formed worlds the manager's mapping API is the ordered map
with Python `OrderedDict` re-set semantics over shape *values*:
`lm[k] = x` is `OMap.set` with the value `x` has now (a copy), leaving every other manager and
every caller-held shape as they were; `del lm[k]` is `OMap.del`; `lm[k]` is `lookup`. -/
theorem lm_refines_ordered_map {w : World} (hw : WInv w) (mi : Nat) :
    (∀ key arg w', setItem w mi key arg = .ok w' →
      ∃ k i s, key = some k ∧ arg = .ext i ∧ absExt w i = some s ∧
        absM w' mi = OMap.set (absM w mi) k s ∧
        (∀ mj, mj ≠ mi → absM w' mj = absM w mj) ∧ (∀ j, absExt w' j = absExt w j)) ∧
    (∀ key w', delItem w mi key = .ok w' →
      ∃ k, key = some k ∧ absM w' mi = OMap.del (absM w mi) k ∧
        (∀ mj, mj ≠ mi → absM w' mj = absM w mj) ∧ (∀ j, absExt w' j = absExt w j)) ∧
    (∀ k a, getItem w mi (some k) = .ok a →
      (absM w mi).lookup k = some ((w.store[a]?).getD default)) := by
  obtain ⟨tags, h⟩ := hw
  refine ⟨?_, ?_, ?_⟩
  · intro key arg w' hs
    obtain ⟨m, k, i, a, s, hm, rfl, rfl, ha, hsa, _, rfl⟩ := setItem_ok hs
    have hlt : ∀ (mj : Nat) (mm : Mgr), w.mgrs[mj]? = some mm → ∀ (k' a' : Nat), (k', a') ∈ mm → a' < w.store.length := by
      intro mj mm hmm k' a' hka; rw [← h.len]; exact tag_lt (h.own mj mm hmm k' a' hka)
    refine ⟨k, i, s, rfl, rfl, by simp [absExt, ha, hsa], ?_, ?_, ?_⟩
    · rw [absM_set_self w mi _ _ (mgr_lt hm), absMgr_setKey (hlt mi m hm)]
      simp [absM, hm]
    · intro mj hne
      simp only [absM, List.getElem?_set_ne (Ne.symm hne)]
      cases hmm : w.mgrs[mj]? with
      | none => rfl
      | some mm =>
        apply absMgr_congr
        intro k' a' hka
        exact List.getElem?_append_left (hlt mj mm hmm k' a' hka)
    · intro j
      simp only [absExt]
      cases hj : w.exts[j]? with
      | none => rfl
      | some b =>
        simp only [Option.bind_some]
        exact store_append_left _ h.len (h.exts j b hj)
  · intro key w' hd
    obtain ⟨m, k, hm, rfl, _, rfl⟩ := delItem_ok hd
    refine ⟨k, rfl, ?_, ?_, fun j => rfl⟩
    · rw [absM_set_self w mi _ _ (mgr_lt hm), absMgr_delKey]
      simp [absM, hm]
    · intro mj hne
      simp only [absM, List.getElem?_set_ne (Ne.symm hne)]
  · intro k a hg
    simp only [getItem] at hg
    split at hg
    · cases hg
    · rename_i m hm
      split at hg
      · rename_i a' hl
        cases hg
        simp [absM, hm, absMgr_lookup, hl]
      · cases hg

/-- PROPERTY (insertion order): setting an existing name keeps its position, a new name goes
last, deleting removes exactly that name; nothing else reorders the groups. -/
theorem keys_order (w : World) (mi : Nat) :
    (∀ k arg w', setItem w mi (some k) arg = .ok w' →
      mgrKeys w' mi = if k ∈ mgrKeys w mi then mgrKeys w mi else mgrKeys w mi ++ [k]) ∧
    (∀ k w', delItem w mi (some k) = .ok w' → mgrKeys w' mi = (mgrKeys w mi).filter (· != k)) := by
  refine ⟨?_, ?_⟩
  · intro k arg w' hs
    obtain ⟨m, k', i, a, s, hm, hk, _, _, _, _, rfl⟩ := setItem_ok hs
    cases hk
    simp only [mgrKeys, List.getElem?_set_self (mgr_lt hm), hm, Option.getD_some]
    exact setKey_keys m k _
  · intro k w' hd
    obtain ⟨m, k', hm, hk, _, rfl⟩ := delItem_ok hd
    cases hk
    simp only [mgrKeys, List.getElem?_set_self (mgr_lt hm), hm, Option.getD_some]
    exact delKey_keys m k

/-- PROPERTY (one dimensionality): in every reachable world all groups of a manager have the
same `n_dims` (the constraint is dropped exactly when the manager is empty: `nDims = none`). -/
theorem one_dimensionality (ops : List Op) (mi : Nat) :
    ∀ p q, p ∈ absM (run World.empty ops) mi → q ∈ absM (run World.empty ops) mi → p.2.dim = q.2.dim := by
  obtain ⟨tags, h⟩ := reachable_inv ops
  intro p q hp hq
  simp only [absM] at hp hq
  cases hm : (run World.empty ops).mgrs[mi]? with
  | none => simp [hm, absMgr] at hp
  | some m =>
    simp only [hm, Option.getD_some, absMgr, List.mem_map] at hp hq
    obtain ⟨⟨k1, a1⟩, h1, rfl⟩ := hp
    obtain ⟨⟨k2, a2⟩, h2, rfl⟩ := hq
    obtain ⟨s1, e1⟩ := store_some_of_tag h (h.own mi m hm k1 a1 h1)
    obtain ⟨s2, e2⟩ := store_some_of_tag h (h.own mi m hm k2 a2 h2)
    have := h.dims mi m hm k1 a1 k2 a2 h1 h2
    simp only [e1, e2, Option.map_some, Option.some.injEq] at this
    simp [e1, e2, this]

/-- PROPERTY (the None key): `lm[None]` succeeds iff the manager has exactly one group, and then
returns that group; `lm[None] = x` and `del lm[None]` are always refused. -/
theorem get_none_iff_single (w : World) (mi : Nat) (m : Mgr) (hm : w.mgrs[mi]? = some m) :
    ((∃ a, getItem w mi none = .ok a) ↔ m.length = 1) ∧
    (∀ a, getItem w mi none = .ok a → ∃ k, m = [(k, a)]) ∧
    (∀ arg, setItem w mi none arg = .error .noneKey) ∧ delItem w mi none = .error .missing := by
  refine ⟨?_, ?_, ?_, ?_⟩
  · simp only [getItem, hm]
    constructor
    · rintro ⟨a, ha⟩
      split at ha
      · rfl
      · cases ha
    · intro hl
      match m, hl with
      | [(k, a)], _ => exact ⟨a, rfl⟩
  · intro a ha
    simp only [getItem, hm] at ha
    split at ha
    · rename_i k a'; cases ha; exact ⟨k, rfl⟩
    · cases ha
  · intro arg; simp [setItem, hm]
  · simp [delItem, hm]

/-- PROPERTY (set stores a copy): in every reachable world — in particular after any number of
`lm[k] = x` with the caller's shape `x` — an in-place edit of a caller-held shape changes no
manager's state (and no other caller-held shape). -/
theorem set_stores_copy (ops : List Op) (i : Nat) (δ : Int) (w' : World)
    (hmu : mutateExt (run World.empty ops) i δ = .ok w') :
    (∀ mi, absM w' mi = absM (run World.empty ops) mi) ∧
    (∀ j, j ≠ i → absExt w' j = absExt (run World.empty ops) j) := by
  obtain ⟨tags, h⟩ := reachable_inv ops
  simp only [mutateExt] at hmu
  split at hmu
  · rename_i a ha
    cases hmu
    refine ⟨?_, ?_⟩
    · intro mi
      apply absM_mutateAt_other
      intro m hm k hka
      have t1 := h.own mi m hm k a hka
      have t2 := h.exts i a ha
      rw [t1] at t2
      cases t2
    · intro j hj
      apply absExt_mutateAt_other
      intro hja
      have t1 := h.exts j a hja
      have t2 := h.exts i a ha
      rw [t1] at t2
      cases t2
      exact hj rfl
  · cases hmu

theorem absM_foldl_mutateAt_other (δ : Int) (mj : Nat) :
    ∀ (as : List Nat) (w : World), (∀ m, w.mgrs[mj]? = some m → ∀ k a, a ∈ as → (k, a) ∉ m) →
      absM (as.foldl (fun w a => mutateAt w a δ) w) mj = absM w mj := by
  intro as
  induction as with
  | nil => intro w _; rfl
  | cons a t ih =>
    intro w hno
    simp only [List.foldl_cons]
    rw [ih (mutateAt w a δ)]
    · exact absM_mutateAt_other w a δ mj (fun m hm k => hno m hm k a List.mem_cons_self)
    · intro m hm k b hb
      rw [(mutateAt_rest w a δ).1] at hm
      exact hno m hm k b (List.mem_cons_of_mem _ hb)

theorem absExt_foldl_mutateAt_other (δ : Int) (j : Nat) :
    ∀ (as : List Nat) (w : World), (∀ a, a ∈ as → w.exts[j]? ≠ some a) →
      absExt (as.foldl (fun w a => mutateAt w a δ) w) j = absExt w j := by
  intro as
  induction as with
  | nil => intro w _; rfl
  | cons a t ih =>
    intro w hno
    simp only [List.foldl_cons]
    rw [ih (mutateAt w a δ)]
    · exact absExt_mutateAt_other w a δ j (hno a List.mem_cons_self)
    · intro b hb
      rw [(mutateAt_rest w a δ).2.1]
      exact hno b (List.mem_cons_of_mem _ hb)

/-- PROPERTY (ownership, edits through a manager): on a well-formed world an edit made through
manager `mi` (`lm[k].points += δ`, or `_transform_inplace` of the whole manager) is invisible in
every other manager and in every caller-held shape. -/
theorem mutate_through_manager_frame {w : World} (hw : WInv w) (mi : Nat) (δ : Int) :
    (∀ key w', mutateGot w mi key δ = .ok w' →
      (∀ mj, mj ≠ mi → absM w' mj = absM w mj) ∧ (∀ j, absExt w' j = absExt w j)) ∧
    (∀ w', xformMgr w mi δ = .ok w' →
      (∀ mj, mj ≠ mi → absM w' mj = absM w mj) ∧ (∀ j, absExt w' j = absExt w j)) := by
  obtain ⟨tags, h⟩ := hw
  have sep_m : ∀ (m : Mgr), w.mgrs[mi]? = some m → ∀ (k a : Nat), (k, a) ∈ m → ∀ (mj : Nat), mj ≠ mi →
      ∀ (mm : Mgr), w.mgrs[mj]? = some mm → ∀ (k' : Nat), (k', a) ∉ mm := by
    intro m hm k a hka mj hne mm hmm k' hka'
    have t1 := h.own mi m hm k a hka
    have t2 := h.own mj mm hmm k' a hka'
    rw [t1] at t2
    cases t2
    exact hne rfl
  have sep_e : ∀ (m : Mgr), w.mgrs[mi]? = some m → ∀ (k a : Nat), (k, a) ∈ m → ∀ (j : Nat), w.exts[j]? ≠ some a := by
    intro m hm k a hka j hj
    have t1 := h.own mi m hm k a hka
    have t2 := h.exts j a hj
    rw [t1] at t2
    cases t2
  refine ⟨?_, ?_⟩
  · intro key w' hmu
    simp only [mutateGot] at hmu
    split at hmu
    · rename_i a hg
      cases hmu
      obtain ⟨m, k, hm, hka, _⟩ := getItem_ok hg
      exact ⟨fun mj hne => absM_mutateAt_other w a δ mj (fun mm hmm k' => sep_m m hm k a hka mj hne mm hmm k'),
        fun j => absExt_mutateAt_other w a δ j (sep_e m hm k a hka j)⟩
    · cases hmu
  · intro w' hx
    simp only [xformMgr] at hx
    split at hx
    · cases hx
    · rename_i m hm
      cases hx
      refine ⟨fun mj hne => absM_foldl_mutateAt_other δ mj _ w ?_, fun j => absExt_foldl_mutateAt_other δ j _ w ?_⟩
      · intro mm hmm k' a ha
        simp only [Mgr.addrs, List.mem_map] at ha
        obtain ⟨p, hp, rfl⟩ := ha
        exact sep_m m hm p.1 p.2 hp mj hne mm hmm k'
      · intro a ha
        simp only [Mgr.addrs, List.mem_map] at ha
        obtain ⟨p, hp, rfl⟩ := ha
        exact sep_e m hm p.1 p.2 hp j

theorem keys_functional {m : Mgr} (hnd : m.keys.Nodup) {k a a' : Nat} (h1 : (k, a) ∈ m) (h2 : (k, a') ∈ m) :
    a = a' := by
  induction m with
  | nil => cases h1
  | cons p t ih =>
    simp only [Mgr.keys, List.map_cons, List.nodup_cons, List.mem_map, not_exists, not_and] at hnd
    simp only [List.mem_cons] at h1 h2
    rcases h1 with rfl | h1 <;> rcases h2 with h2 | h2
    · cases h2; rfl
    · exact absurd rfl (hnd.1 (k, a') h2)
    · subst h2; exact absurd rfl (hnd.1 (k, a) h1)
    · exact ih hnd.2 h1 h2

/-- PROPERTY (refinement of an edit through the manager): `lm[k].points += δ` changes exactly the
value stored under `k` in that manager (the object returned by `lm[k]` *is* the stored one). -/
theorem edit_through_manager_refines {w : World} (hw : WInv w) (mi k : Nat) (δ : Int) (w' : World)
    (hmu : mutateGot w mi (some k) δ = .ok w') :
    absM w' mi = (absM w mi).map fun p => if p.1 == k then (p.1, p.2.shift δ) else p := by
  obtain ⟨tags, h⟩ := hw
  simp only [mutateGot] at hmu
  split at hmu
  · rename_i a hg
    cases hmu
    obtain ⟨m, k', hm, hka, hkey⟩ := getItem_ok hg
    have hk' : k' = k := by
      rcases hkey with hkey | ⟨hkey, _⟩
      · cases hkey; rfl
      · cases hkey
    subst hk'
    obtain ⟨s, hs⟩ := store_some_of_tag h (h.own mi m hm k' a hka)
    have hlt : a < w.store.length := by rw [← h.len]; exact tag_lt (h.own mi m hm k' a hka)
    simp only [absM, (mutateAt_rest w a δ).1, hm, Option.getD_some, absMgr, List.map_map]
    apply List.map_congr_left
    intro p hp
    obtain ⟨k1, a1⟩ := p
    simp only [Function.comp]
    by_cases hk : k1 = k'
    · subst hk
      have := keys_functional (h.keys mi m hm) hp hka
      subst this
      simp [mutateAt, hs, List.getElem?_set_self hlt]
    · have hne : a1 ≠ a := by
        intro e
        subst e
        have t1 := h.own mi m hm k1 a1 hp
        have t2 := h.own mi m hm k' a1 hka
        rw [t1] at t2
        cases t2
        exact hk rfl
      have hb : (k1 == k') = false := by simpa using hk
      simp [hb, mutateAt_other w a a1 δ hne]
  · cases hmu

/-- PROPERTY (`LandmarkManager.copy`): the copy is a *new* manager with equal state; every
existing manager (the source included) and every caller-held shape is as before.  With
`mutate_through_manager_frame` (the new index differs from every old one): later edits through
either are invisible in the other. -/
theorem copy_mgr_equal_independent {w : World} (hw : WInv w) {mi : Nat} {w' : World} {j : Nat}
    (hc : copyMgr w mi = .ok (w', j)) :
    j = w.mgrs.length ∧ absM w' j = absM w mi ∧ (∀ mj, mj < w.mgrs.length → absM w' mj = absM w mj) ∧
      (∀ i, absExt w' i = absExt w i) ∧ WInv w' := by
  obtain ⟨tags, h⟩ := hw
  obtain ⟨m, hm, rfl, rfl⟩ := copyMgr_ok hc
  have hlt : ∀ (mj : Nat) (mm : Mgr), w.mgrs[mj]? = some mm → ∀ (k a : Nat), (k, a) ∈ mm → a < w.store.length := by
    intro mj mm hmm k a hka; rw [← h.len]; exact tag_lt (h.own mj mm hmm k a hka)
  obtain ⟨c1, c2, c3, c4, c5⟩ := copyGroups_spec m w.store (hlt mi m hm)
  refine ⟨rfl, ?_, ?_, ?_, copyMgr_inv h hc⟩
  · simp [absM, hm, c5]
  · intro mj hmj
    simp only [absM, List.getElem?_append_left hmj]
    cases hmm : w.mgrs[mj]? with
    | none => rfl
    | some mm =>
      apply absMgr_congr
      intro k a hka
      exact c2 a (hlt mj mm hmm k a hka)
  · intro i
    simp only [absExt]
    cases hi : w.exts[i]? with
    | none => rfl
    | some a =>
      simp only [Option.bind_some]
      exact c2 a (by rw [← h.len]; exact tag_lt (h.exts i a hi))

/-- PROPERTY (assign stores a copy): `owner.landmarks = lm` makes the owner hold a *new* manager
whose state equals `lm`'s; `lm` itself, every other manager and every caller-held shape are as
before, and (by `mutate_through_manager_frame`, the indices being different) later edits through
`lm` do not reach the owner's landmarks, nor the other way round.  A manager whose groups have a
dimensionality different from the owner's is refused. -/
theorem assign_stores_copy {w : World} (hw : WInv w) {o mi : Nat} {w' : World} (ha : assign w o mi = .ok w') :
    (∃ ow, w'.owners[o]? = some ow ∧ ow.mgr = w.mgrs.length ∧ ow.mgr ≠ mi) ∧
    absM w' w.mgrs.length = absM w mi ∧ (∀ mj, mj < w.mgrs.length → absM w' mj = absM w mj) ∧
    (∀ i, absExt w' i = absExt w i) ∧
    (∀ ow m n, w.owners[o]? = some ow → w.mgrs[mi]? = some m → m.nDims w.store = some n → n = ow.dim) := by
  have key : ∀ ow w1 j, w.owners[o]? = some ow → copyMgr w mi = .ok (w1, j) →
      w' = { w1 with owners := w1.owners.set o { ow with mgr := j } } →
      (∃ ow', w'.owners[o]? = some ow' ∧ ow'.mgr = w.mgrs.length ∧ ow'.mgr ≠ mi) ∧
      absM w' w.mgrs.length = absM w mi ∧ (∀ mj, mj < w.mgrs.length → absM w' mj = absM w mj) ∧
      (∀ i, absExt w' i = absExt w i) := by
    intro ow w1 j ho hc hw'
    obtain ⟨hj, e1, e2, e3, _⟩ := copy_mgr_equal_independent hw hc
    obtain ⟨m, hm, _, hw1⟩ := copyMgr_ok hc
    have hoL : o < w1.owners.length := by
      rw [hw1]
      rcases Nat.lt_or_ge o w.owners.length with hlt | hge
      · exact hlt
      · rw [List.getElem?_eq_none hge] at ho; cases ho
    subst hw'
    refine ⟨⟨{ ow with mgr := j }, by simp [List.getElem?_set_self hoL], hj, ?_⟩, ?_, ?_, ?_⟩
    · simp only [hj]
      exact fun e => absurd (mgr_lt hm) (by omega)
    · rw [← hj]; exact e1
    · exact e2
    · exact e3
  simp only [assign] at ha
  split at ha
  · rename_i ow m ho hm
    split at ha
    · rename_i n hn
      split at ha
      · cases ha
      · rename_i hdim
        split at ha
        · rename_i w1 j hc
          simp only [Except.ok.injEq] at ha
          obtain ⟨k1, k2, k3, k4⟩ := key ow w1 j ho hc ha.symm
          refine ⟨k1, k2, k3, k4, ?_⟩
          intro ow' m' n' ho' hm' hn'
          rw [ho] at ho'; cases ho'
          rw [hm] at hm'; cases hm'
          rw [hn] at hn'; cases hn'
          simpa using hdim
        · cases ha
    · rename_i hn
      split at ha
      · rename_i w1 j hc
        simp only [Except.ok.injEq] at ha
        obtain ⟨k1, k2, k3, k4⟩ := key ow w1 j ho hc ha.symm
        refine ⟨k1, k2, k3, k4, ?_⟩
        intro ow' m' n' _ hm' hn'
        rw [hm] at hm'; cases hm'
        rw [hn] at hn'; cases hn'
      · cases ha
  · cases ha

/-- PROPERTY (refinement of `_transform_inplace`): transforming a manager (or its owner) in place
applies the transform exactly once to every group of that manager — the groups are distinct objects
— and keeps names and order; with `mutate_through_manager_frame`: and to nothing else. -/
theorem xform_refines {w : World} (hw : WInv w) (mi : Nat) (δ : Int) (w' : World)
    (hx : xformMgr w mi δ = .ok w') :
    absM w' mi = (absM w mi).map fun p => (p.1, p.2.shift δ) := by
  obtain ⟨tags, h⟩ := hw
  simp only [xformMgr] at hx
  split at hx
  · cases hx
  · rename_i m hm
    cases hx
    have hmgrs : ∀ (as : List Nat) (w0 : World), (as.foldl (fun w a => mutateAt w a δ) w0).mgrs = w0.mgrs := by
      intro as
      induction as with
      | nil => intro w0; rfl
      | cons a t ih => intro w0; simp only [List.foldl_cons]; rw [ih, (mutateAt_rest w0 a δ).1]
    simp only [absM, hmgrs, hm, Option.getD_some, absMgr, List.map_map]
    apply List.map_congr_left
    intro p hp
    have hmem : p.2 ∈ m.addrs := by simp only [Mgr.addrs, List.mem_map]; exact ⟨p, hp, rfl⟩
    simp only [Function.comp, store_foldl_mutateAt δ m.addrs w (addrs_nodup h hm) p.2, hmem, if_true]
    obtain ⟨s, hs⟩ := store_some_of_tag h (h.own mi m hm p.1 p.2 hp)
    simp [hs]

/-- PROPERTY (observers refine the ordered map): iteration / `group_labels` / `keys()`, `n_groups` /
`len`, `has_landmarks`, `items_matching` / `keys_matching` and `n_dims` are functions of the ordered
map `absM` alone: names in insertion order, its length, non-emptiness, the entries whose name the
glob accepts (in insertion order), the dimensionality of the first entry. -/
theorem observers_refine {w : World} (hw : WInv w) (mi : Nat) (sel : List Nat) :
    mgrKeys w mi = (absM w mi).map (·.1) ∧
    nGroups w mi = (absM w mi).length ∧
    hasLandmarks w mi = !(absM w mi).isEmpty ∧
    itemsMatching w mi sel = (absM w mi).filter (fun p => sel.contains p.1) ∧
    (itemsMatching w mi sel).map (·.1) = (mgrKeys w mi).filter (fun k => sel.contains k) ∧
    mgrNDims w mi = (absM w mi).head?.map (·.2.dim) := by
  obtain ⟨tags, h⟩ := hw
  refine ⟨?_, ?_, ?_, ?_, ?_, ?_⟩
  · simp [mgrKeys, absM, absMgr, Mgr.keys]
  · simp [nGroups, absM, absMgr]
  · simp only [hasLandmarks, nGroups, absM, absMgr]
    cases (w.mgrs[mi]?).getD [] <;> simp
  · simp only [itemsMatching, absM, absMgr, List.filter_map]
    rfl
  · simp only [itemsMatching, mgrKeys, Mgr.keys, List.map_map, List.filter_map]
    rfl
  · simp only [mgrNDims, absM]
    cases hm : w.mgrs[mi]? with
    | none => simp [Mgr.nDims, absMgr]
    | some m =>
      cases m with
      | nil => simp [Mgr.nDims, absMgr]
      | cons p t =>
        obtain ⟨k, a⟩ := p
        obtain ⟨s, hs⟩ := store_some_of_tag h (h.own mi _ hm k a List.mem_cons_self)
        simp [Mgr.nDims, absMgr, hs]

/-! ### non-vacuity of part 2: a history with every kind of operation and every refusal -/

def exOps : List Op :=
  [.newMgr, .newOwner 2, .newExt ⟨0, 2, [1, 2, 3, 4]⟩, .newExt ⟨1, 3, [5, 6, 7]⟩,
   .set (.mgr 0) (some 7) (.ext 0),        -- stored
   .set (.mgr 0) (some 8) (.ext 1),        -- refused: 3-D into a 2-D manager
   .set (.mgr 0) none (.ext 0),            -- refused: None key
   .set (.mgr 0) (some 8) (.img 2),        -- refused: not a PointCloud
   .set (.mgr 0) (some 9) .raw,            -- refused: AttributeError
   .mutExt 0 10,                           -- the caller edits its shape afterwards
   .get (.mgr 0) none,                     -- exactly one group: None resolves
   .set (.mgr 0) (some 3) (.ext 0), .set (.mgr 0) (some 7) (.ext 0),   -- re-set keeps position
   .get (.mgr 0) none,                     -- two groups: ambiguous
   .assign 0 (.mgr 0), .mutGot (.mgr 0) (some 3) 100, .xform (.owner 0) 1000,
   .copyOwner 0, .del (.mgr 0) (some 7), .del (.mgr 0) (some 7), .keys (.mgr 0), .copy (.owner 1),
   .items (.owner 0) [3, 9], .count (.mgr 0), .count (.mgr 1)]

def exReplies : List Reply :=
  (exOps.foldl (fun (acc : World × List Reply) op => ((step acc.1 op).1, acc.2 ++ [(step acc.1 op).2]))
    (World.empty, [])).2

example : exReplies =
    [.idx 0, .idx 0, .idx 0, .idx 1, .ok, .err .dim, .err .noneKey, .err .notPC, .err .attr, .ok,
     .shape ⟨0, 2, [1, 2, 3, 4]⟩, .ok, .ok, .err .ambiguous, .ok, .ok, .ok, .idx 1, .ok, .err .missing,
     .keys [3], .idx 4, .items [(3, ⟨0, 2, [1011, 1012, 1013, 1014]⟩)], .count 1 true (some 2),
     .count 0 false none] := by decide

/-- the manager kept the value the shape had when it was assigned; the owner's copy saw the
transform but not the edit through the assigned manager -/
example : absM (run World.empty exOps) 0 = [(3, ⟨0, 2, [111, 112, 113, 114]⟩)] := by decide
example : absM (run World.empty exOps) 2 =
    [(7, ⟨0, 2, [1011, 1012, 1013, 1014]⟩), (3, ⟨0, 2, [1011, 1012, 1013, 1014]⟩)] := by decide
example : absExt (run World.empty exOps) 0 = some ⟨0, 2, [11, 12, 13, 14]⟩ := by decide

end MenpoModel.C06.LM
