/-
C08 — retargeting an alignment equals rebuilding it, whatever happened before.  Property theorems.
Core Lean only.

The theorems quantify over *every* `Ext` (whatever the numerical fits are), every class, every option
value, every source and every finite history of `set_target` calls, accepted or rejected.
-/
import MenpoModel.Core.C08Retarget
import MenpoModel.Core.C08Table

namespace MenpoModel.C08

variable {Pts A : Type}

/-! ### overwriting a part of the matrix twice is overwriting it once -/

theorem setBlock_setBlock (d : Nat) (r r' h : Mat) :
    setBlock d r' (setBlock d r h) = setBlock d r' h := by
  funext i j; simp only [setBlock]; split <;> rfl

theorem setLastCol_setLastCol (d : Nat) (t t' : Nat → Rat) (h : Mat) :
    setLastCol d t' (setLastCol d t h) = setLastCol d t' h := by
  funext i j; simp only [setLastCol]; split <;> rfl

theorem scale_scale (d : Nat) (s s' : Rat) (h : Mat) :
    setCorner d (fillDiag d s' (setCorner d (fillDiag d s h))) = setCorner d (fillDiag d s' h) := by
  funext i j; simp only [setCorner, fillDiag]
  by_cases h1 : i = d ∧ j = d
  · simp [h1]
  · by_cases h2 : i = j ∧ i ≤ d
    · obtain ⟨rfl, hle⟩ := h2
      have hne : i ≠ d := fun h => h1 ⟨h, h⟩
      simp [hne, hle]
    · simp only [h1, h2, if_false]

/-! ### shapes -/

/-- same number of dimensions and of points -/
def SameShape (e : Ext Pts A) (a b : Pts) : Prop := e.nDims a = e.nDims b ∧ e.nPoints a = e.nPoints b

theorem verifyTarget_ok (e : Ext Pts A) (o : Obj Pts A) (t : Pts) (h : SameShape e t o.target) :
    verifyTarget e o t = .ok () := by
  simp [verifyTarget, h.1, h.2]

theorem verifyTarget_ok_iff (e : Ext Pts A) (o : Obj Pts A) (t : Pts) :
    verifyTarget e o t = .ok () ↔ SameShape e t o.target := by
  constructor
  · intro h
    unfold verifyTarget at h
    by_cases h1 : e.nDims t = e.nDims o.target
    · by_cases h2 : e.nPoints t = e.nPoints o.target
      · exact ⟨h1, h2⟩
      · simp [h1, h2] at h
    · simp [h1] at h
  · exact verifyTarget_ok e o t

theorem verifySourceTarget_ok_iff (e : Ext Pts A) (s t : Pts) :
    verifySourceTarget e s t = .ok () ↔ SameShape e s t := by
  constructor
  · intro h
    unfold verifySourceTarget at h
    by_cases h1 : e.nDims s = e.nDims t
    · by_cases h2 : e.nPoints s = e.nPoints t
      · exact ⟨h1, h2⟩
      · simp [h1, h2] at h
    · simp [h1] at h
  · intro h; simp [verifySourceTarget, h.1, h.2]

/-! ### PROPERTY clause 3: a target with another number of points or dimensions is rejected,
and the rejected call changes nothing -/

theorem retarget_rejects_mismatch (e : Ext Pts A) (o : Obj Pts A) (t : Pts)
    (h : ¬ SameShape e t o.target) :
    (∃ err, setTarget e o t = .error err) ∧ step e o t = o := by
  have hv : ∃ err, verifyTarget e o t = .error err := by
    unfold verifyTarget
    by_cases h1 : e.nDims t = e.nDims o.target
    · by_cases h2 : e.nPoints t = e.nPoints o.target
      · exact absurd ⟨h1, h2⟩ h
      · exact ⟨.points, by simp [h1, h2]⟩
    · exact ⟨.dims, by simp [h1]⟩
  obtain ⟨err, hv⟩ := hv
  constructor
  · exact ⟨err, by simp [setTarget, hv]⟩
  · simp [step, setTarget, hv]

/-- the two kinds of rejection, by cause -/
theorem retarget_rejects_dims (e : Ext Pts A) (o : Obj Pts A) (t : Pts)
    (h : e.nDims t ≠ e.nDims o.target) : setTarget e o t = .error .dims := by
  simp [setTarget, verifyTarget, h]

theorem retarget_rejects_points (e : Ext Pts A) (o : Obj Pts A) (t : Pts)
    (hd : e.nDims t = e.nDims o.target) (h : e.nPoints t ≠ e.nPoints o.target) :
    setTarget e o t = .error .points := by
  simp [setTarget, verifyTarget, hd, h]

/-! ### on which (class, options) a tree remembers everything it must -/

/-- the tree stores every option the class's re-fit needs, and its constructor keeps the target -/
def Sound (tr : Tree) (c : Cls) (op : Opts) : Prop :=
  (c = .similarity → tr.remembersRotation = true ∨ op.rotation = true) ∧
  ((c = .affine ∨ c = .rotation) → tr.ctorKeepsTarget = true)

/-- the repaired tree is sound for every class and every option value -/
theorem fixed_sound (c : Cls) (op : Opts) : Sound fixed c op :=
  ⟨fun _ => Or.inl rfl, fun _ => rfl⟩

/-- the tree as found is sound except for `rotation=False` similarities and the affine / rotation classes -/
theorem coded_sound (c : Cls) (op : Opts) (h1 : c = .similarity → op.rotation = true)
    (h2 : c ≠ .affine) (h3 : c ≠ .rotation) : Sound coded c op :=
  ⟨fun hc => Or.inr (h1 hc), fun hc => by rcases hc with hc | hc <;> contradiction⟩

/-! ### one call: `set_target(t')` on a fresh alignment to `t` is the fresh alignment to `t'` -/

theorem build_target (tr : Tree) (e : Ext Pts A) (c : Cls) (op : Opts) (s t : Pts) (o : Obj Pts A)
    (hs : Sound tr c op) (hb : build tr e c op s t = .ok o) : o.target = t ∧ o.source = s ∧ o.cls = c := by
  unfold build at hb
  split at hb
  · simp at hb
  · unfold buildCore at hb
    cases c
    case affine =>
      have hk := hs.2 (Or.inl rfl)
      simp only [hk, if_true, Except.ok.injEq] at hb; subst hb; simp
    case rotation =>
      have hk := hs.2 (Or.inr rfl)
      simp only [hk, if_true, Except.ok.injEq] at hb; subst hb; simp
    case similarity => simp only [Except.ok.injEq] at hb; subst hb; simp
    case translation => simp only at hb; split at hb <;> simp at hb; subst hb; simp
    case uniformScale => simp only at hb; split at hb <;> simp at hb; subst hb; simp
    case tps => simp only at hb; split at hb <;> simp at hb; subst hb; simp
    case pwa => simp only at hb; split at hb <;> simp at hb; subst hb; simp

theorem setTarget_build (tr : Tree) (e : Ext Pts A) (c : Cls) (op : Opts) (s t t' : Pts) (o : Obj Pts A)
    (hs : Sound tr c op) (hb : build tr e c op s t = .ok o) (hsh : SameShape e t' t) :
    ∃ o', setTarget e o t' = .ok o' ∧ build tr e c op s t' = .ok o' := by
  have htgt := (build_target tr e c op s t o hs hb).1
  have hv : verifyTarget e o t' = .ok () := verifyTarget_ok e o t' (by rw [htgt]; exact hsh)
  refine ⟨sync e { o with target := t' }, by simp [setTarget, hv], ?_⟩
  unfold build at hb ⊢
  split at hb
  · simp at hb
  · rename_i hst
    have hst' : verifySourceTarget e s t' = .ok () := by
      rw [verifySourceTarget_ok_iff] at hst ⊢
      exact ⟨hst.1.trans hsh.1.symm, hst.2.trans hsh.2.symm⟩
    simp only [hst']
    unfold buildCore at hb ⊢
    cases c
    case affine =>
      have hk := hs.2 (Or.inl rfl)
      simp only [hk, if_true, Except.ok.injEq] at hb ⊢; subst hb; simp [sync]
    case rotation =>
      have hk := hs.2 (Or.inr rfl)
      simp only [hk, if_true, Except.ok.injEq] at hb ⊢; subst hb
      simp [sync, setBlock_setBlock]
    case similarity =>
      simp only [Except.ok.injEq] at hb ⊢; subst hb
      rcases hs.1 rfl with hr | hr
      · simp [sync, hr]
      · by_cases hrr : tr.remembersRotation = true <;> simp [sync, hr, hrr]
    case translation =>
      simp only at hb ⊢; split at hb
      · simp at hb
      · rename_i hd; simp only [hd, if_false, Except.ok.injEq] at hb ⊢; subst hb
        simp [sync, setLastCol_setLastCol]
    case uniformScale =>
      simp only at hb ⊢; split at hb
      · simp at hb
      · rename_i hd; simp only [hd, if_false, Except.ok.injEq] at hb ⊢; subst hb
        simp [sync, scale_scale]
    case tps =>
      simp only at hb ⊢; split at hb
      · simp at hb
      · rename_i hd; simp only [hd, if_false, Except.ok.injEq] at hb ⊢; subst hb
        simp [sync]
    case pwa =>
      simp only at hb ⊢; split at hb
      · simp at hb
      · rename_i hd; simp only [hd, if_false, Except.ok.injEq] at hb ⊢; subst hb
        simp [sync]


/-! ### PROPERTY clause 1: retargeting equals rebuilding, whatever happened before -/

theorem step_build (tr : Tree) (e : Ext Pts A) (c : Cls) (op : Opts) (s t t' : Pts) (o : Obj Pts A)
    (hs : Sound tr c op) (hb : build tr e c op s t = .ok o) :
    (SameShape e t' t → build tr e c op s t' = .ok (step e o t')) ∧
    (¬ SameShape e t' t → step e o t' = o) := by
  constructor
  · intro hsh
    obtain ⟨o', h1, h2⟩ := setTarget_build tr e c op s t t' o hs hb hsh
    simp [step, h1, h2]
  · intro hsh
    have htgt := (build_target tr e c op s t o hs hb).1
    exact (retarget_rejects_mismatch e o t' (by rw [htgt]; exact hsh)).2

/-- General form (any tree, on the (class, options) it is sound for): after *any* finite history of
`set_target` calls — accepted ones and rejected ones, in any order — the object **is** the freshly
constructed alignment of the same class, with the same options, from the same source to the last
accepted target.  Equality is of the whole object: stored options, source, target, fitted state. -/
theorem retarget_eq_rebuild_sound (tr : Tree) (e : Ext Pts A) (c : Cls) (op : Opts) (s : Pts)
    (hs : Sound tr c op) (ts : List Pts) :
    ∀ (t0 : Pts) (o0 : Obj Pts A), build tr e c op s t0 = .ok o0 →
      build tr e c op s (lastAccepted e t0 ts) = .ok (history e o0 ts) := by
  induction ts with
  | nil => intro t0 o0 hb; simpa [history, lastAccepted] using hb
  | cons t ts ih =>
    intro t0 o0 hb
    have hstep := step_build tr e c op s t0 t o0 hs hb
    by_cases hsh : SameShape e t t0
    · have h1 := hstep.1 hsh
      have := ih t (step e o0 t) h1
      simpa [history, lastAccepted, hsh.1, hsh.2] using this
    · have h2 := hstep.2 hsh
      have := ih t0 o0 hb
      have hcond : ¬ (e.nDims t = e.nDims t0 ∧ e.nPoints t = e.nPoints t0) := hsh
      simpa [history, lastAccepted, hcond, h2] using this

/-- PROPERTY (repaired tree): every class, every option value (rotation on/off, mirroring on/off,
every kernel, every singular-value floor), every source, every finite history. -/
theorem retarget_eq_rebuild (e : Ext Pts A) (c : Cls) (op : Opts) (s t0 : Pts) (o0 : Obj Pts A)
    (hb : build fixed e c op s t0 = .ok o0) (ts : List Pts) :
    build fixed e c op s (lastAccepted e t0 ts) = .ok (history e o0 ts) :=
  retarget_eq_rebuild_sound fixed e c op s (fixed_sound c op) ts t0 o0 hb

/-- … in particular same map (fitted state), same target, same aligned source, same remembered options -/
theorem retarget_same_observables (e : Ext Pts A) (c : Cls) (op : Opts) (s t0 : Pts) (o0 fresh : Obj Pts A)
    (hb : build fixed e c op s t0 = .ok o0) (ts : List Pts)
    (hf : build fixed e c op s (lastAccepted e t0 ts) = .ok fresh) :
    (history e o0 ts).state = fresh.state ∧ (history e o0 ts).target = fresh.target ∧
    (history e o0 ts).target = lastAccepted e t0 ts ∧
    (history e o0 ts).source = s ∧
    alignedSource e (history e o0 ts) = alignedSource e fresh := by
  have h := retarget_eq_rebuild e c op s t0 o0 hb ts
  rw [hf] at h
  simp only [Except.ok.injEq] at h
  have ht := build_target fixed e c op s _ fresh (fixed_sound c op) hf
  subst h
  exact ⟨rfl, rfl, ht.1, ht.2.1, rfl⟩

/-- … and independent of the history: two histories (from possibly different first targets) whose last
accepted targets agree leave *equal* objects -/
theorem retarget_history_independent (e : Ext Pts A) (c : Cls) (op : Opts) (s t0 t0' : Pts)
    (o0 o0' : Obj Pts A) (hb : build fixed e c op s t0 = .ok o0) (hb' : build fixed e c op s t0' = .ok o0')
    (ts ts' : List Pts) (h : lastAccepted e t0 ts = lastAccepted e t0' ts') :
    history e o0 ts = history e o0' ts' := by
  have h1 := retarget_eq_rebuild e c op s t0 o0 hb ts
  have h2 := retarget_eq_rebuild e c op s t0' o0' hb' ts'
  rw [h, h2] at h1
  simpa using h1.symm

/-- when every target of a non-empty history has the right shape, the last accepted one is the last one -/
theorem lastAccepted_all (e : Ext Pts A) (ts : List Pts) :
    ∀ (t0 : Pts), (∀ t ∈ ts, SameShape e t t0) → lastAccepted e t0 ts = (t0 :: ts).getLast (by simp) := by
  induction ts with
  | nil => intro t0 _; rfl
  | cons t ts ih =>
    intro t0 h
    have ht : SameShape e t t0 := h t (by simp)
    have h' : ∀ u ∈ ts, SameShape e u t := fun u hu =>
      ⟨(h u (by simp [hu])).1.trans ht.1.symm, (h u (by simp [hu])).2.trans ht.2.symm⟩
    simp only [lastAccepted, ht.1, ht.2, and_self, if_true]
    rw [ih t h']
    simp [List.getLast_cons]

/-! ### the tree as found: what it does instead, for whatever the fit is -/

/-- finding 6 (universal form): an `AlignmentSimilarity(…, rotation=False)` of the tree as found, once
retargeted, holds the Procrustes fit **with** rotation — it equals the fresh `rotation=False`
alignment only if the fit ignores its `rotation` argument. -/
theorem coded_similarity_forgets_rotation (e : Ext Pts A) (m : Bool) (s t t' : Pts) (o : Obj Pts A)
    (hb : build coded e .similarity { rotation := false, allowMirror := m } s t = .ok o)
    (hsh : SameShape e t' t) :
    ∃ o' fresh, setTarget e o t' = .ok o' ∧
      build coded e .similarity { rotation := false, allowMirror := m } s t' = .ok fresh ∧
      o'.state = .hom (e.procrustes true m s t') ∧ fresh.state = .hom (e.procrustes false m s t') := by
  unfold build at hb
  split at hb
  · simp at hb
  · rename_i hst
    have hst' : verifySourceTarget e s t' = .ok () := by
      rw [verifySourceTarget_ok_iff] at hst ⊢
      exact ⟨hst.1.trans hsh.1.symm, hst.2.trans hsh.2.symm⟩
    simp only [buildCore, coded, Except.ok.injEq] at hb
    subst hb
    have hv : verifyTarget e
        ({ cls := .similarity, rotation := none, allowMirror := some m, kernel := none, minSV := none,
           source := s, target := t, state := .hom (e.procrustes false m s t) } : Obj Pts A) t' = .ok () :=
      verifyTarget_ok e _ t' hsh
    refine ⟨_, _, by simp [setTarget, hv]; rfl, by simp [build, hst', buildCore, coded]; rfl, ?_, ?_⟩
    · simp [sync]
    · rfl

/-- finding 22 (universal form): a fresh `AlignmentAffine` / `AlignmentRotation` of the tree as found
reports the *aligned source* as its target, a retargeted one the target it was given. -/
theorem coded_ctor_target_affine (e : Ext Pts A) (op : Opts) (s t : Pts) (o : Obj Pts A)
    (hb : build coded e .affine op s t = .ok o) :
    o.target = e.applyHom (e.affineOf s t) s ∧ alignedSource e o = o.target ∧
    ∀ t' o', setTarget e o t' = .ok o' → o'.target = t' := by
  unfold build at hb
  split at hb
  · simp at hb
  · simp only [buildCore, coded, Except.ok.injEq] at hb
    subst hb
    refine ⟨by simp, by simp [alignedSource], ?_⟩
    intro t' o' h
    unfold setTarget at h
    split at h
    · simp at h
    · simp only [Except.ok.injEq] at h; subst h; simp [sync]

theorem coded_ctor_target_rotation (e : Ext Pts A) (op : Opts) (s t : Pts) (o : Obj Pts A)
    (hb : build coded e .rotation op s t = .ok o) :
    o.target = e.applyHom (setBlock (e.nDims s) (e.rotationOf op.allowMirror s t) eye) s ∧
    alignedSource e o = o.target ∧
    ∀ t' o', setTarget e o t' = .ok o' → o'.target = t' := by
  unfold build at hb
  split at hb
  · simp at hb
  · simp only [buildCore, coded, Except.ok.injEq] at hb
    subst hb
    refine ⟨by simp, by simp [alignedSource], ?_⟩
    intro t' o' h
    unfold setTarget at h
    split at h
    · simp at h
    · simp only [Except.ok.injEq] at h; subst h; simp [sync]



/-! ### PROPERTY clause 2: the heap lemma -/

def cellOf (o : HObj A) : Option Nat :=
  match o.state with
  | .hom c => some c
  | _ => none

/-- every object's matrix cell is allocated, and no two objects share one (what constructors and `copy` establish) -/
structure WF (hp : Heap Pts) (os : List (HObj A)) : Prop where
  bound : ∀ (i : Nat) (o : HObj A) (c : Nat), os[i]? = some o → cellOf o = some c → c < hp.next
  distinct : ∀ (i j : Nat) (oi oj : HObj A) (c : Nat), os[i]? = some oi → os[j]? = some oj →
    cellOf oi = some c → cellOf oj = some c → i = j

theorem absObj_congr (hp hp' : Heap Pts) (o : HObj A) (hpts : hp'.pts = hp.pts)
    (hm : ∀ c, cellOf o = some c → hp'.mats c = hp.mats c) : absObj hp' o = absObj hp o := by
  unfold absObj
  rw [hpts]
  cases hst : o.state with
  | hom c => simp [hm c (by simp [cellOf, hst])]
  | tps l k => rfl
  | pwa tv => rfl

/-- what one operation on one object may do to the heap -/
structure Local (hp hp' : Heap Pts) (o o' : HObj A) : Prop where
  pts : hp'.pts = hp.pts
  mono : hp.next ≤ hp'.next
  frame : ∀ k, k < hp.next → cellOf o ≠ some k → hp'.mats k = hp.mats k
  cell : ∀ c', cellOf o' = some c' → c' < hp'.next ∧ (cellOf o = some c' ∨ hp.next ≤ c')

theorem updMat_same (m : Nat → Mat) (c : Nat) (v : Mat) : updMat m c v c = v := by simp [updMat]
theorem updMat_other (m : Nat → Mat) (c k : Nat) (v : Mat) (h : k ≠ c) : updMat m c v k = m k := by
  simp [updMat, h]

theorem hSync_spec (e : Ext Pts A) (hp : Heap Pts) (o : HObj A)
    (hb : ∀ c, cellOf o = some c → c < hp.next) :
    absObj (hSync e hp o).1 (hSync e hp o).2 = sync e (absObj hp o) ∧
    Local hp (hSync e hp o).1 o (hSync e hp o).2 := by
  cases hc : o.cls <;> cases hst : o.state <;>
    simp only [hSync, sync, absObj, hc, hst] <;>
    refine ⟨?_, ⟨rfl, ?_, ?_, ?_⟩⟩ <;>
    simp_all [cellOf, updMat]
  all_goals (intro k h1 h2 h3; first | omega | exact absurd h3.symm h2)


theorem hSetTarget_spec (e : Ext Pts A) (hp : Heap Pts) (o : HObj A) (r : Nat)
    (hb : ∀ c, cellOf o = some c → c < hp.next) :
    absObj (hSetTarget e hp o r).1 (hSetTarget e hp o r).2 = step e (absObj hp o) (hp.pts r) ∧
    Local hp (hSetTarget e hp o r).1 o (hSetTarget e hp o r).2 := by
  unfold hSetTarget step setTarget
  cases hv : verifyTarget e (absObj hp o) (hp.pts r) with
  | error err =>
    refine ⟨rfl, ⟨rfl, Nat.le_refl _, fun _ _ _ => rfl, ?_⟩⟩
    intro c' hc'
    exact ⟨hb c' hc', Or.inl hc'⟩
  | ok u =>
    cases u
    have h := hSync_spec e hp { o with target := r } hb
    exact ⟨h.1.trans rfl, ⟨h.2.pts, h.2.mono, h.2.frame, h.2.cell⟩⟩

theorem hCopy_spec (hp : Heap Pts) (o : HObj A) (_hb : ∀ c, cellOf o = some c → c < hp.next) :
    absObj (hCopy hp o).1 (hCopy hp o).2 = absObj hp o ∧
    (hCopy hp o).1.pts = hp.pts ∧ hp.next ≤ (hCopy hp o).1.next ∧
    (∀ k, k < hp.next → (hCopy hp o).1.mats k = hp.mats k) ∧
    (∀ c', cellOf (hCopy hp o).2 = some c' → c' < (hCopy hp o).1.next ∧ hp.next ≤ c') := by
  cases hst : o.state with
  | hom c =>
    have hcp : hCopy hp o = ({ hp with mats := updMat hp.mats hp.next (hp.mats c), next := hp.next + 1 },
               { o with state := .hom hp.next }) := by simp [hCopy, hst]
    rw [hcp]
    refine ⟨by simp [absObj, hst, updMat], rfl, by simp, ?_, ?_⟩
    · intro k hk; have : k ≠ hp.next := by omega
      simp [updMat, this]
    · intro c' hc'; simp [cellOf] at hc'; subst hc'; simp
  | tps l k =>
    have hcp : hCopy hp o = (hp, o) := by simp [hCopy, hst]
    rw [hcp]
    refine ⟨rfl, rfl, Nat.le_refl _, fun _ _ => rfl, ?_⟩
    intro c' hc'; simp [cellOf, hst] at hc'
  | pwa tv =>
    have hcp : hCopy hp o = (hp, o) := by simp [hCopy, hst]
    rw [hcp]
    refine ⟨rfl, rfl, Nat.le_refl _, fun _ _ => rfl, ?_⟩
    intro c' hc'; simp [cellOf, hst] at hc'


theorem set_map_congr {α β} (l : List α) (i : Nat) (v : β) (f g : α → β)
    (h : ∀ (k : Nat) (x : α), k ≠ i → l[k]? = some x → f x = g x) :
    (l.map f).set i v = (l.map g).set i v := by
  apply List.ext_getElem?
  intro k
  simp only [List.getElem?_set, List.getElem?_map, List.length_map]
  by_cases hik : i = k
  · simp [hik]
  · simp only [hik, if_false]
    cases hx : l[k]? with
    | none => rfl
    | some x => simp [h k x (fun hh => hik hh.symm) hx]

theorem hStep_spec (e : Ext Pts A) (st : Heap Pts × List (HObj A)) (op : Op) (hwf : WF st.1 st.2) :
    WF (hStep e st op).1 (hStep e st op).2 ∧
    (hStep e st op).1.pts = st.1.pts ∧
    (hStep e st op).2.map (absObj (hStep e st op).1) = vStep e st.1.pts (st.2.map (absObj st.1)) op := by
  obtain ⟨hp, os⟩ := st
  cases op with
  | setTarget i r =>
    simp only [hStep, vStep, List.getElem?_map]
    cases hget : os[i]? with
    | none => exact ⟨hwf, rfl, rfl⟩
    | some o =>
      simp only [Option.map_some]
      have hb : ∀ c, cellOf o = some c → c < hp.next := fun c hc => hwf.bound i o c hget hc
      obtain ⟨habs, hloc⟩ := hSetTarget_spec e hp o r hb
      generalize hres : hSetTarget e hp o r = res at habs hloc ⊢
      obtain ⟨hp', o'⟩ := res
      have hilt : i < os.length := (List.getElem?_eq_some_iff.mp hget).1
      refine ⟨⟨?_, ?_⟩, hloc.pts, ?_⟩
      · -- bound
        intro k ok c hk hc
        rw [List.getElem?_set] at hk
        by_cases hik : i = k
        · simp only [hik, if_true] at hk
          split at hk
          · simp only [Option.some.injEq] at hk; subst hk; exact (hloc.cell c hc).1
          · simp at hk
        · simp only [hik, if_false] at hk
          exact Nat.lt_of_lt_of_le (hwf.bound k ok c hk hc) hloc.mono
      · -- distinct
        intro k1 k2 o1 o2 c h1 h2 hc1 hc2
        rw [List.getElem?_set] at h1 h2
        by_cases hi1 : i = k1
        · by_cases hi2 : i = k2
          · exact hi1.symm.trans hi2
          · simp only [hi1, if_true] at h1
            simp only [hi2, if_false] at h2
            split at h1
            · simp only [Option.some.injEq] at h1; subst h1
              rcases (hloc.cell c hc1).2 with hold | hnew
              · exact absurd (hwf.distinct i k2 o o2 c hget h2 hold hc2) hi2
              · have hlt : c < hp.next := hwf.bound k2 o2 c h2 hc2; omega
            · simp at h1
        · by_cases hi2 : i = k2
          · simp only [hi1, if_false] at h1
            simp only [hi2, if_true] at h2
            split at h2
            · simp only [Option.some.injEq] at h2; subst h2
              rcases (hloc.cell c hc2).2 with hold | hnew
              · exact absurd (hwf.distinct i k1 o o1 c hget h1 hold hc1) hi1
              · have hlt : c < hp.next := hwf.bound k1 o1 c h1 hc1; omega
            · simp at h2
          · simp only [hi1, if_false] at h1
            simp only [hi2, if_false] at h2
            exact hwf.distinct k1 k2 o1 o2 c h1 h2 hc1 hc2
      · -- abstraction commutes
        rw [List.map_set, habs]
        apply set_map_congr
        intro k x hki hx
        apply absObj_congr _ _ _ hloc.pts
        intro c hc
        apply hloc.frame c (hwf.bound k x c hx hc)
        intro hoc
        exact hki (hwf.distinct k i x o c hx hget hc hoc)
  | copy i =>
    simp only [hStep, vStep, List.getElem?_map]
    cases hget : os[i]? with
    | none => exact ⟨hwf, rfl, rfl⟩
    | some o =>
      simp only [Option.map_some]
      have hb : ∀ c, cellOf o = some c → c < hp.next := fun c hc => hwf.bound i o c hget hc
      obtain ⟨habs, hpts, hmono, hframe, hcell⟩ := hCopy_spec hp o hb
      generalize hres : hCopy hp o = res at habs hpts hmono hframe hcell ⊢
      obtain ⟨hp', o'⟩ := res
      refine ⟨⟨?_, ?_⟩, hpts, ?_⟩
      · intro k ok c hk hc
        rw [List.getElem?_append] at hk
        split at hk
        · exact Nat.lt_of_lt_of_le (hwf.bound k ok c hk hc) hmono
        · rename_i hlen
          have : k - os.length = 0 := by
            cases hkk : k - os.length with
            | zero => rfl
            | succ n => rw [hkk] at hk; simp at hk
          rw [this] at hk; simp only [List.getElem?_cons_zero, Option.some.injEq] at hk
          subst hk; exact (hcell c hc).1
      · intro k1 k2 o1 o2 c h1 h2 hc1 hc2
        rw [List.getElem?_append] at h1 h2
        have hz : ∀ k (x : HObj A), ¬ k < os.length → [o'][k - os.length]? = some x → k = os.length ∧ x = o' := by
          intro k x hlt hx
          cases hkk : k - os.length with
          | zero => rw [hkk] at hx; simp at hx; exact ⟨by omega, hx.symm⟩
          | succ n => rw [hkk] at hx; simp at hx
        split at h1
        · split at h2
          · exact hwf.distinct k1 k2 o1 o2 c h1 h2 hc1 hc2
          · rename_i hlt2
            obtain ⟨_, rfl⟩ := hz k2 o2 hlt2 h2
            have hlt : c < hp.next := hwf.bound k1 o1 c h1 hc1
            have := (hcell c hc2).2; omega
        · rename_i hlt1
          obtain ⟨hk1, rfl⟩ := hz k1 o1 hlt1 h1
          split at h2
          · have hlt : c < hp.next := hwf.bound k2 o2 c h2 hc2
            have := (hcell c hc1).2; omega
          · rename_i hlt2
            obtain ⟨hk2, _⟩ := hz k2 o2 hlt2 h2
            omega
      · rw [List.map_append, List.map_cons, List.map_nil, habs]
        congr 1
        apply List.map_congr_left
        intro x hx
        obtain ⟨k, hk, rfl⟩ := List.mem_iff_getElem.mp hx
        apply absObj_congr _ _ _ hpts
        intro c hc
        exact hframe c (hwf.bound k _ c (List.getElem?_eq_getElem hk) hc)


/-- the heap lemma: a program of `set_target`s and `copy`s over objects that share the caller's point sets
and write their matrices in place computes exactly what the same program computes on independent
values; it never writes a point set. -/
theorem hRun_refines (e : Ext Pts A) (ops : List Op) :
    ∀ st : Heap Pts × List (HObj A), WF st.1 st.2 →
      WF (hRun e st ops).1 (hRun e st ops).2 ∧
      (hRun e st ops).1.pts = st.1.pts ∧
      (hRun e st ops).2.map (absObj (hRun e st ops).1) = vRun e st.1.pts (st.2.map (absObj st.1)) ops := by
  induction ops with
  | nil => intro st h; exact ⟨h, rfl, rfl⟩
  | cons op ops ih =>
    intro st h
    obtain ⟨h1, h2, h3⟩ := hStep_spec e st op h
    obtain ⟨i1, i2, i3⟩ := ih (hStep e st op) h1
    refine ⟨i1, i2.trans h2, ?_⟩
    simp only [hRun, vRun, List.foldl_cons] at i3 ⊢
    rw [i3, h2, h3]

/-- PROPERTY clause 2a: retargeting never alters the point sets the caller passed in (nor the source:
`retarget_same_observables`) -/
theorem retarget_frame (e : Ext Pts A) (ops : List Op) (st : Heap Pts × List (HObj A)) (h : WF st.1 st.2) :
    (hRun e st ops).1.pts = st.1.pts := (hRun_refines e ops st h).2.1

/-- the object is the fresh alignment (class `c`, options `op`, source `s`) to its own current target -/
def IsFresh (e : Ext Pts A) (o : Obj Pts A) : Prop :=
  ∃ c op s, build fixed e c op s o.target = .ok o

theorem step_fresh (e : Ext Pts A) (o : Obj Pts A) (t : Pts) (h : IsFresh e o) : IsFresh e (step e o t) := by
  obtain ⟨c, op, s, hb⟩ := h
  have hs := step_build fixed e c op s o.target t o (fixed_sound c op) hb
  by_cases hsh : SameShape e t o.target
  · have h1 := hs.1 hsh
    have ht := (build_target fixed e c op s t _ (fixed_sound c op) h1).1
    exact ⟨c, op, s, by rw [ht]; exact h1⟩
  · rw [hs.2 hsh]; exact ⟨c, op, s, hb⟩

theorem vStep_fresh (e : Ext Pts A) (pts : Nat → Pts) (os : List (Obj Pts A)) (op : Op)
    (h : ∀ o ∈ os, IsFresh e o) : ∀ o ∈ vStep e pts os op, IsFresh e o := by
  cases op with
  | setTarget i r =>
    simp only [vStep]
    cases hget : os[i]? with
    | none => exact h
    | some o =>
      intro x hx
      rcases List.mem_or_eq_of_mem_set hx with hx | hx
      · exact h x hx
      · rw [hx]; exact step_fresh e o (pts r) (h o (List.mem_of_getElem? hget))
  | copy i =>
    simp only [vStep]
    cases hget : os[i]? with
    | none => exact h
    | some o =>
      intro x hx
      rcases List.mem_append.mp hx with hx | hx
      · exact h x hx
      · simp only [List.mem_singleton] at hx; rw [hx]; exact h o (List.mem_of_getElem? hget)

theorem vRun_fresh (e : Ext Pts A) (pts : Nat → Pts) (ops : List Op) :
    ∀ os : List (Obj Pts A), (∀ o ∈ os, IsFresh e o) → ∀ o ∈ vRun e pts os ops, IsFresh e o := by
  induction ops with
  | nil => intro os h; exact h
  | cons op ops ih => intro os h; exact ih _ (vStep_fresh e pts os op h)

/-- a `set_target` on object `i` is invisible through every other object, copies included -/
theorem vStep_other (e : Ext Pts A) (pts : Nat → Pts) (os : List (Obj Pts A)) (i r j : Nat) (h : j ≠ i) :
    (vStep e pts os (.setTarget i r))[j]? = os[j]? := by
  simp only [vStep]
  cases os[i]? with
  | none => rfl
  | some o => exact List.getElem?_set_ne (fun hh => h hh.symm)

/-- … and the addressed object ends up with exactly the point set it was given, when that is accepted -/
theorem vStep_self (e : Ext Pts A) (pts : Nat → Pts) (os : List (Obj Pts A)) (i r : Nat) (o : Obj Pts A)
    (hget : os[i]? = some o) :
    (vStep e pts os (.setTarget i r))[i]? = some (step e o (pts r)) := by
  obtain ⟨hlt, hval⟩ := List.getElem?_eq_some_iff.mp hget
  simp only [vStep, hget]
  rw [List.getElem?_set_self hlt]

/-- PROPERTY clause 2b: copies taken at any point of the history evolve independently.  Starting from
fresh alignments, after *any* interleaving of `set_target`s on any objects and of `copy`s, every object
on the heap — original or copy — is the fresh alignment of its class, options and source to *its own*
current target, and no point set has been written. -/
theorem copies_evolve_independently (e : Ext Pts A) (ops : List Op) (st : Heap Pts × List (HObj A))
    (hwf : WF st.1 st.2) (hfresh : ∀ o ∈ st.2, IsFresh e (absObj st.1 o)) :
    (hRun e st ops).1.pts = st.1.pts ∧
    ∀ o ∈ (hRun e st ops).2, IsFresh e (absObj (hRun e st ops).1 o) := by
  obtain ⟨_, hpts, habs⟩ := hRun_refines e ops st hwf
  refine ⟨hpts, ?_⟩
  intro o ho
  have hmem : absObj (hRun e st ops).1 o ∈ (hRun e st ops).2.map (absObj (hRun e st ops).1) :=
    List.mem_map_of_mem ho
  rw [habs] at hmem
  apply vRun_fresh e st.1.pts ops _ _ _ hmem
  intro x hx
  obtain ⟨y, hy, rfl⟩ := List.mem_map.mp hx
  exact hfresh y hy



/-! ### PROPERTY clause 4: generalized Procrustes analysis without a fixed target -/

theorem similarity_sound (tr : Tree) (op : Opts) (hr : op.rotation = true) : Sound tr .similarity op :=
  ⟨fun _ => Or.inr hr, fun h => by rcases h with h | h <;> cases h⟩

theorem setAll_buildAll (tr : Tree) (e : Ext Pts A) (op : Opts) (hr : op.rotation = true) (t t' : Pts) :
    ∀ (sources : List Pts) (ts ts' : List (Obj Pts A)),
      buildAll tr e op t sources = .ok ts → setAll e t' ts = .ok ts' →
      buildAll tr e op t' sources = .ok ts' := by
  intro sources
  induction sources with
  | nil =>
    intro ts ts' hb hs
    simp only [buildAll, Except.ok.injEq] at hb; subst hb
    simp only [setAll, Except.ok.injEq] at hs; subst hs
    rfl
  | cons s ss ih =>
    intro ts ts' hb hs
    simp only [buildAll] at hb
    cases hbo : build tr e .similarity op s t with
    | error err => simp [hbo] at hb
    | ok o =>
      cases hbs : buildAll tr e op t ss with
      | error err => simp [hbo, hbs] at hb
      | ok os =>
        simp only [hbo, hbs, Except.ok.injEq] at hb; subst hb
        simp only [setAll] at hs
        cases hso : setTarget e o t' with
        | error err => simp [hso] at hs
        | ok o' =>
          cases hss : setAll e t' os with
          | error err => simp [hso, hss] at hs
          | ok os' =>
            simp only [hso, hss, Except.ok.injEq] at hs; subst hs
            have hsound := similarity_sound tr op hr
            have htgt := (build_target tr e .similarity op s t o hsound hbo).1
            have hsh : SameShape e t' t := by
              have hv : verifyTarget e o t' = .ok () := by
                unfold setTarget at hso
                split at hso
                · simp at hso
                · assumption
              rw [← htgt]; exact (verifyTarget_ok_iff e o t').mp hv
            obtain ⟨o'', h1, h2⟩ := setTarget_build tr e .similarity op s t t' o hsound hbo hsh
            rw [hso] at h1
            simp only [Except.ok.injEq] at h1; subst h1
            simp [buildAll, h2, ih os os' hbs hss]

theorem recProcrustes_inv (tr : Tree) (e : Ext Pts A) (g : GpaExt Pts) (initial : Pts) (op : Opts)
    (hr : op.rotation = true) (sources : List Pts) :
    ∀ (fuel : Nat) (st r : Gpa Pts A),
      buildAll tr e op st.target sources = .ok st.transforms →
      recProcrustes e g initial fuel st = .ok r →
      buildAll tr e op r.target sources = .ok r.transforms := by
  intro fuel
  induction fuel with
  | zero =>
    intro st r hb hr'
    simp only [recProcrustes, Except.ok.injEq] at hr'; subst hr'; exact hb
  | succ n ih =>
    intro st r hb hr'
    simp only [recProcrustes] at hr'
    split at hr'
    · simp only [Except.ok.injEq] at hr'; subst hr'; exact hb
    · split at hr'
      · simp at hr'
      · rename_i ts hts
        exact ih _ r (setAll_buildAll tr e op hr _ _ sources _ _ hb hts) hr'

/-- PROPERTY clause 4: on **every** exit path of the iteration (converged, or `max_iterations` reached, for
every `max_iterations`), on either tree, the transforms GPA returns are exactly the fresh
`AlignmentSimilarity(source_i, gpa.target, allow_mirror=…)` of each input shape to the common target it
reports — whatever the mean / rescale / convergence computations are. -/
theorem gpa_transforms_are_alignments (tr : Tree) (e : Ext Pts A) (g : GpaExt Pts) (maxIter : Nat)
    (sources : List Pts) (mirror : Bool) (r : Gpa Pts A)
    (h : gpa tr e g maxIter sources none mirror = .ok r) :
    buildAll tr e { rotation := true, allowMirror := mirror } r.target sources = .ok r.transforms := by
  simp only [gpa] at h
  split at h
  · simp at h
  · rename_i ts hts
    split at h
    · simp at h
    · rename_i r' hr'
      simp only [Except.ok.injEq] at h; subst h
      exact recProcrustes_inv tr e g _ _ rfl sources maxIter _ _ hts hr'

/-- element-wise reading of `buildAll` -/
theorem buildAll_getElem (tr : Tree) (e : Ext Pts A) (op : Opts) (t : Pts) :
    ∀ (sources : List Pts) (ts : List (Obj Pts A)), buildAll tr e op t sources = .ok ts →
      ts.length = sources.length ∧
      ∀ (i : Nat) (s : Pts), sources[i]? = some s → ∃ o, ts[i]? = some o ∧ build tr e .similarity op s t = .ok o := by
  intro sources
  induction sources with
  | nil => intro ts h; simp only [buildAll, Except.ok.injEq] at h; subst h; simp
  | cons s ss ih =>
    intro ts h
    simp only [buildAll] at h
    cases hbo : build tr e .similarity op s t with
    | error err => simp [hbo] at h
    | ok o =>
      cases hbs : buildAll tr e op t ss with
      | error err => simp [hbo, hbs] at h
      | ok os =>
        simp only [hbo, hbs, Except.ok.injEq] at h; subst h
        obtain ⟨hl, hi⟩ := ih os hbs
        refine ⟨by simp [hl], ?_⟩
        intro i s' hs'
        cases i with
        | zero => simp at hs'; subst hs'; exact ⟨o, by simp, hbo⟩
        | succ k => simp at hs'; simpa using hi k s' hs'

/-- with a fixed target the reported target is the one given, while the transforms stay aligned to the
last mean shape: the property's restriction "without a fixed target" is needed (remark, not a clause) -/
theorem gpa_fixed_target_reports_it (tr : Tree) (e : Ext Pts A) (g : GpaExt Pts) (maxIter : Nat)
    (sources : List Pts) (t : Pts) (mirror : Bool) (r : Gpa Pts A)
    (h : gpa tr e g maxIter sources (some t) mirror = .ok r) : r.target = t := by
  simp only [gpa] at h
  split at h
  · simp at h
  · split at h
    · simp at h
    · simp only [Except.ok.injEq] at h; subst h; rfl




theorem hBuild_spec (tree : Tree) (e : Ext Pts A) (c : Cls) (op : Opts) (hp : Heap Pts) (sr tr : Nat)
    (hs : Sound tree c op) (hp' : Heap Pts) (ho : HObj A)
    (h : hBuild tree e c op hp sr tr = .ok (hp', ho)) :
    build tree e c op (hp.pts sr) (hp.pts tr) = .ok (absObj hp' ho) ∧ hp'.pts = hp.pts ∧ WF hp' [ho] := by
  unfold hBuild at h
  cases hb : build tree e c op (hp.pts sr) (hp.pts tr) with
  | error err => simp [hb] at h
  | ok o =>
    obtain ⟨ht, hsrc, _⟩ := build_target tree e c op _ _ o hs hb
    simp only [hb] at h
    cases hst : o.state with
    | hom m =>
      simp only [hst, Except.ok.injEq, Prod.mk.injEq] at h
      obtain ⟨rfl, rfl⟩ := h
      refine ⟨?_, rfl, ⟨?_, ?_⟩⟩
      · congr 1
        cases o; simp_all [absObj, updMat]
      · intro i x cc hi hc
        cases i with
        | zero => simp at hi; subst hi; simp [cellOf] at hc; subst hc; simp
        | succ k => simp at hi
      · intro i j oi oj cc hi hj _ _
        cases i with
        | zero => cases j with
          | zero => rfl
          | succ k => simp at hj
        | succ k => simp at hi
    | tps l k =>
      simp only [hst, Except.ok.injEq, Prod.mk.injEq] at h
      obtain ⟨rfl, rfl⟩ := h
      refine ⟨?_, rfl, ⟨?_, ?_⟩⟩
      · congr 1
        cases o; simp_all [absObj]
      · intro i x cc hi hc
        cases i with
        | zero => simp at hi; subst hi; simp [cellOf] at hc
        | succ k => simp at hi
      · intro i j oi oj cc hi hj _ _
        cases i with
        | zero => cases j with
          | zero => rfl
          | succ k => simp at hj
        | succ k => simp at hi
    | pwa tv =>
      simp only [hst, Except.ok.injEq, Prod.mk.injEq] at h
      obtain ⟨rfl, rfl⟩ := h
      refine ⟨?_, rfl, ⟨?_, ?_⟩⟩
      · congr 1
        cases o; simp_all [absObj]
      · intro i x cc hi hc
        cases i with
        | zero => simp at hi; subst hi; simp [cellOf] at hc
        | succ k => simp at hi
      · intro i j oi oj cc hi hj _ _
        cases i with
        | zero => cases j with
          | zero => rfl
          | succ k => simp at hj
        | succ k => simp at hi

/-- PROPERTY clause 2, closed form: construct an alignment of any class with any options on the caller's
point sets, then run **any** program of `set_target`s (to any of the caller's point sets, accepted or
rejected) and `copy`s on it and on its copies: no point set of the caller is ever written, and every
object — original or copy, whenever the copy was taken — is the fresh alignment to its own current target. -/
theorem retarget_frame_and_copies (e : Ext Pts A) (c : Cls) (op : Opts) (hp : Heap Pts) (sr tr : Nat)
    (hp' : Heap Pts) (ho : HObj A) (h : hBuild fixed e c op hp sr tr = .ok (hp', ho)) (ops : List Op) :
    (hRun e (hp', [ho]) ops).1.pts = hp.pts ∧
    ∀ o ∈ (hRun e (hp', [ho]) ops).2, IsFresh e (absObj (hRun e (hp', [ho]) ops).1 o) := by
  obtain ⟨hb, hpts, hwf⟩ := hBuild_spec fixed e c op hp sr tr (fixed_sound c op) hp' ho h
  have hfresh : ∀ o ∈ [ho], IsFresh e (absObj hp' o) := by
    intro o ho'
    simp only [List.mem_singleton] at ho'; subst ho'
    have ht := (build_target fixed e c op _ _ _ (fixed_sound c op) hb).1
    exact ⟨c, op, hp.pts sr, by rw [ht]; exact hb⟩
  obtain ⟨h1, h2⟩ := copies_evolve_independently e ops (hp', [ho]) hwf hfresh
  exact ⟨h1.trans hpts, h2⟩



/-! ### witnesses on concrete data (replayed on the real code by the harness, case `witness`) and
non-vacuity examples.  Point sets: `S` the square (±1, ±1); `T0 = S`; `T1` = S turned by 90° and doubled;
`P3` three points; `P4` four 3-D points; `T5` = S with the corner (1,1) moved to (2,1).  The table holds
the exact values of the real fits from `S`. -/

def wS : DP := ⟨0, 4, 2⟩
def wT0 : DP := ⟨1, 4, 2⟩
def wT1 : DP := ⟨2, 4, 2⟩
def wP3 : DP := ⟨3, 3, 2⟩
def wP4 : DP := ⟨4, 4, 3⟩
def wT5 : DP := ⟨5, 4, 2⟩

def wTable : Nat → Fits
  | 2 => { transl := [0, 0], scale := 2, rot := fun _ => [0, -1, 1, 0],
           aff := [0, -2, 0, 2, 0, 0, 0, 0, 1],
           proc := fun r _ => if r then [0, -2, 0, 2, 0, 0, 0, 0, 1] else [2, 0, 0, 0, 2, 0, 0, 0, 1] }
  | 5 => { transl := [1/4, 0], scale := 1, rot := fun _ => [1, 0, 0, 1],
           aff := [5/4, 1/4, 1/4, 0, 1, 0, 0, 0, 1],
           proc := fun _ _ => [1, 0, 1/4, 0, 1, 0, 0, 0, 1] }
  | _ => { transl := [0, 0], scale := 1, rot := fun _ => [1, 0, 0, 1],
           aff := [1, 0, 0, 0, 1, 0, 0, 0, 1], proc := fun _ _ => [1, 0, 0, 0, 1, 0, 0, 0, 1] }

def W : Ext DP String := tableExt wTable

def noRot : Opts := { rotation := false }

/-- finding 6, witness: on the tree as found, `AlignmentSimilarity(S, S, rotation=False).set_target(T1)`
turns by 90° although rotation was switched off; the fresh `rotation=False` alignment to `T1` does not. -/
theorem coded_retarget_ne_rebuild_witness :
    ((build coded W .similarity noRot wS wT0).toOption.map fun o => stateEntries 2 (step W o wT1))
      = some [[0, -2, 0], [2, 0, 0], [0, 0, 1]] ∧
    ((build coded W .similarity noRot wS wT1).toOption.map (stateEntries 2))
      = some [[2, 0, 0], [0, 2, 0], [0, 0, 1]] := by
  constructor <;> decide +kernel

/-- … the repaired tree agrees with the fresh alignment on the same input -/
example : ((build fixed W .similarity noRot wS wT0).toOption.map fun o => stateEntries 2 (step W o wT1))
      = some [[2, 0, 0], [0, 2, 0], [0, 0, 1]] := by decide +kernel

/-- finding 22, witness: on the tree as found a fresh `AlignmentAffine(S, T5)` does not report `T5` as its
target (it reports the aligned source, point set 1000), the same object after `set_target(T5)` does. -/
theorem coded_fresh_target_witness :
    ((build coded W .affine {} wS wT5).toOption.map fun o => o.target) = some ⟨1000, 4, 2⟩ ∧
    ((build coded W .affine {} wS wT0).toOption.map fun o => (step W o wT5).target) = some wT5 ∧
    ((build coded W .rotation {} wS wT5).toOption.map fun o => o.target) = some ⟨1000, 4, 2⟩ ∧
    ((build fixed W .affine {} wS wT5).toOption.map fun o => o.target) = some wT5 ∧
    ((build fixed W .rotation {} wS wT5).toOption.map fun o => o.target) = some wT5 := by
  refine ⟨?_, ?_, ?_, ?_, ?_⟩ <;> decide +kernel

/-! non-vacuity: a history with accepted and rejected targets -/
example : lastAccepted W wT0 [wT1, wP3, wP4, wT5, wP3] = wT5 := by decide +kernel
example : ((build fixed W .translation {} wS wT0).toOption.map fun o =>
    (verdicts W o [wT1, wP3, wP4, wT5, wP3], stateEntries 2 (history W o [wT1, wP3, wP4, wT5, wP3])))
    = some ([none, some .points, some .dims, none, some .points], [[1, 0, 1/4], [0, 1, 0], [0, 0, 1]]) := by
  decide +kernel
example : ((build fixed W .translation {} wS wT5).toOption.map (stateEntries 2))
    = some [[1, 0, 1/4], [0, 1, 0], [0, 0, 1]] := by decide +kernel
example : ((build fixed W .uniformScale {} wS wT0).toOption.map fun o => stateEntries 2 (history W o [wT5, wT1]))
    = some [[2, 0, 0], [0, 2, 0], [0, 0, 1]] := by decide +kernel
example : ((build fixed W .rotation {} wS wT5).toOption.map fun o => stateEntries 2 (history W o [wT1]))
    = some [[0, -1, 0], [1, 0, 0], [0, 0, 1]] := by decide +kernel
example : ((build fixed W .tps { kernel := 1, minSV := 1/100 } wS wT0).toOption.map fun o =>
    stateDescr (history W o [wT5, wT1])) = some "tps L(k1,p0) C(L(k1,p0),1/100,p2)" := by decide +kernel
example : (build fixed W .tps {} wS wP4).toOption.map stateDescr = none := by decide +kernel
example : (build fixed W .pwa {} wP4 wP4).toOption.map stateDescr = none := by decide +kernel
example : ¬ SameShape W wP3 wT0 := by unfold SameShape; decide
example : ¬ SameShape W wP4 wT0 := by unfold SameShape; decide
example : SameShape W wT5 wT0 := by unfold SameShape; decide

/-! non-vacuity of the heap lemma: build a translation alignment, copy it, retarget the original to `T5`
and the copy to `T1`; each holds its own fit although both matrices were written in place -/
def wHeap : Heap DP := { mats := fun _ => eye, next := 0, pts := fun r => [wS, wT0, wT1, wP3, wP4, wT5].getD r wS }

example : ((hBuild fixed W .translation {} wHeap 0 1).toOption.map fun st =>
    let r := hRun W (st.1, [st.2]) [.copy 0, .setTarget 0 5, .setTarget 1 2, .setTarget 1 3]
    r.2.map fun o => ((absObj r.1 o).target.id, stateEntries 2 (absObj r.1 o)))
    = some [(5, [[1, 0, 1/4], [0, 1, 0], [0, 0, 1]]), (2, [[1, 0, 0], [0, 1, 0], [0, 0, 1]])] := by
  decide +kernel

/-! non-vacuity of the GPA theorem: three shapes, convergence at the third mean shape; and the
iteration bound as exit -/
example : ((gpa fixed (symExt 4 2) (symGpa [false, false, true]) 100 [0, 1, 2] none false).toOption.map fun g =>
    (g.nIterations, g.converged, g.target, g.transforms.map fun o => (o.source, o.target)))
    = some (3, true, 1002, [(0, 1002), (1, 1002), (2, 1002)]) := by decide +kernel
example : ((gpa fixed (symExt 4 2) (symGpa []) 5 [0, 1] none true).toOption.map fun g =>
    (g.nIterations, g.converged, g.target, g.transforms.map fun o => [o.source, o.target, if o.allowMirror == some true then 1 else 0]))
    = some (6, false, 1005, [[0, 1005, 1], [1, 1005, 1]]) := by decide +kernel


end MenpoModel.C08
