/-
C08 — retargeting an alignment equals rebuilding it, whatever happened before.  Property theorems
(closed forms) and kernel-checked witnesses.  Core Lean only.

Value-level theorems: `Lemmas/C08Value.lean` (histories of `set_target`, both trees, GPA),
`Lemmas/C08Edits.lean` (objects that are not fresh: stale targets, parameter edits), `Lemmas/C08Frame.lean`
(what the re-fit reads and writes, and what follows from that alone); heap: `Lemmas/C08Heap.lean`.
-/
import MenpoModel.Lemmas.C08Value
import MenpoModel.Lemmas.C08Edits
import MenpoModel.Lemmas.C08Frame
import MenpoModel.Lemmas.C08Heap
import MenpoModel.Core.C08Table

namespace MenpoModel.C08

variable {Pts A : Type}

/-! ### PROPERTY clause 2: frame and copies, closed forms on the heap -/

/-- PROPERTY clause 2a: no program of `set_target`s (accepted or rejected), `copy`s and parameter edits
writes an array of coordinates that existed or re-points a `PointCloud` that existed: the caller's point
sets — source and every target ever passed — read the same afterwards -/
theorem retarget_frame (e : Ext Pts A) (ops : List Op) (st : Heap Pts × List (HObj A)) (h : WF st.1 st.2)
    (hok : ∀ op ∈ ops, OpOK st.1 op) :
    (∀ k, k < st.1.nextArr → (hRun e st ops).1.arr k = st.1.arr k) ∧
    (∀ r, r < st.1.nextPc → (hRun e st ops).1.pc r = st.1.pc r ∧ (hRun e st ops).1.pts r = st.1.pts r) := by
  obtain ⟨_, f, _⟩ := hRun_refines e ops st h hok
  exact ⟨f.arr, fun r hr => ⟨f.pc r hr, f.pts r hr (h.pcs r hr)⟩⟩

/-- a `set_target` on object `i` is invisible through every other object, copies included -/
theorem vStep_other (e : Ext Pts A) (pts : Nat → Pts) (os : List (Obj Pts A)) (i r j : Nat) (h : j ≠ i) :
    (vStep e pts os (.setTarget i r))[j]? = os[j]? := by
  simp only [vStep]
  cases os[i]? with
  | none => rfl
  | some o => exact List.getElem?_set_ne (fun hh => h hh.symm)

/-- … and the addressed object ends up with exactly the point set it was given, when that is accepted -/
theorem vStep_self (e : Ext Pts A) (pts : Nat → Pts) (os : List (Obj Pts A)) (i r : Nat) (o : Obj Pts A)
    (hget : os[i]? = some o) :
    (vStep e pts os (.setTarget i r))[i]? = some (step e o (pts r)) := by
  obtain ⟨hlt, hval⟩ := List.getElem?_eq_some_iff.mp hget
  simp only [vStep, hget]
  rw [List.getElem?_set_self hlt]

/-- a program without parameter edits -/
def NoEdit : Op → Prop
  | .edit _ _ _ => False
  | _ => True

theorem vStep_fresh (e : Ext Pts A) (pts : Nat → Pts) (os : List (Obj Pts A)) (op : Op) (hne : NoEdit op)
    (h : ∀ o ∈ os, IsFresh e o) : ∀ o ∈ vStep e pts os op, IsFresh e o := by
  cases op with
  | setTarget i r =>
    simp only [vStep]
    cases hget : os[i]? with
    | none => exact h
    | some o =>
      intro x hx
      rcases List.mem_or_eq_of_mem_set hx with hx | hx
      · exact h x hx
      · rw [hx]; exact step_fresh e o (pts r) (h o (List.mem_of_getElem? hget))
  | copy i =>
    simp only [vStep]
    cases hget : os[i]? with
    | none => exact h
    | some o =>
      intro x hx
      rcases List.mem_append.mp hx with hx | hx
      · exact h x hx
      · simp only [List.mem_singleton] at hx; rw [hx]; exact h o (List.mem_of_getElem? hget)
  | edit i k m => exact absurd hne (by simp [NoEdit])

theorem vRun_fresh (e : Ext Pts A) (pts : Nat → Pts) (ops : List Op) :
    ∀ os : List (Obj Pts A), (∀ op ∈ ops, NoEdit op) → (∀ o ∈ os, IsFresh e o) →
      ∀ o ∈ vRun e pts os ops, IsFresh e o := by
  induction ops with
  | nil => intro os _ h; exact h
  | cons op ops ih =>
    intro os hne h
    exact ih _ (fun o ho => hne o (by simp [ho])) (vStep_fresh e pts os op (hne op (by simp)) h)

/-- PROPERTY clause 2b: copies taken at any point of the history evolve independently.  Starting from
fresh alignments, after *any* interleaving of `set_target`s on any objects and of `copy`s, every object
on the heap — original or copy — is the fresh alignment of its class, options and source to *its own*
current target, and no array of coordinates has been written. -/
theorem copies_evolve_independently (e : Ext Pts A) (ops : List Op) (st : Heap Pts × List (HObj A))
    (hwf : WF st.1 st.2) (hok : ∀ op ∈ ops, OpOK st.1 op) (hne : ∀ op ∈ ops, NoEdit op)
    (hfresh : ∀ o ∈ st.2, IsFresh e (absObj st.1 o)) :
    Frame st.1 (hRun e st ops).1 ∧
    ∀ o ∈ (hRun e st ops).2, IsFresh e (absObj (hRun e st ops).1 o) := by
  obtain ⟨_, hfr, habs⟩ := hRun_refines e ops st hwf hok
  refine ⟨hfr, ?_⟩
  intro o ho
  have hmem : absObj (hRun e st ops).1 o ∈ (hRun e st ops).2.map (absObj (hRun e st ops).1) :=
    List.mem_map_of_mem ho
  rw [habs] at hmem
  apply vRun_fresh e st.1.pts ops _ hne _ _ hmem
  intro x hx
  obtain ⟨y, hy, rfl⟩ := List.mem_map.mp hx
  exact hfresh y hy

theorem hBuild_spec (tree : Tree) (e : Ext Pts A) (c : Cls) (op : Opts) (hp : Heap Pts) (sr tr : Nat)
    (hs : Sound tree c op) (hpcs : ∀ r, r < hp.nextPc → hp.pc r < hp.nextArr)
    (hsr : sr < hp.nextPc) (htr : tr < hp.nextPc) (hp' : Heap Pts) (ho : HObj A)
    (h : hBuild tree e c op hp sr tr = .ok (hp', ho)) :
    build tree e c op (hp.pts sr) (hp.pts tr) = .ok (absObj hp' ho) ∧ Frame hp hp' ∧ WF hp' [ho] := by
  unfold hBuild at h
  cases hb : build tree e c op (hp.pts sr) (hp.pts tr) with
  | error err => simp [hb] at h
  | ok o =>
    obtain ⟨ht, hsrc, _⟩ := build_target tree e c op _ _ o hs hb
    simp only [hb] at h
    have hone : ∀ (hq : Heap Pts) (x : HObj A), hq.nextPc = hp.nextPc → hq.nextArr = hp.nextArr → hq.pc = hp.pc →
        x.source = sr → x.target = tr → (∀ cc, cellOf x = some cc → cc < hq.next) → WF hq [x] := by
      intro hq x e1 e2 e3 e4 e5 hcell
      refine ⟨?_, ?_, ?_, ?_⟩
      · intro i y cc hi hc
        cases i with
        | zero => simp at hi; subst hi; exact hcell cc hc
        | succ k => simp at hi
      · intro i j oi oj cc hi hj _ _
        cases i with
        | zero => cases j with
          | zero => rfl
          | succ k => simp at hj
        | succ k => simp at hi
      · intro i y hi
        cases i with
        | zero => simp at hi; subst hi; rw [e4, e5, e1]; exact ⟨hsr, htr⟩
        | succ k => simp at hi
      · intro r hr; rw [e3, e2]; exact hpcs r (by rw [← e1]; exact hr)
    cases hst : o.state with
    | hom m =>
      simp only [hst, Except.ok.injEq, Prod.mk.injEq] at h
      obtain ⟨rfl, rfl⟩ := h
      refine ⟨?_, Frame.of_eq rfl rfl rfl rfl, hone _ _ rfl rfl rfl rfl rfl ?_⟩
      · congr 1
        cases o; simp_all [absObj, updMat, Heap.pts]
      · intro cc hc; simp [cellOf] at hc; subst hc; simp
    | tps l k =>
      simp only [hst, Except.ok.injEq, Prod.mk.injEq] at h
      obtain ⟨rfl, rfl⟩ := h
      refine ⟨?_, Frame.refl _, hone _ _ rfl rfl rfl rfl rfl ?_⟩
      · congr 1
        cases o; simp_all [absObj, Heap.pts]
      · intro cc hc; simp [cellOf] at hc
    | pwa tv =>
      simp only [hst, Except.ok.injEq, Prod.mk.injEq] at h
      obtain ⟨rfl, rfl⟩ := h
      refine ⟨?_, Frame.refl _, hone _ _ rfl rfl rfl rfl rfl ?_⟩
      · congr 1
        cases o; simp_all [absObj, Heap.pts]
      · intro cc hc; simp [cellOf] at hc

/-- PROPERTY clause 2, closed form: construct an alignment of any class with any options on the caller's
point sets, then run **any** program of `set_target`s (to any of the caller's point sets, accepted or
rejected) and `copy`s on it and on its copies: no point set of the caller is ever written, and every
object — original or copy, whenever the copy was taken — is the fresh alignment to its own current target. -/
theorem retarget_frame_and_copies (e : Ext Pts A) (c : Cls) (op : Opts) (hp : Heap Pts) (sr tr : Nat)
    (hpcs : ∀ r, r < hp.nextPc → hp.pc r < hp.nextArr) (hsr : sr < hp.nextPc) (htr : tr < hp.nextPc)
    (hp' : Heap Pts) (ho : HObj A) (h : hBuild fixed e c op hp sr tr = .ok (hp', ho)) (ops : List Op)
    (hok : ∀ o ∈ ops, OpOK hp o) (hne : ∀ o ∈ ops, NoEdit o) :
    Frame hp (hRun e (hp', [ho]) ops).1 ∧
    ∀ o ∈ (hRun e (hp', [ho]) ops).2, IsFresh e (absObj (hRun e (hp', [ho]) ops).1 o) := by
  obtain ⟨hb, hfr, hwf⟩ := hBuild_spec fixed e c op hp sr tr (fixed_sound c op) hpcs hsr htr hp' ho h
  have hfresh : ∀ o ∈ [ho], IsFresh e (absObj hp' o) := by
    intro o ho'
    simp only [List.mem_singleton] at ho'; subst ho'
    have ht := (build_target fixed e c op _ _ _ (fixed_sound c op) hb).1
    exact ⟨c, op, hp.pts sr, by rw [ht]; exact hb⟩
  obtain ⟨h1, h2⟩ := copies_evolve_independently e ops (hp', [ho]) hwf
    (fun o ho => OpOK_mono hfr o (hok o ho)) hne hfresh
  exact ⟨hfr.trans h1, h2⟩

/-- PROPERTY clause 1 on the heap, closed form ("whatever happened before", aliasing included).  Construct an
alignment of any class with any options on two of the caller's `PointCloud`s; let **anything** legal happen —
`set_target`s with any of the caller's objects (the source object, the object already held, objects sharing
one array), copies, `set_target`s on the copies, `from_vector_inplace` / compositions, the caller
overwriting the coordinates of any of its point sets that is not a source — and then call
`objs[i].set_target(pcs[r])` on any object, original or copy, with a point set of the right shape: that
object is the freshly constructed alignment to the coordinates `pcs[r]` has at that moment. -/
theorem retarget_eq_rebuild_heap (e : Ext Pts A) (c : Cls) (op : Opts) (hp : Heap Pts) (sr tr : Nat)
    (hpcs : ∀ r, r < hp.nextPc → hp.pc r < hp.nextArr) (hsr : sr < hp.nextPc) (htr : tr < hp.nextPc)
    (hp' : Heap Pts) (ho : HObj A) (h : hBuild fixed e c op hp sr tr = .ok (hp', ho))
    (acts : List (Act Pts)) (hl : LegalRun e (hp', [ho]) acts) (i r : Nat) (o : HObj A)
    (hget : (aRun e (hp', [ho]) acts).2[i]? = some o) (hr : r < (aRun e (hp', [ho]) acts).1.nextPc)
    (hsh : SameShape e ((aRun e (hp', [ho]) acts).1.pts r) (absObj (aRun e (hp', [ho]) acts).1 o).target) :
    ∃ o', (hStep e (aRun e (hp', [ho]) acts) (.setTarget i r)).2[i]? = some o' ∧
      IsFresh e (absObj (hStep e (aRun e (hp', [ho]) acts) (.setTarget i r)).1 o') ∧
      (absObj (hStep e (aRun e (hp', [ho]) acts) (.setTarget i r)).1 o').target =
        (aRun e (hp', [ho]) acts).1.pts r := by
  obtain ⟨hb, _, hwf⟩ := hBuild_spec fixed e c op hp sr tr (fixed_sound c op) hpcs hsr htr hp' ho h
  have hbase : AllBase e hp' [ho] := by
    intro x hx
    simp only [List.mem_singleton] at hx; subst hx
    exact ⟨c, op, _, base_of_build e c op _ _ _ hb⟩
  obtain ⟨o', h1, h2, h3, _⟩ := set_target_after_anything e (hp', [ho]) acts hwf hbase hl i r o hget hr hsh
  exact ⟨o', h1, h2, h3⟩

/-! ### witnesses on concrete data (replayed on the real code by the harness, case `witness`) and
non-vacuity examples.  Point sets: `S` the square (±1, ±1); `T0 = S`; `T1` = S turned by 90° and doubled;
`P3` three points; `P4` four 3-D points; `T5` = S with the corner (1,1) moved to (2,1).  The table holds
the exact values of the real fits from `S`. -/

def wS : DP := ⟨0, 4, 2⟩
def wT0 : DP := ⟨1, 4, 2⟩
def wT1 : DP := ⟨2, 4, 2⟩
def wP3 : DP := ⟨3, 3, 2⟩
def wP4 : DP := ⟨4, 4, 3⟩
def wT5 : DP := ⟨5, 4, 2⟩

def wTable : Nat → Fits
  | 2 => { transl := [0, 0], scale := 2, rot := fun _ => [0, -1, 1, 0],
           aff := [0, -2, 0, 2, 0, 0, 0, 0, 1],
           proc := fun r _ => if r then [0, -2, 0, 2, 0, 0, 0, 0, 1] else [2, 0, 0, 0, 2, 0, 0, 0, 1] }
  | 5 => { transl := [1/4, 0], scale := 1, rot := fun _ => [1, 0, 0, 1],
           aff := [5/4, 1/4, 1/4, 0, 1, 0, 0, 0, 1],
           proc := fun _ _ => [1, 0, 1/4, 0, 1, 0, 0, 0, 1] }
  | _ => { transl := [0, 0], scale := 1, rot := fun _ => [1, 0, 0, 1],
           aff := [1, 0, 0, 0, 1, 0, 0, 0, 1], proc := fun _ _ => [1, 0, 0, 0, 1, 0, 0, 0, 1] }

def W : Ext DP String := tableExt wTable

def noRot : Opts := { rotation := false }

/-- finding 6, witness: on the tree as found, `AlignmentSimilarity(S, S, rotation=False).set_target(T1)`
turns by 90° although rotation was switched off; the fresh `rotation=False` alignment to `T1` does not. -/
theorem coded_retarget_ne_rebuild_witness :
    ((build coded W .similarity noRot wS wT0).toOption.map fun o => stateEntries 2 (step W o wT1))
      = some [[0, -2, 0], [2, 0, 0], [0, 0, 1]] ∧
    ((build coded W .similarity noRot wS wT1).toOption.map (stateEntries 2))
      = some [[2, 0, 0], [0, 2, 0], [0, 0, 1]] := by
  constructor <;> decide +kernel

/-- … the repaired tree agrees with the fresh alignment on the same input -/
example : ((build fixed W .similarity noRot wS wT0).toOption.map fun o => stateEntries 2 (step W o wT1))
      = some [[2, 0, 0], [0, 2, 0], [0, 0, 1]] := by decide +kernel

/-- finding 22, witness: on the tree as found a fresh `AlignmentAffine(S, T5)` does not report `T5` as its
target (it reports the aligned source, point set 1000), the same object after `set_target(T5)` does. -/
theorem coded_fresh_target_witness :
    ((build coded W .affine {} wS wT5).toOption.map fun o => o.target) = some ⟨1000, 4, 2⟩ ∧
    ((build coded W .affine {} wS wT0).toOption.map fun o => (step W o wT5).target) = some wT5 ∧
    ((build coded W .rotation {} wS wT5).toOption.map fun o => o.target) = some ⟨1000, 4, 2⟩ ∧
    ((build fixed W .affine {} wS wT5).toOption.map fun o => o.target) = some wT5 ∧
    ((build fixed W .rotation {} wS wT5).toOption.map fun o => o.target) = some wT5 := by
  refine ⟨?_, ?_, ?_, ?_, ?_⟩ <;> decide +kernel

/-! non-vacuity: a history with accepted and rejected targets -/
example : lastAccepted W wT0 [wT1, wP3, wP4, wT5, wP3] = wT5 := by decide +kernel
example : ((build fixed W .translation {} wS wT0).toOption.map fun o =>
    (verdicts W o [wT1, wP3, wP4, wT5, wP3], stateEntries 2 (history W o [wT1, wP3, wP4, wT5, wP3])))
    = some ([none, some .points, some .dims, none, some .points], [[1, 0, 1/4], [0, 1, 0], [0, 0, 1]]) := by
  decide +kernel
example : ((build fixed W .translation {} wS wT5).toOption.map (stateEntries 2))
    = some [[1, 0, 1/4], [0, 1, 0], [0, 0, 1]] := by decide +kernel
example : ((build fixed W .uniformScale {} wS wT0).toOption.map fun o => stateEntries 2 (history W o [wT5, wT1]))
    = some [[2, 0, 0], [0, 2, 0], [0, 0, 1]] := by decide +kernel
example : ((build fixed W .rotation {} wS wT5).toOption.map fun o => stateEntries 2 (history W o [wT1]))
    = some [[0, -1, 0], [1, 0, 0], [0, 0, 1]] := by decide +kernel
example : ((build fixed W .tps { kernel := 1, minSV := 1/100 } wS wT0).toOption.map fun o =>
    stateDescr (history W o [wT5, wT1])) = some "tps L(k1,p0) C(L(k1,p0),1/100,p2)" := by decide +kernel
example : (build fixed W .tps {} wS wP4).toOption.map stateDescr = none := by decide +kernel
example : (build fixed W .pwa {} wP4 wP4).toOption.map stateDescr = none := by decide +kernel
example : ¬ SameShape W wP3 wT0 := by unfold SameShape; decide
example : ¬ SameShape W wP4 wT0 := by unfold SameShape; decide
example : SameShape W wT5 wT0 := by unfold SameShape; decide

/-! non-vacuity of the heap lemma: build a translation alignment, copy it, retarget the original to `T5`
and the copy to `T1`; each holds its own fit although both matrices were written in place -/
def wHeap : Heap DP :=
  { mats := fun _ => eye, next := 0, arr := fun r => [wS, wT0, wT1, wP3, wP4, wT5].getD r wS, nextArr := 6,
    pc := fun r => r, nextPc := 6 }

example : ((hBuild fixed W .translation {} wHeap 0 1).toOption.map fun st =>
    let r := hRun W (st.1, [st.2]) [.copy 0, .setTarget 0 5, .setTarget 1 2, .setTarget 1 3]
    r.2.map fun o => ((absObj r.1 o).target.id, stateEntries 2 (absObj r.1 o)))
    = some [(5, [[1, 0, 1/4], [0, 1, 0], [0, 0, 1]]), (2, [[1, 0, 0], [0, 1, 0], [0, 0, 1]])] := by
  decide +kernel

/-! non-vacuity of the GPA theorem: three shapes, convergence at the third mean shape; and the
iteration bound as exit -/
example : ((gpa fixed (symExt 4 2) (symGpa [false, false, true]) 100 [0, 1, 2] none false).toOption.map fun g =>
    (g.nIterations, g.converged, g.target, g.transforms.map fun o => (o.source, o.target)))
    = some (3, true, 1002, [(0, 1002), (1, 1002), (2, 1002)]) := by decide +kernel
example : ((gpa fixed (symExt 4 2) (symGpa []) 5 [0, 1] none true).toOption.map fun g =>
    (g.nIterations, g.converged, g.target, g.transforms.map fun o => [o.source, o.target, if o.allowMirror == some true then 1 else 0]))
    = some (6, false, 1005, [[0, 1005, 1], [1, 1005, 1]]) := by decide +kernel




/-! non-vacuity of the aliasing theorems (`retarget_eq_rebuild_heap`, `set_target_after_anything`): the caller
passes the *same* `PointCloud` again after having overwritten its coordinates; two `PointCloud`s share one
array; the construction-time target object is edited and passed to `set_target`.  `wHeapA`: point sets 1 and 6
share array 1. -/
def wHeapA : Heap DP :=
  { mats := fun _ => eye, next := 0, arr := fun r => [wS, wT0, wT1, wP3, wP4, wT5].getD r wS, nextArr := 6,
    pc := fun r => if r = 6 then 1 else r, nextPc := 7 }

/-- stale, then rebuilt: the construction-time target object (point set 1) gets the coordinates of `T5` written
in place — the alignment shows the new coordinates with its old fit — and `set_target` with the **same
object** re-fits to them -/
example : ((hBuild fixed W .translation {} wHeapA 0 1).toOption.map fun st =>
    let r1 := aRun W (st.1, [st.2]) [.write 1 wT5]
    let r2 := aRun W (st.1, [st.2]) [.write 1 wT5, .op (.setTarget 0 1)]
    (r1.2.map fun o => ((absObj r1.1 o).target.id, stateEntries 2 (absObj r1.1 o)),
     r2.2.map fun o => ((absObj r2.1 o).target.id, stateEntries 2 (absObj r2.1 o))))
    = some ([(5, [[1, 0, 0], [0, 1, 0], [0, 0, 1]])], [(5, [[1, 0, 1/4], [0, 1, 0], [0, 0, 1]])]) := by
  decide +kernel

/-- the write arrives through an aliasing `PointCloud` (6 shares its array with 1); a TPS copy owns its own
target object and does not see it, a homogeneous copy shares the object and does -/
example : ((hBuild fixed W .translation {} wHeapA 0 1).toOption.map fun st =>
    let r := aRun W (st.1, [st.2]) [.op (.copy 0), .write 6 wT5, .op (.setTarget 1 6)]
    r.2.map fun o => ((absObj r.1 o).target.id, stateEntries 2 (absObj r.1 o)))
    = some [(5, [[1, 0, 0], [0, 1, 0], [0, 0, 1]]), (5, [[1, 0, 1/4], [0, 1, 0], [0, 0, 1]])] := by
  decide +kernel
example : ((hBuild fixed W .tps {} wHeapA 0 1).toOption.map fun st =>
    let r := aRun W (st.1, [st.2]) [.op (.copy 0), .write 6 wT5, .op (.setTarget 0 1)]
    r.2.map fun o => ((absObj r.1 o).target.id, stateDescr (absObj r.1 o)))
    = some [(5, "tps L(k0,p0) C(L(k0,p0),1/10000,p5)"), (1, "tps L(k0,p0) C(L(k0,p0),1/10000,p1)")] := by
  decide +kernel

/-- non-vacuity of `set_target_erases_history`: `from_vector_inplace` on a translation alignment, then a
composition with a translation, then the caller moves the (new) target, then `set_target(T5)` -/
def wShift : Mat := fun i j => if i = j then 1 else if j = 2 ∧ i < 2 then 3 else 0
example : ClassShaped .translation 2 wShift := by
  intro i j h; simp only [wShift, eye]
  by_cases hij : i = j
  · simp [hij]
  · simp only [hij, if_false]; split
    · rename_i hh; exact absurd hh h
    · rfl
example : ((build fixed W .translation {} wS wT0).toOption.map fun o =>
    (stateEntries 2 (vHistory W o [.edit .fromVector wShift, .edit .composeAfter wShift]),
     stateEntries 2 (vHistory W o [.edit .fromVector wShift, .edit .composeAfter wShift, .targetMoved wT1, .set wT5])))
    = some ([[1, 0, 6], [0, 1, 6], [0, 0, 1]], [[1, 0, 1/4], [0, 1, 0], [0, 0, 1]]) := by decide +kernel

/-- the heap runs the same edits: the rotation alignment's in-place block write and the affine alignment's
re-binding; both re-sync their target to a *new* `PointCloud` (7) holding the aligned source (value 1000) -/
example : ((hBuild fixed W .rotation {} wHeapA 0 1).toOption.map fun st =>
    let r := aRun W (st.1, [st.2]) [.op (.copy 0), .op (.edit 0 .fromVector wShift), .op (.setTarget 1 2)]
    r.2.map fun o => (o.target, (absObj r.1 o).target.id, stateEntries 2 (absObj r.1 o)))
    = some [(7, 1000, [[1, 0, 0], [0, 1, 0], [0, 0, 1]]), (2, 2, [[0, -1, 0], [1, 0, 0], [0, 0, 1]])] := by
  decide +kernel

/-! non-vacuity of `retarget_state_function`: two translation alignments with different first targets and
different histories, same last target -/
example : ((build fixed W .translation {} wS wT0).toOption.bind fun o =>
    (build fixed W .translation {} wS wT1).toOption.map fun o' =>
      (stateEntries 2 (history W o ([wT1, wP3] ++ [wT5])), stateEntries 2 (history W o' ([] ++ [wT5]))))
    = some ([[1, 0, 1/4], [0, 1, 0], [0, 0, 1]], [[1, 0, 1/4], [0, 1, 0], [0, 0, 1]]) := by decide +kernel

/-! the regenerated table's row format is satisfiable and discriminating: a row that reads a
construction-time-only attribute, or writes one the model does not, is rejected -/
example : RWRow.ok ⟨"AlignmentTranslation", .translation, "", ["_target", "_source", "_h_matrix"],
    ["_target", "_h_matrix"], ["_h_matrix"], ["_h_matrix", "_source", "_target"]⟩ = true := by decide
example : RWRow.ok ⟨"ThinPlateSplines", .tps, "", ["_target", "l", "min_singular_val", "k"],
    ["_target", "v", "y", "coefficients"], [], ["_source", "_target", "coefficients", "k", "kernel", "l",
    "min_singular_val", "p", "v", "y"]⟩ = false := by decide
example : RWRow.ok ⟨"ThinPlateSplines", .tps, "", ["_target", "l", "min_singular_val"],
    ["_target", "v", "y", "coefficients"], ["v"], ["_source", "_target", "coefficients", "k", "kernel", "l",
    "min_singular_val", "p", "v", "y"]⟩ = false := by decide

/-- harmless variants are accepted: an instance attribute the re-fit never touches need not be known to the model;
the TPS right-hand-side scratch may live in locals instead of the attributes `v`, `y` -/
example : RWRow.ok ⟨"AlignmentTranslation", .translation, "", ["_target", "_source", "_h_matrix"],
    ["_target", "_h_matrix"], ["_h_matrix"], ["_h_matrix", "_n_dims", "_source", "_target"]⟩ = true := by decide
example : RWRow.ok ⟨"ThinPlateSplines", .tps, "", ["_target", "l", "min_singular_val"],
    ["_target", "coefficients"], [], ["_source", "_target", "coefficients", "k", "kernel", "l",
    "min_singular_val", "p"]⟩ = true := by decide
/-- … an unknown attribute that IS read is not -/
example : RWRow.ok ⟨"AlignmentTranslation", .translation, "", ["_target", "_source", "_h_matrix", "_cache"],
    ["_target", "_h_matrix"], ["_h_matrix"], ["_cache", "_h_matrix", "_source", "_target"]⟩ = false := by decide

/-! non-vacuity of the hypotheses of the heap theorems: a legal run with a caller write on the construction-time
target object and a `set_target` with that same object -/
example : ∃ st, hBuild fixed W .translation {} wHeapA 0 1 = .ok st ∧
    LegalRun W (st.1, [st.2]) [.write 1 wT5, .op (.setTarget 0 1)] := by
  refine ⟨_, rfl, ⟨?_, ?_⟩, ?_, trivial⟩
  · decide
  · intro o ho
    simp only [List.mem_singleton] at ho
    subst ho
    decide
  · show (1 : Nat) < (hWrite W _ 1 wT5).nextPc
    unfold hWrite; split <;> decide

/-! non-vacuity of `CtorAgree` (hypothesis of `retarget_state_function`): any constructed object against itself
after any history — different fitted state, different target, same construction-time part -/
example (o : Obj DP String) (hb : build fixed W .translation {} wS wT0 = .ok o) :
    CtorAgree W (history W o [wT1, wP3, wT5]) o :=
  ctorAgree_history W _ o (build_kinded fixed W .translation {} wS wT0 o hb)

/-! non-vacuity of `pinv_then_set_target`: the inverse of a translation alignment (matrix: last column negated),
retargeted, is the fresh alignment *from the old target* (the table `wTable` holds fits from `S` only: the
examples show that source and target are swapped and which fit call is made, not its numbers) -/
def wNeg : Mat → Mat := fun h i j => if j = 2 ∧ i < 2 then - h i j else h i j
example : ∀ h, ClassShaped .translation 2 h → ClassShaped .translation 2 (wNeg h) := by
  intro h hs i j hn; simp only [wNeg, hn, if_false]; exact hs i j hn
example : ((build fixed W .translation {} wS wT5).toOption.map fun o =>
    ((pinv W wNeg o).source.id, (pinv W wNeg o).target.id, stateEntries 2 (pinv W wNeg o)))
    = some (5, 0, [[1, 0, -1/4], [0, 1, 0], [0, 0, 1]]) := by decide +kernel
example : ((build fixed W .translation {} wS wT5).toOption.map fun o =>
    ((step W (pinv W wNeg o) wT1).source.id, (step W (pinv W wNeg o) wT1).target.id,
     stateEntries 2 (step W (pinv W wNeg o) wT1)))
    = some (5, 2, [[1, 0, 0], [0, 1, 0], [0, 0, 1]]) := by decide +kernel

/-! non-vacuity of the fresh-iteration theorem: the run above, through `refGpa` -/
example : (refGpa fixed (symExt 4 2) (symGpa [false, false, true]) { rotation := true, allowMirror := false }
    1000 [0, 1, 2] 100 1000 1).toOption = some (1002, 3, true) := by decide +kernel
example : (refGpa fixed (symExt 4 2) (symGpa []) { rotation := true, allowMirror := true }
    1000 [0, 1] 5 1000 1).toOption = some (1005, 6, false) := by decide +kernel

end MenpoModel.C08
