/-
C15 — labelled groups select exactly what labels say, in deterministic order; the predefined
index-based labellers only re-index.  Property theorems.  Core Lean only.

Reading of the property text used below (see also harness/c15.py INFO):
* "every point always carries at least one label": `Covered`, an invariant of every sequence of succeeding
  operations (`run_invariant`); refuted by witness for `add_label` as coded (`addLabelCoded_breaks_cover`).
* "exactly the points under the requested labels with the edges among them, the remaining labels restricted
  accordingly and in their original order": `select_*`, `withoutLabels_*`, `getLabel_exact`, `removeLabel_spec`,
  `addLabel_spec`.
* "identical from run to run": the repaired operations are functions of their arguments; `without_labels` as
  coded depends on the set iteration order (`withoutLabelsCoded_order_refuted`, `withoutLabelsCoded_run_to_run`).
* labellers: `labeller_*`, consumed with the regenerated obligations `GenProps/C15.lean`.
-/
import MenpoModel.Lemmas.C15Dict

namespace MenpoModel.C15

/-! ### selection (`_new_group_with_only_labels`) -/

theorem selMask_length {α} (g : LGraph α) (req : List String) : (selMask g req).length = g.pts.length := by
  simp [selMask, orMasks_length]

/-- the selection mask: a point is kept iff it lies under one of the requested labels -/
theorem selMask_spec {α} (g : LGraph α) (req : List String) (v : Nat) :
    (selMask g req)[v]? = some true ↔
      v < g.pts.length ∧ ∃ l ∈ req, ∃ m, lookup g.labels l = some m ∧ m[v]? = some true := by
  unfold selMask
  rw [orMasks_get]
  simp only [List.mem_filterMap]
  constructor
  · rintro ⟨hv, m, ⟨l, hl, hm⟩, hmv⟩
    exact ⟨hv, l, hl, m, hm, hmv⟩
  · rintro ⟨hv, l, hl, m, hm, hmv⟩
    exact ⟨hv, m, ⟨l, hl, hm⟩, hmv⟩

/-- the restricted label set of a selection covers every selected point: the constructor's
`_verify_all_labels_masked` can never fire inside `_new_group_with_only_labels` -/
theorem restrict_covered {α} (g : LGraph α) (hwf : WF g) (req : List String) :
    coveredB (maskFilter g.pts (selMask g req)).length (restrictLabels g req (selMask g req)) = true := by
  rw [coveredB_iff]
  intro j hj
  obtain ⟨v, hv, hr⟩ := maskFilter_surj g.pts (selMask g req) (selMask_length g req).symm j hj
  obtain ⟨_, l, hl, m, hm, hmv⟩ := (selMask_spec g req v).mp hv
  refine ⟨(l, maskFilter m (selMask g req)), ?_, ?_⟩
  · unfold restrictLabels
    apply List.mem_map.mpr
    exact ⟨l, (mem_dedup l req).mpr hl, by simp [hm]⟩
  · have hlen : m.length = (selMask g req).length := by
      rw [selMask_length]; exact hwf.maskLen _ (lookup_eq_some_mem hm)
    show (maskFilter m (selMask g req))[j]? = some true
    rw [← hr, maskFilter_rank m _ v hlen hv, hmv]

/-- the restricted masks are as long as the selected points: the constructor's mask-length check can never fire
inside `_new_group_with_only_labels` either -/
theorem restrict_lengths {α} (g : LGraph α) (hwf : WF g) (req : List String) (hk : ∀ l ∈ req, l ∈ g.names) :
    (restrictLabels g req (selMask g req)).any
      (fun p => p.2.length != (maskFilter g.pts (selMask g req)).length) = false := by
  apply Bool.eq_false_iff.mpr
  intro hc
  obtain ⟨p, hp, hne⟩ := List.any_eq_true.mp hc
  unfold restrictLabels at hp
  obtain ⟨l, hld, rfl⟩ := List.mem_map.mp hp
  have hlr := (mem_dedup l req).mp hld
  have hs := (lookup_isSome_iff _ _).mpr (hk l hlr)
  obtain ⟨m, hm⟩ := Option.isSome_iff_exists.mp hs
  have hlen : m.length = (selMask g req).length := by
    rw [selMask_length]; exact hwf.maskLen _ (lookup_eq_some_mem hm)
  simp only [hm, Option.getD_some, bne_iff_ne, ne_eq] at hne
  exact hne (maskFilter_length_congr _ _ _ hlen (selMask_length g req).symm)

/-- **what a successful selection returns** (code path unfolded: the all-true shortcut of `from_mask`
and the constructor checks are discharged) -/
theorem select_ok {α} {g g' : LGraph α} (hwf : WF g) {req : List String} (h : select g req = .ok g') :
    (∀ l ∈ req, l ∈ g.names) ∧ (selMask g req).any id = true ∧
    g'.pts = maskFilter g.pts (selMask g req) ∧
    g'.edges = inducedEdges (selMask g req) g.edges ∧
    g'.labels = restrictLabels g req (selMask g req) := by
  unfold select at h
  split at h
  · cases h
  · rename_i hk
    split at h
    · cases h
    simp only at h
    split at h
    · cases h
    · rename_i hany
      rw [fromMask_eq _ _ _ (selMask_length g req).symm hwf.edgesIn] at h
      simp only [construct] at h
      split at h
      · cases h
      · split at h
        · cases h
        · split at h
          · cases h
          · injection h with h
            subst h
            refine ⟨?_, by simpa using hany, rfl, rfl, rfl⟩
            intro l hl
            simp only [List.any_eq_true, not_exists, not_and, Bool.not_eq_true] at hk
            have := hk l hl
            have hs : (lookup g.labels l).isSome = true := by
              cases hlk : lookup g.labels l <;> simp_all
            exact (lookup_isSome_iff _ _).mp hs

/-- **when selection raises**, exactly as the code does: an unknown label → `ValueError`; an empty request
(what `without_labels` of all labels produces) → refused with `IndexError`; known labels none of which masks a
point → refused (zero-vertex graph); in every other case it succeeds — it never raises for another reason -/
theorem select_total {α} (g : LGraph α) (hwf : WF g) (req : List String) :
    ((∃ l ∈ req, l ∉ g.names) → select g req = .error .value) ∧
    (req = [] → select g req = .error .index) ∧
    ((∀ l ∈ req, l ∈ g.names) → req ≠ [] → (selMask g req).any id = false → select g req = .error .empty) ∧
    ((∀ l ∈ req, l ∈ g.names) → req ≠ [] → (selMask g req).any id = true → ∃ g', select g req = .ok g') := by
  have known : (∀ l ∈ req, l ∈ g.names) → req.any (fun l => (lookup g.labels l).isNone) = false := by
    intro hk
    apply Bool.eq_false_iff.mpr
    intro hc
    obtain ⟨l, hl, hn⟩ := List.any_eq_true.mp hc
    exact (lookup_isNone_iff _ _).mp hn (hk l hl)
  refine ⟨?_, ?_, ?_, ?_⟩
  · rintro ⟨l, hl, hn⟩
    unfold select
    have : req.any (fun l => (lookup g.labels l).isNone) = true := by
      apply List.any_eq_true.mpr
      exact ⟨l, hl, (lookup_isNone_iff _ _).mpr hn⟩
    simp [this]
  · rintro rfl
    simp [select]
  · intro hk hne hany
    unfold select
    have hne' : req.isEmpty = false := by cases req <;> simp_all
    simp [known hk, hany, hne']
  · intro hk hne hany
    unfold select
    have hne' : req.isEmpty = false := by cases req <;> simp_all
    simp only [known hk, Bool.false_eq_true, if_false, hany, Bool.not_true, hne']
    rw [fromMask_eq _ _ _ (selMask_length g req).symm hwf.edgesIn]
    simp only [construct, restrict_covered g hwf req, restrict_lengths g hwf req hk, Bool.not_true,
      Bool.false_eq_true, if_false]
    have hne'' : (restrictLabels g req (selMask g req)).isEmpty = false := by
      unfold restrictLabels
      cases req with
      | nil => exact absurd rfl hne
      | cons x xs => simp [dedup]
    simp [hne'']

/-- **points**: a kept point `v` reappears unchanged at position `rank v`; every returned point is a kept
point; kept points keep their relative (original) order and never collapse -/
theorem select_points_exact {α} {g g' : LGraph α} (hwf : WF g) {req : List String}
    (h : select g req = .ok g') :
    (∀ v, (selMask g req)[v]? = some true → g'.pts[rank (selMask g req) v]? = g.pts[v]?) ∧
    (∀ j, j < g'.pts.length → ∃ v, (selMask g req)[v]? = some true ∧ rank (selMask g req) v = j) ∧
    (∀ u v, u < v → (selMask g req)[u]? = some true → rank (selMask g req) u < rank (selMask g req) v) := by
  obtain ⟨_, _, hp, _, _⟩ := select_ok hwf h
  refine ⟨?_, ?_, ?_⟩
  · intro v hv
    rw [hp]; exact maskFilter_rank _ _ v (selMask_length g req).symm hv
  · intro j hj
    rw [hp] at hj
    exact maskFilter_surj _ _ (selMask_length g req).symm j hj
  · intro u v huv hu
    exact rank_strictMono _ u v huv hu

/-- **edges**: exactly the edges of the original graph with both ends kept, renumbered -/
theorem select_edges_exact {α} {g g' : LGraph α} (hwf : WF g) {req : List String}
    (h : select g req = .ok g') (a b : Nat) :
    (a, b) ∈ g'.edges ↔ ∃ u v, (u, v) ∈ g.edges ∧ (selMask g req)[u]? = some true ∧
      (selMask g req)[v]? = some true ∧ a = rank (selMask g req) u ∧ b = rank (selMask g req) v := by
  obtain ⟨_, _, _, he, _⟩ := select_ok hwf h
  rw [he]; exact mem_inducedEdges _ _ a b

/-- **labels**: the result carries the requested labels (first occurrences, in request order); each mask
is the original one restricted to the kept points -/
theorem select_labels_restricted {α} {g g' : LGraph α} (hwf : WF g) {req : List String}
    (h : select g req = .ok g') :
    g'.names = dedup req ∧
    (∀ l ∈ req, ∀ m, lookup g.labels l = some m →
      lookup g'.labels l = some (maskFilter m (selMask g req)) ∧
      ∀ v, (selMask g req)[v]? = some true →
        (maskFilter m (selMask g req))[rank (selMask g req) v]? = m[v]?) := by
  obtain ⟨_, _, _, _, hl⟩ := select_ok hwf h
  constructor
  · simp [LGraph.names, hl, restrictLabels, Function.comp_def]
  · intro l hlr m hm
    constructor
    · rw [hl]; unfold restrictLabels
      rw [lookup_map_mk _ (fun l => maskFilter ((lookup g.labels l).getD []) (selMask g req)) l
        ((mem_dedup l req).mpr hlr)]
      simp [hm]
    · intro v hv
      have hlen : m.length = (selMask g req).length := by
        rw [selMask_length]; exact hwf.maskLen _ (lookup_eq_some_mem hm)
      exact maskFilter_rank m _ v hlen hv

/-- a selection is again a well-formed labelled graph in which every point carries a label -/
theorem select_wf_covered {α} {g g' : LGraph α} (hwf : WF g) {req : List String}
    (h : select g req = .ok g') : WF g' ∧ Covered g' := by
  obtain ⟨hk, _, hp, he, hl⟩ := select_ok hwf h
  refine ⟨⟨?_, ?_, ?_⟩, ?_⟩
  · intro p hp'
    rw [hl] at hp'
    unfold restrictLabels at hp'
    obtain ⟨l, hld, rfl⟩ := List.mem_map.mp hp'
    have hlr := (mem_dedup l req).mp hld
    have hs := (lookup_isSome_iff _ _).mpr (hk l hlr)
    obtain ⟨m, hm⟩ := Option.isSome_iff_exists.mp hs
    have hlen : m.length = (selMask g req).length := by
      rw [selMask_length]; exact hwf.maskLen _ (lookup_eq_some_mem hm)
    simp only [hm, Option.getD_some, hp]
    exact maskFilter_length_congr _ _ _ hlen (selMask_length g req).symm
  · rw [(select_labels_restricted hwf h).1]; exact dedup_nodup req
  · intro e hee
    obtain ⟨a, b⟩ := e
    rw [he] at hee
    obtain ⟨u, v, _, hu, hv, rfl, rfl⟩ := (mem_inducedEdges _ _ a b).mp hee
    rw [hp]
    exact ⟨rank_lt_of_kept _ _ (selMask_length g req).symm u hu,
           rank_lt_of_kept _ _ (selMask_length g req).symm v hv⟩
  · have hc := restrict_covered g hwf req
    rw [coveredB_iff] at hc
    intro i hi
    rw [hp] at hi
    rw [hl]
    exact hc i hi

/-! ### `with_labels` / `without_labels`: label order -/

/-- `with_labels`: the labels come back in the order of the request; when the request lists labels in
their original order (a sublist of the group's labels) that is the original order -/
theorem withLabels_order {α} {g g' : LGraph α} (hwf : WF g) {req : List String}
    (h : withLabels g req = .ok g') :
    g'.names = dedup req ∧ (req.Sublist g.names → g'.names = req ∧ g'.names.Sublist g.names) := by
  have hn := (select_labels_restricted hwf h).1
  refine ⟨hn, fun hs => ?_⟩
  have hnd : req.Nodup := hs.nodup hwf.names
  rw [hn, dedup_of_nodup req hnd]
  exact ⟨rfl, hs⟩

/-- repaired `without_labels`: exactly the labels not excluded, **in their original order** -/
theorem withoutLabels_order {α} {g g' : LGraph α} (hwf : WF g) {excl : List String}
    (h : withoutLabels g excl = .ok g') :
    g'.names = g.names.filter (fun l => !excl.contains l) ∧ g'.names.Sublist g.names := by
  have hn := (select_labels_restricted hwf h).1
  have hnd : (g.names.filter fun l => !excl.contains l).Nodup := hwf.names.filter _
  rw [hn, dedup_of_nodup _ hnd]
  exact ⟨rfl, List.filter_sublist⟩

/-- repaired `without_labels` keeps a point iff it lies under a label that is not excluded -/
theorem withoutLabels_points {α} (g : LGraph α) (hwf : WF g) (excl : List String) (v : Nat) :
    (selMask g (g.names.filter fun l => !excl.contains l))[v]? = some true ↔
      v < g.pts.length ∧ ∃ p ∈ g.labels, p.1 ∉ excl ∧ p.2[v]? = some true := by
  rw [selMask_spec]
  constructor
  · rintro ⟨hv, l, hl, m, hm, hmv⟩
    simp only [List.mem_filter, Bool.not_eq_true', List.contains_eq_mem, decide_eq_false_iff_not] at hl
    exact ⟨hv, (l, m), lookup_eq_some_mem hm, hl.2, hmv⟩
  · rintro ⟨hv, p, hp, hpe, hpv⟩
    refine ⟨hv, p.1, ?_, p.2, lookup_of_mem_nodup hwf.names hp, hpv⟩
    simp only [List.mem_filter, Bool.not_eq_true', List.contains_eq_mem, decide_eq_false_iff_not]
    exact ⟨List.mem_map_of_mem (f := Prod.fst) hp, hpe⟩

/-! the behaviour coded before the repair: label order = set iteration order -/

def demo : LGraph Nat :=
  { pts := [10, 11, 12, 13, 14], edges := [(0, 1), (1, 2), (2, 3), (3, 4), (0, 4)],
    labels := [("a", [true, true, false, false, false]), ("b", [false, true, true, false, false]),
               ("c", [false, false, true, true, true]), ("d", [true, false, false, false, true])] }

theorem demo_wf : WF demo :=
  ⟨by decide, by decide, by decide⟩

theorem demo_covered : Covered demo := by
  have : coveredB demo.pts.length demo.labels = true := by decide
  exact (coveredB_iff _ _).mp this

/-- REFUTED for the code as found: with an admissible iteration order (a permutation, here the reverse)
`without_labels` returns the remaining labels out of their original order -/
theorem withoutLabelsCoded_order_refuted :
    ∃ (order : List String → List String), (∀ l, (order l).Perm l) ∧
      ∃ g', withoutLabelsCoded order demo ["b"] = .ok g' ∧ g'.names = ["d", "c", "a"] ∧
        ¬ g'.names.Sublist demo.names :=
  ⟨List.reverse, fun l => List.reverse_perm l, _, rfl, by decide, by decide⟩

/-- REFUTED for the code as found: two admissible iteration orders (two hash seeds) give two different
results for the same call — not "identical from run to run" -/
theorem withoutLabelsCoded_run_to_run :
    ∃ (o₁ o₂ : List String → List String), (∀ l, (o₁ l).Perm l) ∧ (∀ l, (o₂ l).Perm l) ∧
      ∃ g₁ g₂, withoutLabelsCoded o₁ demo ["b"] = .ok g₁ ∧ withoutLabelsCoded o₂ demo ["b"] = .ok g₂ ∧
        g₁.names ≠ g₂.names :=
  ⟨id, List.reverse, fun _ => List.Perm.refl _, fun l => List.reverse_perm l, _, _, rfl, rfl, by decide⟩

/-- what the coded `without_labels` still guarantees under any iteration order: the *set* of labels -/
theorem withoutLabelsCoded_names_perm {α} {g g' : LGraph α} (hwf : WF g) {excl : List String}
    (order : List String → List String) (ho : ∀ l, (order l).Perm l)
    (h : withoutLabelsCoded order g excl = .ok g') :
    g'.names.Perm (g.names.filter fun l => !excl.contains l) := by
  have hn := (select_labels_restricted hwf h).1
  have hp := ho (g.names.filter fun l => !excl.contains l)
  have hnd : (order (g.names.filter fun l => !excl.contains l)).Nodup :=
    hp.nodup_iff.mpr (hwf.names.filter _)
  rw [hn, dedup_of_nodup _ hnd]
  exact hp

/-- the selected points and edges depend only on the *set* of requested labels (not on order or
repetition of the request): under any set iteration order the coded `without_labels` still selects the
right points and edges — only the label order is at its mercy -/
theorem selMask_congr {α} (g : LGraph α) (req req' : List String) (h : ∀ l, l ∈ req ↔ l ∈ req') :
    selMask g req = selMask g req' := by
  apply List.ext_getElem (by simp [selMask_length])
  intro v h1 h2
  have e1 := selMask_spec g req v
  have e2 := selMask_spec g req' v
  rw [List.getElem?_eq_getElem h1] at e1
  rw [List.getElem?_eq_getElem h2] at e2
  simp only [Option.some.injEq] at e1 e2
  have : ((selMask g req)[v] = true ↔ (selMask g req')[v] = true) := by
    rw [e1, e2]
    constructor
    · rintro ⟨hv, l, hl, r⟩; exact ⟨hv, l, (h l).mp hl, r⟩
    · rintro ⟨hv, l, hl, r⟩; exact ⟨hv, l, (h l).mpr hl, r⟩
  exact Bool.eq_iff_iff.mpr this

theorem withoutLabelsCoded_points_edges {α} {g g₁ g₂ : LGraph α} (hwf : WF g) {excl : List String}
    (order : List String → List String) (ho : ∀ l, (order l).Perm l)
    (h₁ : withoutLabelsCoded order g excl = .ok g₁) (h₂ : withoutLabels g excl = .ok g₂) :
    g₁.pts = g₂.pts ∧ g₁.edges = g₂.edges := by
  obtain ⟨_, _, hp₁, he₁, _⟩ := select_ok hwf h₁
  obtain ⟨_, _, hp₂, he₂, _⟩ := select_ok hwf h₂
  have := selMask_congr g _ _ (fun l => (ho (g.names.filter fun l => !excl.contains l)).mem_iff (a := l))
  rw [hp₁, hp₂, he₁, he₂, this]
  exact ⟨rfl, rfl⟩

/-! ### `get_label` -/

/-- `get_label l` returns exactly the points under `l` and the edges among them -/
theorem getLabel_exact {α} {g : LGraph α} (hwf : WF g) {l : String} {ps : List α} {es : List (Nat × Nat)}
    (h : getLabel g l = .ok (ps, es)) :
    ∃ m, lookup g.labels l = some m ∧ ps = maskFilter g.pts m ∧ es = inducedEdges m g.edges ∧
      (∀ v, m[v]? = some true → ps[rank m v]? = g.pts[v]?) ∧
      (∀ j, j < ps.length → ∃ v, m[v]? = some true ∧ rank m v = j) := by
  unfold getLabel at h
  split at h
  · cases h
  · rename_i m hm
    split at h
    · cases h
    · have hlen : g.pts.length = m.length := (hwf.maskLen _ (lookup_eq_some_mem hm)).symm
      rw [fromMask_eq _ _ _ hlen hwf.edgesIn] at h
      injection h with h
      injection h with h1 h2
      subst h1; subst h2
      exact ⟨m, hm, rfl, rfl, fun v hv => maskFilter_rank _ _ v hlen hv,
             fun j hj => maskFilter_surj _ _ hlen j hj⟩

theorem getLabel_unknown {α} (g : LGraph α) (l : String) (h : l ∉ g.names) : getLabel g l = .error .key := by
  unfold getLabel
  have := (lookup_isNone_iff g.labels l).mpr h
  cases hl : lookup g.labels l <;> simp_all

/-! ### `remove_label` -/

/-- `remove_label` either raises or returns the same points and edges with that one label gone, the others
untouched and in their original order, and every point still labelled (the check cannot be bypassed) -/
theorem removeLabel_spec {α} {g g' : LGraph α} (hwf : WF g) {l : String}
    (h : removeLabel g l = .ok g') :
    g'.pts = g.pts ∧ g'.edges = g.edges ∧ l ∈ g.names ∧
    g'.names = g.names.filter (· != l) ∧ g'.names.Sublist g.names ∧
    (∀ l', l' ≠ l → lookup g'.labels l' = lookup g.labels l') ∧ lookup g'.labels l = none ∧
    WF g' ∧ Covered g' := by
  unfold removeLabel at h
  split at h
  · cases h
  · rename_i m hm
    dsimp only at h
    split at h
    · rename_i hc
      injection h with h
      subst h
      have hnames : (LGraph.names { g with labels := g.labels.filter fun p => p.1 != l }) =
          g.names.filter (· != l) := names_filter_ne g.labels l
      refine ⟨rfl, rfl, ?_, hnames, ?_, ?_, ?_, ⟨?_, ?_, hwf.edgesIn⟩, (coveredB_iff _ _).mp hc⟩
      · exact (lookup_isSome_iff _ _).mp (by simp [hm])
      · rw [hnames]; exact List.filter_sublist
      · intro l' hne
        simp [lookup_filter_ne, hne]
      · simp [lookup_filter_ne]
      · intro p hp
        exact hwf.maskLen p (List.mem_filter.mp hp).1
      · rw [hnames]; exact hwf.names.filter _
    · cases h

/-- removing a label that would leave a point unlabelled is refused -/
theorem removeLabel_checks_cover {α} (g : LGraph α) (l : String) (hl : l ∈ g.names)
    (hu : ¬ ∀ i, i < g.pts.length → ∃ p ∈ g.labels, p.1 ≠ l ∧ p.2[i]? = some true) :
    removeLabel g l = .error .value := by
  unfold removeLabel
  have hs := (lookup_isSome_iff _ _).mpr hl
  obtain ⟨m, hm⟩ := Option.isSome_iff_exists.mp hs
  simp only [hm]
  have : coveredB g.pts.length (g.labels.filter fun p => p.1 != l) = false := by
    apply Bool.eq_false_iff.mpr
    intro hc
    rw [coveredB_iff] at hc
    apply hu
    intro i hi
    obtain ⟨p, hp, hpi⟩ := hc i hi
    have := List.mem_filter.mp hp
    exact ⟨p, this.1, by simpa using this.2, hpi⟩
  simp [this]

/-! ### `add_label` -/

theorem normAll_mem {n : Nat} {idx : List Int} {js : List Nat} (h : normAll n idx = some js) :
    ∀ j ∈ js, j < n := by
  induction idx generalizing js with
  | nil => simp [normAll] at h; subst h; simp
  | cons i is ih =>
    simp only [normAll] at h
    split at h
    · rename_i j js' hj hjs
      injection h with h
      subst h
      intro k hk
      rcases List.mem_cons.mp hk with rfl | hk
      · unfold normIdx at hj
        split at hj
        · injection hj with hj; omega
        · split at hj
          · injection hj with hj; omega
          · cases hj
      · exact ih hjs k hk
    · cases h

/-- repaired `add_label`: same points and edges; the label `l` now masks exactly the given indices; all
other labels untouched and in their original order (a new name is appended, an existing name keeps its
place); every point still labelled -/
theorem addLabel_spec {α} {g g' : LGraph α} (hwf : WF g) {l : String} {idx : List Int}
    (h : addLabel g l idx = .ok g') :
    g'.pts = g.pts ∧ g'.edges = g.edges ∧
    (∃ js, normAll g.pts.length idx = some js ∧ lookup g'.labels l = some (indexMask g.pts.length js)) ∧
    (∀ l', l' ≠ l → lookup g'.labels l' = lookup g.labels l') ∧
    g'.names = (if l ∈ g.names then g.names else g.names ++ [l]) ∧
    WF g' ∧ Covered g' := by
  unfold addLabel at h
  split at h
  · cases h
  · rename_i g₁ hg₁
    split at h
    · rename_i hc
      injection h with h
      subst h
      unfold addLabelCoded at hg₁
      split at hg₁
      · cases hg₁
      · rename_i js hjs
        injection hg₁ with hg₁
        subst hg₁
        have hnames : LGraph.names { g with labels := setLabel g.labels l (indexMask g.pts.length js) } =
            if l ∈ g.names then g.names else g.names ++ [l] := names_setLabel _ _ _
        refine ⟨rfl, rfl, ⟨js, hjs, by simp [lookup_setLabel]⟩, ?_, hnames, ⟨?_, ?_, hwf.edgesIn⟩,
          (coveredB_iff _ _).mp hc⟩
        · intro l' hne; simp [lookup_setLabel, hne]
        · intro p hp
          rcases mem_setLabel hp with rfl | hp
          · exact indexMask_length _ _
          · exact hwf.maskLen p hp
        · rw [hnames]
          split
          · exact hwf.names
          · rename_i hnot
            exact List.nodup_append.mpr ⟨hwf.names, by simp, by
              intro a ha b hb; simp at hb; subst hb; rintro rfl; exact hnot ha⟩
    · cases h

def demo2 : LGraph Nat :=
  { pts := [10, 11, 12, 13, 14], edges := [(0, 1), (1, 2), (3, 4)],
    labels := [("a", [true, true, true, false, false]), ("b", [false, false, false, true, true])] }

theorem demo2_wf : WF demo2 := ⟨by decide, by decide, by decide⟩

theorem demo2_covered : Covered demo2 := by
  have : coveredB demo2.pts.length demo2.labels = true := by decide
  exact (coveredB_iff _ _).mp this

/-- REFUTED for the code as found: `add_label` on an existing name replaces its mask without the coverage
check and returns a group with unlabelled points (points 0 and 2 of the probe of DESIGN section 7 #14) -/
theorem addLabelCoded_breaks_cover :
    WF demo2 ∧ Covered demo2 ∧
    addLabelCoded demo2 "a" [1] = .ok { demo2 with labels :=
      [("a", [false, true, false, false, false]), ("b", [false, false, false, true, true])] } ∧
    ¬ Covered ({ demo2 with labels :=
      [("a", [false, true, false, false, false]), ("b", [false, false, false, true, true])] } : LGraph Nat) := by
  refine ⟨demo2_wf, demo2_covered, by decide, ?_⟩
  intro hc
  have := (coveredB_iff _ _).mpr hc
  revert this
  decide

/-- the repaired `add_label` refuses that call -/
theorem addLabel_refuses_uncover : addLabel demo2 "a" [1] = .error .value := by decide

/-! ### the invariant over operation sequences -/

theorem step_wf_covered {α} {g g' : LGraph α} (hwf : WF g) (o : Op) (h : step g o = .ok g') :
    WF g' ∧ Covered g' := by
  cases o with
  | withL r => exact select_wf_covered hwf h
  | withoutL e => exact select_wf_covered hwf h
  | add l i => have := addLabel_spec hwf h; exact ⟨this.2.2.2.2.2.1, this.2.2.2.2.2.2⟩
  | remove l => have := removeLabel_spec hwf h; exact ⟨this.2.2.2.2.2.2.2.1, this.2.2.2.2.2.2.2.2⟩

/-- **every point always carries at least one label**: for every well-formed covered labelled graph and
every sequence of operations (selection with / without labels, add, remove) that all succeed, the final
group — and every intermediate one — is well formed and covered -/
theorem run_invariant {α} (ops : List Op) : ∀ {g g' : LGraph α}, WF g → Covered g →
    run step g ops = .ok g' → WF g' ∧ Covered g' := by
  induction ops with
  | nil =>
    intro g g' hwf hc h
    simp only [run] at h
    injection h with h; subst h
    exact ⟨hwf, hc⟩
  | cons o os ih =>
    intro g g' hwf hc h
    simp only [run] at h
    split at h
    · cases h
    · rename_i g₁ hg₁
      obtain ⟨hwf₁, hc₁⟩ := step_wf_covered hwf o hg₁
      exact ih hwf₁ hc₁ h

/-- REFUTED for the code as found: a succeeding sequence that ends in a group with unlabelled points,
which a later selection of *all* labels then silently drops (4 of 5 points survive) -/
theorem runCoded_breaks_invariant :
    run (stepCoded id) demo2 [.add "c" [0], .add "a" [1]] = .ok { demo2 with labels :=
      [("a", [false, true, false, false, false]), ("b", [false, false, false, true, true]),
       ("c", [true, false, false, false, false])] } ∧
    ¬ Covered ({ demo2 with labels :=
      [("a", [false, true, false, false, false]), ("b", [false, false, false, true, true]),
       ("c", [true, false, false, false, false])] } : LGraph Nat) ∧
    (withLabels ({ demo2 with labels :=
      [("a", [false, true, false, false, false]), ("b", [false, false, false, true, true]),
       ("c", [true, false, false, false, false])] } : LGraph Nat) ["a", "b", "c"]).map (fun g => g.pts) =
      .ok [10, 11, 13, 14] := by
  refine ⟨by decide, ?_, by decide⟩
  intro hc
  have := (coveredB_iff _ _).mpr hc
  revert this
  decide

/-! ### labellers: pure re-indexing -/

theorem gather_map {α β} (f : α → β) (xs : List α) (ind : List Nat) :
    (gather xs ind).map f = gather (xs.map f) ind := by
  unfold gather
  induction ind with
  | nil => rfl
  | cons i is ih =>
    simp only [List.filterMap_cons, List.getElem?_map]
    cases xs[i]? <;> simp [ih]

theorem nodupB_iff {β} [BEq β] [LawfulBEq β] (l : List β) : nodupB l = true ↔ l.Nodup := by
  induction l with
  | nil => simp [nodupB]
  | cons x xs ih =>
    simp only [nodupB, Bool.and_eq_true, Bool.not_eq_true', List.nodup_cons, ih]
    constructor
    · rintro ⟨h1, h2⟩
      exact ⟨by simpa using h1, h2⟩
    · rintro ⟨h1, h2⟩
      exact ⟨by simpa using h1, h2⟩

theorem gather_in_range {α} (xs : List α) (ind : List Nat) (h : ∀ i ∈ ind, i < xs.length) :
    (gather xs ind).length = ind.length ∧ ∀ j, j < ind.length → (gather xs ind)[j]? = xs[ind[j]!]? := by
  unfold gather
  induction ind with
  | nil => simp
  | cons i is ih =>
    have hi : i < xs.length := h i List.mem_cons_self
    obtain ⟨ih1, ih2⟩ := ih (fun k hk => h k (List.mem_cons_of_mem _ hk))
    simp only [List.filterMap_cons, List.getElem?_eq_getElem hi, List.length_cons, ih1, true_and]
    intro j hj
    cases j with
    | zero => simp [List.getElem?_eq_getElem hi]
    | succ j => simpa using ih2 j (by omega)

/-- a mapped `Except` result -/
def mapPts {α β} (f : α → β) (g : LGraph α) : LGraph β :=
  { pts := g.pts.map f, edges := g.edges, labels := g.labels }

/-- **rejects input of the wrong size** and accepts every input of the expected size -/
theorem labeller_size {α} (t : Labeller) (xs : List α) :
    (xs.length ≠ t.nExpected → t.apply xs = .error .labelling) ∧
    (xs.length = t.nExpected → ∃ g, t.apply xs = .ok g) := by
  unfold Labeller.apply
  constructor
  · intro h; simp [h]
  · intro h; simp [h]

/-- **commutes with any transform of the input** (any function on points, not only affine maps) -/
theorem labeller_commutes {α β} (t : Labeller) (f : α → β) (xs : List α) :
    t.apply (xs.map f) = (t.apply xs).map (mapPts f) := by
  unfold Labeller.apply
  simp only [List.length_map]
  split
  · rfl
  · simp [Except.map, mapPts, gather_map]

/-- **output points are distinct input points**: output `j` is input `ind[j]`, all positions exist and
no input position is used twice -/
theorem labeller_reindexes {α} (t : Labeller) (hwf : labellerWF t = true) (xs : List α) (g : LGraph α)
    (h : t.apply xs = .ok g) :
    g.pts.length = t.ind.length ∧
    (∀ j, j < t.ind.length → t.ind[j]! < xs.length ∧ g.pts[j]? = xs[t.ind[j]!]?) ∧
    t.ind.Nodup := by
  simp only [labellerWF, Bool.and_eq_true] at hwf
  obtain ⟨⟨⟨⟨⟨hr, hn⟩, _⟩, _⟩, _⟩, _⟩ := hwf
  unfold Labeller.apply at h
  split at h
  · cases h
  · rename_i hlen
    simp only [bne_iff_ne, ne_eq, Decidable.not_not] at hlen
    injection h with h
    subst h
    have hin : ∀ i ∈ t.ind, i < xs.length := by
      intro i hi
      have := List.all_eq_true.mp hr i hi
      simp only [decide_eq_true_eq] at this
      omega
    obtain ⟨h1, h2⟩ := gather_in_range xs t.ind hin
    refine ⟨h1, ?_, (nodupB_iff _).mp hn⟩
    intro j hj
    refine ⟨?_, h2 j hj⟩
    have : t.ind[j]! = t.ind[j] := by simp [hj]
    rw [this]
    exact hin _ (List.getElem_mem hj)

/-- **every output point is labelled**; masks are as long as the output, label names distinct -/
theorem labeller_all_labelled {α} (t : Labeller) (hwf : labellerWF t = true) (xs : List α) (g : LGraph α)
    (h : t.apply xs = .ok g) :
    Covered g ∧ (∀ p ∈ g.labels, p.2.length = g.pts.length) ∧ g.names.Nodup := by
  have hre := labeller_reindexes t hwf xs g h
  simp only [labellerWF, Bool.and_eq_true] at hwf
  obtain ⟨⟨⟨⟨⟨_, _⟩, hcov⟩, _⟩, _⟩, hnm⟩ := hwf
  unfold Labeller.apply at h
  split at h
  · cases h
  · injection h with h
    subst h
    refine ⟨?_, ?_, ?_⟩
    · intro i hi
      rw [hre.1] at hi
      have := List.all_eq_true.mp hcov i (List.mem_range.mpr hi)
      obtain ⟨p, hp, hpi⟩ := List.any_eq_true.mp this
      refine ⟨(p.1, indexMask t.ind.length p.2), List.mem_map.mpr ⟨p, hp, rfl⟩, ?_⟩
      exact (indexMask_get _ _ _).mpr ⟨hi, by simpa using hpi⟩
    · intro p hp
      obtain ⟨q, _, rfl⟩ := List.mem_map.mp hp
      simp only [indexMask_length]
      exact hre.1.symm
    · simp only [LGraph.names, List.map_map, Function.comp_def]
      exact (nodupB_iff _).mp hnm

/-- with in-range connectivity the output is a well-formed covered labelled graph: everything proved
about selection above applies to the output of a labeller -/
theorem labeller_output_wf {α} (t : Labeller) (hwf : labellerWF t = true) (he : labellerEdgesWF t = true)
    (xs : List α) (g : LGraph α) (h : t.apply xs = .ok g) : WF g ∧ Covered g := by
  obtain ⟨hc, hm, hn⟩ := labeller_all_labelled t hwf xs g h
  have hre := labeller_reindexes t hwf xs g h
  refine ⟨⟨hm, hn, ?_⟩, hc⟩
  unfold Labeller.apply at h
  split at h
  · cases h
  · injection h with h
    subst h
    intro e hee
    have := List.all_eq_true.mp he e hee
    simp only [Bool.and_eq_true, decide_eq_true_eq] at this
    show e.1 < (gather xs t.ind).length ∧ e.2 < (gather xs t.ind).length
    have hl : (gather xs t.ind).length = t.ind.length := hre.1
    rw [hl]; exact this

/-! ### non-vacuity: the hypotheses are satisfiable on concrete non-trivial values -/

example : withLabels demo ["c", "a"] = .ok
    { pts := [10, 11, 12, 13, 14], edges := [(0, 1), (1, 2), (2, 3), (3, 4), (0, 4)],
      labels := [("c", [false, false, true, true, true]), ("a", [true, true, false, false, false])] } := by
  decide
example : withoutLabels demo ["a", "d"] = .ok
    { pts := [11, 12, 13, 14], edges := [(0, 1), (1, 2), (2, 3)],
      labels := [("b", [true, true, false, false]), ("c", [false, true, true, true])] } := by decide
example : getLabel demo "d" = .ok ([10, 14], [(0, 1)]) := by decide
example : removeLabel demo "d" = .ok { demo with labels := demo.labels.take 3 } := by decide
example : removeLabel demo "c" = .error .value := by decide
example : withLabels demo ["zz"] = .error .value := by decide
example : withLabels demo [] = .error .index := by decide
example : withoutLabels demo ["d", "c", "b", "a"] = .error .index := by decide
example : (addLabel demo "e" [-1, 0]).map LGraph.names = .ok ["a", "b", "c", "d", "e"] := by decide
example : (run step demo [.add "e" [2, 3], .withoutL ["c"], .remove "b", .withL ["d", "a"]]).map
    (fun g => (g.pts, g.names)) = .ok ([10, 11, 14], ["d", "a"]) := by decide

def demoLabeller : Labeller :=
  { nExpected := 5, ind := [4, 0, 2], labels := [("x", [0, 1]), ("y", [1, 2])], edges := [(0, 1), (1, 2)] }
example : labellerWF demoLabeller = true ∧ labellerEdgesWF demoLabeller = true := by decide
example : (demoLabeller.apply [10, 11, 12, 13, 14]).map LGraph.pts = .ok [14, 10, 12] := by decide
example : demoLabeller.apply [10, 11, 12, 13] = .error .labelling := by decide

end MenpoModel.C15
