/-
C18 — features agree on arrays and images and keep annotations attached.  Property theorems (umbrella module).

  Props/C18Base.lean     Part A the decorators (generic in the feature), Part B the normalisers over ℚ,
                         Part C who writes where
  Props/C18Kernels.lean  Part D the numerical kernels inside the model: gradient, no_op, IGO, ES, gaussian_filter
  Props/C18Seq.lean      Part E feature of feature: invariants of arbitrary sequences of decorated features
  Props/C18Resize.lean   Part F the size-changing branch in binary64: template extent, sampling positions, landmarks
  Props/C18Norm.lean     Part G the normalisers on degenerate data (single pixel, one masked pixel), idempotence
                         up to the sign of the scale
  Props/C18Plumb.lean    Part H the option plumbing of daisy (what reaches `_daisy`) and sum_channels
  (GenProps/C18Src.lean: the source text of the feature code, translated on every run, equals the Core definitions
   all of the above are about; GenProps/C18SrcProps.lean: the property theorems restated for the translated code)
-/
import MenpoModel.Props.C18Base
import MenpoModel.Props.C18Kernels
import MenpoModel.Props.C18Seq
import MenpoModel.Props.C18Resize
import MenpoModel.Props.C18Norm
import MenpoModel.Props.C18Plumb
import MenpoModel.Props.C18Real
