/-
C16 — exporter and importer agree on (format, compressed) for every file name.

The round-trip clauses of the property quantify over "multi-dot names": the file may be called
`scan.tar.gz.v2.pkl`, `a.gz.b.pkl`, `x.pkl.copy.ljson`, `y.jpg.png`, `U.PKL.GZ`.  Exporter and importer each parse the
name on their own (two dictionaries, two loops), and `export_pickle` additionally decides whether to gzip.  The
theorems here say, over *all* names (`List Char`, no bound on the number or the spelling of the suffix components):

  export_import_agree            whatever (extension, compressed) an exporter chooses for a name, the importer of that
                                 kind chooses the same for that name (so what is written is read by its own reader,
                                 and gzip is undone exactly when it was applied)
  decisions_agree_of_tables      the same for any pair of dictionaries that passes the decidable check `TablesOK`
                                 (instantiated at the regenerated live dictionaries in `GenProps.C16`)
  pickle_compressed_iff_name_ends_gz   a pickle is gzipped iff the lower-cased file name ends in `.gz` — components
                                 in the stem (`a.gz.b.pkl`, `scan.tar.gz.v2.pkl`) never matter
  pickle_extension_cases         an accepted pickle name is `.pkl` (plain) or `.pkl.gz` (gzipped), nothing else
  export_reader_matches          the reader chosen for the name is one that reads what the chosen writer writes
  dict_export_reaches_ljson_only a dictionary / LandmarkManager is only ever handed to the LJSON writer (the check in
                                 front of `_export` in export_landmark_file), and is then read by the LJSON importer
-/
import MenpoModel.Lemmas.C16Ext

namespace MenpoModel.C16

/-! ### the model tables satisfy the check -/

theorem tables_ok : ∀ k : Kind, TablesOK (exporterTable k) (importerTable k) (k == .pickle) = true := by
  intro k; cases k <;> decide +kernel

/-- `knownExts` (dictionary order, used by the guard model) and `exporterTable` (sorted, with callables) have the
same keys -/
theorem exporterTable_keys : ∀ k : Kind,
    ((knownExts k).all fun c => ((exporterTable k).map fun p => p.1.toList).contains c) = true ∧
    (((exporterTable k).map fun p => p.1.toList).all fun c => (knownExts k).contains c) = true := by
  intro k; cases k <;> decide +kernel

theorem parseExt_congr (K1 K2 : List (List Char)) (h : ∀ c, c ∈ K1 ↔ c ∈ K2) (name : List Char) :
    parseExt K1 name = parseExt K2 name := by
  unfold parseExt
  congr 1
  funext c
  have := h c
  by_cases h1 : c ∈ K1
  · simp [h1, this.1 h1]
  · have h2 : c ∉ K2 := fun h2 => h1 (this.2 h2)
    simp [h1, h2]

theorem exportDecision_eq (k : Kind) (name : List Char) :
    exportDecision k name = exportDecisionT (exporterTable k) (k == .pickle) name := by
  unfold exportDecision exportDecisionT
  rw [parseExt_congr (knownExts k) ((exporterTable k).map fun p => p.1.toList) _ name]
  intro c
  obtain ⟨h1, h2⟩ := exporterTable_keys k
  rw [List.all_eq_true] at h1 h2
  constructor
  · intro hc; simpa using h1 c hc
  · intro hc; simpa using h2 c hc

/-! ### agreement for any pair of dictionaries that passes `TablesOK` -/

/-- PROPERTY (multi-dot names, any dictionaries).  If the exporter dictionary `ex` and the importer dictionary `im`
pass the decidable check, then for every file name: whatever extension the exporter parses and whether it gzips is
exactly what the importer parses and whether it gunzips, and the importer callable is a reader of what the exporter
callable writes. -/
theorem decisions_agree_of_tables (ex im : List (String × String)) (isPickle : Bool)
    (hok : TablesOK ex im isPickle = true) (name : List Char) (d : List Char × Bool)
    (h : exportDecisionT ex isPickle name = some d) :
    importDecisionT im name = some d ∧
    ∃ x ∈ ex, ∃ i ∈ im, x.1.toList = d.1 ∧ i.1 = x.1 ∧ importerForT im name = some (d.1, i.2) ∧
      (readerOf x.2).contains i.2 = true := by
  unfold TablesOK at hok
  simp only [Bool.and_eq_true, List.all_eq_true, List.any_eq_true, Bool.or_eq_true, beq_iff_eq, bne_iff_ne,
    decide_eq_true_eq] at hok
  obtain ⟨⟨⟨h1, h2⟩, h3⟩, h4⟩ := hok
  unfold exportDecisionT at h
  cases hp : parseExt (ex.map fun p => p.1.toList) name with
  | none => simp [hp] at h
  | some e =>
    simp only [hp, Option.map_some, Option.some.injEq] at h
    subst h
    -- the exporter's entry
    have heE := parseExt_mem _ _ _ hp
    simp only [List.mem_map] at heE
    obtain ⟨x, hx, hxe⟩ := heE
    -- the importer parses the same extension
    have hI : parseExt (im.map fun p => p.1.toList) name = some e := by
      apply parseExt_agree _ _ _ _ name e hp
      · intro c hc
        simp only [List.mem_map] at hc ⊢
        obtain ⟨y, hy, rfl⟩ := hc
        obtain ⟨i, hi, hiy⟩ := h1 y hy
        exact ⟨i, hi, by rw [hiy]⟩
      · intro c hcI hcE
        simp only [List.mem_map] at hcI
        obtain ⟨i, hi, rfl⟩ := hcI
        rcases h2 i hi with ⟨y, hy, hyi⟩ | hd
        · exact absurd (List.mem_map.2 ⟨y, hy, by rw [hyi]⟩) hcE
        · exact hd
    -- the dictionary lookup
    have hmem : e ∈ im.map fun p => p.1.toList := parseExt_mem _ _ _ hI
    simp only [List.mem_map] at hmem
    obtain ⟨i0, hi0, hi0e⟩ := hmem
    cases hf : im.find? (fun p => p.1.toList == e) with
    | none =>
      rw [List.find?_eq_none] at hf
      exact absurd (by simpa using hi0e) (hf i0 hi0)
    | some i =>
      have hi : i ∈ im := List.mem_of_find?_eq_some hf
      have hie : i.1.toList = e := by simpa using List.find?_some hf
      have hix : i.1 = x.1 := String.toList_injective (by rw [hie, hxe])
      have h3' := h3 x hx i hi
      rcases h3' with hne | ⟨hgz, hrd⟩
      · exact absurd hix hne
      · have hfor : importerForT im name = some (e, i.2) := by
          unfold importerForT
          simp [hI, hf]
        refine ⟨?_, x, hx, i, hi, hxe, hix, hfor, hrd⟩
        unfold importDecisionT
        rw [hfor]
        simp only [Option.map_some, Option.some.injEq, Prod.mk.injEq, true_and]
        rw [← hxe]
        exact hgz

/-! ### menpo's dictionaries -/

/-- PROPERTY (multi-dot names).  For every exporter kind and EVERY file name (any number of dots, any case, suffix-like
components anywhere in the stem): if the exporter accepts the name, choosing extension `d.1` and gzip iff `d.2`, then
the importer of that kind chooses the same extension and gunzips iff `d.2`. -/
theorem export_import_agree (k : Kind) (name : List Char) (d : List Char × Bool)
    (h : exportDecision k name = some d) : importDecision k name = some d := by
  rw [exportDecision_eq] at h
  exact (decisions_agree_of_tables _ _ _ (tables_ok k) name d h).1

/-- the reader chosen for the name reads what the writer chosen for the name writes -/
theorem export_reader_matches (k : Kind) (name : List Char) (d : List Char × Bool)
    (h : exportDecision k name = some d) :
    ∃ x ∈ exporterTable k, ∃ r, x.1.toList = d.1 ∧ importerFor k name = some (d.1, r) ∧
      (readerOf x.2).contains r = true := by
  rw [exportDecision_eq] at h
  obtain ⟨_, x, hx, i, _, hxe, _, hfor, hrd⟩ := decisions_agree_of_tables _ _ _ (tables_ok k) name d h
  exact ⟨x, hx, i.2, hxe, hfor, hrd⟩

/-- an accepted pickle name is plain `.pkl` or gzipped `.pkl.gz` -/
theorem pickle_extension_cases (name : List Char) (d : List Char × Bool) (h : exportDecision .pickle name = some d) :
    d = (".pkl".toList, false) ∨ d = (".pkl.gz".toList, true) := by
  unfold exportDecision at h
  cases hp : parseExt (knownExts .pickle) name with
  | none => simp [hp] at h
  | some e =>
    simp only [hp, Option.map_some, Option.some.injEq] at h
    subst h
    have hm := parseExt_mem _ _ _ hp
    have : e = ".pkl".toList ∨ e = ".pkl.gz".toList := by
      simpa [knownExts, extTable] using hm
    rcases this with rfl | rfl
    · left; decide +kernel
    · right; decide +kernel

/-- PROPERTY (compression decision).  A pickle is written through gzip iff the lower-cased FILE NAME ends in `.gz` —
equivalently iff it ends in `.pkl.gz`.  A `.gz` (or `.pkl`, `.tar.gz` …) component elsewhere in the name is
irrelevant. -/
theorem pickle_compressed_iff_name_ends_gz (name : List Char) (d : List Char × Bool)
    (h : exportDecision .pickle name = some d) :
    (d.2 = true ↔ ".gz".toList <:+ name.map Char.toLower) ∧
    (d.2 = true ↔ ".pkl.gz".toList <:+ name.map Char.toLower) ∧
    (d.2 = false ↔ ".pkl".toList <:+ name.map Char.toLower) := by
  have hcases := pickle_extension_cases name d h
  unfold exportDecision at h
  cases hp : parseExt (knownExts .pickle) name with
  | none => simp [hp] at h
  | some e =>
    simp only [hp, Option.map_some, Option.some.injEq] at h
    have hsuf := parseExt_suffix _ _ _ hp
    have hd1 : d.1 = e := by rw [← h]
    -- two endings of one string: the shorter is an ending of the longer
    have key : ∀ a b : List Char, a <:+ name.map Char.toLower → b <:+ name.map Char.toLower →
        a.length ≤ b.length → a <:+ b := fun a b ha hb hl => List.suffix_of_suffix_length_le ha hb hl
    rcases hcases with hc | hc
    · -- plain: the name ends in `.pkl`, hence not in `.gz`
      have he : e = ".pkl".toList := by rw [← hd1, hc]
      rw [he] at hsuf
      rw [hc]
      refine ⟨⟨by simp, ?_⟩, ⟨by simp, ?_⟩, ⟨fun _ => hsuf, fun _ => rfl⟩⟩
      · intro hgz
        exact absurd (key _ _ hgz hsuf (by decide)) (by decide +kernel)
      · intro hgz
        exact absurd (key _ _ hsuf hgz (by decide)) (by decide +kernel)
    · have he : e = ".pkl.gz".toList := by rw [← hd1, hc]
      rw [he] at hsuf
      rw [hc]
      have hgz : ".gz".toList <:+ name.map Char.toLower :=
        List.IsSuffix.trans (by decide +kernel : ".gz".toList <:+ ".pkl.gz".toList) hsuf
      refine ⟨⟨fun _ => hgz, fun _ => rfl⟩, ⟨fun _ => hsuf, fun _ => rfl⟩, ⟨by simp, ?_⟩⟩
      intro hpkl
      exact absurd (key _ _ hpkl hsuf (by decide)) (by decide +kernel)

/-! ### `export_landmark_file` -/

theorem pySuffix_suffix (name : List Char) : pySuffix name <:+ name := by
  unfold pySuffix
  simp only
  split
  · exact List.drop_suffix _ _
  · exact List.nil_suffix

theorem parseAndValidate_some (known : List (List Char)) (ue : Option (List Char)) (name e : List Char)
    (h : parseAndValidate known ue name = some e) : parseExt known name = some e ∧ (ue = none ∨ ue = some e) := by
  unfold parseAndValidate at h
  cases hp : parseExt known name with
  | none => simp [hp] at h
  | some e' =>
    simp only [hp] at h
    split at h
    · simp at h
    · rename_i hc
      simp only [Option.some.injEq] at h
      subst h
      refine ⟨rfl, ?_⟩
      cases ue with
      | none => exact Or.inl rfl
      | some u =>
        right
        by_cases hu : some u = some e'
        · exact hu
        · exact absurd ⟨by simp, hu⟩ hc

/-- PROPERTY (landmark export, the front check).  A dictionary of groups / a `LandmarkManager` is only ever handed to
the LJSON writer: whatever the file name and the explicit extension, if `export_landmark_file` accepts a multi-group
object then the exporter chosen is `.ljson` (never `.pts`, which can hold one point cloud only), the name ends in
`.ljson` literally, and the importer will choose `.ljson` too. -/
theorem dict_export_reaches_ljson_only (ue : Option (List Char)) (name e : List Char)
    (h : exportLandmarkDecision true ue name = some e) :
    e = ".ljson".toList ∧ ".ljson".toList <:+ name ∧ importDecision .landmark name = some (".ljson".toList, false) := by
  unfold exportLandmarkDecision at h
  split at h
  · simp at h
  · rename_i hc
    have hsuf : pySuffix name = ".ljson".toList := by
      by_cases hs : pySuffix name = ".ljson".toList
      · exact hs
      · exact absurd ⟨rfl, Or.inr hs⟩ hc
    have hname : ".ljson".toList <:+ name := by rw [← hsuf]; exact pySuffix_suffix name
    obtain ⟨hp, _⟩ := parseAndValidate_some _ _ _ _ h
    have hmem := parseExt_mem _ _ _ hp
    have hes := parseExt_suffix _ _ _ hp
    have hlow : ".ljson".toList <:+ name.map Char.toLower := by
      have := hname.map Char.toLower
      simpa using this
    have he : e = ".ljson".toList := by
      have : e = ".ljson".toList ∨ e = ".pts".toList := by simpa [knownExts, extTable] using hmem
      rcases this with h1 | h1
      · exact h1
      · exfalso
        rw [h1] at hes
        exact absurd (List.suffix_of_suffix_length_le hes hlow (by decide)) (by decide +kernel)
    refine ⟨he, hname, ?_⟩
    have hx : exportDecision .landmark name = some (".ljson".toList, false) := by
      unfold exportDecision
      rw [hp, he]
      rfl
    exact export_import_agree .landmark name _ hx

/-- a single shape goes wherever the (case-insensitive) extension parser says; the front check does not apply -/
theorem single_export_is_parse (ue : Option (List Char)) (name : List Char) :
    exportLandmarkDecision false ue name = parseAndValidate (knownExts .landmark) ue name := by
  simp [exportLandmarkDecision]

example : exportLandmarkDecision true none "a.pts.ljson".toList = some ".ljson".toList ∧
    exportLandmarkDecision true none "a.LJSON".toList = none ∧              -- the literal comparison
    exportLandmarkDecision false none "a.LJSON".toList = some ".ljson".toList ∧
    exportLandmarkDecision true none "a.pts".toList = none ∧
    exportLandmarkDecision true (some ".pts".toList) "a.ljson".toList = none ∧
    exportLandmarkDecision false (some ".pts".toList) "a.ljson".toList = none ∧
    exportLandmarkDecision true none "..ljson".toList = none ∧
    exportLandmarkDecision true (some ".ljson".toList) "x.tar.gz.ljson".toList = some ".ljson".toList := by
  decide +kernel

/-! ### non-vacuity and the names of the brief -/

example : exportDecision .pickle "scan.tar.gz.v2.pkl".toList = some (".pkl".toList, false) ∧
    exportDecision .pickle "a.gz.b.pkl".toList = some (".pkl".toList, false) ∧
    exportDecision .pickle "x.gz.PKL.Gz".toList = some (".pkl.gz".toList, true) ∧
    exportDecision .pickle "a.pkl.gz.pkl".toList = some (".pkl".toList, false) ∧
    exportDecision .pickle "a.pkl.gz.gz".toList = none ∧
    exportDecision .landmark "x.pkl.copy.ljson".toList = some (".ljson".toList, false) ∧
    exportDecision .landmark "x.pts.GZ.LJson".toList = some (".ljson".toList, false) ∧
    exportDecision .image "y.jpg.png".toList = some (".png".toList, false) ∧
    exportDecision .image "y.pkl.gz".toList = none := by decide +kernel

example : importDecision .pickle "a.gz.b.pkl".toList = some (".pkl".toList, false) ∧
    importDecision .pickle "U.PKL.GZ".toList = some (".pkl.gz".toList, true) ∧
    importerFor .image "y.jpg.png".toList = some (".png".toList, "pillow_importer") ∧
    importerFor .landmark "x.pkl.copy.ljson".toList = some (".ljson".toList, "ljson_importer") := by decide +kernel

/-- the check is not trivially true: a dictionary pair in which the importer knows a two-suffix extension the exporter
does not is rejected (the importer would prefer `.tar.pkl` where the exporter wrote `.pkl`), and so is a gzip
importer behind a plain extension -/
example : TablesOK [(".pkl", "pickle_exporter")] [(".pkl", "pickle_importer"), (".tar.pkl", "pickle_importer")] true = false ∧
    TablesOK [(".pkl", "pickle_exporter")] [(".pkl", "pickle_gzip_importer")] true = false ∧
    TablesOK [(".pkl", "pickle_exporter")] [(".pkl", "pickle_importer")] true = true := by decide +kernel

end MenpoModel.C16
