/-
C02 — "mutates nothing" for the methods as the source states them WHEN THE CALL RAISES.  Core Lean only.

The heap theorems of Props/C02Base.lean … speak of calls that return.  A transform's `_apply` may raise (batch_size ≤ 0:
ValueError from `range` / `np.vstack`; `WithDims` with an index out of range: IndexError; a point outside the domain of
a piecewise-affine transform; anything else): `Transform.apply` then raises too, part-way through the in-place pass on
its private copy.  Here the closure is ARBITRARY (`Fn = Arr → Except Err Arr`) and so is the outcome:

  `h_inplace_frame`        whatever the closure does and however the in-place pass of the source ends, on a tree laid out
                           in `[lo, hi)` it writes only `points` of shape objects of that tree (and allocates)
  `h_apply_frame_any`      `x._transform(t)` of the source, returning OR raising: no cell that existed before the call
                           is written — the input shape, its landmark manager, its groups, their arrays, the transform
  `h_apply_raise_intact`   … so after a raising call the input still holds the shape it held
-/
import MenpoModel.Props.C02SrcH
import MenpoModel.Props.C02Src

namespace MenpoModel.C02

/-- what the in-place pass may write, for any closure and any outcome -/
def HFrameSpec (ap : Fn) (rec : Val → Fn → HM Val) : Prop :=
  ∀ (s : Shape) (h : Heap) (lo hi : Nat) (v : Val) (h' : Heap) (r : Except Err Val),
    RepIn h s lo hi v → rec v ap h = (h', r) → Frame lo hi h h'

theorem hLoop_frame (ap : Fn) (rec : Val → Fn → HM Val) (hrec : HFrameSpec ap rec) :
    ∀ (gs : Groups) (gvs : Slots) (lo hi : Nat) (h h' : Heap) (r : Except Err Unit),
      RepGIn h gs lo hi gvs →
      HM.forLoop () (gvs.map Prod.snd) (fun _ it => HM.bind (rec it ap) fun _ => HM.ok ()) h = (h', r) →
      Frame lo hi h h'
  | .nil, gvs, lo, hi, h, h', r, rg, hrun => by
    unfold RepGIn at rg
    obtain ⟨rfl, _⟩ := rg
    simp only [List.map_nil, HM.forLoop, HM.ok, Prod.mk.injEq] at hrun
    obtain ⟨rfl, _⟩ := hrun
    exact Frame.refl _ _ _
  | .cons n g rest, gvs, lo, hi, h, h', r, rg, hrun => by
    unfold RepGIn at rg
    obtain ⟨v, t, m, rfl, h2, h3⟩ := rg
    have hlo : lo < m := RepIn.le g lo m v h2
    have hhi : m ≤ hi := RepGIn.le rest m hi t h3
    simp only [List.map_cons, HM.forLoop, HM.bind] at hrun
    rcases hr : rec v ap h with ⟨h1, r1⟩
    have f1 : Frame lo m h h1 := hrec g h lo m v h1 r1 h2 hr
    rw [hr] at hrun
    cases r1 with
    | error e =>
      simp only [Prod.mk.injEq] at hrun
      obtain ⟨rfl, _⟩ := hrun
      exact f1.mono (Nat.le_refl _) hhi
    | ok u =>
      simp only [HM.ok] at hrun
      have h3' : RepGIn h1 rest m hi t := RepGIn.frame f1 rest m hi t (.inl (Nat.le_refl _)) h3
      have f2 := hLoop_frame ap rec hrec rest t m hi h1 h' r h3' hrun
      exact (f1.mono (Nat.le_refl _) hhi).trans (f2.mono (Nat.le_of_lt hlo) (Nat.le_refl _))

/-- `self._transform_self_inplace(t)` on a point cloud object: the closure raises (nothing written) or its result is
allocated and `points` of this object is rebound -/
theorem hSelf_frame (ap : Fn) {h h' : Heap} {a p : Nat} {c : SCls} {fs : Slots} {x : Arr} {r : Except Err Val}
    (ha : h[a]? = some (.obj (.shape c) fs)) (hp : fs.lookup "points" = some (.ref p)) (hpx : h[p]? = some (.arr x))
    (hrun : hSelf coreHMethods expectedDispatch (.ref a) ap h = (h', r)) : Frame a (a + 1) h h' := by
  simp only [hSelf, HM.bind, clsOf, ha, supSelf_shape, chm_pcSelf, corePcSelfH, getAttr, hp, callFn, hpx] at hrun
  cases hy : ap x with
  | error e =>
    rw [hy] at hrun
    simp only [Prod.mk.injEq] at hrun
    obtain ⟨rfl, _⟩ := hrun
    exact Frame.refl _ _ _
  | ok y =>
    rw [hy] at hrun
    have hal : a < h.length := get_lt ha
    have hget : (h ++ [Cell.arr y])[a]? = some (.obj (.shape c) fs) := by
      rw [List.getElem?_append_left hal]; exact ha
    simp only [setAttr, hget, HM.ok, Prod.mk.injEq] at hrun
    obtain ⟨rfl, _⟩ := hrun
    obtain ⟨h'', e2, f2, _⟩ := selfInplace_spec (fun _ => y) ha hp hpx
    simp only [selfInplace, ha, hp, hpx, Except.ok.injEq] at e2
    rw [e2]; exact f2

/-- the in-place pass of the source with ANY closure, ending in ANY way, writes only inside the tree it walks -/
theorem h_inplace_frame (ap : Fn) : ∀ k, HFrameSpec ap (hInplace coreHMethods expectedDispatch k) := by
  intro k
  induction k with
  | zero =>
    intro s h lo hi v h' r _ hrun
    simp only [hInplace, HM.err, Prod.mk.injEq] at hrun
    obtain ⟨rfl, _⟩ := hrun
    exact Frame.refl _ _ _
  | succ k ih =>
    intro s h lo hi v h' r rin hrun
    cases s with
    | mk c x gs ex =>
      rw [repIn_iff] at rin
      obtain ⟨a, fs, p, m0, m, rfl, q1, q2, q3, q4, ha, hp, hpx, hx, hlab, hl⟩ := rin
      simp only [hInplace, HM.bind, clsOf, ha, supInplace_shape, chm_shapeInplace, coreShapeInplaceH,
        coreHasLandmarksH_eq ha] at hrun
      -- the self stage, from any heap `h1` that kept the object and its points array
      have selfStep : ∀ (h1 : Heap), Frame m0 m h h1 →
          hSelf coreHMethods expectedDispatch (.ref a) ap h1 = (h', r) → Frame lo hi h h' := by
        intro h1 f1 hs
        have ha1 : h1[a]? = some (.obj (.shape c) fs) := f1.keep_out ha (.inr q3)
        have hpx1 : h1[p]? = some (.arr x) := f1.keep hpx (fun _ _ hh => by cases hh)
        have f2 := hSelf_frame ap ha1 hp hpx1 hs
        exact (f1.mono q1 (by omega)).trans (f2.mono (by omega) (by omega))
      rcases hl with ⟨hl0, rfl⟩ | ⟨l, ls, g, gvs, e1, e2, e3, e4, e5⟩
      · simp only [hasLandmarks, hl0, hasAnswer, Bool.false_eq_true, if_false] at hrun
        exact selfStep h (Frame.refl _ _ _) hrun
      · cases gvs with
        | nil =>
          simp only [hasLandmarks, e1, e2, e3, e4, List.isEmpty_nil, if_true, hasAnswer, Bool.false_eq_true,
            if_false] at hrun
          exact selfStep h (Frame.refl _ _ _) hrun
        | cons gv gt =>
          simp only [hasLandmarks, e1, e2, e3, e4, List.isEmpty_cons, Bool.false_eq_true, if_false, hasAnswer,
            if_true, coreLandmarks_some ha e1 rfl, hInplaceM, HM.bind, clsOf, supInplace_lm, chm_lmInplace,
            coreLmInplaceH, getAttr, dictValues] at hrun
          rcases hlp : HM.forLoop () ((gv :: gt).map Prod.snd)
              (fun _ it => HM.bind (hInplace coreHMethods expectedDispatch k it ap) fun _ => HM.ok ()) h
            with ⟨h1, r1⟩
          have f1 : Frame m0 m h h1 := hLoop_frame ap _ ih gs (gv :: gt) m0 m h h1 r1 e5 hlp
          rw [hlp] at hrun
          cases r1 with
          | error e =>
            simp only [Prod.mk.injEq] at hrun
            obtain ⟨rfl, _⟩ := hrun
            exact f1.mono q1 (by omega)
          | ok u =>
            simp only [HM.ok] at hrun
            exact selfStep h1 f1 hrun

/-- (d) "MUTATES NOTHING", RETURNING OR RAISING: `x._transform(t)` as the source states it, with an arbitrary closure
(it may raise on any array, e.g. `_apply_batched` with `batch_size ≤ 0`, `WithDims` with a bad index) and an arbitrary
outcome, writes no cell that existed before the call -/
theorem h_apply_frame_any (ap : Fn) (k : Nat) (s : Shape) (h h' : Heap) (v : Val) (res : Except Err Val)
    (r : Rep h s v) (hrun : hTransform coreHMethods expectedDispatch k v ap h = (h', res)) :
    h.length ≤ h'.length ∧ ∀ a, a < h.length → h'[a]? = h[a]? := by
  cases s with
  | mk c x gs ex =>
    have r0 := r
    unfold Rep at r0
    obtain ⟨a, fs, p, rfl, ha, _⟩ := r0
    simp only [hTransform, HM.bind, clsOf, ha, supTransform_shape, chm_transform, hCopy] at hrun
    have hc := copy_spec k _ h (.ref a) r
    cases hcp : copy expectedDispatch k h (.ref a) with
    | error e =>
      rw [hcp] at hrun
      simp only [Prod.mk.injEq] at hrun
      obtain ⟨rfl, _⟩ := hrun
      exact ⟨Nat.le_refl _, fun _ _ => rfl⟩
    | ok pr =>
      obtain ⟨h1, v1⟩ := pr
      rw [hcp] at hc hrun
      simp only at hc hrun
      obtain ⟨e1, r1⟩ := hc
      rcases hin : hInplace coreHMethods expectedDispatch k v1 ap h1 with ⟨h2, r2⟩
      have fr : Frame h.length h1.length h1 h2 := h_inplace_frame ap k _ h1 _ _ v1 h2 r2 r1 hin
      rw [hin] at hrun
      have hh : h' = h2 := by
        cases r2 with
        | error e => simp only [Prod.mk.injEq] at hrun; exact hrun.1.symm
        | ok u => simp only [HM.ok, Prod.mk.injEq] at hrun; exact hrun.1.symm
      subst hh
      refine ⟨Nat.le_trans e1.len fr.len, fun b hb => ?_⟩
      rcases fr.same b (Nat.lt_of_lt_of_le hb e1.len) with e | ⟨l1, _, _⟩
      · rw [e]; exact e1.get_lt hb
      · omega

/-- after a call that RAISED the input still holds the shape it held -/
theorem h_apply_raise_intact (ap : Fn) (k : Nat) (s : Shape) (h h' : Heap) (v : Val) (e : Err)
    (r : Rep h s v) (hrun : hTransform coreHMethods expectedDispatch k v ap h = (h', .error e)) : Rep h' s v := by
  obtain ⟨hl, hs⟩ := h_apply_frame_any ap k s h h' v (.error e) r hrun
  exact Rep.ext (ext_of_prefix hl hs) s v r

-- a closure that raises on every array that has points (`_apply_batched` with `batch_size = 0`): the call raises
-- ValueError part-way through the in-place pass on the copy, and nothing below the old heap top has changed
example : errOf (hTransform coreHMethods expectedDispatch 8 exVal
      (fun a => applyBatchedE (okFn exF) (some 0) a) exHeap).2 = some .value ∧
    changedBelow exHeap.length exHeap (hTransform coreHMethods expectedDispatch 8 exVal
      (fun a => applyBatchedE (okFn exF) (some 0) a) exHeap).1 = [] := by
  constructor <;> decide +kernel

end MenpoModel.C02
