/-
C18 — features agree on arrays and images and keep annotations attached.  Property theorems.

Part A: the decorators (`ndfeature`, `imgfeature`, `winitfeature`, `rebuild_feature_image*`), for EVERY array-level
        feature `f` (the numerical kernels are the abstract `f`: library code, not modelled).
Part B: `normalize` and the three `normalize_*` features over ℚ; the scale statistic is a contract parameter
        (`σ·σ = var`, `ν·ν = Σx²`, non-negative), assumed only at the data it is applied to.
Part C: who writes where — the input buffer is never written.
-/
import MenpoModel.Core.C18Feature
import MenpoModel.Lemmas.C18Sums
import MenpoModel.Lemmas.C18Wrap
import MenpoModel.Lemmas.C18Chain

namespace MenpoModel.C18

/-! ## Part A — the wrappers, generic in the feature -/

section wrappers
variable {P : Type} (sh : P → List Nat)

def Arg.pixels : Arg P → P
  | .arr p => p
  | .img im => im.pixels

theorem rebuild_pixels (im : Img P) (fp : P) (r : Img P) (h : rebuild sh im fp = .ok r) : r.pixels = fp := by
  unfold rebuild at h
  cases hm : im.mask with
  | none => simp only [hm] at h; injection h with h; rw [← h]
  | some m =>
    simp only [hm] at h
    split at h
    · cases h
    · injection h with h; rw [← h]

/-- PROPERTY (same values for both calling conventions): whenever the image call returns, the array call on the
image's pixel array returns exactly the pixels of the returned image — for every feature `f`. -/
theorem ndfeature_agrees (f : P → Except Err P) (im : Img P) (r : Arg P)
    (h : ndfeature sh f (.img im) = .ok r) :
    ndfeature sh f (.arr im.pixels) = .ok (.arr r.pixels) := by
  simp only [ndfeature] at h ⊢
  cases hf : f im.pixels with
  | error e => simp [hf] at h
  | ok fp =>
    simp only [hf] at h
    cases hr : rebuild sh im fp with
    | error e => simp [hr, Except.map] at h
    | ok r' =>
      simp only [hr, Except.map] at h
      injection h with h
      subst h
      simp [Except.map, Arg.pixels, rebuild_pixels sh im fp r' hr]

/-- … and an exception of the array-level feature is the exception of the image call -/
theorem ndfeature_error_agrees (f : P → Except Err P) (im : Img P) (e : Err) (h : f im.pixels = .error e) :
    ndfeature sh f (.img im) = .error e ∧ ndfeature sh f (.arr im.pixels) = .error e := by
  simp [ndfeature, h, Except.map]

/-- `@imgfeature`: an array is treated as the plain image without annotations holding it -/
theorem imgfeature_agrees (g : Img P → Except Err (Img P)) (p : P) (r : Img P)
    (h : imgfeature g (.img ⟨p, none, []⟩) = .ok (.img r)) :
    imgfeature g (.arr p) = .ok (.arr r.pixels) := by
  simp only [imgfeature] at h ⊢
  cases hg : g ⟨p, none, []⟩ with
  | error e => simp [hg, Except.map] at h
  | ok r' =>
    simp only [hg, Except.map] at h
    injection h with h; injection h with h
    subst h; rfl

theorem rebuildCentres_pixels (im : Img P) (fp : P) (c : Centres) (r : Img P)
    (h : rebuildCentres im fp c = .ok r) : r.pixels = fp := by
  unfold rebuildCentres at h
  cases hm : im.mask with
  | none => simp only [hm] at h; injection h with h; rw [← h]
  | some m =>
    simp only [hm] at h
    split at h
    · cases h
    · injection h with h; rw [← h]

theorem winitfeature_agrees (f : P → Except Err (P × Centres)) (im : Img P) (r : Arg P)
    (h : winitfeature f (.img im) = .ok r) :
    winitfeature f (.arr im.pixels) = .ok (.arr r.pixels) := by
  simp only [winitfeature] at h ⊢
  cases hf : f im.pixels with
  | error e => simp [hf] at h
  | ok fc =>
    obtain ⟨fp, c⟩ := fc
    simp only [hf] at h
    cases hr : rebuildCentres im fp c with
    | error e => simp [hr, Except.map] at h
    | ok r' =>
      simp only [hr, Except.map] at h
      injection h with h
      subst h
      simp [Except.map, Arg.pixels, rebuildCentres_pixels im fp c r' hr]

/-- PROPERTY (same masked-or-not kind) -/
theorem feature_keeps_kind (im : Img P) (fp : P) (r : Img P) (h : rebuild sh im fp = .ok r) :
    r.mask.isSome = im.mask.isSome := by
  unfold rebuild at h
  cases hm : im.mask with
  | none => simp only [hm] at h; injection h with h; rw [← h]
  | some m =>
    simp only [hm] at h
    split at h
    · cases h
    · rename_i mask' hmask
      injection h with h; rw [← h]
      simp only [Option.isSome]
      split at hmask
      · cases hrm : resizeMask m (sh fp) with
        | error e => simp [hrm, Except.map] at hmask
        | ok m' => simp only [hrm, Except.map] at hmask; cases hmask; rfl
      · cases hmask; rfl

/-- PROPERTY (a size-keeping feature returns the landmarks and the mask unchanged) — always succeeds -/
theorem feature_same_size_keeps_annotations (im : Img P) (fp : P) (hs : sh fp = sh im.pixels) :
    rebuild sh im fp = .ok ⟨fp, im.mask, im.lms⟩ := by
  unfold rebuild
  have hch : (sh fp != sh im.pixels) = false := by simp [hs]
  have hl : (if im.lms.isEmpty = true then ([] : Lms) else im.lms) = im.lms := by
    cases h : im.lms <;> simp
  cases hm : im.mask with
  | none => simp [hch]
  | some m => simp [hch]

/-- PROPERTY (a size-changing feature: landmarks scaled by the shape ratio, mask resized to the new shape) -/
theorem feature_new_size_rescales (im : Img P) (fp : P) (r : Img P) (hs : sh fp ≠ sh im.pixels)
    (h : rebuild sh im fp = .ok r) :
    r.lms = scaleLms (ratio (sh fp) (sh im.pixels)) im.lms ∧
    (∀ m, im.mask = some m → ∃ m', r.mask = some m' ∧ resizeMask m (sh fp) = .ok m' ∧ m'.shape = sh fp ∧
        m'.bits.length = prod (sh fp)) ∧
    (im.mask = none → r.mask = none) := by
  have hch : (sh fp != sh im.pixels) = true := by simp [hs]
  have hl : ∀ sf, (if im.lms.isEmpty = true then ([] : Lms) else scaleLms sf im.lms) = scaleLms sf im.lms := by
    intro sf; cases h : im.lms <;> simp [scaleLms]
  unfold rebuild at h
  cases hm : im.mask with
  | none =>
    simp only [hm, hch, if_true, hl] at h
    injection h with h
    subst h
    exact ⟨rfl, (by intro m hm'; cases hm'), fun _ => rfl⟩
  | some m =>
    simp only [hm, hch, if_true, hl] at h
    cases hrm : resizeMask m (sh fp) with
    | error e => simp [hrm, Except.map] at h
    | ok m' =>
      simp only [hrm, Except.map] at h
      injection h with h
      subst h
      refine ⟨rfl, ?_, (by intro hc; cases hc)⟩
      intro m0 hm0
      injection hm0 with hm0
      subst hm0
      refine ⟨m', rfl, hrm, ?_, ?_⟩
      all_goals
        unfold resizeMask resizeMaskR at hrm
        split at hrm
        · cases hrm
        · split at hrm
          · cases hrm
          · split at hrm
            · cases hrm
            · injection hrm with hrm; subst hrm; simp

/-- the image call succeeds whenever the array call does, unless a masked image would get an empty extent
(then the code raises "Scales must be positive floats.").  That the warped mask has the shape of the feature pixels
— so that `MaskedImage(f_pixels, mask=mask)` accepts it — is `tmplExt_round_exact`: binary64 `np.round(n/o·o) = n`. -/
theorem ndfeature_total (f : P → Except Err P) (im : Img P) (fp : P) (hf : f im.pixels = .ok fp)
    (hwf : ∀ m, im.mask = some m → m.shape.length = (sh fp).length ∧ (∀ o ∈ m.shape, 0 < o) ∧
      ∀ d ∈ sh fp, d ≠ 0 ∧ d < 2 ^ 40) :
    ∃ r, ndfeature sh f (.img im) = .ok (.img r) := by
  simp only [ndfeature, hf]
  unfold rebuild
  cases hm : im.mask with
  | none => exact ⟨_, rfl⟩
  | some m =>
    obtain ⟨hlen, hpos, hnz⟩ := hwf m hm
    by_cases hch : (sh fp != sh im.pixels) = true
    · have h0 : (sh fp).any (· == 0) = false := by
        rw [List.any_eq_false]; intro d hd; simpa using (hnz d hd).1
      have hext := tmplExt_zipWith m.shape (sh fp) hlen hpos (fun d hd => (hnz d hd).2)
      have : ∃ m', resizeMask m (sh fp) = .ok m' := by
        unfold resizeMask resizeMaskR; simp [hlen, h0, hext]
      obtain ⟨m', hm'⟩ := this
      simp only [hch, if_true, hm', Except.map]
      exact ⟨_, rfl⟩
    · simp only [hch, Except.map]
      exact ⟨_, rfl⟩

/-- window-iterating features: pixels as returned, mask sampled at the window centres, landmarks moved to the
grid of centres (`(p − min) / step`), same kind -/
theorem winit_annotations (im : Img P) (fp : P) (c : Centres) (r : Img P) (h : rebuildCentres im fp c = .ok r) :
    r.pixels = fp ∧ r.mask.isSome = im.mask.isSome ∧
    r.lms = im.lms.map (fun kg => (kg.1, kg.2.map (correctPt c))) ∧
    (∀ m, im.mask = some m → ∃ m', r.mask = some m' ∧ sampleMask m c = .ok m') := by
  have hl : (if im.lms.isEmpty = true then ([] : Lms) else im.lms.map fun kg => (kg.1, kg.2.map (correctPt c)))
      = im.lms.map fun kg => (kg.1, kg.2.map (correctPt c)) := by
    cases h : im.lms <;> simp
  unfold rebuildCentres at h
  cases hm : im.mask with
  | none =>
    simp only [hm, hl] at h
    injection h with h; subst h
    exact ⟨rfl, rfl, rfl, (by intro m hm'; cases hm')⟩
  | some m =>
    simp only [hm, hl] at h
    cases hs : sampleMask m c with
    | error e => simp [hs, Except.map] at h
    | ok m' =>
      simp only [hs, Except.map] at h
      injection h with h; subst h
      refine ⟨rfl, rfl, rfl, ?_⟩
      intro m0 hm0; injection hm0 with hm0; subst hm0
      exact ⟨m', rfl, hs⟩

theorem correctPt_2d (c : Centres) (y x : Rat) :
    correctPt c [y, x] = [(y - ((centresMin c).1 : Rat)) / ((centresStep c).1 : Rat),
                          (x - ((centresMin c).2 : Rat)) / ((centresStep c).2 : Rat)] := rfl

/-- PROPERTY (window features: landmarks land on the grid of window centres): with the centres' minimum `(r₀, c₀)` and
spacing `(s_v, s_h)`, a landmark sitting exactly on the centre `(r₀ + a·s_v, c₀ + b·s_h)` gets the feature-image
coordinates `(a, b)` -/
theorem winit_landmark_on_grid (c : Centres) (r0 c0 : Nat) (sv sh : Int) (a b : Rat)
    (hmin : centresMin c = (r0, c0)) (hstep : centresStep c = (sv, sh)) (hv : sv ≠ 0) (hh : sh ≠ 0) :
    correctPt c [(r0 : Rat) + a * (sv : Rat), (c0 : Rat) + b * (sh : Rat)] = [a, b] := by
  have hv' : (sv : Rat) ≠ 0 := by exact_mod_cast hv
  have hh' : (sh : Rat) ≠ 0 := by exact_mod_cast hh
  rw [correctPt_2d, hmin, hstep]
  simp only []
  congr 1
  · field_simp; ring
  · congr 1; field_simp; ring

example : centresMin [[(1, 2), (1, 5)], [(3, 2), (3, 5)]] = (1, 2) ∧
    centresStep [[(1, 2), (1, 5)], [(3, 2), (3, 5)]] = (2, 3) := by decide

end wrappers

/-- compositions of decorated features: the pixels are the composition of the array-level features -/
theorem ndfeature_compose_pixels {P : Type} (sh : P → List Nat) (f g : P → Except Err P) (im r1 r2 : Img P)
    (h1 : ndfeature sh f (.img im) = .ok (.img r1)) (h2 : ndfeature sh g (.img r1) = .ok (.img r2)) :
    (f im.pixels).bind g = .ok r2.pixels := by
  have a1 := ndfeature_agrees sh f im _ h1
  have a2 := ndfeature_agrees sh g r1 _ h2
  simp only [ndfeature, Arg.pixels] at a1 a2
  cases hf : f im.pixels with
  | error e => simp [hf, Except.map] at a1
  | ok p1 =>
    simp only [hf, Except.map] at a1
    injection a1 with a1; injection a1 with a1
    subst a1
    cases hg : g r1.pixels with
    | error e => simp [hg, Except.map] at a2
    | ok p2 =>
      simp only [hg, Except.map] at a2
      injection a2 with a2; injection a2 with a2
      subst a2
      simp [Except.bind, hg]

/-- … and two successive rescalings of a 2-D landmark are the rescaling by the overall shape ratio -/
theorem landmarks_compose_2d (a0 a1 b0 b1 c0 c1 : Nat) (y x : Rat) (hb0 : b0 ≠ 0) (hb1 : b1 ≠ 0) :
    scalePt (ratio [c0, c1] [b0, b1]) (scalePt (ratio [b0, b1] [a0, a1]) [y, x])
      = scalePt (ratio [c0, c1] [a0, a1]) [y, x] := by
  have h0 : (b0 : Rat) ≠ 0 := by exact_mod_cast hb0
  have h1 : (b1 : Rat) ≠ 0 := by exact_mod_cast hb1
  simp only [scalePt_2d]
  congr 1
  · field_simp
  · congr 1; field_simp

/-! ### non-vacuity of Part A -/

/-- a size-changing toy feature on shapes-as-pixels: 4×4 → 2×3 -/
example : rebuild (P := List Nat) id ⟨[4, 4], some ⟨[4, 4], List.replicate 16 true⟩, [(7, [[2, 3]])]⟩ [2, 3]
    = .ok ⟨[2, 3], some ⟨[2, 3], List.replicate 6 true⟩, [(7, [[1, 9 / 4]])]⟩ := by decide +kernel
example : srcAxis 4 3 1 = .tie 2 ∧ srcAxis 4 2 1 = .at 3 ∧ srcAxis 1 3 0 = .degenerate := by decide
example : srcF 4 3 1 = 2 ∧ srcF 4 2 1 = 3 := by decide +kernel
example : ndfeature (P := List Nat) id (fun p => .ok (p.map (· - 2))) (.img ⟨[9, 9], none, []⟩)
    = .ok (.img ⟨[7, 7], none, []⟩) := by decide +kernel

/-! ## Part B — the normalisers over ℚ -/

/-- the centred row and its normalisation: divided by the statistic, or left as it is when the statistic is 0 -/
def cen (row : List Rat) : List Rat := row.map (· - mean row)
def rowNorm (stat : List Rat → Rat) (row : List Rat) : List Rat :=
  if stat (cen row) = 0 then cen row else (cen row).map (· / stat (cen row))

theorem any_zero_iff (l : List Rat) : l.any (· == 0) = true ↔ ∃ s ∈ l, s = 0 := by
  simp [List.any_eq_true]

theorem normCore_per_channel (stat : List Rat → Rat) (e fx : Bool) (c : Chans) :
    normCore .perChannel e fx c (c.map stat) =
      if e = true ∧ (∃ r ∈ c, stat r = 0) then .error .zeroScale
      else .ok (c.map fun r => if stat r = 0 then r else r.map (· / stat r)) := by
  have hany : (c.map stat).any (· == 0) = true ↔ ∃ r ∈ c, stat r = 0 := by
    simp [List.any_eq_true]
  unfold normCore
  by_cases hz : ∃ r ∈ c, stat r = 0
  · have hA : (c.map stat).any (· == 0) = true := hany.mpr hz
    cases e with
    | true => simp [hA, hz]
    | false =>
      simp only [hA, Bool.false_and, if_true, if_false, Bool.false_eq_true]
      cases fx with
      | false =>
        simp only [Bool.false_eq_true, if_false]
        rw [zipWith_map_self]
        congr 1
        apply List.map_congr_left
        intro row _
        simp
      | true =>
        simp only [if_true]
        unfold divRows
        have hsafe : ((c.map stat).map fun s => if (s == 0) = true then (1 : Rat) else s).any (· == 0) = false := by
          rw [List.any_eq_false]
          intro s hs
          simp only [List.mem_map] at hs
          obtain ⟨t, _, rfl⟩ := hs
          by_cases ht : t = 0 <;> simp [ht]
        simp only [hsafe, Bool.false_eq_true, if_false]
        rw [List.map_map, zipWith_map_self]
        congr 1
        apply List.map_congr_left
        intro row _
        simp only [Function.comp]
        by_cases h0 : stat row = 0
        · simp [h0]
        · simp [h0]
  · have hA : (c.map stat).any (· == 0) = false := by
      rw [Bool.eq_false_iff]; exact fun h => hz (hany.mp h)
    have hgoal : ¬ (e = true ∧ ∃ r ∈ c, stat r = 0) := fun h => hz h.2
    simp only [hA, Bool.and_false, hgoal, if_false, Bool.false_eq_true]
    unfold divRows
    simp only [hA, Bool.false_eq_true, if_false]
    rw [zipWith_map_self]
    congr 1
    apply List.map_congr_left
    intro row hrow
    have : stat row ≠ 0 := fun h => hz ⟨row, hrow, h⟩
    simp [this]

/-- PROPERTY (`mode='per_channel'`: result = centred / statistic per channel; a zero statistic is refused when asked
and skipped when asked) — both the coded and the repaired branch logic -/
theorem normalize_per_channel_spec (stat : List Rat → Rat) (e fx : Bool) (x : Chans) :
    normalizeV stat .perChannel e fx x =
      if e = true ∧ (∃ row ∈ x, stat (cen row) = 0) then .error .zeroScale
      else .ok (x.map (rowNorm stat)) := by
  have hc : centre .perChannel x = x.map cen := rfl
  unfold normalizeV
  simp only [hc, scalesOf]
  rw [normCore_per_channel]
  have hex : (∃ r ∈ x.map cen, stat r = 0) ↔ ∃ row ∈ x, stat (cen row) = 0 := by simp
  simp only [hex, List.map_map]
  rfl

/-- the centred data in `mode='all'` -/
def cenAll (x : Chans) : Chans := x.map fun row => row.map (· - mean x.flatten)

theorem cenAll_flatten (x : Chans) : (cenAll x).flatten = x.flatten.map (· - mean x.flatten) :=
  flatten_map_map _ x

/-- PROPERTY (`mode='all'`: result = centred / overall statistic; zero statistic refused when asked; when skipping
is asked the code as written raises IndexError (`fx = false`), the repaired code returns the centred data) -/
theorem normalize_all_spec (stat : List Rat → Rat) (e fx : Bool) (x : Chans) :
    normalizeV stat .all e fx x =
      if stat (cenAll x).flatten = 0 then
        (if e then .error .zeroScale else if fx then .ok (cenAll x) else .error .index)
      else .ok ((cenAll x).map fun row => row.map (· / stat (cenAll x).flatten)) := by
  have hc : centre .all x = cenAll x := rfl
  unfold normalizeV normCore
  simp only [hc, scalesOf, List.any_cons, List.any_nil, Bool.or_false]
  by_cases hz : stat (cenAll x).flatten = 0
  · simp only [hz, beq_self_eq_true, Bool.and_true, if_true]
    cases e with
    | true => simp
    | false =>
      cases fx with
      | false => simp
      | true =>
        simp only [Bool.false_eq_true, if_false, if_true]
        unfold divRows
        simp
  · have hb : (stat (cenAll x).flatten == 0) = false := by simpa using hz
    simp only [hb, Bool.and_false, Bool.false_eq_true, if_false, hz]
    unfold divRows
    simp [hb]

/-- PROPERTY (zero scale, repaired code): the only refusal is the requested one, and otherwise a result is
returned; no branch divides by zero -/
theorem normalize_zero_scale_fixed (stat : List Rat → Rat) (mode : Mode) (e : Bool) (x : Chans) :
    (∃ y, normalizeV stat mode e true x = .ok y) ∨
    (e = true ∧ normalizeV stat mode e true x = .error .zeroScale ∧
      (∃ s ∈ scalesOf stat mode (centre mode x), s = 0)) := by
  cases mode with
  | all =>
    rw [normalize_all_spec]
    by_cases hz : stat (cenAll x).flatten = 0
    · cases e with
      | true => right; exact ⟨rfl, by simp [hz], ⟨_, by simp [scalesOf, centre, cenAll] , hz⟩⟩
      | false => left; simp [hz]
    · left; simp [hz]
  | perChannel =>
    rw [normalize_per_channel_spec]
    by_cases hz : e = true ∧ ∃ row ∈ x, stat (cen row) = 0
    · right
      refine ⟨hz.1, by simp [hz], ?_⟩
      obtain ⟨row, hrow, h0⟩ := hz.2
      exact ⟨stat (cen row), by simp only [scalesOf, centre, List.mem_map]; exact ⟨cen row, ⟨row, hrow, rfl⟩, rfl⟩, h0⟩
    · left; simp [hz]

/-- … and never a non-finite value, in either version of the code -/
theorem normalize_never_nonfinite (stat : List Rat → Rat) (mode : Mode) (e fx : Bool) (x : Chans) :
    normalizeV stat mode e fx x ≠ .error .nonFinite := by
  cases mode with
  | all =>
    rw [normalize_all_spec]
    split
    · cases e <;> cases fx <;> simp
    · simp
  | perChannel =>
    rw [normalize_per_channel_spec]
    split <;> simp

/-- the skip request is honoured exactly: with `error_on_divide_by_zero=False` the repaired code always returns -/
theorem normalize_skip_total (stat : List Rat → Rat) (mode : Mode) (x : Chans) :
    ∃ y, normalizeV stat mode false true x = .ok y := by
  rcases normalize_zero_scale_fixed stat mode false x with h | h
  · exact h
  · exact absurd h.1 (by simp)

/-- REFUTATION of the skip clause for the code as written: `mode='all'`, zero scale, skipping requested ⇒
IndexError — for one channel and for several (witnesses: constant images, statistic = variance) -/
theorem normalize_zero_scale_coded_refuted :
    normalizeV var .all false false [[1, 1, 1, 1]] = .error .index ∧
    normalizeV var .all false false [[1, 1], [1, 1], [1, 1]] = .error .index ∧
    normalizeV var .all false true [[1, 1], [1, 1], [1, 1]] = .ok [[0, 0], [0, 0], [0, 0]] := by
  decide +kernel

/-- the coded skip branch fails in `mode='all'` for EVERY input with a zero statistic -/
theorem normalize_zero_scale_coded_all (stat : List Rat → Rat) (x : Chans) (hz : stat (cenAll x).flatten = 0) :
    normalizeV stat .all false false x = .error .index := by
  rw [normalize_all_spec]; simp [hz]

/-- apart from that branch the code as written and the repaired code coincide -/
theorem normalize_coded_eq_fixed (stat : List Rat → Rat) (mode : Mode) (e : Bool) (x : Chans)
    (h : mode = .perChannel ∨ e = true ∨ stat (cenAll x).flatten ≠ 0) :
    normalizeV stat mode e false x = normalizeV stat mode e true x := by
  cases mode with
  | perChannel => rw [normalize_per_channel_spec, normalize_per_channel_spec]
  | all =>
    rw [normalize_all_spec, normalize_all_spec]
    rcases h with h | h | h
    · cases h
    · subst h; simp
    · simp [h]

/-! ### zero mean -/

theorem sum_rowNorm (stat : List Rat → Rat) (row : List Rat) (h : row ≠ []) : sum (rowNorm stat row) = 0 := by
  unfold rowNorm cen
  split
  · exact sum_centred row h
  · rw [sum_map_div_const, sum_centred row h]; simp

/-- PROPERTY (zero-mean data, per channel), whichever branch was taken -/
theorem normalize_zero_mean_per_channel (stat : List Rat → Rat) (e fx : Bool) (x y : Chans)
    (hne : ∀ row ∈ x, row ≠ []) (h : normalizeV stat .perChannel e fx x = .ok y) :
    ∀ row ∈ y, mean row = 0 := by
  rw [normalize_per_channel_spec] at h
  split at h
  · cases h
  · injection h with h
    subst h
    intro row hrow
    simp only [List.mem_map] at hrow
    obtain ⟨r, hr, rfl⟩ := hrow
    unfold mean
    rw [sum_rowNorm stat r (hne r hr)]; simp

/-- PROPERTY (zero-mean data, overall), whichever branch was taken -/
theorem normalize_zero_mean_all (stat : List Rat → Rat) (e fx : Bool) (x y : Chans)
    (hne : x.flatten ≠ []) (h : normalizeV stat .all e fx x = .ok y) : mean y.flatten = 0 := by
  have hc : sum (cenAll x).flatten = 0 := by rw [cenAll_flatten]; exact sum_centred _ hne
  rw [normalize_all_spec] at h
  split at h
  · cases e <;> cases fx <;> simp at h
    subst h; unfold mean; rw [hc]; simp
  · injection h with h
    subst h
    unfold mean
    rw [flatten_map_map, sum_map_div_const, hc]; simp

/-! ### unit standard deviation / unit norm, and idempotence -/

/-- PROPERTY (`normalize_std`, overall): the statistic is a standard deviation of the centred data (`σ·σ = var`),
non-zero ⇒ the result has variance (hence standard deviation) 1 -/
theorem normalize_std_unit_all (stat : List Rat → Rat) (e fx : Bool) (x y : Chans)
    (h : normalizeV stat .all e fx x = .ok y)
    (hσ : stat (cenAll x).flatten * stat (cenAll x).flatten = var (cenAll x).flatten)
    (hnz : stat (cenAll x).flatten ≠ 0) : var y.flatten = 1 := by
  rw [normalize_all_spec] at h
  simp only [hnz, if_false] at h
  injection h with h
  subst h
  rw [flatten_map_map, var_map_div_const, ← hσ]
  field_simp

/-- PROPERTY (`normalize_norm`, overall): `ν·ν = Σx²`, non-zero ⇒ the result has unit norm -/
theorem normalize_norm_unit_all (stat : List Rat → Rat) (e fx : Bool) (x y : Chans)
    (h : normalizeV stat .all e fx x = .ok y)
    (hσ : stat (cenAll x).flatten * stat (cenAll x).flatten = sumsq (cenAll x).flatten)
    (hnz : stat (cenAll x).flatten ≠ 0) : sumsq y.flatten = 1 := by
  rw [normalize_all_spec] at h
  simp only [hnz, if_false] at h
  injection h with h
  subst h
  rw [flatten_map_map, sumsq_map_div_const, ← hσ]
  field_simp

/-- PROPERTY (per channel): every channel whose statistic is a non-zero standard deviation gets variance 1 -/
theorem normalize_std_unit_per_channel (stat : List Rat → Rat) (row : List Rat)
    (hσ : stat (cen row) * stat (cen row) = var (cen row)) (hnz : stat (cen row) ≠ 0) :
    var (rowNorm stat row) = 1 := by
  unfold rowNorm
  simp only [hnz, if_false]
  rw [var_map_div_const, ← hσ]
  field_simp

theorem normalize_norm_unit_per_channel (stat : List Rat → Rat) (row : List Rat)
    (hσ : stat (cen row) * stat (cen row) = sumsq (cen row)) (hnz : stat (cen row) ≠ 0) :
    sumsq (rowNorm stat row) = 1 := by
  unfold rowNorm
  simp only [hnz, if_false]
  rw [sumsq_map_div_const, ← hσ]
  field_simp

theorem map_sub_zero (l : List Rat) : l.map (· - (0 : Rat)) = l := by
  induction l with
  | nil => rfl
  | cons a t ih => simp
theorem map_div_one (l : List Rat) : l.map (· / (1 : Rat)) = l := by
  induction l with
  | nil => rfl
  | cons a t ih => simp

/-- a second application to a channel that already has mean 0 and statistic 1 changes nothing -/
theorem rowNorm_fixpoint (stat : List Rat → Rat) (r : List Rat) (hm : mean r = 0) (h1 : stat r = 1) :
    rowNorm stat r = r := by
  have hc : cen r = r := by unfold cen; rw [hm]; exact map_sub_zero r
  unfold rowNorm
  rw [hc, h1]
  simp

/-- PROPERTY (idempotence, per channel, `normalize_std`): the statistic is non-negative with `σ·σ = var` at the
data it sees in both applications ⇒ the second application returns its input -/
theorem normalize_std_idempotent_per_channel (stat : List Rat → Rat) (row : List Rat) (hne : row ≠ [])
    (hσ : stat (cen row) * stat (cen row) = var (cen row)) (hnz : stat (cen row) ≠ 0)
    (hσ' : 0 ≤ stat (rowNorm stat row) ∧ stat (rowNorm stat row) * stat (rowNorm stat row) = var (rowNorm stat row)) :
    rowNorm stat (rowNorm stat row) = rowNorm stat row := by
  apply rowNorm_fixpoint
  · unfold mean; rw [sum_rowNorm stat row hne]; simp
  · exact eq_one_of_sq _ hσ'.1 (by rw [hσ'.2, normalize_std_unit_per_channel stat row hσ hnz])

theorem normalize_norm_idempotent_per_channel (stat : List Rat → Rat) (row : List Rat) (hne : row ≠ [])
    (hσ : stat (cen row) * stat (cen row) = sumsq (cen row)) (hnz : stat (cen row) ≠ 0)
    (hσ' : 0 ≤ stat (rowNorm stat row) ∧ stat (rowNorm stat row) * stat (rowNorm stat row) = sumsq (rowNorm stat row)) :
    rowNorm stat (rowNorm stat row) = rowNorm stat row := by
  apply rowNorm_fixpoint
  · unfold mean; rw [sum_rowNorm stat row hne]; simp
  · exact eq_one_of_sq _ hσ'.1 (by rw [hσ'.2, normalize_norm_unit_per_channel stat row hσ hnz])

theorem cenAll_of_mean_zero (y : Chans) (h : mean y.flatten = 0) : cenAll y = y := by
  unfold cenAll
  rw [h]
  induction y with
  | nil => rfl
  | cons r t ih => simp

theorem map_map_div_one (y : Chans) : (y.map fun row => row.map (· / (1 : Rat))) = y := by
  induction y with
  | nil => rfl
  | cons r t ih => simp

/-- PROPERTY (idempotence, overall): `normalize_std` / `normalize_norm` applied twice = applied once.
`q` is the quantity the statistic squares to (`var` resp. `sumsq`); the contract is assumed only at the data the
statistic is applied to in the two calls. -/
theorem normalize_idempotent_all (stat : List Rat → Rat) (q : List Rat → Rat) (e fx : Bool) (x y : Chans)
    (hne : x.flatten ≠ []) (h : normalizeV stat .all e fx x = .ok y)
    (hunit : q y.flatten = 1)
    (hσ' : 0 ≤ stat y.flatten ∧ stat y.flatten * stat y.flatten = q y.flatten) :
    normalizeV stat .all e fx y = .ok y := by
  have hm : mean y.flatten = 0 := normalize_zero_mean_all stat e fx x y hne h
  have h1 : stat y.flatten = 1 := eq_one_of_sq _ hσ'.1 (by rw [hσ'.2, hunit])
  rw [normalize_all_spec, cenAll_of_mean_zero y hm, h1]
  simp

theorem normalize_std_idempotent_all (stat : List Rat → Rat) (e fx : Bool) (x y : Chans)
    (hne : x.flatten ≠ []) (h : normalizeV stat .all e fx x = .ok y)
    (hσ : stat (cenAll x).flatten * stat (cenAll x).flatten = var (cenAll x).flatten)
    (hnz : stat (cenAll x).flatten ≠ 0)
    (hσ' : 0 ≤ stat y.flatten ∧ stat y.flatten * stat y.flatten = var y.flatten) :
    normalizeV stat .all e fx y = .ok y :=
  normalize_idempotent_all stat var e fx x y hne h (normalize_std_unit_all stat e fx x y h hσ hnz) hσ'

theorem normalize_norm_idempotent_all (stat : List Rat → Rat) (e fx : Bool) (x y : Chans)
    (hne : x.flatten ≠ []) (h : normalizeV stat .all e fx x = .ok y)
    (hσ : stat (cenAll x).flatten * stat (cenAll x).flatten = sumsq (cenAll x).flatten)
    (hnz : stat (cenAll x).flatten ≠ 0)
    (hσ' : 0 ≤ stat y.flatten ∧ stat y.flatten * stat y.flatten = sumsq y.flatten) :
    normalizeV stat .all e fx y = .ok y :=
  normalize_idempotent_all stat sumsq e fx x y hne h (normalize_norm_unit_all stat e fx x y h hσ hnz) hσ'

/-! ### non-vacuity: a statistic that IS a standard deviation on the data it sees (pixels 1,3 / 5,9: σ = 1 and 2) -/

def statEx (l : List Rat) : Rat :=
  if l = [-1, 1] then 1 else if l = [-2, 2] then 2 else if l = [-3, -1, 1, 3] then 0 else 1

example : normalizeV statEx .perChannel true false [[1, 3], [5, 9]] = .ok [[-1, 1], [-1, 1]] := by decide +kernel
example : statEx (cen [5, 9]) * statEx (cen [5, 9]) = var (cen [5, 9]) ∧ statEx (cen [5, 9]) ≠ 0 := by decide +kernel
example : 0 ≤ statEx (rowNorm statEx [5, 9]) ∧
    statEx (rowNorm statEx [5, 9]) * statEx (rowNorm statEx [5, 9]) = var (rowNorm statEx [5, 9]) := by decide +kernel
example : normalizeV statEx .perChannel true false [[-1, 1], [-1, 1]] = .ok [[-1, 1], [-1, 1]] := by decide +kernel
/-- zero statistic: refused, skipped (per channel), IndexError as coded in mode all, centred data as repaired -/
example : normalizeV var .perChannel true false [[1, 3], [4, 4]] = .error .zeroScale := by decide +kernel
example : normalizeV var .perChannel false false [[1, 3], [4, 4]] = .ok [[-1, 1], [0, 0]] := by decide +kernel
example : normalizeV statEx .all false false [[1, 3], [5, 7]] = .error .index := by decide +kernel
example : normalizeV statEx .all false true [[1, 3], [5, 7]] = .ok [[-3, -1], [1, 3]] := by decide +kernel

/-! ### `normalize` on images: masked pixels only, annotations kept -/

theorem rowNorm_length (stat : List Rat → Rat) (row : List Rat) : (rowNorm stat row).length = row.length := by
  unfold rowNorm cen; split <;> simp

theorem normalizeV_row_lengths (stat : List Rat → Rat) (mode : Mode) (e fx : Bool) (x y : Chans)
    (h : normalizeV stat mode e fx x = .ok y) : y.map List.length = x.map List.length := by
  cases mode with
  | all =>
    rw [normalize_all_spec] at h
    split at h
    · cases e <;> cases fx <;> simp at h
      subst h; simp [cenAll, List.map_map, Function.comp_def]
    · injection h with h; subst h; simp [cenAll, List.map_map, Function.comp_def]
  | perChannel =>
    rw [normalize_per_channel_spec] at h
    split at h
    · cases h
    · injection h with h; subst h
      simp [List.map_map, Function.comp_def, rowNorm_length]

/-- PROPERTY (annotations stay attached, same kind, same size) for the image-level normaliser -/
theorem normalizeImg_annotations (stat : List Rat → Rat) (mode : Mode) (e fx : Bool) (im r : Img Arr)
    (h : normalizeImg stat mode e fx im = .ok r) :
    r.mask = im.mask ∧ r.lms = im.lms ∧ r.pixels.shape = im.pixels.shape := by
  unfold normalizeImg at h
  cases hm : im.mask with
  | none =>
    simp only [hm] at h
    cases hn : normalizeV stat mode e fx im.pixels.chans with
    | error err => simp [hn, Except.map] at h
    | ok out => simp only [hn, Except.map] at h; injection h with h; subst h; exact ⟨rfl, rfl, rfl⟩
  | some m =>
    simp only [hm] at h
    split at h
    · cases hn : normalizeV stat mode e fx im.pixels.chans with
      | error err => simp [hn, Except.map] at h
      | ok out => simp only [hn, Except.map] at h; injection h with h; subst h; exact ⟨rfl, rfl, rfl⟩
    · cases hn : normalizeV stat mode e fx (im.pixels.chans.map (gather m.bits)) with
      | error err => simp [hn, Except.map] at h
      | ok out => simp only [hn, Except.map] at h; injection h with h; subst h; exact ⟨rfl, rfl, rfl⟩

/-- PROPERTY (same values as on the raw array) for a plain image or an all-true mask -/
theorem normalizeImg_agrees_plain (stat : List Rat → Rat) (mode : Mode) (e fx : Bool) (im r : Img Arr)
    (hm : im.mask = none ∨ ∃ m, im.mask = some m ∧ m.bits.all id = true)
    (h : normalizeImg stat mode e fx im = .ok r) :
    normalizeV stat mode e fx im.pixels.chans = .ok r.pixels.chans := by
  unfold normalizeImg at h
  rcases hm with hm | ⟨m, hm, hall⟩
  · simp only [hm] at h
    cases hn : normalizeV stat mode e fx im.pixels.chans with
    | error err => simp [hn, Except.map] at h
    | ok out => simp only [hn, Except.map] at h; injection h with h; subst h; rfl
  · simp only [hm, hall, if_true] at h
    cases hn : normalizeV stat mode e fx im.pixels.chans with
    | error err => simp [hn, Except.map] at h
    | ok out => simp only [hn, Except.map] at h; injection h with h; subst h; rfl

/-- PROPERTY (masked image): the masked pixels of the result are the normalisation of the masked pixels of the
input (the image's data), and the pixels outside the mask are 0 -/
theorem normalizeImg_masked (stat : List Rat → Rat) (mode : Mode) (e fx : Bool) (im r : Img Arr) (m : Mask)
    (hm : im.mask = some m) (hpart : m.bits.all id = false)
    (hrect : ∀ row ∈ im.pixels.chans, row.length = m.bits.length)
    (h : normalizeImg stat mode e fx im = .ok r) :
    normalizeV stat mode e fx (im.pixels.chans.map (gather m.bits)) = .ok (r.pixels.chans.map (gather m.bits)) ∧
    (∀ row ∈ r.pixels.chans, ∀ k : Nat, m.bits[k]? = some false → (row : List Rat)[k]? = some 0) := by
  unfold normalizeImg at h
  simp only [hm, hpart, Bool.false_eq_true, if_false] at h
  cases hn : normalizeV stat mode e fx (im.pixels.chans.map (gather m.bits)) with
  | error err => simp [hn, Except.map] at h
  | ok out =>
    simp only [hn, Except.map] at h
    injection h with h
    subst h
    have hlen := normalizeV_row_lengths stat mode e fx _ out hn
    constructor
    · congr 1
      simp only [List.map_map]
      symm
      have hrows : ∀ row ∈ out, row.length = m.bits.count true := by
        intro row hrow
        obtain ⟨i, hi, rfl⟩ := List.getElem_of_mem hrow
        have h1 : (out.map List.length)[i]? = some (out[i].length) := by simp [hi]
        rw [hlen] at h1
        simp only [List.map_map, List.getElem?_map, Option.map_eq_some_iff] at h1
        obtain ⟨a, ha, hl⟩ := h1
        have hamem : a ∈ im.pixels.chans := List.mem_of_getElem? ha
        simp only [Function.comp] at hl
        rw [← hl]
        exact gather_length m.bits a (hrect a hamem)
      calc out.map (gather m.bits ∘ scatter 0 m.bits)
          = out.map id := List.map_congr_left (fun row hrow => by
              simp only [Function.comp, id]; exact gather_scatter 0 m.bits row (hrows row hrow))
        _ = out := List.map_id _
    · intro row hrow k hk
      simp only [List.mem_map] at hrow
      obtain ⟨v, _, rfl⟩ := hrow
      exact scatter_unmasked 0 m.bits v k hk

example : normalizeImg var .all true false ⟨⟨[4], [[1, 2, 3, 100]]⟩, some ⟨[4], [true, true, true, false]⟩, [(0, [[1]])]⟩
    = .ok ⟨⟨[4], [[-3 / 2, 0, 3 / 2, 0]]⟩, some ⟨[4], [true, true, true, false]⟩, [(0, [[1]])]⟩ := by decide +kernel

/-- PROPERTY (`normalize_std/norm/var` on an image of either kind): the values are those of the raw pixel array
(all pixels, also under a mask), the image keeps its kind, mask and landmarks; refusals are passed on -/
theorem normalizeNd_spec (stat : List Rat → Rat) (mode : Mode) (e fx : Bool) (im : Img Arr) :
    normalizeNd stat mode e fx (.img im) =
      match normalizeV stat mode e fx im.pixels.chans with
      | .ok out => .ok (.img ⟨⟨im.pixels.shape, out⟩, im.mask, im.lms⟩)
      | .error err => .error (.feature err.code) := by
  unfold normalizeNd
  simp only [ndfeature]
  have harr : normalizeArr stat mode e fx im.pixels =
      match normalizeV stat mode e fx im.pixels.chans with
      | .ok out => .ok ⟨im.pixels.shape, out⟩
      | .error err => .error (.feature err.code) := by
    unfold normalizeArr imgfeature normalizeImg
    cases hn : normalizeV stat mode e fx im.pixels.chans <;> simp [hn, Except.map, liftN]
  rw [harr]
  cases hn : normalizeV stat mode e fx im.pixels.chans with
  | error err => rfl
  | ok out =>
    simp only []
    rw [feature_same_size_keeps_annotations (fun p : Arr => p.shape) im ⟨im.pixels.shape, out⟩ rfl]
    rfl

theorem normalizeNd_array (stat : List Rat → Rat) (mode : Mode) (e fx : Bool) (p : Arr) :
    normalizeNd stat mode e fx (.arr p) =
      match normalizeV stat mode e fx p.chans with
      | .ok out => .ok (.arr ⟨p.shape, out⟩)
      | .error err => .error (.feature err.code) := by
  unfold normalizeNd
  simp only [ndfeature]
  unfold normalizeArr imgfeature normalizeImg
  cases hn : normalizeV stat mode e fx p.chans <;> simp [hn, Except.map, liftN]

example : normalizeNd var .perChannel false false
      (.img ⟨⟨[2], [[1, 3], [4, 4]]⟩, some ⟨[2], [true, false]⟩, [(0, [[1]])]⟩)
    = .ok (.img ⟨⟨[2], [[-1, 1], [0, 0]]⟩, some ⟨[2], [true, false]⟩, [(0, [[1]])]⟩) := by decide +kernel

/-! ## Part C — the input is never written -/

theorem set_append_length {α} (l : List α) (a b : α) : (l ++ [a]).set l.length b = l ++ [b] := by
  induction l with
  | nil => rfl
  | cons x t ih => simp [ih]

/-- PROPERTY (never modifies its input), `normalize`: every buffer that existed before the call — in particular the
image's own pixel buffer, of which `as_vector` is a view — is unchanged afterwards; the result lives in a buffer
allocated during the call; and that buffer holds exactly the value-level result.  (The only in-place write of the
code, `centered[nz] = …`, goes to the array allocated by `pixels - mean`.) -/
theorem normalize_input_untouched (stat : List Rat → Rat) (mode : Mode) (e fx : Bool) (s s' : Store) (i j : Nat)
    (h : normalizeS stat mode e fx s i = .ok (s', j)) :
    (∃ extra, s'.bufs = s.bufs ++ extra) ∧ s.bufs.length ≤ j ∧
    normalizeV stat mode e fx (s.read i) = .ok (s'.read j) := by
  have hread : (⟨s.bufs ++ [centre mode (s.read i)]⟩ : Store).read s.bufs.length = centre mode (s.read i) := by
    simp [Store.read]
  unfold normalizeS at h
  simp only [Store.alloc, hread] at h
  have hV : normalizeV stat mode e fx (s.read i)
      = normCore mode e fx (centre mode (s.read i)) (scalesOf stat mode (centre mode (s.read i))) := rfl
  split at h
  · cases h
  · rename_i hnot
    have hcore : ∀ v, normCore mode e fx (centre mode (s.read i)) (scalesOf stat mode (centre mode (s.read i))) = .ok v →
        normalizeV stat mode e fx (s.read i) = .ok v := fun v hv => by rw [hV, hv]
    split at h
    · cases hn : normCore mode e fx (centre mode (s.read i)) (scalesOf stat mode (centre mode (s.read i))) with
      | error err => simp [hn] at h
      | ok v =>
        rw [hn] at h
        simp only [Store.write, Store.read, set_append_length] at h
        injection h with h
        injection h with h1 h2
        subst h1; subst h2
        refine ⟨⟨[v, v], by simp⟩, by simp, ?_⟩
        rw [hcore v hn]; simp [Store.read]
    · cases hn : normCore mode e fx (centre mode (s.read i)) (scalesOf stat mode (centre mode (s.read i))) with
      | error err => simp [hn] at h
      | ok v =>
        rw [hn] at h
        simp only [Store.read] at h
        injection h with h
        injection h with h1 h2
        subst h1; subst h2
        refine ⟨⟨[centre mode (s.read i), v, v], by simp [Store.read]⟩, by simp, ?_⟩
        rw [hcore v hn]; simp [Store.read]

/-- a store-level array feature that only allocates -/
def Frame (f : SFeat) : Prop := ∀ s i s' j, f s i = .ok (s', j) → ∃ extra, s'.bufs = s.bufs ++ extra

/-- PROPERTY (never modifies its input), wrappers: the decorator performs no write of its own — if the wrapped
array-level feature leaves existing buffers alone, so does the decorated feature called on an image; the returned
image wraps the feature's own output buffer -/
theorem wrapper_input_untouched (sh : Chans → List Nat) (f : SFeat) (hf : Frame f) (s s' : Store) (im r : SImg)
    (h : ndfeatureS sh f s im = .ok (s', r)) :
    (∃ extra, s'.bufs = s.bufs ++ extra) ∧ f s im.pix = .ok (s', r.pix) := by
  unfold ndfeatureS at h
  cases hfs : f s im.pix with
  | error err => simp [hfs] at h
  | ok sj =>
    obtain ⟨s1, j⟩ := sj
    simp only [hfs] at h
    split at h
    · cases h
    · injection h with h
      injection h with h1 h2
      subst h1; subst h2
      exact ⟨hf s im.pix s1 j hfs, rfl⟩

/-- the buffer-level `normalize` is such a feature (so are its `@ndfeature` wrappers `normalize_std/norm/var`) -/
theorem normalizeS_frame (stat : List Rat → Rat) (mode : Mode) (e fx : Bool) :
    Frame fun s i => match normalizeS stat mode e fx s i with
      | .ok r => .ok r
      | .error _ => .error (.feature 0) := by
  intro s i s' j h
  cases hn : normalizeS stat mode e fx s i with
  | error err => simp [hn] at h
  | ok r =>
    simp only [hn] at h
    injection h with h
    subst h
    exact (normalize_input_untouched stat mode e fx s s' i j hn).1

example : (normalizeS var .all true false ⟨[[[1, 3]]]⟩ 0).map (fun r => (r.1.read 0, r.1.read r.2, r.2))
    = .ok ([[1, 3]], [[-1, 1]], 3) := by decide +kernel

end MenpoModel.C18
