/-
C16 — the overwrite guard over a file-system model, for every spelling `_norm_path` understands (`~`, `$VAR`, `${VAR}`,
`.`/`..`/empty components, relative/absolute, `str` or `Path`), and what an export may change.

  export_refused_changes_nothing        an export that does not end in "written" (OverwriteError, ValueError) leaves
                                        every file as it was
  export_accepted_changes_only_target   an accepted export changes exactly one file: the normalised target now holds
                                        the exported bytes, every other path holds what it held
  export_history_final                  INVARIANT over arbitrary export histories: at the end every path holds the
                                        bytes of the last ACCEPTED export that targeted it, or its original bytes if no
                                        accepted export targeted it
  export_history_never_clobbers         hence: a file that existed before a history in which no export targeted it
                                        with overwrite=True is byte-for-byte what it was, whatever else was exported
  expand_noop / expandUser_home         spellings without `~`/`$` are not touched by the expansions; `~/rest` is
                                        `$HOME` (without trailing slashes) followed by `/rest`
  coded_eq_repaired / runHistoryCoded_eq    the exporters as they were coded until /repo commit adfd5d8 did what the
                                        theorems above say, except …
  video_str_tilde_clobbers              … `_export_paths_only` (export_video) given the `str` `./~/v.mp4`: it checked
                                        `$HOME/v.mp4` and wrote `./~/v.mp4` — an existing file was overwritten with
                                        overwrite=False and no OverwriteError.  REFUTATION BY WITNESS of the guard
                                        invariant for that code (found by this model; patch notes/fixes/
                                        C16-export-paths-only-str-spelling.diff, applied as adfd5d8); since the fix the
                                        coded step IS `export1` and the invariant holds (`export_history_final`).
-/
import MenpoModel.Lemmas.C16Guard

namespace MenpoModel.C16

/-! ### one export -/

theorem exportAt_written (fs : FS) (p : Path) (k : Kind) (ue : Option (List Char)) (ow : Bool) (c : Nat)
    (h : (exportAt fs p k ue ow c).1 = .written) : (exportAt fs p k ue ow c).2 = fs.write p c := by
  unfold exportAt exportAtW at h ⊢
  split
  · rename_i h1; simp [h1] at h
  · split
    · rename_i h1 _ h2; simp [h1, h2] at h
    · split
      · rename_i h1 _ _ h2 h3; simp [h1, h2, h3] at h
      · rfl

/-- PROPERTY (a refused export changes no file). -/
theorem export_refused_changes_nothing (env : Env) (cwd : Path) (fs : FS) (op : Op)
    (h : (export1 env cwd fs op).1 ≠ .written) : (export1 env cwd fs op).2 = fs :=
  exportAt_fs_of_not_written _ _ _ _ _ _ h

/-- PROPERTY (an accepted export changes only its own file). -/
theorem export_accepted_changes_only_target (env : Env) (cwd : Path) (fs : FS) (op : Op)
    (h : (export1 env cwd fs op).1 = .written) :
    (export1 env cwd fs op).2 (normPath env cwd op.spelling) = some op.content ∧
    ∀ q, q ≠ normPath env cwd op.spelling → (export1 env cwd fs op).2 q = fs q := by
  have hw := exportAt_written fs _ op.kind op.userExt op.overwrite op.content h
  unfold export1
  rw [hw]
  refine ⟨by simp [FS.write], ?_⟩
  intro q hq
  simp [FS.write, hq]

/-- what one export leaves at a path -/
theorem export1_at (env : Env) (cwd : Path) (fs : FS) (op : Op) (q : Path) :
    (export1 env cwd fs op).2 q =
      if (export1 env cwd fs op).1 = .written ∧ normPath env cwd op.spelling = q then some op.content else fs q := by
  by_cases hw : (export1 env cwd fs op).1 = .written
  · obtain ⟨h1, h2⟩ := export_accepted_changes_only_target env cwd fs op hw
    by_cases hq : normPath env cwd op.spelling = q
    · simp only [hw, hq, and_self, if_true]; rw [← hq]; exact h1
    · simp only [hw, hq, and_false, if_false]; exact h2 q (fun e => hq e.symm)
  · simp only [hw, false_and, if_false]
    rw [export_refused_changes_nothing env cwd fs op hw]

/-! ### histories -/

/-- the bytes of the last accepted export of a history that targeted `q` -/
def lastWriter (env : Env) (cwd q : Path) : List (Op × Outcome) → Option Nat
  | [] => none
  | x :: t => match lastWriter env cwd q t with
    | some c => some c
    | none => if x.2 = .written ∧ normPath env cwd x.1.spelling = q then some x.1.content else none

/-- PROPERTY (guard invariant over arbitrary export histories).  After ANY sequence of exports — any exporter kinds,
spellings, extensions, overwrite flags — every path of the file system holds the bytes of the last accepted export
that targeted it, and a path no accepted export targeted holds exactly what it held before. -/
theorem export_history_final (env : Env) (cwd q : Path) : ∀ (ops : List Op) (fs : FS),
    (runHistory env cwd fs ops).2 q =
      match lastWriter env cwd q (ops.zip (runHistory env cwd fs ops).1) with
      | some c => some c
      | none => fs q := by
  intro ops
  induction ops with
  | nil => intro fs; simp [runHistory, lastWriter]
  | cons op t ih =>
    intro fs
    have := ih (export1 env cwd fs op).2
    simp only [runHistory, List.zip_cons_cons, lastWriter]
    rw [this]
    cases hl : lastWriter env cwd q (t.zip (runHistory env cwd (export1 env cwd fs op).2 t).1) with
    | some c => rfl
    | none =>
      simp only
      rw [export1_at]
      split <;> rfl

/-- an accepted export on an existing path was asked to overwrite -/
theorem export1_written_existing (env : Env) (cwd : Path) (fs : FS) (op : Op) (v : Nat)
    (hv : fs (normPath env cwd op.spelling) = some v) (h : (export1 env cwd fs op).1 = .written) :
    op.overwrite = true := by
  cases how : op.overwrite with
  | true => rfl
  | false =>
    have : (export1 env cwd fs op).1 = .overwriteError := by
      unfold export1
      rw [how, exportAt_refused fs _ op.kind op.userExt op.content (by simp [hv])]
    rw [this] at h
    exact absurd h (by decide)

/-- PROPERTY (files are never clobbered unasked).  A file that exists before a history in which no export targets it
with overwrite=True holds its original bytes at the end — whatever else the history exports, in whatever spellings. -/
theorem export_history_never_clobbers (env : Env) (cwd p : Path) (v : Nat) (ops : List Op) (fs : FS)
    (hv : fs p = some v) (hno : ∀ op ∈ ops, normPath env cwd op.spelling = p → op.overwrite = false) :
    (runHistory env cwd fs ops).2 p = some v := by
  -- no accepted export targeted p: by induction, generalising the file system
  have key : ∀ (ops : List Op) (fs : FS), fs p = some v →
      (∀ op ∈ ops, normPath env cwd op.spelling = p → op.overwrite = false) →
      lastWriter env cwd p (ops.zip (runHistory env cwd fs ops).1) = none ∧ (runHistory env cwd fs ops).2 p = some v := by
    intro ops
    induction ops with
    | nil => intro fs hv _; exact ⟨rfl, hv⟩
    | cons op t ih =>
      intro fs hv hno
      have hnw : ¬ ((export1 env cwd fs op).1 = .written ∧ normPath env cwd op.spelling = p) := by
        rintro ⟨hw, hp⟩
        have := export1_written_existing env cwd fs op v (by rw [hp]; exact hv) hw
        rw [hno op (by simp) hp] at this
        exact absurd this (by decide)
      have hkeep : (export1 env cwd fs op).2 p = some v := by
        rw [export1_at]; simp only [hnw, if_false]; exact hv
      obtain ⟨h1, h2⟩ := ih (export1 env cwd fs op).2 hkeep (fun o ho => hno o (by simp [ho]))
      refine ⟨?_, by simpa [runHistory] using h2⟩
      simp only [runHistory, List.zip_cons_cons, lastWriter, h1]
      simp only [hnw, if_false]
  exact (key ops fs hv hno).2

/-! ### the expansions -/

theorem expandVarsF_noop (env : Env) : ∀ (f : Nat) (s : List Char), '$' ∉ s → expandVarsF env f s = s := by
  intro f
  induction f with
  | zero => intro s _; simp [expandVarsF]
  | succ f ih =>
    intro s hs
    cases s with
    | nil => simp [expandVarsF]
    | cons c rest =>
      have hc : c ≠ '$' := fun h => hs (by simp [h])
      have hr : '$' ∉ rest := fun h => hs (by simp [h])
      have hstep : expandVarsF env (f + 1) (c :: rest) = c :: expandVarsF env f rest := by
        rw [expandVarsF]
        intro hcd
        exact hc hcd
      rw [hstep, ih _ hr]

/-- a spelling that does not begin with `~` and contains no `$` is not touched by the two expansions -/
theorem expand_noop (env : Env) (s : List Char) (h1 : s.head? ≠ some '~') (h2 : '$' ∉ s) :
    expandVars env (expandUser env s) = s := by
  have hu : expandUser env s = s := by
    unfold expandUser
    split
    · simp at h1
    · rfl
  rw [hu]
  exact expandVarsF_noop env _ s h2

/-- `~/rest` is `$HOME`, without its trailing slashes, followed by `/rest` -/
theorem expandUser_home (env : Env) (home rest : List Char) (hh : env.get ['H', 'O', 'M', 'E'] = some home) :
    expandUser env ('~' :: '/' :: rest) = rstripSlash home ++ '/' :: rest := by
  simp [expandUser, hh]

/-! ### the exporters as coded -/

theorem coded_eq_repaired (env : Env) (cwd : Path) (fs : FS) (op : Op)
    (h : ¬ (op.kind = .video ∧ op.asStr = true) ∨ normPathRaw env cwd op.spelling = normPath env cwd op.spelling) :
    export1Coded env cwd fs op = export1 env cwd fs op := by
  unfold export1Coded export1 exportAt writePathCoded
  rcases h with h | h
  · simp only [h, if_false]
  · split
    · rw [h]
    · rfl

/-- on histories without a `str`-spelled video export whose raw spelling normalises differently, the earlier code ran
exactly the histories the theorems are about -/
theorem runHistoryCoded_eq (env : Env) (cwd : Path) : ∀ (ops : List Op) (fs : FS),
    (∀ op ∈ ops, ¬ (op.kind = .video ∧ op.asStr = true) ∨
      normPathRaw env cwd op.spelling = normPath env cwd op.spelling) →
    runHistoryCoded env cwd fs ops = runHistory env cwd fs ops := by
  intro ops
  induction ops with
  | nil => intro fs _; rfl
  | cons op t ih =>
    intro fs h
    have h1 := coded_eq_repaired env cwd fs op (h op (by simp))
    have h2 := ih (export1 env cwd fs op).2 (fun o ho => h o (by simp [ho]))
    unfold runHistoryCoded at h2 ⊢
    simp only [runHistoryWith, runHistory, h1, h2]

/-- the witness: `HOME=/h`, working directory `/d`, the file `/d/~/v.mp4` exists -/
def clobberEnv : Env := ⟨[("HOME".toList, "/h".toList)]⟩
def clobberFS : FS := fun q => if q = ["d".toList, "~".toList, "v.mp4".toList] then some 7 else none
def clobberOp : Op := ⟨.video, "./~/v.mp4".toList, none, false, 99, true⟩

/-- REFUTATION BY WITNESS (the code until adfd5d8).  `export_video(images, './~/v.mp4')` with overwrite not requested:
accepted, and the existing `/d/~/v.mp4` now holds the new bytes. -/
theorem video_str_tilde_clobbers :
    (export1Coded clobberEnv ["d".toList] clobberFS clobberOp).1 = .written ∧
    clobberFS ["d".toList, "~".toList, "v.mp4".toList] = some 7 ∧
    (export1Coded clobberEnv ["d".toList] clobberFS clobberOp).2 ["d".toList, "~".toList, "v.mp4".toList] = some 99 := by
  decide +kernel

/-- … whereas with checked path = written path the same call writes `$HOME/v.mp4` and leaves the file alone -/
theorem video_str_tilde_repaired :
    (export1 clobberEnv ["d".toList] clobberFS clobberOp).1 = .written ∧
    (export1 clobberEnv ["d".toList] clobberFS clobberOp).2 ["d".toList, "~".toList, "v.mp4".toList] = some 7 ∧
    (export1 clobberEnv ["d".toList] clobberFS clobberOp).2 ["h".toList, "v.mp4".toList] = some 99 := by
  decide +kernel

/-- the guard invariant was FALSE of the code until adfd5d8 -/
theorem coded_guard_refuted :
    ¬ ∀ (env : Env) (cwd p : Path) (v : Nat) (ops : List Op) (fs : FS), fs p = some v →
      (∀ op ∈ ops, op.overwrite = false) → (runHistoryCoded env cwd fs ops).2 p = some v := by
  intro h
  have := h clobberEnv ["d".toList] ["d".toList, "~".toList, "v.mp4".toList] 7 [clobberOp] clobberFS
    (by decide +kernel) (by decide +kernel)
  exact absurd this (by decide +kernel)

/-! ### non-vacuity -/

/-- a history through `~`, `$VAR`, `..`, `str` and `Path` spellings of ONE file: written once, refused three times,
then overwritten on request; the neighbour file is never touched -/
example :
    let env : Env := ⟨[("HOME".toList, "/d/".toList), ("SUB".toList, "out".toList)]⟩
    let fs0 : FS := fun q => if q = ["d".toList, "out".toList, "keep.pkl".toList] then some 1000 else none
    let r := runHistory env ["d".toList] fs0
      [⟨.pickle, "out/m.pkl".toList, none, false, 0, true⟩, ⟨.pickle, "~/out/m.pkl".toList, none, false, 1, true⟩,
       ⟨.pickle, "$SUB/x/../m.pkl".toList, none, false, 2, false⟩, ⟨.pickle, "/d/${SUB}//m.pkl".toList, none, false, 3, true⟩,
       ⟨.pickle, "./~/out/x/../m.pkl".toList, none, true, 4, true⟩]
    r.1 = [.written, .overwriteError, .overwriteError, .overwriteError, .written] ∧
    r.2 ["d".toList, "out".toList, "m.pkl".toList] = some 4 ∧
    r.2 ["d".toList, "out".toList, "keep.pkl".toList] = some 1000 := by
  decide +kernel

end MenpoModel.C16
