/-
C20 (extension) — theorems about the object-level helpers of `compositions.py` (each centre convention as coded),
the `Scale` factory with its `n_dims` argument (coded: refuted by witness; repaired: proved), `init_identity`,
the texture-coordinate transforms built through the factory (guard, corners, flip, inverse) and the constructor table.
-/
import MenpoModel.Core.C20Ext
import MenpoModel.Props.C20Base
import Mathlib.Data.Rat.Cast.Defs
import Mathlib.Tactic.Push

namespace MenpoModel.C20

/-! ### means commute with affine maps -/

theorem sum2_map (m : Aff2) (ps : List V2) :
    sum2 (ps.map m.apply) =
      ⟨m.a * (sum2 ps).x + m.b * (sum2 ps).y + (ps.length : Rat) * m.tx,
       m.c * (sum2 ps).x + m.d * (sum2 ps).y + (ps.length : Rat) * m.ty⟩ := by
  induction ps with
  | nil => simp [sum2]
  | cons p ps ih =>
    simp only [List.map_cons, sum2, ih, List.length_cons, V2.add, Aff2.apply]
    ext <;> simp only [] <;> push_cast <;> ring

/-- the centre of mass of the transformed points is the transformed centre of mass (any affine map) -/
theorem centreOfMass2_map (m : Aff2) (ps : List V2) (h : ps ≠ []) :
    centreOfMass2 (ps.map m.apply) = m.apply (centreOfMass2 ps) := by
  have hn : (ps.length : Rat) ≠ 0 := by
    have : ps.length ≠ 0 := by simpa using h
    exact_mod_cast this
  simp only [centreOfMass2, sum2_map, List.length_map, V2.smul, Aff2.apply]
  ext <;> simp only [] <;> field_simp

theorem sum3_map (m : Aff3) (ps : List V3) :
    sum3 (ps.map m.apply) = ((m.l.apply (sum3 ps)).add (V3.smul (ps.length : Rat) m.t)) := by
  induction ps with
  | nil => simp [sum3, Lin3.apply, V3.dot, V3.add, V3.smul]
  | cons p ps ih =>
    simp only [List.map_cons, sum3, ih, List.length_cons, V3.add, Aff3.apply, Lin3.apply, V3.dot, V3.smul]
    ext <;> simp only [] <;> push_cast <;> ring

theorem centreOfMass3_map (m : Aff3) (ps : List V3) (h : ps ≠ []) :
    centreOfMass3 (ps.map m.apply) = m.apply (centreOfMass3 ps) := by
  have hn : (ps.length : Rat) ≠ 0 := by
    have : ps.length ≠ 0 := by simpa using h
    exact_mod_cast this
  simp only [centreOfMass3, sum3_map, List.length_map, V3.smul, Aff3.apply, Lin3.apply, V3.dot, V3.add]
  ext <;> simp only [] <;> field_simp

/-! ### PROPERTY: the centre conventions, as coded -/

/-- point clouds and meshes use the centre of mass of ALL their points, images half their shape -/
theorem centre_conventions (pts : List V2) (tris : List (Nat × Nat × Nat)) (h w : Nat) :
    (Obj2.cloud pts).centre = centreOfMass2 pts ∧ (Obj2.mesh pts tris).centre = centreOfMass2 pts ∧
    (Obj2.image h w).centre = ⟨(h : Rat) / 2, (w : Rat) / 2⟩ := ⟨rfl, rfl, rfl⟩

/-- the conventions really differ: for the triangle (0,0),(3,0),(0,4) the centre of mass is (1, 4/3), the centre of
its bounds (3/2, 2); and an image's centre `shape/2` is not the centre `(shape−1)/2` of its pixel grid -/
theorem centre_conventions_differ :
    centreOfMass2 [⟨0, 0⟩, ⟨3, 0⟩, ⟨0, 4⟩] = ⟨1, 4 / 3⟩ ∧ centreOfBounds2 [⟨0, 0⟩, ⟨3, 0⟩, ⟨0, 4⟩] = ⟨3 / 2, 2⟩ ∧
    (Obj2.image 5 8).centre = ⟨5 / 2, 4⟩ ∧ (Obj2.image 5 8).centre ≠ ⟨(5 - 1) / 2, (8 - 1) / 2⟩ := by
  refine ⟨?_, ?_, ?_, ?_⟩ <;> decide +kernel

/-! ### PROPERTY: transforms about the centre of an object keep it fixed and act as the plain transform on offsets -/

/-- exactly the linear transforms keep the centre fixed (every centre) -/
theorem about_centre2_fixes_iff (ctr : V2) (t : Aff2) :
    (aboutCentre2 ctr t).apply ctr = ctr ↔ (t.tx = 0 ∧ t.ty = 0) := by
  constructor
  · intro h
    have hx := congrArg V2.x h
    have hy := congrArg V2.y h
    simp only [aboutCentre2, transl2, Aff2.comp, Aff2.apply, V2.neg] at hx hy
    constructor
    · linear_combination hx
    · linear_combination hy
  · exact about_centre2_fixes ctr t

theorem uscale2_apply (k : Rat) (v : V2) : (uscale2 k).apply v = V2.smul k v := by
  ext <;> simp [uscale2, Aff2.apply, V2.smul]

theorem uscale3_apply (k : Rat) (v : V3) : (uscale3 k).apply v = V3.smul k v := by
  ext <;> simp [uscale3, Aff3.apply, Lin3.apply, V3.dot, V3.smul, V3.add]

/-- `scale_about_centre` on every 2-D object (point cloud, mesh, image): centre fixed, offsets multiplied by `k` -/
theorem scale_about_centre_2d (o : Obj2) (k : Rat) :
    ∃ m, scaleAboutCentre (.d2 o) k = .a2 m ∧ m.apply o.centre = o.centre ∧
      ∀ v, m.apply (o.centre.add v) = o.centre.add (V2.smul k v) := by
  refine ⟨_, rfl, about_centre2_fixes _ _ (by simp [uscale2]), fun v => ?_⟩
  rw [about_centre2_offsets, uscale2_apply]

/-- … and on every 3-D object -/
theorem scale_about_centre_3d (o : Obj3) (k : Rat) :
    ∃ m, scaleAboutCentre (.d3 o) k = .a3 m ∧ m.apply o.centre = o.centre ∧
      ∀ v, m.apply (o.centre.add v) = o.centre.add (V3.smul k v) := by
  refine ⟨_, rfl, about_centre3_fixes _ _ rfl, fun v => ?_⟩
  rw [about_centre3_offsets, uscale3_apply]

/-- an array of per-axis factors (documented for `scale_about_centre`): the per-axis scale about the centre -/
theorem scale_about_centre_array_2d (o : Obj2) (kx ky : Rat) :
    (scaleAboutCentreArr2 o kx ky).apply o.centre = o.centre ∧
    ∀ v, (scaleAboutCentreArr2 o kx ky).apply (o.centre.add v) = o.centre.add ⟨kx * v.x, ky * v.y⟩ := by
  refine ⟨about_centre2_fixes _ _ (by simp [scale2]), fun v => ?_⟩
  rw [scaleAboutCentreArr2, about_centre2_offsets]
  ext <;> simp [scale2, Aff2.apply]

/-- `rotate_ccw_about_centre`: on 2-D objects the centre is fixed and offsets turn counter-clockwise by the angle;
3-D objects are refused -/
theorem rotate_about_centre_spec (c s : Rat) :
    (∀ o : Obj2, ∃ m, rotateCcwAboutCentre (.d2 o) c s = .ok m ∧ m.apply o.centre = o.centre ∧
      ∀ v, m.apply (o.centre.add v) = o.centre.add ⟨c * v.x - s * v.y, s * v.x + c * v.y⟩) ∧
    (∀ o : Obj3, rotateCcwAboutCentre (.d3 o) c s = .error .valueError) := by
  refine ⟨fun o => ⟨_, rfl, about_centre2_fixes _ _ (by simp [rot2]), fun v => ?_⟩, fun _ => rfl⟩
  rw [about_centre2_offsets]
  ext <;> simp only [rot2, Aff2.apply, V2.add] <;> ring

/-- `shear_about_centre`: likewise, with the shear `(x, y) ↦ (x + tan φ · y, tan ψ · x + y)` on offsets -/
theorem shear_about_centre_spec (tp ts : Rat) :
    (∀ o : Obj2, ∃ m, shearAboutCentre (.d2 o) tp ts = .ok m ∧ m.apply o.centre = o.centre ∧
      ∀ v, m.apply (o.centre.add v) = o.centre.add ⟨v.x + tp * v.y, ts * v.x + v.y⟩) ∧
    (∀ o : Obj3, shearAboutCentre (.d3 o) tp ts = .error .valueError) := by
  refine ⟨fun o => ⟨_, rfl, about_centre2_fixes _ _ (by simp [shear2]), fun v => ?_⟩, fun _ => rfl⟩
  rw [about_centre2_offsets]
  ext <;> simp [shear2, Aff2.apply]

/-- for point clouds and meshes "the centre" is the centre of mass, and a linear transform about it leaves the centre
of mass of the TRANSFORMED object where it was (so a second about-centre transform uses the same centre) -/
theorem about_centre_keeps_centre_of_mass (pts : List V2) (t : Aff2) (h : pts ≠ []) (h0 : t.tx = 0 ∧ t.ty = 0) :
    centreOfMass2 (pts.map (aboutCentre2 (centreOfMass2 pts) t).apply) = centreOfMass2 pts := by
  rw [centreOfMass2_map _ _ h]; exact about_centre2_fixes _ _ h0

theorem about_centre_keeps_centre_of_mass_3d (pts : List V3) (m : Aff3) (h : pts ≠ []) (h0 : m.t = ⟨0, 0, 0⟩) :
    centreOfMass3 (pts.map (aboutCentre3 (centreOfMass3 pts) m).apply) = centreOfMass3 pts := by
  rw [centreOfMass3_map _ _ h]; exact about_centre3_fixes _ _ h0

/-- the centre of mass moves with the object: translating the points translates the centre used by the helpers -/
theorem centre_of_mass_translate (pts : List V2) (d : V2) (h : pts ≠ []) :
    centreOfMass2 (pts.map (transl2 d).apply) = (centreOfMass2 pts).add d := by
  rw [centreOfMass2_map _ _ h]; ext <;> simp [transl2, Aff2.apply, V2.add]

/-- images: a half-turn about the centre `shape/2` maps `(y, x)` to `(h − y, w − x)` -/
theorem image_half_turn_about_centre (h w : Nat) (p : V2) :
    (aboutCentre2 (Obj2.image h w).centre (rot2 (-1) 0)).apply p = ⟨(h : Rat) - p.x, (w : Rat) - p.y⟩ := by
  ext <;> simp only [Obj2.centre, aboutCentre2, transl2, rot2, Aff2.comp, Aff2.apply, V2.neg] <;> ring

/-- the TransformChain fall-back of `transform_about_centre` computes the same map as the single-matrix fast path,
acts as the given function on offsets, and keeps the centre exactly when the function keeps the origin -/
theorem about_centre_fn_spec (ctr : V2) :
    (∀ t : Aff2, aboutCentreFn2 ctr t.apply = (aboutCentre2 ctr t).apply) ∧
    (∀ (f : V2 → V2) (v : V2), aboutCentreFn2 ctr f (ctr.add v) = ctr.add (f v)) ∧
    (∀ f : V2 → V2, aboutCentreFn2 ctr f ctr = ctr ↔ f ⟨0, 0⟩ = ⟨0, 0⟩) := by
  refine ⟨fun t => ?_, fun f v => ?_, fun f => ?_⟩
  · funext p
    ext <;> simp only [aboutCentreFn2, aboutCentre2, transl2, Aff2.comp, Aff2.apply, V2.add, V2.neg] <;> ring
  · have e : (ctr.add v).add ctr.neg = v := by ext <;> simp [V2.add, V2.neg]
    simp only [aboutCentreFn2, e]
    ext <;> simp [V2.add, add_comm]
  · have e : ctr.add ctr.neg = ⟨0, 0⟩ := by ext <;> simp [V2.add, V2.neg]
    simp only [aboutCentreFn2, e]
    constructor
    · intro h
      have hx := congrArg V2.x h
      have hy := congrArg V2.y h
      simp only [V2.add] at hx hy
      ext
      · simpa using hx
      · simpa using hy
    · intro h; rw [h]; ext <;> simp [V2.add]

theorem about_centre_fn_spec_3d (ctr : V3) (f : V3 → V3) (v : V3) :
    aboutCentreFn3 ctr f (ctr.add v) = ctr.add (f v) ∧
    (∀ m : Aff3, aboutCentreFn3 ctr m.apply = (aboutCentre3 ctr m).apply) := by
  constructor
  · have e : (ctr.add v).add ctr.neg = v := by ext <;> simp [V3.add, V3.neg]
    simp only [aboutCentreFn3, e]
    ext <;> simp [V3.add, add_comm]
  · intro m; funext p
    ext <;> simp only [aboutCentreFn3, aboutCentre3, Aff3.apply, Lin3.apply, V3.dot, V3.add, V3.neg] <;> ring

/-! ### PROPERTY: `init_identity` -/

/-- every `init_identity` returns its own class in the requested dimension; the classes with a 2-D/3-D guard refuse
the other dimensions and nothing else is refused -/
theorem init_identity_spec (k : Cls) (n : Nat) :
    (initIdentity k n = .ok (k, n) ∨ initIdentity k n = .error .valueError) ∧
    (initIdentity k n = .error .valueError ↔ (k.guards23 = true ∧ n ≠ 2 ∧ n ≠ 3)) := by
  unfold initIdentity
  by_cases hg : k.guards23 = true <;> by_cases h2 : n = 2 <;> by_cases h3 : n = 3 <;> simp [hg, h2, h3]

/-! ### PROPERTY: the `Scale` factory, `n_dims` argument included -/

def ScaleArg.factors : ScaleArg → List Rat
  | .scalar k => [k]
  | .array ks => ks

theorem fillDiagonal_length (vals : List Rat) (n : Nat) : (fillDiagonal vals n).length = n := by
  simp [fillDiagonal]

theorem fillDiagonal_mem (vals : List Rat) (n : Nat) (h : vals ≠ []) : ∀ x ∈ fillDiagonal vals n, x ∈ vals := by
  intro x hx
  simp only [fillDiagonal, List.mem_map, List.mem_range] at hx
  obtain ⟨i, _, rfl⟩ := hx
  have hl : 0 < vals.length := List.length_pos_iff.mpr h
  have : i % vals.length < vals.length := Nat.mod_lt _ hl
  rw [List.getD_eq_getElem?_getD, List.getElem?_eq_getElem this]
  exact List.getElem_mem _

theorem fillDiagonal_all_eq (vals : List Rat) (n : Nat) (k : Rat) (h : vals ≠ []) (hall : ∀ x ∈ vals, x = k) :
    fillDiagonal vals n = List.replicate n k := by
  apply List.eq_replicate_iff.mpr
  exact ⟨fillDiagonal_length _ _, fun x hx => hall x (fillDiagonal_mem vals n h x hx)⟩

theorem honest_uniform_replicate (n : Nat) (k : Rat) : (ScaleObj.mk .uniformScale n (List.replicate n k)).honest = true := by
  cases n with
  | zero => rfl
  | succ m => simp [ScaleObj.honest, List.replicate_succ]

/-- what the property asks of the factory for an argument `arg` and optional `n_dims` -/
def ScaleSpec (arg : ScaleArg) (r : Except Err ScaleObj) : Prop :=
  ((∃ x ∈ arg.factors, x = 0) → r = .error .valueError) ∧
  ∀ o, r = .ok o →
    o.honest = true ∧ (o.cls = .uniformScale ∨ o.cls = .nonUniformScale) ∧
    (o.cls = .uniformScale ↔ ∀ x ∈ arg.factors, ∀ y ∈ arg.factors, x = y) ∧
    (o.nDims = 2 ∨ o.nDims = 3) ∧ o.diag.length = o.nDims ∧ (∀ x ∈ o.diag, x ∈ arg.factors ∧ x ≠ 0)

private theorem all_eq_head {k : Rat} {t : List Rat} (hall : ((k :: t).all (· == k)) = true) :
    ∀ x ∈ k :: t, ∀ y ∈ k :: t, x = y := by
  have h : ∀ x ∈ k :: t, x = k := by simpa using hall
  intro x hx y hy; rw [h x hx, h y hy]

private theorem not_all_eq_head {k : Rat} {t : List Rat} (hall : ¬ ((k :: t).all (· == k)) = true) :
    ¬ ∀ x ∈ k :: t, ∀ y ∈ k :: t, x = y := by
  intro h; apply hall
  simp only [List.all_eq_true, beq_iff_eq]
  intro x hx; exact h x hx k (by simp)

private theorem no_zero {ks : List Rat} (hz : ¬ (ks.any (· == 0)) = true) : ∀ x ∈ ks, x ≠ 0 := by
  intro x hx h0; apply hz; simp only [List.any_eq_true, beq_iff_eq]; exact ⟨x, hx, h0⟩

private theorem spec_uniform (arg : ScaleArg) (vals : List Rat) (n : Nat) (k : Rat) (hv : vals ≠ [])
    (hall : ∀ x ∈ vals, x = k) (hsub : ∀ x ∈ vals, x ∈ arg.factors) (hnz : ∀ x ∈ arg.factors, x ≠ 0)
    (heq : ∀ x ∈ arg.factors, ∀ y ∈ arg.factors, x = y) : ScaleSpec arg (mkUniformScale vals n) := by
  refine ⟨fun ⟨x, hx, h0⟩ => absurd h0 (hnz x hx), fun o ho => ?_⟩
  unfold mkUniformScale at ho
  by_cases hn : (n == 2 || n == 3) = true
  · simp only [hn, if_true, Except.ok.injEq] at ho
    subst ho
    have hn' : n = 2 ∨ n = 3 := by simpa using hn
    refine ⟨?_, Or.inl rfl, ⟨fun _ => heq, fun _ => rfl⟩, hn', fillDiagonal_length _ _, fun x hx => ?_⟩
    · rw [fillDiagonal_all_eq vals n k hv hall]; exact honest_uniform_replicate n k
    · have := fillDiagonal_mem vals n hv x hx
      exact ⟨hsub x this, hnz x (hsub x this)⟩
  · simp [hn] at ho

private theorem spec_nonuniform (arg : ScaleArg) (ks : List Rat) (hks : arg.factors = ks) (hnz : ∀ x ∈ ks, x ≠ 0)
    (hne : ¬ ∀ x ∈ ks, ∀ y ∈ ks, x = y) : ScaleSpec arg (mkNonUniformScale ks) := by
  refine ⟨fun ⟨x, hx, h0⟩ => absurd h0 (hnz x (hks ▸ hx)), fun o ho => ?_⟩
  unfold mkNonUniformScale at ho
  by_cases hn : (ks.length == 2 || ks.length == 3) = true
  · simp only [hn, if_true, Except.ok.injEq] at ho
    subst ho
    have hn' : ks.length = 2 ∨ ks.length = 3 := by simpa using hn
    refine ⟨rfl, Or.inr rfl, ⟨fun h => (by cases h), fun h => absurd (hks ▸ h) hne⟩, hn', rfl, fun x hx => ?_⟩
    exact ⟨hks ▸ hx, hnz x hx⟩
  · simp [hn] at ho

/-- THE REPAIRED FACTORY meets the property for every argument shape: zeros are refused, the result is a uniform scale
exactly when all factors are equal, it is what its class says, it is 2-D or 3-D and carries the given factors -/
theorem scale_factory_fixed_spec (arg : ScaleArg) (nDims : Option Nat) :
    ScaleSpec arg (scaleFactoryFixed arg nDims) := by
  cases arg with
  | scalar k =>
    cases nDims with
    | none =>
      by_cases hk : (k == 0) = true
      · have hk' : k = 0 := by simpa using hk
        refine ⟨fun _ => by simp [scaleFactoryFixed, scaleFactoryCoded, hk], fun o ho => ?_⟩
        simp [scaleFactoryFixed, scaleFactoryCoded, hk] at ho
      · have hk' : k ≠ 0 := by simpa using hk
        refine ⟨fun ⟨x, hx, h0⟩ => ?_, fun o ho => ?_⟩
        · simp only [ScaleArg.factors, List.mem_singleton] at hx; exact absurd (hx ▸ h0) hk'
        · simp [scaleFactoryFixed, scaleFactoryCoded, hk] at ho
    | some n =>
      by_cases hk : (k == 0) = true
      · refine ⟨fun _ => by simp [scaleFactoryFixed, scaleFactoryCoded, hk], fun o ho => ?_⟩
        simp [scaleFactoryFixed, scaleFactoryCoded, hk] at ho
      · have hk' : k ≠ 0 := by simpa using hk
        have e : scaleFactoryFixed (.scalar k) (some n) = mkUniformScale [k] n := by
          simp [scaleFactoryFixed, scaleFactoryCoded, hk]
        rw [e]
        exact spec_uniform _ [k] n k (by simp) (by simp) (by simp [ScaleArg.factors])
          (by simpa [ScaleArg.factors] using hk') (by simp [ScaleArg.factors])
  | array ks =>
    by_cases hz : (ks.any (· == 0)) = true
    · have hz' : ∃ x ∈ ks, x = 0 := by simpa using hz
      refine ⟨fun _ => ?_, fun o ho => ?_⟩
      · cases nDims <;> simp [scaleFactoryFixed, scaleFactoryCoded, hz]
      · cases nDims <;> simp [scaleFactoryFixed, scaleFactoryCoded, hz] at ho
    · have hnz := no_zero hz
      cases ks with
      | nil =>
        refine ⟨fun ⟨x, hx, _⟩ => by simp [ScaleArg.factors] at hx, fun o ho => ?_⟩
        cases nDims <;> simp [scaleFactoryFixed, scaleFactoryCoded] at ho
      | cons k t =>
        by_cases hall : ((k :: t).all (· == k)) = true
        · have hall' : ∀ x ∈ k :: t, x = k := by simpa using hall
          cases nDims with
          | none =>
            have e : scaleFactoryFixed (.array (k :: t)) none = mkUniformScale [k] (k :: t).length := by
              simp only [scaleFactoryFixed, scaleFactoryCoded, hz, hall]; simp
            rw [e]
            exact spec_uniform _ [k] _ k (by simp) (by simp) (by simp [ScaleArg.factors]) hnz (all_eq_head hall)
          | some n =>
            have e : scaleFactoryFixed (.array (k :: t)) (some n) = mkUniformScale (k :: t) n := by
              simp only [scaleFactoryFixed, hz, hall]; simp
            rw [e]
            exact spec_uniform _ (k :: t) n k (by simp) hall' (fun x hx => hx) hnz (all_eq_head hall)
        · cases nDims with
          | none =>
            have e : scaleFactoryFixed (.array (k :: t)) none = mkNonUniformScale (k :: t) := by
              simp only [scaleFactoryFixed, scaleFactoryCoded, hz, hall]; simp
            rw [e]
            exact spec_nonuniform _ _ rfl hnz (not_all_eq_head hall)
          | some n =>
            by_cases hl : ((k :: t).length == n) = true
            · have e : scaleFactoryFixed (.array (k :: t)) (some n) = mkNonUniformScale (k :: t) := by
                simp only [scaleFactoryFixed, hz, hall, hl]; simp
              rw [e]
              exact spec_nonuniform _ _ rfl hnz (not_all_eq_head hall)
            · have e : scaleFactoryFixed (.array (k :: t)) (some n) = .error .valueError := by
                simp only [scaleFactoryFixed, hz, hall, hl]; simp
              rw [e]
              exact ⟨fun _ => rfl, fun o ho => by cases ho⟩

private theorem mkUniformScale_ok (vals : List Rat) (n : Nat) (hn : n = 2 ∨ n = 3) : ∃ o, mkUniformScale vals n = .ok o := by
  have : (n == 2 || n == 3) = true := by rcases hn with h | h <;> simp [h]
  simp only [mkUniformScale, this, if_true]; exact ⟨_, rfl⟩

private theorem mkNonUniformScale_ok (ks : List Rat) (hn : ks.length = 2 ∨ ks.length = 3) :
    ∃ o, mkNonUniformScale ks = .ok o := by
  have : (ks.length == 2 || ks.length == 3) = true := by rcases hn with h | h <;> simp [h]
  simp only [mkNonUniformScale, this, if_true]; exact ⟨_, rfl⟩

/-- … and it ANSWERS when it should (`ScaleSpec` alone would be met by a factory that refuses everything): non-zero
factors in a 2-D/3-D setting give a scale object — a number with `n_dims ∈ {2, 3}`; 2 or 3 factors without `n_dims`;
factors with `n_dims ∈ {2, 3}` when they are all equal or as many as `n_dims` -/
theorem scale_factory_fixed_answers :
    (∀ (k : Rat) (n : Nat), k ≠ 0 → (n = 2 ∨ n = 3) → ∃ o, scaleFactoryFixed (.scalar k) (some n) = .ok o) ∧
    (∀ ks : List Rat, (∀ x ∈ ks, x ≠ 0) → (ks.length = 2 ∨ ks.length = 3) → ∃ o, scaleFactoryFixed (.array ks) none = .ok o) ∧
    (∀ (ks : List Rat) (n : Nat), ks ≠ [] → (∀ x ∈ ks, x ≠ 0) → (n = 2 ∨ n = 3) →
      ((∀ x ∈ ks, ∀ y ∈ ks, x = y) ∨ ks.length = n) → ∃ o, scaleFactoryFixed (.array ks) (some n) = .ok o) := by
  have hzero : ∀ ks : List Rat, (∀ x ∈ ks, x ≠ 0) → ¬ (ks.any (· == 0)) = true := by
    intro ks hnz h; simp only [List.any_eq_true, beq_iff_eq] at h
    obtain ⟨x, hx, h0⟩ := h; exact hnz x hx h0
  refine ⟨?_, ?_, ?_⟩
  · intro k n hk hn
    have e : scaleFactoryFixed (.scalar k) (some n) = mkUniformScale [k] n := by
      simp [scaleFactoryFixed, scaleFactoryCoded, hk]
    rw [e]; exact mkUniformScale_ok _ _ hn
  · intro ks hnz hl
    have hz := hzero ks hnz
    cases ks with
    | nil => simp at hl
    | cons k t =>
      by_cases hall : ((k :: t).all (· == k)) = true
      · have e : scaleFactoryFixed (.array (k :: t)) none = mkUniformScale [k] (k :: t).length := by
          simp only [scaleFactoryFixed, scaleFactoryCoded, hz, hall]; simp
        rw [e]; exact mkUniformScale_ok _ _ hl
      · have e : scaleFactoryFixed (.array (k :: t)) none = mkNonUniformScale (k :: t) := by
          simp only [scaleFactoryFixed, scaleFactoryCoded, hz, hall]; simp
        rw [e]; exact mkNonUniformScale_ok _ hl
  · intro ks n hne hnz hn hor
    have hz := hzero ks hnz
    cases ks with
    | nil => exact absurd rfl hne
    | cons k t =>
      by_cases hall : ((k :: t).all (· == k)) = true
      · have e : scaleFactoryFixed (.array (k :: t)) (some n) = mkUniformScale (k :: t) n := by
          simp only [scaleFactoryFixed, hz, hall]; simp
        rw [e]; exact mkUniformScale_ok _ _ hn
      · have hlen : (k :: t).length = n := by
          rcases hor with heq | hl
          · exact absurd heq (not_all_eq_head hall)
          · exact hl
        have hl' : ((k :: t).length == n) = true := by simp [hlen]
        have e : scaleFactoryFixed (.array (k :: t)) (some n) = mkNonUniformScale (k :: t) := by
          simp only [scaleFactoryFixed, hz, hall, hl']; simp
        rw [e]; exact mkNonUniformScale_ok _ (hlen ▸ hn)

/-- THE CODED FACTORY meets the property whenever `n_dims` is not combined with an array … -/
theorem scale_factory_coded_spec (arg : ScaleArg) (nDims : Option Nat)
    (h : nDims = none ∨ ∃ k, arg = .scalar k) : ScaleSpec arg (scaleFactoryCoded arg nDims) := by
  have e : scaleFactoryCoded arg nDims = scaleFactoryFixed arg nDims := by
    rcases h with rfl | ⟨k, rfl⟩
    · cases arg <;> rfl
    · cases nDims <;> rfl
  rw [e]; exact scale_factory_fixed_spec arg nDims

/-- … and is REFUTED when it is: `Scale([2, 3], n_dims=2)` is a `UniformScale` whose matrix has the diagonal (2, 3)
(`np.fill_diagonal` writes the array), so the result is "uniform" although the factors differ
(notes/fixes/C20-scale-factory-array-with-ndims.diff) -/
theorem scale_factory_coded_refuted :
    scaleFactoryCoded (.array [2, 3]) (some 2) = .ok ⟨.uniformScale, 2, [2, 3]⟩ ∧
    ¬ ScaleSpec (.array [2, 3]) (scaleFactoryCoded (.array [2, 3]) (some 2)) := by
  have e : scaleFactoryCoded (.array [2, 3]) (some 2) = .ok ⟨.uniformScale, 2, [2, 3]⟩ := by decide +kernel
  refine ⟨e, fun h => ?_⟩
  have := (h.2 _ e).1
  revert this; decide +kernel

/-- the factory of the base model is the array branch of the full one (2-D and 3-D) -/
theorem scale_factory_agrees_with_base (ks : List Rat) (hl : ks.length = 2 ∨ ks.length = 3) :
    scaleFactoryCoded (.array ks) none =
      match scaleFactory ks with
      | none => .error .valueError
      | some (.uniform k n) => .ok ⟨.uniformScale, n, List.replicate n k⟩
      | some (.nonUniform l) => .ok ⟨.nonUniformScale, l.length, l⟩ := by
  unfold scaleFactoryCoded scaleFactory
  by_cases hz : (ks.any (· == 0)) = true
  · simp [hz]
  · cases ks with
    | nil => simp at hl
    | cons k t =>
      have hl' : ((k :: t).length == 2 || (k :: t).length == 3) = true := by
        rcases hl with h | h <;> simp [h]
      by_cases hall : ((k :: t).all (· == k)) = true
      · simp only [hz, hall, Bool.false_eq_true, if_false, if_true, mkUniformScale, hl']
        rw [fillDiagonal_all_eq [k] _ k (by simp) (by simp)]
      · simp only [hz, hall, Bool.false_eq_true, if_false, mkNonUniformScale, hl']
        simp

/-! ### PROPERTY: texture ↔ image coordinates for every image shape -/

/-- the `h, w ≥ 2` guard is the factory's zero test: a side of length one is refused, every other shape is accepted and
gives the matrix of the base model (whether the factory took its uniform or its non-uniform branch) -/
theorem tcoords_shape_guard (h w : Nat) :
    tcoordsToImageShape h w = if h = 1 ∨ w = 1 then none else some (tcoordsToImage h w) := by
  have hh : ((h : Rat) - 1 = 0) ↔ h = 1 := by
    rw [sub_eq_zero]; exact_mod_cast Iff.rfl
  have hw : ((w : Rat) - 1 = 0) ↔ w = 1 := by
    rw [sub_eq_zero]; exact_mod_cast Iff.rfl
  unfold tcoordsToImageShape scaleFactoryCoded
  by_cases h1 : h = 1
  · have : ((h : Rat) - 1 == 0) = true := by simpa using hh.mpr h1
    simp [h1]
  · by_cases w1 : w = 1
    · simp [w1]
    · have nh : ¬ ((h : Rat) - 1 = 0) := fun e => h1 (hh.mp e)
      have nw : ¬ ((w : Rat) - 1 = 0) := fun e => w1 (hw.mp e)
      have hz : ([(h : Rat) - 1, (w : Rat) - 1].any (· == 0)) = false := by simp [nh, nw]
      simp only [hz, h1, w1, or_self, if_false, Bool.false_eq_true]
      by_cases hall : ([(h : Rat) - 1, (w : Rat) - 1].all (· == (h : Rat) - 1)) = true
      · have e : (w : Rat) - 1 = (h : Rat) - 1 := by simpa using hall
        simp only [hall, if_true, mkUniformScale, List.length_cons, List.length_nil]
        rw [fillDiagonal_all_eq [(h : Rat) - 1] _ ((h : Rat) - 1) (by simp) (by simp)]
        simp [ScaleObj.toAff2, List.replicate, tcoordsToImage, e]
      · simp only [hall, Bool.false_eq_true, if_false, mkNonUniformScale, List.length_cons, List.length_nil]
        simp [ScaleObj.toAff2, tcoordsToImage]

/-- for every image with at least two rows and two columns: both transforms exist, the unit square's corners go to the
corner pixels with the vertical axis flipped, the two are mutual inverses, the texture's vertical axis runs against the
image's row axis and its horizontal axis with the column axis, and the unit square lands inside the image -/
theorem tcoords_shape_spec (h w : Nat) (hh : 2 ≤ h) (hw : 2 ≤ w) :
    ∃ t ti, tcoordsToImageShape h w = some t ∧ imageToTcoordsShape h w = some ti ∧
      (t.apply ⟨0, 0⟩ = ⟨(h : Rat) - 1, 0⟩ ∧ t.apply ⟨0, 1⟩ = ⟨0, 0⟩ ∧
       t.apply ⟨1, 1⟩ = ⟨0, (w : Rat) - 1⟩ ∧ t.apply ⟨1, 0⟩ = ⟨(h : Rat) - 1, (w : Rat) - 1⟩) ∧
      (∀ p, ti.apply (t.apply p) = p ∧ t.apply (ti.apply p) = p) ∧
      (∀ p q : V2, p.y < q.y → (t.apply q).x < (t.apply p).x) ∧
      (∀ p q : V2, p.x < q.x → (t.apply p).y < (t.apply q).y) ∧
      (∀ p : V2, 0 ≤ p.x → p.x ≤ 1 → 0 ≤ p.y → p.y ≤ 1 →
        0 ≤ (t.apply p).x ∧ (t.apply p).x ≤ (h : Rat) - 1 ∧ 0 ≤ (t.apply p).y ∧ (t.apply p).y ≤ (w : Rat) - 1) := by
  have h1 : h ≠ 1 := by omega
  have w1 : w ≠ 1 := by omega
  have hq : (1 : Rat) < h := by exact_mod_cast (by omega : 1 < h)
  have wq : (1 : Rat) < w := by exact_mod_cast (by omega : 1 < w)
  have hne : (h : Rat) ≠ 1 := ne_of_gt hq
  have wne : (w : Rat) ≠ 1 := ne_of_gt wq
  have e : tcoordsToImageShape h w = some (tcoordsToImage h w) := by rw [tcoords_shape_guard]; simp [h1, w1]
  refine ⟨tcoordsToImage h w, imageToTcoords h w, e, by simp [imageToTcoordsShape, e, imageToTcoords],
    tcoords_corners _ _, fun p => tcoords_mutual_inverse _ _ hne wne p, ?_, ?_, ?_⟩
  · intro p q hpq
    rw [tcoords_formula, tcoords_formula]
    simp only []
    have : 0 < (h : Rat) - 1 := by linarith
    nlinarith
  · intro p q hpq
    rw [tcoords_formula, tcoords_formula]
    simp only []
    have : 0 < (w : Rat) - 1 := by linarith
    nlinarith
  · intro p hx0 hx1 hy0 hy1
    rw [tcoords_formula]
    simp only []
    have a : 0 < (h : Rat) - 1 := by linarith
    have b : 0 < (w : Rat) - 1 := by linarith
    refine ⟨?_, ?_, ?_, ?_⟩ <;> nlinarith

/-! ### PROPERTY: quaternion round trip — the spectrum of the matrix `_as_vector` diagonalises -/

/-- the symmetric matrix of `_as_vector` is `(4 q qᵀ − 1)/3` for the unit quaternion `q = (x, y, z, w)` -/
theorem quat_K_formula (w x y z a b c d : Rat) (hn : w * w + x * x + y * y + z * z = 1) :
    quatK (quatToLin w x y z) a b c d =
      ((4 * (x * a + y * b + z * c + w * d) * x - a) / 3, (4 * (x * a + y * b + z * c + w * d) * y - b) / 3,
       (4 * (x * a + y * b + z * c + w * d) * z - c) / 3, (4 * (x * a + y * b + z * c + w * d) * w - d) / 3) := by
  simp only [quatK, quatToLin, hn, Prod.mk.injEq]
  refine ⟨?_, ?_, ?_, ?_⟩ <;> field_simp
  · ring
  · ring
  · ring
  · linear_combination (-4 * d) * hn

/-- so `q` is the eigenvector of the eigenvalue 1, every vector orthogonal to `q` has the eigenvalue `−1/3`, and the
ONLY eigenvectors of the eigenvalue 1 are the multiples of `q`: the eigenvector of the largest eigenvalue that
`np.linalg.eigh` returns is `±q` (the part of the eigen-solver contract that is algebra, proved) -/
theorem quat_K_spectrum (w x y z a b c d : Rat) (hn : w * w + x * x + y * y + z * z = 1) :
    (x * a + y * b + z * c + w * d = 0 → quatK (quatToLin w x y z) a b c d = (-a / 3, -b / 3, -c / 3, -d / 3)) ∧
    (quatK (quatToLin w x y z) a b c d = (a, b, c, d) →
      (a, b, c, d) = ((x * a + y * b + z * c + w * d) * x, (x * a + y * b + z * c + w * d) * y,
                      (x * a + y * b + z * c + w * d) * z, (x * a + y * b + z * c + w * d) * w)) := by
  rw [quat_K_formula w x y z a b c d hn]
  constructor
  · intro h; rw [h]; simp only [Prod.mk.injEq]; refine ⟨?_, ?_, ?_, ?_⟩ <;> ring
  · intro h
    simp only [Prod.mk.injEq] at h ⊢
    obtain ⟨h1, h2, h3, h4⟩ := h
    refine ⟨?_, ?_, ?_, ?_⟩
    · linear_combination (-3 / 4 : Rat) * h1
    · linear_combination (-3 / 4 : Rat) * h2
    · linear_combination (-3 / 4 : Rat) * h3
    · linear_combination (-3 / 4 : Rat) * h4

/-- the quaternion convention: `(w, x, y, z) = (cos θ/2, sin θ/2 · a)` is the rotation by `θ` about the unit axis `a`
(scalar part first; `cos θ = ch² − sh²`, `sin θ = 2 ch sh`), in the right-handed sense of `rodrigues` -/
theorem quat_is_rodrigues (a v : V3) (ch sh : Rat) (ha : a.dot a = 1) (hs : ch * ch + sh * sh = 1) :
    (quatToLin ch (sh * a.x) (sh * a.y) (sh * a.z)).apply v = rodrigues a (ch * ch - sh * sh) (2 * ch * sh) v := by
  obtain ⟨ax, ay, az⟩ := a
  obtain ⟨vx, vy, vz⟩ := v
  simp only [V3.dot] at ha
  have hn : ch * ch + sh * ax * (sh * ax) + sh * ay * (sh * ay) + sh * az * (sh * az) = 1 := by
    linear_combination hs + sh * sh * ha
  ext <;> simp only [quatToLin, hn, Lin3.apply, V3.dot, rodrigues, V3.add, V3.smul, V3.cross, div_one]
  · linear_combination (-((1 - ax * ax) * vx - ax * ay * vy - ax * az * vz)) * hs + (-2 * sh * sh * vx) * ha
  · linear_combination (-((1 - ay * ay) * vy - ay * ax * vx - ay * az * vz)) * hs + (-2 * sh * sh * vy) * ha
  · linear_combination (-((1 - az * az) * vz - az * ax * vx - az * ay * vy)) * hs + (-2 * sh * sh * vz) * ha

/-! ### PROPERTY: when the 3-D axis/angle recovery answers at all -/

/-- `(None, None)` exactly for the identity and the half-turns (the cases the property excludes) -/
theorem axis_angle_3d_defined_iff (c s : Rat) (h : c * c + s * s = 1) :
    axisAngle3Defined c s = false ↔ (s = 0 ∧ (c = 1 ∨ c = -1)) := by
  unfold axisAngle3Defined nRealUnitEigenvalues
  by_cases hs : s = 0
  · subst hs
    have hc : (c - 1) * (c + 1) = 0 := by linear_combination h
    have : c = 1 ∨ c = -1 := by
      rcases mul_eq_zero.mp hc with h1 | h1
      · left; linarith
      · right; linarith
    simp [this]
  · simp [hs]

/-- the perpendicular the code builds from the axis and the random vector: it is perpendicular to the axis, and it
vanishes only if the random vector is parallel to the axis -/
theorem perpOf_spec (a r : V3) (ha : a.dot a = 1) :
    a.dot (perpOf a r) = 0 ∧ perpOf a r = (a.cross r).neg ∧
    ((perpOf a r).dot (perpOf a r) = r.dot r - (a.dot r) * (a.dot r)) := by
  obtain ⟨ax, ay, az⟩ := a
  obtain ⟨rx, ry, rz⟩ := r
  simp only [V3.dot] at ha
  refine ⟨?_, ?_, ?_⟩
  · simp only [perpOf, V3.dot, V3.cross, V3.add, V3.neg]; ring
  · ext <;> simp only [perpOf, V3.cross, V3.add, V3.neg] <;> ring
  · simp only [perpOf, V3.dot, V3.cross, V3.add, V3.neg]
    linear_combination (rx * rx + ry * ry + rz * rz) * ha

/-! ### the constructor table is what the model computes -/

/-- every `init_identity` row: the result is the owner's class in the requested dimension, or a refusal -/
theorem identity_rows_sound :
    identityRows.all (fun r => (r.result == r.owner && r.arg == s!"n_dims={r.nDims}") || r.result == "ValueError") = true := by
  decide +kernel

theorem model_table_length : modelCtorTable.length = 123 := by decide +kernel

/-! ### non-vacuity -/
example : (scaleAboutCentre (.d2 (.cloud [⟨0, 0⟩, ⟨3, 0⟩, ⟨0, 4⟩])) 2) = .a2 ⟨2, 0, -1, 0, 2, -4 / 3⟩ := by decide +kernel
example : (rotateCcwAboutCentre (.d2 (.image 5 8)) 0 1) = .ok ⟨0, -1, 13 / 2, 1, 0, 3 / 2⟩ := by decide +kernel
example : scaleFactoryFixed (.array [2, 3]) (some 2) = .ok ⟨.nonUniformScale, 2, [2, 3]⟩ := by decide +kernel
example : scaleFactoryFixed (.array [2, 2]) (some 3) = .ok ⟨.uniformScale, 3, [2, 2, 2]⟩ := by decide +kernel
example : scaleFactoryFixed (.array [-2, -2]) none = .ok ⟨.uniformScale, 2, [-2, -2]⟩ := by decide +kernel
example : scaleFactoryFixed (.array [2, 3]) (some 3) = .error .valueError := by decide +kernel
example : tcoordsToImageShape 5 5 = some ⟨0, -4, 4, 4, 0, 0⟩ := by decide +kernel
example : tcoordsToImageShape 1 5 = none := by decide +kernel
example : axisAngle3Defined (3 / 5) (4 / 5) = true ∧ axisAngle3Defined (-1) 0 = false := by decide +kernel

end MenpoModel.C20
