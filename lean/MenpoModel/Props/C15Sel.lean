/-
C15 — selection, continued: the error branches of `_new_group_with_only_labels` characterised exactly, requests
that are permuted / carry duplicates, `without_labels` of every label, unknown names, the `str` argument form.
Core Lean only.
-/
import MenpoModel.Props.C15Base

namespace MenpoModel.C15

/-- the value a successful selection returns, as one term -/
def selected {α} (g : LGraph α) (req : List String) : LGraph α :=
  { pts := maskFilter g.pts (selMask g req), edges := inducedEdges (selMask g req) g.edges,
    labels := restrictLabels g req (selMask g req) }

/-- **selection, exactly under the guard the code uses**: `_new_group_with_only_labels(req)` returns a group iff
every requested label exists, the request is not empty and at least one point lies under a requested label; the
group it then returns is `selected g req` and nothing else -/
theorem select_iff {α} (g : LGraph α) (hwf : WF g) (req : List String) (g' : LGraph α) :
    select g req = .ok g' ↔
      (∀ l ∈ req, l ∈ g.names) ∧ req ≠ [] ∧ (selMask g req).any id = true ∧ g' = selected g req := by
  constructor
  · intro h
    obtain ⟨hk, hany, hp, he, hl⟩ := select_ok hwf h
    refine ⟨hk, ?_, hany, ?_⟩
    · rintro rfl
      rw [(select_total g hwf []).2.1 rfl] at h
      cases h
    · cases g'
      simp only [selected, LGraph.mk.injEq]
      exact ⟨hp, he, hl⟩
  · rintro ⟨hk, hne, hany, rfl⟩
    obtain ⟨g'', hg''⟩ := (select_total g hwf req).2.2.2 hk hne hany
    obtain ⟨_, _, hp, he, hl⟩ := select_ok hwf hg''
    rw [hg'']
    cases g''
    simp only [selected, Except.ok.injEq, LGraph.mk.injEq]
    exact ⟨hp, he, hl⟩

/-- **every way a selection raises**, with the exception kind the code produces -/
theorem select_error_iff {α} (g : LGraph α) (hwf : WF g) (req : List String) (e : Err) :
    select g req = .error e ↔
      (e = .value ∧ ∃ l ∈ req, l ∉ g.names) ∨
      (e = .index ∧ req = []) ∨
      (e = .empty ∧ (∀ l ∈ req, l ∈ g.names) ∧ req ≠ [] ∧ (selMask g req).any id = false) := by
  obtain ⟨h1, h2, h3, h4⟩ := select_total g hwf req
  by_cases hu : ∃ l ∈ req, l ∉ g.names
  · rw [h1 hu]
    constructor
    · intro h; injection h with h; exact Or.inl ⟨h.symm, hu⟩
    · rintro (⟨rfl, _⟩ | ⟨rfl, rfl⟩ | ⟨_, hk, _, _⟩)
      · rfl
      · obtain ⟨l, hl, _⟩ := hu; cases hl
      · obtain ⟨l, hl, hn⟩ := hu; exact absurd (hk l hl) hn
  · have hk : ∀ l ∈ req, l ∈ g.names := by
      intro l hl
      apply Classical.byContradiction
      intro hn
      exact hu ⟨l, hl, hn⟩
    by_cases hnil : req = []
    · rw [h2 hnil]
      constructor
      · intro h; injection h with h; exact Or.inr (Or.inl ⟨h.symm, hnil⟩)
      · rintro (⟨_, hx⟩ | ⟨rfl, _⟩ | ⟨_, _, hne, _⟩)
        · exact absurd hx hu
        · rfl
        · exact absurd hnil hne
    · cases hany : (selMask g req).any id with
      | false =>
        rw [h3 hk hnil hany]
        constructor
        · intro h; injection h with h; exact Or.inr (Or.inr ⟨h.symm, hk, hnil, rfl⟩)
        · rintro (⟨_, hx⟩ | ⟨_, hx⟩ | ⟨rfl, _⟩)
          · exact absurd hx hu
          · exact absurd hx hnil
          · rfl
      | true =>
        obtain ⟨g', hg'⟩ := h4 hk hnil hany
        rw [hg']
        constructor
        · intro h; cases h
        · rintro (⟨_, hx⟩ | ⟨_, hx⟩ | ⟨_, _, _, hx⟩)
          · exact absurd hx hu
          · exact absurd hx hnil
          · cases hx

/-- "no point lies under the requested labels" in terms of the masks: every requested mask is all-false -/
theorem selMask_any_iff {α} (g : LGraph α) (hwf : WF g) (req : List String) :
    (selMask g req).any id = true ↔ ∃ l ∈ req, ∃ m, lookup g.labels l = some m ∧ m.any id = true := by
  rw [any_id_iff]
  constructor
  · rintro ⟨v, hv⟩
    obtain ⟨_, l, hl, m, hm, hmv⟩ := (selMask_spec g req v).mp hv
    exact ⟨l, hl, m, hm, (any_id_iff m).mpr ⟨v, hmv⟩⟩
  · rintro ⟨l, hl, m, hm, hany⟩
    obtain ⟨v, hmv⟩ := (any_id_iff m).mp hany
    refine ⟨v, (selMask_spec g req v).mpr ⟨?_, l, hl, m, hm, hmv⟩⟩
    have hlen : m.length = g.pts.length := hwf.maskLen _ (lookup_eq_some_mem hm)
    have : v < m.length := by
      apply Classical.byContradiction
      intro hge
      rw [List.getElem?_eq_none (by omega)] at hmv
      cases hmv
    omega

/-- a successful selection is never an empty selection: it has at least one point and one label -/
theorem select_nonempty {α} {g g' : LGraph α} (hwf : WF g) {req : List String} (h : select g req = .ok g') :
    g'.pts ≠ [] ∧ g'.labels ≠ [] := by
  obtain ⟨_, hne, hany, rfl⟩ := (select_iff g hwf req g').mp h
  constructor
  · obtain ⟨v, hv⟩ := (any_id_iff _).mp hany
    have := maskFilter_rank g.pts (selMask g req) v (selMask_length g req).symm hv
    intro hnil
    simp only [selected] at hnil
    rw [hnil] at this
    have hv' : v < g.pts.length := ((selMask_spec g req v).mp hv).1
    rw [List.getElem?_eq_getElem hv'] at this
    simp at this
  · cases req with
    | nil => exact absurd rfl hne
    | cons x xs => simp [selected, restrictLabels, dedup]

/-! ### requests that are permuted or carry duplicates -/

theorem lookup_restrictLabels {α} (g : LGraph α) (req : List String) (ov : List Bool) (l : String) :
    lookup (restrictLabels g req ov) l =
      if l ∈ req then some (maskFilter ((lookup g.labels l).getD []) ov) else none := by
  split
  · rename_i h
    unfold restrictLabels
    exact lookup_map_mk _ (fun l => maskFilter ((lookup g.labels l).getD []) ov) l ((mem_dedup l req).mpr h)
  · rename_i h
    have hn : l ∉ (restrictLabels g req ov).map Prod.fst := by
      simp only [restrictLabels, List.map_map, Function.comp_def, List.map_id']
      exact fun hc => h ((mem_dedup l req).mp hc)
    have := (lookup_isNone_iff (restrictLabels g req ov) l).mpr hn
    cases hl : lookup (restrictLabels g req ov) l <;> simp_all

/-- **`with_labels` with a permuted or duplicated request**: two requests naming the same set of labels (in any
order, with any repetitions) succeed together and return the same points, the same edges and, label by label, the
same restricted masks; only the order of the labels follows the request (first occurrences) -/
theorem select_same_set {α} {g g₁ : LGraph α} (hwf : WF g) {req req' : List String}
    (hset : ∀ l, l ∈ req ↔ l ∈ req') (h : select g req = .ok g₁) :
    ∃ g₂, select g req' = .ok g₂ ∧ g₂.pts = g₁.pts ∧ g₂.edges = g₁.edges ∧
      g₁.names = dedup req ∧ g₂.names = dedup req' ∧ g₂.names.Perm g₁.names ∧
      ∀ l, lookup g₂.labels l = lookup g₁.labels l := by
  obtain ⟨hk, hne, hany, rfl⟩ := (select_iff g hwf req _).mp h
  have hm := selMask_congr g req req' hset
  have hne' : req' ≠ [] := by
    rintro rfl
    cases req with
    | nil => exact hne rfl
    | cons x xs => exact absurd ((hset x).mp List.mem_cons_self) (by simp)
  refine ⟨selected g req', (select_iff g hwf req' _).mpr ⟨fun l hl => hk l ((hset l).mpr hl), hne', hm ▸ hany, rfl⟩,
    by simp [selected, hm], by simp [selected, hm], ?_, ?_, ?_, ?_⟩
  · simp [selected, LGraph.names, restrictLabels, Function.comp_def]
  · simp [selected, LGraph.names, restrictLabels, Function.comp_def]
  · simp only [selected, LGraph.names, restrictLabels, List.map_map, Function.comp_def, List.map_id']
    apply (List.perm_ext_iff_of_nodup (dedup_nodup _) (dedup_nodup _)).mpr
    intro l
    rw [mem_dedup, mem_dedup]
    exact (hset l).symm
  · intro l
    simp only [selected, lookup_restrictLabels, hm]
    by_cases hl : l ∈ req
    · simp [hl, (hset l).mp hl]
    · have hl' : l ∉ req' := fun hc => hl ((hset l).mpr hc)
      simp [hl, hl']

/-- the duplicate-free request returns literally the same group as the request with repetitions -/
theorem select_dedup {α} (g : LGraph α) (hwf : WF g) (req : List String) :
    select g (dedup req) = select g req := by
  have hset : ∀ l, l ∈ dedup req ↔ l ∈ req := fun l => mem_dedup l req
  have hdd : dedup (dedup req) = dedup req := dedup_of_nodup _ (dedup_nodup req)
  cases h : select g req with
  | ok g₁ =>
    obtain ⟨hk, hne, hany, rfl⟩ := (select_iff g hwf req _).mp h
    apply (select_iff g hwf (dedup req) _).mpr
    refine ⟨fun l hl => hk l ((hset l).mp hl), ?_, ?_, ?_⟩
    · cases req with
      | nil => exact absurd rfl hne
      | cons x xs => simp [dedup]
    · rw [selMask_congr g (dedup req) req hset]; exact hany
    · simp only [selected, selMask_congr g (dedup req) req hset, restrictLabels, hdd]
  | error e =>
    apply (select_error_iff g hwf (dedup req) e).mpr
    rcases (select_error_iff g hwf req e).mp h with ⟨rfl, l, hl, hn⟩ | ⟨rfl, rfl⟩ | ⟨rfl, hk, hne, hany⟩
    · exact Or.inl ⟨rfl, l, (hset l).mpr hl, hn⟩
    · exact Or.inr (Or.inl ⟨rfl, rfl⟩)
    · refine Or.inr (Or.inr ⟨rfl, fun l hl => hk l ((hset l).mp hl), ?_, ?_⟩)
      · cases req with
        | nil => exact absurd rfl hne
        | cons x xs => simp [dedup]
      · rw [selMask_congr g (dedup req) req hset]; exact hany

/-! ### `without_labels`: every label excluded, unknown names -/

theorem filter_not_contains_eq_nil (names excl : List String) :
    names.filter (fun l => !excl.contains l) = [] ↔ ∀ l ∈ names, l ∈ excl := by
  simp [List.filter_eq_nil_iff]

/-- **`without_labels` of all labels is refused** (the code meets a 0-d mask and raises `IndexError`); it is
refused *only* then or when the remaining labels mask no point — it never returns an empty selection and it never
complains about a label name -/
theorem withoutLabels_refusals {α} (g : LGraph α) (hwf : WF g) (excl : List String) :
    ((∀ l ∈ g.names, l ∈ excl) → withoutLabels g excl = .error .index) ∧
    (∀ e, withoutLabels g excl = .error e →
      (e = .index ∧ ∀ l ∈ g.names, l ∈ excl) ∨
      (e = .empty ∧ (∃ l ∈ g.names, l ∉ excl) ∧
        ∀ p ∈ g.labels, p.1 ∉ excl → p.2.any id = false)) ∧
    (∀ g', withoutLabels g excl = .ok g' → g'.pts ≠ [] ∧ g'.labels ≠ []) := by
  refine ⟨?_, ?_, fun g' h => select_nonempty hwf h⟩
  · intro hall
    unfold withoutLabels
    rw [(filter_not_contains_eq_nil g.names excl).mpr hall]
    exact (select_total g hwf []).2.1 rfl
  · intro e h
    unfold withoutLabels at h
    rcases (select_error_iff g hwf _ e).mp h with ⟨_, l, hl, hn⟩ | ⟨rfl, hnil⟩ | ⟨rfl, _, hne, hany⟩
    · exact absurd (List.mem_filter.mp hl).1 hn
    · exact Or.inl ⟨rfl, (filter_not_contains_eq_nil g.names excl).mp hnil⟩
    · refine Or.inr ⟨rfl, ?_, ?_⟩
      · apply Classical.byContradiction
        intro hc
        apply hne
        apply (filter_not_contains_eq_nil g.names excl).mpr
        intro l hl
        apply Classical.byContradiction
        intro hn
        exact hc ⟨l, hl, hn⟩
      · intro p hp hpe
        cases hpa : p.2.any id with
        | false => rfl
        | true =>
          have : (selMask g (g.names.filter fun l => !excl.contains l)).any id = true := by
            apply (selMask_any_iff g hwf _).mpr
            refine ⟨p.1, ?_, p.2, lookup_of_mem_nodup hwf.names hp, hpa⟩
            simp only [List.mem_filter, Bool.not_eq_true', List.contains_eq_mem, decide_eq_false_iff_not]
            exact ⟨List.mem_map_of_mem (f := Prod.fst) hp, hpe⟩
          rw [this] at hany
          cases hany

/-- **unknown names in the exclusion list are ignored** (`[l for l in self.labels if l not in labels]` never
looks a requested name up): only the part of `excl` that names labels of the group matters -/
theorem withoutLabels_unknown_ignored {α} (g : LGraph α) (excl : List String) :
    withoutLabels g excl = withoutLabels g (excl.filter fun l => g.names.contains l) := by
  unfold withoutLabels
  congr 1
  apply List.filter_congr
  intro l hl
  simp only [List.contains_eq_mem, List.mem_filter, decide_eq_true_eq, Bool.not_eq_eq_eq_not, Bool.not_not]
  simp [hl]

/-- the exclusion list is a set: order and repetitions of `excl` do not matter at all -/
theorem withoutLabels_excl_set {α} (g : LGraph α) (excl excl' : List String) (h : ∀ l, l ∈ excl ↔ l ∈ excl') :
    withoutLabels g excl = withoutLabels g excl' := by
  unfold withoutLabels
  congr 1
  apply List.filter_congr
  intro l _
  simp [h l]

/-! ### the constructors: a group with an unlabelled point cannot be built -/

/-- **the constructor, exactly**: `LabelledPointUndirectedGraph(points, adjacency, labels_to_masks)` succeeds iff
there is at least one label, every mask is as long as the points and every point lies under some mask; it then
holds exactly its arguments; every refusal is a `ValueError` -/
theorem construct_iff {α} (pts : List α) (es : List (Nat × Nat)) (ls : List (String × List Bool)) :
    (∀ g, construct pts es ls = .ok g ↔
      ls ≠ [] ∧ (∀ p ∈ ls, p.2.length = pts.length) ∧
      (∀ i, i < pts.length → ∃ p ∈ ls, p.2[i]? = some true) ∧ g = { pts := pts, edges := es, labels := ls }) ∧
    (∀ e, construct pts es ls = .error e → e = .value) := by
  unfold construct
  constructor
  · intro g
    cases ls with
    | nil => simp
    | cons q qs =>
      simp only [List.isEmpty_cons, Bool.false_eq_true, if_false, ne_eq, reduceCtorEq, not_false_eq_true, true_and]
      by_cases hlen : (q :: qs).any (fun p => p.2.length != pts.length) = true
      · simp only [hlen, if_true]
        constructor
        · intro h; cases h
        · rintro ⟨hl, _, _⟩
          obtain ⟨p, hp, hne⟩ := List.any_eq_true.mp hlen
          simp only [bne_iff_ne, ne_eq] at hne
          exact absurd (hl p hp) hne
      · have hl : ∀ p ∈ q :: qs, p.2.length = pts.length := by
          intro p hp
          apply Classical.byContradiction
          intro hne
          exact hlen (List.any_eq_true.mpr ⟨p, hp, by simpa using hne⟩)
        simp only [hlen]
        cases hc : coveredB pts.length (q :: qs) with
        | false =>
          simp only [Bool.not_false, if_true]
          constructor
          · intro h; cases h
          · rintro ⟨_, hcov, _⟩
            rw [(coveredB_iff _ _).mpr hcov] at hc
            cases hc
        | true =>
          simp only [Bool.not_true, Bool.false_eq_true, if_false, Except.ok.injEq]
          constructor
          · intro h; exact ⟨hl, (coveredB_iff _ _).mp hc, h.symm⟩
          · rintro ⟨_, _, h⟩; exact h.symm
  · intro e h
    split at h
    · injection h with h; exact h.symm
    · split at h
      · injection h with h; exact h.symm
      · split at h
        · injection h with h; exact h.symm
        · cases h

/-- a constructed group is covered: **every point carries at least one label** from the moment the group exists -/
theorem construct_covered {α} {pts : List α} {es : List (Nat × Nat)} {ls : List (String × List Bool)}
    {g : LGraph α} (h : construct pts es ls = .ok g) : Covered g := by
  obtain ⟨_, _, hc, rfl⟩ := ((construct_iff pts es ls).1 g).mp h
  exact hc

/-- `init_with_all_label` always succeeds (on at least… any number of points) and labels every point `"all"` -/
theorem initWithAllLabel_ok {α} (pts : List α) (es : List (Nat × Nat)) :
    initWithAllLabel pts es = .ok { pts := pts, edges := es, labels := [("all", List.replicate pts.length true)] } := by
  unfold initWithAllLabel
  apply ((construct_iff pts es _).1 _).mpr
  refine ⟨by simp, by simp, ?_, rfl⟩
  intro i hi
  exact ⟨_, List.mem_singleton.mpr rfl, by simp [hi]⟩

theorem masksOfIndices_ok {n : Nat} {mapping : List (String × List Int)} {ms : List (String × List Bool)}
    (h : masksOfIndices n mapping = .ok ms) :
    ms.map Prod.fst = mapping.map Prod.fst ∧
    ∀ p ∈ ms, ∃ idx js, (p.1, idx) ∈ mapping ∧ normAll n idx = some js ∧ p.2 = indexMask n js := by
  induction mapping generalizing ms with
  | nil =>
    simp only [masksOfIndices] at h
    injection h with h; subst h
    exact ⟨rfl, fun _ hp => by cases hp⟩
  | cons q qs ih =>
    obtain ⟨l, idx⟩ := q
    simp only [masksOfIndices] at h
    split at h
    · cases h
    · rename_i js hjs
      split at h
      · cases h
      · rename_i ms' hms'
        injection h with h; subst h
        obtain ⟨ih1, ih2⟩ := ih hms'
        refine ⟨by simp [ih1], ?_⟩
        intro p hp
        rcases List.mem_cons.mp hp with rfl | hp
        · exact ⟨idx, js, List.mem_cons_self, hjs, rfl⟩
        · obtain ⟨idx', js', hm, hn, he⟩ := ih2 p hp
          exact ⟨idx', js', List.mem_cons_of_mem _ hm, hn, he⟩

theorem masksOfIndices_err {n : Nat} {mapping : List (String × List Int)} {e : Err}
    (h : masksOfIndices n mapping = .error e) : e = .index := by
  induction mapping with
  | nil => simp [masksOfIndices] at h
  | cons q qs ih =>
    obtain ⟨l, idx⟩ := q
    simp only [masksOfIndices] at h
    split at h
    · injection h with h; exact h.symm
    · split at h
      · rename_i e' he'
        injection h with h
        subst h
        exact ih he'
      · cases h

/-- `init_from_indices_mapping` (the constructor every labeller uses): a successful call returns the given points
and edges, the labels of the mapping in the mapping's order, each mask true exactly at the listed indices, every
point labelled; an index out of range is an `IndexError`, an uncovered point or an empty mapping a `ValueError` -/
theorem initFromIndices_spec {α} {pts : List α} {es : List (Nat × Nat)} {mapping : List (String × List Int)} :
    (∀ g, initFromIndices pts es mapping = .ok g →
      g.pts = pts ∧ g.edges = es ∧ g.names = mapping.map Prod.fst ∧ Covered g ∧
      ∀ p ∈ g.labels, ∃ idx js, (p.1, idx) ∈ mapping ∧ normAll pts.length idx = some js ∧
        ∀ i, p.2[i]? = some true ↔ i < pts.length ∧ i ∈ js) ∧
    (∀ e, initFromIndices pts es mapping = .error e → e = .index ∨ e = .value) := by
  unfold initFromIndices
  constructor
  · intro g h
    split at h
    · cases h
    · rename_i ms hms
      obtain ⟨h1, h2⟩ := masksOfIndices_ok hms
      have hc := construct_covered h
      obtain ⟨_, _, _, rfl⟩ := ((construct_iff pts es ms).1 g).mp h
      refine ⟨rfl, rfl, h1, hc, ?_⟩
      intro p hp
      obtain ⟨idx, js, hm, hn, he⟩ := h2 p hp
      refine ⟨idx, js, hm, hn, fun i => ?_⟩
      rw [he]
      exact indexMask_get _ _ _
  · intro e h
    split at h
    · rename_i e' he'
      injection h with h
      subst h
      exact Or.inl (masksOfIndices_err he')
    · right
      exact (construct_iff pts es _).2 e h

example : construct [10, 11, 12] [(0, 1)] [("a", [true, false, false]), ("b", [false, true, false])] = .error .value := by
  decide
example : construct [10, 11, 12] [(0, 1)] [("a", [true, true])] = .error .value := by decide
example : construct [10, 11, 12] [(0, 1)] ([] : List (String × List Bool)) = .error .value := by decide
example : (initFromIndices [10, 11, 12] [(0, 1)] [("a", [0, -1]), ("b", [1])]).map LGraph.labels =
    .ok [("a", [true, false, true]), ("b", [false, true, false])] := by decide
example : initFromIndices [10, 11, 12] [(0, 1)] [("a", [0, 3])] = .error .index := by decide
example : initFromIndices [10, 11, 12] [(0, 1)] [("a", [0, 1])] = .error .value := by decide

/-! ### the `str` argument form -/

/-- `with_labels('x')` is `with_labels(['x'])`; `without_labels('x')` removes the label named exactly `x` and
keeps every other label in its original order — also those whose names merely contain `x` as a substring -/
theorem labelsArg_str {α} {g g' : LGraph α} (hwf : WF g) (s : String) :
    withLabelsA g (.str s) = withLabels g [s] ∧
    (withoutLabelsA g (.str s) = .ok g' → g'.names = g.names.filter (· != s)) := by
  refine ⟨rfl, fun h => ?_⟩
  have := (withoutLabels_order hwf (excl := [s]) h).1
  rw [this]
  apply List.filter_congr
  intro l _
  by_cases hls : l = s
  · subst hls; simp
  · simp [hls]

def demoStr : LGraph Nat :=
  { pts := [10, 11, 12, 13], edges := [(0, 1), (2, 3)],
    labels := [("left_eye", [true, true, false, false]), ("left_eyebrow", [false, false, true, false]),
               ("eye", [false, true, false, true])] }

example : (withoutLabelsA demoStr (.str "left_eye")).map (fun g => (g.pts, g.names)) =
    .ok ([11, 12, 13], ["left_eyebrow", "eye"]) := by decide
example : (withoutLabelsA demoStr (.str "eye")).map (fun g => (g.pts, g.names)) =
    .ok ([10, 11, 12], ["left_eye", "left_eyebrow"]) := by decide
example : withLabels demo ["c", "a", "c"] = withLabels demo ["c", "a"] := by decide
example : (withLabels demo ["a", "c"]).map LGraph.names = .ok ["a", "c"] ∧
    (withLabels demo ["c", "a", "c"]).map LGraph.names = .ok ["c", "a"] := by decide
example : withoutLabels demo ["zz", "a", "d"] = withoutLabels demo ["d", "a"] := by decide
example : withLabels demoStr ["left_eye", "nose"] = .error .value := by decide

end MenpoModel.C15
