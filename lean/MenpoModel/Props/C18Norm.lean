/-
C18 — Part G: the normalisers on degenerate data and idempotence up to the sign of the scale.

  * a group with a single sample (a one-pixel image, a per-channel normalisation of a 1×1 image, a MaskedImage whose
    mask has exactly one true pixel given to `normalize`): the centred data is 0, any statistic under the
    `σ·σ = var` / `ν·ν = Σx²` contract is 0, so the call is refused when asked and returns zeros when skipping is asked;
  * idempotence of `normalize_std` / `normalize_norm` for a scale function that is a square root only up to sign
    (`σ·σ = var` without `σ ≥ 0`): the second application returns its input or its negation.
-/
import MenpoModel.Props.C18Base

namespace MenpoModel.C18

theorem cen_singleton (a : Rat) : cen [a] = [0] := by
  simp [cen, mean, sum]

theorem var_singleton_zero : var [0] = 0 := by simp [var, mean, sum]
theorem sumsq_singleton_zero : sumsq [0] = 0 := by simp [sumsq, sum]

/-- a statistic whose square is the variance (or the sum of squares) of `[0]` is `0` -/
theorem stat_zero_of_contract (stat : List Rat → Rat) (h : stat [0] * stat [0] = var [0] ∨ stat [0] * stat [0] = sumsq [0]) :
    stat [0] = 0 := by
  rcases h with h | h
  · rw [var_singleton_zero] at h; exact mul_self_eq_zero.mp h
  · rw [sumsq_singleton_zero] at h; exact mul_self_eq_zero.mp h

/-- PROPERTY (zero scale on single-sample groups, per channel): an image with one pixel per channel — or the masked
pixels of a MaskedImage whose mask has exactly one true pixel — is refused when `error_on_divide_by_zero` and returned
as zeros otherwise; never a division by zero -/
theorem normalize_single_sample_per_channel (stat : List Rat → Rat)
    (hc : stat [0] * stat [0] = var [0] ∨ stat [0] * stat [0] = sumsq [0]) (e fx : Bool) (vals : List Rat)
    (hne : vals ≠ []) :
    normalizeV stat .perChannel e fx (vals.map fun a => [a]) =
      if e then .error .zeroScale else .ok (vals.map fun _ => [0]) := by
  have hz := stat_zero_of_contract stat hc
  rw [normalize_per_channel_spec]
  have hex : ∃ row ∈ vals.map (fun a => [a]), stat (cen row) = 0 := by
    cases vals with
    | nil => exact absurd rfl hne
    | cons a t => exact ⟨[a], by simp, by rw [cen_singleton]; exact hz⟩
  cases e with
  | true => rw [if_pos ⟨rfl, hex⟩]; rfl
  | false =>
    simp only [Bool.false_eq_true, false_and, if_false]
    congr 1
    rw [List.map_map]
    apply List.map_congr_left
    intro a _
    simp only [Function.comp, rowNorm, cen_singleton, hz, if_true]

/-- … and overall (`mode='all'`) for a one-channel one-pixel image (repaired code) -/
theorem normalize_single_sample_all (stat : List Rat → Rat)
    (hc : stat [0] * stat [0] = var [0] ∨ stat [0] * stat [0] = sumsq [0]) (e : Bool) (a : Rat) :
    normalizeV stat .all e true [[a]] = if e then .error .zeroScale else .ok [[0]] := by
  have hz := stat_zero_of_contract stat hc
  rw [normalize_all_spec]
  have hcen : cenAll [[a]] = [[0]] := by simp [cenAll, mean, sum]
  rw [hcen]
  have hf : ([[0]] : Chans).flatten = [0] := rfl
  rw [hf, hz]
  simp

/-- on an image: `normalize` of a MaskedImage with exactly one true mask pixel (`bits` has one `true`) -/
example : normalizeImg var .perChannel false true
      ⟨⟨[3], [[5, 7, 9], [1, 2, 4]]⟩, some ⟨[3], [false, true, false]⟩, [(0, [[1]])]⟩
    = .ok ⟨⟨[3], [[0, 0, 0], [0, 0, 0]]⟩, some ⟨[3], [false, true, false]⟩, [(0, [[1]])]⟩ := by decide +kernel
example : normalizeImg var .perChannel true true
      ⟨⟨[3], [[5, 7, 9], [1, 2, 4]]⟩, some ⟨[3], [false, true, false]⟩, []⟩ = .error .zeroScale := by decide +kernel

theorem map_neg_div_neg_one (l : List Rat) : l.map (· / (-1 : Rat)) = l.map (fun x => -x) := by
  apply List.map_congr_left; intro x _; show x / (-1 : Rat) = -x; ring

theorem rowNorm_eq (stat : List Rat → Rat) (r : List Rat) :
    rowNorm stat r = if stat (cen r) = 0 then cen r else (cen r).map (· / stat (cen r)) := rfl

/-- a non-zero number whose square is 1 is 1 or −1 -/
theorem sq_one_cases (s : Rat) (h : s * s = 1) : s = 1 ∨ s = -1 := by
  have : (s - 1) * (s + 1) = 0 := by ring_nf; linarith
  rcases mul_eq_zero.mp this with h1 | h1
  · left; linarith
  · right; linarith

/-- PROPERTY (idempotence up to the sign of the scale, per channel): if the scale function squares to the variance
(`normalize_std`) at the data it sees in both applications — no sign assumption — the second application returns its
input or its negation -/
theorem normalize_std_idempotent_up_to_sign (stat : List Rat → Rat) (row : List Rat) (hne : row ≠ [])
    (hσ : stat (cen row) * stat (cen row) = var (cen row)) (hnz : stat (cen row) ≠ 0)
    (hσ' : stat (rowNorm stat row) * stat (rowNorm stat row) = var (rowNorm stat row)) :
    rowNorm stat (rowNorm stat row) = rowNorm stat row ∨
    rowNorm stat (rowNorm stat row) = (rowNorm stat row).map (fun x => -x) := by
  have hm : mean (rowNorm stat row) = 0 := by unfold mean; rw [sum_rowNorm stat row hne]; simp
  have h1 : stat (rowNorm stat row) * stat (rowNorm stat row) = 1 := by
    rw [hσ', normalize_std_unit_per_channel stat row hσ hnz]
  have hc : cen (rowNorm stat row) = rowNorm stat row := by
    unfold cen; rw [hm]; exact map_sub_zero _
  rcases sq_one_cases _ h1 with h | h
  · left; exact rowNorm_fixpoint stat _ hm h
  · right
    rw [rowNorm_eq stat (rowNorm stat row), hc, h]
    simp only [show ¬ ((-1 : Rat) = 0) by norm_num, if_false]
    exact map_neg_div_neg_one _

/-- … the same for `normalize_norm` (`ν·ν = Σx²`) -/
theorem normalize_norm_idempotent_up_to_sign (stat : List Rat → Rat) (row : List Rat) (hne : row ≠ [])
    (hσ : stat (cen row) * stat (cen row) = sumsq (cen row)) (hnz : stat (cen row) ≠ 0)
    (hσ' : stat (rowNorm stat row) * stat (rowNorm stat row) = sumsq (rowNorm stat row)) :
    rowNorm stat (rowNorm stat row) = rowNorm stat row ∨
    rowNorm stat (rowNorm stat row) = (rowNorm stat row).map (fun x => -x) := by
  have hm : mean (rowNorm stat row) = 0 := by unfold mean; rw [sum_rowNorm stat row hne]; simp
  have h1 : stat (rowNorm stat row) * stat (rowNorm stat row) = 1 := by
    rw [hσ', normalize_norm_unit_per_channel stat row hσ hnz]
  have hc : cen (rowNorm stat row) = rowNorm stat row := by
    unfold cen; rw [hm]; exact map_sub_zero _
  rcases sq_one_cases _ h1 with h | h
  · left; exact rowNorm_fixpoint stat _ hm h
  · right
    rw [rowNorm_eq stat (rowNorm stat row), hc, h]
    simp only [show ¬ ((-1 : Rat) = 0) by norm_num, if_false]
    exact map_neg_div_neg_one _

/-- non-vacuity: a scale function that returns MINUS the standard deviation on the data it sees -/
def statNeg (l : List Rat) : Rat := if l = [-1, 1] then -1 else if l = [1, -1] then -1 else if l = [-2, 2] then -2 else 1
example : rowNorm statNeg [5, 9] = [1, -1] ∧ rowNorm statNeg [1, -1] = [-1, 1] := by decide +kernel
example : statNeg (cen [5, 9]) * statNeg (cen [5, 9]) = var (cen [5, 9]) ∧ statNeg (cen [5, 9]) ≠ 0 ∧
    statNeg (rowNorm statNeg [5, 9]) * statNeg (rowNorm statNeg [5, 9]) = var (rowNorm statNeg [5, 9]) := by decide +kernel

end MenpoModel.C18
