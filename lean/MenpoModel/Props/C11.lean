/-
C11 — incremental model updates equal the batch model on the concatenated data.  Property theorems.

Part I (lists of samples, every entry of every dimension): the transcribed update formulas of
`_increment_multivariate_gaussian_mean/_cov` reproduce mean and covariance of the concatenated data for both
bias conventions; the state of an incremental GMRF after *any* list of increments is the state of the batch
model on the concatenation, hence so is the precision matrix (for any block inverse) and the outcome does not
depend on the chunking; the sufficient statistics `(n, mean, scatter)` that `ipca` maintains (mean formula,
centring, mean-shift pseudo-sample) equal those of batch PCA after any list of increments, centred and
uncentred.  The zero-mean branch test of `ipca` as coded before the repair is refuted by witness and proved
harmless exactly when the running mean is never all-zero.

Part II (Mathlib matrices, QR / SVD / sqrt as contract parameters): the `R`-matrix construction of `ipca`
returns `(U, l)` with `Uᵀ diag(σ) U = U_aᵀ diag(s_a²) U_a + BᵀB`; with the contracts of QR and SVD the rows of
`U` are orthonormal, so `(U, σ)` is an eigen-decomposition of the batch scatter, and two such decompositions
without zero eigenvalues span the same principal subspace.
-/
import MenpoModel.Core.C11
import MenpoModel.Lemmas.C11Stats
import MenpoModel.Lemmas.C11Matrix

set_option linter.unusedSectionVars false

namespace MenpoModel.C11

/-! ## Part I — sufficient statistics -/

/-- PROPERTY (`_increment_multivariate_gaussian_mean`): updating the mean of `X` with the new rows `B`
gives the mean of the concatenated data -/
theorem mean_update_exact (X B : Data) (hX : X ≠ []) :
    meanUpdate X.length (mean X) B = mean (X ++ B) :=
  meanUpdate_mean X B (len_pos_cast X hX)

/-- PROPERTY (`_increment_multivariate_gaussian_cov`, bias 0 and bias 1): the coded update of `np.cov` of
`X` with the new rows `B` is `np.cov` of the concatenated data, entry by entry -/
theorem cov_update_exact (b : Bool) (X B : Data) (h : EnoughSamples b X) :
    covUpdate b X.length (mean X) (covOf b X) B = covOf b (X ++ B) :=
  covUpdate_cov b X B h

/-! ### GMRF -/

theorem enough_map {b X} (φ : Vec → Vec) (h : EnoughSamples b X) : EnoughSamples b (X.map φ) := by
  cases b <;> simpa [EnoughSamples] using h

theorem gmrf_step (b : Bool) (feat : Nat → Vec → Vec) (hf : ∀ e, FeatMean (feat e))
    (X B : Data) (h : EnoughSamples b X) :
    gmrfInc b feat (gmrfInit b feat X) B = gmrfInit b feat (X ++ B) := by
  unfold gmrfInc gmrfInit
  simp only [GState.mk.injEq, List.length_append, true_and]
  refine ⟨meanUpdate_mean X B (len_pos_cast X (enough_ne_nil h)), ?_⟩
  funext e
  rw [hf e X, List.map_append]
  have := covUpdate_cov b (X.map (feat e)) (B.map (feat e)) (enough_map _ h)
  simpa using this

/-- PROPERTY: an incremental GMRF fed any list of increments holds exactly the statistics of the batch model
on the concatenated data: sample count, mean vector and every per-edge / per-vertex covariance block -/
theorem gmrf_increment_refines_stats (b : Bool) (feat : Nat → Vec → Vec) (hf : ∀ e, FeatMean (feat e))
    (chunks : List Data) : ∀ (X0 : Data), EnoughSamples b X0 →
    gmrfRun b feat X0 chunks = gmrfInit b feat (X0 ++ chunks.flatten) := by
  induction chunks with
  | nil => intro X0 _; simp [gmrfRun]
  | cons B cs ih =>
    intro X0 h
    have := ih (X0 ++ B) (enough_append B h)
    simp only [gmrfRun, List.foldl_cons, List.flatten_cons] at this ⊢
    rw [gmrf_step b feat hf X0 B h, this, List.append_assoc]

/-- PROPERTY: the outcome does not depend on how the samples were cut into an initial batch and increments -/
theorem gmrf_chunking_independent (b : Bool) (feat : Nat → Vec → Vec) (hf : ∀ e, FeatMean (feat e))
    (X0 Y0 : Data) (cs ds : List Data) (hX : EnoughSamples b X0) (hY : EnoughSamples b Y0)
    (hsame : X0 ++ cs.flatten = Y0 ++ ds.flatten) :
    gmrfRun b feat X0 cs = gmrfRun b feat Y0 ds := by
  rw [gmrf_increment_refines_stats b feat hf cs X0 hX, gmrf_increment_refines_stats b feat hf ds Y0 hY, hsame]

/-- PROPERTY: for every graph, both edge modes and the edgeless case, both bias conventions and *any*
block-inverse routine, the precision matrix assembled after the increments is the precision matrix of the batch
model on the concatenated data (and the mean and the count agree) -/
theorem gmrf_precision_eq_batch (g : GSpec) (b : Bool) (inv : Mat → Mat) (X0 : Data) (chunks : List Data)
    (h : EnoughSamples b X0) :
    precision g inv (gmrfRun b g.feat X0 chunks).cov
        = precision g inv (gmrfInit b g.feat (X0 ++ chunks.flatten)).cov ∧
    (gmrfRun b g.feat X0 chunks).mean = mean (X0 ++ chunks.flatten) ∧
    (gmrfRun b g.feat X0 chunks).n = (X0 ++ chunks.flatten).length := by
  rw [gmrf_increment_refines_stats b g.feat g.feat_mean chunks X0 h]
  exact ⟨rfl, rfl, rfl⟩

/-- the same with the block covariances spelled out: block `e` is `np.cov` of the block's columns -/
theorem gmrf_block_cov (g : GSpec) (b : Bool) (X0 : Data) (chunks : List Data) (h : EnoughSamples b X0) (e : Nat) :
    (gmrfRun b g.feat X0 chunks).cov e = covOf b ((X0 ++ chunks.flatten).map (g.feat e)) := by
  rw [gmrf_increment_refines_stats b g.feat g.feat_mean chunks X0 h]; rfl

/-! non-vacuity: a 2-vertex chain with one feature per vertex, initial batch of 3, increments of 1 and 2 rows -/
section
def exG : GSpec := ⟨2, 1, [(0, 1)], .concatenation⟩
def exX0 : Data := [vecOfList [1, 2], vecOfList [3, 1], vecOfList [0, 5]]
def exC : List Data := [[vecOfList [2, 2]], [vecOfList [-1, 4], vecOfList [7, 0]]]
example : EnoughSamples false exX0 := by decide
example : EnoughSamples true [vecOfList [1, 2]] := by decide
example : (gmrfRun false exG.feat exX0 exC).n = 6 := by decide +kernel
example : (gmrfRun false exG.feat exX0 exC).mean 0 = 2 := by decide +kernel
example : (gmrfRun false exG.feat exX0 exC).cov 0 0 1 = -23 / 5 ∧
    covOf false ((exX0 ++ exC.flatten).map (exG.feat 0)) 0 1 = -23 / 5 := by
  constructor <;> decide +kernel
end

/-! ### PCA -/

/-- PROPERTY: scatter of a union = scatter_a + scatter_b + (n_a n_b / n)(m_b − m_a)(m_b − m_a)ᵀ -/
theorem scatter_union_identity (X B : Data) (hX : X ≠ []) (hB : B ≠ []) (i j : Nat) :
    gram (centre (X ++ B) (mean (X ++ B))) i j
      = gram (centre X (mean X)) i j + gram (centre B (mean B)) i j
        + (X.length : Rat) * (B.length : Rat) / ((X.length : Rat) + (B.length : Rat))
          * ((mean B i - mean X i) * (mean B j - mean X j)) := by
  have hn := len_pos_cast X hX
  have hb := len_pos_cast B hB
  have hN := len_pos_cast (X ++ B) (by simp [hX])
  simp only [gram_centre_raw]
  unfold mean
  simp only [sumC_append, sumCC_append, List.length_append, Nat.cast_add] at hN ⊢
  field_simp
  ring

/-- PROPERTY (`ipca`): `m = (n_a/n) m_a + (n_b/n) m_b` is the mean of the concatenated data -/
theorem ipca_mean_exact (X B : Data) (hX : X ≠ []) (hB : B ≠ []) (i : Nat) :
    (X.length : Rat) / ((X.length : Rat) + (B.length : Rat)) * mean X i
      + (B.length : Rat) / ((X.length : Rat) + (B.length : Rat)) * mean B i = mean (X ++ B) i := by
  have hn := len_pos_cast X hX
  have hb := len_pos_cast B hB
  have hN := len_pos_cast (X ++ B) (by simp [hX])
  unfold mean
  simp only [sumC_append, List.length_append, Nat.cast_add] at hN ⊢
  field_simp

theorem ipca_centred_step (X B : Data) (hX : X ≠ []) :
    ipcaCentred (pcaBatch true X) B = pcaBatch true (X ++ B) := by
  by_cases hB : B = []
  · subst hB
    have hn := len_pos_cast X hX
    simp only [ipcaCentred, pcaBatch, List.length_nil, Nat.cast_zero, List.append_nil, if_true,
      PState.mk.injEq, Nat.add_zero, true_and]
    constructor
    · funext i; field_simp; simp
    · funext i j; simp [gram, centre, sumCC]
  · simp only [ipcaCentred, pcaBatch, if_true, PState.mk.injEq, List.length_append, true_and]
    constructor
    · funext i; exact ipca_mean_exact X B hX hB i
    · funext i j; rw [scatter_union_identity X B hX hB]

theorem centre_zero (X : Data) : centre X zeroVec = X := by
  simp [centre, zeroVec]

theorem ipca_uncentred_step (X B : Data) :
    ipcaUncentred (pcaBatch false X) B = pcaBatch false (X ++ B) := by
  simp only [ipcaUncentred, pcaBatch, Bool.false_eq_true, if_false, PState.mk.injEq, List.length_append, true_and,
    centre_zero]
  funext i j; simp [gram, sumCC_append]

/-- PROPERTY: feeding data to a PCA model in any number of increments (branch chosen by the model's `centred`
flag, no forgetting) gives the sample count, mean and scatter of one batch model on all the data -/
theorem ipca_spec_refines_batch (centred : Bool) (chunks : List Data) : ∀ (X0 : Data), X0 ≠ [] →
    pcaRunSpec centred X0 chunks = pcaBatch centred (X0 ++ chunks.flatten) := by
  induction chunks with
  | nil => intro X0 _; simp [pcaRunSpec]
  | cons B cs ih =>
    intro X0 h
    have := ih (X0 ++ B) (by simp [h])
    simp only [pcaRunSpec, List.foldl_cons, List.flatten_cons] at this ⊢
    have hs : ipcaStepSpec centred (pcaBatch centred X0) B = pcaBatch centred (X0 ++ B) := by
      cases centred
      · exact ipca_uncentred_step X0 B
      · exact ipca_centred_step X0 B h
    rw [hs, this, List.append_assoc]


/-- PROPERTY: the outcome does not depend on how the data were split into increments -/
theorem pca_chunking_independent (centred : Bool) (X0 Y0 : Data) (cs ds : List Data) (hX : X0 ≠ []) (hY : Y0 ≠ [])
    (hsame : X0 ++ cs.flatten = Y0 ++ ds.flatten) :
    pcaRunSpec centred X0 cs = pcaRunSpec centred Y0 ds := by
  rw [ipca_spec_refines_batch centred cs X0 hX, ipca_spec_refines_batch centred ds Y0 hY, hsame]

/-- count and mean of the batch model, spelled out -/
theorem ipca_count_mean (centred : Bool) (X0 : Data) (chunks : List Data) (h : X0 ≠ []) :
    (pcaRunSpec centred X0 chunks).n = (X0 ++ chunks.flatten).length ∧
    (pcaRunSpec centred X0 chunks).mean = (if centred then mean (X0 ++ chunks.flatten) else zeroVec) := by
  rw [ipca_spec_refines_batch centred chunks X0 h]; exact ⟨rfl, rfl⟩

theorem allZero_zeroVec (d : Nat) : allZero d zeroVec = true := by
  simp [allZero, zeroVec]

/-- uncentred models: the code as written follows the specification (the mean stays zero) -/
theorem ipca_coded_uncentred (d : Nat) (chunks : List Data) (X0 : Data) :
    pcaRunCoded d false X0 chunks = pcaRunSpec false X0 chunks := by
  unfold pcaRunCoded pcaRunSpec
  have key : ∀ (cs : List Data) (st : PState), st.mean = zeroVec →
      cs.foldl (ipcaStepCoded d) st = cs.foldl (ipcaStepSpec false) st := by
    intro cs
    induction cs with
    | nil => intro st _; rfl
    | cons B cs ih =>
      intro st hm
      simp only [List.foldl_cons]
      have : ipcaStepCoded d st B = ipcaStepSpec false st B := by
        simp [ipcaStepCoded, ipcaStepSpec, hm, allZero_zeroVec]
      rw [this]
      exact ih _ (by simp [ipcaStepSpec, ipcaUncentred])
  exact key chunks _ (by simp [pcaBatch])

/-- centred models: the code as written follows the specification as long as the running mean is
never exactly zero in all `d` features before an increment -/
theorem ipca_coded_centred (d : Nat) (chunks : List Data) : ∀ (X0 : Data), X0 ≠ [] →
    (∀ t, t < chunks.length → allZero d (mean (X0 ++ (chunks.take t).flatten)) = false) →
    pcaRunCoded d true X0 chunks = pcaBatch true (X0 ++ chunks.flatten) := by
  induction chunks with
  | nil => intro X0 _ _; simp [pcaRunCoded]
  | cons B cs ih =>
    intro X0 h hz
    have h0 : allZero d (mean X0) = false := by simpa using hz 0 (by simp)
    have := ih (X0 ++ B) (by simp [h]) (by
      intro t ht
      have := hz (t + 1) (by simpa using ht)
      simpa [List.append_assoc] using this)
    simp only [pcaRunCoded, List.foldl_cons, List.flatten_cons] at this ⊢
    have hs : ipcaStepCoded d (pcaBatch true X0) B = pcaBatch true (X0 ++ B) := by
      rw [← ipca_centred_step X0 B h]
      simp [ipcaStepCoded, pcaBatch, h0]
    rw [hs, this, List.append_assoc]

def ex1 (l : List Rat) : Vec := vecOfList l

/-- refutation of the coded behaviour: the centred model of `[1], [-1]` has mean exactly 0; the
increment `[3]` leaves the mean at 0 where the batch mean of `[1], [-1], [3]` is 1 -/
theorem ipca_coded_refuted :
    (pcaRunCoded 1 true [ex1 [1], ex1 [-1]] [[ex1 [3]]]).mean 0 = 0 ∧
    (pcaBatch true [ex1 [1], ex1 [-1], ex1 [3]]).mean 0 = 1 ∧
    (pcaRunCoded 1 true [ex1 [1], ex1 [-1]] [[ex1 [3]]]).scat 0 0 = 11 ∧
    (pcaBatch true [ex1 [1], ex1 [-1], ex1 [3]]).scat 0 0 = 8 := by
  refine ⟨?_, ?_, ?_, ?_⟩ <;> decide +kernel

/-- `r² = n_a n_b / n`: stacking the pseudo-sample `r (m_b − m_a)` under the centred new data adds
exactly the rank-one term of `ipcaCentred` to `BᵀB` -/
theorem pseudo_sample_gram (Bc : Data) (δ : Vec) (r q : Rat) (hr : r * r = q) (i j : Nat) :
    gram (Bc ++ [fun c => r * δ c]) i j = gram Bc i j + q * (δ i * δ j) := by
  simp only [gram, sumCC_append, sumCC_cons]
  simp [sumCC]
  rw [← hr]; ring

/-! non-vacuity of the hypotheses of `ipca_coded_centred` and of the chunking theorems -/
section
def exP0 : Data := [ex1 [1, 2], ex1 [3, 1]]
def exPc : List Data := [[ex1 [0, 5]], [ex1 [2, 2], ex1 [-1, 4]]]
example : ∀ t, t < exPc.length → allZero 2 (mean (exP0 ++ (exPc.take t).flatten)) = false := by decide +kernel
example : (pcaRunCoded 2 true exP0 exPc).scat 0 1 = (pcaBatch true (exP0 ++ exPc.flatten)).scat 0 1 ∧
    (pcaBatch true (exP0 ++ exPc.flatten)).scat 0 1 = -9 := by constructor <;> decide +kernel
example : exP0 ++ exPc.flatten = (exP0 ++ [ex1 [0, 5], ex1 [2, 2]]) ++ [[ex1 [-1, 4]]].flatten := by
  simp [exP0, exPc]
end

/-! ## Part II — the `R`-matrix construction of `ipca`, QR and SVD as contract parameters -/

open Matrix
variable {k m q d : Type} [Fintype k] [Fintype m] [Fintype q] [Fintype d]
  [DecidableEq k] [DecidableEq m] [DecidableEq q] [DecidableEq d]

/-- QR contract ⇒ the rows of `B̃` span the rows of `PB` -/
theorem qr_contract {r : Type} [Fintype r] [DecidableEq r] (PB : Matrix m d ℚ) (Q : Matrix d r ℚ)
    (Rq : Matrix r m ℚ) (hqr : PBᵀ = Q * Rq) (hQ : Qᵀ * Q = 1) :
    PB * (Qᵀ)ᵀ * Qᵀ = PB := by
  have hPB : PB = Rqᵀ * Qᵀ := by
    have := congrArg Matrix.transpose hqr
    simpa [Matrix.transpose_mul] using this
  rw [Matrix.transpose_transpose]
  conv_lhs => rw [hPB]
  rw [Matrix.mul_assoc Rqᵀ, hQ, Matrix.mul_one, ← hPB]

/-- SVD contract ⇒ `RᵀR = Vtᵀ diag(σ) Vt` with `σ` the squared singular values (zero padded) -/
theorem svd_contract {a c : Type} [Fintype a] [Fintype c] [DecidableEq a] [DecidableEq c]
    (R : Matrix a c ℚ) (Ut : Matrix a a ℚ) (Sg : Matrix a c ℚ) (Vt : Matrix c c ℚ) (σ : c → ℚ)
    (hR : R = Ut * Sg * Vt) (hU : Utᵀ * Ut = 1) (hS : Sgᵀ * Sg = diagonal σ) :
    Rᵀ * R = Vtᵀ * diagonal σ * Vt := by
  subst hR
  simp only [Matrix.transpose_mul]
  calc Vtᵀ * (Sgᵀ * Utᵀ) * (Ut * Sg * Vt) = Vtᵀ * (Sgᵀ * (Utᵀ * Ut) * Sg) * Vt := by
        simp only [Matrix.mul_assoc]
    _ = Vtᵀ * diagonal σ * Vt := by rw [hU, Matrix.mul_one, hS]

/-- PROPERTY (algebraic skeleton of `ipca`): with `U = Vt·[U_a; B̃]` and `σ = s̃²`,
`Uᵀ diag(σ) U = U_aᵀ diag(s_a²) U_a + BᵀB` -/
theorem ipca_scatter_exact (Ua : Matrix k d ℚ) (sa : k → ℚ) (B : Matrix m d ℚ) (Bt : Matrix q d ℚ)
    (Vt : Matrix (k ⊕ q) (k ⊕ q) ℚ) (σ : k ⊕ q → ℚ)
    (hqr : projOut Ua B * Btᵀ * Bt = projOut Ua B)
    (hsvd : (ipcaR Ua sa B Bt)ᵀ * ipcaR Ua sa B Bt = Vtᵀ * diagonal σ * Vt) :
    (Vt * fromRows Ua Bt)ᵀ * diagonal σ * (Vt * fromRows Ua Bt)
      = Uaᵀ * diagonal (fun i => sa i * sa i) * Ua + Bᵀ * B := by
  have h1 : (Vt * fromRows Ua Bt)ᵀ * diagonal σ * (Vt * fromRows Ua Bt)
      = (fromRows Ua Bt)ᵀ * (Vtᵀ * diagonal σ * Vt) * fromRows Ua Bt := by
    simp only [Matrix.transpose_mul, Matrix.mul_assoc]
  rw [h1, ← hsvd]
  have h2 : (fromRows Ua Bt)ᵀ * ((ipcaR Ua sa B Bt)ᵀ * ipcaR Ua sa B Bt) * fromRows Ua Bt
      = (ipcaR Ua sa B Bt * fromRows Ua Bt)ᵀ * (ipcaR Ua sa B Bt * fromRows Ua Bt) := by
    simp only [Matrix.transpose_mul, Matrix.mul_assoc]
  rw [h2, ipcaR_mul_W Ua sa B Bt hqr, transpose_fromRows, fromCols_mul_fromRows]
  congr 1
  rw [Matrix.transpose_mul, Matrix.diagonal_transpose, Matrix.mul_assoc, ← Matrix.mul_assoc (diagonal sa),
    Matrix.diagonal_mul_diagonal, Matrix.mul_assoc]

theorem ipca_components_orthonormal (Ua : Matrix k d ℚ) (Bt : Matrix q d ℚ) (Vt : Matrix (k ⊕ q) (k ⊕ q) ℚ)
    (hUa : Ua * Uaᵀ = 1) (hBt : Bt * Btᵀ = 1) (hperp : Bt * Uaᵀ = 0) (hV : Vt * Vtᵀ = 1) :
    (Vt * fromRows Ua Bt) * (Vt * fromRows Ua Bt)ᵀ = 1 := by
  have hperp' : Ua * Btᵀ = 0 := by
    have := congrArg Matrix.transpose hperp
    simpa [Matrix.transpose_mul] using this
  have hW : fromRows Ua Bt * (fromRows Ua Bt)ᵀ = 1 := by
    rw [transpose_fromRows, fromRows_mul_fromCols, hUa, hBt, hperp, hperp', fromBlocks_one]
  rw [Matrix.transpose_mul, Matrix.mul_assoc, ← Matrix.mul_assoc (fromRows Ua Bt), hW, Matrix.one_mul, hV]

/-- orthonormal rows representing `S` are an eigen-decomposition of `S` -/
theorem eigen_of_representation {c : Type} [Fintype c] [DecidableEq c] (U : Matrix c d ℚ) (σ : c → ℚ)
    (S : Matrix d d ℚ) (hU : U * Uᵀ = 1) (hS : Uᵀ * diagonal σ * U = S) :
    S * Uᵀ = Uᵀ * diagonal σ := by
  rw [← hS, Matrix.mul_assoc, hU, Matrix.mul_one]

/-- rows with a zero eigenvalue may be dropped (`U[: len(l), :]` after `l = l[l > eps]`) -/
theorem representation_drop_zero {c : Type} [Fintype c] [DecidableEq c] (U : Matrix c d ℚ) (σ : c → ℚ) (a b : d) :
    (Uᵀ * diagonal σ * U) a b = ∑ i ∈ Finset.univ.filter (fun i => σ i ≠ 0), σ i * U i a * U i b := by
  rw [representation_entry, Finset.sum_filter]
  apply Finset.sum_congr rfl; intro i _
  by_cases h : σ i = 0 <;> simp [h]

/-- PROPERTY: `l = s̃² / (n − 1)`: the returned pair represents the covariance `scatter / (n − 1)` -/
theorem ipca_covariance_exact {c : Type} [Fintype c] [DecidableEq c] (U : Matrix c d ℚ) (σ : c → ℚ)
    (S : Matrix d d ℚ) (nm1 : ℚ) (hS : Uᵀ * diagonal σ * U = S) :
    Uᵀ * diagonal (fun i => σ i / nm1) * U = (1 / nm1) • S := by
  have : diagonal (fun i => σ i / nm1) = (1 / nm1) • diagonal σ := by
    ext i j; by_cases h : i = j <;> simp [h, div_eq_inv_mul]
  rw [this, Matrix.mul_smul, Matrix.smul_mul, hS]

/-- PROPERTY (principal subspace): two orthonormal representations of the same matrix without zero
eigenvalues have the same projector `UᵀU`, i.e. span the same subspace -/
theorem principal_subspace_unique {c₁ c₂ : Type} [Fintype c₁] [Fintype c₂] [DecidableEq c₁] [DecidableEq c₂]
    (U₁ : Matrix c₁ d ℚ) (U₂ : Matrix c₂ d ℚ) (σ₁ : c₁ → ℚ) (σ₂ : c₂ → ℚ)
    (h₁ : U₁ * U₁ᵀ = 1) (h₂ : U₂ * U₂ᵀ = 1) (hσ₁ : ∀ i, σ₁ i ≠ 0) (hσ₂ : ∀ i, σ₂ i ≠ 0)
    (hS : U₁ᵀ * diagonal σ₁ * U₁ = U₂ᵀ * diagonal σ₂ * U₂) :
    U₁ᵀ * U₁ = U₂ᵀ * U₂ := by
  have key : ∀ {a b : Type} [Fintype a] [Fintype b] [DecidableEq a] [DecidableEq b]
      (A : Matrix a d ℚ) (B : Matrix b d ℚ) (α : a → ℚ) (β : b → ℚ), A * Aᵀ = 1 → B * Bᵀ = 1 →
      (∀ i, α i ≠ 0) → Aᵀ * diagonal α * A = Bᵀ * diagonal β * B → A * (Bᵀ * B) = A := by
    intro a b _ _ _ _ A B α β hA hB hα h
    have hSP : (Aᵀ * diagonal α * A) * (Bᵀ * B) = Aᵀ * diagonal α * A := by
      rw [h]
      calc Bᵀ * diagonal β * B * (Bᵀ * B) = Bᵀ * diagonal β * (B * Bᵀ) * B := by simp only [Matrix.mul_assoc]
        _ = Bᵀ * diagonal β * B := by rw [hB, Matrix.mul_one]
    have hinv : diagonal (fun i => (α i)⁻¹) * diagonal α = 1 := by
      rw [Matrix.diagonal_mul_diagonal, ← Matrix.diagonal_one]
      congr 1; funext i; exact inv_mul_cancel₀ (hα i)
    have h3 : diagonal (fun i => (α i)⁻¹) * (A * (Aᵀ * diagonal α * A * (Bᵀ * B)))
        = diagonal (fun i => (α i)⁻¹) * (A * (Aᵀ * diagonal α * A)) := by rw [hSP]
    have e1 : ∀ M : Matrix d d ℚ, diagonal (fun i => (α i)⁻¹) * (A * (Aᵀ * diagonal α * A * M))
        = A * M := by
      intro M
      calc diagonal (fun i => (α i)⁻¹) * (A * (Aᵀ * diagonal α * A * M))
          = diagonal (fun i => (α i)⁻¹) * ((A * Aᵀ) * diagonal α) * (A * M) := by simp only [Matrix.mul_assoc]
        _ = A * M := by rw [hA, Matrix.one_mul, hinv, Matrix.one_mul]
    have e2 : diagonal (fun i => (α i)⁻¹) * (A * (Aᵀ * diagonal α * A)) = A := by
      have := e1 1
      simpa using this
    rw [e1] at h3
    rw [h3, e2]
  have p12 : (U₁ᵀ * U₁) * (U₂ᵀ * U₂) = U₁ᵀ * U₁ := by
    rw [Matrix.mul_assoc, key U₁ U₂ σ₁ σ₂ h₁ h₂ hσ₁ hS]
  have p21 : (U₂ᵀ * U₂) * (U₁ᵀ * U₁) = U₂ᵀ * U₂ := by
    rw [Matrix.mul_assoc, key U₂ U₁ σ₂ σ₁ h₂ h₁ hσ₂ hS.symm]
  have p12t : (U₂ᵀ * U₂) * (U₁ᵀ * U₁) = U₁ᵀ * U₁ := by
    have := congrArg Matrix.transpose p12
    simpa [Matrix.transpose_mul] using this
  rw [← p12t, p21]

/-- PROPERTY (one `ipca` step end to end, centred branch): if `(U_a, s_a²)` represents the scatter of the data
`X` seen so far, then — under the sqrt, QR and SVD contracts — the returned `(U, σ)` represents the scatter of
the concatenated data `X ++ Bd`, where the matrix handed to the `R` construction is the new data centred on
their own mean with the pseudo-sample `r (m_b − m_a)` stacked below, `r² = n_a n_b / n` -/
theorem ipca_step_represents (n : Nat) (X Bd : Data) (hX : X ≠ []) (hB : Bd ≠ [])
    (Ua : Matrix k (Fin n) ℚ) (sa : k → ℚ) (r : ℚ)
    (hr : r * r = (X.length : ℚ) * (Bd.length : ℚ) / ((X.length : ℚ) + (Bd.length : ℚ)))
    (Baug : Data) (hBaug : Baug = centre Bd (mean Bd) ++ [fun c => r * (mean Bd c - mean X c)])
    (hold : ∀ i j : Fin n, (Uaᵀ * diagonal (fun i => sa i * sa i) * Ua) i j = gram (centre X (mean X)) i j)
    (Bt : Matrix q (Fin n) ℚ) (Vt : Matrix (k ⊕ q) (k ⊕ q) ℚ) (σ : k ⊕ q → ℚ)
    (hqr : projOut Ua (matOfData n Baug) * Btᵀ * Bt = projOut Ua (matOfData n Baug))
    (hsvd : (ipcaR Ua sa (matOfData n Baug) Bt)ᵀ * ipcaR Ua sa (matOfData n Baug) Bt = Vtᵀ * diagonal σ * Vt)
    (i j : Fin n) :
    ((Vt * fromRows Ua Bt)ᵀ * diagonal σ * (Vt * fromRows Ua Bt)) i j
      = gram (centre (X ++ Bd) (mean (X ++ Bd))) i j := by
  rw [ipca_scatter_exact Ua sa (matOfData n Baug) Bt Vt σ hqr hsvd, Matrix.add_apply, hold, matOfData_gram,
    hBaug, pseudo_sample_gram _ _ r _ hr, scatter_union_identity X Bd hX hB]
  ring

/-! non-vacuity of the contracts: `U_a = e₀`, `s_a = 1`, new row `(0, 2)`, `B̃ = e₁`, `R = diag(1, 2)`,
singular values sorted descending -/
section Example
def exUa : Matrix (Fin 1) (Fin 2) ℚ := fun _ j => if j = 0 then 1 else 0
def exB : Matrix (Fin 1) (Fin 2) ℚ := fun _ j => if j = 0 then 0 else 2
def exBt : Matrix (Fin 1) (Fin 2) ℚ := fun _ j => if j = 0 then 0 else 1
def exVt : Matrix (Fin 1 ⊕ Fin 1) (Fin 1 ⊕ Fin 1) ℚ := fromBlocks 0 1 1 0
def exσ : Fin 1 ⊕ Fin 1 → ℚ := Sum.elim (fun _ => 4) (fun _ => 1)

example : projOut exUa exB * exBtᵀ * exBt = projOut exUa exB := by decide +kernel
example : (ipcaR exUa (fun _ => 1) exB exBt)ᵀ * ipcaR exUa (fun _ => 1) exB exBt = exVtᵀ * diagonal exσ * exVt := by
  decide +kernel
example : exVt * exVtᵀ = 1 ∧ exBt * exUaᵀ = 0 ∧ exUa * exUaᵀ = 1 ∧ exBt * exBtᵀ = 1 := by decide +kernel
end Example

end MenpoModel.C11
