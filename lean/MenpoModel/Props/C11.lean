/-
C11 — incremental model updates equal the batch model on the concatenated data.  Property theorems.

Part I (lists of samples, every entry of every dimension): the transcribed update formulas of
`_increment_multivariate_gaussian_mean/_cov` reproduce mean and covariance of the concatenated data for both
bias conventions; the state of an incremental GMRF after *any* list of increments is the state of the batch
model on the concatenation, hence so is the precision matrix (for any block inverse) and the outcome does not
depend on the chunking; the sufficient statistics `(n, mean, scatter)` that `ipca` maintains (mean formula,
centring, mean-shift pseudo-sample) equal those of batch PCA after any list of increments, centred and
uncentred.  The zero-mean branch test of `ipca` as coded before the repair is refuted by witness and proved
harmless exactly when the running mean is never all-zero.

Part I (continued): both precision storages as coded (dense: off-diagonal blocks assigned, BSR: duplicates summed) —
incremental = batch for either, they differ on an antiparallel edge pair and coincide on simple graphs; the
object-level models (`GMRFModel`, `PCAModel` on point clouds) equal the vector models on the stacked
`as_vector()`s, `mean()` is the pointwise mean shape; the step `ipca` computes for a forgetting factor `f` (reduces to
the no-forgetting step at `f = 1`; weighted-scatter identity for `f < 1`); `l = l[l > eps]; U[:len(l)]` on lists.

Part II (Mathlib matrices, QR / SVD / sqrt as contract parameters): the `R`-matrix construction of `ipca`
returns `(U, l)` with `Uᵀ diag(σ) U = U_aᵀ diag(s_a²) U_a + BᵀB`; with the contracts of QR and SVD the rows of
`U` are orthonormal, so `(U, σ)` is an eigen-decomposition of the batch scatter, and two such decompositions
without zero eigenvalues span the same principal subspace.

Part II (continued): no full-rank hypothesis — `(R W)(R W)ᵀ = R Rᵀ` whether or not `W = [U_a; B̃]` has orthonormal
rows, hence the rows of `U` with non-zero `σ` are orthonormal for any rank of the residual; the eps discard with its
threshold (hypothesis: no eigenvalue in `(0, eps]`, proved to be exactly the weakest, with the witness where it
fails); `IpcaReach`: every state reachable by `pca` + any chain of increments, for any contract-satisfying results of
sqrt / qr / svd, is an eigen-decomposition of the batch scatter with rank-many components; two reachable states of
the same data have the same eigenvalues (with multiplicity) and the same principal subspace.
-/
import MenpoModel.Core.C11
import MenpoModel.Lemmas.C11Stats
import MenpoModel.Lemmas.C11Matrix
import MenpoModel.Lemmas.C11Rank
import MenpoModel.Lemmas.C11RankExact

set_option linter.unusedSectionVars false

namespace MenpoModel.C11

/-! ## Part I — sufficient statistics -/

/-- PROPERTY (`_increment_multivariate_gaussian_mean`): updating the mean of `X` with the new rows `B`
gives the mean of the concatenated data -/
theorem mean_update_exact (X B : Data) (hX : X ≠ []) :
    meanUpdate X.length (mean X) B = mean (X ++ B) :=
  meanUpdate_mean X B (len_pos_cast X hX)

/-- PROPERTY (`_increment_multivariate_gaussian_cov`, bias 0 and bias 1): the coded update of `np.cov` of
`X` with the new rows `B` is `np.cov` of the concatenated data, entry by entry -/
theorem cov_update_exact (b : Bool) (X B : Data) (h : EnoughSamples b X) :
    covUpdate b X.length (mean X) (covOf b X) B = covOf b (X ++ B) :=
  covUpdate_cov b X B h

/-! ### GMRF -/

theorem enough_map {b X} (φ : Vec → Vec) (h : EnoughSamples b X) : EnoughSamples b (X.map φ) := by
  cases b <;> simpa [EnoughSamples] using h

theorem gmrf_step (b : Bool) (feat : Nat → Vec → Vec) (hf : ∀ e, FeatMean (feat e))
    (X B : Data) (h : EnoughSamples b X) :
    gmrfInc b feat (gmrfInit b feat X) B = gmrfInit b feat (X ++ B) := by
  unfold gmrfInc gmrfInit
  simp only [GState.mk.injEq, List.length_append, true_and]
  refine ⟨meanUpdate_mean X B (len_pos_cast X (enough_ne_nil h)), ?_⟩
  funext e
  rw [hf e X, List.map_append]
  have := covUpdate_cov b (X.map (feat e)) (B.map (feat e)) (enough_map _ h)
  simpa using this

/-- PROPERTY: an incremental GMRF fed any list of increments holds exactly the statistics of the batch model
on the concatenated data: sample count, mean vector and every per-edge / per-vertex covariance block -/
theorem gmrf_increment_refines_stats (b : Bool) (feat : Nat → Vec → Vec) (hf : ∀ e, FeatMean (feat e))
    (chunks : List Data) : ∀ (X0 : Data), EnoughSamples b X0 →
    gmrfRun b feat X0 chunks = gmrfInit b feat (X0 ++ chunks.flatten) := by
  induction chunks with
  | nil => intro X0 _; simp [gmrfRun]
  | cons B cs ih =>
    intro X0 h
    have := ih (X0 ++ B) (enough_append B h)
    simp only [gmrfRun, List.foldl_cons, List.flatten_cons] at this ⊢
    rw [gmrf_step b feat hf X0 B h, this, List.append_assoc]

/-- PROPERTY: the outcome does not depend on how the samples were cut into an initial batch and increments -/
theorem gmrf_chunking_independent (b : Bool) (feat : Nat → Vec → Vec) (hf : ∀ e, FeatMean (feat e))
    (X0 Y0 : Data) (cs ds : List Data) (hX : EnoughSamples b X0) (hY : EnoughSamples b Y0)
    (hsame : X0 ++ cs.flatten = Y0 ++ ds.flatten) :
    gmrfRun b feat X0 cs = gmrfRun b feat Y0 ds := by
  rw [gmrf_increment_refines_stats b feat hf cs X0 hX, gmrf_increment_refines_stats b feat hf ds Y0 hY, hsame]

/-- PROPERTY: for every graph, both edge modes and the edgeless case, both bias conventions and *any*
block-inverse routine, the precision matrix assembled after the increments is the precision matrix of the batch
model on the concatenated data (and the mean and the count agree) -/
theorem gmrf_precision_eq_batch (g : GSpec) (b : Bool) (inv : Mat → Mat) (X0 : Data) (chunks : List Data)
    (h : EnoughSamples b X0) :
    precision g inv (gmrfRun b g.feat X0 chunks).cov
        = precision g inv (gmrfInit b g.feat (X0 ++ chunks.flatten)).cov ∧
    (gmrfRun b g.feat X0 chunks).mean = mean (X0 ++ chunks.flatten) ∧
    (gmrfRun b g.feat X0 chunks).n = (X0 ++ chunks.flatten).length := by
  rw [gmrf_increment_refines_stats b g.feat g.feat_mean chunks X0 h]
  exact ⟨rfl, rfl, rfl⟩

/-- the same with the block covariances spelled out: block `e` is `np.cov` of the block's columns -/
theorem gmrf_block_cov (g : GSpec) (b : Bool) (X0 : Data) (chunks : List Data) (h : EnoughSamples b X0) (e : Nat) :
    (gmrfRun b g.feat X0 chunks).cov e = covOf b ((X0 ++ chunks.flatten).map (g.feat e)) := by
  rw [gmrf_increment_refines_stats b g.feat g.feat_mean chunks X0 h]; rfl

/-! non-vacuity: a 2-vertex chain with one feature per vertex, initial batch of 3, increments of 1 and 2 rows -/
section
def exG : GSpec := ⟨2, 1, [(0, 1)], .concatenation⟩
def exX0 : Data := [vecOfList [1, 2], vecOfList [3, 1], vecOfList [0, 5]]
def exC : List Data := [[vecOfList [2, 2]], [vecOfList [-1, 4], vecOfList [7, 0]]]
example : EnoughSamples false exX0 := by decide
example : EnoughSamples true [vecOfList [1, 2]] := by decide
example : (gmrfRun false exG.feat exX0 exC).n = 6 := by decide +kernel
example : (gmrfRun false exG.feat exX0 exC).mean 0 = 2 := by decide +kernel
example : (gmrfRun false exG.feat exX0 exC).cov 0 0 1 = -23 / 5 ∧
    covOf false ((exX0 ++ exC.flatten).map (exG.feat 0)) 0 1 = -23 / 5 := by
  constructor <;> decide +kernel
end

/-! ### PCA -/

/-- PROPERTY: scatter of a union = scatter_a + scatter_b + (n_a n_b / n)(m_b − m_a)(m_b − m_a)ᵀ -/
theorem scatter_union_identity (X B : Data) (hX : X ≠ []) (hB : B ≠ []) (i j : Nat) :
    gram (centre (X ++ B) (mean (X ++ B))) i j
      = gram (centre X (mean X)) i j + gram (centre B (mean B)) i j
        + (X.length : Rat) * (B.length : Rat) / ((X.length : Rat) + (B.length : Rat))
          * ((mean B i - mean X i) * (mean B j - mean X j)) := by
  have hn := len_pos_cast X hX
  have hb := len_pos_cast B hB
  have hN := len_pos_cast (X ++ B) (by simp [hX])
  simp only [gram_centre_raw]
  unfold mean
  simp only [sumC_append, sumCC_append, List.length_append, Nat.cast_add] at hN ⊢
  field_simp
  ring

/-- PROPERTY (`ipca`): `m = (n_a/n) m_a + (n_b/n) m_b` is the mean of the concatenated data -/
theorem ipca_mean_exact (X B : Data) (hX : X ≠ []) (hB : B ≠ []) (i : Nat) :
    (X.length : Rat) / ((X.length : Rat) + (B.length : Rat)) * mean X i
      + (B.length : Rat) / ((X.length : Rat) + (B.length : Rat)) * mean B i = mean (X ++ B) i := by
  have hn := len_pos_cast X hX
  have hb := len_pos_cast B hB
  have hN := len_pos_cast (X ++ B) (by simp [hX])
  unfold mean
  simp only [sumC_append, List.length_append, Nat.cast_add] at hN ⊢
  field_simp

theorem ipca_centred_step (X B : Data) (hX : X ≠ []) :
    ipcaCentred (pcaBatch true X) B = pcaBatch true (X ++ B) := by
  by_cases hB : B = []
  · subst hB
    have hn := len_pos_cast X hX
    simp only [ipcaCentred, pcaBatch, List.length_nil, Nat.cast_zero, List.append_nil, if_true,
      PState.mk.injEq, Nat.add_zero, true_and]
    constructor
    · funext i; field_simp; simp
    · funext i j; simp [gram, centre, sumCC]
  · simp only [ipcaCentred, pcaBatch, if_true, PState.mk.injEq, List.length_append, true_and]
    constructor
    · funext i; exact ipca_mean_exact X B hX hB i
    · funext i j; rw [scatter_union_identity X B hX hB]

theorem centre_zero (X : Data) : centre X zeroVec = X := by
  simp [centre, zeroVec]

theorem ipca_uncentred_step (X B : Data) :
    ipcaUncentred (pcaBatch false X) B = pcaBatch false (X ++ B) := by
  simp only [ipcaUncentred, pcaBatch, Bool.false_eq_true, if_false, PState.mk.injEq, List.length_append, true_and,
    centre_zero]
  funext i j; simp [gram, sumCC_append]

/-- PROPERTY: feeding data to a PCA model in any number of increments (branch chosen by the model's `centred`
flag, no forgetting) gives the sample count, mean and scatter of one batch model on all the data -/
theorem ipca_spec_refines_batch (centred : Bool) (chunks : List Data) : ∀ (X0 : Data), X0 ≠ [] →
    pcaRunSpec centred X0 chunks = pcaBatch centred (X0 ++ chunks.flatten) := by
  induction chunks with
  | nil => intro X0 _; simp [pcaRunSpec]
  | cons B cs ih =>
    intro X0 h
    have := ih (X0 ++ B) (by simp [h])
    simp only [pcaRunSpec, List.foldl_cons, List.flatten_cons] at this ⊢
    have hs : ipcaStepSpec centred (pcaBatch centred X0) B = pcaBatch centred (X0 ++ B) := by
      cases centred
      · exact ipca_uncentred_step X0 B
      · exact ipca_centred_step X0 B h
    rw [hs, this, List.append_assoc]


/-- PROPERTY: the outcome does not depend on how the data were split into increments -/
theorem pca_chunking_independent (centred : Bool) (X0 Y0 : Data) (cs ds : List Data) (hX : X0 ≠ []) (hY : Y0 ≠ [])
    (hsame : X0 ++ cs.flatten = Y0 ++ ds.flatten) :
    pcaRunSpec centred X0 cs = pcaRunSpec centred Y0 ds := by
  rw [ipca_spec_refines_batch centred cs X0 hX, ipca_spec_refines_batch centred ds Y0 hY, hsame]

/-- count and mean of the batch model, spelled out -/
theorem ipca_count_mean (centred : Bool) (X0 : Data) (chunks : List Data) (h : X0 ≠ []) :
    (pcaRunSpec centred X0 chunks).n = (X0 ++ chunks.flatten).length ∧
    (pcaRunSpec centred X0 chunks).mean = (if centred then mean (X0 ++ chunks.flatten) else zeroVec) := by
  rw [ipca_spec_refines_batch centred chunks X0 h]; exact ⟨rfl, rfl⟩

theorem allZero_zeroVec (d : Nat) : allZero d zeroVec = true := by
  simp [allZero, zeroVec]

/-- uncentred models: the code as written follows the specification (the mean stays zero) -/
theorem ipca_coded_uncentred (d : Nat) (chunks : List Data) (X0 : Data) :
    pcaRunCoded d false X0 chunks = pcaRunSpec false X0 chunks := by
  unfold pcaRunCoded pcaRunSpec
  have key : ∀ (cs : List Data) (st : PState), st.mean = zeroVec →
      cs.foldl (ipcaStepCoded d) st = cs.foldl (ipcaStepSpec false) st := by
    intro cs
    induction cs with
    | nil => intro st _; rfl
    | cons B cs ih =>
      intro st hm
      simp only [List.foldl_cons]
      have : ipcaStepCoded d st B = ipcaStepSpec false st B := by
        simp [ipcaStepCoded, ipcaStepSpec, hm, allZero_zeroVec]
      rw [this]
      exact ih _ (by simp [ipcaStepSpec, ipcaUncentred])
  exact key chunks _ (by simp [pcaBatch])

/-- centred models: the code as written follows the specification as long as the running mean is
never exactly zero in all `d` features before an increment -/
theorem ipca_coded_centred (d : Nat) (chunks : List Data) : ∀ (X0 : Data), X0 ≠ [] →
    (∀ t, t < chunks.length → allZero d (mean (X0 ++ (chunks.take t).flatten)) = false) →
    pcaRunCoded d true X0 chunks = pcaBatch true (X0 ++ chunks.flatten) := by
  induction chunks with
  | nil => intro X0 _ _; simp [pcaRunCoded]
  | cons B cs ih =>
    intro X0 h hz
    have h0 : allZero d (mean X0) = false := by simpa using hz 0 (by simp)
    have := ih (X0 ++ B) (by simp [h]) (by
      intro t ht
      have := hz (t + 1) (by simpa using ht)
      simpa [List.append_assoc] using this)
    simp only [pcaRunCoded, List.foldl_cons, List.flatten_cons] at this ⊢
    have hs : ipcaStepCoded d (pcaBatch true X0) B = pcaBatch true (X0 ++ B) := by
      rw [← ipca_centred_step X0 B h]
      simp [ipcaStepCoded, pcaBatch, h0]
    rw [hs, this, List.append_assoc]

def ex1 (l : List Rat) : Vec := vecOfList l

/-- refutation of the coded behaviour: the centred model of `[1], [-1]` has mean exactly 0; the
increment `[3]` leaves the mean at 0 where the batch mean of `[1], [-1], [3]` is 1 -/
theorem ipca_coded_refuted :
    (pcaRunCoded 1 true [ex1 [1], ex1 [-1]] [[ex1 [3]]]).mean 0 = 0 ∧
    (pcaBatch true [ex1 [1], ex1 [-1], ex1 [3]]).mean 0 = 1 ∧
    (pcaRunCoded 1 true [ex1 [1], ex1 [-1]] [[ex1 [3]]]).scat 0 0 = 11 ∧
    (pcaBatch true [ex1 [1], ex1 [-1], ex1 [3]]).scat 0 0 = 8 := by
  refine ⟨?_, ?_, ?_, ?_⟩ <;> decide +kernel

/-- `r² = n_a n_b / n`: stacking the pseudo-sample `r (m_b − m_a)` under the centred new data adds
exactly the rank-one term of `ipcaCentred` to `BᵀB` -/
theorem pseudo_sample_gram (Bc : Data) (δ : Vec) (r q : Rat) (hr : r * r = q) (i j : Nat) :
    gram (Bc ++ [fun c => r * δ c]) i j = gram Bc i j + q * (δ i * δ j) := by
  simp only [gram, sumCC_append, sumCC_cons]
  simp [sumCC]
  rw [← hr]; ring

/-! non-vacuity of the hypotheses of `ipca_coded_centred` and of the chunking theorems -/
section
def exP0 : Data := [ex1 [1, 2], ex1 [3, 1]]
def exPc : List Data := [[ex1 [0, 5]], [ex1 [2, 2], ex1 [-1, 4]]]
example : ∀ t, t < exPc.length → allZero 2 (mean (exP0 ++ (exPc.take t).flatten)) = false := by decide +kernel
example : (pcaRunCoded 2 true exP0 exPc).scat 0 1 = (pcaBatch true (exP0 ++ exPc.flatten)).scat 0 1 ∧
    (pcaBatch true (exP0 ++ exPc.flatten)).scat 0 1 = -9 := by constructor <;> decide +kernel
example : exP0 ++ exPc.flatten = (exP0 ++ [ex1 [0, 5], ex1 [2, 2]]) ++ [[ex1 [-1, 4]]].flatten := by
  simp [exP0, exPc]
end

/-! ## Part I (continued) — both storages, object level, forgetting factor, the eps discard on lists -/


/-! ### both storages -/

/-- PROPERTY: for either value of the `sparse` flag — BSR triplets that are summed, or the dense array whose
off-diagonal blocks are assigned — the stored precision after the increments is the stored precision of the batch
model on the concatenated data; every graph (antiparallel edge pairs and repeated edges included), both modes,
both bias conventions, any block-inverse routine -/
theorem gmrf_stored_precision_eq_batch (sparse : Bool) (g : GSpec) (b : Bool) (inv : Mat → Mat) (X0 : Data)
    (chunks : List Data) (h : EnoughSamples b X0) :
    precisionStored sparse g inv (gmrfRun b g.feat X0 chunks).cov
      = precisionStored sparse g inv (gmrfInit b g.feat (X0 ++ chunks.flatten)).cov := by
  rw [gmrf_increment_refines_stats b g.feat g.feat_mean chunks X0 h]

def exTwoWay : GSpec := ⟨2, 1, [(0, 1), (1, 0)], .subtraction⟩
def exBlk : Nat → Mat := fun e => if e = 0 then (fun _ _ => 2) else (fun _ _ => 3)

/-- as coded, the two storages disagree on an antiparallel edge pair: the dense array keeps the off-diagonal
block of the *last* edge (`−3`), the BSR matrix holds the sum (`−5`); the diagonals agree (`5`) -/
theorem dense_sparse_differ_on_antiparallel :
    precisionOf exTwoWay exBlk 0 1 = -3 ∧ precisionOfSparse exTwoWay exBlk 0 1 = -5 ∧
    precisionOf exTwoWay exBlk 0 0 = 5 ∧ precisionOfSparse exTwoWay exBlk 0 0 = 5 := by
  refine ⟨?_, ?_, ?_, ?_⟩ <;> decide +kernel

/-! ### object level -/

theorem asMatrix_append (k : Nat) (A B : List Cloud) : asMatrix k (A ++ B) = asMatrix k A ++ asMatrix k B := by
  simp [asMatrix]

theorem asMatrix_flatten (k : Nat) (cs : List (List Cloud)) :
    asMatrix k cs.flatten = (cs.map (asMatrix k)).flatten := by
  simp only [asMatrix, List.map_flatten]
  rfl

/-- PROPERTY: `GMRFModel` (samples are objects) fed any list of increments is `GMRFVectorModel` fed the stacked
`as_vector()`s of the same objects, chunk by chunk -/
theorem gmrfObj_eq_vector (b : Bool) (g : GSpec) (S0 : List Cloud) (chunks : List (List Cloud)) :
    gmrfObjRun b g S0 chunks = gmrfRun b g.feat (asMatrix g.k S0) (chunks.map (asMatrix g.k)) := by
  simp only [gmrfObjRun, gmrfRun, gmrfObjInit, List.foldl_map]
  rfl

/-- PROPERTY: hence the object-level model after any increments is the object-level batch model on all samples -/
theorem gmrfObj_refines_batch (b : Bool) (g : GSpec) (S0 : List Cloud) (chunks : List (List Cloud))
    (h : EnoughSamples b (asMatrix g.k S0)) :
    gmrfObjRun b g S0 chunks = gmrfObjInit b g (S0 ++ chunks.flatten) := by
  rw [gmrfObj_eq_vector, gmrf_increment_refines_stats b g.feat g.feat_mean _ _ h, gmrfObjInit, asMatrix_append,
    asMatrix_flatten]

theorem pcaObj_refines_batch (k : Nat) (centred : Bool) (S0 : List Cloud) (chunks : List (List Cloud))
    (h : S0 ≠ []) :
    pcaObjRun k centred S0 chunks = pcaBatch centred (asMatrix k (S0 ++ chunks.flatten)) := by
  have : pcaObjRun k centred S0 chunks = pcaRunSpec centred (asMatrix k S0) (chunks.map (asMatrix k)) := by
    simp only [pcaObjRun, pcaRunSpec, List.foldl_map]
  rw [this, ipca_spec_refines_batch centred _ _ (by simpa [asMatrix] using h), asMatrix_append, asMatrix_flatten]

/-- `from_vector(as_vector(pc)) = pc` on the `k` coordinates of every point -/
theorem fromVector_asVector (k : Nat) (pc : Cloud) (p c : Nat) (hc : c < k) :
    fromVector k (asVector k pc) p c = pc p c := by
  have hk : 0 < k := by omega
  simp only [fromVector, asVector]
  rw [Nat.mul_comm, Nat.mul_add_div hk, Nat.div_eq_of_lt hc, Nat.add_zero, Nat.mul_add_mod, Nat.mod_eq_of_lt hc]

/-- the block of vertex `v` is the coordinates of point `v` -/
theorem featVertex_asVector (k v : Nat) (pc : Cloud) (c : Nat) (hc : c < k) :
    featVertex k v (asVector k pc) c = pc v c := by
  have := fromVector_asVector k pc v c hc
  simpa [fromVector, featVertex] using this

/-- PROPERTY: `GMRFModel.mean()` after any increments is the pointwise mean shape of all the samples -/
theorem gmrfObj_mean_pointwise (b : Bool) (g : GSpec) (S0 : List Cloud) (chunks : List (List Cloud))
    (h : EnoughSamples b (asMatrix g.k S0)) (p c : Nat) (hc : c < g.k) :
    gmrfObjMean g (gmrfObjRun b g S0 chunks) p c
      = ((S0 ++ chunks.flatten).map fun pc => pc p c).sum / ((S0 ++ chunks.flatten).length : Rat) := by
  rw [gmrfObj_refines_batch b g S0 chunks h]
  simp only [gmrfObjMean, gmrfObjInit, gmrfInit, fromVector, mean, sumC, asMatrix, List.map_map, List.length_map]
  congr 2
  apply List.map_congr_left
  intro pc _
  exact fromVector_asVector g.k pc p c hc



/-! non-vacuity at object level: three 2-point clouds in the plane, then one more -/
section
def exCloud (a b c d : Rat) : Cloud := fun p c' => if p = 0 then (if c' = 0 then a else b) else (if c' = 0 then c else d)
def exGo : GSpec := ⟨2, 2, [(0, 1)], .subtraction⟩
example : EnoughSamples false (asMatrix 2 [exCloud 0 0 1 2, exCloud 1 0 3 1, exCloud 0 2 2 2]) := by decide
example : gmrfObjMean exGo (gmrfObjRun false exGo [exCloud 0 0 1 2, exCloud 1 0 3 1, exCloud 0 2 2 2]
    [[exCloud 3 2 2 7]]) 1 1 = 3 ∧
    (gmrfObjRun false exGo [exCloud 0 0 1 2, exCloud 1 0 3 1, exCloud 0 2 2 2] [[exCloud 3 2 2 7]]).n = 4 := by
  constructor <;> decide +kernel
end

/-! ### forgetting factor -/

theorem toF_cast_ne {n : Nat} (h : 2 ≤ n) : ((n : Rat) - 1) ≠ 0 := by
  have : (2 : Rat) ≤ n := by exact_mod_cast h
  intro h0; linarith

/-- PROPERTY: with `f = 1` the step the code computes *is* the no-forgetting step (in covariance scale) -/
theorem ipcaForget_one (centred : Bool) (st : PState) (B : Data) (hn : 2 ≤ st.n) :
    ipcaForget centred 1 st.toF B = (ipcaStepSpec centred st B).toF := by
  have h1 := toF_cast_ne hn
  cases centred
  · simp only [ipcaForget, ipcaStepSpec, ipcaUncentred, PState.toF, Bool.false_eq_true, if_false, FState.mk.injEq,
      true_and]
    funext i j
    simp only [Nat.cast_add]
    congr 1
    · field_simp
    · ring
  · simp only [ipcaForget, ipcaStepSpec, ipcaCentred, PState.toF, if_true, FState.mk.injEq, true_and]
    refine ⟨by funext i; ring, ?_⟩
    funext i j
    simp only [Nat.cast_add]
    congr 1
    · field_simp
    · ring

/-- hence a run whose forgetting factors are all 1 is the no-forgetting run -/
theorem pcaRunForget_ones (centred : Bool) (chunks : List Data) : ∀ (st : PState), 2 ≤ st.n →
    (chunks.map fun B => ((1 : Rat), B)).foldl (fun st s => ipcaForget centred s.1 st s.2) st.toF
      = (chunks.foldl (ipcaStepSpec centred) st).toF := by
  induction chunks with
  | nil => intro st _; rfl
  | cons B cs ih =>
    intro st hn
    simp only [List.map_cons, List.foldl_cons]
    rw [ipcaForget_one centred st B hn]
    apply ih
    cases centred <;> simp [ipcaStepSpec, ipcaCentred, ipcaUncentred] <;> omega

/-- PROPERTY: feeding increments with `forgetting_factor = 1` through the code path that handles any `f` gives the
batch model on the concatenated data (covariance scale) -/
theorem pcaRunForget_one_refines_batch (centred : Bool) (X0 : Data) (chunks : List Data) (h : 2 ≤ X0.length) :
    pcaRunForget centred X0 (chunks.map fun B => ((1 : Rat), B)) = (pcaBatch centred (X0 ++ chunks.flatten)).toF := by
  unfold pcaRunForget
  rw [pcaRunForget_ones centred chunks _ (by simpa [pcaBatch] using h)]
  have := ipca_spec_refines_batch centred chunks X0 (by intro h0; subst h0; simp at h)
  unfold pcaRunSpec at this
  rw [this]

/-- PROPERTY (what `f < 1` computes, mean): one centred step from a batch model gives the weighted mean, weight `f`
on every old sample and 1 on every new one -/
theorem ipcaForget_mean_weighted (f : Rat) (X B : Data) (hX : X ≠ [])
    (hd : f * (X.length : Rat) + (B.length : Rat) ≠ 0) (hB : B ≠ []) :
    (ipcaForget true f (pcaBatch true X).toF B).mean = wmean f X B := by
  have hn := len_pos_cast X hX
  have hb := len_pos_cast B hB
  funext i
  simp only [ipcaForget, pcaBatch, PState.toF, if_true, wmean, mean]
  field_simp

/-- PROPERTY (what `f < 1` computes, weighted-scatter identity): the scatter `(f n_a + n_b − 1) · cov` held after
one centred step is the `f`-weighted scatter about the `f`-weighted mean **minus** `f (1 − f)` times the old
scatter — the old scatter enters with `f²` (the singular values are scaled by `f`), while mean, pseudo-sample and
normaliser use the weight `f`.  It is a weighted scatter exactly when `f = 1` or `f = 0` (or the old scatter is 0) -/
theorem ipcaForget_scatter_weighted (f : Rat) (X B : Data) (hX2 : 2 ≤ X.length) (hB : B ≠ [])
    (hd : f * (X.length : Rat) + (B.length : Rat) ≠ 0)
    (hd1 : f * (X.length : Rat) + (B.length : Rat) - 1 ≠ 0) (i j : Nat) :
    (f * (X.length : Rat) + (B.length : Rat) - 1) * (ipcaForget true f (pcaBatch true X).toF B).cov i j
      = wscatter f X B i j - f * (1 - f) * gram (centre X (mean X)) i j := by
  have hX : X ≠ [] := by intro h0; subst h0; simp at hX2
  have hn := len_pos_cast X hX
  have hb := len_pos_cast B hB
  have h1 : ((X.length : Rat) - 1) ≠ 0 := toF_cast_ne hX2
  simp only [ipcaForget, pcaBatch, PState.toF, if_true, wscatter, gram_centre_raw]
  unfold wmean mean
  field_simp
  ring

/-- the uncentred branch: `(f n_a + n_b − 1) · cov = f² XᵀX + BᵀB` -/
theorem ipcaForget_uncentred (f : Rat) (X B : Data) (hX2 : 2 ≤ X.length)
    (hd1 : f * (X.length : Rat) + (B.length : Rat) - 1 ≠ 0) (i j : Nat) :
    (f * (X.length : Rat) + (B.length : Rat) - 1) * (ipcaForget false f (pcaBatch false X).toF B).cov i j
      = f * f * gram X i j + gram B i j := by
  have h1 : ((X.length : Rat) - 1) ≠ 0 := toF_cast_ne hX2
  simp only [ipcaForget, pcaBatch, PState.toF, Bool.false_eq_true, if_false, centre_zero]
  field_simp

/-- non-vacuity and a concrete value: `X = [0], [2]`, `B = [5]`, `f = 1/2`: weighted mean 3, held variance 17/2
(normaliser 1; the weighted scatter is 9, the old scatter 2, `f (1 − f) = 1/4`) -/
example : (ipcaForget true (1/2) (pcaBatch true [ex1 [0], ex1 [2]]).toF [ex1 [5]]).mean 0 = 3 ∧
    (ipcaForget true (1/2) (pcaBatch true [ex1 [0], ex1 [2]]).toF [ex1 [5]]).cov 0 0 = 17/2 ∧
    wscatter (1/2) [ex1 [0], ex1 [2]] [ex1 [5]] 0 0 = 9 ∧
    (pcaBatch true [ex1 [0], ex1 [2], ex1 [5]]).toF.cov 0 0 = 19/3 := by
  refine ⟨?_, ?_, ?_, ?_⟩ <;> decide +kernel



/-! ### `l = l[l > eps]; U = U[: len(l)]` -/

theorem ipcaKeep_nil_of_le (eps : Rat) (l : List Rat) (h : ∀ y ∈ l, ¬ eps < y) : ipcaKeep eps l = [] := by
  simp only [ipcaKeep, List.filter_eq_nil_iff, decide_eq_true_eq]
  exact h

/-- PROPERTY (`U[: len(l), :]` after `l = l[l > eps]`): because the singular values arrive in descending order,
taking the first `len(l)` rows selects exactly the rows whose eigenvalue passed the `> eps` test, in order -/
theorem ipcaRows_eq_filter {α : Type} (eps : Rat) (l : List Rat) (hs : l.Pairwise (fun a b => b ≤ a)) :
    ∀ (rows : List α), ipcaRows rows (ipcaKeep eps l)
      = ((l.zip rows).filter (fun p => decide (eps < p.1))).map (·.2) := by
  induction l with
  | nil => intro rows; simp [ipcaRows, ipcaKeep]
  | cons x l ih =>
    intro rows
    rw [List.pairwise_cons] at hs
    by_cases hx : eps < x
    · cases rows with
      | nil => simp [ipcaRows]
      | cons r rows =>
        have := ih hs.2 rows
        simp only [ipcaRows, ipcaKeep, List.filter_cons, hx, decide_true, if_true, List.length_cons, List.take_succ_cons,
          List.zip_cons_cons, List.map_cons] at this ⊢
        rw [this]
    · have hall : ∀ y ∈ x :: l, ¬ eps < y := by
        intro y hy
        rcases List.mem_cons.mp hy with h | h
        · rw [h]; exact hx
        · intro hlt
          have hyx : y ≤ x := hs.1 y h
          exact hx (lt_of_lt_of_le hlt hyx)
      rw [ipcaKeep_nil_of_le eps _ hall]
      simp only [ipcaRows, List.length_nil, List.take_zero]
      symm
      rw [List.map_eq_nil_iff, List.filter_eq_nil_iff]
      intro p hp
      have := hall p.1 (List.of_mem_zip hp).1
      simpa using this

/-- and the eigenvalues kept are the same selection -/
theorem ipcaKeep_eq_take (eps : Rat) (l : List Rat) (hs : l.Pairwise (fun a b => b ≤ a)) :
    ipcaKeep eps l = l.take (ipcaKeep eps l).length := by
  have := ipcaRows_eq_filter eps l hs l
  simp only [ipcaRows] at this
  rw [this]
  simp only [ipcaKeep]
  clear this hs
  induction l with
  | nil => rfl
  | cons x l ih => by_cases hx : eps < x <;> simp [hx, ih]

example : ([2, 1/2, 0] : List Rat).Pairwise (fun a b => b ≤ a) := by decide +kernel

/-- the ordering contract is needed: with ascending eigenvalues `[0, 1]` and `eps = 1/2` the prefix keeps the row of
the discarded eigenvalue -/
example : ipcaRows ["row of 0", "row of 1"] (ipcaKeep (1/2) [0, 1]) = ["row of 0"] := by decide +kernel
example : ipcaRows ["row of 1", "row of 0"] (ipcaKeep (1/2) [1, 0]) = ["row of 1"] := by decide +kernel
example : ipcaKeep defaultEps (ipcaEigs 4 [8, 2, 1/10000000000, 0]) = [2, 1/2] := by decide +kernel


/-! ### when the two storages agree -/

theorem blk_tri (k x y : Nat) : (x = y) ∨ (x * k + k ≤ y * k) ∨ (y * k + k ≤ x * k) := by
  rcases Nat.lt_trichotomy x y with h | h | h
  · right; left
    have := Nat.mul_le_mul_right k (Nat.succ_le_of_lt h)
    rw [Nat.succ_mul] at this; exact this
  · left; exact h
  · right; right
    have := Nat.mul_le_mul_right k (Nat.succ_le_of_lt h)
    rw [Nat.succ_mul] at this; exact this

/-- `(i, j)` lies in one of the two off-diagonal blocks of the edge `(v1, v2)` -/
def inOff (k v1 v2 i j : Nat) : Prop :=
  (v1 * k ≤ i ∧ i < v1 * k + k ∧ v2 * k ≤ j ∧ j < v2 * k + k) ∨
  (v2 * k ≤ i ∧ i < v2 * k + k ∧ v1 * k ≤ j ∧ j < v1 * k + k)

/-- the two ways of storing one edge agree at `(i, j)` when the running matrices agree there and the dense one is
still zero on the edge's off-diagonal blocks -/
theorem storeEdge_eq_sparse (mode : Mode) (k : Nat) (P Q : Mat) (v1 v2 : Nat) (inv : Mat) (i j : Nat)
    (hv : v1 ≠ v2) (hPQ : P i j = Q i j) (hz : inOff k v1 v2 i j → P i j = 0) :
    storeEdge mode k P v1 v2 inv i j = storeEdgeSparse mode k Q v1 v2 inv i j := by
  have ht := blk_tri k v1 v2
  unfold inOff at hz
  cases mode <;>
  · simp only [storeEdge, storeEdgeSparse, addBlock, setBlock, negM]
    generalize v1 * k = a at *
    generalize v2 * k = b at *
    split_ifs <;> first
      | omega
      | (rw [← hPQ]; done)
      | (rw [← hPQ, hz (by omega)]; simp)

/-- an entry in an off-diagonal block of another vertex pair is not touched by the dense store of `(v1, v2)` -/
theorem storeEdge_outside (mode : Mode) (k : Nat) (P : Mat) (v1 v2 w1 w2 : Nat) (inv : Mat) (i j : Nat)
    (hw : w1 ≠ w2) (hne : ¬ ((w1 = v1 ∧ w2 = v2) ∨ (w1 = v2 ∧ w2 = v1))) (hin : inOff k w1 w2 i j) :
    storeEdge mode k P v1 v2 inv i j = P i j := by
  have t1 := blk_tri k w1 v1
  have t2 := blk_tri k w1 v2
  have t3 := blk_tri k w2 v1
  have t4 := blk_tri k w2 v2
  have t5 := blk_tri k w1 w2
  unfold inOff at hin
  have e1 : w1 = v1 → w1 * k = v1 * k := fun h => by rw [h]
  have e2 : w1 = v2 → w1 * k = v2 * k := fun h => by rw [h]
  have e3 : w2 = v1 → w2 * k = v1 * k := fun h => by rw [h]
  have e4 : w2 = v2 → w2 * k = v2 * k := fun h => by rw [h]
  cases mode <;>
  · simp only [storeEdge, addBlock, setBlock, negM]
    generalize v1 * k = a at *
    generalize v2 * k = b at *
    generalize w1 * k = c at *
    generalize w2 * k = d at *
    split_ifs <;> first | rfl | omega

/-- the graph has no loop and no two edges on the same pair of vertices (in either orientation) -/
def SimpleEdges (es : List (Nat × Nat)) : Prop :=
  (∀ e, e < es.length → (es.getD e (0, 0)).1 ≠ (es.getD e (0, 0)).2) ∧
  (∀ e, e < es.length → ∀ e', e' < es.length → e ≠ e' →
    ¬ (((es.getD e' (0, 0)).1 = (es.getD e (0, 0)).1 ∧ (es.getD e' (0, 0)).2 = (es.getD e (0, 0)).2) ∨
       ((es.getD e' (0, 0)).1 = (es.getD e (0, 0)).2 ∧ (es.getD e' (0, 0)).2 = (es.getD e (0, 0)).1)))

instance (es : List (Nat × Nat)) : Decidable (SimpleEdges es) := by
  unfold SimpleEdges; infer_instance

theorem dense_sparse_prefix (mode : Mode) (k : Nat) (es : List (Nat × Nat)) (blk : Nat → Mat)
    (hs : SimpleEdges es) : ∀ n, n ≤ es.length →
    (∀ i j, (List.range n).foldl (fun P e => storeEdge mode k P (es.getD e (0, 0)).1 (es.getD e (0, 0)).2 (blk e))
              (fun _ _ => 0) i j
          = (List.range n).foldl (fun P e => storeEdgeSparse mode k P (es.getD e (0, 0)).1 (es.getD e (0, 0)).2 (blk e))
              (fun _ _ => 0) i j) ∧
    (∀ e, n ≤ e → e < es.length → ∀ i j, inOff k (es.getD e (0, 0)).1 (es.getD e (0, 0)).2 i j →
      (List.range n).foldl (fun P e => storeEdge mode k P (es.getD e (0, 0)).1 (es.getD e (0, 0)).2 (blk e))
              (fun _ _ => 0) i j = 0) := by
  intro n
  induction n with
  | zero => intro _; exact ⟨fun _ _ => rfl, fun _ _ _ _ _ _ => rfl⟩
  | succ n ih =>
    intro hn
    obtain ⟨hA, hB⟩ := ih (by omega)
    have hlt : n < es.length := by omega
    simp only [List.range_succ, List.foldl_append, List.foldl_cons, List.foldl_nil]
    refine ⟨fun i j => ?_, fun e he hel i j hin => ?_⟩
    · exact storeEdge_eq_sparse mode k _ _ _ _ _ i j (hs.1 n hlt) (hA i j) (hB n (Nat.le_refl n) hlt i j)
    · rw [storeEdge_outside mode k _ _ _ (es.getD e (0, 0)).1 (es.getD e (0, 0)).2 _ i j (hs.1 e hel)
        (hs.2 n hlt e hel (by omega)) hin]
      exact hB e (by omega) hel i j hin

/-- PROPERTY (storage independence on simple graphs): without loops and without two edges on the same pair of
vertices the dense array (off-diagonal blocks assigned) and the BSR matrix (duplicates summed) hold the same
precision, for both modes and the edgeless case, whatever the blocks -/
theorem dense_eq_sparse_of_simple (g : GSpec) (blk : Nat → Mat) (hs : SimpleEdges g.edges) :
    precisionOf g blk = precisionOfSparse g blk := by
  funext i j
  unfold precisionOf precisionOfSparse
  split
  · -- one block per vertex: `set` on a zero background is `add`
    have key : ∀ n, (∀ i j, (List.range n).foldl (fun P v => setBlock P (v * g.k) (v * g.k) g.k (blk v) 0 0) (fun _ _ => 0) i j
          = (List.range n).foldl (fun P v => addBlock P (v * g.k) (v * g.k) g.k (blk v) 0 0) (fun _ _ => 0) i j) ∧
        (∀ v, n ≤ v → ∀ i j, (v * g.k ≤ i ∧ i < v * g.k + g.k ∧ v * g.k ≤ j ∧ j < v * g.k + g.k) →
          (List.range n).foldl (fun P v => setBlock P (v * g.k) (v * g.k) g.k (blk v) 0 0) (fun _ _ => 0) i j = 0) := by
      intro n
      induction n with
      | zero => exact ⟨fun _ _ => rfl, fun _ _ _ _ _ => rfl⟩
      | succ n ih =>
        obtain ⟨hA, hB⟩ := ih
        simp only [List.range_succ, List.foldl_append, List.foldl_cons, List.foldl_nil]
        refine ⟨fun i j => ?_, fun v hv i j hin => ?_⟩
        · simp only [setBlock, addBlock]
          split_ifs with h
          · rw [← hA i j, hB n (Nat.le_refl n) i j h]; simp
          · exact hA i j
        · have t := blk_tri g.k v n
          have hB' := hB v (by omega) i j hin
          simp only [setBlock]
          generalize v * g.k = a at *
          generalize n * g.k = b at *
          split_ifs with h
          · omega
          · exact hB'
    exact (key g.nv).1 i j
  · exact (dense_sparse_prefix g.mode g.k g.edges blk hs g.edges.length (Nat.le_refl _)).1 i j

example : SimpleEdges [(0, 1), (1, 2), (2, 0)] := by decide
example : ¬ SimpleEdges [(0, 1), (1, 0)] := by decide


/-- hence on simple graphs the `sparse` flag does not change the stored precision -/
theorem precisionStored_storage_independent (g : GSpec) (inv : Mat → Mat) (cov : Nat → Mat)
    (hs : SimpleEdges g.edges) : precisionStored true g inv cov = precisionStored false g inv cov := by
  simp only [precisionStored, if_true, Bool.false_eq_true, if_false, precision]
  exact (dense_eq_sparse_of_simple g _ hs).symm

/-! ## Part II — the `R`-matrix construction of `ipca`, QR and SVD as contract parameters -/

open Matrix
variable {k m q d : Type} [Fintype k] [Fintype m] [Fintype q] [Fintype d]
  [DecidableEq k] [DecidableEq m] [DecidableEq q] [DecidableEq d]

/-- QR contract ⇒ the rows of `B̃` span the rows of `PB` -/
theorem qr_contract {r : Type} [Fintype r] [DecidableEq r] (PB : Matrix m d ℚ) (Q : Matrix d r ℚ)
    (Rq : Matrix r m ℚ) (hqr : PBᵀ = Q * Rq) (hQ : Qᵀ * Q = 1) :
    PB * (Qᵀ)ᵀ * Qᵀ = PB := by
  have hPB : PB = Rqᵀ * Qᵀ := by
    have := congrArg Matrix.transpose hqr
    simpa [Matrix.transpose_mul] using this
  rw [Matrix.transpose_transpose]
  conv_lhs => rw [hPB]
  rw [Matrix.mul_assoc Rqᵀ, hQ, Matrix.mul_one, ← hPB]

/-- SVD contract ⇒ `RᵀR = Vtᵀ diag(σ) Vt` with `σ` the squared singular values (zero padded) -/
theorem svd_contract {a c : Type} [Fintype a] [Fintype c] [DecidableEq a] [DecidableEq c]
    (R : Matrix a c ℚ) (Ut : Matrix a a ℚ) (Sg : Matrix a c ℚ) (Vt : Matrix c c ℚ) (σ : c → ℚ)
    (hR : R = Ut * Sg * Vt) (hU : Utᵀ * Ut = 1) (hS : Sgᵀ * Sg = diagonal σ) :
    Rᵀ * R = Vtᵀ * diagonal σ * Vt := by
  subst hR
  simp only [Matrix.transpose_mul]
  calc Vtᵀ * (Sgᵀ * Utᵀ) * (Ut * Sg * Vt) = Vtᵀ * (Sgᵀ * (Utᵀ * Ut) * Sg) * Vt := by
        simp only [Matrix.mul_assoc]
    _ = Vtᵀ * diagonal σ * Vt := by rw [hU, Matrix.mul_one, hS]

/-- PROPERTY (algebraic skeleton of `ipca`): with `U = Vt·[U_a; B̃]` and `σ = s̃²`,
`Uᵀ diag(σ) U = U_aᵀ diag(s_a²) U_a + BᵀB` -/
theorem ipca_scatter_exact (Ua : Matrix k d ℚ) (sa : k → ℚ) (B : Matrix m d ℚ) (Bt : Matrix q d ℚ)
    (Vt : Matrix (k ⊕ q) (k ⊕ q) ℚ) (σ : k ⊕ q → ℚ)
    (hqr : projOut Ua B * Btᵀ * Bt = projOut Ua B)
    (hsvd : (ipcaR Ua sa B Bt)ᵀ * ipcaR Ua sa B Bt = Vtᵀ * diagonal σ * Vt) :
    (Vt * fromRows Ua Bt)ᵀ * diagonal σ * (Vt * fromRows Ua Bt)
      = Uaᵀ * diagonal (fun i => sa i * sa i) * Ua + Bᵀ * B := by
  have h1 : (Vt * fromRows Ua Bt)ᵀ * diagonal σ * (Vt * fromRows Ua Bt)
      = (fromRows Ua Bt)ᵀ * (Vtᵀ * diagonal σ * Vt) * fromRows Ua Bt := by
    simp only [Matrix.transpose_mul, Matrix.mul_assoc]
  rw [h1, ← hsvd]
  have h2 : (fromRows Ua Bt)ᵀ * ((ipcaR Ua sa B Bt)ᵀ * ipcaR Ua sa B Bt) * fromRows Ua Bt
      = (ipcaR Ua sa B Bt * fromRows Ua Bt)ᵀ * (ipcaR Ua sa B Bt * fromRows Ua Bt) := by
    simp only [Matrix.transpose_mul, Matrix.mul_assoc]
  rw [h2, ipcaR_mul_W Ua sa B Bt hqr, transpose_fromRows, fromCols_mul_fromRows]
  congr 1
  rw [Matrix.transpose_mul, Matrix.diagonal_transpose, Matrix.mul_assoc, ← Matrix.mul_assoc (diagonal sa),
    Matrix.diagonal_mul_diagonal, Matrix.mul_assoc]

theorem ipca_components_orthonormal (Ua : Matrix k d ℚ) (Bt : Matrix q d ℚ) (Vt : Matrix (k ⊕ q) (k ⊕ q) ℚ)
    (hUa : Ua * Uaᵀ = 1) (hBt : Bt * Btᵀ = 1) (hperp : Bt * Uaᵀ = 0) (hV : Vt * Vtᵀ = 1) :
    (Vt * fromRows Ua Bt) * (Vt * fromRows Ua Bt)ᵀ = 1 := by
  have hperp' : Ua * Btᵀ = 0 := by
    have := congrArg Matrix.transpose hperp
    simpa [Matrix.transpose_mul] using this
  have hW : fromRows Ua Bt * (fromRows Ua Bt)ᵀ = 1 := by
    rw [transpose_fromRows, fromRows_mul_fromCols, hUa, hBt, hperp, hperp', fromBlocks_one]
  rw [Matrix.transpose_mul, Matrix.mul_assoc, ← Matrix.mul_assoc (fromRows Ua Bt), hW, Matrix.one_mul, hV]

/-- orthonormal rows representing `S` are an eigen-decomposition of `S` -/
theorem eigen_of_representation {c : Type} [Fintype c] [DecidableEq c] (U : Matrix c d ℚ) (σ : c → ℚ)
    (S : Matrix d d ℚ) (hU : U * Uᵀ = 1) (hS : Uᵀ * diagonal σ * U = S) :
    S * Uᵀ = Uᵀ * diagonal σ := by
  rw [← hS, Matrix.mul_assoc, hU, Matrix.mul_one]

/-- rows with a zero eigenvalue may be dropped (`U[: len(l), :]` after `l = l[l > eps]`) -/
theorem representation_drop_zero {c : Type} [Fintype c] [DecidableEq c] (U : Matrix c d ℚ) (σ : c → ℚ) (a b : d) :
    (Uᵀ * diagonal σ * U) a b = ∑ i ∈ Finset.univ.filter (fun i => σ i ≠ 0), σ i * U i a * U i b := by
  rw [representation_entry, Finset.sum_filter]
  apply Finset.sum_congr rfl; intro i _
  by_cases h : σ i = 0 <;> simp [h]

/-- PROPERTY: `l = s̃² / (n − 1)`: the returned pair represents the covariance `scatter / (n − 1)` -/
theorem ipca_covariance_exact {c : Type} [Fintype c] [DecidableEq c] (U : Matrix c d ℚ) (σ : c → ℚ)
    (S : Matrix d d ℚ) (nm1 : ℚ) (hS : Uᵀ * diagonal σ * U = S) :
    Uᵀ * diagonal (fun i => σ i / nm1) * U = (1 / nm1) • S := by
  have : diagonal (fun i => σ i / nm1) = (1 / nm1) • diagonal σ := by
    ext i j; by_cases h : i = j <;> simp [h, div_eq_inv_mul]
  rw [this, Matrix.mul_smul, Matrix.smul_mul, hS]

/-- PROPERTY (principal subspace): two orthonormal representations of the same matrix without zero
eigenvalues have the same projector `UᵀU`, i.e. span the same subspace -/
theorem principal_subspace_unique {c₁ c₂ : Type} [Fintype c₁] [Fintype c₂] [DecidableEq c₁] [DecidableEq c₂]
    (U₁ : Matrix c₁ d ℚ) (U₂ : Matrix c₂ d ℚ) (σ₁ : c₁ → ℚ) (σ₂ : c₂ → ℚ)
    (h₁ : U₁ * U₁ᵀ = 1) (h₂ : U₂ * U₂ᵀ = 1) (hσ₁ : ∀ i, σ₁ i ≠ 0) (hσ₂ : ∀ i, σ₂ i ≠ 0)
    (hS : U₁ᵀ * diagonal σ₁ * U₁ = U₂ᵀ * diagonal σ₂ * U₂) :
    U₁ᵀ * U₁ = U₂ᵀ * U₂ := by
  have key : ∀ {a b : Type} [Fintype a] [Fintype b] [DecidableEq a] [DecidableEq b]
      (A : Matrix a d ℚ) (B : Matrix b d ℚ) (α : a → ℚ) (β : b → ℚ), A * Aᵀ = 1 → B * Bᵀ = 1 →
      (∀ i, α i ≠ 0) → Aᵀ * diagonal α * A = Bᵀ * diagonal β * B → A * (Bᵀ * B) = A := by
    intro a b _ _ _ _ A B α β hA hB hα h
    have hSP : (Aᵀ * diagonal α * A) * (Bᵀ * B) = Aᵀ * diagonal α * A := by
      rw [h]
      calc Bᵀ * diagonal β * B * (Bᵀ * B) = Bᵀ * diagonal β * (B * Bᵀ) * B := by simp only [Matrix.mul_assoc]
        _ = Bᵀ * diagonal β * B := by rw [hB, Matrix.mul_one]
    have hinv : diagonal (fun i => (α i)⁻¹) * diagonal α = 1 := by
      rw [Matrix.diagonal_mul_diagonal, ← Matrix.diagonal_one]
      congr 1; funext i; exact inv_mul_cancel₀ (hα i)
    have h3 : diagonal (fun i => (α i)⁻¹) * (A * (Aᵀ * diagonal α * A * (Bᵀ * B)))
        = diagonal (fun i => (α i)⁻¹) * (A * (Aᵀ * diagonal α * A)) := by rw [hSP]
    have e1 : ∀ M : Matrix d d ℚ, diagonal (fun i => (α i)⁻¹) * (A * (Aᵀ * diagonal α * A * M))
        = A * M := by
      intro M
      calc diagonal (fun i => (α i)⁻¹) * (A * (Aᵀ * diagonal α * A * M))
          = diagonal (fun i => (α i)⁻¹) * ((A * Aᵀ) * diagonal α) * (A * M) := by simp only [Matrix.mul_assoc]
        _ = A * M := by rw [hA, Matrix.one_mul, hinv, Matrix.one_mul]
    have e2 : diagonal (fun i => (α i)⁻¹) * (A * (Aᵀ * diagonal α * A)) = A := by
      have := e1 1
      simpa using this
    rw [e1] at h3
    rw [h3, e2]
  have p12 : (U₁ᵀ * U₁) * (U₂ᵀ * U₂) = U₁ᵀ * U₁ := by
    rw [Matrix.mul_assoc, key U₁ U₂ σ₁ σ₂ h₁ h₂ hσ₁ hS]
  have p21 : (U₂ᵀ * U₂) * (U₁ᵀ * U₁) = U₂ᵀ * U₂ := by
    rw [Matrix.mul_assoc, key U₂ U₁ σ₂ σ₁ h₂ h₁ hσ₂ hS.symm]
  have p12t : (U₂ᵀ * U₂) * (U₁ᵀ * U₁) = U₁ᵀ * U₁ := by
    have := congrArg Matrix.transpose p12
    simpa [Matrix.transpose_mul] using this
  rw [← p12t, p21]

/-- PROPERTY (one `ipca` step end to end, centred branch): if `(U_a, s_a²)` represents the scatter of the data
`X` seen so far, then — under the sqrt, QR and SVD contracts — the returned `(U, σ)` represents the scatter of
the concatenated data `X ++ Bd`, where the matrix handed to the `R` construction is the new data centred on
their own mean with the pseudo-sample `r (m_b − m_a)` stacked below, `r² = n_a n_b / n` -/
theorem ipca_step_represents (n : Nat) (X Bd : Data) (hX : X ≠ []) (hB : Bd ≠ [])
    (Ua : Matrix k (Fin n) ℚ) (sa : k → ℚ) (r : ℚ)
    (hr : r * r = (X.length : ℚ) * (Bd.length : ℚ) / ((X.length : ℚ) + (Bd.length : ℚ)))
    (Baug : Data) (hBaug : Baug = centre Bd (mean Bd) ++ [fun c => r * (mean Bd c - mean X c)])
    (hold : ∀ i j : Fin n, (Uaᵀ * diagonal (fun i => sa i * sa i) * Ua) i j = gram (centre X (mean X)) i j)
    (Bt : Matrix q (Fin n) ℚ) (Vt : Matrix (k ⊕ q) (k ⊕ q) ℚ) (σ : k ⊕ q → ℚ)
    (hqr : projOut Ua (matOfData n Baug) * Btᵀ * Bt = projOut Ua (matOfData n Baug))
    (hsvd : (ipcaR Ua sa (matOfData n Baug) Bt)ᵀ * ipcaR Ua sa (matOfData n Baug) Bt = Vtᵀ * diagonal σ * Vt)
    (i j : Fin n) :
    ((Vt * fromRows Ua Bt)ᵀ * diagonal σ * (Vt * fromRows Ua Bt)) i j
      = gram (centre (X ++ Bd) (mean (X ++ Bd))) i j := by
  rw [ipca_scatter_exact Ua sa (matOfData n Baug) Bt Vt σ hqr hsvd, Matrix.add_apply, hold, matOfData_gram,
    hBaug, pseudo_sample_gram _ _ r _ hr, scatter_union_identity X Bd hX hB]
  ring

/-! non-vacuity of the contracts: `U_a = e₀`, `s_a = 1`, new row `(0, 2)`, `B̃ = e₁`, `R = diag(1, 2)`,
singular values sorted descending -/
section Example
def exUa : Matrix (Fin 1) (Fin 2) ℚ := fun _ j => if j = 0 then 1 else 0
def exB : Matrix (Fin 1) (Fin 2) ℚ := fun _ j => if j = 0 then 0 else 2
def exBt : Matrix (Fin 1) (Fin 2) ℚ := fun _ j => if j = 0 then 0 else 1
def exVt : Matrix (Fin 1 ⊕ Fin 1) (Fin 1 ⊕ Fin 1) ℚ := fromBlocks 0 1 1 0
def exσ : Fin 1 ⊕ Fin 1 → ℚ := Sum.elim (fun _ => 4) (fun _ => 1)

example : projOut exUa exB * exBtᵀ * exBt = projOut exUa exB := by decide +kernel
example : (ipcaR exUa (fun _ => 1) exB exBt)ᵀ * ipcaR exUa (fun _ => 1) exB exBt = exVtᵀ * diagonal exσ * exVt := by
  decide +kernel
example : exVt * exVtᵀ = 1 ∧ exBt * exUaᵀ = 0 ∧ exUa * exUaᵀ = 1 ∧ exBt * exBtᵀ = 1 := by decide +kernel
end Example

/-! ## Part II (continued) — no full-rank hypothesis; the chain of increments -/


/-- `(U, σ)` is an eigen-decomposition of `S` without zero eigenvalues: what a PCA model stores -/
structure RepM {c : Type} [Fintype c] [DecidableEq c] (S : Matrix d d ℚ) (U : Matrix c d ℚ) (σ : c → ℚ) : Prop where
  orth : U * Uᵀ = 1
  nz : ∀ i, σ i ≠ 0
  rep : Uᵀ * diagonal σ * U = S

theorem RepM.eigen {c : Type} [Fintype c] [DecidableEq c] {S : Matrix d d ℚ} {U : Matrix c d ℚ} {σ : c → ℚ}
    (h : RepM S U σ) : S * Uᵀ = Uᵀ * diagonal σ :=
  eigen_of_representation U σ S h.orth h.rep

/-- PROPERTY (no full-rank hypothesis): the rows of `U = Vt·[U_a; B̃]` belonging to non-zero singular values of `R`
are orthonormal — `[U_a; B̃]` itself need not have orthonormal rows (rank-deficient residual, more new rows than
unexplored dimensions) -/
theorem ipca_rows_orthonormal (Ua : Matrix k d ℚ) (sa : k → ℚ) (B : Matrix m d ℚ) (Bt : Matrix q d ℚ)
    (Vt : Matrix (k ⊕ q) (k ⊕ q) ℚ) (σ : k ⊕ q → ℚ)
    (hUa : Ua * Uaᵀ = 1)
    (hqr : projOut Ua B * Btᵀ * Bt = projOut Ua B)
    (hsvd : (ipcaR Ua sa B Bt)ᵀ * ipcaR Ua sa B Bt = Vtᵀ * diagonal σ * Vt) (hV : Vt * Vtᵀ = 1)
    (i j : k ⊕ q) (hi : σ i ≠ 0) (hj : σ j ≠ 0) :
    ((Vt * fromRows Ua Bt) * (Vt * fromRows Ua Bt)ᵀ) i j = if i = j then 1 else 0 := by
  apply kept_rows_orthonormal σ _ _ i j hi hj
  apply svd_rows_gram (ipcaR Ua sa B Bt) (fromRows Ua Bt) Vt σ hsvd hV
  rw [ipcaR_mul_W Ua sa B Bt hqr, ipcaR_gram Ua sa B Bt hUa hqr]

/-- PROPERTY (one `ipca` step, any forgetting factor `f`, any residual rank): a stored eigen-decomposition of `S_a`
is turned into an eigen-decomposition of `f² S_a + BᵀB` by keeping exactly the rows with non-zero `σ` -/
theorem ipca_step_repM (f : ℚ) (Sa : Matrix d d ℚ) (Ua : Matrix k d ℚ) (σa sa : k → ℚ) (h : RepM Sa Ua σa)
    (hsa : ∀ i, sa i * sa i = σa i) (B : Matrix m d ℚ) (Bt : Matrix q d ℚ)
    (Vt : Matrix (k ⊕ q) (k ⊕ q) ℚ) (σ : k ⊕ q → ℚ)
    (hqr : projOut Ua B * Btᵀ * Bt = projOut Ua B)
    (hsvd : (ipcaR Ua (fun i => f * sa i) B Bt)ᵀ * ipcaR Ua (fun i => f * sa i) B Bt = Vtᵀ * diagonal σ * Vt)
    (hV : Vt * Vtᵀ = 1) (p : k ⊕ q → Prop) [DecidablePred p] (hp : ∀ i, p i ↔ σ i ≠ 0) :
    RepM ((f * f) • Sa + Bᵀ * B) (keptU p (Vt * fromRows Ua Bt)) (keptσ p σ) := by
  refine ⟨?_, fun i => (hp i.val).mp i.property, ?_⟩
  · ext i j
    rw [keptU_gram, ipca_rows_orthonormal Ua _ B Bt Vt σ h.orth hqr hsvd hV i.val j.val
      ((hp _).mp i.property) ((hp _).mp j.property), Matrix.one_apply]
    simp only [Subtype.ext_iff]
  · rw [kept_represents p _ σ (fun i hi => by by_contra h0; exact hi ((hp i).mpr h0)),
      ipca_scatter_exact Ua _ B Bt Vt σ hqr hsvd]
    congr 1
    rw [← h.rep]
    have : diagonal (fun i => f * sa i * (f * sa i)) = (f * f) • diagonal σa := by
      ext i j; by_cases hij : i = j
      · subst hij; simp [← hsa i]; ring
      · simp [hij]
    rw [this, Matrix.mul_smul, Matrix.smul_mul]


/-! ### the chain: every state reachable by `pca` + increments is an eigen-decomposition of the batch scatter -/

/-- the scatter whose eigen-decomposition batch `pca(X, centre)` returns (divided by `n − 1`), as a matrix -/
def scatterM (n : Nat) (centred : Bool) (X : Data) : Matrix (Fin n) (Fin n) ℚ :=
  fun i j => (pcaBatch centred X).scat i j

/-- the matrix `B` that `ipca` hands to its `R` construction: the new rows as they are (uncentred), or centred on
their own mean with the pseudo-sample `r (m_b − m_a)` stacked below -/
def augData (centred : Bool) (X Bd : Data) (r : ℚ) : Data :=
  if centred then centre Bd (mean Bd) ++ [fun c => r * (mean Bd c - mean X c)] else Bd

theorem scatter_step (n : Nat) (centred : Bool) (X Bd : Data) (hX : X ≠ []) (hB : Bd ≠ []) (r : ℚ)
    (hr : centred = true → r * r = (X.length : ℚ) * (Bd.length : ℚ) / ((X.length : ℚ) + (Bd.length : ℚ))) :
    (1 * 1 : ℚ) • scatterM n centred X + (matOfData n (augData centred X Bd r))ᵀ * matOfData n (augData centred X Bd r)
      = scatterM n centred (X ++ Bd) := by
  ext i j
  rw [Matrix.add_apply, Matrix.smul_apply, matOfData_gram]
  cases centred
  · have h := congrArg (fun s => s.scat i.val j.val) (ipca_uncentred_step X Bd)
    simp only [ipcaUncentred] at h
    simp only [scatterM, augData, Bool.false_eq_true, if_false, smul_eq_mul]
    rw [← h]; ring
  · simp only [scatterM, augData, if_true, pcaBatch, smul_eq_mul]
    rw [pseudo_sample_gram _ _ r _ (hr rfl), scatter_union_identity X Bd hX hB]; ring

/-- what a PCA model stores: an index type for the components, the components and `(n − 1)·eigenvalues` -/
structure Decomp (n : Nat) where
  c : Type
  [fin : Fintype c]
  [dec : DecidableEq c]
  U : Matrix c (Fin n) ℚ
  σ : c → ℚ

attribute [instance] Decomp.fin Decomp.dec

/-- the rows `ipca` keeps: `l = s̃² / (n − 1)`, `l > eps` -/
def keepRow {c : Type} (eps nm1 : ℚ) (σ : c → ℚ) (i : c) : Prop := eps < σ i / nm1

instance {c : Type} (eps nm1 : ℚ) (σ : c → ℚ) : DecidablePred (keepRow eps nm1 σ) := fun i => by
  unfold keepRow; infer_instance

/-- everything a `PCAVectorModel` can hold after `pca(X₀)` and any number of `increment` calls (no forgetting),
for *any* results of sqrt / qr / svd that satisfy their contracts.  Every step discards with a threshold `τ` of its
own, at least `eps` (as coded: `τ = max(eps, max(R.shape) · precision · max l)`); `hgap`: no eigenvalue in `(0, τ]` -/
inductive IpcaReach (n : Nat) (eps : ℚ) (centred : Bool) : Data → Decomp n → Prop
  | batch (X : Data) (D : Decomp n) (hX : X ≠ []) (h : RepM (scatterM n centred X) D.U D.σ) :
      IpcaReach n eps centred X D
  | step (X Bd : Data) (D : Decomp n) (prev : IpcaReach n eps centred X D) (hB : Bd ≠ [])
      (sa : D.c → ℚ) (hsa : ∀ i, sa i * sa i = D.σ i)
      (r : ℚ) (hr : centred = true → r * r = (X.length : ℚ) * (Bd.length : ℚ) / ((X.length : ℚ) + (Bd.length : ℚ)))
      (q : Type) [Fintype q] [DecidableEq q] (Bt : Matrix q (Fin n) ℚ)
      (Vt : Matrix (D.c ⊕ q) (D.c ⊕ q) ℚ) (σ : D.c ⊕ q → ℚ)
      (hqr : projOut D.U (matOfData n (augData centred X Bd r)) * Btᵀ * Bt
              = projOut D.U (matOfData n (augData centred X Bd r)))
      (hsvd : (ipcaR D.U (fun i => 1 * sa i) (matOfData n (augData centred X Bd r)) Bt)ᵀ
                * ipcaR D.U (fun i => 1 * sa i) (matOfData n (augData centred X Bd r)) Bt
              = Vtᵀ * diagonal σ * Vt)
      (hV : Vt * Vtᵀ = 1)
      (τ : ℚ) (hτ : eps ≤ τ)
      (hgap : ∀ i, σ i = 0 ∨ τ < σ i / (((X ++ Bd).length : ℚ) - 1)) :
      IpcaReach n eps centred (X ++ Bd)
        ⟨{i // keepRow τ (((X ++ Bd).length : ℚ) - 1) σ i},
         keptU (keepRow τ (((X ++ Bd).length : ℚ) - 1) σ) (Vt * fromRows D.U Bt),
         keptσ (keepRow τ (((X ++ Bd).length : ℚ) - 1) σ) σ⟩

theorem keepRow_iff {c : Type} (eps nm1 : ℚ) (σ : c → ℚ) (heps : 0 ≤ eps)
    (hgap : ∀ i, σ i = 0 ∨ eps < σ i / nm1) (i : c) : keepRow eps nm1 σ i ↔ σ i ≠ 0 := by
  unfold keepRow
  constructor
  · intro h h0
    rw [h0, zero_div] at h
    exact absurd h (not_lt.mpr heps)
  · intro h
    rcases hgap i with h0 | h1
    · exact absurd h0 h
    · exact h1

/-- PROPERTY (invariant by induction over the increments): whatever qr / svd / sqrt return within their contracts,
and whatever the rank of the residuals, the model state after any list of increments has orthonormal components,
no zero eigenvalue, and represents the scatter of *all* the data — it is an eigen-decomposition of the batch
scatter -/
theorem ipca_reach_represents (n : Nat) (eps : ℚ) (heps : 0 ≤ eps) (centred : Bool) (X : Data) (D : Decomp n)
    (h : IpcaReach n eps centred X D) : X ≠ [] ∧ RepM (scatterM n centred X) D.U D.σ := by
  induction h with
  | batch X D hX h => exact ⟨hX, h⟩
  | step X Bd D prev hB sa hsa r hr q Bt Vt σ hqr hsvd hV τ hτ hgap ih =>
    obtain ⟨hX, hrep⟩ := ih
    refine ⟨by simp [hX], ?_⟩
    have := ipca_step_repM 1 (scatterM n centred X) D.U D.σ sa hrep hsa _ Bt Vt σ hqr hsvd hV
      (keepRow τ (((X ++ Bd).length : ℚ) - 1) σ) (keepRow_iff τ _ σ (le_trans heps hτ) hgap)
    rw [scatter_step n centred X Bd hX hB r hr] at this
    exact this



/-- PROPERTY (principal subspace, chunking independence): any two states reachable from the same data — whatever the
cut into increments, whatever qr / svd returned, in particular the batch decomposition itself — have the same
projector `UᵀU`, i.e. the same principal subspace, and both diagonalise the same scatter -/
theorem ipca_reach_subspace_unique (n : Nat) (eps : ℚ) (heps : 0 ≤ eps) (centred : Bool) (X : Data)
    (D₁ D₂ : Decomp n) (h₁ : IpcaReach n eps centred X D₁) (h₂ : IpcaReach n eps centred X D₂) :
    D₁.Uᵀ * D₁.U = D₂.Uᵀ * D₂.U := by
  have r₁ := (ipca_reach_represents n eps heps centred X D₁ h₁).2
  have r₂ := (ipca_reach_represents n eps heps centred X D₂ h₂).2
  exact principal_subspace_unique D₁.U D₂.U D₁.σ D₂.σ r₁.orth r₂.orth r₁.nz r₂.nz (r₁.rep.trans r₂.rep.symm)

/-- the weakest hypothesis on the discard, exactly: given that the rows with non-zero `σ` are orthonormal (which
`ipca_rows_orthonormal` provides), the kept rows represent the same matrix **iff** every discarded row has `σ = 0` -/
theorem kept_represents_iff {c : Type} [Fintype c] [DecidableEq c] (p : c → Prop) [DecidablePred p]
    (U : Matrix c d ℚ) (σ : c → ℚ)
    (horth : ∀ i j, σ i ≠ 0 → σ j ≠ 0 → (U * Uᵀ) i j = if i = j then 1 else 0) :
    (keptU p U)ᵀ * diagonal (keptσ p σ) * keptU p U = Uᵀ * diagonal σ * U ↔ ∀ i, ¬ p i → σ i = 0 := by
  constructor
  · intro h j hj
    by_contra hσ
    have hloss : ∀ a b, ∑ i ∈ Finset.univ.filter (fun i => ¬ p i), σ i * U i a * U i b = 0 := by
      intro a b
      have := kept_represents_loss p U σ a b
      rw [h] at this
      linarith
    -- contract with row `j` on both sides
    have h2 : ∑ a, ∑ b, (∑ i ∈ Finset.univ.filter (fun i => ¬ p i), σ i * U i a * U i b) * (U j a * U j b) = 0 := by
      simp [hloss]
    have h3 : ∑ a, ∑ b, (∑ i ∈ Finset.univ.filter (fun i => ¬ p i), σ i * U i a * U i b) * (U j a * U j b)
        = ∑ i ∈ Finset.univ.filter (fun i => ¬ p i), σ i * ((U * Uᵀ) i j * (U * Uᵀ) i j) := by
      simp only [Finset.sum_mul]
      rw [Finset.sum_comm]
      conv_lhs => enter [2, a]; rw [Finset.sum_comm]
      rw [Finset.sum_comm]
      apply Finset.sum_congr rfl
      intro i _
      simp only [Matrix.mul_apply, Matrix.transpose_apply, Finset.mul_sum, Finset.sum_mul]
      rw [Finset.sum_comm]
      apply Finset.sum_congr rfl; intro a _
      apply Finset.sum_congr rfl; intro b _
      ring
    rw [h3] at h2
    have h4 : ∑ i ∈ Finset.univ.filter (fun i => ¬ p i), σ i * ((U * Uᵀ) i j * (U * Uᵀ) i j) = σ j := by
      rw [Finset.sum_eq_single j]
      · rw [horth j j hσ hσ]; simp
      · intro i _ hij
        by_cases hi : σ i = 0
        · rw [hi]; ring
        · rw [horth i j hi hσ]; simp [hij]
      · intro hnot; exact absurd (by simpa using hj) hnot
    rw [h4] at h2
    exact hσ h2
  · exact kept_represents p U σ

/-! rank-deficient residual, concretely: `U_a = e₀` in the plane, two new rows `(0,2), (1,0)`; the residuals are
`(0,2), (0,0)`, the (non-pivoted, Householder) QR of the 2×2 residual matrix returns *two* orthonormal rows
`B̃ = e₁, e₀`, so `[U_a; B̃] = e₀, e₁, e₀` does not have orthonormal rows and `B̃ U_aᵀ ≠ 0`: the full-rank contract
of `ipca_components_orthonormal` fails, the contracts of `ipca_step_repM` hold, and the kept rows are `e₁, e₀` -/
section RankDeficient
def rdUa : Matrix (Fin 1) (Fin 2) ℚ := !![1, 0]
def rdB : Matrix (Fin 2) (Fin 2) ℚ := !![0, 2; 1, 0]
def rdBt : Matrix (Fin 2) (Fin 2) ℚ := !![0, 1; 1, 0]
def rdVt : Matrix (Fin 1 ⊕ Fin 2) (Fin 1 ⊕ Fin 2) ℚ :=
  fromBlocks !![0] !![1, 0] !![1; 0] !![0, 0; 0, 1]
def rdσ : Fin 1 ⊕ Fin 2 → ℚ := Sum.elim (fun _ => 4) ![2, 0]

example : projOut rdUa rdB = !![0, 2; 0, 0] := by decide +kernel
example : projOut rdUa rdB * rdBtᵀ * rdBt = projOut rdUa rdB := by decide +kernel
example : (ipcaR rdUa (fun i => 1 * (fun _ => 1) i) rdB rdBt)ᵀ * ipcaR rdUa (fun i => 1 * (fun _ => 1) i) rdB rdBt
    = rdVtᵀ * diagonal rdσ * rdVt := by decide +kernel
example : rdVt * rdVtᵀ = 1 ∧ rdUa * rdUaᵀ = 1 := by decide +kernel
example : rdBt * rdUaᵀ ≠ 0 := by decide +kernel
example : fromRows rdUa rdBt * (fromRows rdUa rdBt)ᵀ ≠ 1 := by decide +kernel
example : RepM (!![1, 0; 0, 0] : Matrix (Fin 2) (Fin 2) ℚ) rdUa (fun _ => 1) :=
  ⟨by decide +kernel, by decide +kernel, by decide +kernel⟩
example : ((1 : ℚ) * 1) • (!![1, 0; 0, 0] : Matrix (Fin 2) (Fin 2) ℚ) + rdBᵀ * rdB = !![2, 0; 0, 4] := by
  decide +kernel
end RankDeficient

/-- the gap hypothesis `hgap` of `IpcaReach.step` cannot be dropped: `U_a = e₀`, `σ_a = 1`, new row `(0, 1/2)`,
`n − 1 = 1`, `eps = 1/2`: the new eigenvalue `1/4` is positive but not `> eps`, its row is discarded, and the kept
pair represents `diag(1, 0)` instead of the scatter `diag(1, 1/4)` -/
def gapUa : Matrix (Fin 1) (Fin 2) ℚ := !![1, 0]
def gapB : Matrix (Fin 1) (Fin 2) ℚ := !![0, 1/2]
def gapBt : Matrix (Fin 1) (Fin 2) ℚ := !![0, 1]
def gapVt : Matrix (Fin 1 ⊕ Fin 1) (Fin 1 ⊕ Fin 1) ℚ := 1
def gapσ : Fin 1 ⊕ Fin 1 → ℚ := Sum.elim (fun _ => 1) (fun _ => 1/4)

theorem ipca_eps_gap_needed :
    projOut gapUa gapB * gapBtᵀ * gapBt = projOut gapUa gapB ∧
    (ipcaR gapUa (fun _ => 1) gapB gapBt)ᵀ * ipcaR gapUa (fun _ => 1) gapB gapBt
      = gapVtᵀ * diagonal gapσ * gapVt ∧ gapVt * gapVtᵀ = 1 ∧
    (gapUaᵀ * diagonal (fun _ : Fin 1 => (1 : ℚ)) * gapUa + gapBᵀ * gapB : Matrix (Fin 2) (Fin 2) ℚ) 1 1 = 1/4 ∧
    ((keptU (keepRow (1/2) 1 gapσ) (gapVt * fromRows gapUa gapBt))ᵀ * diagonal (keptσ (keepRow (1/2) 1 gapσ) gapσ)
        * keptU (keepRow (1/2) 1 gapσ) (gapVt * fromRows gapUa gapBt)) 1 1 = 0 := by
  refine ⟨?_, ?_, ?_, ?_, ?_⟩ <;> decide +kernel



/-- non-vacuity of `IpcaReach.step` with a rank-deficient residual, the live default of `eps` and the threshold as coded
for double precision (`max(eps, 3 · 2⁻⁵² · max l)`, eigenvalues `l = σ / (n − 1) = 2, 1, 0`) -/
example : ∃ D : Decomp 2, IpcaReach 2 defaultEps false ([ex1 [1, 0]] ++ [ex1 [0, 2], ex1 [1, 0]]) D :=
  ⟨_, IpcaReach.step [ex1 [1, 0]] [ex1 [0, 2], ex1 [1, 0]] ⟨Fin 1, rdUa, fun _ => 1⟩
    (IpcaReach.batch _ _ (List.cons_ne_nil _ _) ⟨by decide +kernel, by decide +kernel, by decide +kernel⟩)
    (List.cons_ne_nil _ _) (fun _ => 1) (by decide +kernel) 0 (by intro h; cases h) (Fin 2) rdBt rdVt rdσ
    (by decide +kernel) (by decide +kernel) (by decide +kernel)
    (ipcaThr defaultEps 3 (1 / 4503599627370496) [2, 1, 0]) (by decide +kernel) (by decide +kernel)⟩

/-- PROPERTY (number of components): a stored eigen-decomposition without zero eigenvalues has exactly
`rank S` components — after any increments the model has as many components as the batch scatter has rank -/
theorem RepM.card_eq_rank {c : Type} [Fintype c] [DecidableEq c] {S : Matrix d d ℚ} {U : Matrix c d ℚ} {σ : c → ℚ}
    (h : RepM S U σ) : S.rank = Fintype.card c := by
  apply le_antisymm
  · rw [← h.rep]
    calc (Uᵀ * diagonal σ * U).rank ≤ U.rank := Matrix.rank_mul_le_right _ _
      _ ≤ Fintype.card c := Matrix.rank_le_card_height U
  · have hD : diagonal σ = U * S * Uᵀ := by
      rw [← h.rep]
      calc diagonal σ = (U * Uᵀ) * diagonal σ * (U * Uᵀ) := by rw [h.orth]; simp
        _ = U * (Uᵀ * diagonal σ * U) * Uᵀ := by simp only [Matrix.mul_assoc]
    have h1 : (diagonal σ).rank = Fintype.card c := by
      rw [Matrix.rank_diagonal]
      simp [h.nz]
    rw [← h1, hD]
    calc (U * S * Uᵀ).rank ≤ (U * S).rank := Matrix.rank_mul_le_left _ _
      _ ≤ S.rank := Matrix.rank_mul_le_right _ _


/-- PROPERTY: after any list of increments the number of components equals the rank of the scatter of all the
data, for every reachable state -/
theorem ipca_reach_card_eq_rank (n : Nat) (eps : ℚ) (heps : 0 ≤ eps) (centred : Bool) (X : Data) (D : Decomp n)
    (h : IpcaReach n eps centred X D) : (scatterM n centred X).rank = Fintype.card D.c :=
  (ipca_reach_represents n eps heps centred X D h).2.card_eq_rank

/-- … and every reachable state diagonalises the batch scatter: `S Uᵀ = Uᵀ diag(σ)` -/
theorem ipca_reach_eigen (n : Nat) (eps : ℚ) (heps : 0 ≤ eps) (centred : Bool) (X : Data) (D : Decomp n)
    (h : IpcaReach n eps centred X D) : scatterM n centred X * D.Uᵀ = D.Uᵀ * diagonal D.σ :=
  (ipca_reach_represents n eps heps centred X D h).2.eigen

section Eigenvalues
open Polynomial

theorem RepM.charpoly {c : Type} [Fintype c] [DecidableEq c] {S : Matrix d d ℚ} {U : Matrix c d ℚ} {σ : c → ℚ}
    (h : RepM S U σ) :
    X ^ Fintype.card d * (∏ i, (X - C (σ i)) : ℚ[X]) = X ^ Fintype.card c * S.charpoly := by
  have hAB : U * (S * Uᵀ) = diagonal σ := by
    rw [h.eigen, ← Matrix.mul_assoc, h.orth, Matrix.one_mul]
  have hBA : (S * Uᵀ) * U = S := by
    rw [h.eigen, h.rep]
  have := Matrix.charpoly_mul_comm' U (S * Uᵀ)
  rw [hAB, hBA, Matrix.charpoly_diagonal] at this
  exact this

/-- PROPERTY (eigenvalues): two eigen-decompositions without zero eigenvalues of the same matrix carry the same
eigenvalues with the same multiplicities -/
theorem RepM.eigenvalues_unique {c₁ c₂ : Type} [Fintype c₁] [Fintype c₂] [DecidableEq c₁] [DecidableEq c₂]
    {S : Matrix d d ℚ} {U₁ : Matrix c₁ d ℚ} {U₂ : Matrix c₂ d ℚ} {σ₁ : c₁ → ℚ} {σ₂ : c₂ → ℚ}
    (h₁ : RepM S U₁ σ₁) (h₂ : RepM S U₂ σ₂) :
    Finset.univ.val.map σ₁ = Finset.univ.val.map σ₂ := by
  have hc : Fintype.card c₁ = Fintype.card c₂ := by rw [← h₁.card_eq_rank, ← h₂.card_eq_rank]
  have e₁ := h₁.charpoly
  have e₂ := h₂.charpoly
  rw [hc] at e₁
  have hp : (∏ i, (X - C (σ₁ i)) : ℚ[X]) = ∏ i, (X - C (σ₂ i)) := by
    have := e₁.trans e₂.symm
    exact (isRegular_X_pow _).left.eq_iff.mp this
  have r : ∀ {c : Type} [Fintype c] (σ : c → ℚ), (∏ i, (X - C (σ i)) : ℚ[X]).roots = Finset.univ.val.map σ := by
    intro c _ σ
    have : (∏ i, (X - C (σ i)) : ℚ[X]) = ((Finset.univ.val.map σ).map fun a => X - C a).prod := by
      rw [Multiset.map_map]; rfl
    rw [this, roots_multiset_prod_X_sub_C]
  rw [← r σ₁, ← r σ₂, hp]


end Eigenvalues

/-- PROPERTY (eigenvalues, chunking independence): any two states reachable from the same data — in particular
the incrementally fed model and the batch model — hold the same eigenvalues with the same multiplicities (the
stored eigenvalues are `σ / (n − 1)` with the same `n`) -/
theorem ipca_reach_eigenvalues_unique (n : Nat) (eps : ℚ) (heps : 0 ≤ eps) (centred : Bool) (X : Data)
    (D₁ D₂ : Decomp n) (h₁ : IpcaReach n eps centred X D₁) (h₂ : IpcaReach n eps centred X D₂) :
    Finset.univ.val.map D₁.σ = Finset.univ.val.map D₂.σ :=
  (ipca_reach_represents n eps heps centred X D₁ h₁).2.eigenvalues_unique
    (ipca_reach_represents n eps heps centred X D₂ h₂).2


/-- PROPERTY (number of components, in the terms of the executable model): after any list of increments the number of
components is the exact rank the driver computes by Gaussian elimination on the batch scatter — the quantity the
correspondence compares `n_components` of the real model with -/
theorem ipca_reach_card_eq_rankExact (n : Nat) (eps : ℚ) (heps : 0 ≤ eps) (centred : Bool) (X : Data) (D : Decomp n)
    (h : IpcaReach n eps centred X D) : rankExact n (pcaBatch centred X).scat = Fintype.card D.c := by
  rw [rankExact_eq_rank]
  exact ipca_reach_card_eq_rank n eps heps centred X D h

example : rankExact 2 (fun i j => if i = 0 ∧ j = 0 then 4 else if i = 1 ∧ j = 1 then 9 else 0) = 2 := by decide +kernel
example : rankExact 3 (fun i j => ((i : Rat) + 1) * ((j : Rat) + 1)) = 1 := by decide +kernel

end MenpoModel.C11
