/-
C20 — convenience transform constructors follow their documented conventions.
Collects the property theorems: `Props/C20Base.lean` (algebra of the executable rational model), `Props/C20Ext.lean`
(object-level about-centre helpers with each centre convention, the `Scale` factory with `n_dims`, `init_identity`,
texture coordinates for every shape, constructor table), `Props/C20Real.lean` (the statements over ℝ with `Real.cos`,
`Real.sin`, `Real.arccos`, the coded 3-D axis/angle algorithm), `Props/C20Euler.lean` (Euler's rotation theorem: the
3-D axis/angle clause for every proper rotation matrix), `Props/C20Src.lean` (theorems about the definitions the TRANSLATED
SOURCE is proved equal to: the `degrees` flag, the class ladder, the chain fall-back, the matrix of `_as_vector`, the
decision and the computation of the 3-D axis/angle recovery), and states the combined forms.
-/
import MenpoModel.Props.C20Base
import MenpoModel.Props.C20Ext
import MenpoModel.Props.C20Real
import MenpoModel.Props.C20Euler
import MenpoModel.Props.C20Src

open Matrix Real
namespace MenpoModel.C20

/-- composing two model rotations is the real rotation by the SUM of the real angles -/
theorem rot2_comp_is_angle_sum (c₁ s₁ c₂ s₂ : Rat) (θ₁ θ₂ : ℝ)
    (h₁ : (c₁ : ℝ) = cos θ₁ ∧ (s₁ : ℝ) = sin θ₁) (h₂ : (c₂ : ℝ) = cos θ₂ ∧ (s₂ : ℝ) = sin θ₂) :
    ((rot2 c₁ s₁).comp (rot2 c₂ s₂)).linR = rot2R (θ₁ + θ₂) := by
  rw [(model_comp_is_real _ _).1, (rot2_model_is_real c₁ s₁ θ₁ h₁.1 h₁.2).1, (rot2_model_is_real c₂ s₂ θ₂ h₂.1 h₂.2).1,
    real_rot2_add]

/-- `rotate_ccw_about_centre(obj, θ)` over ℝ: for every 2-D object (point cloud, mesh: centre of mass; image: half the
shape) the result maps `centre + v` to `centre + R(θ) v` with the real rotation matrix `R(θ)`, and fixes the centre -/
theorem rotate_about_centre_real (o : Obj2) (c s : Rat) (θ : ℝ) (hc : (c : ℝ) = cos θ) (hs : (s : ℝ) = sin θ) :
    ∃ m, rotateCcwAboutCentre (.d2 o) c s = .ok m ∧ m.apply o.centre = o.centre ∧
      ∀ v : V2, (m.apply (o.centre.add v)).toR = o.centre.toR + rot2R θ *ᵥ v.toR := by
  obtain ⟨m, hm, hfix, hoff⟩ := (rotate_about_centre_spec c s).1 o
  refine ⟨m, hm, hfix, fun v => ?_⟩
  have e : (⟨c * v.x - s * v.y, s * v.x + c * v.y⟩ : V2) = (rot2 c s).apply v := by
    ext <;> simp [rot2, Aff2.apply] <;> ring
  rw [hoff v, e]
  have h1 := model_apply_is_real (rot2 c s) v
  obtain ⟨hl, ht⟩ := rot2_model_is_real c s θ hc hs
  rw [hl, ht, add_zero] at h1
  rw [← h1]
  ext i; fin_cases i <;> simp [V2.toR, V2.add]

/-- the executable 3-D recovery `axisAngle3` returns, at rational data, the real numbers `cos θ`, `sin θ` -/
theorem axis_angle3_model_is_real (a p : V3) (c s : Rat) (θ : ℝ) (hc : (c : ℝ) = cos θ) (hs : (s : ℝ) = sin θ)
    (ha : a.dot a = 1) (hp : p.dot p = 1) (hap : a.dot p = 0) :
    (((axisAngle3 (rodrigues a c s) a p).1 : Rat) : ℝ) = cos θ ∧ (((axisAngle3 (rodrigues a c s) a p).2 : Rat) : ℝ) = sin θ := by
  rw [(axis_angle_reconstructs_3d a p c s ha hp hap).1]
  exact ⟨hc, hs⟩

end MenpoModel.C20
