/-
C09 — the piecewise-affine point location (`index_alpha_beta`, `_apply`, batched, `pwa_point_in_pointcloud`):
the array-level model of Core/C09Pwa.lean equals its per-point reading, and from there the mask, batch-size,
grouping and permutation theorems.  Core Lean only.
-/
import MenpoModel.Core.C09Pwa
import MenpoModel.Props.C09Base

namespace MenpoModel.C09

/-! ### `index[point_index] = tri_index` with repeated point indices: the last pair stays -/

/-- the tri index of the last pair that targets point `q` -/
def lastFor (q : Nat) : List (Nat × Nat) → Option Nat
  | [] => none
  | pt :: rest => (lastFor q rest).or (if pt.1 = q then some pt.2 else none)

theorem lastFor_append (q : Nat) (l₁ l₂ : List (Nat × Nat)) :
    lastFor q (l₁ ++ l₂) = (lastFor q l₂).or (lastFor q l₁) := by
  induction l₁ with
  | nil => simp [lastFor]
  | cons a l ih => simp [lastFor, ih, Option.or_assoc]

theorem assign_getElem? (pairs : List (Nat × Nat)) (idx : List Nat) (q : Nat) :
    (assign idx pairs)[q]? = idx[q]?.map fun v => (lastFor q pairs).getD v := by
  induction pairs generalizing idx with
  | nil => simp [assign, lastFor]
  | cons pt rest ih =>
    have h : assign idx (pt :: rest) = assign (idx.set pt.1 pt.2) rest := rfl
    rw [h, ih, List.getElem?_set]
    by_cases hq : pt.1 = q
    · subst hq
      simp only [if_true, lastFor]
      by_cases hl : pt.1 < idx.length
      · simp only [hl, if_true, List.getElem?_eq_getElem hl, Option.map_some]
        cases lastFor pt.1 rest <;> simp
      · simp only [hl, if_false]
        rw [List.getElem?_eq_none (by omega)]; rfl
    · simp only [hq, if_false, lastFor, Option.or_none]

theorem lastFor_row (q pi : Nat) (l : List Nat) :
    lastFor q (l.map fun t => (pi, t)) = if pi = q then l.getLast? else none := by
  induction l with
  | nil => simp [lastFor]
  | cons a l ih =>
    simp only [List.map_cons, lastFor, ih]
    by_cases h : pi = q
    · simp only [h, if_true, List.getLast?_cons]
      cases l.getLast? <;> simp
    · simp [h]

theorem lastFor_nonzeroFrom_lt (rows : List (List Bool)) (pi q : Nat) (h : q < pi) :
    lastFor q (nonzeroFrom pi rows) = none := by
  induction rows generalizing pi with
  | nil => simp [nonzeroFrom, lastFor]
  | cons row rows ih =>
    simp only [nonzeroFrom, lastFor_append, lastFor_row, ih (pi + 1) (by omega)]
    have : pi ≠ q := by omega
    simp [this]

theorem lastFor_nonzeroFrom (rows : List (List Bool)) (pi j : Nat) :
    lastFor (pi + j) (nonzeroFrom pi rows) = rows[j]?.bind fun row => (trueIdx 0 row).getLast? := by
  induction rows generalizing pi j with
  | nil => simp [nonzeroFrom, lastFor]
  | cons row rows ih =>
    simp only [nonzeroFrom, lastFor_append, lastFor_row]
    cases j with
    | zero =>
      simp only [Nat.add_zero, if_true, List.getElem?_cons_zero, Option.bind_some]
      rw [lastFor_nonzeroFrom_lt rows (pi + 1) pi (by omega)]; simp
    | succ j =>
      have e : pi + (j + 1) = (pi + 1) + j := by omega
      have ne : pi ≠ pi + 1 + j := by omega
      rw [e, ih (pi + 1) j]
      simp [ne]

/-- `containment_from_alpha_beta`, read row by row: it fails iff some row has no `True`, the mask is the rows
without a `True`, and on success the index of a row is its last `True` column -/
theorem containmentFromAlphaBeta_eq (rows : List (List Bool)) :
    containmentFromAlphaBeta rows =
      if rows.all (fun r => r.any id) then .ok (rows.map lastTrue)
      else .error (rows.map fun r => !r.any id) := by
  unfold containmentFromAlphaBeta
  have hany : ((rows.map fun r => r.any id).any fun b => !b) = !(rows.all fun r => r.any id) := by
    induction rows with
    | nil => rfl
    | cons r rs ih => simp only [List.map_cons, List.any_cons, List.all_cons, ih]; cases r.any id <;> simp
  simp only [hany, List.map_map]
  cases hall : rows.all (fun r => r.any id)
  · simp
  · simp only [Bool.not_true, Bool.false_eq_true, if_false, if_true]
    congr 1
    apply List.ext_getElem?
    intro q
    rw [assign_getElem?]
    have := lastFor_nonzeroFrom rows 0 q
    simp only [Nat.zero_add] at this
    rw [this, List.getElem?_map, List.getElem?_replicate]
    by_cases hq : q < rows.length
    · simp [hq, lastTrue]
    · simp [hq]

/-! ### which column `lastTrue` is -/

theorem trueIdx_cons (k : Nat) (b : Bool) (bs : List Bool) :
    trueIdx k (b :: bs) = (if b then [k] else []) ++ trueIdx (k + 1) bs := by
  cases b <;> simp [trueIdx]

theorem trueIdx_getLast? (row : List Bool) (k : Nat) :
    match (trueIdx k row).getLast? with
    | none => ∀ m : Nat, row[m]? ≠ some true
    | some j => ∃ m : Nat, j = k + m ∧ row[m]? = some true ∧ ∀ m' : Nat, row[m']? = some true → m' ≤ m := by
  induction row generalizing k with
  | nil => simp [trueIdx]
  | cons b bs ih =>
    rw [trueIdx_cons, List.getLast?_append]
    have := ih (k + 1)
    cases hl : (trueIdx (k + 1) bs).getLast? with
    | some j =>
      rw [hl] at this
      obtain ⟨m, hj, hm, hmax⟩ := this
      simp only [Option.some_or]
      refine ⟨m + 1, by omega, by simpa using hm, ?_⟩
      intro m' hm'
      cases m' with
      | zero => omega
      | succ m'' => have := hmax m'' (by simpa using hm'); omega
    | none =>
      rw [hl] at this
      simp only [Option.none_or]
      cases b with
      | true =>
        simp only [if_true, List.getLast?_singleton]
        refine ⟨0, by omega, by simp, ?_⟩
        intro m' hm'
        cases m' with
        | zero => omega
        | succ m'' => exact absurd (by simpa using hm') (this m'')
      | false =>
        simp only [Bool.false_eq_true, if_false, List.getLast?_nil]
        intro m
        cases m with
        | zero => simp
        | succ m'' => simpa using this m''

/-- the chosen column is a `True` one and no `True` column lies to its right -/
theorem lastTrue_spec (row : List Bool) (h : row.any id = true) :
    row[lastTrue row]? = some true ∧ ∀ j, row[j]? = some true → j ≤ lastTrue row := by
  have := trueIdx_getLast? row 0
  unfold lastTrue
  cases hl : (trueIdx 0 row).getLast? with
  | none =>
    rw [hl] at this
    obtain ⟨b, hb, hbt⟩ := List.any_eq_true.mp h
    obtain ⟨m, hm, hbm⟩ := List.mem_iff_getElem.mp hb
    have hbt' : b = true := by simpa using hbt
    exact absurd (by rw [List.getElem?_eq_getElem hm, hbm, hbt']) (this m)
  | some j =>
    rw [hl] at this
    obtain ⟨m, hj, hm, hmax⟩ := this
    have : j = m := by omega
    subst this
    exact ⟨by simpa using hm, hmax⟩

/-! ### the array-level computation = the per-point one -/

theorem zip_map_self {α β} (l : List α) (g : α → β) : l.zip (l.map g) = l.map fun x => (x, g x) := by
  induction l with
  | nil => rfl
  | cons a l ih => simp [ih]

theorem indexAlphaBeta_eq (ts : List Tri) (ps : List Pt) :
    indexAlphaBeta ts ps =
      if ps.all (fun p => ts.any fun t => contains t p) then
        .ok (ps.map fun p => (locate ts p, ((ts.map fun t => alphaBeta t p).getD (locate ts p) (0, 0)).1,
                                           ((ts.map fun t => alphaBeta t p).getD (locate ts p) (0, 0)).2))
      else .error (ps.map fun p => !(ts.any fun t => contains t p)) := by
  unfold indexAlphaBeta
  simp only [containmentFromAlphaBeta_eq, List.map_map, List.all_map]
  have hany : ∀ p, (((fun row : List (Rat × Rat) => row.map inTriangle) ∘ fun p => ts.map fun t => alphaBeta t p) p).any id
      = ts.any fun t => contains t p := by
    intro p; simp [List.any_map, contains, Function.comp_def]
  have hall : (ps.all ((fun r : List Bool => r.any id) ∘ (fun row : List (Rat × Rat) => row.map inTriangle) ∘
      fun p => ts.map fun t => alphaBeta t p)) = ps.all fun p => ts.any fun t => contains t p := by
    congr 1; funext p; exact hany p
  rw [hall]
  cases ps.all fun p => ts.any fun t => contains t p
  · simp only [Bool.false_eq_true, if_false]
    congr 1
    apply List.map_congr_left
    intro p _
    have := hany p
    simp only [Function.comp_def] at this ⊢
    rw [this]
  · simp only [if_true]
    congr 1
    rw [List.zip_map', List.map_map]
    apply List.map_congr_left
    intro p _
    simp [locate, contains, Function.comp_def, List.map_map]

/-- PROPERTY (model tie): `AbstractPWA._apply` over the arrays of `index_alpha_beta` is the abstract piecewise
transform `toPwa`: it fails iff some point lies in no source triangle, and then the mask flags exactly those
points; otherwise every point is mapped on its own. -/
theorem pwaApply_eq_toPwa (src tgt : List Tri) (ps : List Pt) :
    pwaApply src tgt ps = (toPwa src tgt).apply ps := by
  unfold pwaApply Pwa.apply toPwa
  rw [indexAlphaBeta_eq]
  cases ps.all fun p => src.any fun t => contains t p
  · simp
  · simp only [if_true, List.map_map]
    congr 1

/-- the chosen triangle: it contains the point and it is the highest-numbered one that does
(numpy keeps the last of the repeated assignments) -/
theorem locate_spec (ts : List Tri) (p : Pt) (h : (ts.any fun t => contains t p) = true) :
    (∃ t, ts[locate ts p]? = some t ∧ contains t p = true) ∧
    ∀ j t, ts[j]? = some t → contains t p = true → j ≤ locate ts p := by
  have hrow : (ts.map fun t => contains t p).any id = true := by simpa [List.any_map] using h
  obtain ⟨h1, h2⟩ := lastTrue_spec _ hrow
  constructor
  · rw [List.getElem?_map] at h1
    cases ht : ts[locate ts p]? with
    | none => unfold locate at ht; rw [ht] at h1; simp at h1
    | some t => unfold locate at ht; rw [ht] at h1; exact ⟨t, rfl, by simpa using h1⟩
  · intro j t hj hc
    exact h2 j (by rw [List.getElem?_map, hj]; simp [hc])

/-- inside the domain the image of a point is the barycentric combination of the *target* triangle with the
point's coordinates in the chosen *source* triangle -/
theorem pointMap_spec (src tgt : List Tri) (p : Pt) (s : Tri) (hs : src[locate src p]? = some s) :
    pointMap src tgt p = bary (tgt.getD (locate src p) default) (alphaBeta s p).1 (alphaBeta s p).2 := by
  unfold pointMap
  have : (src.map fun s => alphaBeta s p).getD (locate src p) (0, 0) = alphaBeta s p := by
    rw [List.getD_eq_getElem?_getD, List.getElem?_map, hs]; rfl
  simp only [this]

/-! ### PROPERTY: the mask, one entry per input point, marks exactly the points outside every source triangle -/

theorem pwa_mask_outside_every_triangle (src tgt : List Tri) (ps : List Pt) :
    (∀ m, pwaApply src tgt ps = .error m →
        m.length = ps.length ∧
        (∀ i : Nat, m[i]? = ps[i]?.map fun p => !(src.any fun t => contains t p)) ∧
        ∃ p ∈ ps, ∀ t ∈ src, contains t p = false) ∧
    (∀ r, pwaApply src tgt ps = .ok r →
        (∀ p ∈ ps, ∃ t ∈ src, contains t p = true) ∧ r = ps.map (pointMap src tgt)) := by
  rw [pwaApply_eq_toPwa]
  obtain ⟨he, ho⟩ := pwa_mask_exact_unbatched (toPwa src tgt) ps
  constructor
  · intro m hm
    obtain ⟨h1, h2⟩ := he m hm
    refine ⟨h1, h2, ?_⟩
    unfold Pwa.apply at hm
    split at hm
    · simp at hm
    · rename_i hall
      simp only [Bool.not_eq_true] at hall
      obtain ⟨p, hp, hpf⟩ := List.all_eq_false.mp hall
      refine ⟨p, hp, ?_⟩
      intro t ht
      have : (src.any fun t => contains t p) = false := by simpa [toPwa] using hpf
      have h2 := (List.any_eq_false.mp this) t ht
      simpa using h2
  · intro r hr
    obtain ⟨h1, h2⟩ := ho r hr
    refine ⟨?_, h2⟩
    intro p hp
    have := List.all_eq_true.mp h1 p hp
    simpa [toPwa] using this

/-! ### PROPERTY: every batch size, and every grouping of the points, gives the unbatched result -/

theorem foldBatchesE_eq {d : Pwa Pt Pt} (ap : List Pt → Except (List Bool) (List Pt)) (h : ∀ c, ap c = d.apply c)
    (cs : List (List Pt)) : pwaApplyBatched.foldBatchesE ap cs = foldBatches d List.length cs := by
  induction cs with
  | nil => rfl
  | cons c cs ih =>
    simp only [pwaApplyBatched.foldBatchesE, foldBatches, ih, h]
    cases d.apply c <;> rfl

/-- every grouping of the input into consecutive groups (not only `range(0, n, k)`): same result, same mask -/
theorem pwa_grouping_eq {α β} (d : Pwa α β) (cs : List (List α)) :
    finishBatches (foldBatches d List.length cs) = d.apply cs.flatten := by
  obtain ⟨h1, h2, h3⟩ := foldBatches_length_spec d cs
  generalize foldBatches d List.length cs = r at *
  obtain ⟨o, m, t⟩ := r
  simp only at h1 h2 h3
  unfold finishBatches Pwa.apply
  by_cases hall : cs.flatten.all d.inDom = true
  · have ht : t = false := by rw [h2, hall]; rfl
    simp [ht, hall, h3 ht]
  · simp only [Bool.not_eq_true] at hall
    have ht : t = true := by rw [h2, hall]; rfl
    simp [ht, hall, h1]

/-- `apply(x, batch_size=k)` of the piecewise affine transform: for `k = None` and for every `k ≥ 1` (dividing
the number of points or not, larger than it or not, zero points included) the result — points or failure mask —
is that of the unbatched application -/
theorem pwaApplyBatched_eq (src tgt : List Tri) (k : Option Nat) (hk : ∀ n, k = some n → 0 < n) (ps : List Pt) :
    pwaApplyBatched src tgt k ps = pwaApply src tgt ps := by
  cases k with
  | none => rfl
  | some n =>
    unfold pwaApplyBatched
    by_cases h0 : ps.length = 0
    · simp [h0]
    · simp only [h0, if_false]
      rw [foldBatchesE_eq (d := toPwa src tgt) _ (pwaApply_eq_toPwa src tgt), pwa_grouping_eq,
        batches_flatten n (hk n rfl), pwaApply_eq_toPwa]

/-! ### PROPERTY: order of the input points — permutation (more generally: re-indexing) equivariance -/

/-- re-index a list: position `j` of the result is position `σ[j]` of the input -/
def reindex {α} (σ : List Nat) (l : List α) : List α := σ.filterMap fun i => l[i]?

def mapBoth {ε ε' α β} (fe : ε → ε') (fo : α → β) : Except ε α → Except ε' β
  | .ok a => .ok (fo a)
  | .error e => .error (fe e)

theorem reindex_map {α β} (σ : List Nat) (l : List α) (g : α → β) : reindex σ (l.map g) = (reindex σ l).map g := by
  unfold reindex
  rw [List.map_filterMap]
  congr 1; funext i; simp [List.getElem?_map]

theorem reindex_range {α} (l : List α) : reindex (List.range l.length) l = l := by
  unfold reindex
  induction l with
  | nil => rfl
  | cons a l ih =>
    rw [List.length_cons, List.range_succ_eq_map, List.filterMap_cons]
    simp only [List.getElem?_cons_zero, List.filterMap_map]
    congr 1

theorem reindex_perm {α} (σ : List Nat) (l : List α) (h : σ.Perm (List.range l.length)) : (reindex σ l).Perm l := by
  have := List.Perm.filterMap (fun i => l[i]?) h
  rw [show (List.range l.length).filterMap (fun i => l[i]?) = l from reindex_range l] at this
  exact this

/-- applying to re-ordered points = re-ordering the result (the mapped points on success, the failure mask on
failure), for every permutation `σ` of the positions -/
theorem pwa_perm_equivariant {α β} (d : Pwa α β) (xs : List α) (σ : List Nat) (hσ : σ.Perm (List.range xs.length)) :
    d.apply (reindex σ xs) = mapBoth (reindex σ) (reindex σ) (d.apply xs) := by
  unfold Pwa.apply
  have hall : (reindex σ xs).all d.inDom = xs.all d.inDom := (reindex_perm σ xs hσ).all_eq
  rw [hall]
  cases xs.all d.inDom
  · simp only [Bool.false_eq_true, if_false, mapBoth, reindex_map]
  · simp only [if_true, mapBoth, reindex_map]

theorem pwaApply_perm_equivariant (src tgt : List Tri) (ps : List Pt) (σ : List Nat)
    (hσ : σ.Perm (List.range ps.length)) :
    pwaApply src tgt (reindex σ ps) = mapBoth (reindex σ) (reindex σ) (pwaApply src tgt ps) := by
  rw [pwaApply_eq_toPwa, pwaApply_eq_toPwa]; exact pwa_perm_equivariant _ ps σ hσ

/-- without any hypothesis on `σ` (selection with repetition, sub-sampling): a successful application restricts -/
theorem pwa_reindex_of_ok {α β} (d : Pwa α β) (xs : List α) (σ : List Nat) (r : List β) (h : d.apply xs = .ok r) :
    d.apply (reindex σ xs) = .ok (reindex σ r) := by
  unfold Pwa.apply at h ⊢
  split at h
  · rename_i hall
    have : (reindex σ xs).all d.inDom = true := by
      rw [List.all_eq_true]
      intro x hx
      unfold reindex at hx
      obtain ⟨i, _, hi⟩ := List.mem_filterMap.mp hx
      exact List.all_eq_true.mp hall x (List.mem_of_getElem? hi)
    simp only [this, if_true]
    simp only [Except.ok.injEq] at h
    rw [← h, reindex_map]
  · simp at h

/-! ### PROPERTY: `pwa_point_in_pointcloud` — the mask is the per-pixel containment test, whatever the batch size -/

theorem pointInPointcloud_eq (ts : List Tri) (k : Option Nat) (hk : ∀ n, k = some n → 0 < n) (ps : List Pt) :
    pointInPointcloud ts k ps = ps.map fun p => ts.any fun t => contains t p := by
  unfold pointInPointcloud
  rw [pwaApplyBatched_eq ts ts k hk, pwaApply_eq_toPwa]
  unfold Pwa.apply
  by_cases hall : ps.all (toPwa ts ts).inDom = true
  · simp only [hall, if_true]
    apply List.ext_getElem (by simp)
    intro i h1 h2
    have hi : i < ps.length := by simpa using h2
    have := List.all_eq_true.mp hall (ps[i]'hi) (List.getElem_mem _)
    simp only [toPwa] at this
    simp [this]
  · simp only [Bool.not_eq_true] at hall
    simp only [hall, Bool.false_eq_true, if_false, List.map_map]
    apply List.map_congr_left
    intro p _
    simp [toPwa]

theorem pointInPointcloud_batch_independent (ts : List Tri) (k k' : Option Nat) (hk : ∀ n, k = some n → 0 < n)
    (hk' : ∀ n, k' = some n → 0 < n) (ps : List Pt) : pointInPointcloud ts k ps = pointInPointcloud ts k' ps := by
  rw [pointInPointcloud_eq ts k hk, pointInPointcloud_eq ts k' hk']

/-! ### non-vacuity: a square split in two triangles; (2,2) lies on the shared edge and goes to triangle 1 -/

local instance exceptDecEq {ε α} [DecidableEq ε] [DecidableEq α] : DecidableEq (Except ε α)
  | .ok a, .ok b => if h : a = b then isTrue (by rw [h]) else isFalse (by intro h'; cases h'; exact h rfl)
  | .error a, .error b => if h : a = b then isTrue (by rw [h]) else isFalse (by intro h'; cases h'; exact h rfl)
  | .ok _, .error _ => isFalse (by intro h; cases h)
  | .error _, .ok _ => isFalse (by intro h; cases h)

def exPts : List Pt := [(0, 0), (4, 0), (0, 4), (4, 4)]
def exTl : List (Nat × Nat × Nat) := [(0, 1, 2), (1, 3, 2)]
def exSrc : List Tri := mkTris exPts exTl
def exTgt : List Tri := mkTris (exPts.map fun p => (2 * p.1 + 1, 3 * p.2)) exTl

example : indexAlphaBeta exSrc [(2, 2), (1, 1), (3, 3), (4, 0)] =
    .ok [(1, 0, 1/2), (0, 1/4, 1/4), (1, 1/2, 1/4), (1, 0, 0)] := by decide +kernel
example : pwaApply exSrc exTgt [(2, 2), (1, 1), (3, 3)] = .ok [(5, 6), (3, 3), (7, 9)] := by decide +kernel
example : pwaApply exSrc exTgt [(2, 2), (5, 1), (3, 3), (-1, 0)] = .error [false, true, false, true] := by decide +kernel
example : pwaApplyBatched exSrc exTgt (some 3) [(2, 2), (5, 1), (3, 3), (-1, 0)] = .error [false, true, false, true] := by
  decide +kernel
example : pointInPointcloud exSrc (some 2) [(2, 2), (5, 1), (3, 3)] = [true, false, true] := by decide +kernel
example : reindex [2, 0, 1] [10, 11, 12] = [12, 10, 11] := by decide
example : [2, 0, 1].Perm (List.range [10, 11, 12].length) := by decide

end MenpoModel.C09
