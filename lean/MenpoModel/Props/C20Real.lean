/-
C20 — the angle statements over the REAL numbers (Mathlib's `Real.cos` / `Real.sin` / `Real.arccos`, `Matrix`, `⨯₃`).

* the constructors as real matrices: `init_from_2d_ccw_angle(θ) = [[cos θ, −sin θ], [sin θ, cos θ]]`, additivity,
  inverse, determinant, periodicity, degrees = radians · π / 180, exact quarter turns, the counter-clockwise sense;
  the three 3-D axis constructors fix their axis and turn the other two basis vectors right-handedly, and are
  Rodrigues' rotation about the coordinate axes;
* Rodrigues' matrix about a unit axis: axis fixed, angles add, orthogonal with determinant one, and the two numbers
  `_axis_and_angle_of_rotation_3d` computes are `cos θ` and `sin θ`;
* the fixed vectors of a rotation away from the identity are the multiples of the axis (so the eigenvector contract is
  a theorem), and THE CODED ALGORITHM (normalisation, perpendicular from the random vector, `arccos`, sign by the triple
  product) returns `(a, θ)` or `(−a, −θ)` for the rotation by `θ ∈ (0, π)` about `a`;
* the executable rational model IS the real statement at rational `(cos, sin)`: casts commute with `apply`, `comp`,
  `dot`, `cross`, `rodrigues`; every rational circle point is `(cos θ, sin θ)` of a real angle.
-/
import MenpoModel.Core.C20Ext
import Mathlib.Analysis.SpecialFunctions.Trigonometric.Basic
import Mathlib.Analysis.SpecialFunctions.Trigonometric.Inverse
import Mathlib.Data.Matrix.Mul
import Mathlib.LinearAlgebra.Matrix.Notation
import Mathlib.LinearAlgebra.CrossProduct
import Mathlib.LinearAlgebra.Matrix.Determinant.Basic
import Mathlib.Data.Rat.Cast.Order
import Mathlib.Tactic.Ring
import Mathlib.Tactic.LinearCombination
import Mathlib.Tactic.FinCases
import Mathlib.Tactic.Linarith
import Mathlib.Tactic.NormNum

open Matrix Real
set_option linter.unusedSimpArgs false
namespace MenpoModel.C20
noncomputable section

/-- `np.deg2rad` -/
def deg2rad (d : ℝ) : ℝ := d * (π / 180)
/-- the angle the constructors use: `if degrees: theta = np.deg2rad(theta)` -/
def angleArg (θ : ℝ) (degrees : Bool) : ℝ := if degrees then deg2rad θ else θ

def rot2R (θ : ℝ) : Matrix (Fin 2) (Fin 2) ℝ := !![cos θ, -sin θ; sin θ, cos θ]
def initFrom2dCcwAngle (θ : ℝ) (degrees : Bool) : Matrix (Fin 2) (Fin 2) ℝ := rot2R (angleArg θ degrees)

theorem real_rot2_matrix (θ : ℝ) :
    initFrom2dCcwAngle θ false = !![cos θ, -sin θ; sin θ, cos θ] ∧
    initFrom2dCcwAngle θ true = !![cos (θ * π / 180), -sin (θ * π / 180); sin (θ * π / 180), cos (θ * π / 180)] := by
  constructor
  · rfl
  · have : θ * (π / 180) = θ * π / 180 := by ring
    simp [initFrom2dCcwAngle, angleArg, deg2rad, rot2R, this]

theorem real_rot2_basis (θ : ℝ) :
    rot2R θ *ᵥ ![1, 0] = ![cos θ, sin θ] ∧ rot2R θ *ᵥ ![0, 1] = ![-sin θ, cos θ] := by
  constructor <;> ext i <;> fin_cases i <;> simp [rot2R]

theorem real_rot2_add (α β : ℝ) : rot2R (α + β) = rot2R α * rot2R β := by
  ext i j; fin_cases i <;> fin_cases j <;> simp [rot2R, Matrix.mul_apply, Fin.sum_univ_succ, cos_add, sin_add] <;> ring

theorem real_rot2_zero : rot2R 0 = 1 := by
  ext i j; fin_cases i <;> fin_cases j <;> simp [rot2R]

theorem real_rot2_neg (θ : ℝ) : rot2R (-θ) * rot2R θ = 1 ∧ rot2R θ * rot2R (-θ) = 1 := by
  constructor
  · rw [← real_rot2_add]; simp [real_rot2_zero]
  · rw [← real_rot2_add]; simp [real_rot2_zero]

theorem real_rot2_det (θ : ℝ) : (rot2R θ).det = 1 := by
  simp [rot2R, Matrix.det_fin_two]; nlinarith [sin_sq_add_cos_sq θ]

theorem real_rot2_periodic (θ : ℝ) (k : ℤ) : rot2R (θ + k * (2 * π)) = rot2R θ := by
  simp [rot2R, cos_add_int_mul_two_pi, sin_add_int_mul_two_pi]

theorem real_rot2_degrees_turns (d : ℝ) (k : ℤ) :
    initFrom2dCcwAngle (d + 360 * k) true = initFrom2dCcwAngle d true := by
  have : deg2rad (d + 360 * k) = deg2rad d + k * (2 * π) := by simp only [deg2rad]; ring
  simp only [initFrom2dCcwAngle, angleArg, if_true, this, real_rot2_periodic]

theorem real_rot2_quarter_turns :
    initFrom2dCcwAngle 90 true = !![0, -1; 1, 0] ∧ initFrom2dCcwAngle 180 true = !![-1, 0; 0, -1] ∧
    initFrom2dCcwAngle 270 true = !![0, 1; -1, 0] ∧ initFrom2dCcwAngle (-90) true = !![0, 1; -1, 0] ∧
    initFrom2dCcwAngle 360 true = 1 := by
  have h90 : deg2rad 90 = π / 2 := by simp only [deg2rad]; ring
  have h180 : deg2rad 180 = π := by simp only [deg2rad]; ring
  have h270 : deg2rad 270 = π / 2 + π := by simp only [deg2rad]; ring
  have hm90 : deg2rad (-90) = -(π / 2) := by simp only [deg2rad]; ring
  have h360 : deg2rad 360 = 2 * π := by simp only [deg2rad]; ring
  refine ⟨?_, ?_, ?_, ?_, ?_⟩
  · simp [initFrom2dCcwAngle, angleArg, rot2R, h90]
  · simp [initFrom2dCcwAngle, angleArg, rot2R, h180]
  · simp [initFrom2dCcwAngle, angleArg, rot2R, h270, cos_add, sin_add]
  · simp [initFrom2dCcwAngle, angleArg, rot2R, hm90]
  · ext i j; fin_cases i <;> fin_cases j <;> simp [initFrom2dCcwAngle, angleArg, rot2R, h360]

/-- sense: for an angle in (0, π) the image of e₀ lies in the upper half plane (counter-clockwise), for an angle in (−π, 0) in the lower -/
theorem real_rot2_sense (θ : ℝ) :
    (0 < θ → θ < π → 0 < (rot2R θ *ᵥ ![1, 0]) 1) ∧ (-π < θ → θ < 0 → (rot2R θ *ᵥ ![1, 0]) 1 < 0) := by
  rw [(real_rot2_basis θ).1]
  constructor
  · intro h0 h1; simpa using sin_pos_of_pos_of_lt_pi h0 h1
  · intro h0 h1; simpa using sin_neg_of_neg_of_neg_pi_lt h1 h0




/-! ### the rational model is the real statement specialised to rational `(c, s)` -/

def V2.toR (p : V2) : Fin 2 → ℝ := ![(p.x : ℝ), p.y]
def Aff2.linR (m : Aff2) : Matrix (Fin 2) (Fin 2) ℝ := !![(m.a : ℝ), m.b; m.c, m.d]
def Aff2.trR (m : Aff2) : Fin 2 → ℝ := ![(m.tx : ℝ), m.ty]
def V3.toR (p : V3) : Fin 3 → ℝ := ![(p.x : ℝ), p.y, p.z]
def Lin3.toR (m : Lin3) : Matrix (Fin 3) (Fin 3) ℝ :=
  !![(m.r0.x : ℝ), m.r0.y, m.r0.z; m.r1.x, m.r1.y, m.r1.z; m.r2.x, m.r2.y, m.r2.z]

/-- the executable model's `apply` and `comp` are the real matrix action and product -/
theorem model_apply_is_real (m : Aff2) (p : V2) : (m.apply p).toR = m.linR *ᵥ p.toR + m.trR := by
  ext i; fin_cases i <;> simp [Aff2.apply, V2.toR, Aff2.linR, Aff2.trR] <;> ring

theorem model_comp_is_real (g f : Aff2) :
    (g.comp f).linR = g.linR * f.linR ∧ (g.comp f).trR = g.linR *ᵥ f.trR + g.trR := by
  constructor
  · ext i j; fin_cases i <;> fin_cases j <;> simp [Aff2.comp, Aff2.linR, Matrix.mul_apply, Fin.sum_univ_succ]
  · ext i; fin_cases i <;> simp [Aff2.comp, Aff2.linR, Aff2.trR] <;> ring

theorem model_apply3_is_real (m : Lin3) (p : V3) : (m.apply p).toR = m.toR *ᵥ p.toR := by
  ext i; fin_cases i <;> simp [Lin3.apply, V3.dot, V3.toR, Lin3.toR, Matrix.mulVec, dotProduct, Fin.sum_univ_succ] <;> ring

theorem model_mul3_is_real (g f : Lin3) : (g.mul f).toR = g.toR * f.toR := by
  ext i j; fin_cases i <;> fin_cases j <;>
    simp [Lin3.mul, Lin3.toR, V3.dot, Lin3.col0, Lin3.col1, Lin3.col2, Matrix.mul_apply, Fin.sum_univ_succ] <;> ring

theorem model_dot_cross_is_real (p q : V3) :
    ((p.dot q : Rat) : ℝ) = p.toR ⬝ᵥ q.toR ∧ (p.cross q).toR = p.toR ⨯₃ q.toR := by
  constructor
  · simp [V3.dot, V3.toR, dotProduct, Fin.sum_univ_succ]; ring
  · ext i; fin_cases i <;> simp [V3.cross, V3.toR, cross_apply]

/-- `rot2 c s` IS the real rotation by `θ` whenever `(c, s) = (cos θ, sin θ)` -/
theorem rot2_model_is_real (c s : Rat) (θ : ℝ) (hc : (c : ℝ) = cos θ) (hs : (s : ℝ) = sin θ) :
    (rot2 c s).linR = rot2R θ ∧ (rot2 c s).trR = 0 := by
  constructor
  · ext i j; fin_cases i <;> fin_cases j <;> simp [rot2, Aff2.linR, rot2R, hc, hs]
  · ext i; fin_cases i <;> simp [rot2, Aff2.trR]

/-- every point of the rational unit circle is `(cos θ, sin θ)` of a real angle in `(−π, π]`: each instance of the
rational model is an instance of the real statement -/
theorem rat_circle_has_angle (c s : Rat) (h : c * c + s * s = 1) :
    ∃ θ : ℝ, -π < θ ∧ θ ≤ π ∧ (c : ℝ) = cos θ ∧ (s : ℝ) = sin θ := by
  have hR : (c : ℝ) * c + (s : ℝ) * s = 1 := by exact_mod_cast h
  have hc1 : (c : ℝ) ≤ 1 := by nlinarith [mul_self_nonneg (s : ℝ)]
  have hc2 : -1 ≤ (c : ℝ) := by nlinarith [mul_self_nonneg (s : ℝ)]
  have hsq : sqrt (1 - (c : ℝ) ^ 2) = |(s : ℝ)| := by
    have : 1 - (c : ℝ) ^ 2 = (s : ℝ) ^ 2 := by ring_nf; ring_nf at hR; linarith
    rw [this, sqrt_sq_eq_abs]
  by_cases hs : 0 ≤ (s : ℝ)
  · refine ⟨arccos c, ?_, arccos_le_pi _, (cos_arccos hc2 hc1).symm, ?_⟩
    · linarith [arccos_nonneg (c : ℝ), pi_pos]
    · rw [sin_arccos, hsq, abs_of_nonneg hs]
  · have hs' : (s : ℝ) < 0 := not_le.mp hs
    have hcne : (c : ℝ) ≠ -1 := by
      intro e; rw [e] at hR; nlinarith
    have hlt : arccos (c : ℝ) < π := by
      rcases lt_or_eq_of_le (arccos_le_pi (c : ℝ)) with h1 | h1
      · exact h1
      · exfalso; apply hcne
        have := cos_arccos hc2 hc1
        rw [h1, cos_pi] at this; linarith
    refine ⟨-arccos c, by linarith, by linarith [arccos_nonneg (c : ℝ), pi_pos], ?_, ?_⟩
    · rw [cos_neg, cos_arccos hc2 hc1]
    · rw [sin_neg, sin_arccos, hsq, abs_of_neg hs']; ring


/-! ### the shear constructor over ℝ -/

def shearR (φ ψ : ℝ) : Matrix (Fin 2) (Fin 2) ℝ := !![1, tan φ; tan ψ, 1]
/-- `Affine.init_from_2d_shear(phi, psi, degrees)` -/
def initFrom2dShear (φ ψ : ℝ) (degrees : Bool) : Matrix (Fin 2) (Fin 2) ℝ :=
  shearR (angleArg φ degrees) (angleArg ψ degrees)

/-- `φ` shears along the first axis, `ψ` along the second; 45 degrees is a unit shear -/
theorem real_shear_spec (φ ψ : ℝ) :
    shearR φ ψ *ᵥ ![1, 0] = ![1, tan ψ] ∧ shearR φ ψ *ᵥ ![0, 1] = ![tan φ, 1] ∧
    initFrom2dShear 45 0 true = !![1, 1; 0, 1] ∧
    initFrom2dShear φ ψ true = initFrom2dShear (φ * π / 180) (ψ * π / 180) false := by
  have h45 : deg2rad 45 = π / 4 := by simp only [deg2rad]; ring
  have h0 : deg2rad 0 = 0 := by simp [deg2rad]
  have hd : ∀ x : ℝ, deg2rad x = x * π / 180 := fun x => by simp only [deg2rad]; ring
  refine ⟨?_, ?_, ?_, ?_⟩
  · ext i; fin_cases i <;> simp [shearR]
  · ext i; fin_cases i <;> simp [shearR]
  · simp [initFrom2dShear, angleArg, shearR, h45, h0]
  · simp [initFrom2dShear, angleArg, hd]

theorem shear2_model_is_real (tp ts : Rat) (φ ψ : ℝ) (h1 : (tp : ℝ) = tan φ) (h2 : (ts : ℝ) = tan ψ) :
    (shear2 tp ts).linR = shearR φ ψ ∧ (shear2 tp ts).trR = 0 := by
  constructor
  · ext i j; fin_cases i <;> fin_cases j <;> simp [shear2, Aff2.linR, shearR, h1, h2]
  · ext i; fin_cases i <;> simp [shear2, Aff2.trR]

/-! ### PROPERTY over ℝ: the 3-D constructors -/

def rot3xR (θ : ℝ) : Matrix (Fin 3) (Fin 3) ℝ := !![1, 0, 0; 0, cos θ, -sin θ; 0, sin θ, cos θ]
def rot3yR (θ : ℝ) : Matrix (Fin 3) (Fin 3) ℝ := !![cos θ, 0, sin θ; 0, 1, 0; -sin θ, 0, cos θ]
def rot3zR (θ : ℝ) : Matrix (Fin 3) (Fin 3) ℝ := !![cos θ, -sin θ, 0; sin θ, cos θ, 0; 0, 0, 1]
/-- `Rotation.init_from_3d_ccw_angle_around_x/y/z(theta, degrees)` -/
def initFrom3dCcwAngleAroundX (θ : ℝ) (degrees : Bool) := rot3xR (angleArg θ degrees)
def initFrom3dCcwAngleAroundY (θ : ℝ) (degrees : Bool) := rot3yR (angleArg θ degrees)
def initFrom3dCcwAngleAroundZ (θ : ℝ) (degrees : Bool) := rot3zR (angleArg θ degrees)

def e₀ : Fin 3 → ℝ := ![1, 0, 0]
def e₁ : Fin 3 → ℝ := ![0, 1, 0]
def e₂ : Fin 3 → ℝ := ![0, 0, 1]

/-- each constructor fixes its axis and turns the other two basis vectors by the signed angle in the right-handed
sense (`e_a ↦ cos θ e_a + sin θ e_b` and `e_b ↦ −sin θ e_a + cos θ e_b` for the cyclic order axis, a, b) -/
theorem real_rot3_axes (θ : ℝ) :
    (rot3xR θ *ᵥ e₀ = e₀ ∧ rot3xR θ *ᵥ e₁ = cos θ • e₁ + sin θ • e₂ ∧ rot3xR θ *ᵥ e₂ = -sin θ • e₁ + cos θ • e₂) ∧
    (rot3yR θ *ᵥ e₁ = e₁ ∧ rot3yR θ *ᵥ e₂ = cos θ • e₂ + sin θ • e₀ ∧ rot3yR θ *ᵥ e₀ = -sin θ • e₂ + cos θ • e₀) ∧
    (rot3zR θ *ᵥ e₂ = e₂ ∧ rot3zR θ *ᵥ e₀ = cos θ • e₀ + sin θ • e₁ ∧ rot3zR θ *ᵥ e₁ = -sin θ • e₀ + cos θ • e₁) := by
  refine ⟨⟨?_, ?_, ?_⟩, ⟨?_, ?_, ?_⟩, ⟨?_, ?_, ?_⟩⟩ <;> ext i <;> fin_cases i <;>
    simp [rot3xR, rot3yR, rot3zR, e₀, e₁, e₂, Matrix.mulVec, dotProduct, Fin.sum_univ_succ]

theorem real_rot3_add (α β : ℝ) :
    rot3xR (α + β) = rot3xR α * rot3xR β ∧ rot3yR (α + β) = rot3yR α * rot3yR β ∧
    rot3zR (α + β) = rot3zR α * rot3zR β := by
  refine ⟨?_, ?_, ?_⟩ <;> ext i j <;> fin_cases i <;> fin_cases j <;>
    simp [rot3xR, rot3yR, rot3zR, Matrix.mul_apply, Fin.sum_univ_succ, cos_add, sin_add] <;> ring

theorem real_rot3_periodic (θ : ℝ) (k : ℤ) :
    rot3xR (θ + k * (2 * π)) = rot3xR θ ∧ rot3yR (θ + k * (2 * π)) = rot3yR θ ∧ rot3zR (θ + k * (2 * π)) = rot3zR θ := by
  refine ⟨?_, ?_, ?_⟩ <;> simp [rot3xR, rot3yR, rot3zR, cos_add_int_mul_two_pi, sin_add_int_mul_two_pi]

theorem real_rot3_degrees (d : ℝ) (k : ℤ) :
    initFrom3dCcwAngleAroundX (d + 360 * k) true = initFrom3dCcwAngleAroundX d true ∧
    initFrom3dCcwAngleAroundY (d + 360 * k) true = initFrom3dCcwAngleAroundY d true ∧
    initFrom3dCcwAngleAroundZ (d + 360 * k) true = initFrom3dCcwAngleAroundZ d true ∧
    initFrom3dCcwAngleAroundX d true = initFrom3dCcwAngleAroundX (d * π / 180) false ∧
    initFrom3dCcwAngleAroundY d true = initFrom3dCcwAngleAroundY (d * π / 180) false ∧
    initFrom3dCcwAngleAroundZ d true = initFrom3dCcwAngleAroundZ (d * π / 180) false := by
  have h1 : deg2rad (d + 360 * k) = deg2rad d + k * (2 * π) := by simp only [deg2rad]; ring
  have h2 : deg2rad d = d * π / 180 := by simp only [deg2rad]; ring
  obtain ⟨px, py, pz⟩ := real_rot3_periodic (deg2rad d) k
  refine ⟨?_, ?_, ?_, ?_, ?_, ?_⟩
  · simp only [initFrom3dCcwAngleAroundX, angleArg, if_true, h1, px]
  · simp only [initFrom3dCcwAngleAroundY, angleArg, if_true, h1, py]
  · simp only [initFrom3dCcwAngleAroundZ, angleArg, if_true, h1, pz]
  · simp [initFrom3dCcwAngleAroundX, angleArg, h2]
  · simp [initFrom3dCcwAngleAroundY, angleArg, h2]
  · simp [initFrom3dCcwAngleAroundZ, angleArg, h2]

theorem rot3_model_is_real (c s : Rat) (θ : ℝ) (hc : (c : ℝ) = cos θ) (hs : (s : ℝ) = sin θ) :
    (rot3x c s).toR = rot3xR θ ∧ (rot3y c s).toR = rot3yR θ ∧ (rot3z c s).toR = rot3zR θ := by
  refine ⟨?_, ?_, ?_⟩ <;> ext i j <;> fin_cases i <;> fin_cases j <;>
    simp [rot3x, rot3y, rot3z, Lin3.toR, rot3xR, rot3yR, rot3zR, hc, hs]

/-! ### PROPERTY over ℝ: Rodrigues' rotation and the recovery of axis and angle -/

def crossMat (a : Fin 3 → ℝ) : Matrix (Fin 3) (Fin 3) ℝ := !![0, -a 2, a 1; a 2, 0, -a 0; -a 1, a 0, 0]

/-- the rotation by `θ` about the unit axis `a`: `cos θ · I + sin θ · [a]ₓ + (1 − cos θ) · a aᵀ` -/
def rodMat (a : Fin 3 → ℝ) (θ : ℝ) : Matrix (Fin 3) (Fin 3) ℝ :=
  cos θ • (1 : Matrix (Fin 3) (Fin 3) ℝ) + sin θ • crossMat a + (1 - cos θ) • vecMulVec a a

theorem vec3_ext {v w : Fin 3 → ℝ} (h0 : v 0 = w 0) (h1 : v 1 = w 1) (h2 : v 2 = w 2) : v = w := by
  ext i; fin_cases i <;> assumption

theorem real_rodrigues_mulVec (a v : Fin 3 → ℝ) (θ : ℝ) :
    rodMat a θ *ᵥ v = cos θ • v + sin θ • (a ⨯₃ v) + ((1 - cos θ) * (a ⬝ᵥ v)) • a := by
  apply vec3_ext <;> simp only [Pi.add_apply, Pi.smul_apply, smul_eq_mul] <;>
    simp [rodMat, crossMat, vecMulVec_apply, Matrix.mulVec, dotProduct, Fin.sum_univ_succ, cross_apply, Matrix.add_apply,
      Matrix.one_apply] <;> ring

/-- the three constructors are Rodrigues' rotation about the coordinate axes -/
theorem real_rot3_is_rodrigues (θ : ℝ) :
    rot3xR θ = rodMat e₀ θ ∧ rot3yR θ = rodMat e₁ θ ∧ rot3zR θ = rodMat e₂ θ := by
  refine ⟨?_, ?_, ?_⟩ <;> ext i j <;> fin_cases i <;> fin_cases j <;>
    simp [rot3xR, rot3yR, rot3zR, rodMat, crossMat, vecMulVec_apply, e₀, e₁, e₂, Matrix.add_apply, Matrix.one_apply]

theorem real_rodrigues_axis_fixed (a : Fin 3 → ℝ) (θ : ℝ) (ha : a ⬝ᵥ a = 1) : rodMat a θ *ᵥ a = a := by
  rw [real_rodrigues_mulVec, cross_self, ha]
  apply vec3_ext <;> simp <;> ring


theorem dot3 (v w : Fin 3 → ℝ) : v ⬝ᵥ w = v 0 * w 0 + v 1 * w 1 + v 2 * w 2 := by
  simp [dotProduct, Fin.sum_univ_succ]; ring

theorem real_rodrigues_zero (a : Fin 3 → ℝ) : rodMat a 0 = 1 := by
  simp [rodMat]

theorem real_rodrigues_transpose (a : Fin 3 → ℝ) (θ : ℝ) : (rodMat a θ)ᵀ = rodMat a (-θ) := by
  ext i j; fin_cases i <;> fin_cases j <;>
    simp [rodMat, crossMat, vecMulVec_apply, Matrix.add_apply, Matrix.one_apply, Matrix.transpose_apply, mul_comm]

/-- reversing the axis reverses the angle: the arbitrary sign of the eigenvector is harmless -/
theorem real_rodrigues_neg_axis (a : Fin 3 → ℝ) (θ : ℝ) : rodMat (-a) (-θ) = rodMat a θ := by
  ext i j; fin_cases i <;> fin_cases j <;>
    simp [rodMat, crossMat, vecMulVec_apply, Matrix.add_apply, Matrix.one_apply]

theorem real_rodrigues_periodic (a : Fin 3 → ℝ) (θ : ℝ) (k : ℤ) : rodMat a (θ + k * (2 * π)) = rodMat a θ := by
  simp [rodMat, cos_add_int_mul_two_pi, sin_add_int_mul_two_pi]

/-- angles about a fixed unit axis add -/
theorem real_rodrigues_add (a : Fin 3 → ℝ) (α β : ℝ) (ha : a ⬝ᵥ a = 1) :
    rodMat a (α + β) = rodMat a α * rodMat a β := by
  rw [dot3] at ha
  ext i j; fin_cases i <;> fin_cases j <;>
    simp [rodMat, crossMat, vecMulVec_apply, Matrix.add_apply, Matrix.one_apply, Matrix.mul_apply, Fin.sum_univ_succ,
      cos_add, sin_add]
  · linear_combination (sin α * sin β - (1 - cos α) * (1 - cos β) * (a 0 * a 0)) * ha
  · linear_combination (- (1 - cos α) * (1 - cos β) * (a 0 * a 1)) * ha
  · linear_combination (- (1 - cos α) * (1 - cos β) * (a 0 * a 2)) * ha
  · linear_combination (- (1 - cos α) * (1 - cos β) * (a 1 * a 0)) * ha
  · linear_combination (sin α * sin β - (1 - cos α) * (1 - cos β) * (a 1 * a 1)) * ha
  · linear_combination (- (1 - cos α) * (1 - cos β) * (a 1 * a 2)) * ha
  · linear_combination (- (1 - cos α) * (1 - cos β) * (a 2 * a 0)) * ha
  · linear_combination (- (1 - cos α) * (1 - cos β) * (a 2 * a 1)) * ha
  · linear_combination (sin α * sin β - (1 - cos α) * (1 - cos β) * (a 2 * a 2)) * ha

/-- Rodrigues' matrix about a unit axis is a proper rotation -/
theorem real_rodrigues_orthogonal (a : Fin 3 → ℝ) (θ : ℝ) (ha : a ⬝ᵥ a = 1) :
    (rodMat a θ)ᵀ * rodMat a θ = 1 ∧ rodMat a θ * (rodMat a θ)ᵀ = 1 ∧ (rodMat a θ).det = 1 := by
  have h1 : (rodMat a θ)ᵀ * rodMat a θ = 1 := by
    rw [real_rodrigues_transpose, ← real_rodrigues_add a _ _ ha]; simp [real_rodrigues_zero]
  have h2 : rodMat a θ * (rodMat a θ)ᵀ = 1 := by
    rw [real_rodrigues_transpose, ← real_rodrigues_add a _ _ ha]; simp [real_rodrigues_zero]
  refine ⟨h1, h2, ?_⟩
  -- det R(θ) = det R(θ/2)² ≥ 0 and det R(θ)² = 1
  have hsq : (rodMat a θ).det * (rodMat a θ).det = 1 := by
    have := congrArg Matrix.det h1
    rwa [Matrix.det_mul, Matrix.det_transpose, Matrix.det_one] at this
  have hhalf : (rodMat a θ).det = (rodMat a (θ / 2)).det * (rodMat a (θ / 2)).det := by
    rw [← Matrix.det_mul, ← real_rodrigues_add a _ _ ha]; congr 2; ring
  have hnn : 0 ≤ (rodMat a θ).det := by rw [hhalf]; exact mul_self_nonneg _
  nlinarith

/-- the quantities `_axis_and_angle_of_rotation_3d` computes: for every unit `p ⟂ a`, `p·Rp = cos θ` and
`a·(p × Rp) = sin θ` -/
theorem real_axis_angle_recover (a p : Fin 3 → ℝ) (θ : ℝ) (ha : a ⬝ᵥ a = 1) (hp : p ⬝ᵥ p = 1) (hap : a ⬝ᵥ p = 0) :
    p ⬝ᵥ (rodMat a θ *ᵥ p) = cos θ ∧ a ⬝ᵥ (p ⨯₃ (rodMat a θ *ᵥ p)) = sin θ := by
  rw [real_rodrigues_mulVec]
  rw [dot3] at ha hp hap
  constructor
  · rw [dot3]; simp only [Pi.add_apply, Pi.smul_apply, smul_eq_mul, cross_apply, dot3]
    simp
    linear_combination cos θ * hp + (1 - cos θ) * (a 0 * p 0 + a 1 * p 1 + a 2 * p 2) * hap
  · rw [dot3]; simp only [cross_apply, Pi.add_apply, Pi.smul_apply, smul_eq_mul, dot3]
    simp
    linear_combination sin θ * (p 0 * p 0 + p 1 * p 1 + p 2 * p 2) * ha + sin θ * hp
      - sin θ * (a 0 * p 0 + a 1 * p 1 + a 2 * p 2) * hap

/-- away from the identity the fixed vectors of the rotation are the multiples of its axis: the eigenvector for the
eigenvalue 1 that `np.linalg.eig` returns IS (up to scale and sign) the axis — proved, not assumed -/
theorem real_rodrigues_fixed_vectors (a v : Fin 3 → ℝ) (θ : ℝ) (hc : cos θ ≠ 1)
    (hv : rodMat a θ *ᵥ v = v) : v = (a ⬝ᵥ v) • a := by
  rw [real_rodrigues_mulVec] at hv
  have h0 := congrFun hv 0
  have h1 := congrFun hv 1
  have h2 := congrFun hv 2
  simp only [Pi.add_apply, Pi.smul_apply, smul_eq_mul, cross_apply] at h0 h1 h2
  simp at h0 h1 h2
  set k := a ⬝ᵥ v with hk
  have hsum : (1 - cos θ) * ((v 0 - k * a 0) ^ 2 + (v 1 - k * a 1) ^ 2 + (v 2 - k * a 2) ^ 2) = 0 := by
    have hk' : k = a 0 * v 0 + a 1 * v 1 + a 2 * v 2 := by rw [hk, dot3]
    linear_combination (-(v 0 - k * a 0)) * h0 + (-(v 1 - k * a 1)) * h1 + (-(v 2 - k * a 2)) * h2
      + (sin θ * (a 1 * v 2 - a 2 * v 1) * a 0 + sin θ * (a 2 * v 0 - a 0 * v 2) * a 1 + sin θ * (a 0 * v 1 - a 1 * v 0) * a 2) * hk'
  have hne : (1 - cos θ) ≠ 0 := sub_ne_zero.mpr (Ne.symm hc)
  have hz : (v 0 - k * a 0) ^ 2 + (v 1 - k * a 1) ^ 2 + (v 2 - k * a 2) ^ 2 = 0 := by
    rcases mul_eq_zero.mp hsum with h | h
    · exact absurd h hne
    · exact h
  have z0 : v 0 - k * a 0 = 0 := by
    have : (v 0 - k * a 0) ^ 2 = 0 := by nlinarith [sq_nonneg (v 0 - k * a 0), sq_nonneg (v 1 - k * a 1), sq_nonneg (v 2 - k * a 2)]
    exact pow_eq_zero_iff (by norm_num) |>.mp this
  have z1 : v 1 - k * a 1 = 0 := by
    have : (v 1 - k * a 1) ^ 2 = 0 := by nlinarith [sq_nonneg (v 0 - k * a 0), sq_nonneg (v 1 - k * a 1), sq_nonneg (v 2 - k * a 2)]
    exact pow_eq_zero_iff (by norm_num) |>.mp this
  have z2 : v 2 - k * a 2 = 0 := by
    have : (v 2 - k * a 2) ^ 2 = 0 := by nlinarith [sq_nonneg (v 0 - k * a 0), sq_nonneg (v 1 - k * a 1), sq_nonneg (v 2 - k * a 2)]
    exact pow_eq_zero_iff (by norm_num) |>.mp this
  apply vec3_ext <;> simp only [Pi.smul_apply, smul_eq_mul] <;> linarith


/-- the rational `rodrigues` and `axisAngle3` of the executable model are the real ones at rational data -/
theorem rodrigues_model_is_real (a v : V3) (c s : Rat) (θ : ℝ) (hc : (c : ℝ) = cos θ) (hs : (s : ℝ) = sin θ) :
    (rodrigues a c s v).toR = rodMat a.toR θ *ᵥ v.toR := by
  rw [real_rodrigues_mulVec]
  apply vec3_ext <;> simp only [Pi.add_apply, Pi.smul_apply, smul_eq_mul, cross_apply, dot3] <;>
    simp [rodrigues, V3.toR, V3.add, V3.smul, V3.cross, V3.dot, ← hc, ← hs] <;> ring

/-! ### `_axis_and_angle_of_rotation_3d`, the algorithm as coded, over ℝ -/

/-- the coded algorithm after `np.linalg.eig` has returned `evec`, an eigenvector for the (only) real eigenvalue of
modulus one, and `np.random.rand` has returned `r`:
```
axis = evec / sqrt((evec**2).sum())
perp = cross(axis, axis - r);  perp /= sqrt((perp**2).sum())
t = R.dot(perp);  angle = arccos(t.dot(perp))
if axis.dot(cross(perp, t)) < 0: angle *= -1
``` -/
def axisAngle3Coded (R : Matrix (Fin 3) (Fin 3) ℝ) (evec r : Fin 3 → ℝ) : (Fin 3 → ℝ) × ℝ :=
  let axis := (sqrt (evec ⬝ᵥ evec))⁻¹ • evec
  let perp := axis ⨯₃ (axis - r)
  let p := (sqrt (perp ⬝ᵥ perp))⁻¹ • perp
  let t := R *ᵥ p
  let ang := arccos (t ⬝ᵥ p)
  (axis, if axis ⬝ᵥ (p ⨯₃ t) < 0 then -ang else ang)

theorem normalise_unit (w : Fin 3 → ℝ) (hw : w ≠ 0) :
    0 < sqrt (w ⬝ᵥ w) ∧ ((sqrt (w ⬝ᵥ w))⁻¹ • w) ⬝ᵥ ((sqrt (w ⬝ᵥ w))⁻¹ • w) = 1 := by
  have hpos : 0 < w ⬝ᵥ w := by
    rw [dot3]
    by_contra hle
    apply hw
    have h0 : w 0 * w 0 + w 1 * w 1 + w 2 * w 2 ≤ 0 := not_lt.mp hle
    have z0 : w 0 * w 0 = 0 := by nlinarith [mul_self_nonneg (w 0), mul_self_nonneg (w 1), mul_self_nonneg (w 2)]
    have z1 : w 1 * w 1 = 0 := by nlinarith [mul_self_nonneg (w 0), mul_self_nonneg (w 1), mul_self_nonneg (w 2)]
    have z2 : w 2 * w 2 = 0 := by nlinarith [mul_self_nonneg (w 0), mul_self_nonneg (w 1), mul_self_nonneg (w 2)]
    exact vec3_ext (mul_self_eq_zero.mp z0) (mul_self_eq_zero.mp z1) (mul_self_eq_zero.mp z2)
  have hs : 0 < sqrt (w ⬝ᵥ w) := sqrt_pos.mpr hpos
  refine ⟨hs, ?_⟩
  rw [smul_dotProduct, dotProduct_smul, smul_eq_mul, smul_eq_mul, ← mul_assoc, ← mul_inv, mul_self_sqrt hpos.le,
    inv_mul_cancel₀ hpos.ne']

/-- the heart of the algorithm for an axis `σ a`, `σ = ±1` -/
private theorem algo_core (a r : Fin 3 → ℝ) (θ σ : ℝ) (ha : a ⬝ᵥ a = 1) (hσ : σ * σ = 1) (hr : a ⨯₃ r ≠ 0) :
    let axis := σ • a
    let perp := axis ⨯₃ (axis - r)
    let p := (sqrt (perp ⬝ᵥ perp))⁻¹ • perp
    let t := rodMat a θ *ᵥ p
    t ⬝ᵥ p = cos θ ∧ axis ⬝ᵥ (p ⨯₃ t) = σ * sin θ := by
  intro axis perp p t
  have hperp : perp = (-σ) • (a ⨯₃ r) := by
    apply vec3_ext <;> simp only [perp, axis, cross_apply, Pi.smul_apply, Pi.sub_apply, smul_eq_mul] <;> simp <;> ring
  have hσ0 : σ ≠ 0 := by intro h; rw [h] at hσ; norm_num at hσ
  have hperp0 : perp ≠ 0 := by
    rw [hperp]; exact smul_ne_zero (neg_ne_zero.mpr hσ0) hr
  obtain ⟨hn, hpp⟩ := normalise_unit perp hperp0
  have hap : a ⬝ᵥ p = 0 := by
    simp only [p, dotProduct_smul, hperp, dot_self_cross, smul_zero]
  obtain ⟨h1, h2⟩ := real_axis_angle_recover a p θ ha hpp hap
  refine ⟨by rw [dotProduct_comm]; exact h1, ?_⟩
  simp only [axis, smul_dotProduct, smul_eq_mul]
  rw [h2]

/-- THE CODED ALGORITHM RECOVERS AXIS AND ANGLE.  Let `R` be the rotation by `θ ∈ (0, π)` about the unit axis `a` (every
proper rotation other than the identity and the half-turns is one, for exactly one such pair).  Whatever eigenvector
`evec ≠ 0` for the eigenvalue 1 the eigen-solver returns and whatever vector `r` not parallel to it the random generator
returns, the reported `(axis, angle)` reconstructs `R`, the axis is a unit vector, and the sign convention is:
`(a, θ)` if the eigenvector points along `a`, `(−a, −θ)` if it points against it — the angle is signed in the
right-handed sense about the REPORTED axis, and `|angle| = θ ∈ (0, π)`. -/
theorem real_axis_angle_3d_coded (a evec r : Fin 3 → ℝ) (θ : ℝ) (ha : a ⬝ᵥ a = 1) (h0 : 0 < θ) (hπ : θ < π)
    (he : evec ≠ 0) (hfix : rodMat a θ *ᵥ evec = evec) (hr : evec ⨯₃ r ≠ 0) :
    let res := axisAngle3Coded (rodMat a θ) evec r
    rodMat res.1 res.2 = rodMat a θ ∧ res.1 ⬝ᵥ res.1 = 1 ∧
    ((res.1 = a ∧ res.2 = θ) ∨ (res.1 = -a ∧ res.2 = -θ)) := by
  have hcos : cos θ ≠ 1 := by
    have : cos θ < cos 0 := cos_lt_cos_of_nonneg_of_le_pi le_rfl hπ.le h0
    rw [cos_zero] at this; exact ne_of_lt this
  have hsin : 0 < sin θ := sin_pos_of_pos_of_lt_pi h0 hπ
  set k := a ⬝ᵥ evec with hk
  have hev : evec = k • a := real_rodrigues_fixed_vectors a evec θ hcos hfix
  have hk0 : k ≠ 0 := by
    intro h; apply he; rw [hev, h, zero_smul]
  have hee : evec ⬝ᵥ evec = k * k := by
    rw [hev, smul_dotProduct, dotProduct_smul, ha]; simp
  have hsq : sqrt (evec ⬝ᵥ evec) = |k| := by rw [hee, sqrt_mul_self_eq_abs]
  have har : a ⨯₃ r ≠ 0 := by
    intro h; apply hr; rw [hev]
    apply vec3_ext <;> simp only [cross_apply, Pi.smul_apply, smul_eq_mul, Pi.zero_apply] <;> simp
    · have := congrFun h 0; simp [cross_apply] at this; linear_combination k * this
    · have := congrFun h 1; simp [cross_apply] at this; linear_combination k * this
    · have := congrFun h 2; simp [cross_apply] at this; linear_combination k * this
  have key : ∀ σ : ℝ, σ * σ = 1 → (sqrt (evec ⬝ᵥ evec))⁻¹ • evec = σ • a →
      (axisAngle3Coded (rodMat a θ) evec r).1 = σ • a ∧
      (axisAngle3Coded (rodMat a θ) evec r).2 = if σ * sin θ < 0 then -θ else θ := by
    intro σ hσ hax
    obtain ⟨c1, c2⟩ := algo_core a r θ σ ha hσ har
    simp only [axisAngle3Coded, hax]
    refine ⟨trivial, ?_⟩
    rw [c1, c2, arccos_cos h0.le hπ.le]
  intro res
  rcases lt_or_gt_of_ne hk0 with hneg | hpos
  · -- eigenvector against the axis
    have hax : (sqrt (evec ⬝ᵥ evec))⁻¹ • evec = (-1 : ℝ) • a := by
      rw [hsq, abs_of_neg hneg, hev, smul_smul]
      congr 1; field_simp
    obtain ⟨k1, k2⟩ := key (-1) (by norm_num) hax
    have e1 : res.1 = -a := by simp only [res, k1]; simp
    have e2 : res.2 = -θ := by
      simp only [res, k2]; rw [if_pos (by linarith)]
    refine ⟨by rw [e1, e2, real_rodrigues_neg_axis], by rw [e1]; simp [ha], Or.inr ⟨e1, e2⟩⟩
  · have hax : (sqrt (evec ⬝ᵥ evec))⁻¹ • evec = (1 : ℝ) • a := by
      rw [hsq, abs_of_pos hpos, hev, smul_smul]
      congr 1; field_simp
    obtain ⟨k1, k2⟩ := key 1 (by norm_num) hax
    have e1 : res.1 = a := by simp only [res, k1]; simp
    have e2 : res.2 = θ := by
      simp only [res, k2]; rw [if_neg (by linarith)]
    refine ⟨by rw [e1, e2], by rw [e1]; exact ha, Or.inl ⟨e1, e2⟩⟩


/-! ### `_axis_and_angle_of_rotation_2d` as coded, over ℝ (the recorded finding) -/

/-- `angle = arccos((R e₀)·e₀)` -/
def axisAngle2CodedR (M : Matrix (Fin 2) (Fin 2) ℝ) : ℝ := arccos ((M *ᵥ ![1, 0]) ⬝ᵥ ![1, 0])

/-- the coded 2-D recovery returns the angle itself for counter-clockwise rotations by `θ ∈ [0, π]` and its NEGATIVE for
clockwise ones: the sign is lost (known finding, pinned by `test_basic_2d_rotation_axis_angle`) -/
theorem real_axis_angle_2d_coded (θ : ℝ) :
    (0 ≤ θ → θ ≤ π → axisAngle2CodedR (rot2R θ) = θ) ∧ (-π ≤ θ → θ ≤ 0 → axisAngle2CodedR (rot2R θ) = -θ) := by
  have e : (rot2R θ *ᵥ ![1, 0]) ⬝ᵥ ![1, 0] = cos θ := by
    rw [(real_rot2_basis θ).1]; simp [dotProduct, Fin.sum_univ_succ]
  unfold axisAngle2CodedR
  rw [e]
  constructor
  · intro h0 h1; exact arccos_cos h0 h1
  · intro h0 h1; rw [← cos_neg]; exact arccos_cos (by linarith) (by linarith)

/-- the rational model of the coded recovery (`axisAngle2Coded`: cosine `c`, sine `|s|`) is `(cos, sin)` of that `arccos` -/
theorem axis_angle2_model_is_real (c s : Rat) (h : c * c + s * s = 1) :
    (((axisAngle2Coded (rot2 c s)).1 : Rat) : ℝ) = cos (arccos (c : ℝ)) ∧
    (((axisAngle2Coded (rot2 c s)).2 : Rat) : ℝ) = sin (arccos (c : ℝ)) := by
  have hR : (c : ℝ) * c + (s : ℝ) * s = 1 := by exact_mod_cast h
  have hc1 : (c : ℝ) ≤ 1 := by nlinarith [mul_self_nonneg (s : ℝ)]
  have hc2 : -1 ≤ (c : ℝ) := by nlinarith [mul_self_nonneg (s : ℝ)]
  have e : axisAngle2Coded (rot2 c s) = (c, if s < 0 then -s else s) := rfl
  rw [e, cos_arccos hc2 hc1, sin_arccos]
  refine ⟨rfl, ?_⟩
  have : 1 - (c : ℝ) ^ 2 = (s : ℝ) ^ 2 := by ring_nf; ring_nf at hR; linarith
  rw [this, sqrt_sq_eq_abs]
  by_cases hs : s < 0
  · have : (s : ℝ) < 0 := by exact_mod_cast hs
    simp [hs, abs_of_neg this]
  · have : (0 : ℝ) ≤ s := by exact_mod_cast (not_lt.mp hs)
    simp [hs, abs_of_nonneg this]

/-! ### non-vacuity of the hypotheses -/

/-- `(0, 1)` is `(cos, sin)` of the quarter turn: the bridge theorems apply to the model's `rot2 0 1` -/
example : (((0 : Rat)) : ℝ) = cos (π / 2) ∧ (((1 : Rat)) : ℝ) = sin (π / 2) := by simp

/-- the quarter turn about the z axis with the eigenvector `e₂` and the "random" vector `e₀` meets every hypothesis of
`real_axis_angle_3d_coded` -/
example : e₂ ⬝ᵥ e₂ = 1 ∧ (0 : ℝ) < π / 2 ∧ π / 2 < π ∧ e₂ ≠ 0 ∧ rodMat e₂ (π / 2) *ᵥ e₂ = e₂ ∧ e₂ ⨯₃ e₀ ≠ 0 := by
  have h1 : e₂ ⬝ᵥ e₂ = 1 := by rw [dot3]; simp [e₂]
  refine ⟨h1, by positivity, by linarith [pi_pos], ?_, real_rodrigues_axis_fixed _ _ h1, ?_⟩
  · intro h; have := congrFun h 2; simp [e₂] at this
  · intro h; have := congrFun h 1; simp [e₂, e₀, cross_apply] at this

/-- a unit axis with a unit perpendicular: the hypotheses of `real_axis_angle_recover` -/
example : e₀ ⬝ᵥ e₀ = 1 ∧ e₁ ⬝ᵥ e₁ = 1 ∧ e₀ ⬝ᵥ e₁ = 0 := by
  refine ⟨?_, ?_, ?_⟩ <;> rw [dot3] <;> simp [e₀, e₁]

end
end MenpoModel.C20
