/-
C02 — heap level, deep.  The theorems of `Props/C02Base.lean` speak about points, landmark groups and the
array / immutable attributes.  Here the representation predicate `RepD` fixes EVERY attribute of every object of
the tree by its deep digest (names, order and content of everything reachable: dicts of masks, the `tcoords`
PointCloud and the `texture` Image of a textured mesh with their own landmark managers …), so that

  (c) "connectivity, triangle lists, labels, per-vertex colours, textures and texture coordinates are carried
      over unchanged"  and
  (d) "neither the input shape, nor its landmarks, nor the transform is modified"

become statements about all cells and all attributes:

  `apply_refines_deep`   the call only allocates; the result is a laid-out tree of new objects holding
                         `mapShape f s`, every other attribute of every object deep-equal to the input's
  `apply_deep`           the four clauses in one statement, closed under further calls
  `apply_at_deep`        … at every landmark group at every depth (path of group names walked on the heap)
  `apply_extras_deep`    … spelled out as an equation between deep digests of the attribute lists
  `copy_keeps_digest`    `copy` alone: same deep digest, for every kind of value, every heap
  `apply_manager_deep`   `transform.apply(shape.landmarks)` — the LandmarkManager is Transformable too
  `run_refines`          INVARIANT over arbitrary sequences of calls on shared objects and earlier results
Core Lean only.
-/
import MenpoModel.Props.C02Base
import MenpoModel.Lemmas.C02CopySpecD
import MenpoModel.Lemmas.C02InplaceD
import MenpoModel.Lemmas.C02CheckD

namespace MenpoModel.C02

/-- `copy` returns a value with the deep digest of its argument — for every method-resolution table, every
heap, every kind of value (array, dict, object, manager, labelled graph), every fuel of the digest -/
theorem copy_keeps_digest (d : Dispatch) (n : Nat) (h h1 : Heap) (v v1 : Val)
    (e : copy d n h v = .ok (h1, v1)) (j : Nat) (t : List Tok) (hd : digest j h v = some t) :
    digest j h1 v1 = some t :=
  (copy_deep d n h v h1 v1 e j t hd).1

/-- PROPERTY (a, b, c, d on the heap, every attribute).  Let `v` hold a shape `s` on heap `h` — any of the 8
classes, any landmark groups to any depth, any other attributes (arrays, dicts, objects with their own
managers), laid out and shared in any way — and let `transform.apply` return `v'` on heap `h'`.  Then
  * `h'` is `h` plus newly allocated cells: no cell that existed before the call was written;
  * `v'` holds `mapShape f s`, deep: class kept, points and every group's points mapped by `f`, all other
    attributes of every object of the tree with the same deep digest (`RepInD` contains `DeepX`);
  * every shape object of the result (root and groups) is a new cell (address ≥ `h.length`). -/
theorem apply_refines_deep (f : Arr → Arr) (k : Nat) (s : Shape) (h h' : Heap) (v v' : Val)
    (r : RepD h.length h s v) (hrun : applyH expectedDispatch f k h v = .ok (h', v')) :
    Ext h h' ∧ RepInD h.length h' (mapShape f s) h.length h'.length v' := by
  cases s with
  | mk c x gs ex =>
    have r0 := r
    unfold RepD at r0
    obtain ⟨a, fs, p, rfl, ha, _⟩ := r0
    simp only [applyH, ha, supTransform_shape] at hrun
    have hc := copy_specD k h.length _ h (.ref a) (Nat.le_refl _) r
    cases hcp : copy expectedDispatch k h (.ref a) with
    | error e => rw [hcp] at hrun; cases hrun
    | ok pr =>
      obtain ⟨h1, v1⟩ := pr
      rw [hcp] at hc hrun
      simp only at hrun
      obtain ⟨e1, r1⟩ := hc
      cases hin : inplace expectedDispatch f k h1 v1 with
      | error e => rw [hin] at hrun; cases hrun
      | ok h2 =>
        rw [hin] at hrun
        simp only [Except.ok.injEq, Prod.mk.injEq] at hrun
        obtain ⟨rfl, rfl⟩ := hrun
        obtain ⟨fr, r2⟩ := inplace_specD f k h.length _ h1 _ _ v1 h2 (Nat.le_refl _) r1 hin
        have hpre : ∀ b, b < h.length → h2[b]? = h[b]? := fun b hb => by
          rcases fr.same b (Nat.lt_of_lt_of_le hb e1.len) with e | ⟨l1, _, _⟩
          · rw [e]; exact e1.get_lt hb
          · omega
        exact ⟨ext_of_prefix (Nat.le_trans e1.len fr.len) hpre,
          RepInD.widen _ v1 (Nat.le_refl _) fr.len r2⟩

/-- PROPERTY, the four heap clauses in one statement that is closed under further calls:
  (d) nothing that existed is written; (d) the input still holds `s`, deep;
  (a) the result is a new object; (a, b, c) it holds `mapShape f s`, deep. -/
theorem apply_deep (f : Arr → Arr) (k : Nat) (s : Shape) (h h' : Heap) (v v' : Val)
    (r : RepD h.length h s v) (hrun : applyH expectedDispatch f k h v = .ok (h', v')) :
    (h.length ≤ h'.length ∧ ∀ a, a < h.length → h'[a]? = h[a]?) ∧
    RepD h'.length h' s v ∧
    (∃ a', v' = .ref a' ∧ h.length ≤ a') ∧
    RepD h'.length h' (mapShape f s) v' := by
  obtain ⟨e, r2⟩ := apply_refines_deep f k s h h' v v' r hrun
  refine ⟨⟨e.len, fun a ha => e.get_lt ha⟩, RepD.mono e.len s v (RepD.ext e s v r), ?_,
    RepInD.repD e.len _ _ _ v' (Nat.le_refl _) r2⟩
  cases s with
  | mk c x gs ex =>
    rw [mapShape_mk, repInD_iff] at r2
    obtain ⟨a, _, _, m0, m, hv, q1, q2, q3, _⟩ := r2
    exact ⟨a, hv, by omega⟩

/-! ### every landmark group at every depth, on the heap -/

theorem RepGD.lookup {base : Nat} {h : Heap} : ∀ (gs : Groups) (gvs : Slots) (n : String) (g : Shape),
    RepGD base h gs gvs → gs.lookup n = some g → ∃ w, gvs.lookup n = some w ∧ RepD base h g w
  | .nil, _, _, _, _, hl => by simp [Groups.lookup] at hl
  | .cons n' g' rest, gvs, n, g, r, hl => by
    unfold RepGD at r
    obtain ⟨v, t, rfl, r1, r2⟩ := r
    simp only [Groups.lookup] at hl
    by_cases hn : n' = n
    · subst hn
      simp only [beq_self_eq_true, if_true, Option.some.injEq] at hl
      subst hl
      exact ⟨v, by simp [List.lookup], r1⟩
    · have h1 : (n' == n) = false := by simp [hn]
      have h2 : (n == n') = false := by simp [Ne.symm hn]
      simp only [h1, Bool.false_eq_true, if_false] at hl
      obtain ⟨w, hw, rw'⟩ := RepGD.lookup rest t n g r2 hl
      exact ⟨w, by simp only [List.lookup, h2]; exact hw, rw'⟩

/-- the object reached on the heap by a path of group names holds the group the value reaches -/
theorem RepD.at {base : Nat} {h : Heap} : ∀ (path : List String) (s : Shape) (v : Val) (g : Shape),
    RepD base h s v → s.at path = some g → ∃ w, atH h v path = some w ∧ RepD base h g w
  | [], s, v, g, r, hg => by
    simp only [Shape.at, Option.some.injEq] at hg; subst hg
    exact ⟨v, by cases v <;> rfl, r⟩
  | n :: path, .mk c x gs ex, v, g, r, hg => by
    unfold RepD at r
    obtain ⟨a, fs, p, rfl, ha, _, _, _, _, hl⟩ := r
    simp only [Shape.at] at hg
    cases hlk : gs.lookup n with
    | none => rw [hlk] at hg; cases hg
    | some g1 =>
      rw [hlk] at hg
      rcases hl with ⟨_, rfl⟩ | ⟨l, ls, gd, gvs, q1, q2, q3, q4, q5⟩
      · simp [Groups.lookup] at hlk
      · obtain ⟨w1, hw1, rw1⟩ := RepGD.lookup gs gvs n g1 q5 hlk
        obtain ⟨w, hw, rw'⟩ := RepD.at path g1 w1 g rw1 hg
        exact ⟨w, by simp only [atH, ha, q1, q2, q3, q4, hw1]; exact hw, rw'⟩

theorem RepGInD.lookup {base : Nat} {h : Heap} : ∀ (gs : Groups) (lo hi : Nat) (gvs : Slots) (n : String) (g : Shape),
    RepGInD base h gs lo hi gvs → gs.lookup n = some g →
      ∃ w lo' hi', gvs.lookup n = some w ∧ lo ≤ lo' ∧ hi' ≤ hi ∧ RepInD base h g lo' hi' w
  | .nil, _, _, _, _, _, _, hl => by simp [Groups.lookup] at hl
  | .cons n' g' rest, lo, hi, gvs, n, g, r, hl => by
    unfold RepGInD at r
    obtain ⟨v, t, m, rfl, r1, r2⟩ := r
    have hle1 := RepInD.le g' lo m v r1
    have hle2 := RepGInD.le rest m hi t r2
    simp only [Groups.lookup] at hl
    by_cases hn : n' = n
    · subst hn
      simp only [beq_self_eq_true, if_true, Option.some.injEq] at hl
      subst hl
      exact ⟨v, lo, m, by simp [List.lookup], Nat.le_refl _, hle2, r1⟩
    · have h1 : (n' == n) = false := by simp [hn]
      have h2 : (n == n') = false := by simp [Ne.symm hn]
      simp only [h1, Bool.false_eq_true, if_false] at hl
      obtain ⟨w, lo', hi', hw, k1, k2, rw'⟩ := RepGInD.lookup rest m hi t n g r2 hl
      exact ⟨w, lo', hi', by simp only [List.lookup, h2]; exact hw, by omega, k2, rw'⟩

theorem RepInD.at {base : Nat} {h : Heap} : ∀ (path : List String) (s : Shape) (lo hi : Nat) (v : Val) (g : Shape),
    RepInD base h s lo hi v → s.at path = some g →
      ∃ w lo' hi', atH h v path = some w ∧ lo ≤ lo' ∧ hi' ≤ hi ∧ RepInD base h g lo' hi' w
  | [], s, lo, hi, v, g, r, hg => by
    simp only [Shape.at, Option.some.injEq] at hg; subst hg
    exact ⟨v, lo, hi, by cases v <;> rfl, Nat.le_refl _, Nat.le_refl _, r⟩
  | n :: path, .mk c x gs ex, lo, hi, v, g, r, hg => by
    rw [repInD_iff] at r
    obtain ⟨a, fs, p, m0, m, rfl, k1, k2, k3, k4, ha, _, _, _, _, hl⟩ := r
    simp only [Shape.at] at hg
    cases hlk : gs.lookup n with
    | none => rw [hlk] at hg; cases hg
    | some g1 =>
      rw [hlk] at hg
      rcases hl with ⟨_, rfl⟩ | ⟨l, ls, gd, gvs, q1, q2, q3, q4, q5⟩
      · simp [Groups.lookup] at hlk
      · obtain ⟨w1, lo1, hi1, hw1, j1, j2, rw1⟩ := RepGInD.lookup gs m0 m gvs n g1 q5 hlk
        obtain ⟨w, lo', hi', hw, i1, i2, rw'⟩ := RepInD.at path g1 lo1 hi1 w1 g rw1 hg
        exact ⟨w, lo', hi', by simp only [atH, ha, q1, q2, q3, q4, hw1]; exact hw, by omega, by omega, rw'⟩

/-- PROPERTY (b, c, d) at every depth, on the heap.  For every landmark group `g` of the input reached by a
path of group names: the same path walked from the input object still reaches an object holding `g` (deep);
walked from the result it reaches a NEW object holding `mapShape f g` — points moved by the same `f`, every
other attribute deep-equal. -/
theorem apply_at_deep (f : Arr → Arr) (k : Nat) (s : Shape) (h h' : Heap) (v v' : Val)
    (r : RepD h.length h s v) (hrun : applyH expectedDispatch f k h v = .ok (h', v'))
    (path : List String) (g : Shape) (hg : s.at path = some g) :
    ∃ w w', atH h v path = some w ∧ atH h' v path = some w ∧ atH h' v' path = some w' ∧
      RepD h'.length h' g w ∧ RepD h'.length h' (mapShape f g) w' ∧ ∃ b, w' = .ref b ∧ h.length ≤ b := by
  obtain ⟨e, r2⟩ := apply_refines_deep f k s h h' v v' r hrun
  obtain ⟨w, hw, _⟩ := RepD.at path s v g r hg
  have rin : RepD h'.length h' s v := RepD.mono e.len s v (RepD.ext e s v r)
  obtain ⟨w2, hw2, rw2⟩ := RepD.at path s v g rin hg
  have hg' : (mapShape f s).at path = some (mapShape f g) := by rw [mapShape_at, hg]; rfl
  obtain ⟨w', lo', hi', hw', k1, k2, rw'⟩ := RepInD.at path _ _ _ v' _ r2 hg'
  -- the walk from the input reaches the same object before and after (nothing was written)
  have hsame : w2 = w := by
    have : ∀ (path : List String) (u : Val) (w : Val), atH h u path = some w → atH h' u path = some w := by
      intro path
      induction path with
      | nil => intro u w hh; cases u <;> simpa [atH] using hh
      | cons n t ih =>
        intro u w hh
        cases u with
        | imm _ => simp [atH] at hh
        | ref a =>
          simp only [atH] at hh ⊢
          split at hh
          · rename_i c0 fs0 ha0
            rw [e.get ha0]; simp only
            split at hh
            · rename_i l0 hl0
              split at hh
              · rename_i ls0 hls0
                rw [e.get hls0]; simp only
                split at hh
                · rename_i g0 hg0
                  split at hh
                  · rename_i gvs0 hgv0
                    rw [e.get hgv0]; simp only
                    split at hh
                    · rename_i w0 hw0
                      exact ih _ _ hh
                    · cases hh
                  · cases hh
                · cases hh
              · cases hh
            · cases hh
          · cases hh
    have := this path v w hw
    rw [hw2] at this; injection this
  subst hsame
  refine ⟨w2, w', hw, hw2, hw', rw2, RepInD.repD e.len _ _ _ w' k2 rw', ?_⟩
  cases hm : mapShape f g with
  | mk c x gs ex =>
    rw [hm, repInD_iff] at rw'
    obtain ⟨b, _, _, m0, m, hv, q1, q2, q3, _⟩ := rw'
    exact ⟨b, hv, by omega⟩

/-- what `RepD` says about the other attributes, spelled out -/
theorem RepD.extras {base : Nat} {h : Heap} {c : SCls} {x : Arr} {gs : Groups} {ex : Extra} {v : Val}
    (r : RepD base h (.mk c x gs ex) v) :
    ∃ a fs j, v = .ref a ∧ h[a]? = some (.obj (.shape c) fs) ∧
      digestSlots (digest j h) (filterX fs) = some (exToks ex) := by
  unfold RepD at r
  obtain ⟨a, fs, p, hv, ha, _, _, ⟨j, hj, _⟩, _⟩ := r
  exact ⟨a, fs, j, hv, ha, hj⟩

/-- PROPERTY (c) as an equation: for the object at any path of the input and the object at the same path of the
result, the lists of all attributes other than `points` / `_landmarks` have the SAME deep digest (same names,
same order, same content of everything reachable) — trilist, colours, adjacency, label masks, texture
coordinates, texture, root vertex …, whatever kind of value they are. -/
theorem apply_extras_deep (f : Arr → Arr) (k : Nat) (s : Shape) (h h' : Heap) (v v' : Val)
    (r : RepD h.length h s v) (hrun : applyH expectedDispatch f k h v = .ok (h', v'))
    (path : List String) (g : Shape) (hg : s.at path = some g) :
    ∃ a fs a' fs' j j', atH h v path = some (.ref a) ∧ atH h' v' path = some (.ref a') ∧
      h[a]? = some (.obj (.shape g.cls) fs) ∧ h'[a']? = some (.obj (.shape g.cls) fs') ∧
      digestSlots (digest j' h') (filterX fs') = digestSlots (digest j h) (filterX fs) ∧
      digestSlots (digest j h) (filterX fs) = some (exToks g.extra) := by
  obtain ⟨w, w', hw, _, hw', _, rw', _⟩ := apply_at_deep f k s h h' v v' r hrun path g hg
  obtain ⟨w0, hw0, rw0⟩ := RepD.at path s v g r hg
  rw [hw] at hw0; injection hw0 with hw0; subst hw0
  cases g with
  | mk c x gs ex =>
    rw [mapShape_mk] at rw'
    obtain ⟨a, fs, j, rfl, ha, hj⟩ := RepD.extras rw0
    obtain ⟨a', fs', j', rfl, ha', hj'⟩ := RepD.extras rw'
    exact ⟨a, fs, a', fs', j, j', hw, hw', ha, ha', hj'.trans hj.symm, hj⟩

/-! ### `transform.apply(landmark_manager)` -/

/-- the LandmarkManager is itself Transformable: applying a transform to it returns a NEW manager whose groups
are the input's groups moved by `f` (deep, every depth); nothing that existed is written -/
theorem apply_manager_deep (f : Arr → Arr) (k : Nat) (gs : Groups) (h h' : Heap) (v v' : Val)
    (r : RepMD h.length h gs v) (hrun : applyH expectedDispatch f k h v = .ok (h', v')) :
    Ext h h' ∧ RepMD h'.length h' gs v ∧ RepMD h'.length h' (mapGroups f gs) v' ∧
      ∃ l', v' = .ref l' ∧ h.length ≤ l' := by
  obtain ⟨l, ls, g, gvs, rfl, q2, q3, q4, q5⟩ := r
  have hT : supTransform expectedDispatch .LandmarkManager = some .Transformable := rfl
  simp only [applyH, q2, hT] at hrun
  have hc := copy_lm_specD k (fun j _ => copy_specD j) (Nat.le_refl _) q2 q3 q4 q5
  cases hcp : copy expectedDispatch k h (.ref l) with
  | error e => rw [hcp] at hrun; cases hrun
  | ok pr =>
    obtain ⟨h1, v1⟩ := pr
    rw [hcp] at hc hrun
    simp only at hrun hc
    obtain ⟨e1, l1, ls1, g1, gvs1, m0, m, rfl, j1, j2, j3, j4, j5, j6, j6', j7⟩ := hc
    cases hin : inplace expectedDispatch f k h1 (.ref l1) with
    | error e => rw [hin] at hrun; cases hrun
    | ok h2 =>
      rw [hin] at hrun
      simp only [Except.ok.injEq, Prod.mk.injEq] at hrun
      obtain ⟨rfl, rfl⟩ := hrun
      cases k with
      | zero => simp [inplace] at hin
      | succ k =>
        simp only [inplace, j1, supInplace_lm, j2, j3] at hin
        obtain ⟨fr, r2⟩ := inplaceGroups_specD f _ (inplace_specD f k) h.length gs gvs1 m0 m h1 h2 j4 j7 hin
        have hpre : ∀ b, b < h.length → h2[b]? = h[b]? := fun b hb => by
          rcases fr.same b (Nat.lt_of_lt_of_le hb e1.len) with e | ⟨l1', _, _⟩
          · rw [e]; exact e1.get_lt hb
          · omega
        have e : Ext h h2 := ext_of_prefix (Nat.le_trans e1.len fr.len) hpre
        refine ⟨e, ⟨l, ls, g, gvs, rfl, e.get q2, q3, e.get q4,
            RepGD.mono e.len gs gvs (RepGD.ext e gs gvs q5)⟩,
          ⟨l1, ls1, g1, gvs1, rfl, fr.keep j1 (fun _ _ hh => by cases hh), j2,
            fr.keep j3 (fun _ _ hh => by cases hh),
            RepGInD.repD e.len _ m0 m gvs1 (Nat.le_trans j6 fr.len) r2⟩, l1, rfl, j6'⟩

/-! ### the hypotheses are satisfiable, the conclusions are not trivial -/

/-- the texture of a textured mesh: an Image with pixels and its OWN landmark manager holding a point cloud -/
def exTexToks : List Tok := [.objO .Image, .key "_landmarks", .objO .LandmarkManager, .key "_landmark_groups",
  .dictO, .key "t", .objO (.shape .PointCloud), .key "_landmarks", .imm 0, .key "points", .arr [[1, 2]], .close,
  .close, .close, .key "pixels", .arr [[3, 4]], .close]
/-- its texture coordinates: a PointCloud object -/
def exTcToks : List Tok := [.objO (.shape .PointCloud), .key "_landmarks", .imm 0, .key "points",
  .arr [[0, 0], [1, 0], [0, 1]], .close]
/-- a textured mesh with a labelled-graph landmark group, a trilist, texture coordinates and a landmarked texture -/
def exTex : Shape := .mk .TexturedTriMesh [[0, 0], [2, 0], [0, 2]] (.cons "a" exLab .nil)
  [("trilist", .arr [[0, 1, 2]]), ("tcoords", .deep exTcToks), ("texture", .deep exTexToks)]
def exTexHeap : Heap := (build [] exTex).1
def exTexVal : Val := (build [] exTex).2

-- the hypothesis of the deep heap theorems holds of it (every attribute, by digest) …
example : RepD exTexHeap.length exTexHeap exTex exTexVal := repDB_sound _ _ (by decide)
-- … the call succeeds, writes nothing below the old heap top, and the result holds the mapped shape DEEP: the
-- texture's own landmark group [[1, 2]] and the texture coordinates are where they were, the labelled group moved
example : (applyH expectedDispatch exF 8 exTexHeap exTexVal).toOption.map
    (fun r => (changedBelow exTexHeap.length exTexHeap r.1, repDB r.1 (mapShape exF exTex) r.2,
      repDB r.1 exTex exTexVal)) = some ([], true, true) := by decide +kernel
example : ((mapShape exF exTex).at ["a"]).map Shape.points = some [[3, 4], [1, 2]] := by decide
-- `transform.apply(shape.landmarks)` on the manager of `exMesh` (cell 15)
example : (applyH expectedDispatch exF 8 exHeap (.ref 15)).toOption.map
    (fun r => (changedBelow exHeap.length exHeap r.1, decide (exHeap.length ≤ match r.2 with | .ref a => a | _ => 0))) =
    some ([], true) := by decide

end MenpoModel.C02
