/-
C03 — composition obeys its law, is closed and type-sound, leaves operands intact.

Property theorems over the executable model `Core/C03Compose.lean` (PROPERTY marks the theorems
listed in `harness/c03.py`).  All theorems are dimension generic (`d` arbitrary; menpo's affine
family is restricted to d = 2, 3) and are stated over `expectedClassTable`; the obligation
`GenProps/C03.lean` ties that table to the live classes on every run.
-/
import MenpoModel.Lemmas.C03Inv
import MenpoModel.Lemmas.C03Store
import Mathlib.Tactic.FinCases
import Mathlib.Tactic.NormNum

namespace MenpoModel.C03

/-- the class structure all theorems are about -/
abbrev E : ClassTable := expectedClassTable

variable {d : Nat}

/-! ## class-level facts (finite: decided over all 12 resp. 12×12 classes) -/

theorem HCls.mem_all (c : HCls) : c ∈ HCls.all := by cases c <;> decide

/-- the class `_compose_before/_after` report for operand classes `a` (self) and `b` -/
def resultCls (a b : HCls) : HCls :=
  if isSub E b a then baseOf a
  else if isSub E a b then baseOf b
  else if isSub E a .Similarity && isSub E b .Similarity then .Similarity
  else if isSub E a .Affine && isSub E b .Affine then .Affine
  else .Homogeneous

theorem strip_eq_baseOf (c : HCls) : stripCls E c = baseOf c := by cases c <;> rfl

theorem strip_of_not_align (c : HCls) (h : isAlign E c = false) : baseOf c = c := by
  cases c <;> first | rfl | exact absurd h (by decide)

theorem isAlign_baseOf (c : HCls) : isAlign E (baseOf c) = false := by cases c <;> rfl

theorem baseLe_refl_base (c : HCls) : baseLe (baseOf c) (baseOf c) = true := by cases c <;> rfl

private theorem isSub_baseLe_all :
    ∀ a ∈ HCls.all, ∀ b ∈ HCls.all, isSub E a b = true → baseLe (baseOf a) (baseOf b) = true := by
  decide +kernel

/-- `isinstance` between family classes implies the subclass order of the base classes -/
theorem isSub_baseLe {a b : HCls} (h : isSub E a b = true) : baseLe (baseOf a) (baseOf b) = true :=
  isSub_baseLe_all a (HCls.mem_all a) b (HCls.mem_all b) h

private theorem resultCls_facts_all :
    ∀ a ∈ HCls.all, ∀ b ∈ HCls.all,
      isAlign E (resultCls a b) = false ∧ baseOf (resultCls a b) = resultCls a b ∧
      baseLe (baseOf a) (resultCls a b) = true ∧ baseLe (baseOf b) (resultCls a b) = true ∧
      resultCls a b = resultCls b a := by
  decide +kernel

/-- PROPERTY (type soundness, class level; all 12 × 12 ordered pairs, both directions — the
direction does not enter the class): the reported class is never an alignment class, and it is
an upper bound, in the subclass order, of the (de-aligned) classes of both operands. -/
theorem resultCls_sound (a b : HCls) :
    isAlign E (resultCls a b) = false ∧ baseOf (resultCls a b) = resultCls a b ∧
    baseLe (baseOf a) (resultCls a b) = true ∧ baseLe (baseOf b) (resultCls a b) = true ∧
    resultCls a b = resultCls b a :=
  resultCls_facts_all a (HCls.mem_all a) b (HCls.mem_all b)

private theorem composesWith_all :
    ∀ a ∈ HCls.all, ∀ b ∈ HCls.all, accepts E (composesWith E a) b = true := by decide +kernel

/-- every family member composes natively with every family member (`composes_with = Homogeneous`) -/
theorem composesWith_family (a b : HCls) : accepts E (composesWith E a) b = true :=
  composesWith_all a (HCls.mem_all a) b (HCls.mem_all b)

private theorem inplace_accepts_all :
    ∀ a ∈ HCls.all, ∀ b ∈ HCls.all, accepts E (inplaceWith E a) b = true →
      baseLe (baseOf b) (baseOf a) = true ∨
      (baseOf a = .NonUniformScale ∧ baseOf b = .UniformScale) := by decide +kernel

/-- the in-place gate only lets through operands whose class invariant implies the receiver's -/
theorem inplace_accepts {a b : HCls} (h : accepts E (inplaceWith E a) b = true) :
    baseLe (baseOf b) (baseOf a) = true ∨ (baseOf a = .NonUniformScale ∧ baseOf b = .UniformScale) :=
  inplace_accepts_all a (HCls.mem_all a) b (HCls.mem_all b) h

private theorem isSub_affine_all :
    ∀ c ∈ HCls.all, isSub E c .Affine = true → baseOf c ≠ .Homogeneous := by decide +kernel

theorem isSub_affine {c : HCls} (h : isSub E c .Affine = true) : baseOf c ≠ .Homogeneous :=
  isSub_affine_all c (HCls.mem_all c) h

/-! ## a family object -/

theorem inv_isAffine {t : HT d} (h : Inv t.cls t.M) (hc : isSub E t.cls .Affine = true) :
    IsAffine t.M :=
  invBase_affine h (isSub_affine hc)

/-- on an honest object, whichever `_apply` method resolution picks is the projective action of
the matrix -/
theorem applyHT_eq_proj {t : HT d} (h : Inv t.cls t.M) (x : Vec d) :
    applyHT E t x = projApply t.M x := by
  unfold applyHT
  by_cases hc : isSub E t.cls .Affine = true
  · rw [if_pos hc, projApply_affine (inv_isAffine h hc)]
  · rw [if_neg hc]

theorem rawCompose_flip (dir : Dir) (A B : Mat (d + 1)) :
    rawCompose dir.flip A B = rawCompose dir B A := by cases dir <;> rfl

theorem inv_rawCompose {c : HCls} (dir : Dir) {A B : Mat (d + 1)} (hA : InvBase c A) (hB : InvBase c B) :
    InvBase c (rawCompose dir A B) := by
  cases dir
  · exact invBase_mul hB hA
  · exact invBase_mul hA hB

theorem det_rawCompose (dir : Dir) {A B : Mat (d + 1)} (hA : det A ≠ 0) (hB : det B ≠ 0) :
    det (rawCompose dir A B) ≠ 0 := by
  cases dir <;> simp only [rawCompose, det_mul'] <;> exact mul_ne_zero (by assumption) (by assumption)

/-- the map of the raw product: first `s` then `t` for `before`, first `t` then `s` for `after` -/
theorem proj_rawCompose (dir : Dir) {A B : Mat (d + 1)} {x y z : Vec d} :
    (dir = .before → projApply A x = some y ∧ projApply B y = some z) →
    (dir = .after → projApply B x = some y ∧ projApply A y = some z) →
    projApply (rawCompose dir A B) x = some z := by
  intro hb ha
  cases dir
  · obtain ⟨h1, h2⟩ := hb rfl; exact projApply_mul h1 h2
  · obtain ⟨h1, h2⟩ := ha rfl; exact projApply_mul h1 h2

/-! ## the isinstance ladder -/

/-- the ladder never runs out of fuel, multiplies the matrices in the order the direction asks
for, and reports `resultCls` -/
theorem ladder_spec (dir : Dir) (s t : HT d) (hs : Inv s.cls s.M) (ht : Inv t.cls t.M) :
    ∃ r, ladder E ladderFuel dir s t = some r ∧ r.M = rawCompose dir s.M t.M ∧
      r.cls = resultCls s.cls t.cls := by
  have swallow : ∀ (dir : Dir) (s t : HT d), Inv s.cls s.M → isSub E t.cls s.cls = true →
      ∀ fuel, ladder E (fuel + 1) dir s t = some ⟨baseOf s.cls, rawCompose dir s.M t.M⟩ := by
    intro dir s t hs h fuel
    simp only [ladder, h, if_true]
    by_cases ha : isAlign E s.cls = true
    · simp only [ha, if_true, strip_eq_baseOf, nonAlignmentMatrix_of_inv hs]
    · simp only [ha, Bool.false_eq_true, if_false]
      rw [strip_of_not_align s.cls (by simpa using ha)]
  by_cases h1 : isSub E t.cls s.cls = true
  · exact ⟨_, swallow dir s t hs h1 1, rfl, by simp [resultCls, h1]⟩
  · by_cases h2 : isSub E s.cls t.cls = true
    · refine ⟨⟨baseOf t.cls, rawCompose dir s.M t.M⟩, ?_, rfl, by simp [resultCls, h1, h2]⟩
      have := swallow dir.flip t s ht h2 0
      simp only [ladderFuel, ladder, h1, h2, Bool.false_eq_true, if_false, if_true] at this ⊢
      rw [this, rawCompose_flip]
    · by_cases h3 : (isSub E s.cls .Similarity && isSub E t.cls .Similarity) = true
      · exact ⟨⟨.Similarity, rawCompose dir s.M t.M⟩,
          by simp only [ladderFuel, ladder, h1, h2, h3, Bool.false_eq_true, if_false, if_true],
          rfl, by simp only [resultCls, h1, h2, h3, Bool.false_eq_true, if_false, if_true]⟩
      · by_cases h4 : (isSub E s.cls .Affine && isSub E t.cls .Affine) = true
        · exact ⟨⟨.Affine, rawCompose dir s.M t.M⟩,
            by simp only [ladderFuel, ladder, h1, h2, h3, h4, Bool.false_eq_true, if_false, if_true],
            rfl, by simp only [resultCls, h1, h2, h3, h4, Bool.false_eq_true, if_false, if_true]⟩
        · exact ⟨⟨.Homogeneous, rawCompose dir s.M t.M⟩,
            by simp only [ladderFuel, ladder, h1, h2, h3, h4, Bool.false_eq_true, if_false],
            rfl, by simp only [resultCls, h1, h2, h3, h4, Bool.false_eq_true, if_false]⟩

/-- PROPERTY (`_compose_before/_after` are total: the mutual recursion
`t._compose_after(self)` / `t._compose_before(self)` always ends after one hop). -/
theorem ladder_total (dir : Dir) (s t : HT d) (hs : Inv s.cls s.M) (ht : Inv t.cls t.M) :
    (ladder E ladderFuel dir s t).isSome = true := by
  obtain ⟨r, hr, _⟩ := ladder_spec dir s t hs ht
  simp [hr]

/-- PROPERTY (closed and type-sound, all 12×12×2 ordered class pairs): composing two honest
family members natively yields one family member (`ladder` returns an `HT`, never a chain) whose
class is not an alignment class, whose matrix *really is* of the reported class (`Inv`), and which
is invertible when both operands are. -/
theorem compose_closed_sound (dir : Dir) (s t : HT d) (hs : Inv s.cls s.M) (ht : Inv t.cls t.M) :
    ∃ r, ladder E ladderFuel dir s t = some r ∧
      isAlign E r.cls = false ∧ Inv r.cls r.M ∧
      (det s.M ≠ 0 → det t.M ≠ 0 → det r.M ≠ 0) := by
  obtain ⟨r, hr, hM, hc⟩ := ladder_spec dir s t hs ht
  obtain ⟨hal, hbase, hle_s, hle_t, _⟩ := resultCls_sound s.cls t.cls
  refine ⟨r, hr, by rw [hc]; exact hal, ?_, fun ds dt => by rw [hM]; exact det_rawCompose dir ds dt⟩
  unfold Inv
  rw [hc, hbase, hM]
  exact inv_rawCompose dir (invBase_mono hle_s hs) (invBase_mono hle_t ht)

/-- PROPERTY (law, `compose_before`): `a.compose_before(b)` maps `x` to `b(a(x))` — for every pair
of honest family members, wherever the two applications are defined (always, in the affine family;
wherever the projective denominators are non-zero for `Homogeneous`). -/
theorem compose_before_law (a b : HT d) (ha : Inv a.cls a.M) (hb : Inv b.cls b.M) :
    ∃ r, ladder E ladderFuel .before a b = some r ∧
      ∀ x y z, applyHT E a x = some y → applyHT E b y = some z → applyHT E r x = some z := by
  obtain ⟨r, hr, _, hinv, _⟩ := compose_closed_sound .before a b ha hb
  obtain ⟨r', hr', hM, _⟩ := ladder_spec .before a b ha hb
  rw [hr] at hr'; cases hr'
  refine ⟨r, hr, fun x y z h1 h2 => ?_⟩
  rw [applyHT_eq_proj ha] at h1
  rw [applyHT_eq_proj hb] at h2
  rw [applyHT_eq_proj hinv, hM]
  exact proj_rawCompose .before (fun _ => ⟨h1, h2⟩) (fun h => by cases h)

/-- PROPERTY (law, `compose_after`): `a.compose_after(b)` maps `x` to `a(b(x))`. -/
theorem compose_after_law (a b : HT d) (ha : Inv a.cls a.M) (hb : Inv b.cls b.M) :
    ∃ r, ladder E ladderFuel .after a b = some r ∧
      ∀ x y z, applyHT E b x = some y → applyHT E a y = some z → applyHT E r x = some z := by
  obtain ⟨r, hr, _, hinv, _⟩ := compose_closed_sound .after a b ha hb
  obtain ⟨r', hr', hM, _⟩ := ladder_spec .after a b ha hb
  rw [hr] at hr'; cases hr'
  refine ⟨r, hr, fun x y z h1 h2 => ?_⟩
  rw [applyHT_eq_proj hb] at h1
  rw [applyHT_eq_proj ha] at h2
  rw [applyHT_eq_proj hinv, hM]
  exact proj_rawCompose .after (fun h => by cases h) (fun _ => ⟨h1, h2⟩)

/-- PROPERTY (law in the affine family, as an equation): when both operands are affine-family
members every application is defined, so the composite *equals* the sequential application at
every point, in both directions. -/
theorem compose_law_affine (a b : HT d) (ha : Inv a.cls a.M) (hb : Inv b.cls b.M)
    (ca : isSub E a.cls .Affine = true) (cb : isSub E b.cls .Affine = true) :
    (∃ r, ladder E ladderFuel .before a b = some r ∧
      ∀ x, applyHT E r x = (applyHT E a x).bind (applyHT E b) ∧ (applyHT E r x).isSome = true) ∧
    (∃ r, ladder E ladderFuel .after a b = some r ∧
      ∀ x, applyHT E r x = (applyHT E b x).bind (applyHT E a) ∧ (applyHT E r x).isSome = true) := by
  have da : ∀ x, applyHT E a x = some (affApply a.M x) := fun x => by simp [applyHT, ca]
  have db : ∀ x, applyHT E b x = some (affApply b.M x) := fun x => by simp [applyHT, cb]
  constructor
  · obtain ⟨r, hr, law⟩ := compose_before_law a b ha hb
    refine ⟨r, hr, fun x => ?_⟩
    have := law x _ _ (da x) (db _)
    simp [this, da, db]
  · obtain ⟨r, hr, law⟩ := compose_after_law a b ha hb
    refine ⟨r, hr, fun x => ?_⟩
    have := law x _ _ (db x) (da _)
    simp [this, da, db]

/-! ## the store: operands intact, chains, in-place calls, programs -/

/-- a store without dangling references in which every family object is honest -/
def Good (st : Store d) : Prop := WF st ∧ ∀ t, Cell.fam t ∈ st → Inv t.cls t.M

def AllInvertible (st : Store d) : Prop := ∀ t, Cell.fam t ∈ st → det t.M ≠ 0

/-- the operand applied first / second by `a.compose_before(b)` (`dir = before`) and
`a.compose_after(b)` (`dir = after`) -/
def firstOf (dir : Dir) (a b : Nat) : Nat := match dir with | .before => a | .after => b
def secondOf (dir : Dir) (a b : Nat) : Nat := match dir with | .before => b | .after => a

/-- `lr` denotes "first `l1`, then `l2`" -/
def SeqLaw (l1 l2 lr : List (Leaf d)) : Prop :=
  ∀ (env : Nat → Vec d → Option (Vec d)) (x y z : Vec d),
    applyLeaves E env l1 x = some y → applyLeaves E env l2 y = some z →
    applyLeaves E env lr x = some z

theorem seqLaw_append (l1 l2 : List (Leaf d)) : SeqLaw l1 l2 (l1 ++ l2) := by
  intro env x y z h1 h2
  rw [applyLeaves_append, h1]; exact h2

theorem lt_of_getElem?_some {α} {l : List α} {i : Nat} {x : α} (h : l[i]? = some x) : i < l.length := by
  rcases Nat.lt_or_ge i l.length with h' | h'
  · exact h'
  · rw [List.getElem?_eq_none h'] at h; cases h

theorem composeCell_refs {tbl : ClassTable} {st : Store d} {dir : Dir} {a b : Nat} {c : Cell d}
    (h : composeCell tbl st dir a b = .ok c) : a < st.length ∧ b < st.length := by
  unfold composeCell at h
  cases ha : st[a]? with
  | none => simp [ha] at h
  | some ca =>
    cases hb : st[b]? with
    | none => cases ca <;> simp [ha, hb] at h
    | some cb => exact ⟨lt_of_getElem?_some ha, lt_of_getElem?_some hb⟩

theorem inplaceCell_refs {tbl : ClassTable} {st : Store d} {dir : Dir} {a b : Nat} {c : Cell d}
    (h : inplaceCell tbl st dir a b = .ok c) : a < st.length ∧ b < st.length := by
  unfold inplaceCell at h
  cases ha : st[a]? with
  | none => simp [ha] at h
  | some ca =>
    cases hb : st[b]? with
    | none => cases ca <;> simp [ha, hb] at h
    | some cb => exact ⟨lt_of_getElem?_some ha, lt_of_getElem?_some hb⟩

/-- a chain produced by a non-in-place call lists existing objects, and flattens to the leaves of
the first operand followed by the leaves of the second -/
theorem composeCell_chain {tbl : ClassTable} {st : Store d} {dir : Dir} {a b : Nat} {ms : List Nat}
    (h : composeCell tbl st dir a b = .ok (.chain ms)) (hwf : WF st) :
    (∀ m ∈ ms, m < st.length) ∧
    ∀ f l1 l2, flat st f (firstOf dir a b) = some l1 → flat st f (secondOf dir a b) = some l2 →
      flatMembers (flat st f) ms = some (l1 ++ l2) := by
  obtain ⟨hla, hlb⟩ := composeCell_refs h
  have pair : ms = orderPair dir a b →
      (∀ m ∈ ms, m < st.length) ∧
      ∀ f l1 l2, flat st f (firstOf dir a b) = some l1 → flat st f (secondOf dir a b) = some l2 →
        flatMembers (flat st f) ms = some (l1 ++ l2) := by
    intro e; subst e
    cases dir
    · exact ⟨by simp [orderPair, hla, hlb], fun f l1 l2 h1 h2 => flatMembers_pair h1 h2⟩
    · exact ⟨by simp [orderPair, hla, hlb], fun f l1 l2 h1 h2 => flatMembers_pair h1 h2⟩
  unfold composeCell at h
  cases ha : st[a]? with
  | none => simp [ha] at h
  | some ca =>
    cases hb : st[b]? with
    | none => cases ca <;> simp [ha, hb] at h
    | some cb =>
      cases ca with
      | fam s =>
        cases cb with
        | fam t =>
          simp only [ha, hb] at h
          by_cases hacc : accepts tbl (composesWith tbl s.cls) t.cls = true
          · simp only [hacc, if_true] at h
            cases hl : ladder tbl ladderFuel dir s t <;> simp [hl] at h
          · simp only [hacc, Bool.false_eq_true, if_false, Except.ok.injEq, Cell.chain.injEq] at h
            exact pair h.symm
        | chain ns => simp only [ha, hb, Except.ok.injEq, Cell.chain.injEq] at h; exact pair h.symm
        | leaf k => simp only [ha, hb, Except.ok.injEq, Cell.chain.injEq] at h; exact pair h.symm
      | leaf k =>
        simp only [ha, hb, Except.ok.injEq, Cell.chain.injEq] at h; exact pair h.symm
      | chain ms0 =>
        simp only [ha, hb, Except.ok.injEq, Cell.chain.injEq] at h
        subst h
        have hms0 : ∀ m ∈ ms0, m < st.length := by
          have := hwf _ (List.mem_of_getElem? ha); simpa [WFCell] using this
        have unfoldA : ∀ f l, flat st f a = some l → flatMembers (flat st f) ms0 = some l := by
          intro f l hl
          cases f with
          | zero => simp [flat] at hl
          | succ f =>
            rw [flat, ha] at hl
            exact flatMembers_mono (fun m _ l hm => flat_mono st f m l hm) hl
        cases dir
        · refine ⟨by intro m hm; simp only [chainAdd, List.mem_append, List.mem_singleton] at hm
                     rcases hm with hm | hm
                     · exact hms0 m hm
                     · rw [hm]; exact hlb, ?_⟩
          intro f l1 l2 h1 h2
          exact flatMembers_append (unfoldA f l1 h1) (flatMembers_single h2)
        · refine ⟨by intro m hm; simp only [chainAdd, List.mem_cons] at hm
                     rcases hm with hm | hm
                     · rw [hm]; exact hlb
                     · exact hms0 m hm, ?_⟩
          intro f l1 l2 h1 h2
          exact flatMembers_append (ms := [b]) (flatMembers_single h1) (unfoldA f l2 h2)

theorem step_compose_ok {tbl : ClassTable} {st st' : Store d} {dir : Dir} {a b : Nat} {r : Option Nat}
    (h : step tbl st (.compose dir a b) = .ok (st', r)) :
    ∃ c, composeCell tbl st dir a b = .ok c ∧ st' = st ++ [c] ∧ r = some st.length := by
  simp only [step] at h
  cases hc : composeCell tbl st dir a b with
  | error e => simp [hc, Except.map] at h
  | ok c =>
    simp only [hc, Except.map, Except.ok.injEq, Prod.mk.injEq] at h
    exact ⟨c, rfl, h.1.symm, h.2.symm⟩

theorem step_inplace_ok {tbl : ClassTable} {st st' : Store d} {dir : Dir} {a b : Nat} {r : Option Nat}
    (h : step tbl st (.inplace dir a b) = .ok (st', r)) :
    ∃ c, inplaceCell tbl st dir a b = .ok c ∧ st' = st.set a c ∧ r = none := by
  simp only [step] at h
  cases hc : inplaceCell tbl st dir a b with
  | error e => simp [hc, Except.map] at h
  | ok c =>
    simp only [hc, Except.map, Except.ok.injEq, Prod.mk.injEq] at h
    exact ⟨c, rfl, h.1.symm, h.2.symm⟩

/-- PROPERTY (operands intact, `compose_frame`): a non-in-place call only *adds* one object to
the store.  Every object that existed before the call — both operands, and every member of every
chain — is the very same cell afterwards (class, matrix, member list), and denotes the same map. -/
theorem compose_frame (st st' : Store d) (dir : Dir) (a b : Nat) (r : Option Nat)
    (h : step E st (.compose dir a b) = .ok (st', r)) :
    (∃ c, st' = st ++ [c] ∧ r = some st.length) ∧
    (∀ i, i < st.length → st'[i]? = st[i]?) ∧
    (WF st → ∀ f i, i < st.length → flat st' f i = flat st f i) := by
  obtain ⟨c, _, rfl, rfl⟩ := step_compose_ok h
  exact ⟨⟨c, rfl, rfl⟩, fun i hi => List.getElem?_append_left hi,
    fun hwf f i hi => flat_append st c hwf f i hi⟩

/-- PROPERTY (in-place calls touch the receiver only): after `a.compose_*_inplace(b)` every
object other than `a` — in particular the operand `b` — is the very same cell. -/
theorem inplace_frame (st st' : Store d) (dir : Dir) (a b : Nat) (r : Option Nat)
    (h : step E st (.inplace dir a b) = .ok (st', r)) :
    r = none ∧ st'.length = st.length ∧ ∀ i, i ≠ a → st'[i]? = st[i]? := by
  obtain ⟨c, _, rfl, rfl⟩ := step_inplace_ok h
  exact ⟨rfl, by simp, fun i hi => List.getElem?_set_ne (Ne.symm hi)⟩

/-! ### native results and chain results of the non-in-place calls -/

theorem composeCell_fam {tbl : ClassTable} {st : Store d} {dir : Dir} {a b : Nat} {r : HT d}
    (h : composeCell tbl st dir a b = .ok (.fam r)) :
    ∃ s t, st[a]? = some (.fam s) ∧ st[b]? = some (.fam t) ∧ ladder tbl ladderFuel dir s t = some r := by
  unfold composeCell at h
  cases ha : st[a]? with
  | none => simp [ha] at h
  | some ca =>
    cases hb : st[b]? with
    | none => cases ca <;> simp [ha, hb] at h
    | some cb =>
      cases ca with
      | fam s =>
        cases cb with
        | fam t =>
          simp only [ha, hb] at h
          by_cases hacc : accepts tbl (composesWith tbl s.cls) t.cls = true
          · simp only [hacc, if_true] at h
            cases hl : ladder tbl ladderFuel dir s t with
            | none => simp [hl] at h
            | some r' =>
              simp only [hl, Except.ok.injEq, Cell.fam.injEq] at h
              exact ⟨s, t, rfl, rfl, h ▸ hl⟩
          · simp [hacc] at h
        | chain ns => simp [ha, hb] at h
        | leaf k => simp [ha, hb] at h
      | leaf k => simp [ha, hb] at h
      | chain ms0 => simp [ha, hb] at h

theorem composeCell_not_leaf {tbl : ClassTable} {st : Store d} {dir : Dir} {a b k : Nat} :
    composeCell tbl st dir a b ≠ .ok (.leaf k) := by
  intro h
  unfold composeCell at h
  cases ha : st[a]? with
  | none => simp [ha] at h
  | some ca =>
    cases hb : st[b]? with
    | none => cases ca <;> simp [ha, hb] at h
    | some cb =>
      cases ca with
      | fam s =>
        cases cb with
        | fam t =>
          simp only [ha, hb] at h
          by_cases hacc : accepts tbl (composesWith tbl s.cls) t.cls = true
          · simp only [hacc, if_true] at h
            cases hl : ladder tbl ladderFuel dir s t <;> simp [hl] at h
          · simp [hacc] at h
        | chain ns => simp [ha, hb] at h
        | leaf k => simp [ha, hb] at h
      | leaf k => simp [ha, hb] at h
      | chain ms0 => simp [ha, hb] at h

/-- PROPERTY (single family member, never a chain): when both operands are family objects the
non-in-place call produces a family object (natively composed), not a `TransformChain`. -/
theorem compose_family_single (st : Store d) (hg : Good st) (dir : Dir) (a b : Nat) (s t : HT d)
    (ha : st[a]? = some (.fam s)) (hb : st[b]? = some (.fam t)) :
    ∃ r, composeCell E st dir a b = .ok (.fam r) ∧ ladder E ladderFuel dir s t = some r := by
  obtain ⟨r, hr, _⟩ := ladder_spec dir s t (hg.2 s (List.mem_of_getElem? ha)) (hg.2 t (List.mem_of_getElem? hb))
  exact ⟨r, by simp [composeCell, ha, hb, composesWith_family, hr], hr⟩

theorem flat_fam {st : Store d} {f r : Nat} {t : HT d} {l : List (Leaf d)}
    (hc : st[r]? = some (.fam t)) (h : flat st f r = some l) : l = [.fam t] := by
  cases f with
  | zero => simp [flat] at h
  | succ f => rw [flat, hc] at h; simpa using h.symm

/-- PROPERTY (the law for every kind of operand: family members, chains, thin-plate splines,
piecewise affine, dimension slicing): the object returned by `a.compose_before(b)` denotes
"first `a`, then `b`", the object returned by `a.compose_after(b)` denotes "first `b`, then `a`",
whatever the (uninterpreted) leaves do. -/
theorem step_compose_law (st st' : Store d) (hg : Good st) (dir : Dir) (a b r : Nat)
    (h : step E st (.compose dir a b) = .ok (st', some r)) :
    ∀ f l1 l2, flat st f (firstOf dir a b) = some l1 → flat st f (secondOf dir a b) = some l2 →
      ∃ lr, flat st' (f + 1) r = some lr ∧ SeqLaw l1 l2 lr := by
  obtain ⟨c, hc, rfl, hr⟩ := step_compose_ok h
  cases hr
  intro f l1 l2 h1 h2
  have hget : (st ++ [c])[st.length]? = some c := by simp
  cases c with
  | leaf k => exact absurd hc composeCell_not_leaf
  | chain ms =>
    obtain ⟨hlt, hfl⟩ := composeCell_chain hc hg.1
    refine ⟨l1 ++ l2, ?_, seqLaw_append l1 l2⟩
    rw [flat, hget]
    simp only
    rw [flatMembers_congr (fun m hm => flat_append st _ hg.1 f m (hlt m hm))]
    exact hfl f l1 l2 h1 h2
  | fam rr =>
    obtain ⟨s, t, ha, hb, hl⟩ := composeCell_fam hc
    have is := hg.2 s (List.mem_of_getElem? ha)
    have it := hg.2 t (List.mem_of_getElem? hb)
    refine ⟨[.fam rr], by rw [flat, hget], ?_⟩
    intro env x y z e1 e2
    cases dir
    · have := flat_fam ha h1; subst this
      have := flat_fam hb h2; subst this
      obtain ⟨r', hr', law⟩ := compose_before_law s t is it
      rw [hl] at hr'; cases hr'
      rw [applyLeaves_single] at e1 e2 ⊢
      exact law x y z e1 e2
    · have := flat_fam hb h1; subst this
      have := flat_fam ha h2; subst this
      obtain ⟨r', hr', law⟩ := compose_after_law s t is it
      rw [hl] at hr'; cases hr'
      rw [applyLeaves_single] at e1 e2 ⊢
      exact law x y z e1 e2

/-! ### in-place calls -/

theorem inplaceCell_family {tbl : ClassTable} {st : Store d} {dir : Dir} {a b : Nat} {s t : HT d}
    (ha : st[a]? = some (.fam s)) (hb : st[b]? = some (.fam t)) :
    inplaceCell tbl st dir a b =
      if accepts tbl (inplaceWith tbl s.cls) t.cls then .ok (.fam ⟨s.cls, rawCompose dir s.M t.M⟩)
      else .error .rejected := by
  simp [inplaceCell, ha, hb]

/-- PROPERTY (in-place gate): `a.compose_*_inplace(b)` on family objects is accepted exactly when
`b` is an instance of `a.composes_inplace_with`; otherwise it raises (`ValueError`) and nothing
changes.  A chain or an opaque transform is never accepted by a family object. -/
theorem inplace_gate (st : Store d) (dir : Dir) (a b : Nat) (s : HT d) (ha : st[a]? = some (.fam s)) :
    (∀ t, st[b]? = some (.fam t) →
      (accepts E (inplaceWith E s.cls) t.cls = true →
        step E st (.inplace dir a b) = .ok (st.set a (.fam ⟨s.cls, rawCompose dir s.M t.M⟩), none)) ∧
      (accepts E (inplaceWith E s.cls) t.cls = false →
        step E st (.inplace dir a b) = .error .rejected ∧ stepKeep E st (.inplace dir a b) = st)) ∧
    (∀ ms, st[b]? = some (.chain ms) → step E st (.inplace dir a b) = .error .rejected) ∧
    (∀ k, st[b]? = some (.leaf k) → step E st (.inplace dir a b) = .error .rejected) := by
  refine ⟨fun t hb => ⟨fun hacc => ?_, fun hrej => ?_⟩, fun ms hb => ?_, fun k hb => ?_⟩
  · simp [step, inplaceCell_family ha hb, hacc, Except.map]
  · simp [step, stepKeep, inplaceCell_family ha hb, hrej, Except.map]
  · simp [step, inplaceCell, ha, hb, Except.map]
  · simp [step, inplaceCell, ha, hb, Except.map]

/-- PROPERTY (accepted in-place calls produce the same map and keep the receiver honest):
the receiver keeps its class, its new matrix still really is of that class, it stays invertible,
and it maps `x` to `b(a_orig(x))` (`before`) resp. `a_orig(b(x))` (`after`). -/
theorem inplace_law (dir : Dir) (s t : HT d) (hs : Inv s.cls s.M) (ht : Inv t.cls t.M)
    (hacc : accepts E (inplaceWith E s.cls) t.cls = true) :
    let s' : HT d := ⟨s.cls, rawCompose dir s.M t.M⟩
    Inv s'.cls s'.M ∧ (det s.M ≠ 0 → det t.M ≠ 0 → det s'.M ≠ 0) ∧
    (dir = .before → ∀ x y z, applyHT E s x = some y → applyHT E t y = some z → applyHT E s' x = some z) ∧
    (dir = .after → ∀ x y z, applyHT E t x = some y → applyHT E s y = some z → applyHT E s' x = some z) := by
  intro s'
  have ht' : InvBase (baseOf s.cls) t.M := by
    rcases inplace_accepts hacc with h | ⟨h1, h2⟩
    · exact invBase_mono h ht
    · rw [h1]; apply nuscale_of_uscale; unfold Inv at ht; rwa [h2] at ht
  have hinv : Inv s'.cls s'.M := inv_rawCompose dir hs ht'
  refine ⟨hinv, fun ds dt => det_rawCompose dir ds dt, fun hd x y z e1 e2 => ?_, fun hd x y z e1 e2 => ?_⟩
  · rw [applyHT_eq_proj hs] at e1; rw [applyHT_eq_proj ht] at e2; rw [applyHT_eq_proj hinv]
    subst hd; exact proj_rawCompose .before (fun _ => ⟨e1, e2⟩) (fun h => by cases h)
  · rw [applyHT_eq_proj ht] at e1; rw [applyHT_eq_proj hs] at e2; rw [applyHT_eq_proj hinv]
    subst hd; exact proj_rawCompose .after (fun h => by cases h) (fun _ => ⟨e1, e2⟩)

/-- PROPERTY (in-place composition on a chain): the chain keeps its identity, gains `b` at the end
(`before`) or at the front (`after`) and afterwards denotes the old chain followed / preceded by
`b` — provided neither `b` nor a member contains the chain itself (Python would recurse forever). -/
theorem inplace_chain_law (st : Store d) (dir : Dir) (a b : Nat) (ms : List Nat)
    (ha : st[a]? = some (.chain ms)) (hb : b < st.length) :
    step E st (.inplace dir a b) = .ok (st.set a (.chain (chainAdd dir ms b)), none) ∧
    ∀ f la lb, (∀ m ∈ chainAdd dir ms b, reaches st f m a = false) →
      flat st (f + 1) a = some la → flat st f b = some lb →
      flat (st.set a (.chain (chainAdd dir ms b))) (f + 1) a
        = some (match dir with | .before => la ++ lb | .after => lb ++ la) := by
  have hbs : ∃ cb, st[b]? = some cb := ⟨st[b], by simp [hb]⟩
  obtain ⟨cb, hcb⟩ := hbs
  refine ⟨by simp [step, inplaceCell, ha, hcb, Except.map], fun f la lb hnr hla hlb => ?_⟩
  have hlen : a < st.length := lt_of_getElem?_some ha
  rw [flat, List.getElem?_set_self hlen]
  simp only
  rw [flatMembers_congr (fun m hm => flat_set st a _ f m (hnr m hm))]
  rw [flat, ha] at hla
  cases dir
  · exact flatMembers_append hla (flatMembers_single hlb)
  · exact flatMembers_append (ms := [b]) (flatMembers_single hlb) hla

/-! ### programs -/

theorem good_append {st : Store d} {c : Cell d} (hg : Good st) (hw : WFCell st.length c)
    (hi : ∀ t, c = .fam t → Inv t.cls t.M) : Good (st ++ [c]) := by
  constructor
  · intro x hx
    simp only [List.mem_append, List.mem_singleton, List.length_append, List.length_cons,
      List.length_nil] at hx ⊢
    rcases hx with hx | hx
    · exact (hg.1 x hx).mono (Nat.le_succ _)
    · rw [hx]; exact hw.mono (Nat.le_succ _)
  · intro t ht
    simp only [List.mem_append, List.mem_singleton] at ht
    rcases ht with ht | ht
    · exact hg.2 t ht
    · exact hi t ht.symm

theorem good_set {st : Store d} {a : Nat} {c : Cell d} (hg : Good st) (hw : WFCell st.length c)
    (hi : ∀ t, c = .fam t → Inv t.cls t.M) : Good (st.set a c) := by
  constructor
  · intro x hx
    rw [List.length_set]
    rcases List.mem_or_eq_of_mem_set hx with hx | hx
    · exact hg.1 x hx
    · rw [hx]; exact hw
  · intro t ht
    rcases List.mem_or_eq_of_mem_set ht with ht | ht
    · exact hg.2 t ht
    · exact hi t ht.symm

theorem inplaceCell_cases {st : Store d} {dir : Dir} {a b : Nat} {c : Cell d}
    (h : inplaceCell E st dir a b = .ok c) :
    (∃ s t, st[a]? = some (.fam s) ∧ st[b]? = some (.fam t) ∧
      accepts E (inplaceWith E s.cls) t.cls = true ∧ c = .fam ⟨s.cls, rawCompose dir s.M t.M⟩) ∨
    (∃ ms, st[a]? = some (.chain ms) ∧ c = .chain (chainAdd dir ms b)) := by
  obtain ⟨_, hlb⟩ := inplaceCell_refs h
  unfold inplaceCell at h
  cases ha : st[a]? with
  | none => simp [ha] at h
  | some ca =>
    cases hb : st[b]? with
    | none => cases ca <;> simp [ha, hb] at h
    | some cb =>
      cases ca with
      | fam s =>
        cases cb with
        | fam t =>
          simp only [ha, hb] at h
          by_cases hacc : accepts E (inplaceWith E s.cls) t.cls = true
          · simp only [hacc, if_true, Except.ok.injEq] at h
            exact Or.inl ⟨s, t, rfl, rfl, hacc, h.symm⟩
          · simp [hacc] at h
        | chain ns => simp [ha, hb] at h
        | leaf k => simp [ha, hb] at h
      | leaf k => simp [ha, hb] at h
      | chain ms0 =>
        simp only [ha, hb, Except.ok.injEq] at h
        exact Or.inr ⟨ms0, rfl, h.symm⟩

/-- every statement keeps the store good -/
theorem step_good (st st' : Store d) (hg : Good st) (s : Stmt) (r : Option Nat)
    (h : step E st s = .ok (st', r)) : Good st' := by
  cases s with
  | compose dir a b =>
    obtain ⟨c, hc, rfl, _⟩ := step_compose_ok h
    apply good_append hg
    · cases c with
      | fam t => trivial
      | leaf k => trivial
      | chain ms => exact (composeCell_chain hc hg.1).1
    · intro t ht; subst ht
      obtain ⟨s, t', ha, hb, hl⟩ := composeCell_fam hc
      obtain ⟨r', hr', _, hinv, _⟩ := compose_closed_sound dir s t'
        (hg.2 s (List.mem_of_getElem? ha)) (hg.2 t' (List.mem_of_getElem? hb))
      rw [hl] at hr'; cases hr'; exact hinv
  | inplace dir a b =>
    obtain ⟨c, hc, rfl, _⟩ := step_inplace_ok h
    obtain ⟨_, hlb⟩ := inplaceCell_refs hc
    rcases inplaceCell_cases hc with ⟨s, t, ha, hb, hacc, rfl⟩ | ⟨ms, ha, rfl⟩
    · refine good_set hg (show WFCell st.length (Cell.fam _) from trivial) ?_
      intro t' ht'; cases ht'
      exact (inplace_law dir s t (hg.2 s (List.mem_of_getElem? ha)) (hg.2 t (List.mem_of_getElem? hb)) hacc).1
    · apply good_set hg _ (fun t ht => by cases ht)
      have hms : ∀ m ∈ ms, m < st.length := by
        have := hg.1 _ (List.mem_of_getElem? ha); simpa [WFCell] using this
      intro m hm
      cases dir <;> simp only [chainAdd, List.mem_append, List.mem_cons,
        List.not_mem_nil, or_false] at hm
      · rcases hm with hm | hm
        · exact hms m hm
        · rw [hm]; exact hlb
      · rcases hm with hm | hm
        · rw [hm]; exact hlb
        · exact hms m hm

theorem step_invertible (st st' : Store d) (hg : Good st) (hi : AllInvertible st) (s : Stmt)
    (r : Option Nat) (h : step E st s = .ok (st', r)) : AllInvertible st' := by
  cases s with
  | compose dir a b =>
    obtain ⟨c, hc, rfl, _⟩ := step_compose_ok h
    intro t ht
    simp only [List.mem_append, List.mem_singleton] at ht
    rcases ht with ht | ht
    · exact hi t ht
    · subst ht
      obtain ⟨s, t', ha, hb, hl⟩ := composeCell_fam hc
      obtain ⟨r', hr', _, _, hdet⟩ := compose_closed_sound dir s t'
        (hg.2 s (List.mem_of_getElem? ha)) (hg.2 t' (List.mem_of_getElem? hb))
      rw [hl] at hr'; cases hr'
      exact hdet (hi s (List.mem_of_getElem? ha)) (hi t' (List.mem_of_getElem? hb))
  | inplace dir a b =>
    obtain ⟨c, hc, rfl, _⟩ := step_inplace_ok h
    intro t ht
    rcases List.mem_or_eq_of_mem_set ht with ht | ht
    · exact hi t ht
    · rcases inplaceCell_cases hc with ⟨s, t', ha, hb, hacc, rfl⟩ | ⟨ms, ha, rfl⟩
      · cases ht
        exact det_rawCompose dir (hi s (List.mem_of_getElem? ha)) (hi t' (List.mem_of_getElem? hb))
      · cases ht

theorem stepKeep_good (st : Store d) (hg : Good st) (s : Stmt) : Good (stepKeep E st s) := by
  unfold stepKeep
  cases h : step E st s with
  | error e => exact hg
  | ok p => exact step_good st p.1 hg s p.2 h

theorem stepKeep_invertible (st : Store d) (hg : Good st) (hi : AllInvertible st) (s : Stmt) :
    AllInvertible (stepKeep E st s) := by
  unfold stepKeep
  cases h : step E st s with
  | error e => exact hi
  | ok p => exact step_invertible st p.1 hg hi s p.2 h

/-- PROPERTY (honesty along every program): starting from honest, invertible objects, after *any*
finite sequence of compose calls (left/right, in-place or not, accepted or refused) every family
object in the store — operands, results of non-in-place calls, receivers of in-place calls —
still really is of the class it reports, and is invertible; no reference dangles. -/
theorem prog_honest (st : Store d) (hg : Good st) (hi : AllInvertible st) (ss : List Stmt) :
    Good (runStmts E st ss) ∧ AllInvertible (runStmts E st ss) := by
  induction ss generalizing st with
  | nil => exact ⟨hg, hi⟩
  | cons s ss ih =>
    simp only [runStmts, List.foldl_cons]
    exact ih (stepKeep E st s) (stepKeep_good st hg s) (stepKeep_invertible st hg hi s)

/-- what each statement guarantees in the state in which it is executed -/
def StepLaw (st : Store d) : Stmt → Prop
  | .compose dir a b => ∀ st' r, step E st (.compose dir a b) = .ok (st', some r) →
      (∀ i, i < st.length → st'[i]? = st[i]?) ∧
      (∀ f i, i < st.length → flat st' f i = flat st f i) ∧
      ∀ f l1 l2, flat st f (firstOf dir a b) = some l1 → flat st f (secondOf dir a b) = some l2 →
        ∃ lr, flat st' (f + 1) r = some lr ∧ SeqLaw l1 l2 lr
  | .inplace dir a b => ∀ st' r, step E st (.inplace dir a b) = .ok (st', r) →
      (∀ i, i ≠ a → st'[i]? = st[i]?) ∧
      ((∃ s t s', st[a]? = some (.fam s) ∧ st[b]? = some (.fam t) ∧ st'[a]? = some (.fam s') ∧
          s'.cls = s.cls ∧
          ∀ x y z, applyHT E (match dir with | .before => s | .after => t) x = some y →
            applyHT E (match dir with | .before => t | .after => s) y = some z →
            applyHT E s' x = some z) ∨
       (∃ ms, st[a]? = some (.chain ms) ∧ st'[a]? = some (.chain (chainAdd dir ms b)) ∧
          ∀ f la lb, (∀ m ∈ chainAdd dir ms b, reaches st f m a = false) →
            flat st (f + 1) a = some la → flat st f b = some lb →
            flat st' (f + 1) a = some (match dir with | .before => la ++ lb | .after => lb ++ la)))

theorem step_law (st : Store d) (hg : Good st) (s : Stmt) : StepLaw st s := by
  cases s with
  | compose dir a b =>
    intro st' r h
    obtain ⟨_, h2, h3⟩ := compose_frame st st' dir a b (some r) h
    exact ⟨h2, h3 hg.1, step_compose_law st st' hg dir a b r h⟩
  | inplace dir a b =>
    intro st' r h
    obtain ⟨_, _, hfr⟩ := inplace_frame st st' dir a b r h
    refine ⟨hfr, ?_⟩
    obtain ⟨c, hc, rfl, _⟩ := step_inplace_ok h
    obtain ⟨hla, hlb⟩ := inplaceCell_refs hc
    rcases inplaceCell_cases hc with ⟨s, t, ha, hb, hacc, rfl⟩ | ⟨ms, ha, rfl⟩
    · left
      obtain ⟨_, _, lb, la⟩ := inplace_law dir s t (hg.2 s (List.mem_of_getElem? ha))
        (hg.2 t (List.mem_of_getElem? hb)) hacc
      refine ⟨s, t, _, ha, hb, List.getElem?_set_self hla, rfl, ?_⟩
      cases dir
      · exact lb rfl
      · exact la rfl
    · right
      exact ⟨ms, ha, List.getElem?_set_self hla, (inplace_chain_law st dir a b ms ha hlb).2⟩

theorem runStmts_append (st : Store d) (p q : List Stmt) :
    runStmts E st (p ++ q) = runStmts E (runStmts E st p) q := by
  simp [runStmts, List.foldl_append]

/-- PROPERTY (`prog_denotation`, induction over programs): in every finite program of compose
calls — left/right, in-place or not, on family members, chains and opaque transforms alike — run
from honest objects, *each* call obeys its law in the state in which it is executed: the result of
a non-in-place call denotes the sequential composition of what its operands denote at that
moment and all existing objects are untouched; an accepted in-place call changes only its
receiver, which then denotes the prescribed composition. -/
theorem prog_denotation (st : Store d) (hg : Good st) (pre : List Stmt) (s : Stmt) (post : List Stmt) :
    Good (runStmts E st pre) ∧ StepLaw (runStmts E st pre) s ∧
    runStmts E st (pre ++ s :: post) = runStmts E (stepKeep E (runStmts E st pre) s) post := by
  have hgood : ∀ (ss : List Stmt) (st : Store d), Good st → Good (runStmts E st ss) := by
    intro ss
    induction ss with
    | nil => intro st h; exact h
    | cons s ss ih => intro st h; exact ih _ (stepKeep_good st h s)
  refine ⟨hgood pre st hg, step_law _ (hgood pre st hg) s, ?_⟩
  rw [runStmts_append]; rfl

/-! ## decomposition -/

theorem mkAffine_mul (L1 L2 : Mat d) (t1 t2 : Vec d) :
    Mat.mul (mkAffine L1 t1) (mkAffine L2 t2)
      = mkAffine (Mat.mul L1 L2) ⟨fun i => (∑ k, L1 i k * t2 k) + t1 i⟩ := by
  apply affine_ext (isAffine_mul (isAffine_mkAffine _ _) (isAffine_mkAffine _ _)) (isAffine_mkAffine _ _)
  · rw [lin_mul (isAffine_mkAffine _ _)]; simp
  · rw [trans_mul (isAffine_mkAffine _ _)]; simp

theorem affApply_mul {A B : Mat (d + 1)} (hA : IsAffine A) (hB : IsAffine B) (x : Vec d) :
    affApply (Mat.mul A B) x = affApply A (affApply B x) := by
  have h := projApply_mul (projApply_affine hB x) (projApply_affine hA (affApply B x))
  rw [projApply_affine (isAffine_mul hA hB)] at h
  exact Option.some.inj h

/-- PROPERTY (decomposition recomposes): if the factors numpy's SVD returned satisfy their contract
`L = U · diag(s) · V`, then `Affine.decompose()` = `[Rotation V, Scale s, Rotation U, Translation t]`
(a) applied in order, as a `TransformChain` would, maps every point exactly as the affine transform
does, and (b) folded with `compose_before` gives back the very matrix. -/
theorem decompose_recomposes (M : Mat (d + 1)) (hM : IsAffine M) (U V : Mat d) (s : Vec d)
    (uniform : Bool) (hsvd : lin M = Mat.mul U (Mat.mul (diagMat s) V)) :
    (∀ env x, applyLeaves E env (decomposeLeaves U V s uniform (trans M)) x = some (affApply M x)) ∧
    Mat.mul (mkAffine (Mat.one d) (trans M))
      (Mat.mul (mkAffine U (zeroVec d)) (Mat.mul (mkAffine (diagMat s) (zeroVec d)) (mkAffine V (zeroVec d))))
      = M := by
  have hprod : Mat.mul (mkAffine (Mat.one d) (trans M))
      (Mat.mul (mkAffine U (zeroVec d)) (Mat.mul (mkAffine (diagMat s) (zeroVec d)) (mkAffine V (zeroVec d))))
      = M := by
    rw [mkAffine_mul, mkAffine_mul, mkAffine_mul]
    apply affine_ext (isAffine_mkAffine _ _) hM
    · rw [lin_mkAffine, hsvd]
      apply toM_inj; simp [toM_mul, toM_one]
    · rw [trans_mkAffine]; apply Vec.ext; intro i; simp [zeroVec]
  refine ⟨fun env x => ?_, hprod⟩
  have a1 := isAffine_mkAffine V (zeroVec d)
  have a2 := isAffine_mkAffine (diagMat s) (zeroVec d)
  have a3 := isAffine_mkAffine U (zeroVec d)
  have a4 := isAffine_mkAffine (Mat.one d) (trans M)
  have hrot : isSub E .Rotation .Affine = true := by decide
  have htr : isSub E .Translation .Affine = true := by decide
  have hsc : isSub E (if uniform then HCls.UniformScale else HCls.NonUniformScale) .Affine = true := by
    cases uniform <;> decide
  conv_rhs => rw [← hprod]
  rw [affApply_mul a4 (isAffine_mul a3 (isAffine_mul a2 a1)), affApply_mul a3 (isAffine_mul a2 a1),
    affApply_mul a2 a1]
  simp [decomposeLeaves, applyLeaves, applyLeaf, applyHT, hrot, htr, hsc]

/-! ## the class structure as coded before the repair: refutation by witness

`codedClassTable` differs from `expectedClassTable` only in `composes_inplace_with` of `Similarity`,
`Translation` and their alignment variants, which inherit `Affine`.  With that gate
(1) an accepted in-place call turns an honest `Translation` into an object that reports
    `Translation` but holds a shear, and
(2) a two-call program breaks the composition *law*: `AlignmentTranslation.as_non_alignment()`
    rebuilds the object from its translation component only, dropping the linear part the in-place
    call put there.
The theorems `inplace_law`, `prog_honest`, `prog_denotation` above are the repaired behaviour. -/

def wTrans : HT 2 := ⟨.Translation, mkAffine (Mat.one 2) (Vec.ofList 2 [1, 0])⟩
def wATrans : HT 2 := ⟨.AlignmentTranslation, mkAffine (Mat.one 2) (Vec.ofList 2 [1, 0])⟩
def wATrans2 : HT 2 := ⟨.AlignmentTranslation, mkAffine (Mat.one 2) (Vec.ofList 2 [0, 1])⟩
def wAffine : HT 2 := ⟨.Affine, mkAffine (Mat.ofList 2 [2, 0, 0, 1]) (zeroVec 2)⟩

theorem wTrans_inv (v : Vec 2) (c : HCls) (hc : baseOf c = .Translation) :
    Inv c (mkAffine (Mat.one 2) v) := by
  unfold Inv; rw [hc]
  exact ⟨isAffine_mkAffine _ _, by simp [linM, toM_one]⟩

theorem coded_inplace_breaks_honesty :
    Inv wTrans.cls wTrans.M ∧ Inv wAffine.cls wAffine.M ∧
    accepts codedClassTable (inplaceWith codedClassTable wTrans.cls) wAffine.cls = true ∧
    accepts E (inplaceWith E wTrans.cls) wAffine.cls = false ∧
    ¬ Inv wTrans.cls (rawCompose .before wTrans.M wAffine.M) := by
  refine ⟨wTrans_inv _ _ rfl, (isAffine_mkAffine _ _ : IsAffine wAffine.M), by decide, by decide, ?_⟩
  intro h
  have h2 := congrFun (congrFun h.2 0) 0
  have h3 : rawCompose Dir.before wTrans.M wAffine.M 0 0 = 2 := by decide +kernel
  simp only [linM, toM, Matrix.of_apply, lin, Matrix.one_apply_eq] at h2
  rw [show (Fin.castSucc (0 : Fin 2) : Fin 3) = 0 from rfl, h3] at h2
  norm_num at h2

/-- the store `[AlignmentTranslation(1,0), Affine diag(2,1), AlignmentTranslation(0,1)]` -/
def wStore : Store 2 := [.fam wATrans, .fam wAffine, .fam wATrans2]

/-- `a.compose_before_inplace(A)` (accepted by the coded gate) then `r = a.compose_before(b)` -/
def wProg : List Stmt := [.inplace .before 0 1, .compose .before 0 2]

def famAt (st : Store 2) (i : Nat) : Option (HT 2) :=
  match st[i]? with
  | some (.fam t) => some t
  | _ => none

theorem coded_program_breaks_law :
    let st' := runStmts codedClassTable wStore wProg
    -- what the law prescribes at the probe point (1, 1): b(a(x)) = (4, 2)
    ((famAt st' 0).bind fun a => (famAt st' 2).bind fun b =>
        ((applyHT codedClassTable a (Vec.ofList 2 [1, 1])).bind (applyHT codedClassTable b)).map Vec.toList)
      = some [4, 2] ∧
    -- what the returned object does: (3, 2)
    ((famAt st' 3).bind fun r => (applyHT codedClassTable r (Vec.ofList 2 [1, 1])).map Vec.toList)
      = some [3, 2] ∧
    -- with the repaired gate the in-place call is refused and the law holds: b(a(x)) = (2, 2)
    (let st'' := runStmts E wStore wProg
     ((famAt st'' 3).bind fun r => (applyHT E r (Vec.ofList 2 [1, 1])).map Vec.toList) = some [2, 2] ∧
     ((famAt st'' 0).bind fun a => (famAt st'' 2).bind fun b =>
        ((applyHT E a (Vec.ofList 2 [1, 1])).bind (applyHT E b)).map Vec.toList) = some [2, 2]) := by
  decide +kernel

/-! ## non-vacuity: the hypotheses are satisfiable on concrete non-trivial values -/

def exR : Mat 2 := Mat.ofList 2 [3/5, -4/5, 4/5, 3/5]
def exRot : HT 2 := ⟨.AlignmentRotation, mkAffine exR (zeroVec 2)⟩
def exTrans : HT 2 := ⟨.Translation, mkAffine (Mat.one 2) (Vec.ofList 2 [1, -2])⟩
def exHom : HT 2 := ⟨.Homogeneous, Mat.ofList 3 [1, 2, 0, 0, 1, 1, 1/4, 0, 1]⟩

theorem exRot_inv : Inv exRot.cls exRot.M := by
  refine ⟨isAffine_mkAffine _ _, by simp [exRot]; rfl, ?_⟩
  simp only [exRot, linM, lin_mkAffine]
  ext i j
  fin_cases i <;> fin_cases j <;>
    simp [Matrix.mul_apply, Fin.sum_univ_two, exR, Mat.ofList] <;> norm_num

theorem exTrans_inv : Inv exTrans.cls exTrans.M := wTrans_inv _ _ rfl
theorem exHom_inv : Inv exHom.cls exHom.M := trivial

/-- an alignment rotation composed before a translation: reported as `Similarity`, not as an
alignment, not as a chain; and the composite really maps `(1, 0)` to `(3/5 + 1, 4/5 − 2)` -/
example : (ladder E ladderFuel .before exRot exTrans).map (fun r => (r.cls, isAlign E r.cls))
    = some (.Similarity, false) := by decide +kernel
example : ((ladder E ladderFuel .before exRot exTrans).bind fun r =>
      (applyHT E r (Vec.ofList 2 [1, 0])).map Vec.toList) = some [8/5, -6/5] := by decide +kernel
/-- a projective operand: the law's hypotheses (non-zero denominators) hold at `(2, 1)` -/
example : ((applyHT E exHom (Vec.ofList 2 [2, 1])).bind (applyHT E exTrans)).map Vec.toList
      = some [11/3, -2/3] ∧
    ((ladder E ladderFuel .before exHom exTrans).bind fun r =>
      (applyHT E r (Vec.ofList 2 [2, 1])).map Vec.toList) = some [11/3, -2/3] := by decide +kernel

/-- a good store with a family member, a chain holding two references and an opaque leaf -/
def exStore : Store 2 := [.fam exRot, .fam exTrans, .leaf 0, .chain [0, 2], .fam exHom]

theorem exStore_good : Good exStore := by
  constructor
  · intro c hc
    simp only [exStore, List.mem_cons, List.not_mem_nil, or_false] at hc
    rcases hc with rfl | rfl | rfl | rfl | rfl <;> simp [WFCell, exStore]
  · intro t ht
    simp only [exStore, List.mem_cons, List.not_mem_nil, or_false, Cell.fam.injEq, reduceCtorEq,
      false_or] at ht
    rcases ht with rfl | rfl | rfl
    · exact exRot_inv
    · exact exTrans_inv
    · exact exHom_inv

/-- `prog_denotation` applies to it; e.g. chain.compose_before(translation) then an in-place
append: the statements succeed and the in-place gate refuses Rotation ← Translation -/
example : (step E exStore (.compose .before 3 1)).toOption.map (fun p => (p.1.length, p.2))
    = some (6, some 5) := by decide +kernel
example : (step E exStore (.inplace .before 0 1)).toOption.isNone = true := by decide +kernel
example : (step E exStore (.inplace .after 3 4)).toOption.isSome = true := by decide +kernel
example : reaches exStore 3 4 3 = false := by decide +kernel

end MenpoModel.C03
