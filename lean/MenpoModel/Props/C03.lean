/-
C03 — composition obeys its law, is closed and type-sound, leaves operands intact.

Umbrella of the C03 property theorems:
* `Props/C03Base.lean`     law, closure, honesty, frame, programs, dimensions, decomposition, method resolution
* `Props/C03Algebra.lean`  the class algebra: the reported class is the join (least upper bound) of the operand
                           classes; associativity, commutativity, idempotence, alignment stripping; expression
                           trees of compose calls of unbounded size over all kinds of operands
* `Props/C03Slices.lean`   `WithDims` in every spelling numpy accepts (negative indices, slices, a single integer)
* `Props/C03Apply.lean`    `TransformChain._apply` as coded (nested `reduce`) = application of the flattened leaves
* `Props/C03Ctor.lean`     the constructors (which arguments they refuse, what they guarantee and what they do not),
                           `init_identity` is neutral, the constructor calls inside the ladder / `as_non_alignment`
* `Props/C03Dtype.lean`    integer-typed and single-precision `h_matrix` operands: the law under numpy's promotion,
                           the refutation of casting back to the receiver's dtype
-/
import MenpoModel.Props.C03Base
import MenpoModel.Props.C03Algebra
import MenpoModel.Props.C03Slices
import MenpoModel.Props.C03Apply
import MenpoModel.Props.C03Ctor
import MenpoModel.Props.C03Dtype
