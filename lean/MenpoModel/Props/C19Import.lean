/-
C19 — the lazy lists menpo builds itself: `init_from_iterable`, `init_from_index_callable` and the
glob importers (`_import_glob_lazy_list` behind `import_images / import_landmark_files / import_pickles /
import_videos`, shuffle off).  Core Lean only.

(i)   length = number of matched paths (after the `max_assets` window);
(ii)  element `i` is the importer of path `i` — chosen by the longest known extension — applied to path `i`,
      then (images) the landmark resolver; nothing is imported at construction, and a read imports exactly
      that one path, once per read;
(iii) because `glob` and `iter` are constructors of `Prog`, every theorem about programs (refinement to
      ordinary lists with provenance, reads, iteration, receivers) covers slicing / map / repeat / + over them.
-/
import MenpoModel.Props.C19Reads

namespace MenpoModel.LazyList
open MenpoModel.PyData

/-! ### the suffix filter and the importer choice -/

/-- a path that passes the glob filter always finds its importer (`importer_for_filepath` cannot raise on it),
and the importer is the one of the FIRST (longest) possible extension that is known -/
theorem importKind_of_extOk (known : List Nat) (f : FileEnt) (h : extOk known f = true) :
    ∃ k, importKind known f = some k ∧ k ∈ f.exts ∧ k ∈ known := by
  unfold extOk at h
  unfold importKind
  cases hf : f.exts.find? (known.contains ·) with
  | none =>
    rw [List.find?_eq_none] at hf
    rw [List.any_eq_true] at h
    obtain ⟨x, hx, hk⟩ := h
    exact absurd hk (hf x hx)
  | some k =>
    have h1 := List.find?_some hf
    have h2 := List.mem_of_find?_eq_some hf
    exact ⟨k, rfl, h2, by simpa using h1⟩

theorem importKind_first (known : List Nat) (f : FileEnt) (k : Nat) (h : importKind known f = some k) :
    ∃ pre post, f.exts = pre ++ k :: post ∧ ∀ x ∈ pre, x ∉ known := by
  unfold importKind at h
  obtain ⟨_, pre, post, h1, h2⟩ := List.find?_eq_some_iff_append.mp h
  exact ⟨pre, post, h1, fun x hx => by simpa using h2 x hx⟩

/-- PROPERTY: the matched paths are a sub-listing of the sorted listing (order kept, nothing invented) and
consist exactly of the paths that have an importer -/
theorem globWithSuffix_spec (known : List Nat) (files : List FileEnt) :
    (globWithSuffix known files).Sublist files ∧
    ∀ f, f ∈ globWithSuffix known files ↔ f ∈ files ∧ extOk known f = true := by
  unfold globWithSuffix
  exact ⟨List.filter_sublist, fun f => List.mem_filter⟩

/-! ### `_import_glob_lazy_list` -/

/-- PROPERTY: the importer list is refused (ValueError) exactly when `max_assets` is given and not positive,
or when no path has an importer -/
theorem glob_refused_iff (known : List Nat) (files : List FileEnt) (max : Option Int) :
    globPaths known files max = none ↔
      (∃ m, max = some m ∧ m ≤ 0) ∨ globWithSuffix known files = [] := by
  unfold globPaths capAssets
  cases max with
  | none =>
    cases hg : globWithSuffix known files with
    | nil => simp
    | cons a l => simp
  | some m =>
    by_cases hm : m ≤ 0
    · simp [hm]
    · have hpos : 0 < m.toNat := by omega
      cases hg : globWithSuffix known files with
      | nil => simp [hm]
      | cons a l =>
        obtain ⟨k, hk⟩ : ∃ k, m.toNat = k + 1 := ⟨m.toNat - 1, by omega⟩
        simp [hm, hk]

/-- PROPERTY (i)+(ii): when accepted, the wrapped paths are the first `max_assets` matched paths (all of them
for `None`), in listing order -/
theorem glob_paths_eq (known : List Nat) (files : List FileEnt) (max : Option Int) (fp : List FileEnt)
    (h : globPaths known files max = some fp) :
    fp = match max with
      | none => globWithSuffix known files
      | some m => (globWithSuffix known files).take m.toNat := by
  unfold globPaths capAssets at h
  cases max with
  | none =>
    simp only at h
    split at h
    · cases h
    · simpa using h.symm
  | some m =>
    simp only at h
    by_cases hm : m ≤ 0
    · simp [hm] at h
    · simp only [hm, if_false] at h
      split at h
      · cases h
      · simpa using h.symm

/-- PROPERTY (i): the length of an importer list is the number of matched paths, capped by `max_assets` -/
theorem glob_length (r : Option Nat) (known : List Nat) (files : List FileEnt) (max : Option Int)
    (ts : List LThunk) (h : (Prog.glob r known files max).lazy = .ok ts) :
    ts.length = match max with
      | none => (files.filter (extOk known)).length
      | some m => min m.toNat (files.filter (extOk known)).length := by
  simp only [Prog.lazy] at h
  cases hg : globPaths known files max with
  | none => simp [hg, optE, mapE] at h
  | some fp =>
    simp only [hg, optE, mapE, Except.ok.injEq] at h
    subst h
    have := glob_paths_eq known files max fp hg
    cases max with
    | none => simp only at this; subst this; simp [globWithSuffix]
    | some m => simp only at this; subst this; simp [globWithSuffix, List.length_take]

/-- what one importer callable does when called: the importer of the path's extension on the path, then the
landmark resolver on the imported object — one log entry each -/
theorem importThunk_evalLog (e : Env) (known : List Nat) (r : Option Nat) (f : FileEnt) :
    (importThunk known r f).evalLog e =
      let k := (importKind known f).getD 0
      match r with
      | none => (e.baseVal k f.id, [.acc k f.id])
      | some g => (e.fn g (e.baseVal k f.id), [.acc k f.id, .call g (e.baseVal k f.id)]) := by
  cases r <;> simp [importThunk, LThunk.evalLog]

/-- PROPERTY (ii): element `i` of the importer list is the callable of the `i`-th matched path; reading it
imports that path and no other, and the resolver is called once, after the import -/
theorem glob_read (e : Env) (r : Option Nat) (known : List Nat) (files : List FileEnt) (max : Option Int)
    (ts : List LThunk) (h : (Prog.glob r known files max).lazy = .ok ts) (i : Nat) (hi : i < ts.length) :
    ∃ f, (globWithSuffix known files)[i]? = some f ∧
      readAt e ts (i : Int) = (.ok ((importThunk known r f).evalLog e).1, ((importThunk known r f).evalLog e).2) := by
  simp only [Prog.lazy] at h
  cases hg : globPaths known files max with
  | none => simp [hg, optE, mapE] at h
  | some fp =>
    simp only [hg, optE, mapE, Except.ok.injEq] at h
    subst h
    have hfp := glob_paths_eq known files max fp hg
    have hi' : i < fp.length := by simpa using hi
    refine ⟨fp[i], ?_, ?_⟩
    · cases max with
      | none => simp only at hfp; subst hfp; exact List.getElem?_eq_getElem hi'
      | some m =>
        simp only at hfp
        have : fp[i]? = ((globWithSuffix known files).take m.toNat)[i]? := by rw [← hfp]
        rw [List.getElem?_eq_getElem hi'] at this
        rw [this, List.getElem?_take]
        have : i < m.toNat := by
          have hl : fp.length ≤ m.toNat := by rw [hfp, List.length_take]; omega
          omega
        simp [this]
    · rw [readAt_nat]
      simp [List.getElem?_eq_getElem hi']

/-- PROPERTY (generators): consuming `k` items of `(a for a in lazy_list)` imports exactly the first `k`
wrapped paths, in order, once each -/
theorem glob_generator_prefix (e : Env) (r : Option Nat) (known : List Nat) (files : List FileEnt)
    (max : Option Int) (fp : List FileEnt) (h : globPaths known files max = some fp) (k : Nat) :
    mapE (fun ts => iterFrom e ts 0 k) (Prog.glob r known files max).lazy
      = .ok (((fp.take k).map (importThunk known r)).map (LThunk.eval e),
             logsOf e ((fp.take k).map (importThunk known r))) := by
  simp only [Prog.lazy, h, optE, mapE, iter_prefix, List.map_take]

/-! ### `init_from_iterable` -/

/-- PROPERTY: `init_from_iterable(xs, f)` has one element per item; reading element `i` calls `f` on item `i`
(once, and on no other item); with `f = None` a read evaluates nothing observable -/
theorem iter_spec (e : Env) (f : Option Nat) (vs : List Int) :
    (Prog.iter f vs).refLog e = .ok (vs.map fun x => match f with
      | none => (x, [])
      | some g => (e.fn g x, [.call g x])) := by
  cases f <;> simp [Prog.refLog, stepLog]

theorem iter_length (f : Option Nat) (vs : List Int) :
    mapE List.length (Prog.iter f vs).lazy = .ok vs.length := by
  simp [Prog.lazy, mapE]

/-! ### `import_video` frame lists -/

/-- PROPERTY: a frame list has one element per frame; reading frame `j` decodes frame `j` only and then calls
the landmark resolver of frame `j` only, once, on that frame -/
theorem videoFrames_refLog (e : Env) (b n : Nat) (r0 : Option Nat) :
    (videoFrames b n r0).refLog e = .ok ((List.range n).map fun j =>
      match r0 with
      | none => (e.baseVal b j, [.acc b j])
      | some r => (e.fn (r + j) (e.baseVal b j), [.acc b j, .call (r + j) (e.baseVal b j)])) := by
  cases r0 with
  | none => simp [videoFrames, Prog.refLog]
  | some r =>
    simp only [videoFrames, Prog.refLog, bindE, List.length_map, if_true, List.zipWith_map, List.zipWith_self]
    simp [stepLog]

theorem videoFrames_lazy (b n : Nat) (r0 : Option Nat) :
    mapE List.length (videoFrames b n r0).lazy = .ok n := by
  cases r0 <;> simp [videoFrames, Prog.lazy, mapE, bindE]

/-- every entry of the provenance reference of any program is the evaluation of one chain of callables: its log
has one entry per dependency (at most one base access, one call per mapped function) -/
theorem refLog_entry_chain (e : Env) (p : Prog) (xs : List (Int × List Ev)) (h : p.refLog e = .ok xs) :
    ∀ x ∈ xs, ∃ t : LThunk, x = t.evalLog e ∧ x.2.length = t.baseOf.toList.length + t.fns.length := by
  rw [← lazy_refines_listLog] at h
  cases hl : p.lazy with
  | error er => rw [hl] at h; simp [mapE] at h
  | ok ts =>
    rw [hl] at h
    simp only [mapE, Except.ok.injEq] at h
    subst h
    intro x hx
    obtain ⟨t, _, rfl⟩ := List.mem_map.mp hx
    exact ⟨t, rfl, read_log_length e t⟩

/-! ### non-vacuity -/

example : (videoFrames 10 2 (some 100)).refLog env0
    = .ok [(102 * 1000 + 1, [.acc 10 0, .call 100 1000]), (103 * 1001 + 1, [.acc 10 1, .call 101 1001])] := by rfl


def files0 : List FileEnt := [⟨0, [9, 7]⟩, ⟨1, [3]⟩, ⟨2, [8]⟩, ⟨3, [7]⟩, ⟨4, []⟩]

example : globPaths [7, 8] files0 (some 2) = some [⟨0, [9, 7]⟩, ⟨2, [8]⟩] := by decide
example : globPaths [7, 8] files0 none = some [⟨0, [9, 7]⟩, ⟨2, [8]⟩, ⟨3, [7]⟩] := by decide
example : globPaths [7, 8] files0 (some 0) = none := by decide
example : globPaths [5] files0 none = none := by decide
example : (Prog.glob (some 2) [7, 8] files0 (some 2)).lazy
    = .ok [.app 2 (.base 7 0), .app 2 (.base 8 2)] := by rfl
example : importKind [7, 9] ⟨0, [9, 7]⟩ = some 9 := by decide

end MenpoModel.LazyList
