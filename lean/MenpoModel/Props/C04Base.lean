/-
C04 — pseudoinverse really inverts; alignment inverses swap source and target: the inverse of ONE object
(`Props/C04.lean` is the umbrella; histories are in `Props/C04Ops.lean`, the triangulation certificate in
`Props/C04Mesh.lean`, the spline solve in `Props/C04Tps.lean`).

Property theorems (marked PROPERTY) over the executable models `Core/C04Homog.lean`, `Core/C04Warp.lean`.

  homogeneous family (any dimension d ≥ 1; menpo uses d = 2, 3)
    inv_two_sided, inv_contract_unique      the modelled `np.linalg.inv` is the two-sided inverse, and the only matrix
                                            meeting the library contract `A · B = 1`
    applyH_left_inverse (Lemmas)            a left-inverse matrix undoes `apply` on every point of the domain
    pinvH_sound                             every class: `pseudoinverse()` computes the inverse matrix and the result is an
                                            honest member of the same class (closed forms included)
    pinv_sound          PROPERTY            object level: same class, inverse matrix, honest, source/target exchanged,
                                            undoes `apply` from both sides on every point of either domain
    rotation_inverse_orientation            the inverse of a proper rotation is proper (determinant kept)
    tcoords_roundtrip   PROPERTY            image_coords_to_tcoords / tcoords_to_image_coords are mutually inverse
  piecewise affine
    pwa_pinv_left / pwa_pinv_right  PROPERTY   two-sided round trip on the whole source / target domain
    mesh_pinv, mesh_pinv_ends       PROPERTY   the inverse is the PWA on (target points, same trilist) → source points
    pwa_pinv_landmarks              PROPERTY   every target landmark of a triangle returns to its source landmark
    pwa_edge_continuity                        pieces of triangles sharing an edge agree on it (what `TargetConsistent` asks)
  thin plate splines
    tps_interpolates                PROPERTY   kernel centred on the source points ⇒ the fitted spline hits every target
    tps_pinvFixed_reverse_fit       PROPERTY   the repaired inverse is the reverse fit and returns every landmark
    tps_pinvCoded_refuted                      the inverse AS CODED (kernel re-used) is not: witness (DESIGN §7 #1)
-/
import MenpoModel.Lemmas.C04Affine
import MenpoModel.Lemmas.C04Warp
import Mathlib.LinearAlgebra.Matrix.Notation
import Mathlib.Tactic.FinCases

set_option linter.unusedSimpArgs false

namespace MenpoModel.C04
open Matrix

variable {d : ℕ}

/-! ## homogeneous family -/

theorem inv_two_sided {n : ℕ} {A B : Mat n} (h : inv A = some B) :
    toM A * toM B = 1 ∧ toM B * toM A = 1 := by
  by_cases hd : (toM A).det = 0
  · rw [inv_eq_none A hd] at h; cases h
  · rw [inv_eq_some A hd] at h
    have hB := Option.some.inj h
    have hu : IsUnit (toM A).det := isUnit_iff_ne_zero.mpr hd
    rw [← hB]
    exact ⟨by simp [Matrix.mul_nonsing_inv _ hu], by simp [Matrix.nonsing_inv_mul _ hu]⟩

theorem inv_contract_unique {n : ℕ} {A B : Mat n} (h : toM A * toM B = 1) : inv A = some B := by
  have hd : (toM A).det ≠ 0 := Matrix.det_ne_zero_of_right_inverse h
  rw [inv_eq_some A hd, Matrix.inv_eq_right_inv h]; rfl

theorem inv_isSome_iff {n : ℕ} (A : Mat n) : (inv A).isSome ↔ det n A ≠ 0 := by
  unfold inv; split <;> simp_all

theorem applyH_affine_isSome {H : Mat (d + 1)} (h : IsAffineM H) (x : Vec d) : (applyH H x).isSome := by
  unfold applyH
  have : H.mulVec (hom x) (Fin.last d) = 1 := by
    rw [mulVec_eq, Matrix.mulVec, dotProduct, Fin.sum_univ_castSucc]
    simp [h.1, h.2]
  simp [this]

theorem tcoords_det (h w : ℚ) : (toM (tcoordsToImage h w)).det = (h - 1) * (w - 1) := by
  rw [Matrix.det_fin_three]
  simp [tcoordsToImage, Mat.mul, sumFin, List.finRange, List.ofFn, m3, ofAffine, diagM, Fin.foldr_succ_last]
  ring

theorem toM_diagM (v : Vec d) : toM (diagM v) = Matrix.diagonal v := by
  ext i j; simp [diagM, Matrix.diagonal_apply]

theorem similarity_inverse {L : Matrix (Fin d) (Fin d) ℚ} {k : ℚ} (hk : k ≠ 0) (h : L * Lᵀ = k • 1) :
    L⁻¹ = k⁻¹ • Lᵀ ∧ L⁻¹ * L⁻¹ᵀ = k⁻¹ • 1 := by
  have h1 : L * (k⁻¹ • Lᵀ) = 1 := by
    rw [Matrix.mul_smul, h, smul_smul, inv_mul_cancel₀ hk, one_smul]
  have hinv : L⁻¹ = k⁻¹ • Lᵀ := Matrix.inv_eq_right_inv h1
  have hu : IsUnit L.det := isUnit_iff_ne_zero.mpr (Matrix.det_ne_zero_of_right_inverse h1)
  have h2 : (k⁻¹ • Lᵀ) * L = 1 := by rw [← hinv]; exact Matrix.nonsing_inv_mul _ hu
  have h3 : Lᵀ * L = k • 1 := by
    have := congrArg (fun M => k • M) h2
    simp only [Matrix.smul_mul, smul_smul, mul_inv_cancel₀ hk, one_smul] at this
    exact this
  refine ⟨hinv, ?_⟩
  rw [hinv, Matrix.transpose_smul, Matrix.transpose_transpose, Matrix.smul_mul, Matrix.mul_smul, h3,
    smul_smul, smul_smul, mul_assoc, inv_mul_cancel₀ hk, mul_one]

/-- class invariants: what it means for a matrix to be an honest member of each family class -/
def Honest : Cls → Mat (d + 1) → Prop
  | .homogeneous, _ => True
  | .affine, H | .alignmentAffine, H => IsAffineM H
  | .similarity, H | .alignmentSimilarity, H =>
      IsAffineM H ∧ ∃ k : ℚ, 0 < k ∧ toM (linPart H) * (toM (linPart H))ᵀ = k • 1
  | .rotation, H | .alignmentRotation, H =>
      IsAffineM H ∧ toM (linPart H) * (toM (linPart H))ᵀ = 1 ∧ transPart H = fun _ => 0
  | .translation, H | .alignmentTranslation, H => IsAffineM H ∧ linPart H = Mat.one
  | .uniformScale, H | .alignmentUniformScale, H =>
      IsAffineM H ∧ (transPart H = fun _ => 0) ∧ ∃ s : ℚ, s ≠ 0 ∧ linPart H = diagM fun _ => s
  | .nonUniformScale, H =>
      IsAffineM H ∧ (transPart H = fun _ => 0) ∧ ∃ v : Vec d, (∀ i, v i ≠ 0) ∧ linPart H = diagM v

theorem mulVec_zero' (M : Matrix (Fin d) (Fin d) ℚ) : M *ᵥ (fun _ => (0 : ℚ)) = fun _ => 0 := by
  funext i; simp [Matrix.mulVec, dotProduct]

theorem neg_zero_fun : (-(fun _ : Fin d => (0 : ℚ))) = fun _ => 0 := by funext i; simp

/-- the matrix computed by `pseudoinverse()` is the inverse matrix, and it is an honest member
of the same class -/
theorem pinvH_sound (hd : 0 < d) (c : Cls) (H : Mat (d + 1)) (hh : Honest c H)
    (hdet : (toM H).det ≠ 0) :
    ∃ B, pinvH c H = some B ∧ toM B = (toM H)⁻¹ ∧ Honest c B := by
  have generic : ∀ c' : Cls, Honest c' (ofM (toM H)⁻¹) → pinvH c' H = inv H →
      ∃ B, pinvH c' H = some B ∧ toM B = (toM H)⁻¹ ∧ Honest c' B := by
    intro c' h1 h2
    exact ⟨ofM (toM H)⁻¹, by rw [h2, inv_eq_some H hdet], by simp, h1⟩
  have hu : IsUnit (toM H).det := isUnit_iff_ne_zero.mpr hdet
  have hHB : toM H * toM (ofM (toM H)⁻¹) = 1 := by simp [Matrix.mul_nonsing_inv _ hu]
  -- facts for affine classes
  have aff : IsAffineM H → IsAffineM (ofM (toM H)⁻¹) ∧
      linPart (ofM (toM H)⁻¹) = ofM (toM (linPart H))⁻¹ ∧
      transPart (ofM (toM H)⁻¹) = -((toM (linPart H))⁻¹ *ᵥ transPart H) := by
    intro ha
    obtain ⟨_, e⟩ := affine_inverse ha hdet
    have e' : ofM (toM H)⁻¹ = ofAffine (ofM (toM (linPart H))⁻¹) (-((toM (linPart H))⁻¹ *ᵥ transPart H)) := by
      rw [e]; rfl
    refine ⟨isAffineM_of_right_inverse ha hHB, ?_, ?_⟩
    · rw [e']; simp
    · rw [e']; simp
  cases c with
  | homogeneous => exact generic _ trivial rfl
  | affine => exact generic _ (aff hh).1 rfl
  | alignmentAffine => exact generic _ (aff hh).1 rfl
  | similarity =>
    obtain ⟨ha, k, hk, hL⟩ := hh
    obtain ⟨a1, a2, _⟩ := aff ha
    refine generic _ ⟨a1, k⁻¹, inv_pos.mpr hk, ?_⟩ rfl
    rw [a2]; exact (similarity_inverse hk.ne' hL).2
  | alignmentSimilarity =>
    obtain ⟨ha, k, hk, hL⟩ := hh
    obtain ⟨a1, a2, _⟩ := aff ha
    refine generic _ ⟨a1, k⁻¹, inv_pos.mpr hk, ?_⟩ rfl
    rw [a2]; exact (similarity_inverse hk.ne' hL).2
  | alignmentRotation =>
    obtain ⟨ha, hL, ht⟩ := hh
    obtain ⟨a1, a2, a3⟩ := aff ha
    have hL' : toM (linPart H) * (toM (linPart H))ᵀ = (1 : ℚ) • 1 := by simpa using hL
    refine generic _ ⟨a1, ?_, ?_⟩ rfl
    · rw [a2]; simpa using (similarity_inverse one_ne_zero hL').2
    · rw [a3, ht, mulVec_zero', neg_zero_fun]
  | rotation =>
    obtain ⟨ha, hL, ht⟩ := hh
    obtain ⟨a1, a2, a3⟩ := aff ha
    obtain ⟨hdL, e⟩ := affine_inverse ha hdet
    have hL' : toM (linPart H) * (toM (linPart H))ᵀ = (1 : ℚ) • 1 := by simpa using hL
    refine ⟨ofAffine (ofM (toM (linPart H))⁻¹) fun _ => 0, ?_, ?_, ?_⟩
    · simp [pinvH, pinvHBy, implOf, inv_eq_some _ hdL]
    · rw [e, ht, mulVec_zero', neg_zero_fun]
    · refine ⟨isAffineM_ofAffine _ _, ?_, by simp⟩
      simpa using (similarity_inverse one_ne_zero hL').2
  | translation =>
    obtain ⟨ha, hL⟩ := hh
    obtain ⟨hdL, e⟩ := affine_inverse ha hdet
    refine ⟨ofAffine Mat.one fun i => - transPart H i, rfl, ?_, isAffineM_ofAffine _ _, by simp⟩
    rw [e, hL, one_eq, inv_one, Matrix.one_mulVec]
    congr 1
  | alignmentTranslation =>
    obtain ⟨ha, hL⟩ := hh
    obtain ⟨a1, a2, _⟩ := aff ha
    refine generic _ ⟨a1, ?_⟩ rfl
    rw [a2, hL, one_eq, inv_one]
    funext i j; simp [Mat.one, Matrix.one_apply]
  | uniformScale =>
    obtain ⟨ha, ht, s, hs, hL⟩ := hh
    obtain ⟨hdL, e⟩ := affine_inverse ha hdet
    have h00 : H 0 0 = s := by
      have : (0 : Fin (d + 1)) = (⟨0, hd⟩ : Fin d).castSucc := by ext; simp
      have h1 := congrFun (congrFun hL ⟨0, hd⟩) ⟨0, hd⟩
      simp only [linPart, diagM, if_true] at h1
      rw [this]; exact h1
    have hinv : (toM (linPart H))⁻¹ = toM (diagM fun _ => 1 / s) := by
      apply Matrix.inv_eq_right_inv
      rw [hL, toM_diagM, toM_diagM, Matrix.diagonal_mul_diagonal]
      simp [hs]
    refine ⟨ofAffine (diagM fun _ => 1 / H 0 0) fun _ => 0, rfl, ?_, isAffineM_ofAffine _ _, by simp,
      1 / H 0 0, by rw [h00]; simp [hs], by simp⟩
    rw [e, ht, mulVec_zero', neg_zero_fun, hinv, h00]
    rfl
  | alignmentUniformScale =>
    obtain ⟨ha, ht, s, hs, hL⟩ := hh
    obtain ⟨a1, a2, a3⟩ := aff ha
    have hinv : (toM (linPart H))⁻¹ = toM (diagM fun _ => 1 / s) := by
      apply Matrix.inv_eq_right_inv
      rw [hL, toM_diagM, toM_diagM, Matrix.diagonal_mul_diagonal]
      simp [hs]
    refine generic _ ⟨a1, ?_, 1 / s, by simp [hs], ?_⟩ rfl
    · rw [a3, ht, mulVec_zero', neg_zero_fun]
    · rw [a2, hinv]; rfl
  | nonUniformScale =>
    obtain ⟨ha, ht, v, hv, hL⟩ := hh
    obtain ⟨hdL, e⟩ := affine_inverse ha hdet
    have hii : ∀ i : Fin d, H i.castSucc i.castSucc = v i := by
      intro i
      have h1 := congrFun (congrFun hL i) i
      simpa [linPart, diagM] using h1
    have hinv : (toM (linPart H))⁻¹ = toM (diagM fun i => 1 / v i) := by
      apply Matrix.inv_eq_right_inv
      rw [hL, toM_diagM, toM_diagM, Matrix.diagonal_mul_diagonal]
      have : (fun i => v i * (1 / v i)) = fun _ => (1 : ℚ) := by
        funext i; field_simp [hv i]
      rw [this, Matrix.diagonal_one]
    refine ⟨ofAffine (diagM fun i => 1 / H i.castSucc i.castSucc) fun _ => 0, rfl, ?_,
      isAffineM_ofAffine _ _, by simp, fun i => 1 / H i.castSucc i.castSucc, ?_, by simp⟩
    · rw [e, ht, mulVec_zero', neg_zero_fun, hinv]
      simp only [hii]
      rfl
    · intro i; simp only [hii]; simp [hv i]


/-- PROPERTY (homogeneous family, every class incl. alignments, every dimension d ≥ 1):
for an honest, non-singular member `t`, `t.pseudoinverse()` exists, has the same class, carries exactly the inverse
matrix, is itself an honest member of that class, has source and target exchanged, and undoes `t.apply` from both
sides on every point of the respective domain. -/
theorem pinv_sound {α : Type} (hd : 0 < d) (t : HT d α) (hh : Honest t.cls t.h) (hdet : (toM t.h).det ≠ 0) :
    ∃ u, pinv t = some u ∧ u.cls = t.cls ∧ toM u.h = (toM t.h)⁻¹ ∧ Honest u.cls u.h ∧
      u.ends = t.ends.map (fun e => (e.2, e.1)) ∧
      (∀ x y, t.apply x = some y → u.apply y = some x) ∧
      (∀ x y, u.apply y = some x → t.apply x = some y) := by
  obtain ⟨B, hB, hinv, hhon⟩ := pinvH_sound hd t.cls t.h hh hdet
  have hu : IsUnit (toM t.h).det := isUnit_iff_ne_zero.mpr hdet
  refine ⟨{ cls := t.cls, h := B, ends := t.ends.map fun e => (e.2, e.1) }, by simp [pinv, hB], rfl, hinv,
    hhon, rfl, ?_, ?_⟩
  · intro x y h
    exact applyH_left_inverse (H := t.h) (B := B) (by rw [hinv, Matrix.nonsing_inv_mul _ hu]) h
  · intro x y h
    exact applyH_left_inverse (H := B) (B := t.h) (by rw [hinv, Matrix.mul_nonsing_inv _ hu]) h

/-! ### what the inverse FORMULAS need: the structural zero pattern only

`Honest` is an exact invariant: a rotation matrix made of floats is orthogonal only up to rounding, a fitted alignment
carries 1e-17 in its bottom row, so the rational matrices the driver executes for `Rotation`, `Similarity` and the
alignments mostly do NOT satisfy it (the evidence counts how many do).  That the result of `pseudoinverse()` carries the
inverse matrix, exchanges the end points and undoes `apply` from both sides needs much less: nothing at all for the
classes that call `np.linalg.inv(h_matrix)`, and for the closed forms the zero pattern their constructors produce
exactly - which every float member has.  `pinv_sound` adds: an EXACT member has an exact member as its inverse. -/

/-- the structural part of the class invariants: what the coded closed forms read off the matrix -/
def Structural : Cls → Mat (d + 1) → Prop
  | .rotation, H => IsAffineM H ∧ transPart H = fun _ => 0
  | .translation, H => Honest .translation H
  | .uniformScale, H => Honest .uniformScale H
  | .nonUniformScale, H => Honest .nonUniformScale H
  | _, _ => True

theorem structural_of_honest (c : Cls) (H : Mat (d + 1)) (h : Honest c H) : Structural c H := by
  cases c <;> first | trivial | exact h | exact ⟨h.1, h.2.2⟩

theorem pinvH_inverts (hd : 0 < d) (c : Cls) (H : Mat (d + 1)) (hs : Structural c H) (hdet : (toM H).det ≠ 0) :
    ∃ B, pinvH c H = some B ∧ toM B = (toM H)⁻¹ := by
  have generic : ∀ c' : Cls, pinvH c' H = inv H → ∃ B, pinvH c' H = some B ∧ toM B = (toM H)⁻¹ := by
    intro c' h2
    exact ⟨ofM (toM H)⁻¹, by rw [h2, inv_eq_some H hdet], by simp⟩
  cases c with
  | rotation =>
    obtain ⟨ha, ht⟩ := hs
    obtain ⟨hdL, e⟩ := affine_inverse ha hdet
    refine ⟨ofAffine (ofM (toM (linPart H))⁻¹) fun _ => 0, ?_, ?_⟩
    · simp [pinvH, pinvHBy, implOf, inv_eq_some _ hdL]
    · rw [e, ht, mulVec_zero', neg_zero_fun]
  | translation => obtain ⟨B, h1, h2, _⟩ := pinvH_sound hd .translation H hs hdet; exact ⟨B, h1, h2⟩
  | uniformScale => obtain ⟨B, h1, h2, _⟩ := pinvH_sound hd .uniformScale H hs hdet; exact ⟨B, h1, h2⟩
  | nonUniformScale => obtain ⟨B, h1, h2, _⟩ := pinvH_sound hd .nonUniformScale H hs hdet; exact ⟨B, h1, h2⟩
  | homogeneous => exact generic _ rfl
  | affine => exact generic _ rfl
  | similarity => exact generic _ rfl
  | alignmentAffine => exact generic _ rfl
  | alignmentSimilarity => exact generic _ rfl
  | alignmentRotation => exact generic _ rfl
  | alignmentTranslation => exact generic _ rfl
  | alignmentUniformScale => exact generic _ rfl

/-- PROPERTY (homogeneous family, every class and dimension, NO exactness assumed): for a non-singular member with the
structural zero pattern of its class - every matrix of floats the code can hold - `pseudoinverse()` exists, has the same
class, carries exactly the inverse matrix, has source and target exchanged and undoes `apply` from both sides -/
theorem pinv_inverts {α : Type} (hd : 0 < d) (t : HT d α) (hs : Structural t.cls t.h) (hdet : (toM t.h).det ≠ 0) :
    ∃ u, pinv t = some u ∧ u.cls = t.cls ∧ toM u.h = (toM t.h)⁻¹ ∧
      u.ends = t.ends.map (fun e => (e.2, e.1)) ∧
      (∀ x y, t.apply x = some y → u.apply y = some x) ∧
      (∀ x y, u.apply y = some x → t.apply x = some y) := by
  obtain ⟨B, hB, hinv⟩ := pinvH_inverts hd t.cls t.h hs hdet
  have hu : IsUnit (toM t.h).det := isUnit_iff_ne_zero.mpr hdet
  refine ⟨{ cls := t.cls, h := B, ends := t.ends.map fun e => (e.2, e.1) }, by simp [pinv, hB], rfl, hinv, rfl, ?_, ?_⟩
  · intro x y h
    exact applyH_left_inverse (H := t.h) (B := B) (by rw [hinv, Matrix.nonsing_inv_mul _ hu]) h
  · intro x y h
    exact applyH_left_inverse (H := B) (B := t.h) (by rw [hinv, Matrix.mul_nonsing_inv _ hu]) h

/-- non-vacuity beyond `Honest`: a "rotation" whose entries are rounded (3/5, 4/5 perturbed: not orthogonal) is
structural, is NOT an exact member, and `pinv_inverts` applies to it -/
example : Structural (d := 2) .rotation (m3 (3/5) (-4/5) 0 (4/5) (601/1000) 0 0 0 1) ∧
    ¬ Honest (d := 2) .rotation (m3 (3/5) (-4/5) 0 (4/5) (601/1000) 0 0 0 1) := by
  refine ⟨⟨⟨fun j => ?_, by simp [m3]⟩, ?_⟩, ?_⟩
  · fin_cases j <;> simp [m3]
  · funext i; fin_cases i <;> simp [transPart, m3]
  · intro h
    have := congrFun (congrFun h.2.1 1) 1
    simp [linPart, m3, Matrix.mul_apply, Fin.sum_univ_two, Matrix.one_apply] at this
    norm_num at this

/-- an affine member is defined on every point, so the round trips above cover the whole space -/
theorem affine_total {α : Type} (t : HT d α) (h : IsAffineM t.h) (x : Vec d) : (t.apply x).isSome :=
  applyH_affine_isSome h x

/-- the inverse of a proper rotation is a proper rotation: orthogonality gives `det = ±1`, kept by inversion -/
theorem rotation_inverse_orientation {L : Matrix (Fin d) (Fin d) ℚ} (h : L * Lᵀ = 1) : L⁻¹.det = L.det := by
  have h1 : L.det * L.det = 1 := by
    have := congrArg Matrix.det h
    rwa [Matrix.det_mul, Matrix.det_transpose, Matrix.det_one] at this
  have hne : L.det ≠ 0 := by intro h0; rw [h0] at h1; simp at h1
  rw [Matrix.det_nonsing_inv, Ring.inverse_eq_inv']
  field_simp
  linarith [h1]

/-! ### tcoords.py -/

/-- PROPERTY (tcoords): for an image with more than one pixel along each axis the two conversions exist, are
`Homogeneous` inverses of each other, and undo each other on every point from both sides. -/
theorem tcoords_roundtrip (h w : ℚ) (hh : h ≠ 1) (hw : w ≠ 1) :
    ∃ B, imageToTcoords h w = some B ∧ toM B = (toM (tcoordsToImage h w))⁻¹ ∧
      (∀ p q, applyH (tcoordsToImage h w) p = some q → applyH B q = some p) ∧
      (∀ p q, applyH B q = some p → applyH (tcoordsToImage h w) p = some q) := by
  have hdet : (toM (tcoordsToImage h w)).det ≠ 0 := by
    rw [tcoords_det]; exact mul_ne_zero (sub_ne_zero.mpr hh) (sub_ne_zero.mpr hw)
  obtain ⟨u, hu, _, hinv, _, _, l, r⟩ :=
    pinv_sound (α := Unit) (by decide : 0 < 2) ⟨.homogeneous, tcoordsToImage h w, none⟩ trivial hdet
  simp only [pinv, Option.map_eq_some_iff] at hu
  obtain ⟨B, hB, rfl⟩ := hu
  exact ⟨B, hB, hinv, l, r⟩

/-- what `tcoords_to_image_coords` does to a texture coordinate `(s, t)`: `((1 − t)(h − 1), s (w − 1))` -/
theorem tcoords_formula (h w s t : ℚ) :
    (applyH (tcoordsToImage h w) (fun i => if i.val = 0 then s else t)).map (fun v => (v 0, v 1))
      = some ((1 - t) * (h - 1), s * (w - 1)) := by
  simp [applyH, tcoordsToImage, Mat.mul, Mat.mulVec, sumFin, List.finRange, List.ofFn, m3, ofAffine, diagM, hom,
    Fin.foldr_succ_last]
  constructor <;> ring

/-! ### the hypotheses are satisfiable (non-vacuity) -/

/-- a 2-D similarity: rotation by 90°, scale 2, translation (1, 3) -/
def exSim : HT 2 String := ⟨.alignmentSimilarity, m3 0 (-2) 1 2 0 3 0 0 1, some ("source", "target")⟩

theorem exSim_honest : Honest exSim.cls exSim.h := by
  refine ⟨⟨fun j => ?_, by simp [exSim, m3]⟩, 4, by norm_num, ?_⟩
  · fin_cases j <;> simp [exSim, m3]
  · ext i j
    fin_cases i <;> fin_cases j <;>
      simp [exSim, m3, linPart, Matrix.mul_apply, Fin.sum_univ_two, Matrix.one_apply] <;> norm_num

theorem exSim_det : (toM exSim.h).det ≠ 0 := by
  rw [Matrix.det_fin_three]; simp [exSim, m3]

example : ∃ u, pinv exSim = some u ∧ u.cls = .alignmentSimilarity ∧ u.ends = some ("target", "source") ∧
    u.apply (fun i => if i.val = 0 then 1 else 5) = some (fun i => if i.val = 0 then 1 else 0) := by
  obtain ⟨u, h1, h2, _, _, h5, h6, _⟩ := pinv_sound (by decide) exSim exSim_honest exSim_det
  refine ⟨u, h1, h2, h5, h6 _ _ ?_⟩
  simp [HT.apply, applyH, exSim, Mat.mulVec, sumFin, List.finRange, List.ofFn, m3, hom, Fin.foldr_succ_last]
  funext i; fin_cases i <;> (simp [sumFin, List.finRange, List.ofFn, m3, hom, Fin.foldr_succ_last]; try norm_num)

/-- the closed forms, executed: inverse of a non-uniform 3-D scale and of a translation -/
example : (pinvH .nonUniformScale (ofAffine (d := 3) (diagM fun i => (i.val : ℚ) + 2) fun _ => 0)).map
    (fun B => [B 0 0, B 1 1, B 2 2, B 3 3, B 0 1]) = some [1/2, 1/3, 1/4, 1, 0] := by decide +kernel
example : (pinvH .translation (m3 1 0 5 0 1 (-7) 0 0 1)).map (fun B => [B 0 2, B 1 2, B 0 0]) = some [-5, 7, 1] := by
  decide +kernel
/-- a singular matrix has no pseudoinverse (`np.linalg.inv` raises) -/
example : (pinvH .homogeneous (m3 1 2 3 2 4 6 0 0 1)).isNone := by decide +kernel

/-! ## piecewise affine -/

/-- every triangle of the mesh, in source and in target, is non-degenerate -/
def NonDegenerate (m : PWA) : Prop := ∀ q ∈ m, q.1.cross ≠ 0 ∧ q.2.cross ≠ 0

/-- the target triangles form a proper mesh as far as the map is concerned: wherever two of them
overlap (for a triangulation: on shared edges and vertices) their inverse pieces agree -/
def TargetConsistent (m : PWA) : Prop :=
  ∀ q ∈ m, ∀ r ∈ m, ∀ y, q.2.contains y = true → r.2.contains y = true → piece q.2 q.1 y = piece r.2 r.1 y

theorem nonDegenerate_pinv {m : PWA} (h : NonDegenerate m) : NonDegenerate m.pinv := by
  intro q hq
  have := h _ (mem_pinv.mp hq)
  exact ⟨this.2, this.1⟩

/-- round trip on the whole source domain: whatever triangle `apply` used for `x` and whatever triangle the
inverse looks up for the image, the inverse returns `x` -/
theorem pwa_pinv_left {m : PWA} (hnd : NonDegenerate m) (hc : TargetConsistent m) {x y : P2}
    (h : m.apply x = some y) : m.pinv.apply y = some x := by
  unfold PWA.apply at h
  cases hl : m.lookup x with
  | none => rw [hl] at h; cases h
  | some q =>
    rw [hl] at h
    have hy : y = piece q.1 q.2 x := (Option.some.inj h).symm
    obtain ⟨hqm, hqc⟩ := lookup_some hl
    obtain ⟨hq1, hq2⟩ := hnd q hqm
    have hcy : q.2.contains y = true := by rw [hy, contains_piece _ _ hq2]; exact hqc
    have hqp : (q.2, q.1) ∈ m.pinv := mem_pinv.mpr (by simpa using hqm)
    obtain ⟨r, hr⟩ := lookup_exists (m := m.pinv) (q := (q.2, q.1)) hqp hcy
    obtain ⟨hrm, hrc⟩ := lookup_some hr
    unfold PWA.apply
    rw [hr]
    simp only [Option.map_some, Option.some.injEq]
    have hrm' : (r.2, r.1) ∈ m := mem_pinv.mp hrm
    have := hc (r.2, r.1) hrm' q hqm y (by simpa using hrc) hcy
    simp only at this
    rw [this, hy, piece_piece _ _ hq1 hq2]

/-- and from the other side, on the whole target domain -/
theorem pwa_pinv_right {m : PWA} (hnd : NonDegenerate m) (hc : TargetConsistent m.pinv) {x y : P2}
    (h : m.pinv.apply y = some x) : m.apply x = some y := by
  have := pwa_pinv_left (m := m.pinv) (nonDegenerate_pinv hnd) hc h
  rwa [pinv_pinv] at this

/-- mesh level: the inverse built by the code (same trilist on the target points) is the exchanged pair list -/
theorem mesh_pinv (m : PWAMesh) : m.pinv.toPWA = m.toPWA.pinv := by
  simp [PWAMesh.pinv, PWAMesh.toPWA, PWA.pinv, List.map_map, Function.comp_def]

/-- the inverse mesh has source and target exchanged and the same triangles -/
theorem mesh_pinv_ends (m : PWAMesh) :
    m.pinv.src = m.tgt ∧ m.pinv.tgt = m.src ∧ m.pinv.tris = m.tris := ⟨rfl, rfl, rfl⟩

/-- landmarks return: a target vertex of a triangle goes back to the source vertex -/
theorem piece_vertex_a (s t : Tri) (hs : s.cross ≠ 0) : piece s t s.a = t.a := by
  have : s.a = s.combo 0 0 := by apply P2.ext' <;> simp [Tri.combo]
  rw [piece_eq]; conv_lhs => rw [this, ab_combo s hs]
  apply P2.ext' <;> simp [Tri.combo]
theorem piece_vertex_b (s t : Tri) (hs : s.cross ≠ 0) : piece s t s.b = t.b := by
  have : s.b = s.combo 1 0 := by apply P2.ext' <;> simp [Tri.combo]
  rw [piece_eq]; conv_lhs => rw [this, ab_combo s hs]
  apply P2.ext' <;> simp [Tri.combo]
theorem piece_vertex_c (s t : Tri) (hs : s.cross ≠ 0) : piece s t s.c = t.c := by
  have : s.c = s.combo 0 1 := by apply P2.ext' <;> simp [Tri.combo]
  rw [piece_eq]; conv_lhs => rw [this, ab_combo s hs]
  apply P2.ext' <;> simp [Tri.combo]

/-- continuity across a shared edge: two triangle pairs that share an edge (here: `q`'s edge `a–b`
is `r`'s edge `b–a`, the orientation-consistent case) agree on every point of that edge -/
theorem pwa_edge_continuity (s t s' t' : Tri) (hs : s.cross ≠ 0) (hs' : s'.cross ≠ 0)
    (e1 : s'.a = s.b) (e2 : s'.b = s.a) (f1 : t'.a = t.b) (f2 : t'.b = t.a) (u : ℚ) :
    piece s t (s.combo u 0) = piece s' t' (s.combo u 0) := by
  have h2 : s.combo u 0 = s'.combo (1 - u) 0 := by
    apply P2.ext' <;> simp [Tri.combo, e1, e2] <;> ring
  rw [piece_eq, ab_combo s hs]
  conv_rhs => rw [h2, piece_eq, ab_combo s' hs']
  apply P2.ext' <;> simp [Tri.combo, f1, f2] <;> ring


/-! ### the hypotheses are satisfiable: a square split along its diagonal, sheared and stretched -/

def exMesh : PWAMesh :=
  ⟨[⟨0, 0⟩, ⟨1, 0⟩, ⟨1, 1⟩, ⟨0, 1⟩], [⟨0, 0⟩, ⟨2, 0⟩, ⟨3, 2⟩, ⟨0, 1⟩], [(0, 1, 2), (0, 2, 3)]⟩

theorem exMesh_nd : NonDegenerate exMesh.toPWA := by
  intro q hq
  simp [exMesh, PWAMesh.toPWA, triOf] at hq
  rcases hq with rfl | rfl <;> (constructor <;> norm_num [Tri.cross])

theorem exMesh_tc : TargetConsistent exMesh.toPWA := by
  intro q hq r hr y hqy hry
  simp [exMesh, PWAMesh.toPWA, triOf] at hq hr
  rcases hq with rfl | rfl <;> rcases hr with rfl | rfl
  · rfl
  · simp only [Tri.contains, Tri.ab, P2.dot, P2.sub_x, P2.sub_y, Bool.and_eq_true, decide_eq_true_eq] at hqy hry
    apply P2.ext' <;>
      simp only [piece, Tri.ab, P2.dot, P2.sub_x, P2.sub_y, P2.add_x, P2.add_y, P2.smul_x, P2.smul_y] <;>
      norm_num at hqy hry ⊢ <;> linarith [hqy.1.1, hqy.1.2, hqy.2, hry.1.1, hry.1.2, hry.2]
  · simp only [Tri.contains, Tri.ab, P2.dot, P2.sub_x, P2.sub_y, Bool.and_eq_true, decide_eq_true_eq] at hqy hry
    apply P2.ext' <;>
      simp only [piece, Tri.ab, P2.dot, P2.sub_x, P2.sub_y, P2.add_x, P2.add_y, P2.smul_x, P2.smul_y] <;>
      norm_num at hqy hry ⊢ <;> linarith [hqy.1.1, hqy.1.2, hqy.2, hry.1.1, hry.1.2, hry.2]
  · rfl

example : exMesh.toPWA.apply ⟨1/2, 1/4⟩ = some ⟨5/4, 1/2⟩ ∧
    exMesh.pinv.toPWA.apply ⟨5/4, 1/2⟩ = some ⟨1/2, 1/4⟩ := by
  refine ⟨by decide +kernel, ?_⟩
  rw [mesh_pinv]
  exact pwa_pinv_left exMesh_nd exMesh_tc (by decide +kernel)


/-- PROPERTY (PWA landmarks): each vertex of a target triangle is sent by that triangle's inverse piece exactly
onto the corresponding source vertex -/
theorem pwa_pinv_landmarks {m : PWA} (hnd : NonDegenerate m) (q : Tri × Tri) (hq : q ∈ m) :
    piece q.2 q.1 q.2.a = q.1.a ∧ piece q.2 q.1 q.2.b = q.1.b ∧ piece q.2 q.1 q.2.c = q.1.c :=
  ⟨piece_vertex_a _ _ (hnd q hq).2, piece_vertex_b _ _ (hnd q hq).2, piece_vertex_c _ _ (hnd q hq).2⟩

/-! ## thin plate splines -/

/-- a spline whose kernel is centred on its own source points interpolates -/
theorem tps_interpolates {n : ℕ} (φ : ℚ → ℚ) (t : TPS n) (hc : t.ctr = t.src) {C : Idx n → P2}
    (h : t.coef φ = some C) (i : Fin n) : t.eval φ C (t.src i) = t.tgt i := by
  unfold TPS.coef at h
  have hs := solve_sound h (.inl i)
  rw [hc] at hs
  simp only [sysL_symm φ t.src _ (Sum.inl i), rhs] at hs
  apply P2.ext'
  · rw [← hs.1]; unfold TPS.eval; simp only [hc]
    congr 1; funext j; cases j <;> simp [sysL]
  · rw [← hs.2]; unfold TPS.eval; simp only [hc]
    congr 1; funext j; cases j <;> simp [sysL]


/-- if the spline is solvable at all, `apply` sends each source landmark exactly onto its target landmark -/
theorem tps_apply_landmark {n : ℕ} (φ : ℚ → ℚ) (t : TPS n) (hc : t.ctr = t.src) (i : Fin n) {z : P2}
    (h : t.apply φ (t.src i) = some z) : z = t.tgt i := by
  unfold TPS.apply at h
  cases hC : t.coef φ with
  | none => rw [hC] at h; cases h
  | some C =>
    rw [hC] at h
    rw [← Option.some.inj h]
    exact tps_interpolates φ t hc hC i

/-- PROPERTY (TPS, repaired inverse): the pseudoinverse is the spline fitted in the reverse direction — source and
target exchanged, kernel centred on the new source — and it sends every target landmark exactly back onto its
source landmark (for any kernel function `φ`, whenever the reverse system is solvable). -/
theorem tps_pinvFixed_reverse_fit {n : ℕ} (φ : ℚ → ℚ) (t : TPS n) :
    t.pinvFixed = TPS.fit t.tgt t.src ∧ t.pinvFixed.src = t.tgt ∧ t.pinvFixed.tgt = t.src ∧
      ∀ (i : Fin n) (z : P2), t.pinvFixed.apply φ (t.tgt i) = some z → z = t.src i :=
  ⟨rfl, rfl, rfl, fun i _ h => tps_apply_landmark φ t.pinvFixed rfl i h⟩

/-- the fitted spline itself (default kernel) interpolates -/
theorem tps_fit_interpolates {n : ℕ} (φ : ℚ → ℚ) (src tgt : Fin n → P2) (i : Fin n) {z : P2}
    (h : (TPS.fit src tgt).apply φ (src i) = some z) : z = tgt i :=
  tps_apply_landmark φ (TPS.fit src tgt) rfl i h

/-! ### the inverse as coded is refuted by a witness; the repaired one passes on the same data -/

def exPts (l : List (ℚ × ℚ)) : Fin 5 → P2 := fun i => ⟨(l.getD i.val (0, 0)).1, (l.getD i.val (0, 0)).2⟩

/-- the five-point example of DESIGN.md §7 #1 -/
def exTPS : TPS 5 :=
  TPS.fit (exPts [(-1, -1), (-1, 1), (1, -1), (1, 1), (0, 0)])
    (exPts [(-2, -1), (-1, 2), (2, -2), (1, 1), (1/2, 1/4)])

/-- a rational stand-in for the radial function (`r⁴`); the defect does not depend on the kernel -/
def exφ (q : ℚ) : ℚ := q * q

/-- non-vacuity of `tps_interpolates`: the example is solvable and interpolates -/
theorem exTPS_interpolates : ∀ i : Fin 5, exTPS.apply exφ (exTPS.src i) = some (exTPS.tgt i) := by
  decide +kernel

/-- REFUTATION of the coded behaviour: `ThinPlateSplines(target, source, kernel=self.kernel)` keeps the kernel centred
on the old source points; the resulting transform is solvable but does not send the target landmarks back onto the
source landmarks (the last one should return to the origin). -/
theorem tps_pinvCoded_refuted :
    ∃ (φ : ℚ → ℚ) (t : TPS 5) (i : Fin 5) (z : P2), t.ctr = t.src ∧
      t.pinvCoded.apply φ (t.tgt i) = some z ∧ z ≠ t.src i :=
  ⟨exφ, exTPS, 4, ⟨-10402/433855, -670773/6941680⟩, rfl, by decide +kernel, by decide +kernel⟩

/-- the repaired inverse on the same data returns every landmark -/
theorem tps_pinvFixed_example : ∀ i : Fin 5, exTPS.pinvFixed.apply exφ (exTPS.tgt i) = some (exTPS.src i) := by
  decide +kernel

/-- and the coded inverse is not the reverse fit: its kernel centres are the old source points -/
theorem tps_pinvCoded_not_reverse_fit : exTPS.pinvCoded.ctr 0 ≠ (TPS.fit exTPS.tgt exTPS.src).ctr 0 := by
  decide +kernel

end MenpoModel.C04
