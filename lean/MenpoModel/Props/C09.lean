/-
C09 — apply() is pure: no history, aliasing or batch-size effects.  Property theorems (collected).

  Props/C09Base.lean   batching, the abstract failure mask, the CachedPWA memo, frame ⇒ purity
  Props/C09Pwa.lean    the piecewise-affine point location (`index_alpha_beta`, `_apply`, batched apply,
                       `pwa_point_in_pointcloud`): array-level model = per-point reading; mask, batch size,
                       grouping, permutation
  Props/C09Geom.lean   `alpha_beta` are the barycentric coordinates (ℚ algebra): containment = closed triangle,
                       image = barycentric combination of the target vertices
  Props/C09Chain.lean  `TransformChain._apply` / `WithDims._apply` as folds; chains with a piecewise-affine member
  Props/C09Memo.lean   the memo as its two attributes written in sequence
  Props/C09Src.lean    the definitions that mirror the source text (Core/C09Src.lean, proved equal to the translation of
                       the working tree by GenProps/C09Src.lean) are this model; the property theorems restated for them
  below                the caching piecewise affine transform end to end; fresh-transform form of the frame theorem
-/
import MenpoModel.Props.C09Base
import MenpoModel.Props.C09Pwa
import MenpoModel.Props.C09Geom
import MenpoModel.Props.C09Chain
import MenpoModel.Props.C09Memo
import MenpoModel.Props.C09Src

namespace MenpoModel.C09

/-- `AbstractPWA._apply` of the caching class: the memoised `(index, alpha, beta)` pushed through the target
triangles (`none` = no value stored; unreachable after a successful `index_alpha_beta`) -/
def finishApply (tgt : List Tri) :
    Except (List Bool) (Option (List (Nat × Rat × Rat))) → Except (List Bool) (List Pt)
  | .ok (some iab) => .ok (iab.map fun tab => bary (tgt.getD tab.1 default) tab.2.1 tab.2.2)
  | .ok none => .ok []
  | .error m => .error m

/-- PROPERTY (the caching piecewise-affine transform, end to end): a fresh `CachedPWA` driven through *any* finite
interleaving of `apply` calls on caller arrays and in-place edits of those arrays (arrays re-used, values that
differ arbitrarily little, failed applications in between) returns at every call exactly the stateless
piecewise-affine result — mapped points or failure mask — for the current values of the array passed -/
theorem cachedPwa_history_pure (src tgt : List Tri) (ops : List (Op (List Pt))) (heap : Nat → List Pt) :
    ∀ p ∈ run2 false (indexAlphaBeta src) { heap := heap, key := none, iab := none } ops,
      finishApply tgt p.2 = (toPwa src tgt).apply p.1 := by
  intro p hp
  rw [apply_pure_two_attributes (indexAlphaBeta src) ops _ (fresh_memo2Ok _ heap) p hp, ← pwaApply_eq_toPwa]
  unfold pwaApply
  cases indexAlphaBeta src p.1 <;> rfl

/-- frame ⇒ "equals a fresh transform": with `G` the module-level state and `S` the instance attributes, if
`apply` writes neither, then after any history the answer for `x` is the answer of a fresh transform with the
same parameters.  The frame hypothesis is what the regenerated obligations `applyWrites_ok`, `globalWrites_ok`
(measured on live objects) and `hiddenState_ok` (no place for module-level state in the anchored files) check. -/
theorem apply_eq_fresh {G S I O} (m : Machine (G × S) I O) (hframe : ∀ gs x, (m.step gs x).1 = gs)
    (g : G) (s : S) (hist : List I) (x : I) :
    (m.run (g, s) (hist ++ [x])).getLast? = some (m.step (g, s) x).2 := by
  rw [pure_of_no_writes m hframe, List.map_append, List.map_cons, List.map_nil]
  exact List.getLast?_concat

example : finishApply exTgt (.ok (some [(1, 0, 1/2)])) = .ok [(5, 6)] := by decide +kernel

end MenpoModel.C09
