/-
C19 — facts about the dispatch tables of `__getitem__`, `map`, `__add__` (Core/C19Dispatch.lean).
Core Lean only.
-/
import MenpoModel.Core.C19Dispatch

namespace MenpoModel.LazyList

/-- PROPERTY (laziness of indexing): whenever the dispatch answers with a new list or an error, no element is
produced — only the integer-like branch evaluates, and it evaluates one element -/
theorem getitem_element_only_integer_like (f : GetFeat) (h : getitemCoded f = .element) :
    f.iterable = false ∧ (f.isInt = true ∨ f.hasIndex = true) ∧ f.listAcc = .index := by
  unfold getitemCoded at h
  by_cases hi : f.iterable = true
  · simp only [hi, if_true] at h
    split at h
    · cases h
    · split at h
      · cases h
      · split at h <;> cases h
  · have hi' : f.iterable = false := by simpa using hi
    simp only [hi', Bool.false_eq_true, if_false] at h
    by_cases hx : (f.isInt || f.hasIndex) = true
    · simp only [hx, if_true] at h
      refine ⟨hi', by simpa using hx, ?_⟩
      cases hl : f.listAcc <;> simp [hl, outcomeOfList] at h
      rfl
    · simp only [hx] at h
      cases hl : f.listAcc <;> simp [hl, outcomeOfList] at h

/-- PROPERTY: an integer-like, non-container argument is answered exactly as an ordinary list answers it -/
theorem getitem_integer_like_as_list (f : GetFeat) (hi : f.iterable = false) (hx : f.isInt = true ∨ f.hasIndex = true) :
    getitemCoded f = outcomeOfList f.listAcc := by
  have : (f.isInt || f.hasIndex) = true := by simpa using hx
  simp [getitemCoded, hi, this]

/-- a slice (anything `list` answers with a list) gives a new lazy list, never an element -/
theorem getitem_slice_new_list (f : GetFeat) (hi : f.iterable = false) (hs : f.listAcc = .slice) :
    getitemCoded f = .newList := by
  unfold getitemCoded
  simp only [hi, Bool.false_eq_true, if_false, hs, outcomeOfList]
  split <;> rfl

/-- REFUTATION BY WITNESS (coded behaviour): an integer index given as a 0-dimensional array is refused with
TypeError although an ordinary list returns the element -/
theorem zeroD_coded_refuses : getitemCoded zeroDFeat = .typeError ∧ outcomeOfList zeroDFeat.listAcc = .element := by
  decide

/-- the repaired dispatch answers it as an ordinary list does … -/
theorem zeroD_repaired_reads : getitemRepaired zeroDFeat = outcomeOfList zeroDFeat.listAcc := by decide

/-- … and changes nothing for any argument that is not 0-dimensional -/
theorem getitemRepaired_conservative (f : GetFeat) (h : f.zeroDim = false) : getitemRepaired f = getitemCoded f := by
  simp [getitemRepaired, getitemCoded, h]

/-- for every 0-dimensional argument the repaired dispatch is the ordinary list's answer when it is integer-like -/
theorem getitemRepaired_zeroDim (f : GetFeat) (h : f.zeroDim = true) (hx : f.isInt = true ∨ f.hasIndex = true) :
    getitemRepaired f = outcomeOfList f.listAcc := by
  have : (f.isInt || f.hasIndex) = true := by simpa using hx
  simp [getitemRepaired, h, this]

/-- PROPERTY (`map`): a list of callables is accepted exactly when it has one callable per element; a
single object is always accepted (and wrapped lazily); nothing else is possible -/
theorem map_each_iff (f : MapFeat) :
    mapCoded f = .each ↔ f.iterable = true ∧ f.callable = false ∧ f.hasLen = true ∧ f.lenMatches = true := by
  cases f with
  | mk a b c d => cases a <;> cases b <;> cases c <;> cases d <;> simp [mapCoded]

theorem map_single_iff (f : MapFeat) : mapCoded f = .single ↔ f.iterable = false := by
  cases f with
  | mk a b c d => cases a <;> cases b <;> cases c <;> cases d <;> simp [mapCoded]

theorem add_total (f : AddFeat) : addCoded f = .valueError ↔ f.isLazy = false ∧ f.iterable = false := by
  cases f with
  | mk a b => cases a <;> cases b <;> simp [addCoded]

end MenpoModel.LazyList
