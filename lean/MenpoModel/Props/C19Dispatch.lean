/-
C19 — facts about the dispatch tables of `__getitem__`, `map`, `__add__` (Core/C19Dispatch.lean).
Core Lean only.
-/
import MenpoModel.Core.C19Dispatch

namespace MenpoModel.LazyList

/-! The tree's dispatch is `getitemRepaired` (fix 19448fa: a 0-dimensional array is integer-like, not a container);
`getitemCoded` is the dispatch BEFORE that fix and is kept only for the historical refutation below. -/

/-- PROPERTY (laziness of indexing): whenever the dispatch answers with a new list or an error, no element is
produced — only the integer-like branch evaluates, and it evaluates one element -/
theorem getitem_element_only_integer_like (f : GetFeat) (h : getitemRepaired f = .element) :
    (f.iterable = false ∨ f.zeroDim = true) ∧ (f.isInt = true ∨ f.hasIndex = true) ∧ f.listAcc = .index := by
  cases f with
  | mk a b c d e g i l =>
    cases a <;> cases b <;> cases c <;> cases d <;> cases e <;> cases g <;> cases i <;> cases l <;>
      simp_all [getitemRepaired, outcomeOfList]

/-- PROPERTY: an integer-like argument that is not a container (not iterable, or 0-dimensional) is answered exactly as
an ordinary list answers it -/
theorem getitem_integer_like_as_list (f : GetFeat) (hi : f.iterable = false ∨ f.zeroDim = true)
    (hx : f.isInt = true ∨ f.hasIndex = true) : getitemRepaired f = outcomeOfList f.listAcc := by
  have h1 : (f.iterable && !f.zeroDim) = false := by
    rcases hi with h | h <;> simp [h]
  have h2 : (f.isInt || f.hasIndex) = true := by simpa using hx
  simp [getitemRepaired, h1, h2]

/-- a slice (anything `list` answers with a list) gives a new lazy list, never an element -/
theorem getitem_slice_new_list (f : GetFeat) (hi : f.iterable = false ∨ f.zeroDim = true) (hs : f.listAcc = .slice) :
    getitemRepaired f = .newList := by
  have h1 : (f.iterable && !f.zeroDim) = false := by
    rcases hi with h | h <;> simp [h]
  unfold getitemRepaired
  simp only [h1, Bool.false_eq_true, if_false, hs, outcomeOfList]
  split <;> rfl

/-- HISTORICAL (the dispatch before fix 19448fa, no longer the tree's): an integer index given as a 0-dimensional array
was refused with TypeError although an ordinary list returns the element -/
theorem zeroD_coded_refuses : getitemCoded zeroDFeat = .typeError ∧ outcomeOfList zeroDFeat.listAcc = .element := by
  decide

/-- the repaired dispatch answers it as an ordinary list does … -/
theorem zeroD_repaired_reads : getitemRepaired zeroDFeat = outcomeOfList zeroDFeat.listAcc := by decide

/-- … and changes nothing for any argument that is not 0-dimensional -/
theorem getitemRepaired_conservative (f : GetFeat) (h : f.zeroDim = false) : getitemRepaired f = getitemCoded f := by
  simp [getitemRepaired, getitemCoded, h]

/-- for every 0-dimensional argument the repaired dispatch is the ordinary list's answer when it is integer-like -/
theorem getitemRepaired_zeroDim (f : GetFeat) (h : f.zeroDim = true) (hx : f.isInt = true ∨ f.hasIndex = true) :
    getitemRepaired f = outcomeOfList f.listAcc := by
  have : (f.isInt || f.hasIndex) = true := by simpa using hx
  simp [getitemRepaired, h, this]

/-- PROPERTY (`map`): a list of callables is accepted exactly when it has one callable per element; a
single object is always accepted (and wrapped lazily); nothing else is possible -/
theorem map_each_iff (f : MapFeat) :
    mapCoded f = .each ↔ f.iterable = true ∧ f.callable = false ∧ f.hasLen = true ∧ f.lenMatches = true := by
  cases f with
  | mk a b c d => cases a <;> cases b <;> cases c <;> cases d <;> simp [mapCoded]

theorem map_single_iff (f : MapFeat) : mapCoded f = .single ↔ f.iterable = false := by
  cases f with
  | mk a b c d => cases a <;> cases b <;> cases c <;> cases d <;> simp [mapCoded]

theorem add_total (f : AddFeat) : addCoded f = .valueError ↔ f.isLazy = false ∧ f.iterable = false := by
  cases f with
  | mk a b => cases a <;> cases b <;> simp [addCoded]

end MenpoModel.LazyList
